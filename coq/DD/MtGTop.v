(** * MTBDD operations: constants, variables, evaluation, the theorems in
      terms of the interpreter [semk] only, cache transparency and history
      independence, cubes

    - [mt_const_ok], [mt_var_ok], [mt_eval_walk_sem], [mt_eval_assignment];
    - [mt_apply_bin_sound], [mt_apply_ite_sound], [mt_restrict_sound]: for every
      [MtOK] table, correct cache of any [lossy] implementation, operand order
      and fuel >= [FUEL s], the operations return a result whose value under
      every choice is the scalar operation applied to the operands' values;
    - [mfun_of], [mt_apply_bin_mfun], [mt_var_mfun]: the same in terms of
      assignments (variable |-> bool) under the table's variable order;
    - [mt_apply_bin_cache_transparent], [mt_*_history_independent]: the
      returned reference does not depend on the cache, the operand order or
      the history;
    - [cube_den]: a [Cube] denotes the product of its literals;
      [cube_lits_sound]: the checker [cube_lits] establishes [Cube]. *)

From Coq Require Import List NArith ZArith PArith Bool Arith Lia FMapPositive.
From OxiVerif Require Import DD.Table DD.TableProofs DD.Canon DD.Sem DD.Build DD.BuildProofs
  DD.Apply DD.ApplyProofs DD.ApplyEvalProofs DD.MtG DD.MtGBase DD.MtGProofs
  DD.MtGIte DD.MtGRestrict.
Import ListNotations.

Section TG.
Context {TA : talg} {TL : tlaws TA}.

(** ** Cache instances (the instances of DD/Apply.v) *)

Lemma mac_empty_ok : forall s, MCacheOK ac_get s [].
Proof. intros s t_code args r E. discriminate. Qed.

Lemma mnc_ok : forall s c, MCacheOK nc_get s c.
Proof. intros s c t_code args r E. discriminate. Qed.

(** ** Constants and variables *)

Theorem mt_const_ok : forall s v s' r, MtOK s -> twf v -> mt_const s v = (s', r) ->
  MtOK s' /\ mext s s' /\ DenM s' r (fun _ => v) /\
  (forall r0, DenM s r0 (fun _ => v) -> s' = s /\ r = r0).
Proof. intros s v s' r. apply get_terminal_ok. Qed.

Lemma wf_one : twf t_one.
Proof. apply t_one_wf. Qed.
Lemma wf_zero : twf t_zero.
Proof. apply t_zero_wf. Qed.

Theorem mt_var_ok : forall s v, MtOK s -> v < nlevels s ->
  exists lvl s' r, nth_error (s_v2l s) v = Some lvl /\ mt_var s v = Some (s', r) /\
    MtOK s' /\ mext s s' /\
    DenM s' r (fun c => if Nat.eqb (c lvl) 0 then t_one else t_zero).
Proof.
  intros s v B Hv. pose proof (mo_wf s B) as H.
  assert (Hv' : v < length (s_v2l s)) by (rewrite (wf_perm_len s H); exact Hv).
  destruct (wf_perm_v2l s H v Hv') as [lvl [E1 E2]].
  assert (Hlvl : lvl < nlevels s) by (unfold nlevels; apply nth_error_Some; congruence).
  unfold mt_var. rewrite E1.
  destruct (get_terminal s t_one) as [s1 t] eqn:G1.
  destruct (get_terminal_ok s t_one s1 t B wf_one G1) as [B1 [X1 [D1 _]]].
  destruct (get_terminal s1 t_zero) as [s2 e] eqn:G2.
  destruct (get_terminal_ok s1 t_zero s2 e B1 wf_zero G2) as [B2 [X2 [D2 _]]].
  pose proof (denm_mext s1 s2 _ _ B1 X2 D1) as D1'.
  destruct (denm_const_term s2 t t_one B2 D1') as [t1 [-> V1]].
  destruct (denm_const_term s2 e t_zero B2 D2) as [t0 [-> V0]].
  assert (Hne : t1 <> t0).
  { intros ->. rewrite V1 in V0. apply code_zero_one. congruence. }
  pose proof (mo_wf s2 B2) as H2.
  assert (Hl2 : lvl < nlevels s2) by (rewrite (mx_nlevels _ _ X2), (mx_nlevels _ _ X1); exact Hlvl).
  set (ch := [E (RT t1); E (RT t0)]).
  assert (Hae : all_equal ch = false).
  { unfold ch. simpl. unfold edge_eqb. simpl. rewrite andb_true_r, andb_false_iff. left.
    apply N.eqb_neq. exact Hne. }
  assert (Hch : children_ok s2 lvl ch).
  { split; [rewrite (mo_kind s2 B2); reflexivity|].
    intros x [<-|[<-|[]]]; simpl; (split; [eexists; eassumption | split; [exact Hl2 | reflexivity]]). }
  destruct (get_or_insert s2 lvl ch) as [s3 h] eqn:Eg.
  destruct (get_or_insert_wf s2 lvl ch s3 h H2 (mt_kary s2 B2) Hl2 Hch Hae Eg) as [W [X [O3 [_ [_ Sh]]]]].
  exists lvl, s3, (eref h). split; [reflexivity|]. split; [reflexivity|].
  split; [apply (mtok_extends s2 s3 B2 X W)|].
  split; [eapply mext_trans; [exact X1|]; eapply mext_trans; [exact X2 | apply mext_of_extends; exact X]|].
  split; [exact O3|]. intros c Hc. pose proof (Hc lvl) as Hc2.
  destruct (c lvl) as [|[|k]] eqn:Ec; [| |lia].
  - rewrite (Sh c 0 (E (RT t1)) Ec eq_refl). simpl. rewrite semk_T. exact V1.
  - rewrite (Sh c 1 (E (RT t0)) Ec eq_refl). simpl. rewrite semk_T. exact V0.
Qed.

(** ** Evaluation *)

Theorem mt_eval_walk_sem : forall s, WF s -> forall fuel r ch,
  mt_eval_walk fuel s r ch =
  option_map t_decode (semk s fuel r (fun l => if ch l then 1 else 0)).
Proof.
  intros s H. induction fuel as [|n IH]; intros r ch.
  - destruct r as [t|id]; simpl; [|reflexivity].
    rewrite semk_T. destruct (term_val s t); reflexivity.
  - destruct r as [t|id]; simpl mt_eval_walk.
    + rewrite semk_T. destruct (term_val s t); reflexivity.
    + rewrite semk_S. destruct (find_node s id) as [nd|] eqn:En; [|reflexivity].
      rewrite (wf_stored s H id nd En).
      destruct (ch (nlevel nd));
        (destruct (nth_error (nchildren nd) _) as [e|]; [apply IH | reflexivity]).
Qed.

(** value of [r] under [c0]: [semk] with the standard fuel, as a terminal value *)
Definition mvalue (s : snap) (r : ref) (c0 : nat -> nat) (x : tV) : Prop :=
  semk s (FUEL s) r c0 = Some (t_code x).

Lemma mvalue_fun : forall s r c0 x y, mvalue s r c0 x -> mvalue s r c0 y -> x = y.
Proof. intros s r c0 x y A B. unfold mvalue in *. apply code_inj. congruence. Qed.

(** the function of a reference in terms of assignments (variable |-> bool)
    under the table's variable order ([choice_of], DD/ApplyEvalProofs.v) *)
Definition mfun_of (s : snap) (r : ref) : asg -> tV :=
  fun a => match semk s (FUEL s) r (choice_of s a) with Some n => t_decode n | None => t_nan end.

Lemma mfun_of_den : forall s r phi, DenM s r phi -> forall a, mfun_of s r a = phi (choice_of s a).
Proof.
  intros s r phi [_ D] a. unfold mfun_of, FUEL. rewrite (D _ (choice_of_bchoice s a)).
  apply t_decode_code.
Qed.

Theorem mt_eval_sem : forall s r args, MtOK s -> ref_ok s r ->
  exists x, mt_eval s r args = Some x /\
    mvalue s r (fun l => if choices_of s args (fun _ => false) l then 1 else 0) x.
Proof.
  intros s r args B Hok. unfold mt_eval. rewrite (mt_eval_walk_sem s (mo_wf s B)).
  destruct (denm_exists s r B Hok) as [phi D].
  set (c := fun l => if choices_of s args (fun _ => false) l then 1 else 0).
  assert (Hc : bchoice c) by (intros l; unfold c; destruct (choices_of s args _ l); lia).
  exists (phi c). unfold mvalue, FUEL. rewrite (proj2 D c Hc). split; [|reflexivity].
  simpl. rewrite t_decode_code. reflexivity.
Qed.

(** for an argument list that gives every variable its value under [a],
    [eval] returns the value of the reference's function at [a] *)
Theorem mt_eval_assignment : forall s r (a : asg) args, MtOK s -> ref_ok s r ->
  (forall v b, In (v, b) args -> b = a v /\ v < nlevels s) ->
  (forall v, v < nlevels s -> In v (map fst args)) ->
  mt_eval s r args = Some (mfun_of s r a).
Proof.
  intros s r a args B Hok Hcons Hall. pose proof (mo_wf s B) as H.
  destruct (mt_eval_sem s r args B Hok) as [x [E V]]. rewrite E. f_equal.
  destruct (denm_exists s r B Hok) as [phi D]. rewrite (mfun_of_den s r phi D).
  set (c := fun l => if choices_of s args (fun _ => false) l then 1 else 0) in *.
  assert (Hc : bchoice c) by (intros l; unfold c; destruct (choices_of s args _ l); lia).
  apply (mvalue_fun s r c); [exact V|]. unfold mvalue, FUEL.
  rewrite (proj2 D c Hc). do 2 f_equal.
  apply (denm_indep s r phi H D c (choice_of s a) Hc (choice_of_bchoice s a)).
  intros l _. unfold c, choice_of.
  assert (Hlen : length (s_v2l s) = nlevels s) by (apply (wf_perm_len s H)).
  rewrite (choices_of_consistent s a H args _ l)
    by (intros v b Hin; destruct (Hcons v b Hin); split; [assumption | lia]).
  destruct (nth_error (s_l2v s) l) as [v|] eqn:El.
  - assert (Hl : l < length (s_l2v s)) by (apply nth_error_Some; congruence).
    destruct (wf_perm_l2v s H l Hl) as [v' [E1 E2]]. rewrite El in E1. inversion E1; subst v'.
    assert (Hv : v < nlevels s) by (rewrite <- Hlen; apply nth_error_Some; congruence).
    assert (Hex : existsb (fun p : nat * bool => match nth_error (s_v2l s) (fst p) with
                              | Some lv => Nat.eqb l lv | None => false end) args = true).
    { apply existsb_exists. specialize (Hall v Hv). apply in_map_iff in Hall.
      destruct Hall as [[v0 b0] [Ev Hin]]. simpl in Ev. subst v0.
      exists (v, b0). split; [exact Hin|]. simpl. rewrite E2. apply Nat.eqb_refl. }
    rewrite Hex. destruct (a v); reflexivity.
  - destruct (existsb _ args); reflexivity.
Qed.

(** ** The theorems in terms of [semk] only *)

Section Top.
Variable gt : ref -> ref -> bool.
Variable C : Type.
Variable cget : C -> N -> list ref -> option ref.
Variable cadd : C -> N -> list ref -> ref -> C.
Hypothesis Hlossy : lossy cget cadd.

Theorem mt_apply_bin_sound : forall op fuel s c f g,
  MtOK s -> MCacheOK cget s c -> ref_ok s f -> ref_ok s g -> FUEL s <= fuel ->
  exists s' c' r, mt_apply_bin gt C cget cadd fuel s c op f g = Some (s', c', r) /\
    MtOK s' /\ mext s s' /\ MCacheOK cget s' c' /\ ref_ok s' r /\
    forall c0, bchoice c0 -> exists x y,
      mvalue s f c0 x /\ mvalue s g c0 y /\ mvalue s' r c0 (mop_eval op x y).
Proof.
  intros op fuel s c f g B O Hf Hg Hfuel.
  destruct (denm_exists s f B Hf) as [phi Df]. destruct (denm_exists s g B Hg) as [psi Dg].
  unfold FUEL in Hfuel.
  destruct (mt_apply_bin_ok gt C cget cadd Hlossy op fuel s c f g phi psi B O Df Dg ltac:(lia))
    as [s' [c' [r [E [B' [X [O' [D' _]]]]]]]].
  exists s', c', r. repeat (split; [assumption|]). split; [apply (proj1 D')|].
  intros c0 Hc. exists (phi c0), (psi c0).
  split; [apply (proj2 Df c0 Hc)|]. split; [apply (proj2 Dg c0 Hc) | apply (proj2 D' c0 Hc)].
Qed.

Theorem mt_apply_ite_sound : forall fuel s c f g h,
  MtOK s -> MCacheOK cget s c -> ref_ok s f -> ref_ok s g -> ref_ok s h -> FUEL s <= fuel ->
  exists s' c' r, mt_apply_ite C cget cadd fuel s c f g h = Some (s', c', r) /\
    MtOK s' /\ mext s s' /\ MCacheOK cget s' c' /\ ref_ok s' r /\
    forall c0, bchoice c0 -> exists x y z,
      mvalue s f c0 x /\ mvalue s g c0 y /\ mvalue s h c0 z /\
      mvalue s' r c0 (if t_is_zero x then z else y).
Proof.
  intros fuel s c f g h B O Hf Hg Hh Hfuel.
  destruct (denm_exists s f B Hf) as [phi Df]. destruct (denm_exists s g B Hg) as [psi Dg].
  destruct (denm_exists s h B Hh) as [theta Dh]. unfold FUEL in Hfuel.
  destruct (mt_apply_ite_ok C cget cadd Hlossy fuel s c f g h phi psi theta B O Df Dg Dh ltac:(lia))
    as [s' [c' [r [E [B' [X [O' [D' _]]]]]]]].
  exists s', c', r. repeat (split; [assumption|]). split; [apply (proj1 D')|].
  intros c0 Hc. exists (phi c0), (psi c0), (theta c0).
  split; [apply (proj2 Df c0 Hc)|]. split; [apply (proj2 Dg c0 Hc)|].
  split; [apply (proj2 Dh c0 Hc) | apply (proj2 D' c0 Hc)].
Qed.

Theorem mt_restrict_sound : forall fuel s c f vars lits,
  MtOK s -> MCacheOK cget s c -> ref_ok s f -> Cube s vars lits -> FUEL s <= fuel ->
  exists s' c' r, mt_restrict C cget cadd fuel s c f vars = Some (s', c', r) /\
    MtOK s' /\ mext s s' /\ MCacheOK cget s' c' /\ ref_ok s' r /\
    forall c0, bchoice c0 -> exists x,
      mvalue s f (ovr lits c0) x /\ mvalue s' r c0 x.
Proof.
  intros fuel s c f vars lits B O Hf Hcube Hfuel.
  destruct (denm_exists s f B Hf) as [phi Df]. unfold FUEL in Hfuel.
  pose proof (rlevel_le s (mo_wf s B) f).
  destruct (mt_restrict_ok C cget cadd Hlossy fuel s c f vars phi lits B O Df Hcube ltac:(lia))
    as [s' [c' [r [E [B' [X [O' [D' _]]]]]]]].
  exists s', c', r. repeat (split; [assumption|]). split; [apply (proj1 D')|].
  intros c0 Hc. exists (phi (ovr lits c0)).
  split; [apply (proj2 Df _ (ovr_bchoice _ _ Hc)) | apply (proj2 D' c0 Hc)].
Qed.

(** in terms of assignments *)
Theorem mt_apply_bin_mfun : forall op s c f g,
  MtOK s -> MCacheOK cget s c -> ref_ok s f -> ref_ok s g ->
  exists s' c' r, mt_apply_bin gt C cget cadd (FUEL s) s c op f g = Some (s', c', r) /\
    MtOK s' /\ mext s s' /\ ref_ok s' r /\
    forall a, mfun_of s' r a = mop_eval op (mfun_of s f a) (mfun_of s g a).
Proof.
  intros op s c f g B O Hf Hg.
  destruct (denm_exists s f B Hf) as [phi Df]. destruct (denm_exists s g B Hg) as [psi Dg].
  destruct (mt_apply_bin_ok gt C cget cadd Hlossy op (FUEL s) s c f g phi psi B O Df Dg
              ltac:(unfold FUEL; lia)) as [s' [c' [r [E [B' [X [_ [D' _]]]]]]]].
  exists s', c', r. split; [exact E|]. split; [exact B'|]. split; [exact X|]. split; [apply (proj1 D')|].
  intros a. rewrite (mfun_of_den s' r _ D'), (mfun_of_den s f phi Df), (mfun_of_den s g psi Dg).
  unfold choice_of. rewrite (mx_l2v _ _ X). reflexivity.
Qed.

End Top.

Theorem mt_var_mfun : forall s v, MtOK s -> v < nlevels s ->
  exists s' r, mt_var s v = Some (s', r) /\ MtOK s' /\ mext s s' /\ ref_ok s' r /\
    forall a, mfun_of s' r a = if a v then t_one else t_zero.
Proof.
  intros s v B Hv.
  destruct (mt_var_ok s v B Hv) as [lvl [s' [r [E1 [Em [B' [X D]]]]]]].
  exists s', r. split; [exact Em|]. split; [exact B'|]. split; [exact X|]. split; [apply (proj1 D)|].
  intros a. rewrite (mfun_of_den s' r _ D). unfold choice_of.
  pose proof (mo_wf s B) as H.
  assert (Hv' : v < length (s_v2l s)) by (rewrite (wf_perm_len s H); exact Hv).
  destruct (wf_perm_v2l s H v Hv') as [lvl' [F1 F2]]. rewrite E1 in F1. inversion F1; subst lvl'.
  rewrite (mx_l2v _ _ X), F2. destruct (a v); reflexivity.
Qed.

Theorem mt_const_mfun : forall s v s' r, MtOK s -> twf v -> mt_const s v = (s', r) ->
  MtOK s' /\ mext s s' /\ ref_ok s' r /\ forall a, mfun_of s' r a = v.
Proof.
  intros s v s' r B Hv E. destruct (mt_const_ok s v s' r B Hv E) as [B' [X [D _]]].
  split; [exact B'|]. split; [exact X|]. split; [apply (proj1 D)|].
  intros a. apply (mfun_of_den s' r _ D).
Qed.

(** ** The returned handle does not depend on the cache or on history *)

Section Transparent.
(** two arbitrary cache implementations and operand orders *)
Variables gt1 gt2 : ref -> ref -> bool.
Variables C1 C2 : Type.
Variable cget1 : C1 -> N -> list ref -> option ref.
Variable cadd1 : C1 -> N -> list ref -> ref -> C1.
Variable cget2 : C2 -> N -> list ref -> option ref.
Variable cadd2 : C2 -> N -> list ref -> ref -> C2.
Hypothesis L1 : lossy cget1 cadd1.
Hypothesis L2 : lossy cget2 cadd2.

(** (a) whatever the two caches contain (as long as it is correct), the two
    results denote the same function *)
Theorem mt_apply_bin_cache_transparent : forall op s c1 c2 f g fuel1 fuel2 s1 c1' r1 s2 c2' r2,
  MtOK s -> MCacheOK cget1 s c1 -> MCacheOK cget2 s c2 -> ref_ok s f -> ref_ok s g ->
  FUEL s <= fuel1 -> FUEL s <= fuel2 ->
  mt_apply_bin gt1 C1 cget1 cadd1 fuel1 s c1 op f g = Some (s1, c1', r1) ->
  mt_apply_bin gt2 C2 cget2 cadd2 fuel2 s c2 op f g = Some (s2, c2', r2) ->
  forall c0, bchoice c0 -> semk s1 (FUEL s1) r1 c0 = semk s2 (FUEL s2) r2 c0.
Proof.
  intros op s c1 c2 f g fuel1 fuel2 s1 c1' r1 s2 c2' r2 B O1 O2 Hf Hg F1 F2 E1 E2 c0 Hc.
  destruct (denm_exists s f B Hf) as [phi Df]. destruct (denm_exists s g B Hg) as [psi Dg].
  unfold FUEL in F1, F2.
  destruct (mt_apply_bin_ok gt1 C1 cget1 cadd1 L1 op fuel1 s c1 f g phi psi B O1 Df Dg ltac:(lia))
    as [sa [ca [ra [Ea [_ [_ [_ [Da _]]]]]]]].
  destruct (mt_apply_bin_ok gt2 C2 cget2 cadd2 L2 op fuel2 s c2 f g phi psi B O2 Df Dg ltac:(lia))
    as [sb [cb [rb [Eb [_ [_ [_ [Db _]]]]]]]].
  rewrite E1 in Ea. rewrite E2 in Eb. inversion Ea; subst. inversion Eb; subst.
  unfold FUEL. rewrite (proj2 Da c0 Hc), (proj2 Db c0 Hc). reflexivity.
Qed.

(** (b) repeating the operation in any later state of the same table (more
    nodes and terminals, any correct cache of any implementation, any operand
    order) returns the identical reference and leaves the table unchanged *)
Theorem mt_apply_bin_history_independent : forall op s c1 f g fuel1 s1 c1' r1,
  MtOK s -> MCacheOK cget1 s c1 -> ref_ok s f -> ref_ok s g -> FUEL s <= fuel1 ->
  mt_apply_bin gt1 C1 cget1 cadd1 fuel1 s c1 op f g = Some (s1, c1', r1) ->
  forall s2 c2 fuel2, MtOK s2 -> mext s1 s2 -> MCacheOK cget2 s2 c2 -> FUEL s2 <= fuel2 ->
  exists c2', mt_apply_bin gt2 C2 cget2 cadd2 fuel2 s2 c2 op f g = Some (s2, c2', r1).
Proof.
  intros op s c1 f g fuel1 s1 c1' r1 B O1 Hf Hg F1 E1 s2 c2 fuel2 B2 X O2 F2.
  destruct (denm_exists s f B Hf) as [phi Df]. destruct (denm_exists s g B Hg) as [psi Dg].
  unfold FUEL in F1, F2.
  destruct (mt_apply_bin_ok gt1 C1 cget1 cadd1 L1 op fuel1 s c1 f g phi psi B O1 Df Dg ltac:(lia))
    as [sa [ca [ra [Ea [Ba [Xa [_ [Da _]]]]]]]].
  rewrite E1 in Ea. inversion Ea; subst sa ca ra.
  assert (X02 : mext s s2) by (eapply mext_trans; eauto).
  pose proof (denm_mext s s2 _ _ B X02 Df) as Df2. pose proof (denm_mext s s2 _ _ B X02 Dg) as Dg2.
  destruct (mt_apply_bin_ok gt2 C2 cget2 cadd2 L2 op fuel2 s2 c2 f g phi psi B2 O2 Df2 Dg2 ltac:(lia))
    as [sb [cb [rb [Eb [_ [_ [_ [_ Sb]]]]]]]].
  destruct (Sb r1 (denm_mext s1 s2 _ _ Ba X Da)) as [-> ->].
  exists cb. exact Eb.
Qed.

Theorem mt_apply_ite_history_independent : forall s c1 f g h fuel1 s1 c1' r1,
  MtOK s -> MCacheOK cget1 s c1 -> ref_ok s f -> ref_ok s g -> ref_ok s h -> FUEL s <= fuel1 ->
  mt_apply_ite C1 cget1 cadd1 fuel1 s c1 f g h = Some (s1, c1', r1) ->
  forall s2 c2 fuel2, MtOK s2 -> mext s1 s2 -> MCacheOK cget2 s2 c2 -> FUEL s2 <= fuel2 ->
  exists c2', mt_apply_ite C2 cget2 cadd2 fuel2 s2 c2 f g h = Some (s2, c2', r1).
Proof.
  intros s c1 f g h fuel1 s1 c1' r1 B O1 Hf Hg Hh F1 E1 s2 c2 fuel2 B2 X O2 F2.
  destruct (denm_exists s f B Hf) as [phi Df]. destruct (denm_exists s g B Hg) as [psi Dg].
  destruct (denm_exists s h B Hh) as [theta Dh]. unfold FUEL in F1, F2.
  destruct (mt_apply_ite_ok C1 cget1 cadd1 L1 fuel1 s c1 f g h phi psi theta B O1 Df Dg Dh ltac:(lia))
    as [sa [ca [ra [Ea [Ba [Xa [_ [Da _]]]]]]]].
  rewrite E1 in Ea. inversion Ea; subst sa ca ra.
  assert (X02 : mext s s2) by (eapply mext_trans; eauto).
  pose proof (denm_mext s s2 _ _ B X02 Df) as Df2. pose proof (denm_mext s s2 _ _ B X02 Dg) as Dg2.
  pose proof (denm_mext s s2 _ _ B X02 Dh) as Dh2.
  destruct (mt_apply_ite_ok C2 cget2 cadd2 L2 fuel2 s2 c2 f g h phi psi theta B2 O2 Df2 Dg2 Dh2 ltac:(lia))
    as [sb [cb [rb [Eb [_ [_ [_ [_ Sb]]]]]]]].
  destruct (Sb r1 (denm_mext s1 s2 _ _ Ba X Da)) as [-> ->].
  exists cb. exact Eb.
Qed.

Theorem mt_restrict_history_independent : forall s c1 f vars lits fuel1 s1 c1' r1,
  MtOK s -> MCacheOK cget1 s c1 -> ref_ok s f -> Cube s vars lits -> FUEL s <= fuel1 ->
  mt_restrict C1 cget1 cadd1 fuel1 s c1 f vars = Some (s1, c1', r1) ->
  forall s2 c2 fuel2, MtOK s2 -> mext s1 s2 -> MCacheOK cget2 s2 c2 -> FUEL s2 <= fuel2 ->
  exists c2', mt_restrict C2 cget2 cadd2 fuel2 s2 c2 f vars = Some (s2, c2', r1).
Proof.
  intros s c1 f vars lits fuel1 s1 c1' r1 B O1 Hf Hcube F1 E1 s2 c2 fuel2 B2 X O2 F2.
  destruct (denm_exists s f B Hf) as [phi Df]. unfold FUEL in F1, F2.
  pose proof (rlevel_le s (mo_wf s B) f).
  destruct (mt_restrict_ok C1 cget1 cadd1 L1 fuel1 s c1 f vars phi lits B O1 Df Hcube ltac:(lia))
    as [sa [ca [ra [Ea [Ba [Xa [_ [Da _]]]]]]]].
  rewrite E1 in Ea. inversion Ea; subst sa ca ra.
  assert (X02 : mext s s2) by (eapply mext_trans; eauto).
  pose proof (denm_mext s s2 _ _ B X02 Df) as Df2.
  pose proof (cube_mext s s2 _ _ X02 Hcube) as Hcube2.
  pose proof (rlevel_le s2 (mo_wf s2 B2) f).
  destruct (mt_restrict_ok C2 cget2 cadd2 L2 fuel2 s2 c2 f vars phi lits B2 O2 Df2 Hcube2 ltac:(lia))
    as [sb [cb [rb [Eb [_ [_ [_ [_ Sb]]]]]]]].
  destruct (Sb r1 (denm_mext s1 s2 _ _ Ba X Da)) as [-> ->].
  exists cb. exact Eb.
Qed.

End Transparent.

(** (c) in its result table the returned reference is THE reference with the
    result's meaning *)
Theorem mt_apply_bin_result_unique : forall gt C cget cadd, lossy cget cadd ->
  forall op fuel s (c : C) f g s' c' r,
  MtOK s -> MCacheOK cget s c -> ref_ok s f -> ref_ok s g -> FUEL s <= fuel ->
  mt_apply_bin gt C cget cadd fuel s c op f g = Some (s', c', r) ->
  forall r0, ref_ok s' r0 ->
    (forall c0, bchoice c0 -> exists x y,
        mvalue s f c0 x /\ mvalue s g c0 y /\ mvalue s' r0 c0 (mop_eval op x y)) ->
    r0 = r.
Proof.
  intros gt C cget cadd L op fuel s c f g s' c' r B O Hf Hg F E r0 H0 Hsem.
  destruct (denm_exists s f B Hf) as [phi Df]. destruct (denm_exists s g B Hg) as [psi Dg].
  unfold FUEL in F.
  destruct (mt_apply_bin_ok gt C cget cadd L op fuel s c f g phi psi B O Df Dg ltac:(lia))
    as [sa [ca [ra [Ea [Ba [_ [_ [Da _]]]]]]]].
  rewrite E in Ea. inversion Ea; subst sa ca ra.
  apply (denm_canon s' r0 r (fun c0 => mop_eval op (phi c0) (psi c0)) Ba); [|exact Da].
  split; [exact H0|]. intros c0 Hc. destruct (Hsem c0 Hc) as [x [y [Vx [Vy V0]]]].
  rewrite (mvalue_fun s f c0 _ _ (proj2 Df c0 Hc) Vx), (mvalue_fun s g c0 _ _ (proj2 Dg c0 Hc) Vy).
  exact V0.
Qed.

(** ** Cubes *)

(** all literals hold under a choice (child 0 = variable true) *)
Definition lits_hold (lits : list (nat * bool)) (c : nat -> nat) : bool :=
  forallb (fun p : nat * bool => Nat.eqb (c (fst p)) (if snd p then 0 else 1)) lits.

(** a cube denotes the product of its literals: 1 where all hold, 0 elsewhere *)
Theorem cube_den : forall s r lits, MtOK s -> Cube s r lits ->
  DenM s r (fun c => if lits_hold lits c then t_one else t_zero).
Proof.
  intros s r lits B Hc. pose proof (mo_wf s B) as H. pose proof (mt_kary s B) as Hk.
  induction Hc as [t Et | id nd rest t0 lits En Ech Et Hr IH | id nd rest t0 lits En Ech Et Hr IH].
  - apply (denm_ext s (RT t) (fun _ => t_one)); [apply denm_term; exact Et | reflexivity].
  - split; [exists nd; exact En|]. intros c Hcb. pose proof (Hcb (nlevel nd)) as Hc2.
    change (semk s (S (nlevels s)) (RN id) c) with (semn s (RN id) c).
    destruct (c (nlevel nd)) as [|[|k]] eqn:Ec; [| |lia].
    + rewrite (semn_node s H id nd (E rest) c En) by (rewrite Ec, Ech; reflexivity).
      unfold semn. simpl eref. rewrite (proj2 IH c Hcb). simpl lits_hold. rewrite Ec. reflexivity.
    + rewrite (semn_node s H id nd (E (RT t0)) c En) by (rewrite Ec, Ech; reflexivity).
      unfold semn. simpl eref. rewrite semk_T, Et. simpl lits_hold. rewrite Ec. reflexivity.
  - split; [exists nd; exact En|]. intros c Hcb. pose proof (Hcb (nlevel nd)) as Hc2.
    change (semk s (S (nlevels s)) (RN id) c) with (semn s (RN id) c).
    destruct (c (nlevel nd)) as [|[|k]] eqn:Ec; [| |lia].
    + rewrite (semn_node s H id nd (E (RT t0)) c En) by (rewrite Ec, Ech; reflexivity).
      unfold semn. simpl eref. rewrite semk_T, Et. simpl lits_hold. rewrite Ec. reflexivity.
    + rewrite (semn_node s H id nd (E rest) c En) by (rewrite Ec, Ech; reflexivity).
      unfold semn. simpl eref. rewrite (proj2 IH c Hcb). simpl lits_hold. rewrite Ec. reflexivity.
Qed.

(** the checker establishes [Cube] *)
Theorem cube_lits_sound : forall s, MtOK s -> forall fuel r lits,
  cube_lits fuel s r = Some lits -> Cube s r lits.
Proof.
  intros s B. pose proof (mo_wf s B) as H.
  assert (Hnb : s_kind s <> KBcdd) by (rewrite (mo_kind s B); discriminate).
  assert (Zero : forall e : edge, etag e = false ->
            match eref e with
            | RT t => match term_val s t with Some c => t_is_zero (t_decode c) | None => false end
            | RN _ => false
            end = true ->
            exists t0, e = E (RT t0) /\ term_val s t0 = Some (t_code t_zero)).
  { intros [[t|id] tag] Htag Hz; simpl in Htag, Hz; [|discriminate]. subst tag.
    destruct (term_val s t) as [c|] eqn:Et; [|discriminate].
    apply t_is_zero_spec in Hz. exists t. split; [reflexivity|].
    rewrite Et, <- (t_code_decode c), Hz. reflexivity. }
  induction fuel as [|n IH]; intros r lits E.
  - destruct r as [t|id]; simpl in E; [|discriminate].
    destruct (term_val s t) as [c|] eqn:Et; [|discriminate].
    destruct (t_is_one (t_decode c)) eqn:E1; [|discriminate]. inversion E; subst.
    apply CubeOne. apply t_is_one_spec in E1. rewrite <- E1, t_code_decode. exact Et.
  - destruct r as [t|id]; simpl in E.
    + destruct (term_val s t) as [c|] eqn:Et; [|discriminate].
      destruct (t_is_one (t_decode c)) eqn:E1; [|discriminate]. inversion E; subst.
      apply CubeOne. apply t_is_one_spec in E1. rewrite <- E1, t_code_decode. exact Et.
    + destruct (find_node s id) as [nd|] eqn:En; [|discriminate].
      destruct (nchildren nd) as [|a [|b [|x rest]]] eqn:Ech; try discriminate.
      assert (Ta : etag a = false) by (apply (wf_tags s H Hnb id nd a En); rewrite Ech; simpl; auto).
      assert (Tb : etag b = false) by (apply (wf_tags s H Hnb id nd b En); rewrite Ech; simpl; auto).
      match type of E with (if ?zb then _ else _) = _ => destruct zb eqn:Zb end.
      * destruct (cube_lits n s (eref a)) as [l|] eqn:El; [|discriminate]. inversion E; subst.
        destruct (Zero b Tb Zb) as [t0 [-> Et0]].
        apply (CubePos s id nd (eref a) t0 l En); [|exact Et0 | apply IH; exact El].
        rewrite Ech. f_equal. destruct a as [ra ta]. simpl in Ta. subst ta. reflexivity.
      * match type of E with (if ?za then _ else _) = _ => destruct za eqn:Za end; [|discriminate].
        destruct (cube_lits n s (eref b)) as [l|] eqn:El; [|discriminate]. inversion E; subst.
        destruct (Zero a Ta Za) as [t0 [-> Et0]].
        apply (CubeNeg s id nd (eref b) t0 l En); [|exact Et0 | apply IH; exact El].
        rewrite Ech. f_equal. destruct b as [rb tb]. simpl in Tb. subst tb. reflexivity.
Qed.

(** ** restrict in terms of assignments *)

(** the assignment [a] with the variables of the cube's literals forced
    (literal at level [l] = literal of the variable at that level) *)
Definition force_asg (s : snap) (lits : list (nat * bool)) (a : asg) : asg :=
  fun v => match nth_error (s_v2l s) v with
           | Some l => match assoc_nat lits l with Some b => b | None => a v end
           | None => a v
           end.

Lemma choice_of_force : forall s r lits a l, WF s -> Cube s r lits ->
  ovr lits (choice_of s a) l = choice_of s (force_asg s lits a) l.
Proof.
  intros s r lits a l H Hc. unfold choice_of at 2.
  destruct (nth_error (s_l2v s) l) as [v|] eqn:El.
  - assert (Hl : l < length (s_l2v s)) by (apply nth_error_Some; congruence).
    destruct (wf_perm_l2v s H l Hl) as [v' [E1 E2]]. rewrite El in E1. inversion E1; subst v'.
    unfold force_asg. rewrite E2. unfold ovr, choice_of. rewrite El.
    destruct (assoc_nat lits l) as [b|]; reflexivity.
  - assert (Hl : nlevels s <= l) by (apply nth_error_None in El; exact El).
    rewrite (cube_ovr_above s r lits _ l H Hc Hl). unfold choice_of. rewrite El. reflexivity.
Qed.

Section RestrictAsg.
Variable C : Type.
Variable cget : C -> N -> list ref -> option ref.
Variable cadd : C -> N -> list ref -> ref -> C.
Hypothesis Hlossy : lossy cget cadd.

Theorem mt_restrict_mfun : forall s c f vars lits,
  MtOK s -> MCacheOK cget s c -> ref_ok s f -> Cube s vars lits ->
  exists s' c' r, mt_restrict C cget cadd (FUEL s) s c f vars = Some (s', c', r) /\
    MtOK s' /\ mext s s' /\ ref_ok s' r /\
    forall a, mfun_of s' r a = mfun_of s f (force_asg s lits a).
Proof.
  intros s c f vars lits B O Hf Hcube. pose proof (mo_wf s B) as H.
  destruct (denm_exists s f B Hf) as [phi Df].
  pose proof (rlevel_le s H f).
  destruct (mt_restrict_ok C cget cadd Hlossy (FUEL s) s c f vars phi lits B O Df Hcube
              ltac:(unfold FUEL; lia)) as [s' [c' [r [E [B' [X [_ [D' _]]]]]]]].
  exists s', c', r. split; [exact E|]. split; [exact B'|]. split; [exact X|]. split; [apply (proj1 D')|].
  intros a. rewrite (mfun_of_den s' r _ D'), (mfun_of_den s f phi Df).
  assert (Ec : forall l, choice_of s' a l = choice_of s a l)
    by (intros l; unfold choice_of; rewrite (mx_l2v _ _ X); reflexivity).
  apply (denm_pointwise s f phi _ _ H Df).
  - apply ovr_bchoice. apply choice_of_bchoice.
  - apply choice_of_bchoice.
  - intros l. rewrite <- (choice_of_force s vars lits a l H Hcube).
    unfold ovr. rewrite Ec. reflexivity.
Qed.

End RestrictAsg.

Theorem mt_apply_ite_mfun : forall (C : Type) cget cadd, lossy cget cadd ->
  forall s (c : C) f g h,
  MtOK s -> MCacheOK cget s c -> ref_ok s f -> ref_ok s g -> ref_ok s h ->
  exists s' c' r, mt_apply_ite C cget cadd (FUEL s) s c f g h = Some (s', c', r) /\
    MtOK s' /\ mext s s' /\ ref_ok s' r /\
    forall a, mfun_of s' r a =
      if t_is_zero (mfun_of s f a) then mfun_of s h a else mfun_of s g a.
Proof.
  intros C cget cadd L s c f g h B O Hf Hg Hh.
  destruct (denm_exists s f B Hf) as [phi Df]. destruct (denm_exists s g B Hg) as [psi Dg].
  destruct (denm_exists s h B Hh) as [theta Dh].
  destruct (mt_apply_ite_ok C cget cadd L (FUEL s) s c f g h phi psi theta B O Df Dg Dh
              ltac:(unfold FUEL; lia)) as [s' [c' [r [E [B' [X [_ [D' _]]]]]]]].
  exists s', c', r. split; [exact E|]. split; [exact B'|]. split; [exact X|]. split; [apply (proj1 D')|].
  intros a. rewrite (mfun_of_den s' r _ D'), (mfun_of_den s f phi Df), (mfun_of_den s g psi Dg),
    (mfun_of_den s h theta Dh).
  unfold choice_of. rewrite (mx_l2v _ _ X). reflexivity.
Qed.

End TG.
