(** * The integer terminal type [I64] (terminal/i64.rs, Num/I64.v) as an
      instance of the generic function-level development (DD/MtG*.v)

    [i64_laws]: every scalar law of [tlaws] holds for [I64] - without axioms.
    So the generic theorems ([MtGProofs.mt_apply_bin_ok], ...) also cover
    MTBDD<I64>; DD/ApplyMtbdd*.v remains the development the MTBDD<I64> traces
    are replayed against.  ([i64_alg] is a plain definition, not registered as
    a class instance.) *)

From Coq Require Import List NArith ZArith PArith Bool Arith Lia.
From OxiVerif Require Import DD.Table Num.I64 Num.I64Proofs DD.ApplyMtbdd DD.ApplyMtbddBase.
From OxiVerif Require DD.MtG DD.MtGBase.

Definition i64_alg : MtG.talg := {|
  MtG.tV := i64v;
  MtG.t_code := code;
  MtG.t_decode := decode;
  MtG.t_zero := i64_zero;
  MtG.t_one := i64_one;
  MtG.t_nan := i64_nan;
  MtG.t_add := i64_add;
  MtG.t_sub := i64_sub;
  MtG.t_mul := i64_mul;
  MtG.t_div := i64_div;
  MtG.t_cmp := i64_partial_cmp;
  MtG.t_is_zero := i64_is_zero;
  MtG.t_is_one := i64_is_one;
  MtG.t_is_nan := i64_is_nan;
  MtG.t_wfb := wfb
|}.

(** the generic min / max at [i64_alg] are [i64_min] / [i64_max] *)
Lemma i64_alg_min : forall a b, MtG.t_min (TA := i64_alg) a b = i64_min a b.
Proof. reflexivity. Qed.
Lemma i64_alg_max : forall a b, MtG.t_max (TA := i64_alg) a b = i64_max a b.
Proof. reflexivity. Qed.

Theorem i64_laws : MtGBase.tlaws i64_alg.
Proof.
  assert (W : forall a : i64v, MtGBase.twf (A := i64_alg) a <-> wf a) by (intros a; apply wfb_true).
  constructor; cbn [MtG.tV MtG.t_code MtG.t_decode MtG.t_zero MtG.t_one MtG.t_nan MtG.t_add MtG.t_sub
                    MtG.t_mul MtG.t_div MtG.t_cmp MtG.t_is_zero MtG.t_is_one MtG.t_is_nan i64_alg].
  - exact decode_code.
  - exact code_decode.
  - exact i64_is_zero_spec.
  - exact i64_is_one_spec.
  - exact i64_is_nan_spec.
  - discriminate.
  - reflexivity.
  - reflexivity.
  - reflexivity.
  - intros a b Ha Hb. apply W. apply i64_add_wf; apply W; assumption.
  - intros a b Ha Hb. apply W. apply i64_sub_wf; apply W; assumption.
  - intros a b Ha Hb. apply W. apply i64_mul_wf; apply W; assumption.
  - intros a b Ha Hb. apply W. apply i64_div_wf; apply W; assumption.
  - intros t x Ht Hx. apply i64_add_zero_l; [exact Ht | apply W; exact Hx].
  - intros t x Ht Hx. apply i64_add_zero_r; [exact Ht | apply W; exact Hx].
  - intros t x Ht Hx. apply i64_sub_zero_r; [exact Ht | apply W; exact Hx].
  - intros t x Ht Hx. apply i64_mul_one_l; [exact Ht | apply W; exact Hx].
  - intros t x Ht Hx. apply i64_mul_one_r; [exact Ht | apply W; exact Hx].
  - intros t x Ht Hx. apply i64_div_one_r; [exact Ht | apply W; exact Hx].
  - intros t x Ht _. rewrite !i64_alg_min, !i64_alg_max. apply (i64_nan_absorbing t x Ht).
  - intros a b _ _. apply i64_add_comm.
  - intros a b _ _. apply i64_mul_comm.
  - intros a b _ _. rewrite !i64_alg_min. apply i64_min_comm.
  - intros a b _ _. rewrite !i64_alg_max. apply i64_max_comm.
  - intros a _. rewrite i64_alg_min. apply i64_min_idem.
  - intros a _. rewrite i64_alg_max. apply i64_max_idem.
Qed.
