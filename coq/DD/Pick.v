(** * Cube picking ([pick_cube], [pick_cube_dd], [pick_cube_dd_set], [pick_cube_uniform])

    Executable definitions only (proofs: DD/PickProofs.v, DD/PickBdd.v,
    DD/PickBcdd.v, DD/PickZbdd.v).

    Rust sources mirrored here:
    - [pick_cube_edge], [pick_cube_dd_edge], [pick_cube_dd_set_edge] of
      oxidd-rules-bdd/src/simple/apply_rec.rs (BDD),
      oxidd-rules-bdd/src/complement_edge/apply_rec.rs (BCDD) and
      oxidd-rules-zbdd/src/apply_rec.rs (ZBDD);
    - [add_literal_to_cube] of oxidd-rules-bdd/src/complement_edge/mod.rs;
    - [pick_cube_uniform_edge] of oxidd-core/src/function.rs.

    The BDD and the BCDD versions are the same text up to two helpers: how the
    two cofactors of an edge are obtained ([collect_children] resp.
    [collect_cofactors(tag, node)]) and what "is the false function" means
    ([is_terminal(&False)] resp. [is_false]: complemented edge to the
    terminal).  Both are folded into a *view* of an edge ([cview]): an error
    (dangling reference; a [get_node] that would panic), a Boolean terminal, or
    an inner node with its level and its two cofactors.  [view_plain] is the
    BDD view (and the ZBDD view: Empty = false, Base = true), [view_bcdd] the
    BCDD view.  The ZBDD walks have their own text (a node with [hi == lo] is a
    don't care, [hi] is never Empty).

    The caller's choice function is [FnMut(&Manager, &Edge, LevelNo) -> bool]:
    it may carry state.  Here: [choice : St -> nat -> edge -> bool * St] for an
    arbitrary state type [St].  [pick_cube_uniform_edge] is [pick_cube_edge]
    with the choice "next random number < count(then) / (count(then) +
    count(else))"; its state is the position in an abstract stream of random
    numbers [draws : nat -> N * N] (numerator, denominator), the counts are the
    exact model counts of DD/SatCount.v ([sat_count_edge] with
    [vars = num_levels]).

    Results: the outer [option] is [None] when the code would panic (dangling
    reference, index out of bounds, missing terminal) or the fuel
    ([S (nlevels s)], always enough) runs out; the theorems show that this
    does not happen on well-formed tables.  Cubes are vectors indexed by
    *variable* as in the code ([cube[manager.level_to_var(level)] = ...]). *)

From Coq Require Import List NArith PArith Bool Arith FMapPositive.
From OxiVerif Require Import DD.Table DD.Build DD.Apply DD.SatCount.
Import ListNotations.

(** ** Views of an edge *)

Inductive cview := CErr | CTerm (b : bool) | CNode (l : nat) (t x : edge).

(** BDD ([get_node] + [collect_children]; [node.level()] reads the stored
    level) and ZBDD (value code 0 = False / Empty, 1 = True / Base) *)
Definition view_plain (s : snap) (e : edge) : cview :=
  match eref e with
  | RT t =>
    match term_val s t with
    | Some 0%N => CTerm false
    | Some 1%N => CTerm true
    | _ => CErr
    end
  | RN id =>
    match find_node s id with
    | Some nd =>
      match nchildren nd with
      | [t; x] => CNode (nstored nd) t x
      | _ => CErr
      end
    | None => CErr
    end
  end.

(** [edge_with_tag(tag ^ e.tag())] *)
Definition retag (tag : bool) (e : edge) : edge := mkEdge (eref e) (xorb tag (etag e)).

(** BCDD ([collect_cofactors(edge.tag(), node)]; the single terminal is true
    under an untagged edge, false under a complemented one) *)
Definition view_bcdd (s : snap) (e : edge) : cview :=
  match eref e with
  | RT t =>
    match term_val s t with
    | Some _ => CTerm (negb (etag e))
    | None => CErr
    end
  | RN id =>
    match find_node s id with
    | Some nd =>
      match nchildren nd with
      | [t; x] => CNode (nstored nd) (retag (etag e) t) (retag (etag e) x)
      | _ => CErr
      end
    | None => CErr
    end
  end.

(** ** Traces and cube vectors *)

(** one visited inner node: its level, the edge that led to it (what the
    choice function is shown), the value written into the cube ([None] =
    [OptBool::None]), and whether the choice function was called *)
Record step := mkStep { sp_level : nat; sp_edge : edge; sp_val : option bool; sp_asked : bool }.

Definition cubev := list (option bool).

Fixpoint set_nth {A : Type} (i : nat) (v : A) (l : list A) : option (list A) :=
  match l, i with
  | [], _ => None
  | _ :: r, O => Some (v :: r)
  | x :: r, S j => option_map (cons x) (set_nth j v r)
  end.

(** [cube[manager.level_to_var(level) as usize] = val] *)
Definition write_step (s : snap) (cb : option cubev) (p : step) : option cubev :=
  match cb with
  | None => None
  | Some c =>
    match nth_error (s_l2v s) (sp_level p) with
    | None => None
    | Some v => set_nth v (sp_val p) c
    end
  end.

Definition write_all (s : snap) (tr : list step) (cb : cubev) : option cubev :=
  fold_left (write_step s) tr (Some cb).

(** the cube entry of the variable at level [l] *)
Definition cube_lit (s : snap) (cb : cubev) (l : nat) : option bool :=
  match nth_error (s_l2v s) l with
  | Some v => match nth_error cb v with Some x => x | None => None end
  | None => None
  end.

(** the levels at which the choice function was called, with its answers *)
Definition calls (tr : list step) : list (nat * option bool) :=
  map (fun p => (sp_level p, sp_val p)) (filter sp_asked tr).

(** ** BDD and BCDD *)

Section PickGen.
Variable view : snap -> edge -> cview.

Definition is_false (s : snap) (e : edge) : bool :=
  match view s e with CTerm false => true | _ => false end.

Section Choice.
Variable St : Type.
Variable choice : St -> nat -> edge -> bool * St.

(** the value of the variable at a node: forced when a cofactor is false,
    otherwise the caller's choice; result: value, "choice was called", state *)
Definition decide (s : snap) (st : St) (l : nat) (e t x : edge) : bool * bool * St :=
  if is_false s t then (false, false, st)
  else if is_false s x then (true, false, st)
  else let (c, st') := choice st l e in (c, true, st').

(** [inner] of [pick_cube_edge] *)
Fixpoint walk (fuel : nat) (s : snap) (st : St) (e : edge) : option (list step * St) :=
  match fuel with
  | O => None
  | S f =>
    match view s e with
    | CErr => None
    | CTerm _ => Some ([], st)
    | CNode l t x =>
      let '(c, asked, st1) := decide s st l e t x in
      match walk f s st1 (if c then t else x) with
      | Some (tr, st2) => Some (mkStep l e (Some c) asked :: tr, st2)
      | None => None
      end
    end
  end.

(** [pick_cube_edge]: [Some None] = the function is false; otherwise the cube
    (indexed by variable), the trace and the final state of the choice function *)
Definition pick_cube (s : snap) (st : St) (e : edge) : option (option (cubev * list step * St)) :=
  match view s e with
  | CErr => None
  | CTerm false => Some None
  | CTerm true => Some (Some (repeat None (nlevels s), [], st))
  | CNode _ _ _ =>
    match walk (S (nlevels s)) s st e with
    | None => None
    | Some (tr, st') =>
      match write_all s tr (repeat None (nlevels s)) with
      | None => None
      | Some cb => Some (Some (cb, tr, st'))
      end
    end
  end.

(** [add_lit s sub level positive]: the node for "literal of [level] and [sub]" *)
Variable add_lit : snap -> edge -> nat -> bool -> option (snap * edge).

(** [inner] of [pick_cube_dd_edge] *)
Fixpoint pick_dd (fuel : nat) (s : snap) (st : St) (e : edge) : option (snap * edge * list step * St) :=
  match fuel with
  | O => None
  | S f =>
    match view s e with
    | CErr => None
    | CTerm _ => Some (s, e, [], st)
    | CNode l t x =>
      let '(c, asked, st1) := decide s st l e t x in
      match pick_dd f s st1 (if c then t else x) with
      | None => None
      | Some (s1, sub, tr, st2) =>
        match add_lit s1 sub l c with
        | None => None
        | Some (s2, r) => Some (s2, r, mkStep l e (Some c) asked :: tr, st2)
        end
      end
    end
  end.

Definition pick_cube_dd (s : snap) (st : St) (e : edge) := pick_dd (S (nlevels s)) s st e.

End Choice.

(** [pop] of [pick_cube_dd_set_edge]: drop the literals above [until] *)
Fixpoint pop (fuel : nat) (s : snap) (set : edge) (until : nat) : option edge :=
  match fuel with
  | O => None
  | S f =>
    match view s set with
    | CErr => None
    | CTerm _ => Some set
    | CNode l t x =>
      if Nat.ltb l until then (if is_false s t then pop f s x until else pop f s t until)
      else Some set
    end
  end.

(** the literal set below [level] and the polarity it gives for [level]
    (false when the variable does not occur) *)
Definition set_choice (s : snap) (set : edge) (level : nat) : option (edge * bool) :=
  match pop (S (nlevels s)) s set level with
  | None => None
  | Some set' =>
    match view s set' with
    | CErr => None
    | CTerm _ => Some (set', false)
    | CNode l t x =>
      if Nat.eqb l level then (if is_false s x then Some (t, true) else Some (x, false))
      else Some (set', false)
    end
  end.

Variable add_lit : snap -> edge -> nat -> bool -> option (snap * edge).

(** [inner] of [pick_cube_dd_set_edge] *)
Fixpoint pick_dd_set (fuel : nat) (s : snap) (e set : edge) : option (snap * edge * list step) :=
  match fuel with
  | O => None
  | S f =>
    match view s e with
    | CErr => None
    | CTerm _ => Some (s, e, [])
    | CNode l t x =>
      match set_choice s set l with
      | None => None
      | Some (set', cs) =>
        let '(c, asked) :=
          if is_false s t then (false, false)
          else if is_false s x then (true, false)
          else (cs, true) in
        match pick_dd_set f s (if c then t else x) set' with
        | None => None
        | Some (s1, sub, tr) =>
          match add_lit s1 sub l c with
          | None => None
          | Some (s2, r) => Some (s2, r, mkStep l e (Some c) asked :: tr)
          end
        end
      end
    end
  end.

Definition pick_cube_dd_set (s : snap) (e set : edge) := pick_dd_set (S (nlevels s)) s e set.

(** the literals of a cube diagram, top-down: [Some] iff every node on the
    way has exactly one false cofactor and the walk ends in the true terminal *)
Fixpoint cube_lits (fuel : nat) (s : snap) (e : edge) : option (list (nat * bool)) :=
  match fuel with
  | O => None
  | S f =>
    match view s e with
    | CErr => None
    | CTerm b => if b then Some [] else None
    | CNode l t x =>
      if is_false s t then option_map (cons (l, false)) (cube_lits f s x)
      else if is_false s x then option_map (cons (l, true)) (cube_lits f s t)
      else None
    end
  end.

(** the cube of a literal list (highest level first in the recursion) *)
Fixpoint mk_cube (s : snap) (top : edge) (lits : list (nat * bool)) : option (snap * edge) :=
  match lits with
  | [] => Some (s, top)
  | (l, b) :: r =>
    match mk_cube s top r with
    | None => None
    | Some (s1, sub) => add_lit s1 sub l b
    end
  end.

(** [pick_cube_uniform_edge]'s closure: [rng.generate::<f64>() < t_count /
    (t_count + e_count)] with the draw [p / q] *)
Variable count : snap -> edge -> N.

Definition uni_choice (draws : nat -> N * N) (s : snap) (k : nat) (l : nat) (e : edge) : bool * nat :=
  match view s e with
  | CNode _ t x =>
    let ct := count s t in
    let ce := count s x in
    let (p, q) := draws k in
    ((p * (ct + ce) <? ct * q)%N, S k)
  | _ => (false, S k)
  end.

Definition pick_uniform (draws : nat -> N * N) (s : snap) (e : edge) :=
  pick_cube nat (uni_choice draws s) s 0 e.

End PickGen.

(** polarity of [level] in a literal list *)
Fixpoint lit_pol (lits : list (nat * bool)) (level : nat) : bool :=
  match lits with
  | [] => false
  | (l, b) :: r => if Nat.eqb l level then b else lit_pol r level
  end.

(** *** Node construction *)

(** BDD: [get_or_insert(level, if c { [sub, f] } else { [f, sub] })] *)
Definition add_lit_bdd (s : snap) (sub : edge) (l : nat) (c : bool) : option (snap * edge) :=
  match term_of s false with
  | None => None
  | Some f =>
    let F := E (RT f) in
    Some (get_or_insert s l (if c then [sub; F] else [F; sub]))
  end.

(** [Manager::get_terminal(BCDDTerminal)] *)
Definition bcdd_term (s : snap) : option N :=
  match s_terms s with
  | (t, _) :: _ => Some t
  | [] => None
  end.

(** BCDD: [add_literal_to_cube] *)
Definition add_lit_bcdd (s : snap) (sub : edge) (l : nat) (c : bool) : option (snap * edge) :=
  match bcdd_term s with
  | None => None
  | Some tid =>
    let T := mkEdge (RT tid) false in
    let '(children, tag) :=
      if c then
        (if etag sub then ([mkEdge (eref sub) false; T], true)
         else ([sub; mkEdge (RT tid) true], false))
      else ([T; mkEdge (eref sub) (negb (etag sub))], true) in
    let (s', r) := get_or_insert s l children in
    Some (s', mkEdge (eref r) tag)
  end.

(** exact model counts over all levels ([sat_count_edge(manager, e, num_levels, cache)]) *)
Definition count_bdd (s : snap) (e : edge) : N :=
  match sat_bdd s (S (nlevels s)) (nlevels s) (eref e) with Some v => v | None => 0%N end.

Definition count_bcdd (s : snap) (e : edge) : N :=
  match sat_bcdd s (S (nlevels s)) (nlevels s) e with Some v => v | None => 0%N end.

(** *** The instances *)

Section Inst.
Variable St : Type.
Variable choice : St -> nat -> edge -> bool * St.

Definition pick_cube_bdd := pick_cube view_plain St choice.
Definition pick_cube_dd_bdd := pick_cube_dd view_plain St choice add_lit_bdd.
Definition pick_cube_bcdd := pick_cube view_bcdd St choice.
Definition pick_cube_dd_bcdd := pick_cube_dd view_bcdd St choice add_lit_bcdd.

End Inst.

Definition pick_cube_dd_set_bdd := pick_cube_dd_set view_plain add_lit_bdd.
Definition pick_cube_dd_set_bcdd := pick_cube_dd_set view_bcdd add_lit_bcdd.
Definition pick_uniform_bdd := pick_uniform view_plain count_bdd.
Definition pick_uniform_bcdd := pick_uniform view_bcdd count_bcdd.

(** the choice function of the harness: a table indexed by level, no state *)
Definition mask_choice (m : nat -> bool) : unit -> nat -> edge -> bool * unit :=
  fun st l _ => (m l, st).

(** ** ZBDD *)

Section PickZ.
Variable St : Type.
Variable choice : St -> nat -> edge -> bool * St.

Notation isf := (is_false view_plain).

(** [inner] of the ZBDD [pick_cube_edge] *)
Fixpoint walk_z (fuel : nat) (s : snap) (st : St) (e : edge) : option (list step * St) :=
  match fuel with
  | O => None
  | S f =>
    match view_plain s e with
    | CErr => None
    | CTerm _ => Some ([], st)
    | CNode l hi lo =>
      let '(val, next, asked, st1) :=
        if edge_eqb hi lo then (None, hi, false, st)
        else if isf s lo then (Some true, hi, false, st)
        else let (c, st') := choice st l e in (Some c, if c then hi else lo, true, st') in
      match walk_z f s st1 next with
      | Some (tr, st2) => Some (mkStep l e val asked :: tr, st2)
      | None => None
      end
    end
  end.

(** the ZBDD [pick_cube_edge]: levels that are not visited are false *)
Definition pick_cube_z (s : snap) (st : St) (e : edge) : option (option (cubev * list step * St)) :=
  match view_plain s e with
  | CErr => None
  | CTerm false => Some None
  | CTerm true => Some (Some (repeat (Some false) (nlevels s), [], st))
  | CNode _ _ _ =>
    match walk_z (S (nlevels s)) s st e with
    | None => None
    | Some (tr, st') =>
      match write_all s tr (repeat (Some false) (nlevels s)) with
      | None => None
      | Some cb => Some (Some (cb, tr, st'))
      end
    end
  end.

(** the node [level, [hi, if do_not_care { hi } else { Empty }]] *)
Definition add_lit_z (s : snap) (sub : edge) (l : nat) (dnc : bool) : option (snap * edge) :=
  if dnc then Some (get_or_insert s l [sub; sub])
  else
    match term_of s false with
    | None => None
    | Some t => Some (get_or_insert s l [sub; E (RT t)])
    end.

(** [inner] of the ZBDD [pick_cube_dd_edge] *)
Fixpoint pick_dd_z (fuel : nat) (s : snap) (st : St) (e : edge) : option (snap * edge * list step * St) :=
  match fuel with
  | O => None
  | S f =>
    match view_plain s e with
    | CErr => None
    | CTerm _ => Some (s, e, [], st)
    | CNode l hi lo =>
      let dnc := edge_eqb hi lo in
      let '(c, asked, st1) :=
        if dnc || isf s lo then (true, false, st)
        else let (c, st') := choice st l e in (c, true, st') in
      match pick_dd_z f s st1 (if c then hi else lo) with
      | None => None
      | Some (s1, sub, tr, st2) =>
        let p := mkStep l e (if dnc then None else Some c) asked in
        if c then
          match add_lit_z s1 sub l dnc with
          | None => None
          | Some (s2, r) => Some (s2, r, p :: tr, st2)
          end
        else Some (s1, sub, p :: tr, st2)
      end
    end
  end.

Definition pick_cube_dd_z (s : snap) (st : St) (e : edge) := pick_dd_z (S (nlevels s)) s st e.

End PickZ.

(** [set_pop] of the ZBDD [pick_cube_dd_set_edge] *)
Fixpoint set_pop_z (fuel : nat) (s : snap) (e : edge) (until : nat) : option (edge * option (edge * edge)) :=
  match fuel with
  | O => None
  | S f =>
    match view_plain s e with
    | CErr => None
    | CTerm _ => Some (e, None)
    | CNode l hi lo =>
      match Nat.compare l until with
      | Lt => set_pop_z f s hi until
      | Eq => Some (e, Some (hi, lo))
      | Gt => Some (e, None)
      end
    end
  end.

(** [inner] of the ZBDD [pick_cube_dd_set_edge] *)
Fixpoint pick_dd_set_z (fuel : nat) (s : snap) (e set : edge) : option (snap * edge * list step) :=
  match fuel with
  | O => None
  | S f =>
    match view_plain s e with
    | CErr => None
    | CTerm _ => Some (s, e, [])
    | CNode l hi lo =>
      match set_pop_z (S (nlevels s)) s set l with
      | None => None
      | Some (set', set_node) =>
        let '(c, dnc, asked) :=
          if is_false view_plain s lo then (true, false, false)
          else
            match set_node with
            | Some (shi, slo) => (true, if edge_eqb shi slo then edge_eqb hi lo else false, true)
            | None => (false, false, true)
            end in
        match pick_dd_set_z f s (if c then hi else lo) set' with
        | None => None
        | Some (s1, sub, tr) =>
          let p := mkStep l e (if dnc then None else Some c) asked in
          if c then
            match add_lit_z s1 sub l dnc with
            | None => None
            | Some (s2, r) => Some (s2, r, p :: tr)
            end
          else Some (s1, sub, p :: tr)
        end
      end
    end
  end.

Definition pick_cube_dd_set_z (s : snap) (e set : edge) := pick_dd_set_z (S (nlevels s)) s e set.

(** the literals of a ZBDD cube diagram, top-down, in the form [mk_cube
    add_lit_z] takes them: [(l, true)]: a node with [hi == lo], the variable of
    level [l] does not occur; [(l, false)]: a node with Empty else-child, positive
    literal; a level without node: negative literal *)
Fixpoint cube_lits_z (fuel : nat) (s : snap) (e : edge) : option (list (nat * bool)) :=
  match fuel with
  | O => None
  | S f =>
    match view_plain s e with
    | CErr => None
    | CTerm b => if b then Some [] else None
    | CNode l hi lo =>
      if edge_eqb hi lo then option_map (cons (l, true)) (cube_lits_z f s hi)
      else if is_false view_plain s lo then option_map (cons (l, false)) (cube_lits_z f s hi)
      else None
    end
  end.

Inductive zlit := ZPos | ZNeg | ZAbsent.

(** how the variable of [level] occurs in such a literal list *)
Fixpoint zlit_of (lits : list (nat * bool)) (level : nat) : zlit :=
  match lits with
  | [] => ZNeg
  | (l, dnc) :: r => if Nat.eqb l level then (if dnc then ZAbsent else ZPos) else zlit_of r level
  end.

(** ZBDD: [sat_count_edge(manager, e, num_levels, cache)] *)
Definition count_zbdd (s : snap) (e : edge) : N :=
  match sat_zbdd s (S (nlevels s)) (nlevels s) (eref e) with Some v => v | None => 0%N end.

Definition uni_choice_z (draws : nat -> N * N) (s : snap) (k : nat) (l : nat) (e : edge) : bool * nat :=
  uni_choice view_plain count_zbdd draws s k l e.

Definition pick_uniform_z (draws : nat -> N * N) (s : snap) (e : edge) :=
  pick_cube_z nat (uni_choice_z draws s) s 0 e.

(** ** The probability of a trace under [pick_cube_uniform]

    numerator and denominator of the product, over the nodes where the choice
    function is called, of count(child taken) / (count(then) + count(else)) *)
Section Weight.
Variable view : snap -> edge -> cview.
Variable count : snap -> edge -> N.

Fixpoint trace_weight (s : snap) (tr : list step) : N * N :=
  match tr with
  | [] => (1%N, 1%N)
  | p :: r =>
    let (num, den) := trace_weight s r in
    if sp_asked p then
      match view s (sp_edge p), sp_val p with
      | CNode _ t x, Some c =>
        ((num * count s (if c then t else x))%N, (den * (count s t + count s x))%N)
      | _, _ => (0%N, 1%N)
      end
    else (num, den)
  end.

End Weight.

(** the choice that follows a given cube (used to replay an observed cube) *)
Definition cube_choice (s : snap) (cb : cubev) : unit -> nat -> edge -> bool * unit :=
  fun st l _ => (match cube_lit s cb l with Some true => true | _ => false end, st).

(** ** Checkable preconditions of the BCDD theorems ([BcddOK]) *)
Definition bcdd_ok_b (s : snap) : bool :=
  wf_b s && kind_eqb (s_kind s) KBcdd && Nat.eqb (length (s_terms s)) 1.

Definition zbdd_ok_b (s : snap) : bool :=
  wf_b s && kind_eqb (s_kind s) KZbdd
  && forallb (fun p : N * N => N.leb (snd p) 1) (s_terms s)
  && existsb (fun p : N * N => N.eqb (snd p) 0) (s_terms s)
  && existsb (fun p : N * N => N.eqb (snd p) 1) (s_terms s).
