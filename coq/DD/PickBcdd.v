(** * Cube picking on BCDDs: the hypotheses of DD/PickProofs.v for [view_bcdd]

    [OK] is [BcddOK]: a well-formed BCDD table with its single terminal;
    [good s e]: the edge points to something stored (any tag);
    [den s e] is [fun_bcdd s e] (DD/SatCount.v, i.e. [semc]). *)

From Coq Require Import List NArith PArith Bool Arith Lia FMapPositive.
From OxiVerif Require Import DD.Table DD.TableProofs DD.Canon DD.CanonBcdd DD.Build DD.BuildProofs
  DD.SatCount DD.SatCountProofs DD.Pick DD.PickProofs DD.PickInsert.
Import ListNotations.

Arguments N.add : simpl never.
Arguments N.mul : simpl never.
Arguments N.pow : simpl never.

Record BcddOK (s : snap) : Prop := mkBcddOK {
  bc_wf : WF s;
  bc_kind : s_kind s = KBcdd;
  bc_term : length (s_terms s) = 1
}.

Lemma kind_eqb_eq : forall a b, kind_eqb a b = true <-> a = b.
Proof. intros [] []; simpl; split; intro E; try discriminate; reflexivity. Qed.

Theorem bcdd_ok_b_spec : forall s, bcdd_ok_b s = true <-> BcddOK s.
Proof.
  intros s. unfold bcdd_ok_b. rewrite !andb_true_iff, wf_b_spec, kind_eqb_eq, Nat.eqb_eq. split.
  - intros [[A B] C]. constructor; assumption.
  - intros [A B C]. auto.
Qed.

Definition good_bcdd (s : snap) (e : edge) : Prop := ref_ok s (eref e).
Definition den_bcdd (s : snap) (e : edge) : lasg -> bool := fun_bcdd s e.

Lemma bc_terms_kind : forall s, BcddOK s -> terms_kind s.
Proof. intros s B. unfold terms_kind. rewrite (bc_kind s B), (bc_term s B). lia. Qed.

Lemma bc_binary : forall s, BcddOK s -> binary (s_kind s).
Proof. intros s B. unfold binary. rewrite (bc_kind s B). discriminate. Qed.

Lemma bcdd_term_some : forall s, BcddOK s -> exists t v, bcdd_term s = Some t /\ term_val s t = Some v.
Proof.
  intros s B. pose proof (bc_term s B) as L. unfold bcdd_term, term_val.
  destruct (s_terms s) as [|[t v] [|]]; simpl in L; try discriminate.
  exists t, v. split; [reflexivity|]. simpl. rewrite N.eqb_refl. reflexivity.
Qed.

Lemma fun_bcdd_ext : forall s e a a', WF s -> (forall l, a l = a' l) -> fun_bcdd s e a = fun_bcdd s e a'.
Proof.
  intros s e a a' H Ha. unfold fun_bcdd. f_equal. apply (semc_ext s H). intros l _.
  unfold choice_of. rewrite Ha. reflexivity.
Qed.

Lemma fun_bcdd_term : forall s e t a, eref e = RT t -> fun_bcdd s e a = negb (etag e).
Proof. intros s e t a Er. unfold fun_bcdd. rewrite (semc_T _ _ _ _ t Er). reflexivity. Qed.

Lemma fun_bcdd_extends : forall s s' e a, WF s -> extends s s' -> ref_ok s (eref e) ->
  fun_bcdd s' e a = fun_bcdd s e a.
Proof.
  intros s s' e a H X Hok. unfold fun_bcdd.
  rewrite (ext_nlevels _ _ X), (semc_extends s s' H X _ _ _ Hok). reflexivity.
Qed.

(** an edge to an inner node of a reduced BCDD takes both values *)
Lemma bcdd_witness : forall s, BcddOK s -> forall k e, ref_ok s (eref e) ->
  nlevels s - rlevel s (eref e) <= k -> (exists id, eref e = RN id) ->
  forall b, exists c, choice_ok s c /\ semc s (S (nlevels s)) e c = Some b.
Proof.
  intros s B. pose proof (bc_wf s B) as H. pose proof (bc_kind s B) as Hk.
  induction k as [|k IH]; intros e Hok Hh [id Er] b; rewrite Er in Hok; destruct Hok as [nd E];
    rewrite Er, (rlevel_node s id nd E) in Hh; pose proof (wf_level s H id nd E) as Hl; [lia|].
  destruct (two_children s id nd H (bc_binary s B) E) as [t0 [x0 Hc]].
  destruct (reduced_bcdd s Hk _ (wf_reduced s H id nd E)) as [Hns [t' [Ht' Tt]]].
  rewrite Hc in Ht'. simpl in Ht'. inversion Ht'; subst t'. clear Ht'.
  assert (C0 : ref_ok s (eref t0) /\ nlevel nd < rlevel s (eref t0))
    by (apply (wf_child s H id nd t0 E); rewrite Hc; left; reflexivity).
  assert (C1 : ref_ok s (eref x0) /\ nlevel nd < rlevel s (eref x0))
    by (apply (wf_child s H id nd x0 E); rewrite Hc; right; left; reflexivity).
  set (b' := xorb (etag e) b).
  assert (Hsub : exists i x c, nth_error (nchildren nd) i = Some x /\ i < 2 /\ choice_ok s c /\
                   semc s (S (nlevels s)) x c = Some b').
  { destruct (eref t0) as [tt|i0] eqn:Et.
    - destruct b' eqn:Eb.
      + exists 0, t0, (fun _ => 0). split; [rewrite Hc; reflexivity|]. split; [lia|].
        split; [apply choice_ok_const; lia|]. rewrite (semc_T _ _ _ _ tt Et), Tt. reflexivity.
      + destruct (eref x0) as [tx|i1] eqn:Ex.
        * destruct (etag x0) eqn:Tx.
          -- exists 1, x0, (fun _ => 0). split; [rewrite Hc; reflexivity|]. split; [lia|].
             split; [apply choice_ok_const; lia|]. rewrite (semc_T _ _ _ _ tx Ex), Tx. reflexivity.
          -- exfalso. apply Hns.
             destruct (proj1 C0) as [v0 V0]. destruct (proj1 C1) as [v1 V1].
             try rewrite Et in V0. try rewrite Ex in V1.
             assert (tt = tx) by (apply (bcdd_one_term s tt tx v0 v1 Hk (bc_terms_kind s B) V0 V1)).
             assert (t0 = x0) by (apply edge_ext; congruence).
             intros u w Hu Hw. rewrite Hc in Hu, Hw. simpl in Hu, Hw.
             destruct Hu as [<-|[<-|[]]], Hw as [<-|[<-|[]]]; congruence.
        * destruct (IH x0 ltac:(rewrite Ex; exact (proj1 C1)) ltac:(rewrite Ex; destruct C1; lia) ltac:(eauto) false) as [c [Hc1 Hc2]].
          exists 1, x0, c. split; [rewrite Hc; reflexivity|]. split; [lia|]. split; assumption.
    - destruct (IH t0 ltac:(rewrite Et; exact (proj1 C0)) ltac:(rewrite Et; destruct C0; lia) ltac:(eauto) b') as [c [Hc1 Hc2]].
      exists 0, t0, c. split; [rewrite Hc; reflexivity|]. split; [lia|]. split; assumption. }
  destruct Hsub as [i [x [c [Hn [Hi [Hc1 Hc2]]]]]].
  exists (TableProofs.upd c (nlevel nd) i). split.
  - apply choice_ok_upd; [exact Hc1 | rewrite Hk; exact Hi].
  - pose proof (child_semc s H e id nd i x c Er E Hn) as Hcs. unfold semcn in Hcs.
    rewrite Hcs, Hc2. simpl. unfold b'. rewrite <- xorb_assoc, xorb_nilpotent, xorb_false_l. reflexivity.
Qed.

Lemma bcdd_node_sat : forall s e id, BcddOK s -> ref_ok s (eref e) -> eref e = RN id ->
  exists a, fun_bcdd s e a = true.
Proof.
  intros s e id B Hok Er.
  destruct (bcdd_witness s B (nlevels s) e Hok ltac:(lia) (ex_intro _ id Er) true) as [c [Hc Hs]].
  exists (fun l => Nat.eqb (c l) 0). unfold fun_bcdd.
  rewrite (semc_ext s (bc_wf s B) _ e (choice_of (fun l => Nat.eqb (c l) 0)) c).
  - rewrite Hs. reflexivity.
  - intros l _. unfold choice_of. pose proof (proj1 (choice_ok_b s (bc_kind s B) c) Hc l).
    destruct (Nat.eqb_spec (c l) 0); lia.
Qed.

(** ** The hypotheses *)

Lemma bcdd_OK_WF : forall s, BcddOK s -> WF s.
Proof. intros s B. apply (bc_wf s B). Qed.

Lemma bcdd_good_ref : forall s e, good_bcdd s e -> ref_ok s (eref e).
Proof. intros s e G. exact G. Qed.

Lemma bcdd_view_err : forall s e, BcddOK s -> good_bcdd s e -> view_bcdd s e <> CErr.
Proof.
  intros s e B Hok. unfold good_bcdd in Hok. unfold view_bcdd. destruct (eref e) as [t|id].
  - destruct Hok as [v Ev]. rewrite Ev. discriminate.
  - destruct Hok as [nd E]. rewrite E.
    destruct (two_children s id nd (bc_wf s B) (bc_binary s B) E) as [e0 [e1 Hc]]. rewrite Hc. discriminate.
Qed.

Lemma view_bcdd_term : forall s e b, view_bcdd s e = CTerm b ->
  exists t, eref e = RT t /\ b = negb (etag e).
Proof.
  intros s e b. unfold view_bcdd. destruct (eref e) as [t|id].
  - destruct (term_val s t); [|discriminate]. intros E. inversion E. eauto.
  - destruct (find_node s id) as [nd|]; [|discriminate].
    destruct (nchildren nd) as [|? [|? [|]]]; discriminate.
Qed.

Lemma view_bcdd_node : forall s e l t x, view_bcdd s e = CNode l t x ->
  exists id nd t0 x0, eref e = RN id /\ find_node s id = Some nd /\ nchildren nd = [t0; x0] /\
    l = nstored nd /\ t = retag (etag e) t0 /\ x = retag (etag e) x0.
Proof.
  intros s e l t x. unfold view_bcdd. destruct (eref e) as [t1|id].
  - destruct (term_val s t1); discriminate.
  - destruct (find_node s id) as [nd|] eqn:E; [|discriminate].
    destruct (nchildren nd) as [|a [|b [|]]] eqn:Hc; try discriminate.
    intros X. inversion X; subst. exists id, nd, a, b. auto 10.
Qed.

Lemma bcdd_view_term : forall s e b, BcddOK s -> good_bcdd s e -> view_bcdd s e = CTerm b ->
  rlevel s (eref e) = nlevels s /\ forall a, den_bcdd s e a = b.
Proof.
  intros s e b B G Ev. destruct (view_bcdd_term s e b Ev) as [t [Er ->]].
  rewrite Er. split; [reflexivity|]. intros a. apply (fun_bcdd_term s e t a Er).
Qed.

Lemma bcdd_view_node : forall s e l t x, BcddOK s -> good_bcdd s e -> view_bcdd s e = CNode l t x ->
  l = rlevel s (eref e) /\ l < nlevels s /\ good_bcdd s t /\ good_bcdd s x /\
  l < rlevel s (eref t) /\ l < rlevel s (eref x) /\
  (forall a, den_bcdd s e a = if a l then den_bcdd s t a else den_bcdd s x a) /\
  (exists a, den_bcdd s e a = true).
Proof.
  intros s e l t x B G Ev. pose proof (bc_wf s B) as H.
  destruct (view_bcdd_node s e l t x Ev) as [id [nd [t0 [x0 [Er [E [Hc [Hl [-> ->]]]]]]]]].
  rewrite (wf_stored s H id nd E) in Hl. subst l.
  assert (Ct : ref_ok s (eref t0) /\ nlevel nd < rlevel s (eref t0))
    by (apply (wf_child s H id nd t0 E); rewrite Hc; left; reflexivity).
  assert (Cx : ref_ok s (eref x0) /\ nlevel nd < rlevel s (eref x0))
    by (apply (wf_child s H id nd x0 E); rewrite Hc; right; left; reflexivity).
  unfold good_bcdd, den_bcdd. simpl eref.
  split; [rewrite Er, (rlevel_node s id nd E); reflexivity|].
  split; [apply (wf_level s H id nd E)|].
  split; [apply Ct|]. split; [apply Cx|]. split; [apply Ct|]. split; [apply Cx|]. split.
  - intros a.
    rewrite (fun_bcdd_ext s e a (updb a (nlevel nd) (a (nlevel nd))) H).
    + rewrite <- (edge_eta e) at 1. rewrite Er.
      change (fun_bcdd s {| eref := RN id; etag := etag e |}) with (Fc s (RN id) (etag e)).
      rewrite (Fc_child s H id (etag e) nd t0 x0 a (a (nlevel nd)) E Hc).
      destruct (a (nlevel nd)); reflexivity.
    + intros l. unfold updb. destruct (Nat.eqb_spec l (nlevel nd)); congruence.
  - apply (bcdd_node_sat s e id B G Er).
Qed.

Lemma bcdd_den_indep : forall s e l a b, BcddOK s -> good_bcdd s e -> l < rlevel s (eref e) ->
  den_bcdd s e (updb a l b) = den_bcdd s e a.
Proof.
  intros s e l a b B G Hl. unfold den_bcdd. rewrite <- (edge_eta e).
  apply (Fc_indep s (bc_wf s B) (nlevels s) (le_n _) (eref e) (etag e) l Hl).
Qed.

Lemma bcddok_extends : forall s s', BcddOK s -> extends s s' -> WF s' -> BcddOK s'.
Proof.
  intros s s' B X W. constructor; [exact W | rewrite (ext_kind _ _ X); apply (bc_kind s B) |
    rewrite (ext_terms _ _ X); apply (bc_term s B)].
Qed.

Lemma bcdd_den_extends : forall s s' e a, BcddOK s -> extends s s' -> good_bcdd s e ->
  den_bcdd s' e a = den_bcdd s e a.
Proof. intros s s' e a B X G. apply (fun_bcdd_extends s s' e a (bc_wf s B) X G). Qed.

Lemma all_same_two : forall a b : edge, all_same [a; b] -> a = b.
Proof. intros a b A. apply A; simpl; auto. Qed.

Lemma add_lit_bcdd_ok : forall s sub l c, BcddOK s -> good_bcdd s sub -> l < nlevels s ->
  l < rlevel s (eref sub) -> (exists a, den_bcdd s sub a = true) ->
  exists s' r, add_lit_bcdd s sub l c = Some (s', r) /\ BcddOK s' /\ extends s s' /\ good_bcdd s' r /\
    rlevel s' (eref r) = l /\ forall a, den_bcdd s' r a = Bool.eqb (a l) c && den_bcdd s sub a.
Proof.
  intros s sub l c B Gs Hl Hls [a0 Ha0]. pose proof (bc_wf s B) as H. pose proof (bc_kind s B) as Hk.
  unfold add_lit_bcdd. destruct (bcdd_term_some s B) as [tid [tv [Et Vt]]]. rewrite Et.
  (* sub is not the false terminal edge *)
  assert (Hnf : eref sub = RT tid -> etag sub = false).
  { intros Er. unfold den_bcdd in Ha0. rewrite (fun_bcdd_term s sub tid a0 Er) in Ha0.
    destruct (etag sub); [discriminate | reflexivity]. }
  assert (Hform : forall p : list edge * bool,
            (let '(children, tag) := p in
             let (s', r) := get_or_insert s l children in Some (s', mkEdge (eref r) tag)) =
            (let (s', r) := get_or_insert s l (fst p) in Some (s', mkEdge (eref r) (snd p))))
    by (intros [? ?]; reflexivity).
  rewrite Hform. clear Hform.
  set (T := mkEdge (RT tid) false).
  set (chtag := if c then (if etag sub then ([mkEdge (eref sub) false; T], true)
                           else ([sub; mkEdge (RT tid) true], false))
                else ([T; mkEdge (eref sub) (negb (etag sub))], true)).
  assert (HT : ref_ok s (RT tid) /\ l < rlevel s (RT tid)) by (split; [exists tv; exact Vt | exact Hl]).
  assert (Hlen : length (fst chtag) = arity (s_kind s))
    by (rewrite Hk; unfold chtag; destruct c; [destruct (etag sub)|]; reflexivity).
  assert (Hce : forall e, In e (fst chtag) -> ref_ok s (eref e) /\ l < rlevel s (eref e)).
  { intros e He. unfold chtag in He. destruct c; [destruct (etag sub)|]; simpl in He;
      destruct He as [<-|[<-|[]]]; simpl; auto. }
  assert (Hred : reduced s (fst chtag)).
  { unfold reduced. rewrite Hk. unfold chtag. destruct c; [destruct (etag sub) eqn:Ts|]; simpl.
    - split; [|eexists; split; reflexivity].
      intros A. apply all_same_two in A. inversion A as [Er]. specialize (Hnf Er). congruence.
    - split; [|exists sub; split; [reflexivity | exact Ts]].
      intros A. apply all_same_two in A. rewrite A in Ts. discriminate.
    - split; [|eexists; split; reflexivity].
      intros A. apply all_same_two in A. inversion A as [[Er Tg]]. symmetry in Er. specialize (Hnf Er).
      rewrite Hnf in Tg. discriminate. }
  assert (Htags : s_kind s <> KBcdd -> forall e, In e (fst chtag) -> etag e = false) by congruence.
  destruct (get_or_insert s l (fst chtag)) as [s' r] eqn:Eg.
  destruct (goi_any s l (fst chtag) H Hl Hlen Hce Hred Htags s' r Eg) as [W' [X [id [nd [Er [E' [El Ec]]]]]]].
  exists s', (mkEdge (eref r) (snd chtag)). split; [reflexivity|].
  pose proof (bcddok_extends s s' B X W') as B'.
  split; [exact B'|]. split; [exact X|]. subst r. simpl eref.
  split; [exists nd; exact E'|]. split; [simpl; rewrite E'; exact El|].
  intros a. unfold den_bcdd.
  rewrite (fun_bcdd_ext s' _ a (updb a (nlevel nd) (a (nlevel nd))) W').
  2:{ intros l0. unfold updb. destruct (Nat.eqb_spec l0 (nlevel nd)); congruence. }
  change (fun_bcdd s' {| eref := RN id; etag := snd chtag |}) with (Fc s' (RN id) (snd chtag)).
  destruct (fst chtag) as [|e0 [|e1 [|]]] eqn:Ech; try (simpl in Hlen; rewrite Hk in Hlen; discriminate).
  rewrite (Fc_child s' W' id (snd chtag) nd e0 e1 a (a (nlevel nd)) E' Ec). rewrite El.
  unfold Fc.
  assert (Hsub : forall a, fun_bcdd s' sub a = fun_bcdd s sub a)
    by (intros a1; apply (fun_bcdd_extends s s' sub a1 H X Gs)).
  unfold chtag in Ech. unfold chtag.
  destruct c; [destruct (etag sub) eqn:Ts|]; simpl in Ech; inversion Ech; subst e0 e1; simpl snd;
    destruct (a l); simpl.
  all: cbn [eref etag xorb Bool.eqb andb negb fst snd].
  all: try (apply (fun_bcdd_term s' {| eref := RT tid; etag := true |} tid a eq_refl)).
  all: rewrite <- (Hsub a); f_equal; apply edge_ext; simpl; try rewrite Ts; try reflexivity.
  destruct (etag sub); reflexivity.
Qed.

(** ** The theorems for BCDDs *)

Ltac bcdd_inst :=
  first [ exact bcdd_OK_WF | exact bcdd_good_ref | exact bcdd_view_err | exact bcdd_view_term
        | exact bcdd_view_node | exact bcdd_den_indep | exact add_lit_bcdd_ok ].

Section BcddThms.
Variable St : Type.
Variable choice : St -> nat -> edge -> bool * St.

Definition Run_bcdd := Run view_bcdd St choice.

Theorem pick_cube_bcdd_total : forall s st e, BcddOK s -> good_bcdd s e ->
  exists r, pick_cube_bcdd St choice s st e = Some r.
Proof.
  intros s st e B G. eapply (pick_cube_total view_bcdd BcddOK good_bcdd den_bcdd); try bcdd_inst; assumption.
Qed.

Theorem pick_cube_bcdd_none_iff : forall s st e, BcddOK s -> good_bcdd s e ->
  (pick_cube_bcdd St choice s st e = Some None <-> forall a, den_bcdd s e a = false).
Proof.
  intros s st e B G. eapply (pick_cube_none_iff view_bcdd BcddOK good_bcdd den_bcdd); try bcdd_inst; assumption.
Qed.

Theorem pick_cube_bcdd_some : forall s st e cb tr st', BcddOK s -> good_bcdd s e ->
  pick_cube_bcdd St choice s st e = Some (Some (cb, tr, st')) ->
  Run_bcdd s st e tr st' /\ length cb = nlevels s /\
  forall l, l < nlevels s ->
    cube_lit s cb l = match trace_val tr l with Some v => v | None => None end.
Proof.
  intros s st e cb tr st' B G E.
  eapply (pick_cube_some view_bcdd BcddOK good_bcdd den_bcdd); try bcdd_inst; assumption.
Qed.

Theorem pick_cube_bcdd_implicant : forall s st e cb tr st', BcddOK s -> good_bcdd s e ->
  pick_cube_bcdd St choice s st e = Some (Some (cb, tr, st')) ->
  forall a, agrees s a cb -> den_bcdd s e a = true.
Proof.
  intros s st e cb tr st' B G E.
  eapply (pick_cube_implicant view_bcdd BcddOK good_bcdd den_bcdd); try bcdd_inst; eassumption.
Qed.

Theorem run_bcdd_levels : forall s st e tr st', BcddOK s -> Run_bcdd s st e tr st' -> good_bcdd s e ->
  incr_from (rlevel s (eref e)) (map sp_level tr) /\ forall p, In p tr -> sp_level p < nlevels s.
Proof.
  intros s st e tr st' B R G.
  eapply (run_levels view_bcdd BcddOK good_bcdd den_bcdd); try bcdd_inst; eassumption.
Qed.

Theorem run_bcdd_calls : forall s st e tr st', BcddOK s -> Run_bcdd s st e tr st' -> good_bcdd s e ->
  forall p, In p tr -> call_ok view_bcdd good_bcdd den_bcdd s p.
Proof.
  intros s st e tr st' B R G.
  eapply (run_calls view_bcdd BcddOK good_bcdd den_bcdd); try bcdd_inst; eassumption.
Qed.

Theorem run_bcdd_answers : forall s st e tr st', Run_bcdd s st e tr st' ->
  replay St choice st tr = (asked_vals tr, st').
Proof. intros s st e tr st'. apply run_answers. Qed.

Theorem pick_dd_bcdd_same_cube : forall s st e cb tr st', BcddOK s -> good_bcdd s e ->
  pick_cube_bcdd St choice s st e = Some (Some (cb, tr, st')) ->
  exists s' r,
    pick_cube_dd_bcdd St choice s st e = Some (s', r, tr, st') /\
    BcddOK s' /\ extends s s' /\ good_bcdd s' r /\
    forall a, den_bcdd s' r a = true <-> agrees s a cb.
Proof.
  intros s st e cb tr st' B G E.
  eapply (pick_dd_same_cube view_bcdd BcddOK good_bcdd den_bcdd); try bcdd_inst; eassumption.
Qed.

Theorem pick_dd_bcdd_false : forall s st e, BcddOK s -> good_bcdd s e ->
  pick_cube_bcdd St choice s st e = Some None ->
  pick_cube_dd_bcdd St choice s st e = Some (s, e, [], st).
Proof. intros s st e. apply (pick_dd_false view_bcdd BcddOK good_bcdd add_lit_bcdd St choice). Qed.

Theorem pick_dd_bcdd_implicant : forall s st e s' r tr st', BcddOK s -> good_bcdd s e ->
  pick_cube_dd_bcdd St choice s st e = Some (s', r, tr, st') ->
  BcddOK s' /\ extends s s' /\ good_bcdd s' r /\
  (forall a, den_bcdd s' r a = true -> den_bcdd s' e a = true) /\
  ((forall a, den_bcdd s' r a = false) <-> (forall a, den_bcdd s e a = false)).
Proof.
  intros s st e s' r tr st' B G E.
  destruct (pick_cube_bcdd_total s st e B G) as [[[[cb tr0] st0]|] Ep].
  - destruct (pick_dd_bcdd_same_cube s st e cb tr0 st0 B G Ep) as [s1 [r1 [P [B1 [X1 [G1 D1]]]]]].
    rewrite P in E. inversion E; subst.
    split; [exact B1|]. split; [exact X1|]. split; [exact G1|]. split.
    + intros a Ha. rewrite (bcdd_den_extends s s' e a B X1 G).
      apply (pick_cube_bcdd_implicant s st e cb tr st' B G Ep). apply D1. exact Ha.
    + split.
      * intros Hf. exfalso.
        destruct (pick_cube_bcdd_some s st e cb tr st' B G Ep) as [R [Lc Wc]].
        set (a := fun l => match trace_val tr l with Some (Some c) => c | _ => false end).
        assert (Ha : agrees s a cb).
        { intros l b Hl Ec. rewrite (Wc l Hl) in Ec. unfold a.
          destruct (trace_val tr l) as [[c|]|]; try discriminate. congruence. }
        apply D1 in Ha. rewrite Hf in Ha. discriminate.
      * intros Hf. exfalso.
        pose proof (proj2 (pick_cube_bcdd_none_iff s st e B G) Hf). congruence.
  - rewrite (pick_dd_bcdd_false s st e B G Ep) in E. inversion E; subst.
    split; [exact B|]. split; [apply extends_refl|]. split; [exact G|]. split; [auto|]. tauto.
Qed.

End BcddThms.

(** ** [pick_cube_dd_set] *)

Theorem pick_dd_set_bcdd_eq : forall s e set L, BcddOK s -> good_bcdd s e -> good_bcdd s set ->
  cube_lits view_bcdd (S (nlevels s)) s set = Some L ->
  pick_cube_dd_set_bcdd s e set =
  drop_st (pick_cube_dd_bcdd unit (mask_choice (lit_pol L)) s tt e).
Proof.
  intros s e set L B G Gs E.
  eapply (pick_dd_set_eq view_bcdd BcddOK good_bcdd den_bcdd); try bcdd_inst; eassumption.
Qed.

Theorem cube_lits_bcdd_den : forall s set L, BcddOK s -> good_bcdd s set ->
  cube_lits view_bcdd (S (nlevels s)) s set = Some L ->
  forall a, den_bcdd s set a = forallb (fun p : nat * bool => Bool.eqb (a (fst p)) (snd p)) L.
Proof.
  intros s set L B G E.
  eapply (CubeAt_den view_bcdd BcddOK good_bcdd den_bcdd); try bcdd_inst; try eassumption.
  eapply cube_lits_CubeAt; eauto.
Qed.

(** [pick_cube_dd_set], spelled out: false iff false, implicant, and at every
    node where the value is not forced the polarity of the literal set *)
Theorem pick_dd_set_bcdd_ok : forall s e set L s' r tr, BcddOK s -> good_bcdd s e -> good_bcdd s set ->
  cube_lits view_bcdd (S (nlevels s)) s set = Some L ->
  pick_cube_dd_set_bcdd s e set = Some (s', r, tr) ->
  BcddOK s' /\ extends s s' /\ good_bcdd s' r /\
  (forall a, den_bcdd s' r a = true -> den_bcdd s' e a = true) /\
  ((forall a, den_bcdd s' r a = false) <-> (forall a, den_bcdd s e a = false)) /\
  ((exists a0, den_bcdd s e a0 = true) -> forall a, den_bcdd s' r a = sat_trace a tr) /\
  forall p, In p tr -> call_ok view_bcdd good_bcdd den_bcdd s p /\
    (sp_asked p = true -> sp_val p = Some (lit_pol L (sp_level p))).
Proof.
  intros s e set L s' r tr B G Gs El E.
  rewrite (pick_dd_set_bcdd_eq s e set L B G Gs El) in E.
  destruct (pick_cube_dd_bcdd unit (mask_choice (lit_pol L)) s tt e) as [[[[s1 r1] tr1] []]|] eqn:Ed;
    [|discriminate]. simpl in E. inversion E; subst s1 r1 tr1. clear E.
  destruct (pick_dd_bcdd_implicant unit (mask_choice (lit_pol L)) s tt e s' r tr tt B G Ed)
    as [B' [X [G' [Hi Hf]]]].
  split; [exact B'|]. split; [exact X|]. split; [exact G'|]. split; [exact Hi|]. split; [exact Hf|].
  destruct (pick_cube_bcdd_total unit (mask_choice (lit_pol L)) s tt e B G) as [[[[cb tr0] []]|] Ep].
  - destruct (pick_dd_bcdd_same_cube unit (mask_choice (lit_pol L)) s tt e cb tr0 tt B G Ep)
      as [s2 [r2 [P [_ [_ [_ D]]]]]].
    rewrite Ed in P. inversion P; subst s2 r2 tr0. clear P.
    destruct (pick_cube_bcdd_some unit (mask_choice (lit_pol L)) s tt e cb tr tt B G Ep) as [R [Lc Wc]].
    destruct (run_bcdd_levels unit (mask_choice (lit_pol L)) s tt e tr tt B R G) as [A C].
    split.
    + intros _ a. apply eq_true_iff_eq. rewrite D.
      apply (agrees_sat_trace s a cb tr (incr_from_nodup _ _ A) C Wc).
    + intros p Hp. split.
      * apply (run_bcdd_calls unit (mask_choice (lit_pol L)) s tt e tr tt B R G p Hp).
      * apply (run_mask_vals view_bcdd (lit_pol L) s tt e tr tt R p Hp).
  - rewrite (pick_dd_bcdd_false unit (mask_choice (lit_pol L)) s tt e B G Ep) in Ed.
    inversion Ed; subst. split; [|intros p []].
    intros [a0 Ha0]. rewrite (proj1 (pick_cube_bcdd_none_iff unit (mask_choice (lit_pol L)) s' tt r B G) Ep) in Ha0.
    discriminate.
Qed.

(** ** [pick_cube_uniform] *)

Lemma count_bcdd_spec : forall s e, BcddOK s -> good_bcdd s e ->
  count_bcdd s e = count_levels (nlevels s) (fun_bcdd s e).
Proof.
  intros s e B G. unfold count_bcdd.
  rewrite (sat_bcdd_correct s (nlevels s) e (bc_wf s B) (bc_kind s B) (le_n _) G).
  rewrite Nat.sub_diag. change (2 ^ N.of_nat 0)%N with 1%N. lia.
Qed.

Lemma count_bcdd_term : forall s e b, BcddOK s -> good_bcdd s e -> view_bcdd s e = CTerm b ->
  count_bcdd s e = if b then (2 ^ N.of_nat (nlevels s))%N else 0%N.
Proof.
  intros s e b B G Ev. rewrite (count_bcdd_spec s e B G).
  destruct (view_bcdd_term s e b Ev) as [t [Er ->]]. unfold count_levels.
  rewrite (cnt_ext _ _ (fun_bcdd s e) (fun _ => negb (etag e))) by (intros a; apply (fun_bcdd_term s e t a Er)).
  apply cnt_const.
Qed.

Lemma count_bcdd_node : forall s e l t x, BcddOK s -> good_bcdd s e -> view_bcdd s e = CNode l t x ->
  (count_bcdd s t + count_bcdd s x = 2 * count_bcdd s e)%N.
Proof.
  intros s e l t x B G Ev.
  destruct (bcdd_view_node s e l t x B G Ev) as [_ [_ [Gt [Gx _]]]].
  destruct (view_bcdd_node s e l t x Ev) as [id [nd [t0 [x0 [Er [E [Hc [_ [-> ->]]]]]]]]].
  rewrite (count_bcdd_spec s _ B Gt), (count_bcdd_spec s _ B Gx), (count_bcdd_spec s e B G).
  rewrite <- (edge_eta e) at 3. rewrite Er.
  apply (total_node_c s (bc_wf s B) (nlevels s) (le_n _) id (etag e) nd t0 x0 E Hc).
Qed.

Theorem run_bcdd_weight : forall St choice s st e tr st', BcddOK s -> Run_bcdd St choice s st e tr st' ->
  good_bcdd s e ->
  let (num, dn) := trace_weight view_bcdd count_bcdd s tr in
  (0 < num /\ 0 < dn /\ 0 < count_bcdd s e /\
   num * count_bcdd s e * 2 ^ N.of_nat (length tr) = dn * 2 ^ N.of_nat (nlevels s))%N.
Proof.
  intros St choice s st e tr st' B R G.
  eapply (run_weight view_bcdd BcddOK good_bcdd den_bcdd); try bcdd_inst; try eassumption.
  - exact count_bcdd_term.
  - exact count_bcdd_node.
Qed.

Theorem pick_uniform_bcdd_model : forall draws s e cb tr k, BcddOK s -> good_bcdd s e ->
  pick_uniform_bcdd draws s e = Some (Some (cb, tr, k)) ->
  forall a, agrees s a cb -> den_bcdd s e a = true.
Proof.
  intros draws s e cb tr k B G E.
  apply (pick_cube_bcdd_implicant nat (uni_choice view_bcdd count_bcdd draws s) s 0 e cb tr k B G E).
Qed.

Theorem pick_uniform_bcdd_none_iff : forall draws s e, BcddOK s -> good_bcdd s e ->
  (pick_uniform_bcdd draws s e = Some None <-> forall a, den_bcdd s e a = false).
Proof.
  intros draws s e B G.
  apply (pick_cube_bcdd_none_iff nat (uni_choice view_bcdd count_bcdd draws s) s 0 e B G).
Qed.
