(** * Cube picking on BDDs: the hypotheses of DD/PickProofs.v for [view_plain]

    [OK] is [BddOK] (DD/ApplyProofs.v: well-formed BDD table with both Boolean
    terminals), [good s e]: the edge points to something stored and carries no
    tag, [den s e] is [fun_bdd s (eref e)] (DD/SatCount.v): the Boolean
    function of level-assignments denoted by the edge. *)

From Coq Require Import List NArith PArith Bool Arith Lia FMapPositive.
From OxiVerif Require Import DD.Table DD.TableProofs DD.Canon DD.Build DD.BuildProofs DD.Apply DD.ApplyProofs
  DD.SatCount DD.SatCountProofs DD.Pick DD.PickProofs.
Import ListNotations.

Arguments N.add : simpl never.
Arguments N.mul : simpl never.
Arguments N.pow : simpl never.

Definition good_bdd (s : snap) (e : edge) : Prop := ref_ok s (eref e) /\ etag e = false.
Definition den_bdd (s : snap) (e : edge) : lasg -> bool := fun_bdd s (eref e).

Lemma bdd_binary_k : forall s, BddOK s -> binary (s_kind s).
Proof. intros s B. unfold binary. rewrite (bo_kind s B). discriminate. Qed.

Lemma fun_bdd_ext : forall s r a a', WF s -> (forall l, a l = a' l) -> fun_bdd s r a = fun_bdd s r a'.
Proof.
  intros s r a a' H Ha. unfold fun_bdd. f_equal. apply (semk_ext s H). intros l _.
  unfold choice_of. rewrite Ha. reflexivity.
Qed.

Lemma fun_bdd_term : forall s t b a, term_val s t = Some (b2c b) -> fun_bdd s (RT t) a = b.
Proof. intros s t b a E. unfold fun_bdd. rewrite semk_T, E. destruct b; reflexivity. Qed.

(** an inner node of a reduced BDD is satisfiable: one of its two distinct
    children is not the false terminal (search along the levels) *)
Lemma bdd_node_sat : forall s id nd, BddOK s -> find_node s id = Some nd ->
  exists a, fun_bdd s (RN id) a = true.
Proof.
  intros s id nd B E.
  destruct (bo_false s B) as [tf Etf].
  assert (Hok : ref_ok s (RN id)) by (exists nd; exact E).
  assert (Hind : forall k r, ref_ok s r -> nlevels s - rlevel s r <= k ->
             r = RT tf \/ exists c, bchoice c /\ semk s (S (nlevels s)) r c = Some 1%N).
  { induction k as [|k IH]; intros r Hr Hk.
    - destruct r as [t|i].
      + destruct Hr as [v Ev]. destruct (bo_codes s B t v Ev) as [->| ->].
        * left. f_equal. apply (term_val_inj s t tf 0%N (bo_wf s B) Ev Etf).
        * right. exists (fun _ => 0). split; [intros l; lia | rewrite semk_T; exact Ev].
      + destruct Hr as [n0 E0]. pose proof (wf_level s (bo_wf s B) i n0 E0).
        rewrite (rlevel_node s i n0 E0) in Hk. lia.
    - destruct r as [t|i]; [apply (IH (RT t) Hr); simpl; lia|].
      destruct Hr as [n0 E0]. rewrite (rlevel_node s i n0 E0) in Hk.
      destruct (two_children s i n0 (bo_wf s B) (bdd_binary_k s B) E0) as [e0 [e1 Hc]].
      assert (C0 : ref_ok s (eref e0) /\ nlevel n0 < rlevel s (eref e0))
        by (apply (wf_child s (bo_wf s B) i n0 e0 E0); rewrite Hc; left; reflexivity).
      assert (C1 : ref_ok s (eref e1) /\ nlevel n0 < rlevel s (eref e1))
        by (apply (wf_child s (bo_wf s B) i n0 e1 E0); rewrite Hc; right; left; reflexivity).
      assert (T0 : etag e0 = false)
        by (apply (wf_tags s (bo_wf s B) ltac:(rewrite (bo_kind s B); discriminate) i n0 e0 E0); rewrite Hc; left; reflexivity).
      assert (T1 : etag e1 = false)
        by (apply (wf_tags s (bo_wf s B) ltac:(rewrite (bo_kind s B); discriminate) i n0 e1 E0); rewrite Hc; right; left; reflexivity).
      right.
      assert (Hsub : forall (j : nat) (ej : edge), nth_error (nchildren n0) j = Some ej -> j < 2 ->
                (exists c, bchoice c /\ semk s (S (nlevels s)) (eref ej) c = Some 1%N) ->
                exists c, bchoice c /\ semk s (S (nlevels s)) (RN i) c = Some 1%N).
      { intros j ej Hj Hj2 [c [Hbc Hs]]. exists (TableProofs.upd c (nlevel n0) j). split.
        - apply bchoice_upd; assumption.
        - pose proof (child_sem s (bo_wf s B) i n0 j ej c E0 Hj) as Hcs.
          unfold semn in Hcs. rewrite <- Hcs. exact Hs. }
      destruct (IH (eref e0) (proj1 C0) ltac:(lia)) as [F0|S0].
      + destruct (IH (eref e1) (proj1 C1) ltac:(lia)) as [F1|S1].
        * exfalso. pose proof (wf_reduced s (bo_wf s B) i n0 E0) as Hred.
          apply (reduced_kary s (bdd_kary s B)) in Hred. apply Hred.
          assert (e0 = e1) by (apply edge_ext; congruence).
          intros u w Hu Hw. rewrite Hc in Hu, Hw. simpl in Hu, Hw.
          destruct Hu as [<-|[<-|[]]], Hw as [<-|[<-|[]]]; congruence.
        * apply (Hsub 1 e1); [rewrite Hc; reflexivity | lia | exact S1].
      + apply (Hsub 0 e0); [rewrite Hc; reflexivity | lia | exact S0]. }
  destruct (Hind (nlevels s) (RN id) Hok ltac:(lia)) as [Hf|[c [Hc Hs]]]; [discriminate|].
  exists (fun l => Nat.eqb (c l) 0). unfold fun_bdd.
  rewrite (semk_ext s (bo_wf s B) _ (RN id) (choice_of (fun l => Nat.eqb (c l) 0)) c).
  - rewrite Hs. reflexivity.
  - intros l _. unfold choice_of. specialize (Hc l). destruct (Nat.eqb_spec (c l) 0); lia.
Qed.

Section BddInst.

Lemma bdd_OK_WF : forall s, BddOK s -> WF s.
Proof. intros s B. apply (bo_wf s B). Qed.

Lemma bdd_good_ref : forall s e, good_bdd s e -> ref_ok s (eref e).
Proof. intros s e [A _]. exact A. Qed.

Lemma bdd_view_err : forall s e, BddOK s -> good_bdd s e -> view_plain s e <> CErr.
Proof.
  intros s e B [Hok _]. unfold view_plain. destruct (eref e) as [t|id].
  - destruct Hok as [v Ev]. rewrite Ev. destruct (bo_codes s B t v Ev) as [->| ->]; discriminate.
  - destruct Hok as [nd E]. rewrite E.
    destruct (two_children s id nd (bo_wf s B) (bdd_binary_k s B) E) as [e0 [e1 Hc]]. rewrite Hc. discriminate.
Qed.

Lemma view_plain_term : forall s e b, view_plain s e = CTerm b ->
  exists t, eref e = RT t /\ term_val s t = Some (b2c b).
Proof.
  intros s e b. unfold view_plain. destruct (eref e) as [t|id].
  - destruct (term_val s t) as [[|[|p|]]|] eqn:Ev; try discriminate; intros E; inversion E; subst; eauto.
  - destruct (find_node s id) as [nd|]; [|discriminate].
    destruct (nchildren nd) as [|? [|? [|]]]; discriminate.
Qed.

Lemma view_plain_node : forall s e l t x, view_plain s e = CNode l t x ->
  exists id nd, eref e = RN id /\ find_node s id = Some nd /\ nchildren nd = [t; x] /\ l = nstored nd.
Proof.
  intros s e l t x. unfold view_plain. destruct (eref e) as [t0|id].
  - destruct (term_val s t0) as [[|[|p|]]|]; discriminate.
  - destruct (find_node s id) as [nd|] eqn:E; [|discriminate].
    destruct (nchildren nd) as [|a [|b [|]]] eqn:Hc; try discriminate.
    intros X. inversion X; subst. exists id, nd. auto.
Qed.

Lemma bdd_view_term : forall s e b, BddOK s -> good_bdd s e -> view_plain s e = CTerm b ->
  rlevel s (eref e) = nlevels s /\ forall a, den_bdd s e a = b.
Proof.
  intros s e b B G Ev. destruct (view_plain_term s e b Ev) as [t [Er Et]].
  unfold den_bdd. rewrite Er. split; [reflexivity|]. intros a. apply fun_bdd_term. exact Et.
Qed.

Lemma bdd_view_node : forall s e l t x, BddOK s -> good_bdd s e -> view_plain s e = CNode l t x ->
  l = rlevel s (eref e) /\ l < nlevels s /\ good_bdd s t /\ good_bdd s x /\
  l < rlevel s (eref t) /\ l < rlevel s (eref x) /\
  (forall a, den_bdd s e a = if a l then den_bdd s t a else den_bdd s x a) /\
  (exists a, den_bdd s e a = true).
Proof.
  intros s e l t x B G Ev. pose proof (bo_wf s B) as H.
  destruct (view_plain_node s e l t x Ev) as [id [nd [Er [E [Hc Hl]]]]].
  rewrite (wf_stored s H id nd E) in Hl. subst l.
  assert (Ct : ref_ok s (eref t) /\ nlevel nd < rlevel s (eref t))
    by (apply (wf_child s H id nd t E); rewrite Hc; left; reflexivity).
  assert (Cx : ref_ok s (eref x) /\ nlevel nd < rlevel s (eref x))
    by (apply (wf_child s H id nd x E); rewrite Hc; right; left; reflexivity).
  assert (Hk : s_kind s <> KBcdd) by (rewrite (bo_kind s B); discriminate).
  assert (Tt : etag t = false) by (apply (wf_tags s H Hk id nd t E); rewrite Hc; left; reflexivity).
  assert (Tx : etag x = false) by (apply (wf_tags s H Hk id nd x E); rewrite Hc; right; left; reflexivity).
  unfold den_bdd. rewrite Er.
  split; [rewrite (rlevel_node s id nd E); reflexivity|].
  split; [apply (wf_level s H id nd E)|].
  split; [split; [apply Ct | exact Tt]|]. split; [split; [apply Cx | exact Tx]|].
  split; [apply Ct|]. split; [apply Cx|]. split.
  - intros a.
    rewrite (fun_bdd_ext s (RN id) a (updb a (nlevel nd) (a (nlevel nd))) H).
    + rewrite (fun_bdd_child s H id nd t x a (a (nlevel nd)) E Hc). destruct (a (nlevel nd)); reflexivity.
    + intros l. unfold updb. destruct (Nat.eqb_spec l (nlevel nd)); congruence.
  - apply (bdd_node_sat s id nd B E).
Qed.

Lemma bdd_den_indep : forall s e l a b, BddOK s -> good_bdd s e -> l < rlevel s (eref e) ->
  den_bdd s e (updb a l b) = den_bdd s e a.
Proof.
  intros s e l a b B G Hl. unfold den_bdd.
  apply (fun_bdd_indep s (bo_wf s B) (nlevels s) (le_n _) (eref e) l Hl).
Qed.

Lemma bdd_good_extends : forall s s' e, BddOK s -> extends s s' -> good_bdd s e -> good_bdd s' e.
Proof. intros s s' e B X [A T]. split; [eapply ext_ref_ok; eauto | exact T]. Qed.

Lemma bdd_den_extends : forall s s' e a, BddOK s -> BddOK s' -> extends s s' -> good_bdd s e ->
  den_bdd s' e a = den_bdd s e a.
Proof.
  intros s s' e a B B' X [A _]. unfold den_bdd, fun_bdd.
  rewrite (ext_nlevels _ _ X), (semk_extends s s' (bo_wf s B) X _ _ _ A). reflexivity.
Qed.

Lemma add_lit_bdd_ok : forall s sub l c, BddOK s -> good_bdd s sub -> l < nlevels s ->
  l < rlevel s (eref sub) -> (exists a, den_bdd s sub a = true) ->
  exists s' r, add_lit_bdd s sub l c = Some (s', r) /\ BddOK s' /\ extends s s' /\ good_bdd s' r /\
    rlevel s' (eref r) = l /\ forall a, den_bdd s' r a = Bool.eqb (a l) c && den_bdd s sub a.
Proof.
  intros s sub l c B [Gs Ts] Hl Hls [a0 Ha0]. pose proof (bo_wf s B) as H.
  unfold add_lit_bdd. destruct (term_of_total s false B) as [f Ef]. rewrite Ef.
  pose proof (term_of_spec s false f H Ef) as Vf. simpl in Vf.
  set (ch := if c then [sub; E (RT f)] else [E (RT f); sub]).
  destruct (get_or_insert s l ch) as [s' r] eqn:Eg.
  assert (Hne : sub <> E (RT f)).
  { intros ->. unfold den_bdd in Ha0. simpl in Ha0. rewrite (fun_bdd_term s f false a0 Vf) in Ha0. discriminate. }
  assert (Hch : children_ok s l ch).
  { split; [unfold ch; rewrite (bo_kind s B); destruct c; reflexivity|].
    assert (HF : ref_ok s (eref (E (RT f))) /\ l < rlevel s (eref (E (RT f))) /\ etag (E (RT f)) = false)
      by (simpl; split; [eauto | split; [exact Hl | reflexivity]]).
    intros e He. unfold ch in He. destruct c; simpl in He; destruct He as [<-|[<-|[]]]; auto. }
  assert (Hae : all_equal ch = false).
  { unfold ch. destruct c; simpl; rewrite andb_true_r.
    - destruct (edge_eqb sub (E (RT f))) eqn:Q; [apply edge_eqb_eq in Q; contradiction | reflexivity].
    - destruct (edge_eqb (E (RT f)) sub) eqn:Q; [apply edge_eqb_eq in Q; congruence | reflexivity]. }
  destruct (get_or_insert_wf s l ch s' r H (bdd_kary s B) Hl Hch Hae Eg) as [W' [X [Rr [Tr [Lr Sh]]]]].
  exists s', r. split; [reflexivity|]. split; [apply (bddok_extends s s' B X W')|].
  split; [exact X|]. split; [split; assumption|]. split; [exact Lr|].
  intros a. unfold den_bdd, fun_bdd.
  destruct (Bool.eqb (a l) c) eqn:Eac.
  - apply eqb_prop in Eac.
    rewrite (Sh (choice_of a) (if c then 0 else 1) sub).
    + reflexivity.
    + unfold choice_of. rewrite Eac. reflexivity.
    + unfold ch. destruct c; reflexivity.
  - apply eqb_false_iff in Eac.
    rewrite (Sh (choice_of a) (if c then 1 else 0) (E (RT f))).
    + simpl. rewrite semk_T, Vf. reflexivity.
    + unfold choice_of. destruct (a l), c; try reflexivity; exfalso; apply Eac; reflexivity.
    + unfold ch. destruct c; reflexivity.
Qed.

End BddInst.

(** ** The theorems for BDDs *)

Ltac bdd_inst :=
  first [ exact bdd_OK_WF | exact bdd_good_ref | exact bdd_view_err | exact bdd_view_term
        | exact bdd_view_node | exact bdd_den_indep | exact add_lit_bdd_ok ].

Section BddThms.
Variable St : Type.
Variable choice : St -> nat -> edge -> bool * St.

Definition Run_bdd := Run view_plain St choice.

Theorem pick_cube_bdd_total : forall s st e, BddOK s -> good_bdd s e ->
  exists r, pick_cube_bdd St choice s st e = Some r.
Proof.
  intros s st e B G. eapply (pick_cube_total view_plain BddOK good_bdd den_bdd); try bdd_inst; assumption.
Qed.

Theorem pick_cube_bdd_none_iff : forall s st e, BddOK s -> good_bdd s e ->
  (pick_cube_bdd St choice s st e = Some None <-> forall a, den_bdd s e a = false).
Proof.
  intros s st e B G. eapply (pick_cube_none_iff view_plain BddOK good_bdd den_bdd); try bdd_inst; assumption.
Qed.

Theorem pick_cube_bdd_some : forall s st e cb tr st', BddOK s -> good_bdd s e ->
  pick_cube_bdd St choice s st e = Some (Some (cb, tr, st')) ->
  Run_bdd s st e tr st' /\ length cb = nlevels s /\
  forall l, l < nlevels s ->
    cube_lit s cb l = match trace_val tr l with Some v => v | None => None end.
Proof.
  intros s st e cb tr st' B G E.
  eapply (pick_cube_some view_plain BddOK good_bdd den_bdd); try bdd_inst; assumption.
Qed.

Theorem pick_cube_bdd_implicant : forall s st e cb tr st', BddOK s -> good_bdd s e ->
  pick_cube_bdd St choice s st e = Some (Some (cb, tr, st')) ->
  forall a, agrees s a cb -> den_bdd s e a = true.
Proof.
  intros s st e cb tr st' B G E.
  eapply (pick_cube_implicant view_plain BddOK good_bdd den_bdd); try bdd_inst; eassumption.
Qed.

Theorem run_bdd_levels : forall s st e tr st', BddOK s -> Run_bdd s st e tr st' -> good_bdd s e ->
  incr_from (rlevel s (eref e)) (map sp_level tr) /\ forall p, In p tr -> sp_level p < nlevels s.
Proof.
  intros s st e tr st' B R G.
  eapply (run_levels view_plain BddOK good_bdd den_bdd); try bdd_inst; eassumption.
Qed.

Theorem run_bdd_calls : forall s st e tr st', BddOK s -> Run_bdd s st e tr st' -> good_bdd s e ->
  forall p, In p tr -> call_ok view_plain good_bdd den_bdd s p.
Proof.
  intros s st e tr st' B R G.
  eapply (run_calls view_plain BddOK good_bdd den_bdd); try bdd_inst; eassumption.
Qed.

Theorem run_bdd_answers : forall s st e tr st', Run_bdd s st e tr st' ->
  replay St choice st tr = (asked_vals tr, st').
Proof. intros s st e tr st'. apply run_answers. Qed.

Theorem pick_dd_bdd_same_cube : forall s st e cb tr st', BddOK s -> good_bdd s e ->
  pick_cube_bdd St choice s st e = Some (Some (cb, tr, st')) ->
  exists s' r,
    pick_cube_dd_bdd St choice s st e = Some (s', r, tr, st') /\
    BddOK s' /\ extends s s' /\ good_bdd s' r /\
    forall a, den_bdd s' r a = true <-> agrees s a cb.
Proof.
  intros s st e cb tr st' B G E.
  eapply (pick_dd_same_cube view_plain BddOK good_bdd den_bdd); try bdd_inst; eassumption.
Qed.

Theorem pick_dd_bdd_false : forall s st e, BddOK s -> good_bdd s e ->
  pick_cube_bdd St choice s st e = Some None ->
  pick_cube_dd_bdd St choice s st e = Some (s, e, [], st).
Proof. intros s st e. apply (pick_dd_false view_plain BddOK good_bdd add_lit_bdd St choice). Qed.

End BddThms.

(** ** [pick_cube_dd]: the result implies the function (in the extended table) *)

Theorem pick_dd_bdd_implicant : forall St choice s st e s' r tr st', BddOK s -> good_bdd s e ->
  pick_cube_dd_bdd St choice s st e = Some (s', r, tr, st') ->
  BddOK s' /\ extends s s' /\ good_bdd s' r /\
  (forall a, den_bdd s' r a = true -> den_bdd s' e a = true) /\
  ((forall a, den_bdd s' r a = false) <-> (forall a, den_bdd s e a = false)).
Proof.
  intros St choice s st e s' r tr st' B G E.
  destruct (pick_cube_bdd_total St choice s st e B G) as [[[[cb tr0] st0]|] Ep].
  - destruct (pick_dd_bdd_same_cube St choice s st e cb tr0 st0 B G Ep) as [s1 [r1 [P [B1 [X1 [G1 D1]]]]]].
    rewrite P in E. inversion E; subst.
    split; [exact B1|]. split; [exact X1|]. split; [exact G1|]. split.
    + intros a Ha. rewrite (bdd_den_extends s s' e a B B1 X1 G).
      apply (pick_cube_bdd_implicant St choice s st e cb tr st' B G Ep). apply D1. exact Ha.
    + split.
      * intros Hf. exfalso.
        destruct (pick_cube_bdd_some St choice s st e cb tr st' B G Ep) as [R [Lc Wc]].
        destruct (run_bdd_levels St choice s st e tr st' B R G) as [A Bl].
        (* the assignment that follows the trace satisfies the cube *)
        set (a := fun l => match trace_val tr l with Some (Some c) => c | _ => false end).
        assert (Ha : agrees s a cb).
        { intros l b Hl Ec. rewrite (Wc l Hl) in Ec. unfold a.
          destruct (trace_val tr l) as [[c|]|]; try discriminate. congruence. }
        apply D1 in Ha. rewrite Hf in Ha. discriminate.
      * intros Hf. exfalso.
        pose proof (proj2 (pick_cube_bdd_none_iff St choice s st e B G) Hf). congruence.
  - rewrite (pick_dd_bdd_false St choice s st e B G Ep) in E. inversion E; subst.
    split; [exact B|]. split; [apply extends_refl|]. split; [exact G|]. split; [auto|]. tauto.
Qed.

(** ** [pick_cube_dd_set] *)

Theorem pick_dd_set_bdd_eq : forall s e set L, BddOK s -> good_bdd s e -> good_bdd s set ->
  cube_lits view_plain (S (nlevels s)) s set = Some L ->
  pick_cube_dd_set_bdd s e set =
  drop_st (pick_cube_dd_bdd unit (mask_choice (lit_pol L)) s tt e).
Proof.
  intros s e set L B G Gs E.
  eapply (pick_dd_set_eq view_plain BddOK good_bdd den_bdd); try bdd_inst; eassumption.
Qed.

Theorem cube_lits_bdd_den : forall s set L, BddOK s -> good_bdd s set ->
  cube_lits view_plain (S (nlevels s)) s set = Some L ->
  forall a, den_bdd s set a = forallb (fun p : nat * bool => Bool.eqb (a (fst p)) (snd p)) L.
Proof.
  intros s set L B G E.
  eapply (CubeAt_den view_plain BddOK good_bdd den_bdd); try bdd_inst; try eassumption.
  eapply cube_lits_CubeAt; eauto.
Qed.

(** [pick_cube_dd_set], spelled out: false iff false, implicant, and at every
    node where the value is not forced the polarity of the literal set *)
Theorem pick_dd_set_bdd_ok : forall s e set L s' r tr, BddOK s -> good_bdd s e -> good_bdd s set ->
  cube_lits view_plain (S (nlevels s)) s set = Some L ->
  pick_cube_dd_set_bdd s e set = Some (s', r, tr) ->
  BddOK s' /\ extends s s' /\ good_bdd s' r /\
  (forall a, den_bdd s' r a = true -> den_bdd s' e a = true) /\
  ((forall a, den_bdd s' r a = false) <-> (forall a, den_bdd s e a = false)) /\
  ((exists a0, den_bdd s e a0 = true) -> forall a, den_bdd s' r a = sat_trace a tr) /\
  forall p, In p tr -> call_ok view_plain good_bdd den_bdd s p /\
    (sp_asked p = true -> sp_val p = Some (lit_pol L (sp_level p))).
Proof.
  intros s e set L s' r tr B G Gs El E.
  rewrite (pick_dd_set_bdd_eq s e set L B G Gs El) in E.
  destruct (pick_cube_dd_bdd unit (mask_choice (lit_pol L)) s tt e) as [[[[s1 r1] tr1] []]|] eqn:Ed;
    [|discriminate]. simpl in E. inversion E; subst s1 r1 tr1. clear E.
  destruct (pick_dd_bdd_implicant unit (mask_choice (lit_pol L)) s tt e s' r tr tt B G Ed)
    as [B' [X [G' [Hi Hf]]]].
  split; [exact B'|]. split; [exact X|]. split; [exact G'|]. split; [exact Hi|]. split; [exact Hf|].
  destruct (pick_cube_bdd_total unit (mask_choice (lit_pol L)) s tt e B G) as [[[[cb tr0] []]|] Ep].
  - destruct (pick_dd_bdd_same_cube unit (mask_choice (lit_pol L)) s tt e cb tr0 tt B G Ep)
      as [s2 [r2 [P [_ [_ [_ D]]]]]].
    rewrite Ed in P. inversion P; subst s2 r2 tr0. clear P.
    destruct (pick_cube_bdd_some unit (mask_choice (lit_pol L)) s tt e cb tr tt B G Ep) as [R [Lc Wc]].
    destruct (run_bdd_levels unit (mask_choice (lit_pol L)) s tt e tr tt B R G) as [A C].
    split.
    + intros _ a. apply eq_true_iff_eq. rewrite D.
      apply (agrees_sat_trace s a cb tr (incr_from_nodup _ _ A) C Wc).
    + intros p Hp. split.
      * apply (run_bdd_calls unit (mask_choice (lit_pol L)) s tt e tr tt B R G p Hp).
      * apply (run_mask_vals view_plain (lit_pol L) s tt e tr tt R p Hp).
  - rewrite (pick_dd_bdd_false unit (mask_choice (lit_pol L)) s tt e B G Ep) in Ed.
    inversion Ed; subst. split; [|intros p []].
    intros [a0 Ha0]. rewrite (proj1 (pick_cube_bdd_none_iff unit (mask_choice (lit_pol L)) s' tt r B G) Ep) in Ha0.
    discriminate.
Qed.

(** ** [pick_cube_uniform] *)

Lemma count_bdd_spec : forall s e, BddOK s -> good_bdd s e ->
  count_bdd s e = count_levels (nlevels s) (fun_bdd s (eref e)).
Proof.
  intros s e B [G _]. unfold count_bdd.
  rewrite (sat_bdd_correct s (nlevels s) (eref e) (bo_wf s B) (bo_kind s B) (le_n _) G).
  rewrite Nat.sub_diag. change (2 ^ N.of_nat 0)%N with 1%N. lia.
Qed.

Lemma count_bdd_term : forall s e b, BddOK s -> good_bdd s e -> view_plain s e = CTerm b ->
  count_bdd s e = if b then (2 ^ N.of_nat (nlevels s))%N else 0%N.
Proof.
  intros s e b B G Ev. rewrite (count_bdd_spec s e B G).
  destruct (view_plain_term s e b Ev) as [t [Er Et]]. rewrite Er. unfold count_levels.
  rewrite (cnt_ext _ _ (fun_bdd s (RT t)) (fun _ => b)) by (intros a; apply fun_bdd_term; exact Et).
  apply cnt_const.
Qed.

Lemma count_bdd_node : forall s e l t x, BddOK s -> good_bdd s e -> view_plain s e = CNode l t x ->
  (count_bdd s t + count_bdd s x = 2 * count_bdd s e)%N.
Proof.
  intros s e l t x B G Ev.
  destruct (bdd_view_node s e l t x B G Ev) as [_ [_ [Gt [Gx _]]]].
  destruct (view_plain_node s e l t x Ev) as [id [nd [Er [E [Hc _]]]]].
  rewrite (count_bdd_spec s t B Gt), (count_bdd_spec s x B Gx), (count_bdd_spec s e B G), Er.
  apply (total_node s (bo_wf s B) (nlevels s) (le_n _) id nd t x E Hc).
Qed.

(** probability of the returned cube = 2^(levels - literals) / #models *)
Theorem run_bdd_weight : forall St choice s st e tr st', BddOK s -> Run_bdd St choice s st e tr st' ->
  good_bdd s e ->
  let (num, dn) := trace_weight view_plain count_bdd s tr in
  (0 < num /\ 0 < dn /\ 0 < count_bdd s e /\
   num * count_bdd s e * 2 ^ N.of_nat (length tr) = dn * 2 ^ N.of_nat (nlevels s))%N.
Proof.
  intros St choice s st e tr st' B R G.
  eapply (run_weight view_plain BddOK good_bdd den_bdd); try bdd_inst; try eassumption.
  - exact count_bdd_term.
  - exact count_bdd_node.
Qed.

(** the uniform picker is [pick_cube] with a particular (stateful) choice:
    everything above applies; in particular it never returns a non-model *)
Theorem pick_uniform_bdd_model : forall draws s e cb tr k, BddOK s -> good_bdd s e ->
  pick_uniform_bdd draws s e = Some (Some (cb, tr, k)) ->
  forall a, agrees s a cb -> den_bdd s e a = true.
Proof.
  intros draws s e cb tr k B G E.
  apply (pick_cube_bdd_implicant nat (uni_choice view_plain count_bdd draws s) s 0 e cb tr k B G E).
Qed.

Theorem pick_uniform_bdd_none_iff : forall draws s e, BddOK s -> good_bdd s e ->
  (pick_uniform_bdd draws s e = Some None <-> forall a, den_bdd s e a = false).
Proof.
  intros draws s e B G.
  apply (pick_cube_bdd_none_iff nat (uni_choice view_plain count_bdd draws s) s 0 e B G).
Qed.
