(** * Cube picking: the hypotheses of the C13 theorems are satisfiable

    The function (x0 /\ x1) \/ x2 over three levels as a BDD, a BCDD and a ZBDD
    (the example tables of DD/SatCount.v): they satisfy [BddOK] / [BcddOK] /
    [ZbddOK]; a literal set built by [mk_cube] is a cube diagram in the sense of
    [cube_lits] / [cube_lits_z]; and the picking functions compute what one
    expects (closed computations, [vm_compute]). *)

From Coq Require Import List NArith PArith Bool Arith FMapPositive.
From OxiVerif Require Import DD.Table DD.TableProofs DD.Build DD.Apply DD.ApplyProofs DD.SatCount
  DD.Pick DD.PickProofs DD.PickBdd DD.PickBcdd DD.PickZbdd.
Import ListNotations.

(** the level-indexed choice "true at every level" / "false at every level" *)
Definition all_true := mask_choice (fun _ => true).
Definition all_false := mask_choice (fun _ => false).

(** ** BDD *)

Example ex_bdd_ok : BddOK ex_sat_bdd.
Proof. apply bdd_ok_b_spec. vm_compute. reflexivity. Qed.

Example ex_bdd_good : good_bdd ex_sat_bdd (xe (RN 4)).
Proof. split; [apply ref_ok_b_spec; vm_compute; reflexivity | reflexivity]. Qed.

(* choice true: x0 = 1 (asked), x1 = 1 (asked), x2 don't care *)
Example ex_bdd_pick_true :
  option_map (option_map (fun r => (fst (fst r), calls (snd (fst r)))))
    (pick_cube_bdd unit all_true ex_sat_bdd tt (xe (RN 4)))
  = Some (Some ([Some true; Some true; None], [(0, Some true); (1, Some true)])).
Proof. vm_compute. reflexivity. Qed.

(* choice false: x0 = 0 (asked), then x2 = 1 is forced *)
Example ex_bdd_pick_false :
  option_map (option_map (fun r => (fst (fst r), calls (snd (fst r)))))
    (pick_cube_bdd unit all_false ex_sat_bdd tt (xe (RN 4)))
  = Some (Some ([Some false; None; Some true], [(0, Some false)])).
Proof. vm_compute. reflexivity. Qed.

(* the literal set { !x0, x2 } built by the model is a cube diagram; with it
   pick_cube_dd_set returns the cube !x0 /\ x2 *)
Definition ex_bdd_set :=
  mk_cube add_lit_bdd ex_sat_bdd (xe (RT 1)) [(0, false); (2, true)].

Example ex_bdd_set_is_cube :
  match ex_bdd_set with
  | Some (s1, set) =>
    bdd_ok_b s1 = true /\ cube_lits view_plain 4 s1 set = Some [(0, false); (2, true)] /\
    match pick_cube_dd_set_bdd s1 (xe (RN 4)) set with
    | Some (s2, r, tr) =>
      cube_lits view_plain 4 s2 r = Some [(0, false); (2, true)] /\
      map (fun p => (sp_level p, sp_val p, sp_asked p)) tr = [(0, Some false, true); (2, Some true, false)]
    | None => False
    end
  | None => False
  end.
Proof. vm_compute. repeat split; reflexivity. Qed.

(* uniform: counts 5 models; the draw 0/1 always takes the then-branch *)
Example ex_bdd_uniform :
  count_bdd ex_sat_bdd (xe (RN 4)) = 5%N /\
  option_map (option_map (fun r => fst (fst r)))
    (pick_uniform_bdd (fun _ => (0%N, 1%N)) ex_sat_bdd (xe (RN 4)))
  = Some (Some [Some true; Some true; None]).
Proof. vm_compute. split; reflexivity. Qed.

(* trace weight of that cube: (6/10) * (8/12) = 48/120 = 2^1 / 5 *)
Example ex_bdd_weight :
  match pick_cube_bdd unit all_true ex_sat_bdd tt (xe (RN 4)) with
  | Some (Some (_, tr, _)) => trace_weight view_plain count_bdd ex_sat_bdd tr = (48%N, 120%N)
  | _ => False
  end.
Proof. vm_compute. reflexivity. Qed.

(** ** BCDD *)

Example ex_bcdd_ok : BcddOK ex_sat_bcdd.
Proof. apply bcdd_ok_b_spec. vm_compute. reflexivity. Qed.

Example ex_bcdd_good : good_bcdd ex_sat_bcdd (mkEdge (RN 4) true).
Proof. apply ref_ok_b_spec. vm_compute. reflexivity. Qed.

(* the complement !((x0 /\ x1) \/ x2): choice true gives x0 = 1, then x1 = 0 and x2 = 0 are forced *)
Example ex_bcdd_pick_neg :
  option_map (option_map (fun r => (fst (fst r), calls (snd (fst r)))))
    (pick_cube_bcdd unit all_true ex_sat_bcdd tt (mkEdge (RN 4) true))
  = Some (Some ([Some true; Some false; Some false], [(0, Some true)])).
Proof. vm_compute. reflexivity. Qed.

Example ex_bcdd_pick_dd :
  match pick_cube_dd_bcdd unit all_true ex_sat_bcdd tt (mkEdge (RN 4) true) with
  | Some (s', r, tr, _) =>
    bcdd_ok_b s' = true /\
    cube_lits view_bcdd 4 s' r = Some [(0, true); (1, false); (2, false)]
  | None => False
  end.
Proof. vm_compute. split; reflexivity. Qed.

(** ** ZBDD *)

Example ex_zbdd_ok : ZbddOK ex_sat_zbdd.
Proof. apply zbdd_ok_b_spec. vm_compute. reflexivity. Qed.

Example ex_zbdd_good : good_z ex_sat_zbdd (xe (RN 6)).
Proof. split; [apply ref_ok_b_spec; vm_compute; reflexivity | reflexivity]. Qed.

(* choice true: x0 = 1, x1 = 1, x2 don't care (node 4 has equal children) *)
Example ex_zbdd_pick_true :
  option_map (option_map (fun r => (fst (fst r), calls (snd (fst r)))))
    (pick_cube_z unit all_true ex_sat_zbdd tt (xe (RN 6)))
  = Some (Some ([Some true; Some true; None], [(0, Some true); (1, Some true)])).
Proof. vm_compute. reflexivity. Qed.

(* choice false: x0 = 0, x1 don't care (node 3), x2 = 1 forced *)
Example ex_zbdd_pick_false :
  option_map (option_map (fun r => (fst (fst r), calls (snd (fst r)))))
    (pick_cube_z unit all_false ex_sat_zbdd tt (xe (RN 6)))
  = Some (Some ([Some false; None; Some true], [(0, Some false)])).
Proof. vm_compute. reflexivity. Qed.

(* the literal set { x0 } with x1 negative and x2 absent, as a ZBDD cube *)
Definition ex_zbdd_set :=
  mk_cube add_lit_z ex_sat_zbdd (xe (RT 1)) [(0, false); (2, true)].

Example ex_zbdd_set_is_cube :
  match ex_zbdd_set with
  | Some (s1, set) =>
    zbdd_ok_b s1 = true /\ cube_lits_z 4 s1 set = Some [(0, false); (2, true)] /\
    match pick_cube_dd_set_z s1 (xe (RN 6)) set with
    | Some (s2, r, tr) =>
      zbdd_ok_b s2 = true /\
      map (fun p => (sp_level p, sp_val p, sp_asked p)) tr =
        [(0, Some true, true); (1, Some false, true); (2, Some true, false)]
    | None => False
    end
  | None => False
  end.
Proof. vm_compute. repeat split; reflexivity. Qed.

Example ex_zbdd_count : count_zbdd ex_sat_zbdd (xe (RN 6)) = 5%N.
Proof. vm_compute. reflexivity. Qed.
