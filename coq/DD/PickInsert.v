(** * [LevelView::get_or_insert] for every kind of diagram

    DD/BuildProofs.v proves that [get_or_insert] keeps a table well-formed for
    the kinds with the plain reduction rule and untagged edges.  Cube picking
    also inserts BCDD nodes ([add_literal_to_cube]: tagged else-edges) and ZBDD
    nodes (then-child not Empty), so the same is proved here for any kind,
    with the kind's own reduction rule [reduced] as the hypothesis; plus: the
    interpreters [semc] / [semz] of old references are unchanged. *)

From Coq Require Import List NArith PArith Bool Arith Lia FMapPositive.
From OxiVerif Require Import DD.Table DD.TableProofs DD.Build DD.BuildProofs.
Import ListNotations.

Lemma reduced_ext : forall s s' ch, extends s s' -> reduced s ch -> reduced s' ch.
Proof.
  intros s s' ch X. unfold reduced. rewrite (ext_kind _ _ X).
  destruct (s_kind s); auto.
  intros [hi [A B]]. exists hi. split; [exact A|]. intros t Ht. rewrite (ext_term_val _ _ t X). apply B. exact Ht.
Qed.

Section InsAny.
Variable s : snap.
Variable lvl : nat.
Variable ch : list edge.
Hypothesis H : WF s.
Hypothesis Hlvl : lvl < nlevels s.
Hypothesis Hlen : length ch = arity (s_kind s).
Hypothesis Hce : forall e, In e ch -> ref_ok s (eref e) /\ lvl < rlevel s (eref e).
Hypothesis Hred : reduced s ch.
Hypothesis Htags : s_kind s <> KBcdd -> forall e, In e ch -> etag e = false.

Section Fresh.
Hypothesis Hnodup : find_dup s lvl ch = None.

Let id := fresh_id s.
Let nd0 := mkNode lvl ch lvl 0%N.
Let s' := set_nodes s (PositiveMap.add id nd0 (s_nodes s)).

Lemma insa_find : forall i nd, find_node s' i = Some nd ->
  (i = id /\ nd = nd0) \/ (i <> id /\ find_node s i = Some nd).
Proof.
  intros i nd. unfold find_node, s'. simpl.
  destruct (Pos.eq_dec i id) as [->|Hn].
  - rewrite PositiveMap.gss. intros E. inversion E. auto.
  - rewrite PositiveMap.gso by exact Hn. auto.
Qed.

Lemma insa_find_new : find_node s' id = Some nd0.
Proof. unfold find_node, s'. simpl. apply PositiveMap.gss. Qed.

Lemma insa_extends : extends s s'.
Proof.
  constructor; try reflexivity.
  intros i nd E. unfold find_node, s'. simpl.
  rewrite PositiveMap.gso; [exact E|].
  intros ->. fold (find_node s id) in E. unfold id in E. rewrite fresh_id_free in E. discriminate.
Qed.

Lemma insa_wf : WF s'.
Proof.
  pose proof insa_extends as X.
  assert (Hok : forall i nd, find_node s' i = Some nd -> node_ok s' nd).
  { intros i nd E. destruct (insa_find i nd E) as [[-> ->]|[Hn E']].
    - unfold node_ok, nd0. simpl.
      split; [exact Hlen|]. split; [reflexivity|]. split; [exact Hlvl|].
      split; [|split].
      + intros e He. destruct (Hce e He) as [A B].
        split; [apply (ext_ref_ok _ _ _ X A) | rewrite (ext_rlevel _ _ _ X A); exact B].
      + apply (reduced_ext s s' ch X Hred).
      + exact Htags.
    - unfold node_ok.
      split; [apply (wf_arity s H i nd E')|]. split; [apply (wf_stored s H i nd E')|].
      split; [apply (wf_level s H i nd E')|]. split; [|split].
      + intros e He. destruct (wf_child s H i nd e E' He) as [A B].
        split; [apply (ext_ref_ok _ _ _ X A) | rewrite (ext_rlevel _ _ _ X A); exact B].
      + apply (reduced_ext s s' _ X). apply (wf_reduced s H i nd E').
      + intros Hk' e He. apply (wf_tags s H Hk' i nd e E' He). }
  constructor.
  - apply (wf_perm_len s H).
  - apply (wf_perm_v2l s H).
  - apply (wf_perm_l2v s H).
  - intros i nd E. apply (Hok i nd E).
  - intros i nd E. apply (Hok i nd E).
  - intros i nd E. apply (Hok i nd E).
  - intros i nd e E. apply (Hok i nd E).
  - intros i nd E. apply (Hok i nd E).
  - intros Hk i nd e E. apply (Hok i nd E). exact Hk.
  - intros i1 i2 n1 n2 E1 E2 Hl Hc.
    destruct (insa_find i1 n1 E1) as [[-> ->]|[Hn1 E1']];
      destruct (insa_find i2 n2 E2) as [[-> ->]|[Hn2 E2']].
    + reflexivity.
    + exfalso. simpl in Hl, Hc. apply (find_dup_none s lvl ch Hnodup i2 n2 E2'); congruence.
    + exfalso. simpl in Hl, Hc. apply (find_dup_none s lvl ch Hnodup i1 n1 E1'); congruence.
    + apply (wf_unique s H i1 i2 n1 n2 E1' E2' Hl Hc).
  - apply (wf_term_ids s H).
  - apply (wf_term_vals s H).
  - intros h Hh. destruct (wf_handles s H h Hh) as [A B].
    split; [apply (ext_ref_ok _ _ _ X A) | exact B].
Qed.

End Fresh.

(** [get_or_insert]: the table stays well-formed and is extended, the result
    is an untagged edge to a node of level [lvl] with children [ch] *)
Theorem goi_any : forall s' e, get_or_insert s lvl ch = (s', e) ->
  WF s' /\ extends s s' /\
  exists id nd, e = E (RN id) /\ find_node s' id = Some nd /\ nlevel nd = lvl /\ nchildren nd = ch.
Proof.
  intros s' e. unfold get_or_insert.
  destruct (find_dup s lvl ch) as [id|] eqn:Ed; intros Heq; inversion Heq; subst s' e; clear Heq.
  - destruct (find_dup_some s lvl ch id Ed) as [nd [E [El Ec]]].
    split; [exact H|]. split; [apply extends_refl|]. exists id, nd. auto.
  - split; [apply insa_wf; exact Ed|]. split; [apply insa_extends|].
    exists (fresh_id s), (mkNode lvl ch lvl 0%N).
    split; [reflexivity|]. split; [apply insa_find_new|]. split; reflexivity.
Qed.

End InsAny.

(** old references keep their meaning *)
Lemma semc_extends : forall s s', WF s -> extends s s' ->
  forall f e c, ref_ok s (eref e) -> semc s' f e c = semc s f e c.
Proof.
  intros s s' H X. induction f as [|f IH]; intros e c Hok.
  - destruct (eref e) as [t|id] eqn:Er.
    + rewrite !(semc_T _ _ _ _ t Er). reflexivity.
    + rewrite !(semc_O _ _ _ id Er). reflexivity.
  - destruct (eref e) as [t|id] eqn:Er.
    + rewrite !(semc_T _ _ _ _ t Er). reflexivity.
    + rewrite !(semc_S _ _ _ _ id Er). destruct Hok as [nd E]. rewrite E, (ext_nodes _ _ X id nd E).
      destruct (nth_error (nchildren nd) (c (nlevel nd))) as [e'|] eqn:He; [|reflexivity].
      rewrite IH; [reflexivity|]. apply (child_nth s H id nd _ e' E He).
Qed.

Lemma semz_extends : forall s s', WF s -> extends s s' ->
  forall f lvl r c, ref_ok s r -> semz s' f lvl r c = semz s f lvl r c.
Proof.
  intros s s' H X. induction f as [|f IH]; intros lvl r c Hok.
  - destruct r as [t|id]; [|reflexivity].
    rewrite !semz_T, (ext_term_val _ _ t X), (ext_nlevels _ _ X). reflexivity.
  - destruct r as [t|id].
    + rewrite !semz_T, (ext_term_val _ _ t X), (ext_nlevels _ _ X). reflexivity.
    + rewrite !semz_S. destruct Hok as [nd E]. rewrite E, (ext_nodes _ _ X id nd E).
      destruct (Nat.ltb (nlevel nd) lvl); [reflexivity|].
      destruct (all_lo c lvl (nlevel nd - lvl)); [|reflexivity].
      destruct (nth_error (nchildren nd) (c (nlevel nd))) as [e|] eqn:He; [|reflexivity].
      apply IH. apply (child_nth s H id nd _ e E He).
Qed.
