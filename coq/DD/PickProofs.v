(** * Proofs about cube picking, part 1: the walk shared by BDDs and BCDDs

    Everything here is proved once for an abstract *view* of edges
    ([Pick.cview]) together with a denotation [den] and an invariant [OK] that
    satisfy a handful of hypotheses (Section [Gen]); DD/PickBdd.v and
    DD/PickBcdd.v discharge the hypotheses for [view_plain] / [view_bcdd].

    Contents:
    - cube vectors: [write_all_spec] (the vector written along a trace with
      pairwise distinct levels holds exactly the trace's literals; uses that
      [level_to_var] is injective, i.e. the permutation clause of [WF]);
    - [Run]: the relational specification of the walk, [walk_run];
    - [pick_cube_total], [pick_cube_none_iff], [pick_cube_some],
      [pick_cube_implicant], [run_calls], [run_answers];
    - [pick_dd_spec], [pick_dd_same_cube]: the diagram built by
      [pick_cube_dd] denotes exactly the cube of [pick_cube];
    - [pick_dd_set_eq]: with a literal set that is a cube diagram,
      [pick_cube_dd_set] is [pick_cube_dd] with the choice "polarity in the set";
    - [run_weight]: the probability of a trace under [pick_cube_uniform]
      is 2^(don't cares) / #models (as an identity over N). *)

From Coq Require Import List NArith PArith Bool Arith Lia FMapPositive.
From OxiVerif Require Import DD.Table DD.TableProofs DD.Build DD.BuildProofs DD.SatCount
  DD.SatCountProofs DD.Pick.
Import ListNotations.

Arguments N.add : simpl never.
Arguments N.mul : simpl never.
Arguments N.pow : simpl never.

(** ** Cube vectors *)

Lemma set_nth_length : forall (A : Type) i (v : A) l l', set_nth i v l = Some l' -> length l' = length l.
Proof.
  intros A. induction i as [|i IH]; intros v [|x r] l' E; simpl in E; try discriminate.
  - inversion E. reflexivity.
  - destruct (set_nth i v r) as [r'|] eqn:Er; [|discriminate]. simpl in E. inversion E.
    simpl. f_equal. eapply IH; eauto.
Qed.

Lemma set_nth_some : forall (A : Type) i (v : A) l, i < length l -> exists l', set_nth i v l = Some l'.
Proof.
  intros A. induction i as [|i IH]; intros v [|x r] Hi; simpl in *; try lia.
  - eauto.
  - destruct (IH v r ltac:(lia)) as [r' Er]. rewrite Er. simpl. eauto.
Qed.

Lemma set_nth_same : forall (A : Type) i (v : A) l l', set_nth i v l = Some l' -> nth_error l' i = Some v.
Proof.
  intros A. induction i as [|i IH]; intros v [|x r] l' E; simpl in E; try discriminate.
  - inversion E. reflexivity.
  - destruct (set_nth i v r) as [r'|] eqn:Er; [|discriminate]. simpl in E. inversion E.
    simpl. eapply IH; eauto.
Qed.

Lemma set_nth_other : forall (A : Type) i (v : A) l l' j, set_nth i v l = Some l' -> j <> i ->
  nth_error l' j = nth_error l j.
Proof.
  intros A. induction i as [|i IH]; intros v [|x r] l' j E Hj; simpl in E; try discriminate.
  - inversion E. destruct j; [lia | reflexivity].
  - destruct (set_nth i v r) as [r'|] eqn:Er; [|discriminate]. simpl in E. inversion E.
    destruct j; [reflexivity|]. simpl. eapply IH; eauto.
Qed.

(** the value a trace writes for level [l] (first visit) *)
Fixpoint trace_val (tr : list step) (l : nat) : option (option bool) :=
  match tr with
  | [] => None
  | p :: r => if Nat.eqb (sp_level p) l then Some (sp_val p) else trace_val r l
  end.

Lemma trace_val_none : forall tr l, ~ In l (map sp_level tr) -> trace_val tr l = None.
Proof.
  induction tr as [|p r IH]; intros l Hn; simpl; [reflexivity|].
  destruct (Nat.eqb_spec (sp_level p) l) as [E|_].
  - exfalso. apply Hn. left. exact E.
  - apply IH. intro Hi. apply Hn. right. exact Hi.
Qed.

Lemma trace_val_in : forall tr p, NoDup (map sp_level tr) -> In p tr ->
  trace_val tr (sp_level p) = Some (sp_val p).
Proof.
  induction tr as [|q r IH]; intros p Hnd Hin; [destruct Hin|].
  simpl in Hnd. inversion Hnd as [|? ? Hq Hr]; subst. simpl.
  destruct Hin as [->|Hin].
  - rewrite Nat.eqb_refl. reflexivity.
  - destruct (Nat.eqb_spec (sp_level q) (sp_level p)) as [E|_].
    + exfalso. apply Hq. rewrite E. apply in_map. exact Hin.
    + apply IH; assumption.
Qed.

Lemma trace_val_some : forall tr l v, trace_val tr l = Some v ->
  exists p, In p tr /\ sp_level p = l /\ sp_val p = v.
Proof.
  induction tr as [|q r IH]; intros l v E; simpl in E; [discriminate|].
  destruct (Nat.eqb_spec (sp_level q) l) as [El|_].
  - inversion E. exists q. split; [left; reflexivity | auto].
  - destruct (IH l v E) as [p [A B]]. exists p. split; [right; exact A | exact B].
Qed.

Section Cube.
Variable s : snap.
Hypothesis H : WF s.

(** [level_to_var] is injective on the levels *)
Lemma l2v_inj : forall l1 l2 v, nth_error (s_l2v s) l1 = Some v -> nth_error (s_l2v s) l2 = Some v -> l1 = l2.
Proof.
  intros l1 l2 v E1 E2.
  assert (L1 : l1 < length (s_l2v s)) by (apply nth_error_Some; congruence).
  assert (L2 : l2 < length (s_l2v s)) by (apply nth_error_Some; congruence).
  destruct (wf_perm_l2v s H l1 L1) as [j1 [A1 B1]].
  destruct (wf_perm_l2v s H l2 L2) as [j2 [A2 B2]].
  congruence.
Qed.

Lemma l2v_some : forall l, l < nlevels s -> exists v, nth_error (s_l2v s) l = Some v /\ v < nlevels s.
Proof.
  intros l Hl. destruct (wf_perm_l2v s H l Hl) as [j [A B]]. exists j. split; [exact A|].
  unfold nlevels. rewrite <- (wf_perm_len s H). apply nth_error_Some. congruence.
Qed.

Lemma cube_lit_write : forall cb cb' p, length cb = nlevels s -> sp_level p < nlevels s ->
  write_step s (Some cb) p = Some cb' ->
  length cb' = nlevels s /\
  forall l, l < nlevels s ->
    cube_lit s cb' l = if Nat.eqb (sp_level p) l then sp_val p else cube_lit s cb l.
Proof.
  intros cb cb' p Hlen Hp E. unfold write_step in E.
  destruct (l2v_some _ Hp) as [v [Ev Hv]]. rewrite Ev in E.
  split; [rewrite (set_nth_length _ _ _ _ _ E); exact Hlen|].
  intros l Hl. unfold cube_lit. destruct (l2v_some _ Hl) as [w [Ew Hw]]. rewrite Ew.
  destruct (Nat.eqb_spec (sp_level p) l) as [El|Hne].
  - subst l. assert (w = v) by congruence. subst w. rewrite (set_nth_same _ _ _ _ _ E). reflexivity.
  - rewrite (set_nth_other _ _ _ _ _ w E); [reflexivity|].
    intro Ewv. subst w. apply Hne. eapply l2v_inj; eauto.
Qed.

Lemma write_step_some : forall cb p, length cb = nlevels s -> sp_level p < nlevels s ->
  exists cb', write_step s (Some cb) p = Some cb'.
Proof.
  intros cb p Hlen Hp. unfold write_step. destruct (l2v_some _ Hp) as [v [Ev Hv]]. rewrite Ev.
  apply set_nth_some. lia.
Qed.

(** the vector after all writes of a trace whose levels are pairwise distinct *)
Lemma write_all_spec : forall tr cb, length cb = nlevels s ->
  (forall p, In p tr -> sp_level p < nlevels s) -> NoDup (map sp_level tr) ->
  exists cb', write_all s tr cb = Some cb' /\ length cb' = nlevels s /\
    forall l, l < nlevels s ->
      cube_lit s cb' l = match trace_val tr l with Some v => v | None => cube_lit s cb l end.
Proof.
  unfold write_all. induction tr as [|p r IH]; intros cb Hlen Hlv Hnd.
  - exists cb. simpl. auto.
  - simpl in Hnd. inversion Hnd as [|? ? Hp Hr]; subst.
    destruct (write_step_some cb p Hlen (Hlv p (or_introl eq_refl))) as [cb1 E1].
    destruct (cube_lit_write cb cb1 p Hlen (Hlv p (or_introl eq_refl)) E1) as [L1 W1].
    destruct (IH cb1 L1 (fun q Hq => Hlv q (or_intror Hq)) Hr) as [cb' [E' [L' W']]].
    exists cb'. cbn [fold_left]. split; [rewrite <- E'; f_equal; exact E1|]. split; [exact L'|].
    intros l Hl. rewrite (W' l Hl), (W1 l Hl). simpl trace_val.
    destruct (Nat.eqb_spec (sp_level p) l) as [El|_]; [|reflexivity].
    subst l. rewrite (trace_val_none r _ Hp). reflexivity.
Qed.

End Cube.

Lemma cube_lit_repeat : forall s (v : option bool) l, WF s -> l < nlevels s ->
  cube_lit s (repeat v (nlevels s)) l = v.
Proof.
  intros s v l H Hl. unfold cube_lit. destruct (l2v_some s H l Hl) as [w [Ew Hw]]. rewrite Ew.
  rewrite (nth_error_nth' _ v) by (rewrite repeat_length; exact Hw).
  rewrite nth_repeat. reflexivity.
Qed.

(** strictly increasing levels, all at least [L] *)
Fixpoint incr_from (L : nat) (ls : list nat) : Prop :=
  match ls with
  | [] => True
  | l :: r => L <= l /\ incr_from (S l) r
  end.

Lemma incr_from_weaken : forall ls L L', incr_from L ls -> L' <= L -> incr_from L' ls.
Proof. destruct ls as [|l r]; simpl; intros L L' Hi Hl; [exact I|]. split; [lia | apply Hi]. Qed.

Lemma incr_from_ge : forall ls L l, incr_from L ls -> In l ls -> L <= l.
Proof.
  induction ls as [|x r IH]; intros L l Hi Hin; [destruct Hin|].
  simpl in Hi. destruct Hi as [A B]. destruct Hin as [->|Hin]; [exact A|].
  specialize (IH (S x) l B Hin). lia.
Qed.

Lemma incr_from_nodup : forall ls L, incr_from L ls -> NoDup ls.
Proof.
  induction ls as [|x r IH]; intros L Hi; constructor.
  - simpl in Hi. destruct Hi as [_ B]. intro Hin. pose proof (incr_from_ge r (S x) x B Hin). lia.
  - simpl in Hi. destruct Hi as [_ B]. eapply IH; eauto.
Qed.

(** an assignment agrees with a cube vector *)
Definition agrees (s : snap) (a : lasg) (cb : cubev) : Prop :=
  forall l b, l < nlevels s -> cube_lit s cb l = Some b -> a l = b.

(** the literals of a trace hold under [a] *)
Definition sat_trace (a : lasg) (tr : list step) : bool :=
  forallb (fun p => match sp_val p with Some c => Bool.eqb (a (sp_level p)) c | None => true end) tr.

(** ** The abstract walk *)

Section Gen.
Variable view : snap -> edge -> cview.
Variable OK : snap -> Prop.
Variable good : snap -> edge -> Prop.
Variable den : snap -> edge -> lasg -> bool.

Hypothesis OK_WF : forall s, OK s -> WF s.
Hypothesis good_ref : forall s e, good s e -> ref_ok s (eref e).
Hypothesis view_err : forall s e, OK s -> good s e -> view s e <> CErr.
Hypothesis view_term : forall s e b, OK s -> good s e -> view s e = CTerm b ->
  rlevel s (eref e) = nlevels s /\ forall a, den s e a = b.
Hypothesis view_node : forall s e l t x, OK s -> good s e -> view s e = CNode l t x ->
  l = rlevel s (eref e) /\ l < nlevels s /\ good s t /\ good s x /\
  l < rlevel s (eref t) /\ l < rlevel s (eref x) /\
  (forall a, den s e a = if a l then den s t a else den s x a) /\
  (exists a, den s e a = true).
Hypothesis den_indep : forall s e l a b, OK s -> good s e -> l < rlevel s (eref e) ->
  den s e (updb a l b) = den s e a.

Notation isf := (is_false view).

Lemma isf_true : forall s e, OK s -> good s e -> isf s e = true -> forall a, den s e a = false.
Proof.
  intros s e O G. unfold is_false. destruct (view s e) as [|[|]|] eqn:Ev; try discriminate.
  intros _. apply (view_term s e false O G Ev).
Qed.

Lemma isf_false : forall s e, OK s -> good s e -> isf s e = false -> exists a, den s e a = true.
Proof.
  intros s e O G. unfold is_false. destruct (view s e) as [|[|]|l t x] eqn:Ev; try discriminate; intros _.
  - exfalso. apply (view_err s e O G Ev).
  - exists (fun _ => false). apply (view_term s e true O G Ev).
  - apply (view_node s e l t x O G Ev).
Qed.

Lemma isf_iff : forall s e, OK s -> good s e -> (isf s e = true <-> forall a, den s e a = false).
Proof.
  intros s e O G. split; [apply isf_true; assumption|].
  intros Hf. destruct (isf s e) eqn:E; [reflexivity|].
  destruct (isf_false s e O G E) as [a Ha]. rewrite Hf in Ha. discriminate.
Qed.

Variable add_lit : snap -> edge -> nat -> bool -> option (snap * edge).

Hypothesis add_lit_ok : forall s sub l c, OK s -> good s sub -> l < nlevels s ->
  l < rlevel s (eref sub) -> (exists a, den s sub a = true) ->
  exists s' r, add_lit s sub l c = Some (s', r) /\ OK s' /\ extends s s' /\ good s' r /\
    rlevel s' (eref r) = l /\ forall a, den s' r a = Bool.eqb (a l) c && den s sub a.

Section Choice.
Variable St : Type.
Variable choice : St -> nat -> edge -> bool * St.

(** the specification of the walk: a path from [e] to the true terminal on
    which every forced value is forced by a false cofactor and every other
    value is the answer of the choice function, called in path order *)
Inductive Run (s : snap) : St -> edge -> list step -> St -> Prop :=
| Run_end : forall st e, view s e = CTerm true -> Run s st e [] st
| Run_forced : forall st e l t x (c : bool) tr st',
    view s e = CNode l t x ->
    isf s (if c then x else t) = true ->
    Run s st (if c then t else x) tr st' ->
    Run s st e (mkStep l e (Some c) false :: tr) st'
| Run_asked : forall st e l t x (c : bool) st1 tr st',
    view s e = CNode l t x ->
    isf s t = false -> isf s x = false ->
    choice st l e = (c, st1) ->
    Run s st1 (if c then t else x) tr st' ->
    Run s st e (mkStep l e (Some c) true :: tr) st'.

Lemma walk_run : forall fuel s st e, OK s -> good s e -> isf s e = false ->
  nlevels s - rlevel s (eref e) < fuel ->
  exists tr st', walk view St choice fuel s st e = Some (tr, st') /\ Run s st e tr st'.
Proof.
  induction fuel as [|f IH]; intros s st e O G Hnf Hf; [lia|].
  simpl. unfold is_false in Hnf.
  destruct (view s e) as [|b|l t x] eqn:Ev.
  - exfalso. apply (view_err s e O G Ev).
  - destruct b; [|discriminate]. exists [], st. split; [reflexivity | apply Run_end; exact Ev].
  - destruct (view_node s e l t x O G Ev) as [El [Ll [Gt [Gx [Lt [Lx [Hd [a Ha]]]]]]]].
    pose proof (rlevel_le s (OK_WF s O) (eref t)) as Bt.
    pose proof (rlevel_le s (OK_WF s O) (eref x)) as Bx.
    unfold decide.
    destruct (isf s t) eqn:Ft.
    + (* then-cofactor false: value false *)
      assert (Fx : isf s x = false).
      { destruct (isf s x) eqn:Fx; [|reflexivity]. exfalso.
        rewrite Hd, (isf_true s t O Gt Ft), (isf_true s x O Gx Fx) in Ha. destruct (a l); discriminate. }
      destruct (IH s st x O Gx Fx ltac:(lia)) as [tr [st' [W R]]].
      rewrite W. exists (mkStep l e (Some false) false :: tr), st'. split; [reflexivity|].
      apply (Run_forced s st e l t x false tr st' Ev); assumption.
    + destruct (isf s x) eqn:Fx.
      * destruct (IH s st t O Gt Ft ltac:(lia)) as [tr [st' [W R]]].
        rewrite W. exists (mkStep l e (Some true) false :: tr), st'. split; [reflexivity|].
        apply (Run_forced s st e l t x true tr st' Ev); assumption.
      * destruct (choice st l e) as [c st1] eqn:Ec.
        assert (Gc : good s (if c then t else x)) by (destruct c; assumption).
        assert (Fc : isf s (if c then t else x) = false) by (destruct c; assumption).
        destruct (IH s st1 (if c then t else x) O Gc Fc ltac:(destruct c; lia)) as [tr [st' [W R]]].
        rewrite W. exists (mkStep l e (Some c) true :: tr), st'. split; [reflexivity|].
        apply (Run_asked s st e l t x c st1 tr st' Ev); assumption.
Qed.

(** levels strictly increase along a run, starting at the level of the edge *)
Lemma run_levels : forall s st e tr st', OK s -> Run s st e tr st' -> good s e ->
  incr_from (rlevel s (eref e)) (map sp_level tr) /\ forall p, In p tr -> sp_level p < nlevels s.
Proof.
  intros s st e tr st' O R. induction R as [st e Ev | st e l t x c tr st' Ev Ff R IH | st e l t x c st1 tr st' Ev Ft Fx Ec R IH];
    intros G.
  - split; [exact I | intros p []].
  - destruct (view_node s e l t x O G Ev) as [El [Ll [Gt [Gx [Lt [Lx _]]]]]].
    destruct (IH ltac:(destruct c; assumption)) as [A B]. split.
    + simpl. split; [lia|]. eapply incr_from_weaken; [exact A | destruct c; lia].
    + intros p [<-|Hp]; [exact Ll | apply B; exact Hp].
  - destruct (view_node s e l t x O G Ev) as [El [Ll [Gt [Gx [Lt [Lx _]]]]]].
    destruct (IH ltac:(destruct c; assumption)) as [A B]. split.
    + simpl. split; [lia|]. eapply incr_from_weaken; [exact A | destruct c; lia].
    + intros p [<-|Hp]; [exact Ll | apply B; exact Hp].
Qed.

Lemma run_nodup : forall s st e tr st', OK s -> Run s st e tr st' -> good s e -> NoDup (map sp_level tr).
Proof.
  intros s st e tr st' O R G. destruct (run_levels s st e tr st' O R G) as [A _].
  eapply incr_from_nodup; eauto.
Qed.

(** the function at the start of a run holds exactly... at least where the
    literals of the trace hold *)
Lemma run_implies : forall s st e tr st', OK s -> Run s st e tr st' -> good s e ->
  forall a, sat_trace a tr = true -> den s e a = true.
Proof.
  intros s st e tr st' O R. induction R as [st e Ev | st e l t x c tr st' Ev Ff R IH | st e l t x c st1 tr st' Ev Ft Fx Ec R IH];
    intros G a Hs.
  - apply (view_term s e true O G Ev).
  - destruct (view_node s e l t x O G Ev) as [El [Ll [Gt [Gx [Lt [Lx [Hd _]]]]]]].
    simpl in Hs. apply andb_true_iff in Hs. destruct Hs as [Hc Hs]. apply eqb_prop in Hc.
    rewrite Hd, Hc. destruct c; apply IH; assumption.
  - destruct (view_node s e l t x O G Ev) as [El [Ll [Gt [Gx [Lt [Lx [Hd _]]]]]]].
    simpl in Hs. apply andb_true_iff in Hs. destruct Hs as [Hc Hs]. apply eqb_prop in Hc.
    rewrite Hd, Hc. destruct c; apply IH; assumption.
Qed.

(** what is recorded about the calls of the choice function *)
Definition call_ok (s : snap) (p : step) : Prop :=
  exists t x c, view s (sp_edge p) = CNode (sp_level p) t x /\ sp_val p = Some c /\
    good s (sp_edge p) /\
    if sp_asked p then (exists a, den s t a = true) /\ (exists a, den s x a = true)
    else forall a, den s (if c then x else t) a = false.

Lemma run_calls : forall s st e tr st', OK s -> Run s st e tr st' -> good s e ->
  forall p, In p tr -> call_ok s p.
Proof.
  intros s st e tr st' O R. induction R as [st e Ev | st e l t x c tr st' Ev Ff R IH | st e l t x c st1 tr st' Ev Ft Fx Ec R IH];
    intros G p Hp.
  - destruct Hp.
  - destruct (view_node s e l t x O G Ev) as [El [Ll [Gt [Gx _]]]].
    destruct Hp as [<-|Hp]; [|apply IH; [destruct c; assumption | exact Hp]].
    exists t, x, c. simpl. split; [exact Ev|]. split; [reflexivity|]. split; [exact G|].
    apply isf_true; [exact O | destruct c; assumption | exact Ff].
  - destruct (view_node s e l t x O G Ev) as [El [Ll [Gt [Gx _]]]].
    destruct Hp as [<-|Hp]; [|apply IH; [destruct c; assumption | exact Hp]].
    exists t, x, c. simpl. split; [exact Ev|]. split; [reflexivity|]. split; [exact G|].
    split; apply isf_false; assumption.
Qed.

(** calling the choice function along the asked steps of a trace, threading
    its state: the answers and the final state *)
Fixpoint replay (st : St) (tr : list step) : list bool * St :=
  match tr with
  | [] => ([], st)
  | p :: r =>
    if sp_asked p then
      let (c, st1) := choice st (sp_level p) (sp_edge p) in
      let (cs, st') := replay st1 r in (c :: cs, st')
    else replay st r
  end.

(** the values recorded at the asked steps *)
Fixpoint asked_vals (tr : list step) : list bool :=
  match tr with
  | [] => []
  | p :: r =>
    if sp_asked p then
      match sp_val p with Some c => c :: asked_vals r | None => asked_vals r end
    else asked_vals r
  end.

Lemma run_answers : forall s st e tr st', Run s st e tr st' -> replay st tr = (asked_vals tr, st').
Proof.
  intros s st e tr st' R. induction R as [st e Ev | st e l t x c tr st' Ev Ff R IH | st e l t x c st1 tr st' Ev Ft Fx Ec R IH].
  - reflexivity.
  - simpl. exact IH.
  - simpl. rewrite Ec, IH. reflexivity.
Qed.

(** *** [pick_cube] *)

Theorem pick_cube_total : forall s st e, OK s -> good s e ->
  exists r, pick_cube view St choice s st e = Some r.
Proof.
  intros s st e O G. unfold pick_cube.
  destruct (view s e) as [|[|]|l t x] eqn:Ev; eauto.
  - exfalso. apply (view_err s e O G Ev).
  - assert (Hnf : isf s e = false) by (unfold is_false; rewrite Ev; reflexivity).
    pose proof (rlevel_le s (OK_WF s O) (eref e)).
    destruct (walk_run (S (nlevels s)) s st e O G Hnf ltac:(lia)) as [tr [st' [W R]]]. rewrite W.
    destruct (run_levels s st e tr st' O R G) as [A B].
    destruct (write_all_spec s (OK_WF s O) tr (repeat None (nlevels s)) (repeat_length _ _) B
                (incr_from_nodup _ _ A)) as [cb [Ew _]].
    rewrite Ew. eauto.
Qed.

Theorem pick_cube_none_iff : forall s st e, OK s -> good s e ->
  (pick_cube view St choice s st e = Some None <-> forall a, den s e a = false).
Proof.
  intros s st e O G. rewrite <- (isf_iff s e O G). unfold pick_cube, is_false.
  destruct (view s e) as [|[|]|l t x] eqn:Ev.
  - split; discriminate.
  - split; discriminate.
  - split; reflexivity.
  - split; [|discriminate].
    destruct (walk view St choice (S (nlevels s)) s st e) as [[tr st']|]; [|discriminate].
    destruct (write_all s tr (repeat None (nlevels s))); discriminate.
Qed.

Theorem pick_cube_some : forall s st e cb tr st', OK s -> good s e ->
  pick_cube view St choice s st e = Some (Some (cb, tr, st')) ->
  Run s st e tr st' /\ length cb = nlevels s /\
  forall l, l < nlevels s ->
    cube_lit s cb l = match trace_val tr l with Some v => v | None => None end.
Proof.
  intros s st e cb tr st' O G. unfold pick_cube.
  destruct (view s e) as [|[|]|l t x] eqn:Ev; try discriminate.
  - intros E. inversion E; subst. split; [apply Run_end; exact Ev|].
    split; [apply repeat_length|]. intros l Hl. simpl. apply cube_lit_repeat; [apply OK_WF; exact O | exact Hl].
  - assert (Hnf : isf s e = false) by (unfold is_false; rewrite Ev; reflexivity).
    pose proof (rlevel_le s (OK_WF s O) (eref e)).
    destruct (walk_run (S (nlevels s)) s st e O G Hnf ltac:(lia)) as [tr0 [st0 [W R]]]. rewrite W.
    destruct (run_levels s st e tr0 st0 O R G) as [A B].
    destruct (write_all_spec s (OK_WF s O) tr0 (repeat None (nlevels s)) (repeat_length _ _) B
                (incr_from_nodup _ _ A)) as [cb0 [Ew [Lc Wc]]].
    rewrite Ew. intros E. inversion E; subst. split; [exact R|]. split; [exact Lc|].
    intros l0 Hl. rewrite (Wc l0 Hl).
    destruct (trace_val tr l0); [reflexivity|]. apply cube_lit_repeat; [apply OK_WF; exact O | exact Hl].
Qed.

(** an assignment agrees with the cube iff the literals of the trace hold *)
Lemma agrees_sat_trace : forall s a cb tr, NoDup (map sp_level tr) ->
  (forall p, In p tr -> sp_level p < nlevels s) ->
  (forall l, l < nlevels s ->
     cube_lit s cb l = match trace_val tr l with Some v => v | None => None end) ->
  (agrees s a cb <-> sat_trace a tr = true).
Proof.
  intros s a cb tr Hnd Hlv Hc. unfold agrees, sat_trace. rewrite forallb_forall. split.
  - intros Ha p Hp. destruct (sp_val p) as [c|] eqn:Ep; [|reflexivity].
    apply eqb_true_iff. apply (Ha (sp_level p) c (Hlv p Hp)).
    rewrite (Hc _ (Hlv p Hp)), (trace_val_in tr p Hnd Hp). exact Ep.
  - intros Hs l b Hl E. rewrite (Hc l Hl) in E.
    destruct (trace_val tr l) as [v|] eqn:Et; [|discriminate]. subst v.
    destruct (trace_val_some tr l _ Et) as [p [Hp [El Ev]]].
    specialize (Hs p Hp). rewrite Ev in Hs. apply eqb_prop in Hs. congruence.
Qed.

Theorem pick_cube_implicant : forall s st e cb tr st', OK s -> good s e ->
  pick_cube view St choice s st e = Some (Some (cb, tr, st')) ->
  forall a, agrees s a cb -> den s e a = true.
Proof.
  intros s st e cb tr st' O G E a Ha.
  destruct (pick_cube_some s st e cb tr st' O G E) as [R [Lc Wc]].
  destruct (run_levels s st e tr st' O R G) as [A B].
  apply (run_implies s st e tr st' O R G).
  apply (agrees_sat_trace s a cb tr (incr_from_nodup _ _ A) B Wc). exact Ha.
Qed.

(** *** [pick_cube_dd] *)

Lemma pick_dd_spec : forall fuel s st e, OK s -> good s e -> isf s e = false ->
  nlevels s - rlevel s (eref e) < fuel ->
  exists s' r tr st',
    pick_dd view St choice add_lit fuel s st e = Some (s', r, tr, st') /\
    walk view St choice fuel s st e = Some (tr, st') /\
    OK s' /\ extends s s' /\ good s' r /\ rlevel s' (eref r) = rlevel s (eref e) /\
    (forall a, den s' r a = sat_trace a tr) /\ (exists a, den s' r a = true).
Proof.
  induction fuel as [|f IH]; intros s st e O G Hnf Hf; [lia|].
  simpl. unfold is_false in Hnf.
  destruct (view s e) as [|b|l t x] eqn:Ev.
  - exfalso. apply (view_err s e O G Ev).
  - destruct b; [|discriminate]. exists s, e, [], st.
    split; [reflexivity|]. split; [reflexivity|]. split; [exact O|]. split; [apply extends_refl|].
    split; [exact G|]. split; [reflexivity|].
    destruct (view_term s e true O G Ev) as [_ Hd].
    split; [intros a; rewrite Hd; reflexivity | exists (fun _ => false); apply Hd].
  - destruct (view_node s e l t x O G Ev) as [El [Ll [Gt [Gx [Lt [Lx [Hd [a0 Ha0]]]]]]]].
    pose proof (rlevel_le s (OK_WF s O) (eref t)) as Bt.
    pose proof (rlevel_le s (OK_WF s O) (eref x)) as Bx.
    (* the decision, uniformly *)
    assert (Hdec : exists c asked st1, decide view St choice s st l e t x = (c, asked, st1) /\
               isf s (if c then t else x) = false).
    { unfold decide. destruct (isf s t) eqn:Ft.
      - exists false, false, st. split; [reflexivity|]. simpl.
        destruct (isf s x) eqn:Fx; [|reflexivity]. exfalso.
        rewrite Hd, (isf_true s t O Gt Ft), (isf_true s x O Gx Fx) in Ha0. destruct (a0 l); discriminate.
      - destruct (isf s x) eqn:Fx.
        + exists true, false, st. split; [reflexivity | exact Ft].
        + destruct (choice st l e) as [c st1]. exists c, true, st1. split; [reflexivity|].
          destruct c; assumption. }
    destruct Hdec as [c [asked [st1 [Ed Fc]]]]. rewrite Ed.
    assert (Gc : good s (if c then t else x)) by (destruct c; assumption).
    assert (Lc : l < rlevel s (eref (if c then t else x))) by (destruct c; assumption).
    destruct (IH s st1 (if c then t else x) O Gc Fc ltac:(destruct c; lia))
      as [s1 [sub [tr [st2 [P [W [O1 [X1 [G1 [L1 [D1 [a1 Ha1]]]]]]]]]]]].
    rewrite P, W.
    destruct (add_lit_ok s1 sub l c O1 G1 ltac:(rewrite (ext_nlevels _ _ X1); exact Ll)
                ltac:(rewrite L1; exact Lc) (ex_intro _ a1 Ha1))
      as [s2 [r [Ea [O2 [X2 [G2 [L2 D2]]]]]]].
    rewrite Ea. exists s2, r, (mkStep l e (Some c) asked :: tr), st2.
    split; [reflexivity|]. split; [reflexivity|]. split; [exact O2|].
    split; [eapply extends_trans; eauto|]. split; [exact G2|].
    split; [rewrite L2; exact El|]. split.
    + intros a. rewrite D2, D1. reflexivity.
    + exists (updb a1 l c). rewrite D2, updb_same, eqb_reflx. simpl.
      rewrite den_indep; [exact Ha1 | exact O1 | exact G1 | rewrite L1; exact Lc].
Qed.

(** [pick_cube] and [pick_cube_dd] describe the same cube: same trace (same
    calls of the choice function, same final state), and the diagram holds
    exactly under the assignments that agree with the vector *)
Theorem pick_dd_same_cube : forall s st e cb tr st', OK s -> good s e ->
  pick_cube view St choice s st e = Some (Some (cb, tr, st')) ->
  exists s' r,
    pick_cube_dd view St choice add_lit s st e = Some (s', r, tr, st') /\
    OK s' /\ extends s s' /\ good s' r /\
    forall a, den s' r a = true <-> agrees s a cb.
Proof.
  intros s st e cb tr st' O G E.
  destruct (pick_cube_some s st e cb tr st' O G E) as [R [Lc Wc]].
  destruct (run_levels s st e tr st' O R G) as [A B].
  assert (Hnf : isf s e = false).
  { destruct (isf s e) eqn:F; [|reflexivity]. exfalso.
    pose proof (proj2 (pick_cube_none_iff s st e O G) (isf_true s e O G F)). congruence. }
  pose proof (rlevel_le s (OK_WF s O) (eref e)).
  destruct (pick_dd_spec (S (nlevels s)) s st e O G Hnf ltac:(lia))
    as [s' [r [tr0 [st0 [P [W [O' [X [G' [L' [D' _]]]]]]]]]]].
  (* the trace of pick_cube is the trace of the walk *)
  assert (tr0 = tr /\ st0 = st').
  { unfold pick_cube in E. unfold is_false in Hnf.
    destruct (view s e) as [|[|]|l t x] eqn:Ev; try discriminate.
    - inversion E; subst. simpl in W. rewrite Ev in W. inversion W. auto.
    - rewrite W in E. destruct (write_all s tr0 (repeat None (nlevels s))); [|discriminate].
      inversion E. auto. }
  destruct H0 as [-> ->].
  exists s', r. split; [exact P|]. split; [exact O'|]. split; [exact X|]. split; [exact G'|].
  intros a. rewrite D'. symmetry.
  apply (agrees_sat_trace s a cb tr (incr_from_nodup _ _ A) B Wc).
Qed.

(** the false function: [pick_cube] returns nothing, [pick_cube_dd] the edge itself *)
Theorem pick_dd_false : forall s st e, OK s -> good s e ->
  pick_cube view St choice s st e = Some None ->
  pick_cube_dd view St choice add_lit s st e = Some (s, e, [], st).
Proof.
  intros s st e O G E. unfold pick_cube in E. unfold pick_cube_dd. cbn [pick_dd].
  destruct (view s e) as [|[|]|l t x] eqn:Ev; try discriminate; [reflexivity|].
  destruct (walk view St choice (S (nlevels s)) s st e) as [[tr st']|]; [|discriminate].
  destruct (write_all s tr (repeat None (nlevels s))); discriminate.
Qed.

End Choice.

(** with the stateless level-indexed choice of the harness (and of
    [pick_cube_dd_set]) the value at every asked step is the table's entry *)
Lemma run_mask_vals : forall m s st e tr st', Run unit (mask_choice m) s st e tr st' ->
  forall p, In p tr -> sp_asked p = true -> sp_val p = Some (m (sp_level p)).
Proof.
  intros m s st e tr st' R.
  induction R as [st e Ev | st e l t x c tr st' Ev Ff R IH | st e l t x c st1 tr st' Ev Ft Fx Ec R IH];
    intros p Hp Ha.
  - destruct Hp.
  - destruct Hp as [<-|Hp]; [discriminate | apply IH; assumption].
  - destruct Hp as [<-|Hp]; [|apply IH; assumption].
    simpl. unfold mask_choice in Ec. inversion Ec. reflexivity.
Qed.

(** *** [pick_cube_dd_set] with a literal set that is a cube diagram *)

(** [set] is the diagram of the conjunction of the literals [L] (top-down) *)
Inductive CubeAt (s : snap) : edge -> list (nat * bool) -> Prop :=
| CA_end : forall e, view s e = CTerm true -> CubeAt s e []
| CA_neg : forall e l t x L, view s e = CNode l t x -> isf s t = true ->
    CubeAt s x L -> CubeAt s e ((l, false) :: L)
| CA_pos : forall e l t x L, view s e = CNode l t x -> isf s t = false -> isf s x = true ->
    CubeAt s t L -> CubeAt s e ((l, true) :: L).

Lemma cube_lits_CubeAt : forall fuel s e L, cube_lits view fuel s e = Some L -> CubeAt s e L.
Proof.
  induction fuel as [|f IH]; intros s e L E; simpl in E; [discriminate|].
  destruct (view s e) as [|b|l t x] eqn:Ev; [discriminate| |].
  - destruct b; [|discriminate]. inversion E. apply CA_end. exact Ev.
  - destruct (isf s t) eqn:Ft.
    + destruct (cube_lits view f s x) as [L'|] eqn:El; [|discriminate]. simpl in E. inversion E.
      eapply CA_neg; eauto.
    + destruct (isf s x) eqn:Fx; [|discriminate].
      destruct (cube_lits view f s t) as [L'|] eqn:El; [|discriminate]. simpl in E. inversion E.
      eapply CA_pos; eauto.
Qed.

Lemma CubeAt_nonfalse : forall s e L, CubeAt s e L -> isf s e = false.
Proof.
  intros s e L C. unfold is_false. destruct C as [e Ev | e l t x L Ev _ _ | e l t x L Ev _ _ _]; rewrite Ev; reflexivity.
Qed.

Lemma CubeAt_levels : forall s e L, OK s -> CubeAt s e L -> good s e ->
  forall l b, In (l, b) L -> rlevel s (eref e) <= l.
Proof.
  intros s e L O C. induction C as [e Ev | e l t x L Ev Ft C IH | e l t x L Ev Ft Fx C IH]; intros G l0 b Hin.
  - destruct Hin.
  - destruct (view_node s e l t x O G Ev) as [El [Ll [Gt [Gx [Lt [Lx _]]]]]].
    destruct Hin as [Hin|Hin]; [inversion Hin; lia|]. specialize (IH Gx l0 b Hin). lia.
  - destruct (view_node s e l t x O G Ev) as [El [Ll [Gt [Gx [Lt [Lx _]]]]]].
    destruct Hin as [Hin|Hin]; [inversion Hin; lia|]. specialize (IH Gt l0 b Hin). lia.
Qed.

Lemma lit_pol_absent : forall L l, (forall l' b, In (l', b) L -> l < l') -> lit_pol L l = false.
Proof.
  induction L as [|[l0 b0] r IH]; intros l Hl; simpl; [reflexivity|].
  destruct (Nat.eqb_spec l0 l) as [E|_].
  - specialize (Hl l0 b0 (or_introl eq_refl)). lia.
  - apply IH. intros l' b Hin. apply (Hl l' b). right. exact Hin.
Qed.

Lemma pop_cube : forall fuel s set L until, OK s -> good s set -> CubeAt s set L ->
  nlevels s - rlevel s (eref set) < fuel -> until <= nlevels s ->
  exists set' L', pop view fuel s set until = Some set' /\ good s set' /\ CubeAt s set' L' /\
    until <= rlevel s (eref set') /\ forall l, until <= l -> lit_pol L' l = lit_pol L l.
Proof.
  induction fuel as [|f IH]; intros s set L until O G C Hf Hu; [lia|].
  simpl. destruct C as [e Ev | e l t x L Ev Ft C | e l t x L Ev Ft Fx C].
  - rewrite Ev. exists e, []. split; [reflexivity|]. split; [exact G|]. split; [apply CA_end; exact Ev|].
    split; [rewrite (proj1 (view_term s e true O G Ev)); exact Hu | reflexivity].
  - rewrite Ev. destruct (view_node s e l t x O G Ev) as [El [Ll [Gt [Gx [Lt [Lx _]]]]]].
    pose proof (rlevel_le s (OK_WF s O) (eref x)).
    destruct (Nat.ltb_spec l until) as [Hlt|Hge].
    + rewrite Ft. destruct (IH s x L until O Gx C ltac:(lia) Hu) as [set' [L' [P [G' [C' [U' Hp]]]]]].
      exists set', L'. split; [exact P|]. split; [exact G'|]. split; [exact C'|]. split; [exact U'|].
      intros l0 Hl0. rewrite (Hp l0 Hl0). simpl. destruct (Nat.eqb_spec l l0); [lia | reflexivity].
    + exists e, ((l, false) :: L). split; [reflexivity|]. split; [exact G|].
      split; [eapply CA_neg; eauto|]. split; [lia | reflexivity].
  - rewrite Ev. destruct (view_node s e l t x O G Ev) as [El [Ll [Gt [Gx [Lt [Lx _]]]]]].
    pose proof (rlevel_le s (OK_WF s O) (eref t)).
    destruct (Nat.ltb_spec l until) as [Hlt|Hge].
    + rewrite Ft. destruct (IH s t L until O Gt C ltac:(lia) Hu) as [set' [L' [P [G' [C' [U' Hp]]]]]].
      exists set', L'. split; [exact P|]. split; [exact G'|]. split; [exact C'|]. split; [exact U'|].
      intros l0 Hl0. rewrite (Hp l0 Hl0). simpl. destruct (Nat.eqb_spec l l0); [lia | reflexivity].
    + exists e, ((l, true) :: L). split; [reflexivity|]. split; [exact G|].
      split; [eapply CA_pos; eauto|]. split; [lia | reflexivity].
Qed.

Lemma set_choice_cube : forall s set L l, OK s -> good s set -> CubeAt s set L -> l < nlevels s ->
  exists set' L', set_choice view s set l = Some (set', lit_pol L l) /\ good s set' /\ CubeAt s set' L' /\
    forall l', l < l' -> lit_pol L' l' = lit_pol L l'.
Proof.
  intros s set L l O G C Hl. unfold set_choice.
  pose proof (rlevel_le s (OK_WF s O) (eref set)).
  destruct (pop_cube (S (nlevels s)) s set L l O G C ltac:(lia) ltac:(lia)) as [set1 [L1 [P [G1 [C1 [U1 Hp]]]]]].
  rewrite P, <- (Hp l (le_n _)).
  destruct C1 as [e Ev | e l1 t x L1 Ev Ft C1 | e l1 t x L1 Ev Ft Fx C1]; rewrite Ev.
  - exists e, []. split; [reflexivity|]. split; [exact G1|]. split; [apply CA_end; exact Ev|].
    intros l' Hl'. rewrite <- (Hp l') by lia. reflexivity.
  - destruct (view_node s e l1 t x O G1 Ev) as [El [Ll [Gt [Gx [Lt [Lx _]]]]]].
    destruct (Nat.eqb_spec l1 l) as [->|Hne].
    + rewrite (CubeAt_nonfalse s x L1 C1). simpl. rewrite Nat.eqb_refl.
      exists x, L1. split; [reflexivity|]. split; [exact Gx|]. split; [exact C1|].
      intros l' Hl'. rewrite <- (Hp l') by lia. simpl. destruct (Nat.eqb_spec l l'); [lia | reflexivity].
    + rewrite (lit_pol_absent ((l1, false) :: L1) l).
      * exists e, ((l1, false) :: L1). split; [reflexivity|]. split; [exact G1|].
        split; [eapply CA_neg; eauto|]. intros l' Hl'. apply Hp. lia.
      * intros l' b [Hin|Hin]; [inversion Hin; lia|].
        pose proof (CubeAt_levels s x L1 O C1 Gx l' b Hin). lia.
  - destruct (view_node s e l1 t x O G1 Ev) as [El [Ll [Gt [Gx [Lt [Lx _]]]]]].
    destruct (Nat.eqb_spec l1 l) as [->|Hne].
    + rewrite Fx. simpl. rewrite Nat.eqb_refl.
      exists t, L1. split; [reflexivity|]. split; [exact Gt|]. split; [exact C1|].
      intros l' Hl'. rewrite <- (Hp l') by lia. simpl. destruct (Nat.eqb_spec l l'); [lia | reflexivity].
    + rewrite (lit_pol_absent ((l1, true) :: L1) l).
      * exists e, ((l1, true) :: L1). split; [reflexivity|]. split; [exact G1|].
        split; [eapply CA_pos; eauto|]. intros l' Hl'. apply Hp. lia.
      * intros l' b [Hin|Hin]; [inversion Hin; lia|].
        pose proof (CubeAt_levels s t L1 O C1 Gt l' b Hin). lia.
Qed.

(** forget the (trivial) state of the level-indexed choice *)
Definition drop_st (r : option (snap * edge * list step * unit)) : option (snap * edge * list step) :=
  match r with Some (s', e, tr, _) => Some (s', e, tr) | None => None end.

Lemma pick_dd_set_eq_gen : forall L fuel s e set Lc, OK s -> good s e -> good s set -> CubeAt s set Lc ->
  (forall l, rlevel s (eref e) <= l -> lit_pol Lc l = lit_pol L l) ->
  pick_dd_set view add_lit fuel s e set =
  drop_st (pick_dd view unit (mask_choice (lit_pol L)) add_lit fuel s tt e).
Proof.
  intros L. induction fuel as [|f IH]; intros s e set Lc O G Gs C Hl; [reflexivity|].
  simpl. destruct (view s e) as [|b|l t x] eqn:Ev; try reflexivity.
  destruct (view_node s e l t x O G Ev) as [El [Ll [Gt [Gx [Lt [Lx _]]]]]].
  destruct (set_choice_cube s set Lc l O Gs C Ll) as [set' [L' [Es [G' [C' Hp]]]]].
  rewrite Es, (Hl l ltac:(lia)). unfold decide, mask_choice.
  assert (Hrec : forall c : bool,
    pick_dd_set view add_lit f s (if c then t else x) set' =
    drop_st (pick_dd view unit (mask_choice (lit_pol L)) add_lit f s tt (if c then t else x))).
  { intros c. apply (IH s (if c then t else x) set' L' O ltac:(destruct c; assumption) G' C').
    intros l0 Hl0. rewrite (Hp l0) by (destruct c; lia). apply Hl. destruct c; lia. }
  destruct (isf s t).
  - rewrite (Hrec false). unfold mask_choice.
    destruct (pick_dd view unit _ add_lit f s tt x) as [[[[s1 sub] tr] []]|]; [|reflexivity].
    simpl. destruct (add_lit s1 sub l false) as [[s2 r]|]; reflexivity.
  - destruct (isf s x).
    + rewrite (Hrec true). unfold mask_choice.
      destruct (pick_dd view unit _ add_lit f s tt t) as [[[[s1 sub] tr] []]|]; [|reflexivity].
      simpl. destruct (add_lit s1 sub l true) as [[s2 r]|]; reflexivity.
    + rewrite (Hrec (lit_pol L l)). unfold mask_choice.
      destruct (pick_dd view unit _ add_lit f s tt (if lit_pol L l then t else x)) as [[[[s1 sub] tr] []]|]; [|reflexivity].
      simpl. destruct (add_lit s1 sub l (lit_pol L l)) as [[s2 r]|]; reflexivity.
Qed.

(** [pick_cube_dd_set] = [pick_cube_dd] with the choice "polarity of the
    level's variable in the literal set, false if it does not occur" *)
Theorem pick_dd_set_eq : forall s e set L, OK s -> good s e -> good s set ->
  cube_lits view (S (nlevels s)) s set = Some L ->
  pick_cube_dd_set view add_lit s e set =
  drop_st (pick_cube_dd view unit (mask_choice (lit_pol L)) add_lit s tt e).
Proof.
  intros s e set L O G Gs E. unfold pick_cube_dd_set, pick_cube_dd.
  apply (pick_dd_set_eq_gen L (S (nlevels s)) s e set L O G Gs (cube_lits_CubeAt _ _ _ _ E)).
  reflexivity.
Qed.

(** the literal set denotes the conjunction of its literals *)
Lemma CubeAt_den : forall s e L, OK s -> CubeAt s e L -> good s e ->
  forall a, den s e a = forallb (fun p : nat * bool => Bool.eqb (a (fst p)) (snd p)) L.
Proof.
  intros s e L O C. induction C as [e Ev | e l t x L Ev Ft C IH | e l t x L Ev Ft Fx C IH]; intros G a.
  - apply (view_term s e true O G Ev).
  - destruct (view_node s e l t x O G Ev) as [El [Ll [Gt [Gx [Lt [Lx [Hd _]]]]]]].
    rewrite Hd. simpl. rewrite <- (IH Gx a), (isf_true s t O Gt Ft). destruct (a l); reflexivity.
  - destruct (view_node s e l t x O G Ev) as [El [Ll [Gt [Gx [Lt [Lx [Hd _]]]]]]].
    rewrite Hd. simpl. rewrite <- (IH Gt a), (isf_true s x O Gx Fx). destruct (a l); reflexivity.
Qed.

(** *** The probability of a trace under [pick_cube_uniform] *)

Section Weight.
Variable count : snap -> edge -> N.
Hypothesis count_term : forall s e b, OK s -> good s e -> view s e = CTerm b ->
  count s e = if b then (2 ^ N.of_nat (nlevels s))%N else 0%N.
Hypothesis count_node : forall s e l t x, OK s -> good s e -> view s e = CNode l t x ->
  (count s t + count s x = 2 * count s e)%N.

Lemma count_false : forall s e, OK s -> good s e -> isf s e = true -> count s e = 0%N.
Proof.
  intros s e O G. unfold is_false. destruct (view s e) as [|[|]|] eqn:Ev; try discriminate.
  intros _. apply (count_term s e false O G Ev).
Qed.

(** for every run (whatever the choice function answers): numerator and
    denominator of the product of the branch probabilities are positive and
      num / den = 2^(nlevels - number of literals) / count(e) *)
Theorem run_weight : forall St choice s st e tr st', OK s -> Run St choice s st e tr st' -> good s e ->
  let (num, dn) := trace_weight view count s tr in
  (0 < num /\ 0 < dn /\ 0 < count s e /\
   num * count s e * 2 ^ N.of_nat (length tr) = dn * 2 ^ N.of_nat (nlevels s))%N.
Proof.
  intros St choice s st e tr st' O R.
  induction R as [st e Ev | st e l t x c tr st' Ev Ff R IH | st e l t x c st1 tr st' Ev Ft Fx Ec R IH]; intros G.
  - simpl. rewrite (count_term s e true O G Ev). pose proof (pow2_pos (N.of_nat (nlevels s))).
    change (2 ^ N.of_nat 0)%N with 1%N. lia.
  - destruct (view_node s e l t x O G Ev) as [El [Ll [Gt [Gx _]]]].
    pose proof (count_node s e l t x O G Ev) as Hn.
    assert (G' : good s (if c then t else x)) by (destruct c; assumption).
    assert (Z : count s (if c then x else t) = 0%N)
      by (apply count_false; [exact O | destruct c; assumption | exact Ff]).
    specialize (IH G'). cbn [trace_weight sp_asked].
    destruct (trace_weight view count s tr) as [num dn]. destruct IH as [A [B [C D]]].
    assert (Hc : (count s (if c then t else x) = 2 * count s e)%N) by (destruct c; lia).
    cbn [length]. rewrite pow2_S. rewrite Hc in C, D. split; [exact A|]. split; [exact B|].
    split; [lia|]. lia.
  - destruct (view_node s e l t x O G Ev) as [El [Ll [Gt [Gx _]]]].
    pose proof (count_node s e l t x O G Ev) as Hn.
    assert (G' : good s (if c then t else x)) by (destruct c; assumption).
    specialize (IH G'). cbn [trace_weight sp_asked sp_edge sp_val]. rewrite Ev.
    destruct (trace_weight view count s tr) as [num dn]. destruct IH as [A [B [C D]]].
    cbn [length]. rewrite pow2_S, Hn.
    assert (P : (0 < count s e)%N) by (destruct c; lia).
    split; [apply N.mul_pos_pos; assumption|]. split; [apply N.mul_pos_pos; lia|].
    split; [exact P|].
    replace (num * count s (if c then t else x) * count s e * (2 * 2 ^ N.of_nat (length tr)))%N
      with ((num * count s (if c then t else x) * 2 ^ N.of_nat (length tr)) * (2 * count s e))%N by lia.
    rewrite D. lia.
Qed.

End Weight.

End Gen.
