(** * Proofs about cube picking, part 1: the walk shared by BDDs and BCDDs

    Everything here is proved once for an abstract *view* of edges
    ([Pick.cview]) together with a denotation [den] and an invariant [OK] that
    satisfy a handful of hypotheses (Section [Gen]); DD/PickBdd.v and
    DD/PickBcdd.v discharge the hypotheses for [view_plain] / [view_bcdd].

    Contents:
    - cube vectors: [write_all_spec] (the vector written along a trace with
      pairwise distinct levels holds exactly the trace's literals; uses that
      [level_to_var] is injective, i.e. the permutation clause of [WF]);
    - [Run]: the relational specification of the walk, [walk_run];
    - [pick_cube_total], [pick_cube_none_iff], [pick_cube_some],
      [pick_cube_implicant], [run_calls], [run_answers];
    - [pick_dd_spec], [pick_dd_same_cube]: the diagram built by
      [pick_cube_dd] denotes exactly the cube of [pick_cube];
    - [pick_dd_set_eq]: with a literal set that is a cube diagram,
      [pick_cube_dd_set] is [pick_cube_dd] with the choice "polarity in the set";
    - [run_weight]: the probability of a trace under [pick_cube_uniform]
      is 2^(don't cares) / #models (as an identity over N). *)

From Coq Require Import List NArith PArith Bool Arith Lia FMapPositive.
From OxiVerif Require Import DD.Table DD.TableProofs DD.Build DD.BuildProofs DD.SatCount
  DD.SatCountProofs DD.Pick.
Import ListNotations.

Arguments N.add : simpl never.
Arguments N.mul : simpl never.
Arguments N.pow : simpl never.

(** ** Cube vectors *)

Lemma set_nth_length : forall (A : Type) i (v : A) l l', set_nth i v l = Some l' -> length l' = length l.
Proof.
  intros A. induction i as [|i IH]; intros v [|x r] l' E; simpl in E; try discriminate.
  - inversion E. reflexivity.
  - destruct (set_nth i v r) as [r'|] eqn:Er; [|discriminate]. simpl in E. inversion E.
    simpl. f_equal. eapply IH; eauto.
Qed.

Lemma set_nth_some : forall (A : Type) i (v : A) l, i < length l -> exists l', set_nth i v l = Some l'.
Proof.
  intros A. induction i as [|i IH]; intros v [|x r] Hi; simpl in *; try lia.
  - eauto.
  - destruct (IH v r ltac:(lia)) as [r' Er]. rewrite Er. simpl. eauto.
Qed.

Lemma set_nth_same : forall (A : Type) i (v : A) l l', set_nth i v l = Some l' -> nth_error l' i = Some v.
Proof.
  intros A. induction i as [|i IH]; intros v [|x r] l' E; simpl in E; try discriminate.
  - inversion E. reflexivity.
  - destruct (set_nth i v r) as [r'|] eqn:Er; [|discriminate]. simpl in E. inversion E.
    simpl. eapply IH; eauto.
Qed.

Lemma set_nth_other : forall (A : Type) i (v : A) l l' j, set_nth i v l = Some l' -> j <> i ->
  nth_error l' j = nth_error l j.
Proof.
  intros A. induction i as [|i IH]; intros v [|x r] l' j E Hj; simpl in E; try discriminate.
  - inversion E. destruct j; [lia | reflexivity].
  - destruct (set_nth i v r) as [r'|] eqn:Er; [|discriminate]. simpl in E. inversion E.
    destruct j; [reflexivity|]. simpl. eapply IH; eauto.
Qed.

(** the value a trace writes for level [l] (first visit) *)
Fixpoint trace_val (tr : list step) (l : nat) : option (option bool) :=
  match tr with
  | [] => None
  | p :: r => if Nat.eqb (sp_level p) l then Some (sp_val p) else trace_val r l
  end.

Lemma trace_val_none : forall tr l, ~ In l (map sp_level tr) -> trace_val tr l = None.
Proof.
  induction tr as [|p r IH]; intros l Hn; simpl; [reflexivity|].
  destruct (Nat.eqb_spec (sp_level p) l) as [E|_].
  - exfalso. apply Hn. left. exact E.
  - apply IH. intro Hi. apply Hn. right. exact Hi.
Qed.

Lemma trace_val_in : forall tr p, NoDup (map sp_level tr) -> In p tr ->
  trace_val tr (sp_level p) = Some (sp_val p).
Proof.
  induction tr as [|q r IH]; intros p Hnd Hin; [destruct Hin|].
  simpl in Hnd. inversion Hnd as [|? ? Hq Hr]; subst. simpl.
  destruct Hin as [->|Hin].
  - rewrite Nat.eqb_refl. reflexivity.
  - destruct (Nat.eqb_spec (sp_level q) (sp_level p)) as [E|_].
    + exfalso. apply Hq. rewrite E. apply in_map. exact Hin.
    + apply IH; assumption.
Qed.

Lemma trace_val_some : forall tr l v, trace_val tr l = Some v ->
  exists p, In p tr /\ sp_level p = l /\ sp_val p = v.
Proof.
  induction tr as [|q r IH]; intros l v E; simpl in E; [discriminate|].
  destruct (Nat.eqb_spec (sp_level q) l) as [El|_].
  - inversion E. exists q. split; [left; reflexivity | auto].
  - destruct (IH l v E) as [p [A B]]. exists p. split; [right; exact A | exact B].
Qed.

Section Cube.
Variable s : snap.
Hypothesis H : WF s.

(** [level_to_var] is injective on the levels *)
Lemma l2v_inj : forall l1 l2 v, nth_error (s_l2v s) l1 = Some v -> nth_error (s_l2v s) l2 = Some v -> l1 = l2.
Proof.
  intros l1 l2 v E1 E2.
  assert (L1 : l1 < length (s_l2v s)) by (apply nth_error_Some; congruence).
  assert (L2 : l2 < length (s_l2v s)) by (apply nth_error_Some; congruence).
  destruct (wf_perm_l2v s H l1 L1) as [j1 [A1 B1]].
  destruct (wf_perm_l2v s H l2 L2) as [j2 [A2 B2]].
  congruence.
Qed.

Lemma l2v_some : forall l, l < nlevels s -> exists v, nth_error (s_l2v s) l = Some v /\ v < nlevels s.
Proof.
  intros l Hl. destruct (wf_perm_l2v s H l Hl) as [j [A B]]. exists j. split; [exact A|].
  unfold nlevels. rewrite <- (wf_perm_len s H). apply nth_error_Some. congruence.
Qed.

Lemma cube_lit_write : forall cb cb' p, length cb = nlevels s -> sp_level p < nlevels s ->
  write_step s (Some cb) p = Some cb' ->
  length cb' = nlevels s /\
  forall l, l < nlevels s ->
    cube_lit s cb' l = if Nat.eqb (sp_level p) l then sp_val p else cube_lit s cb l.
Proof.
  intros cb cb' p Hlen Hp E. unfold write_step in E.
  destruct (l2v_some _ Hp) as [v [Ev Hv]]. rewrite Ev in E.
  split; [rewrite (set_nth_length _ _ _ _ _ E); exact Hlen|].
  intros l Hl. unfold cube_lit. destruct (l2v_some _ Hl) as [w [Ew Hw]]. rewrite Ew.
  destruct (Nat.eqb_spec (sp_level p) l) as [El|Hne].
  - subst l. assert (w = v) by congruence. subst w. rewrite (set_nth_same _ _ _ _ _ E). reflexivity.
  - rewrite (set_nth_other _ _ _ _ _ w E); [reflexivity|].
    intro Ewv. subst w. apply Hne. eapply l2v_inj; eauto.
Qed.

Lemma write_step_some : forall cb p, length cb = nlevels s -> sp_level p < nlevels s ->
  exists cb', write_step s (Some cb) p = Some cb'.
Proof.
  intros cb p Hlen Hp. unfold write_step. destruct (l2v_some _ Hp) as [v [Ev Hv]]. rewrite Ev.
  apply set_nth_some. lia.
Qed.

(** the vector after all writes of a trace whose levels are pairwise distinct *)
Lemma write_all_spec : forall tr cb, length cb = nlevels s ->
  (forall p, In p tr -> sp_level p < nlevels s) -> NoDup (map sp_level tr) ->
  exists cb', write_all s tr cb = Some cb' /\ length cb' = nlevels s /\
    forall l, l < nlevels s ->
      cube_lit s cb' l = match trace_val tr l with Some v => v | None => cube_lit s cb l end.
Proof.
  unfold write_all. induction tr as [|p r IH]; intros cb Hlen Hlv Hnd.
  - exists cb. simpl. auto.
  - simpl in Hnd. inversion Hnd as [|? ? Hp Hr]; subst.
    destruct (write_step_some cb p Hlen (Hlv p (or_introl eq_refl))) as [cb1 E1].
    destruct (cube_lit_write cb cb1 p Hlen (Hlv p (or_introl eq_refl)) E1) as [L1 W1].
    destruct (IH cb1 L1 (fun q Hq => Hlv q (or_intror Hq)) Hr) as [cb' [E' [L' W']]].
    exists cb'. cbn [fold_left]. split; [rewrite <- E'; f_equal; exact E1|]. split; [exact L'|].
    intros l Hl. rewrite (W' l Hl), (W1 l Hl). simpl trace_val.
    destruct (Nat.eqb_spec (sp_level p) l) as [El|_]; [|reflexivity].
    subst l. rewrite (trace_val_none r _ Hp). reflexivity.
Qed.

End Cube.

Lemma cube_lit_repeat : forall s (v : option bool) l, WF s -> l < nlevels s ->
  cube_lit s (repeat v (nlevels s)) l = v.
Proof.
  intros s v l H Hl. unfold cube_lit. destruct (l2v_some s H l Hl) as [w [Ew Hw]]. rewrite Ew.
  rewrite (nth_error_nth' _ v) by (rewrite repeat_length; exact Hw).
  rewrite nth_repeat. reflexivity.
Qed.

(** strictly increasing levels, all at least [L] *)
Fixpoint incr_from (L : nat) (ls : list nat) : Prop :=
  match ls with
  | [] => True
  | l :: r => L <= l /\ incr_from (S l) r
  end.

Lemma incr_from_weaken : forall ls L L', incr_from L ls -> L' <= L -> incr_from L' ls.
Proof. destruct ls as [|l r]; simpl; intros L L' Hi Hl; [exact I|]. split; [lia | apply Hi]. Qed.

Lemma incr_from_ge : forall ls L l, incr_from L ls -> In l ls -> L <= l.
Proof.
  induction ls as [|x r IH]; intros L l Hi Hin; [destruct Hin|].
  simpl in Hi. destruct Hi as [A B]. destruct Hin as [->|Hin]; [exact A|].
  specialize (IH (S x) l B Hin). lia.
Qed.

Lemma incr_from_nodup : forall ls L, incr_from L ls -> NoDup ls.
Proof.
  induction ls as [|x r IH]; intros L Hi; constructor.
  - simpl in Hi. destruct Hi as [_ B]. intro Hin. pose proof (incr_from_ge r (S x) x B Hin). lia.
  - simpl in Hi. destruct Hi as [_ B]. eapply IH; eauto.
Qed.

(** an assignment agrees with a cube vector *)
Definition agrees (s : snap) (a : lasg) (cb : cubev) : Prop :=
  forall l b, l < nlevels s -> cube_lit s cb l = Some b -> a l = b.

(** the literals of a trace hold under [a] *)
Definition sat_trace (a : lasg) (tr : list step) : bool :=
  forallb (fun p => match sp_val p with Some c => Bool.eqb (a (sp_level p)) c | None => true end) tr.

(** ** The abstract walk *)

Section Gen.
Variable view : snap -> edge -> cview.
Variable OK : snap -> Prop.
Variable good : snap -> edge -> Prop.
Variable den : snap -> edge -> lasg -> bool.

Hypothesis OK_WF : forall s, OK s -> WF s.
Hypothesis good_ref : forall s e, good s e -> ref_ok s (eref e).
Hypothesis view_err : forall s e, OK s -> good s e -> view s e <> CErr.
Hypothesis view_term : forall s e b, OK s -> good s e -> view s e = CTerm b ->
  rlevel s (eref e) = nlevels s /\ forall a, den s e a = b.
Hypothesis view_node : forall s e l t x, OK s -> good s e -> view s e = CNode l t x ->
  l = rlevel s (eref e) /\ l < nlevels s /\ good s t /\ good s x /\
  l < rlevel s (eref t) /\ l < rlevel s (eref x) /\
  (forall a, den s e a = if a l then den s t a else den s x a) /\
  (exists a, den s e a = true).
Hypothesis den_indep : forall s e l a b, OK s -> good s e -> l < rlevel s (eref e) ->
  den s e (updb a l b) = den s e a.

Notation isf := (is_false view).

Lemma isf_true : forall s e, OK s -> good s e -> isf s e = true -> forall a, den s e a = false.
Proof.
  intros s e O G. unfold is_false. destruct (view s e) as [|[|]|] eqn:Ev; try discriminate.
  intros _. apply (view_term s e false O G Ev).
Qed.

Lemma isf_false : forall s e, OK s -> good s e -> isf s e = false -> exists a, den s e a = true.
Proof.
  intros s e O G. unfold is_false. destruct (view s e) as [|[|]|l t x] eqn:Ev; try discriminate; intros _.
  - exfalso. apply (view_err s e O G Ev).
  - exists (fun _ => false). apply (view_term s e true O G Ev).
  - apply (view_node s e l t x O G Ev).
Qed.

Lemma isf_iff : forall s e, OK s -> good s e -> (isf s e = true <-> forall a, den s e a = false).
Proof.
  intros s e O G. split; [apply isf_true; assumption|].
  intros Hf. destruct (isf s e) eqn:E; [reflexivity|].
  destruct (isf_false s e O G E) as [a Ha]. rewrite Hf in Ha. discriminate.
Qed.

Section Choice.
Variable St : Type.
Variable choice : St -> nat -> edge -> bool * St.

(** the specification of the walk: a path from [e] to the true terminal on
    which every forced value is forced by a false cofactor and every other
    value is the answer of the choice function, called in path order *)
Inductive Run (s : snap) : St -> edge -> list step -> St -> Prop :=
| Run_end : forall st e, view s e = CTerm true -> Run s st e [] st
| Run_forced : forall st e l t x (c : bool) tr st',
    view s e = CNode l t x ->
    isf s (if c then x else t) = true ->
    Run s st (if c then t else x) tr st' ->
    Run s st e (mkStep l e (Some c) false :: tr) st'
| Run_asked : forall st e l t x (c : bool) st1 tr st',
    view s e = CNode l t x ->
    isf s t = false -> isf s x = false ->
    choice st l e = (c, st1) ->
    Run s st1 (if c then t else x) tr st' ->
    Run s st e (mkStep l e (Some c) true :: tr) st'.

Lemma walk_run : forall fuel s st e, OK s -> good s e -> isf s e = false ->
  nlevels s - rlevel s (eref e) < fuel ->
  exists tr st', walk view St choice fuel s st e = Some (tr, st') /\ Run s st e tr st'.
Proof.
  induction fuel as [|f IH]; intros s st e O G Hnf Hf; [lia|].
  simpl. unfold is_false in Hnf.
  destruct (view s e) as [|b|l t x] eqn:Ev.
  - exfalso. apply (view_err s e O G Ev).
  - destruct b; [|discriminate]. exists [], st. split; [reflexivity | apply Run_end; exact Ev].
  - destruct (view_node s e l t x O G Ev) as [El [Ll [Gt [Gx [Lt [Lx [Hd [a Ha]]]]]]]].
    pose proof (rlevel_le s (OK_WF s O) (eref t)) as Bt.
    pose proof (rlevel_le s (OK_WF s O) (eref x)) as Bx.
    unfold decide.
    destruct (isf s t) eqn:Ft.
    + (* then-cofactor false: value false *)
      assert (Fx : isf s x = false).
      { destruct (isf s x) eqn:Fx; [|reflexivity]. exfalso.
        rewrite Hd, (isf_true s t O Gt Ft), (isf_true s x O Gx Fx) in Ha. destruct (a l); discriminate. }
      destruct (IH s st x O Gx Fx ltac:(lia)) as [tr [st' [W R]]].
      rewrite W. exists (mkStep l e (Some false) false :: tr), st'. split; [reflexivity|].
      apply (Run_forced s st e l t x false tr st' Ev); assumption.
    + destruct (isf s x) eqn:Fx.
      * destruct (IH s st t O Gt Ft ltac:(lia)) as [tr [st' [W R]]].
        rewrite W. exists (mkStep l e (Some true) false :: tr), st'. split; [reflexivity|].
        apply (Run_forced s st e l t x true tr st' Ev); assumption.
      * destruct (choice st l e) as [c st1] eqn:Ec.
        assert (Gc : good s (if c then t else x)) by (destruct c; assumption).
        assert (Fc : isf s (if c then t else x) = false) by (destruct c; assumption).
        destruct (IH s st1 (if c then t else x) O Gc Fc ltac:(destruct c; lia)) as [tr [st' [W R]]].
        rewrite W. exists (mkStep l e (Some c) true :: tr), st'. split; [reflexivity|].
        apply (Run_asked s st e l t x c st1 tr st' Ev); assumption.
Qed.

(** levels strictly increase along a run, starting at the level of the edge *)
Lemma run_levels : forall s st e tr st', OK s -> Run s st e tr st' -> good s e ->
  incr_from (rlevel s (eref e)) (map sp_level tr) /\ forall p, In p tr -> sp_level p < nlevels s.
Proof.
  intros s st e tr st' O R. induction R as [st e Ev | st e l t x c tr st' Ev Ff R IH | st e l t x c st1 tr st' Ev Ft Fx Ec R IH];
    intros G.
  - split; [exact I | intros p []].
  - destruct (view_node s e l t x O G Ev) as [El [Ll [Gt [Gx [Lt [Lx _]]]]]].
    destruct (IH ltac:(destruct c; assumption)) as [A B]. split.
    + simpl. split; [lia|]. eapply incr_from_weaken; [exact A | destruct c; lia].
    + intros p [<-|Hp]; [exact Ll | apply B; exact Hp].
  - destruct (view_node s e l t x O G Ev) as [El [Ll [Gt [Gx [Lt [Lx _]]]]]].
    destruct (IH ltac:(destruct c; assumption)) as [A B]. split.
    + simpl. split; [lia|]. eapply incr_from_weaken; [exact A | destruct c; lia].
    + intros p [<-|Hp]; [exact Ll | apply B; exact Hp].
Qed.

Lemma run_nodup : forall s st e tr st', OK s -> Run s st e tr st' -> good s e -> NoDup (map sp_level tr).
Proof.
  intros s st e tr st' O R G. destruct (run_levels s st e tr st' O R G) as [A _].
  eapply incr_from_nodup; eauto.
Qed.

(** the function at the start of a run holds exactly... at least where the
    literals of the trace hold *)
Lemma run_implies : forall s st e tr st', OK s -> Run s st e tr st' -> good s e ->
  forall a, sat_trace a tr = true -> den s e a = true.
Proof.
  intros s st e tr st' O R. induction R as [st e Ev | st e l t x c tr st' Ev Ff R IH | st e l t x c st1 tr st' Ev Ft Fx Ec R IH];
    intros G a Hs.
  - apply (view_term s e true O G Ev).
  - destruct (view_node s e l t x O G Ev) as [El [Ll [Gt [Gx [Lt [Lx [Hd _]]]]]]].
    simpl in Hs. apply andb_true_iff in Hs. destruct Hs as [Hc Hs]. apply eqb_prop in Hc.
    rewrite Hd, Hc. destruct c; apply IH; assumption.
  - destruct (view_node s e l t x O G Ev) as [El [Ll [Gt [Gx [Lt [Lx [Hd _]]]]]]].
    simpl in Hs. apply andb_true_iff in Hs. destruct Hs as [Hc Hs]. apply eqb_prop in Hc.
    rewrite Hd, Hc. destruct c; apply IH; assumption.
Qed.

(** what is recorded about the calls of the choice function *)
Definition call_ok (s : snap) (p : step) : Prop :=
  exists t x c, view s (sp_edge p) = CNode (sp_level p) t x /\ sp_val p = Some c /\
    good s (sp_edge p) /\
    if sp_asked p then (exists a, den s t a = true) /\ (exists a, den s x a = true)
    else forall a, den s (if c then x else t) a = false.

Lemma run_calls : forall s st e tr st', OK s -> Run s st e tr st' -> good s e ->
  forall p, In p tr -> call_ok s p.
Proof.
  intros s st e tr st' O R. induction R as [st e Ev | st e l t x c tr st' Ev Ff R IH | st e l t x c st1 tr st' Ev Ft Fx Ec R IH];
    intros G p Hp.
  - destruct Hp.
  - destruct (view_node s e l t x O G Ev) as [El [Ll [Gt [Gx _]]]].
    destruct Hp as [<-|Hp]; [|apply IH; [destruct c; assumption | exact Hp]].
    exists t, x, c. simpl. split; [exact Ev|]. split; [reflexivity|]. split; [exact G|].
    apply isf_true; [exact O | destruct c; assumption | exact Ff].
  - destruct (view_node s e l t x O G Ev) as [El [Ll [Gt [Gx _]]]].
    destruct Hp as [<-|Hp]; [|apply IH; [destruct c; assumption | exact Hp]].
    exists t, x, c. simpl. split; [exact Ev|]. split; [reflexivity|]. split; [exact G|].
    split; apply isf_false; assumption.
Qed.

(** calling the choice function along the asked steps of a trace, threading
    its state: the answers and the final state *)
Fixpoint replay (st : St) (tr : list step) : list bool * St :=
  match tr with
  | [] => ([], st)
  | p :: r =>
    if sp_asked p then
      let (c, st1) := choice st (sp_level p) (sp_edge p) in
      let (cs, st') := replay st1 r in (c :: cs, st')
    else replay st r
  end.

(** the values recorded at the asked steps *)
Fixpoint asked_vals (tr : list step) : list bool :=
  match tr with
  | [] => []
  | p :: r =>
    if sp_asked p then
      match sp_val p with Some c => c :: asked_vals r | None => asked_vals r end
    else asked_vals r
  end.

Lemma run_answers : forall s st e tr st', Run s st e tr st' -> replay st tr = (asked_vals tr, st').
Proof.
  intros s st e tr st' R. induction R as [st e Ev | st e l t x c tr st' Ev Ff R IH | st e l t x c st1 tr st' Ev Ft Fx Ec R IH].
  - reflexivity.
  - simpl. exact IH.
  - simpl. rewrite Ec, IH. reflexivity.
Qed.

(** *** [pick_cube] *)

Theorem pick_cube_total : forall s st e, OK s -> good s e ->
  exists r, pick_cube view St choice s st e = Some r.
Proof.
  intros s st e O G. unfold pick_cube.
  destruct (view s e) as [|[|]|l t x] eqn:Ev; eauto.
  - exfalso. apply (view_err s e O G Ev).
  - assert (Hnf : isf s e = false) by (unfold is_false; rewrite Ev; reflexivity).
    pose proof (rlevel_le s (OK_WF s O) (eref e)).
    destruct (walk_run (S (nlevels s)) s st e O G Hnf ltac:(lia)) as [tr [st' [W R]]]. rewrite W.
    destruct (run_levels s st e tr st' O R G) as [A B].
    destruct (write_all_spec s (OK_WF s O) tr (repeat None (nlevels s)) (repeat_length _ _) B
                (incr_from_nodup _ _ A)) as [cb [Ew _]].
    rewrite Ew. eauto.
Qed.

Theorem pick_cube_none_iff : forall s st e, OK s -> good s e ->
  (pick_cube view St choice s st e = Some None <-> forall a, den s e a = false).
Proof.
  intros s st e O G. rewrite <- (isf_iff s e O G). unfold pick_cube, is_false.
  destruct (view s e) as [|[|]|l t x] eqn:Ev.
  - split; discriminate.
  - split; discriminate.
  - split; reflexivity.
  - split; [|discriminate].
    destruct (walk view St choice (S (nlevels s)) s st e) as [[tr st']|]; [|discriminate].
    destruct (write_all s tr (repeat None (nlevels s))); discriminate.
Qed.

Theorem pick_cube_some : forall s st e cb tr st', OK s -> good s e ->
  pick_cube view St choice s st e = Some (Some (cb, tr, st')) ->
  Run s st e tr st' /\ length cb = nlevels s /\
  forall l, l < nlevels s ->
    cube_lit s cb l = match trace_val tr l with Some v => v | None => None end.
Proof.
  intros s st e cb tr st' O G. unfold pick_cube.
  destruct (view s e) as [|[|]|l t x] eqn:Ev; try discriminate.
  - intros E. inversion E; subst. split; [apply Run_end; exact Ev|].
    split; [apply repeat_length|]. intros l Hl. simpl. apply cube_lit_repeat; [apply OK_WF; exact O | exact Hl].
  - assert (Hnf : isf s e = false) by (unfold is_false; rewrite Ev; reflexivity).
    pose proof (rlevel_le s (OK_WF s O) (eref e)).
    destruct (walk_run (S (nlevels s)) s st e O G Hnf ltac:(lia)) as [tr0 [st0 [W R]]]. rewrite W.
    destruct (run_levels s st e tr0 st0 O R G) as [A B].
    destruct (write_all_spec s (OK_WF s O) tr0 (repeat None (nlevels s)) (repeat_length _ _) B
                (incr_from_nodup _ _ A)) as [cb0 [Ew [Lc Wc]]].
    rewrite Ew. intros E. inversion E; subst. split; [exact R|]. split; [exact Lc|].
    intros l0 Hl. rewrite (Wc l0 Hl).
    destruct (trace_val tr l0); [reflexivity|]. apply cube_lit_repeat; [apply OK_WF; exact O | exact Hl].
Qed.

(** an assignment agrees with the cube iff the literals of the trace hold *)
Lemma agrees_sat_trace : forall s a cb tr, NoDup (map sp_level tr) ->
  (forall p, In p tr -> sp_level p < nlevels s) ->
  (forall l, l < nlevels s ->
     cube_lit s cb l = match trace_val tr l with Some v => v | None => None end) ->
  (agrees s a cb <-> sat_trace a tr = true).
Proof.
  intros s a cb tr Hnd Hlv Hc. unfold agrees, sat_trace. rewrite forallb_forall. split.
  - intros Ha p Hp. destruct (sp_val p) as [c|] eqn:Ep; [|reflexivity].
    apply eqb_true_iff. apply (Ha (sp_level p) c (Hlv p Hp)).
    rewrite (Hc _ (Hlv p Hp)), (trace_val_in tr p Hnd Hp). exact Ep.
  - intros Hs l b Hl E. rewrite (Hc l Hl) in E.
    destruct (trace_val tr l) as [v|] eqn:Et; [|discriminate]. subst v.
    destruct (trace_val_some tr l _ Et) as [p [Hp [El Ev]]].
    specialize (Hs p Hp). rewrite Ev in Hs. apply eqb_prop in Hs. congruence.
Qed.

Theorem pick_cube_implicant : forall s st e cb tr st', OK s -> good s e ->
  pick_cube view St choice s st e = Some (Some (cb, tr, st')) ->
  forall a, agrees s a cb -> den s e a = true.
Proof.
  intros s st e cb tr st' O G E a Ha.
  destruct (pick_cube_some s st e cb tr st' O G E) as [R [Lc Wc]].
  destruct (run_levels s st e tr st' O R G) as [A B].
  apply (run_implies s st e tr st' O R G).
  apply (agrees_sat_trace s a cb tr (incr_from_nodup _ _ A) B Wc). exact Ha.
Qed.

(** *** [pick_cube_dd] *)

Variable add_lit : snap -> edge -> nat -> bool -> option (snap * edge).

Hypothesis OK_ext_levels : forall s s', extends s s' -> nlevels s' = nlevels s.
Hypothesis good_extends : forall s s' e, OK s -> extends s s' -> good s e -> good s' e.
Hypothesis den_extends : forall s s' e a, OK s -> OK s' -> extends s s' -> good s e -> den s' e a = den s e a.
Hypothesis add_lit_ok : forall s sub l c, OK s -> good s sub -> l < nlevels s ->
  l < rlevel s (eref sub) -> (exists a, den s sub a = true) ->
  exists s' r, add_lit s sub l c = Some (s', r) /\ OK s' /\ extends s s' /\ good s' r /\
    rlevel s' (eref r) = l /\ forall a, den s' r a = Bool.eqb (a l) c && den s sub a.

Lemma pick_dd_spec : forall fuel s st e, OK s -> good s e -> isf s e = false ->
  nlevels s - rlevel s (eref e) < fuel ->
  exists s' r tr st',
    pick_dd view St choice add_lit fuel s st e = Some (s', r, tr, st') /\
    walk view St choice fuel s st e = Some (tr, st') /\
    OK s' /\ extends s s' /\ good s' r /\ rlevel s' (eref r) = rlevel s (eref e) /\
    (forall a, den s' r a = sat_trace a tr) /\ (exists a, den s' r a = true).
Proof.
  induction fuel as [|f IH]; intros s st e O G Hnf Hf; [lia|].
  simpl. unfold is_false in Hnf.
  destruct (view s e) as [|b|l t x] eqn:Ev.
  - exfalso. apply (view_err s e O G Ev).
  - destruct b; [|discriminate]. exists s, e, [], st.
    split; [reflexivity|]. split; [reflexivity|]. split; [exact O|]. split; [apply extends_refl|].
    split; [exact G|]. split; [reflexivity|].
    destruct (view_term s e true O G Ev) as [_ Hd].
    split; [intros a; rewrite Hd; reflexivity | exists (fun _ => false); apply Hd].
  - destruct (view_node s e l t x O G Ev) as [El [Ll [Gt [Gx [Lt [Lx [Hd [a0 Ha0]]]]]]]].
    pose proof (rlevel_le s (OK_WF s O) (eref t)) as Bt.
    pose proof (rlevel_le s (OK_WF s O) (eref x)) as Bx.
    (* the decision, uniformly *)
    assert (Hdec : exists c asked st1, decide view St choice s st l e t x = (c, asked, st1) /\
               isf s (if c then t else x) = false).
    { unfold decide. destruct (isf s t) eqn:Ft.
      - exists false, false, st. split; [reflexivity|]. simpl.
        destruct (isf s x) eqn:Fx; [|reflexivity]. exfalso.
        rewrite Hd, (isf_true s t O Gt Ft), (isf_true s x O Gx Fx) in Ha0. destruct (a0 l); discriminate.
      - destruct (isf s x) eqn:Fx.
        + exists true, false, st. split; [reflexivity | exact Ft].
        + destruct (choice st l e) as [c st1]. exists c, true, st1. split; [reflexivity|].
          destruct c; assumption. }
    destruct Hdec as [c [asked [st1 [Ed Fc]]]]. rewrite Ed.
    assert (Gc : good s (if c then t else x)) by (destruct c; assumption).
    assert (Lc : l < rlevel s (eref (if c then t else x))) by (destruct c; assumption).
    destruct (IH s st1 (if c then t else x) O Gc Fc ltac:(destruct c; lia))
      as [s1 [sub [tr [st2 [P [W [O1 [X1 [G1 [L1 [D1 [a1 Ha1]]]]]]]]]]]].
    rewrite P, W.
    destruct (add_lit_ok s1 sub l c O1 G1 ltac:(rewrite (OK_ext_levels _ _ X1); exact Ll)
                ltac:(rewrite L1; exact Lc) (ex_intro _ a1 Ha1))
      as [s2 [r [Ea [O2 [X2 [G2 [L2 D2]]]]]]].
    rewrite Ea. exists s2, r, (mkStep l e (Some c) asked :: tr), st2.
    split; [reflexivity|]. split; [reflexivity|]. split; [exact O2|].
    split; [eapply extends_trans; eauto|]. split; [exact G2|].
    split; [rewrite L2; exact El|]. split.
    + intros a. rewrite D2, D1. reflexivity.
    + exists (updb a1 l c). rewrite D2, updb_same, eqb_reflx. simpl.
      rewrite den_indep; [exact Ha1 | exact O1 | exact G1 | rewrite L1; exact Lc].
Qed.

(** [pick_cube] and [pick_cube_dd] describe the same cube: same trace (same
    calls of the choice function, same final state), and the diagram holds
    exactly under the assignments that agree with the vector *)
Theorem pick_dd_same_cube : forall s st e cb tr st', OK s -> good s e ->
  pick_cube view St choice s st e = Some (Some (cb, tr, st')) ->
  exists s' r,
    pick_cube_dd view St choice add_lit s st e = Some (s', r, tr, st') /\
    OK s' /\ extends s s' /\ good s' r /\
    forall a, den s' r a = true <-> agrees s a cb.
Proof.
  intros s st e cb tr st' O G E.
  destruct (pick_cube_some s st e cb tr st' O G E) as [R [Lc Wc]].
  destruct (run_levels s st e tr st' O R G) as [A B].
  assert (Hnf : isf s e = false).
  { destruct (isf s e) eqn:F; [|reflexivity]. exfalso.
    pose proof (proj2 (pick_cube_none_iff s st e O G) (isf_true s e O G F)). congruence. }
  pose proof (rlevel_le s (OK_WF s O) (eref e)).
  destruct (pick_dd_spec (S (nlevels s)) s st e O G Hnf ltac:(lia))
    as [s' [r [tr0 [st0 [P [W [O' [X [G' [L' [D' _]]]]]]]]]]].
  (* the trace of pick_cube is the trace of the walk *)
  assert (tr0 = tr /\ st0 = st').
  { unfold pick_cube in E. unfold is_false in Hnf.
    destruct (view s e) as [|[|]|l t x] eqn:Ev; try discriminate.
    - inversion E; subst. simpl in W. rewrite Ev in W. inversion W. auto.
    - rewrite W in E. destruct (write_all s tr0 (repeat None (nlevels s))); [|discriminate].
      inversion E. auto. }
  destruct H0 as [-> ->].
  exists s', r. split; [exact P|]. split; [exact O'|]. split; [exact X|]. split; [exact G'|].
  intros a. rewrite D'. symmetry.
  apply (agrees_sat_trace s a cb tr (incr_from_nodup _ _ A) B Wc).
Qed.

(** the false function: [pick_cube] returns nothing, [pick_cube_dd] the edge itself *)
Theorem pick_dd_false : forall s st e, OK s -> good s e ->
  pick_cube view St choice s st e = Some None ->
  pick_cube_dd view St choice add_lit s st e = Some (s, e, [], st).
Proof.
  intros s st e O G E. unfold pick_cube in E. unfold pick_cube_dd. cbn [pick_dd].
  destruct (view s e) as [|[|]|l t x] eqn:Ev; try discriminate; [reflexivity|].
  destruct (walk view St choice (S (nlevels s)) s st e) as [[tr st']|]; [|discriminate].
  destruct (write_all s tr (repeat None (nlevels s))); discriminate.
Qed.

End Choice.

End Gen.
