(** * C13: the statements of coq/Props/C13.v that combine several lemmas
    (Props files only contain [exact]) *)
From Coq Require Import List NArith PArith Bool Arith.
From OxiVerif Require Import DD.Table DD.TableProofs DD.BuildProofs DD.ApplyProofs DD.SatCount
  DD.Pick DD.PickProofs DD.PickBdd DD.PickBcdd DD.PickZbdd DD.PickUniform DD.PickExamples.
Import ListNotations.

Theorem c13_bdd_pick_cube_entries_thm : forall St choice s st e cb tr st', BddOK s -> good_bdd s e ->
  pick_cube_bdd St choice s st e = Some (Some (cb, tr, st')) ->
  length cb = nlevels s /\
  forall l, l < nlevels s ->
    cube_lit s cb l = match trace_val tr l with Some v => v | None => None end.
Proof.
  intros St choice s st e cb tr st' B G E.
  destruct (pick_cube_bdd_some St choice s st e cb tr st' B G E) as [_ X]. exact X.
Qed.

Theorem c13_bdd_choice_once_per_level_thm : forall St choice s st e cb tr st', BddOK s -> good_bdd s e ->
  pick_cube_bdd St choice s st e = Some (Some (cb, tr, st')) ->
  incr_from (rlevel s (eref e)) (map sp_level tr) /\
  (forall p, In p tr -> sp_level p < nlevels s) /\
  (forall p, In p tr -> call_ok view_plain good_bdd den_bdd s p).
Proof.
  intros St choice s st e cb tr st' B G E.
  destruct (pick_cube_bdd_some St choice s st e cb tr st' B G E) as [R _].
  destruct (run_bdd_levels St choice s st e tr st' B R G) as [A C].
  split; [exact A|]. split; [exact C|]. apply (run_bdd_calls St choice s st e tr st' B R G).
Qed.

Theorem c13_bdd_choice_respected_thm : forall St choice s st e cb tr st', BddOK s -> good_bdd s e ->
  pick_cube_bdd St choice s st e = Some (Some (cb, tr, st')) ->
  replay St choice st tr = (asked_vals tr, st').
Proof.
  intros St choice s st e cb tr st' B G E.
  destruct (pick_cube_bdd_some St choice s st e cb tr st' B G E) as [R _].
  apply (run_bdd_answers St choice s st e tr st' R).
Qed.

Theorem c13_bdd_pick_dd_set_thm : forall s e set L, BddOK s -> good_bdd s e -> good_bdd s set ->
  cube_lits view_plain (S (nlevels s)) s set = Some L ->
  pick_cube_dd_set_bdd s e set =
  drop_st (pick_cube_dd_bdd unit (mask_choice (lit_pol L)) s tt e) /\
  forall a, den_bdd s set a = forallb (fun p : nat * bool => Bool.eqb (a (fst p)) (snd p)) L.
Proof.
  intros s e set L B G Gs E. split.
  - apply pick_dd_set_bdd_eq; assumption.
  - apply cube_lits_bdd_den; assumption.
Qed.

Theorem c13_bcdd_pick_cube_entries_thm : forall St choice s st e cb tr st', BcddOK s -> good_bcdd s e ->
  pick_cube_bcdd St choice s st e = Some (Some (cb, tr, st')) ->
  length cb = nlevels s /\
  forall l, l < nlevels s ->
    cube_lit s cb l = match trace_val tr l with Some v => v | None => None end.
Proof.
  intros St choice s st e cb tr st' B G E.
  destruct (pick_cube_bcdd_some St choice s st e cb tr st' B G E) as [_ X]. exact X.
Qed.

Theorem c13_bcdd_choice_once_per_level_thm : forall St choice s st e cb tr st', BcddOK s -> good_bcdd s e ->
  pick_cube_bcdd St choice s st e = Some (Some (cb, tr, st')) ->
  incr_from (rlevel s (eref e)) (map sp_level tr) /\
  (forall p, In p tr -> sp_level p < nlevels s) /\
  (forall p, In p tr -> call_ok view_bcdd good_bcdd den_bcdd s p).
Proof.
  intros St choice s st e cb tr st' B G E.
  destruct (pick_cube_bcdd_some St choice s st e cb tr st' B G E) as [R _].
  destruct (run_bcdd_levels St choice s st e tr st' B R G) as [A C].
  split; [exact A|]. split; [exact C|]. apply (run_bcdd_calls St choice s st e tr st' B R G).
Qed.

Theorem c13_bcdd_choice_respected_thm : forall St choice s st e cb tr st', BcddOK s -> good_bcdd s e ->
  pick_cube_bcdd St choice s st e = Some (Some (cb, tr, st')) ->
  replay St choice st tr = (asked_vals tr, st').
Proof.
  intros St choice s st e cb tr st' B G E.
  destruct (pick_cube_bcdd_some St choice s st e cb tr st' B G E) as [R _].
  apply (run_bcdd_answers St choice s st e tr st' R).
Qed.

Theorem c13_bcdd_pick_dd_set_thm : forall s e set L, BcddOK s -> good_bcdd s e -> good_bcdd s set ->
  cube_lits view_bcdd (S (nlevels s)) s set = Some L ->
  pick_cube_dd_set_bcdd s e set =
  drop_st (pick_cube_dd_bcdd unit (mask_choice (lit_pol L)) s tt e) /\
  forall a, den_bcdd s set a = forallb (fun p : nat * bool => Bool.eqb (a (fst p)) (snd p)) L.
Proof.
  intros s e set L B G Gs E. split.
  - apply pick_dd_set_bcdd_eq; assumption.
  - apply cube_lits_bcdd_den; assumption.
Qed.

Theorem c13_zbdd_pick_cube_entries_thm : forall St choice s st e cb tr st', ZbddOK s -> good_z s e ->
  pick_cube_z St choice s st e = Some (Some (cb, tr, st')) ->
  length cb = nlevels s /\
  forall l, l < nlevels s ->
    cube_lit s cb l = match trace_val tr l with Some v => v | None => Some false end.
Proof.
  intros St choice s st e cb tr st' B G E.
  destruct (pick_cube_z_some St choice s st e cb tr st' B G E) as [_ X]. exact X.
Qed.

Theorem c13_zbdd_choice_once_per_level_thm : forall St choice s st e cb tr st', ZbddOK s -> good_z s e ->
  pick_cube_z St choice s st e = Some (Some (cb, tr, st')) ->
  incr_from (rlevel s (eref e)) (map sp_level tr) /\
  (forall p, In p tr -> rlevel s (eref e) <= sp_level p < nlevels s) /\
  (forall p, In p tr -> call_ok_z s p).
Proof.
  intros St choice s st e cb tr st' B G E.
  destruct (pick_cube_z_some St choice s st e cb tr st' B G E) as [R _].
  destruct (pathz_levels s B e tr (runz_path s St choice _ _ _ _ R) G) as [A C].
  split; [exact A|]. split; [exact C|]. apply (runz_calls St choice s B st e tr st' R G).
Qed.

Theorem c13_zbdd_choice_respected_thm : forall St choice s st e cb tr st', ZbddOK s -> good_z s e ->
  pick_cube_z St choice s st e = Some (Some (cb, tr, st')) ->
  replay St choice st tr = (asked_vals tr, st').
Proof.
  intros St choice s st e cb tr st' B G E.
  destruct (pick_cube_z_some St choice s st e cb tr st' B G E) as [R _].
  apply (runz_answers St choice s st e tr st' R).
Qed.

Theorem c13_hypotheses_satisfiable_thm :
  (BddOK ex_sat_bdd /\ good_bdd ex_sat_bdd (xe (RN 4))) /\
  (BcddOK ex_sat_bcdd /\ good_bcdd ex_sat_bcdd (mkEdge (RN 4) true)) /\
  (ZbddOK ex_sat_zbdd /\ good_z ex_sat_zbdd (xe (RN 6))).
Proof.
  split; [split; [exact ex_bdd_ok | exact ex_bdd_good]|].
  split; [split; [exact ex_bcdd_ok | exact ex_bcdd_good]|].
  split; [exact ex_zbdd_ok | exact ex_zbdd_good].
Qed.
