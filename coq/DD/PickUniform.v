(** * The branch rule of [pick_cube_uniform]

    [uni_choice] answers "then" iff  p / q < count(then) / (count(then) +
    count(else))  for the next draw [p / q] of the random stream.  Counting
    lemma: among the [q] equally likely draws 0/q .. (q-1)/q, with [q] a
    multiple [m * (ct + ce)] of the total weight, exactly [m * ct] take the
    then-branch, i.e. the fraction ct / (ct + ce).  Together with
    [run_weight] / [runz_weight] (product of these fractions along a trace =
    2^(don't cares) / #models) this is the "without bias" clause for exact
    branch weights; the floating-point arithmetic and the generator of the
    real code are outside the model. *)

From Coq Require Import List NArith PArith Bool Arith Lia.
From OxiVerif Require Import DD.Table DD.TableProofs DD.ApplyProofs DD.Pick DD.PickProofs DD.PickBdd DD.PickBcdd.
Import ListNotations.

Arguments N.add : simpl never.
Arguments N.mul : simpl never.

Lemma uni_choice_spec : forall view count draws s k l e l' t x p q,
  view s e = CNode l' t x -> draws k = (p, q) ->
  uni_choice view count draws s k l e =
  ((p * (count s t + count s x) <? count s t * q)%N, S k).
Proof. intros view count draws s k l e l' t x p q Ev Ed. unfold uni_choice. rewrite Ev, Ed. reflexivity. Qed.

Lemma filter_ltb_seq : forall k q, length (filter (fun p => p <? k) (seq 0 q)) = Nat.min k q.
Proof.
  intros k. induction q as [|q IH]; [rewrite Nat.min_0_r; reflexivity|].
  rewrite seq_S, filter_app, app_length, IH. simpl.
  destruct (Nat.ltb_spec q k); simpl; lia.
Qed.

Lemma filter_ext_len : forall (f g : nat -> bool) l, (forall x, In x l -> f x = g x) ->
  length (filter f l) = length (filter g l).
Proof.
  intros f g. induction l as [|x l IH]; intros Hx; [reflexivity|]. simpl.
  rewrite (Hx x (or_introl eq_refl)). destruct (g x); simpl; rewrite IH; auto;
    intros y Hy; apply Hx; right; exact Hy.
Qed.

Theorem uni_branch_fraction : forall ct ce m : N, (0 < ct + ce)%N ->
  N.of_nat (length (filter (fun p => (N.of_nat p * (ct + ce) <? ct * (m * (ct + ce)))%N)
                           (seq 0 (N.to_nat (m * (ct + ce)))))) = (m * ct)%N.
Proof.
  intros ct ce m Hpos.
  rewrite (filter_ext_len _ (fun p => p <? N.to_nat (m * ct))).
  - rewrite filter_ltb_seq, Nat.min_l by nia. apply N2Nat.id.
  - intros p _.
    replace (ct * (m * (ct + ce)))%N with ((m * ct) * (ct + ce))%N by lia.
    destruct (N.ltb_spec (N.of_nat p * (ct + ce)) (m * ct * (ct + ce))) as [Hlt|Hge];
      destruct (Nat.ltb_spec p (N.to_nat (m * ct))) as [Hlt'|Hge']; try reflexivity; exfalso.
    + apply N.mul_lt_mono_pos_r in Hlt; [lia | exact Hpos].
    + apply N.mul_le_mono_pos_r in Hge; [lia | exact Hpos].
Qed.

(** ** The number of literals of a trace = the number of decided entries

    [run_weight] speaks of [length tr]; in the cube vector these are exactly
    the levels with a decided entry, so [nlevels - length tr] is the number of
    don't-care entries. *)

Lemma filter_one_more : forall (g : nat -> bool) a n, a < n -> g a = false ->
  length (filter (fun l => Nat.eqb a l || g l) (seq 0 n)) = S (length (filter g (seq 0 n))).
Proof.
  intros g a. induction n as [|n IH]; intros Ha Hg; [lia|].
  rewrite seq_S, !filter_app, !app_length. simpl.
  destruct (Nat.eq_dec a n) as [->|Hne].
  - rewrite Nat.eqb_refl, Hg. simpl.
    rewrite (filter_ext_len (fun l => Nat.eqb n l || g l) g); [lia|].
    intros x Hx. apply in_seq in Hx. destruct (Nat.eqb_spec n x); [lia | reflexivity].
  - rewrite IH by (assumption || lia). destruct (Nat.eqb_spec a n); [contradiction|]. simpl. lia.
Qed.

Lemma decided_count : forall n tr, NoDup (map sp_level tr) -> (forall p, In p tr -> sp_level p < n) ->
  length (filter (fun l => match trace_val tr l with Some _ => true | None => false end) (seq 0 n))
  = length tr.
Proof.
  intros n. induction tr as [|p r IH]; intros Hnd Hlv.
  - simpl. induction (seq 0 n) as [|x l IHl]; [reflexivity | exact IHl].
  - simpl in Hnd. inversion Hnd as [|? ? Hp Hr]; subst.
    rewrite (filter_ext_len _ (fun l => Nat.eqb (sp_level p) l ||
                                        match trace_val r l with Some _ => true | None => false end)).
    + rewrite filter_one_more.
      * simpl. f_equal. apply IH; [exact Hr | intros q Hq; apply Hlv; right; exact Hq].
      * apply Hlv. left. reflexivity.
      * rewrite (trace_val_none r _ Hp). reflexivity.
    + intros x _. simpl. destruct (Nat.eqb (sp_level p) x); reflexivity.
Qed.

(** BDD / BCDD vectors: the don't-care entries are the levels off the path *)
Theorem dont_care_count : forall s cb tr, NoDup (map sp_level tr) ->
  (forall p, In p tr -> sp_level p < nlevels s) ->
  (forall p, In p tr -> sp_val p <> None) ->
  (forall l, l < nlevels s ->
     cube_lit s cb l = match trace_val tr l with Some v => v | None => None end) ->
  length (filter (fun l => match cube_lit s cb l with None => true | Some _ => false end)
                 (seq 0 (nlevels s))) = nlevels s - length tr.
Proof.
  intros s cb tr Hnd Hlv Hsome Hc.
  pose proof (decided_count (nlevels s) tr Hnd Hlv) as Hd.
  assert (Hsplit : forall (f : nat -> bool) l,
            length (filter f l) + length (filter (fun x => negb (f x)) l) = length l).
  { intros f. induction l as [|x l IH]; [reflexivity|]. simpl. destruct (f x); simpl; lia. }
  specialize (Hsplit (fun l => match trace_val tr l with Some _ => true | None => false end) (seq 0 (nlevels s))).
  rewrite seq_length, Hd in Hsplit.
  rewrite (filter_ext_len _ (fun x => negb match trace_val tr x with Some _ => true | None => false end)); [lia|].
  intros l Hl. apply in_seq in Hl. rewrite (Hc l ltac:(lia)).
  destruct (trace_val tr l) as [v|] eqn:Et; [|reflexivity].
  destruct (trace_val_some tr l v Et) as [p [Hp [_ Ev]]].
  destruct v; [reflexivity|]. exfalso. apply (Hsome p Hp). exact Ev.
Qed.

Theorem pick_cube_bdd_dont_cares : forall St choice s st e cb tr st', BddOK s -> good_bdd s e ->
  pick_cube_bdd St choice s st e = Some (Some (cb, tr, st')) ->
  length (filter (fun l => match cube_lit s cb l with None => true | Some _ => false end)
                 (seq 0 (nlevels s))) = nlevels s - length tr.
Proof.
  intros St choice s st e cb tr st' B G E.
  destruct (pick_cube_bdd_some St choice s st e cb tr st' B G E) as [R [_ Wc]].
  destruct (run_bdd_levels St choice s st e tr st' B R G) as [A C].
  apply (dont_care_count s cb tr (incr_from_nodup _ _ A) C); [|exact Wc].
  intros p Hp. destruct (run_bdd_calls St choice s st e tr st' B R G p Hp) as [t [x [c [_ [Ev _]]]]].
  rewrite Ev. discriminate.
Qed.

Theorem pick_cube_bcdd_dont_cares : forall St choice s st e cb tr st', BcddOK s -> good_bcdd s e ->
  pick_cube_bcdd St choice s st e = Some (Some (cb, tr, st')) ->
  length (filter (fun l => match cube_lit s cb l with None => true | Some _ => false end)
                 (seq 0 (nlevels s))) = nlevels s - length tr.
Proof.
  intros St choice s st e cb tr st' B G E.
  destruct (pick_cube_bcdd_some St choice s st e cb tr st' B G E) as [R [_ Wc]].
  destruct (run_bcdd_levels St choice s st e tr st' B R G) as [A C].
  apply (dont_care_count s cb tr (incr_from_nodup _ _ A) C); [|exact Wc].
  intros p Hp. destruct (run_bcdd_calls St choice s st e tr st' B R G p Hp) as [t [x [c [_ [Ev _]]]]].
  rewrite Ev. discriminate.
Qed.
