(** * Cube picking on ZBDDs

    The ZBDD walks have their own text (DD/Pick.v: [walk_z], [pick_dd_z],
    [pick_dd_set_z]): a node with [hi == lo] is a don't care, [hi] is never
    Empty, a level that is skipped forces its variable to false.

    [ZbddOK]: well-formed ZBDD table with the terminals Empty (code 0) and Base
    (code 1).  [den_z s e] is [fun_zbdd s (eref e)]: the Boolean function over
    all levels denoted by the edge ([semz] from level 0); [Fz s L r] (from
    DD/SatCountProofs.v) is the same from level [L] on.

    - [PathZ]: a path through the diagram with the value chosen at every node;
      [pathz_sem]: every assignment that has the path's literals and is false
      on all other levels from [L] on satisfies [Fz s L];
    - [RunZ]: the specification of [walk_z]; [walk_z_run];
    - [pick_cube_z_*]: totality, nothing iff unsatisfiable, implicant, cube
      entries, calls of the choice function;
    - [pick_dd_z_*]: the diagram built by [pick_cube_dd] denotes exactly the
      cube of [pick_cube] with the same choices;
    - [pick_dd_set_z_*]: the result of [pick_cube_dd_set] is a cube that
      implies the function, and how the literal set decides;
    - [runz_weight]: probability of a trace = 2^(don't cares) / #models. *)

From Coq Require Import List NArith PArith Bool Arith Lia FMapPositive.
From OxiVerif Require Import DD.Table DD.TableProofs DD.Canon DD.CanonZbdd DD.Build DD.BuildProofs DD.Apply
  DD.ApplyProofs DD.SatCount DD.SatCountProofs DD.Pick DD.PickProofs DD.PickInsert DD.PickBdd.
Import ListNotations.

Arguments N.add : simpl never.
Arguments N.mul : simpl never.
Arguments N.pow : simpl never.

Record ZbddOK (s : snap) : Prop := mkZbddOK {
  zo_wf : WF s;
  zo_kind : s_kind s = KZbdd;
  zo_codes : forall t v, term_val s t = Some v -> v = 0%N \/ v = 1%N;
  zo_empty : exists t, term_val s t = Some 0%N;
  zo_base : exists t, term_val s t = Some 1%N
}.

Theorem zbdd_ok_b_spec : forall s, zbdd_ok_b s = true <-> ZbddOK s.
Proof.
  intros s. unfold zbdd_ok_b. rewrite !andb_true_iff, wf_b_spec, forallb_forall, !existsb_exists.
  split.
  - intros [[[[H Hk] Hc] [p0 [I0 E0]]] [p1 [I1 E1]]].
    apply N.eqb_eq in E0. apply N.eqb_eq in E1. destruct p0 as [t0 v0], p1 as [t1 v1]. simpl in *. subst.
    constructor; auto.
    + destruct (s_kind s); simpl in Hk; congruence.
    + intros t v E. apply assoc_N_In in E. specialize (Hc _ E). simpl in Hc.
      apply N.leb_le in Hc. lia.
    + exists t0. apply In_assoc_N; [apply (wf_term_ids s H) | exact I0].
    + exists t1. apply In_assoc_N; [apply (wf_term_ids s H) | exact I1].
  - intros B. pose proof (zo_wf s B) as H.
    destruct (zo_empty s B) as [t0 E0]. destruct (zo_base s B) as [t1 E1].
    split; [split; [split; [split|]|]|].
    + exact H.
    + rewrite (zo_kind s B). reflexivity.
    + intros [t v] Hin. simpl. apply N.leb_le.
      assert (E : term_val s t = Some v) by (apply In_assoc_N; [apply (wf_term_ids s H) | exact Hin]).
      destruct (zo_codes s B t v E); lia.
    + exists (t0, 0%N). split; [apply assoc_N_In; exact E0 | reflexivity].
    + exists (t1, 1%N). split; [apply assoc_N_In; exact E1 | reflexivity].
Qed.

Definition good_z (s : snap) (e : edge) : Prop := ref_ok s (eref e) /\ etag e = false.
Definition den_z (s : snap) (e : edge) : lasg -> bool := fun_zbdd s (eref e).

Notation isfz := (is_false view_plain).

Lemma zbddok_extends : forall s s', ZbddOK s -> extends s s' -> WF s' -> ZbddOK s'.
Proof.
  intros s s' B X W. constructor.
  - exact W.
  - rewrite (ext_kind _ _ X). apply (zo_kind s B).
  - intros t v. rewrite (ext_term_val _ _ t X). apply (zo_codes s B).
  - destruct (zo_empty s B) as [t E]. exists t. rewrite (ext_term_val _ _ t X). exact E.
  - destruct (zo_base s B) as [t E]. exists t. rewrite (ext_term_val _ _ t X). exact E.
Qed.

(** ** Semantics along the levels *)

Lemma forallb_ext_in : forall (A : Type) (f g : A -> bool) l,
  (forall x, In x l -> f x = g x) -> forallb f l = forallb g l.
Proof.
  intros A f g. induction l as [|x l IH]; intros Hx; [reflexivity|]. simpl.
  rewrite (Hx x (or_introl eq_refl)), IH; [reflexivity|]. intros y Hy. apply Hx. right. exact Hy.
Qed.

Lemma Fz_ext : forall s L r a a', (forall l, L <= l -> a l = a' l) -> Fz s L r a = Fz s L r a'.
Proof.
  intros s L r a a' Ha. unfold Fz. f_equal. apply semz_ext. intros l Hl. unfold choice_of.
  rewrite (Ha l Hl). reflexivity.
Qed.

Lemma all_lo_seq : forall a k L, all_lo (choice_of a) L k = forallb (fun l => negb (a l)) (seq L k).
Proof.
  intros a. induction k as [|k IH]; intros L; [reflexivity|].
  rewrite all_lo_S. simpl. rewrite IH. f_equal. unfold choice_of. destruct (a L); reflexivity.
Qed.

Lemma Fz_term : forall s L t v a, term_val s t = Some v ->
  Fz s L (RT t) a = N.eqb v 1 && all_lo (choice_of a) L (nlevels s - L).
Proof. intros s L t v a E. unfold Fz. rewrite semz_T, E. reflexivity. Qed.

Lemma Fz_skip : forall s r a d L, ref_ok s r -> L + d = rlevel s r ->
  Fz s L r a = all_lo (choice_of a) L d && Fz s (rlevel s r) r a.
Proof.
  intros s r a. induction d as [|d IH]; intros L Hok Hd.
  - simpl. replace L with (rlevel s r) by lia. reflexivity.
  - rewrite (Fz_lo s L r a Hok ltac:(lia)), (IH (S L) Hok ltac:(lia)), all_lo_S.
    assert (Hc : Nat.eqb (choice_of a L) 1 = negb (a L)) by (unfold choice_of; destruct (a L); reflexivity).
    rewrite Hc, andb_assoc. reflexivity.
Qed.

Section Z.
Variable s : snap.
Hypothesis B : ZbddOK s.

Let H : WF s := zo_wf s B.
Let Hk : s_kind s = KZbdd := zo_kind s B.
Let n := nlevels s.

Lemma z_not_bcdd : s_kind s <> KBcdd.
Proof. rewrite Hk. discriminate. Qed.

Lemma z_view_err : forall e, good_z s e -> view_plain s e <> CErr.
Proof.
  intros e [Hok _]. unfold view_plain. destruct (eref e) as [t|id].
  - destruct Hok as [v Ev]. rewrite Ev. destruct (zo_codes s B t v Ev) as [->| ->]; discriminate.
  - destruct Hok as [nd E]. rewrite E.
    destruct (two_children s id nd H (zbdd_binary s Hk) E) as [e0 [e1 Hc]]. rewrite Hc. discriminate.
Qed.

Lemma z_view_term : forall e b L a, view_plain s e = CTerm b ->
  rlevel s (eref e) = n /\ Fz s L (eref e) a = b && all_lo (choice_of a) L (n - L).
Proof.
  intros e b L a Ev. destruct (view_plain_term s e b Ev) as [t [Er Et]]. rewrite Er.
  split; [reflexivity|]. rewrite (Fz_term s L t _ a Et). destruct b; reflexivity.
Qed.

(** an inner node: structure, and the Shannon expansion from its own level *)
Lemma z_view_node : forall e l hi lo, good_z s e -> view_plain s e = CNode l hi lo ->
  l = rlevel s (eref e) /\ l < n /\ good_z s hi /\ good_z s lo /\
  l < rlevel s (eref hi) /\ l < rlevel s (eref lo) /\ isfz s hi = false /\
  forall a, Fz s l (eref e) a = Fz s (S l) (eref (if a l then hi else lo)) a.
Proof.
  intros e l hi lo G Ev.
  destruct (view_plain_node s e l hi lo Ev) as [id [nd [Er [E [Hc Hl]]]]].
  rewrite (wf_stored s H id nd E) in Hl. subst l.
  assert (Ct : ref_ok s (eref hi) /\ nlevel nd < rlevel s (eref hi))
    by (apply (wf_child s H id nd hi E); rewrite Hc; left; reflexivity).
  assert (Cx : ref_ok s (eref lo) /\ nlevel nd < rlevel s (eref lo))
    by (apply (wf_child s H id nd lo E); rewrite Hc; right; left; reflexivity).
  assert (Tt : etag hi = false) by (apply (wf_tags s H z_not_bcdd id nd hi E); rewrite Hc; left; reflexivity).
  assert (Tx : etag lo = false) by (apply (wf_tags s H z_not_bcdd id nd lo E); rewrite Hc; right; left; reflexivity).
  rewrite Er.
  split; [rewrite (rlevel_node s id nd E); reflexivity|].
  split; [apply (wf_level s H id nd E)|].
  split; [split; [apply Ct | exact Tt]|]. split; [split; [apply Cx | exact Tx]|].
  split; [apply Ct|]. split; [apply Cx|]. split.
  - destruct (reduced_zbdd s Hk _ (wf_reduced s H id nd E)) as [h [Hh Hne]].
    rewrite Hc in Hh. simpl in Hh. inversion Hh; subst h.
    unfold is_false. destruct (view_plain s hi) as [|[|]|] eqn:Vh; try reflexivity.
    destruct (view_plain_term s hi false Vh) as [t [Et Ev0]]. exfalso. apply (Hne t Et). exact Ev0.
  - intros a.
    rewrite (Fz_ext s (nlevel nd) (RN id) a (updb a (nlevel nd) (a (nlevel nd)))).
    + apply (Fz_child s H id nd hi lo a (a (nlevel nd)) E Hc).
    + intros l _. unfold updb. destruct (Nat.eqb_spec l (nlevel nd)); congruence.
Qed.

(** ** Paths and their cubes *)

(** the literals of [tr] hold, every other level from [L] on is false *)
Definition zsatb (a : lasg) (L : nat) (tr : list step) : bool :=
  forallb (fun l => match trace_val tr l with
                    | Some (Some c) => Bool.eqb (a l) c
                    | Some None => true
                    | None => negb (a l)
                    end) (seq L (n - L)).

Lemma zsatb_nil : forall a L, zsatb a L [] = all_lo (choice_of a) L (n - L).
Proof. intros a L. unfold zsatb. rewrite all_lo_seq. reflexivity. Qed.

Lemma zsatb_cons : forall a L l e v k tr, L <= l -> l < n -> (forall p, In p tr -> l < sp_level p) ->
  zsatb a L (mkStep l e v k :: tr) =
  all_lo (choice_of a) L (l - L) && match v with Some c => Bool.eqb (a l) c | None => true end
  && zsatb a (S l) tr.
Proof.
  intros a L l e v k tr HL Hl Hgt. unfold zsatb.
  replace (n - L) with ((l - L) + S (n - S l)) by lia.
  rewrite seq_app, forallb_app. replace (L + (l - L)) with l by lia.
  cbn [seq forallb]. rewrite all_lo_seq, andb_assoc. f_equal; [f_equal|].
  - apply forallb_ext_in. intros l0 Hin. apply in_seq in Hin. cbn [trace_val sp_level sp_val].
    destruct (Nat.eqb_spec l l0); [lia|].
    rewrite trace_val_none; [reflexivity|].
    intros Hi. apply in_map_iff in Hi. destruct Hi as [p [Hp1 Hp2]]. specialize (Hgt p Hp2). lia.
  - cbn [trace_val sp_level sp_val]. rewrite Nat.eqb_refl. destruct v as [c|]; reflexivity.
  - apply forallb_ext_in. intros l0 Hin. apply in_seq in Hin. cbn [trace_val sp_level sp_val].
    destruct (Nat.eqb_spec l l0); [lia | reflexivity].
Qed.

Inductive PathZ : edge -> list step -> Prop :=
| PZ_end : forall e, view_plain s e = CTerm true -> PathZ e []
| PZ_step : forall e l hi lo v asked tr,
    view_plain s e = CNode l hi lo ->
    (v = None -> hi = lo) ->
    PathZ (match v with Some false => lo | _ => hi end) tr ->
    PathZ e (mkStep l e v asked :: tr).

Lemma pathz_levels : forall e tr, PathZ e tr -> good_z s e ->
  incr_from (rlevel s (eref e)) (map sp_level tr) /\ forall p, In p tr -> rlevel s (eref e) <= sp_level p < n.
Proof.
  intros e tr P. induction P as [e Ev | e l hi lo v asked tr Ev Hv P IH]; intros G.
  - split; [exact I | intros p []].
  - destruct (z_view_node e l hi lo G Ev) as [El [Ll [Gh [Gl [Lh [Llo _]]]]]].
    set (nx := match v with Some false => lo | _ => hi end) in *.
    assert (Gn : good_z s nx) by (unfold nx; destruct v as [[|]|]; assumption).
    assert (Ln : l < rlevel s (eref nx)) by (unfold nx; destruct v as [[|]|]; assumption).
    destruct (IH Gn) as [A C]. split.
    + simpl. split; [lia|]. eapply incr_from_weaken; [exact A | lia].
    + intros p [<-|Hp]; [simpl; lia|]. specialize (C p Hp). lia.
Qed.

(** every assignment with the path's literals that is false on the other
    levels from [L] on satisfies the function from level [L] *)
Lemma pathz_sem : forall e tr, PathZ e tr -> good_z s e ->
  forall L a, L <= rlevel s (eref e) -> zsatb a L tr = true -> Fz s L (eref e) a = true.
Proof.
  intros e tr P. induction P as [e Ev | e l hi lo v asked tr Ev Hv P IH]; intros G L a HL Hs.
  - destruct (z_view_term e true L a Ev) as [_ ->]. rewrite zsatb_nil in Hs. exact Hs.
  - destruct (z_view_node e l hi lo G Ev) as [El [Ll [Gh [Gl [Lh [Llo [_ Hd]]]]]]].
    set (nx := match v with Some false => lo | _ => hi end) in *.
    assert (Gn : good_z s nx) by (unfold nx; destruct v as [[|]|]; assumption).
    assert (Ln : l < rlevel s (eref nx)) by (unfold nx; destruct v as [[|]|]; assumption).
    destruct (pathz_levels nx tr P Gn) as [_ C].
    rewrite zsatb_cons in Hs; [|lia | exact Ll | intros p Hp; specialize (C p Hp); lia].
    apply andb_true_iff in Hs. destruct Hs as [Hs Hs3]. apply andb_true_iff in Hs. destruct Hs as [Hs1 Hs2].
    rewrite (Fz_skip s (eref e) a (l - L) L (proj1 G) ltac:(lia)), Hs1, <- El, Hd. simpl.
    replace (if a l then hi else lo) with nx.
    + apply IH; [exact Gn | lia | exact Hs3].
    + unfold nx. destruct v as [[|]|].
      * apply eqb_prop in Hs2. rewrite Hs2. reflexivity.
      * apply eqb_prop in Hs2. rewrite Hs2. reflexivity.
      * rewrite (Hv eq_refl). destruct (a l); reflexivity.
Qed.

(** the assignment that follows a trace *)
Definition follow (tr : list step) : lasg :=
  fun l => match trace_val tr l with Some (Some c) => c | _ => false end.

Lemma zsatb_follow : forall L tr, zsatb (follow tr) L tr = true.
Proof.
  intros L tr. unfold zsatb. apply forallb_forall. intros l _. unfold follow.
  destruct (trace_val tr l) as [[c|]|]; try reflexivity. apply eqb_reflx.
Qed.

Lemma pathz_sat : forall e tr, PathZ e tr -> good_z s e -> exists a, den_z s e a = true.
Proof.
  intros e tr P G. exists (follow tr). unfold den_z.
  change (fun_zbdd s (eref e) (follow tr)) with (Fz s 0 (eref e) (follow tr)).
  apply (pathz_sem e tr P G 0 (follow tr) ltac:(lia)). apply zsatb_follow.
Qed.

Lemma isfz_true : forall e, isfz s e = true -> forall a, den_z s e a = false.
Proof.
  intros e. unfold is_false. destruct (view_plain s e) as [|[|]|] eqn:Ev; try discriminate.
  intros _ a. unfold den_z. change (fun_zbdd s (eref e) a) with (Fz s 0 (eref e) a).
  destruct (z_view_term e false 0 a Ev) as [_ ->]. reflexivity.
Qed.

(** ** The walk *)

Section Choice.
Variable St : Type.
Variable choice : St -> nat -> edge -> bool * St.

Inductive RunZ : St -> edge -> list step -> St -> Prop :=
| RZ_end : forall st e, view_plain s e = CTerm true -> RunZ st e [] st
| RZ_dc : forall st e l hi lo tr st',
    view_plain s e = CNode l hi lo -> hi = lo ->
    RunZ st hi tr st' -> RunZ st e (mkStep l e None false :: tr) st'
| RZ_forced : forall st e l hi lo tr st',
    view_plain s e = CNode l hi lo -> hi <> lo -> isfz s lo = true ->
    RunZ st hi tr st' -> RunZ st e (mkStep l e (Some true) false :: tr) st'
| RZ_asked : forall st e l hi lo (c : bool) st1 tr st',
    view_plain s e = CNode l hi lo -> hi <> lo -> isfz s lo = false ->
    choice st l e = (c, st1) ->
    RunZ st1 (if c then hi else lo) tr st' -> RunZ st e (mkStep l e (Some c) true :: tr) st'.

Lemma runz_path : forall st e tr st', RunZ st e tr st' -> PathZ e tr.
Proof.
  intros st e tr st' R. induction R.
  - apply PZ_end. assumption.
  - apply (PZ_step e l hi lo None false tr); [assumption | intros _; assumption | assumption].
  - apply (PZ_step e l hi lo (Some true) false tr); [assumption | discriminate | assumption].
  - apply (PZ_step e l hi lo (Some c) true tr); [assumption | discriminate | destruct c; assumption].
Qed.

Lemma edge_eqb_false : forall a b : edge, edge_eqb a b = false -> a <> b.
Proof. intros a b E Heq. apply edge_eqb_eq in Heq. congruence. Qed.

Lemma walk_z_run : forall fuel st e, good_z s e -> isfz s e = false ->
  n - rlevel s (eref e) < fuel ->
  exists tr st', walk_z St choice fuel s st e = Some (tr, st') /\ RunZ st e tr st'.
Proof.
  induction fuel as [|f IH]; intros st e G Hnf Hf; [lia|].
  simpl. unfold is_false in Hnf.
  destruct (view_plain s e) as [|b|l hi lo] eqn:Ev.
  - exfalso. apply (z_view_err e G Ev).
  - destruct b; [|discriminate]. exists [], st. split; [reflexivity | apply RZ_end; exact Ev].
  - destruct (z_view_node e l hi lo G Ev) as [El [Ll [Gh [Gl [Lh [Llo [Fh _]]]]]]].
    pose proof (rlevel_le s H (eref hi)) as Bh. pose proof (rlevel_le s H (eref lo)) as Bl. fold n in Bh, Bl.
    destruct (edge_eqb hi lo) eqn:Eq.
    + apply edge_eqb_eq in Eq.
      destruct (IH st hi Gh Fh ltac:(lia)) as [tr [st' [W R]]]. rewrite W.
      exists (mkStep l e None false :: tr), st'. split; [reflexivity|].
      eapply RZ_dc; eauto.
    + apply edge_eqb_false in Eq. destruct (isfz s lo) eqn:Fl.
      * destruct (IH st hi Gh Fh ltac:(lia)) as [tr [st' [W R]]]. rewrite W.
        exists (mkStep l e (Some true) false :: tr), st'. split; [reflexivity|].
        eapply RZ_forced; eauto.
      * destruct (choice st l e) as [c st1] eqn:Ec.
        assert (Gc : good_z s (if c then hi else lo)) by (destruct c; assumption).
        assert (Fc : isfz s (if c then hi else lo) = false) by (destruct c; assumption).
        destruct (IH st1 (if c then hi else lo) Gc Fc ltac:(destruct c; lia)) as [tr [st' [W R]]].
        rewrite W. exists (mkStep l e (Some c) true :: tr), st'. split; [reflexivity|].
        eapply RZ_asked; eauto.
Qed.

(** the choice function is called at most once per level (levels increase),
    with an edge to an inner node of that level whose children differ and are
    both satisfiable; where it is not called the node is a don't care
    ([hi = lo]) or the else child is Empty *)
Definition call_ok_z (p : step) : Prop :=
  exists hi lo, view_plain s (sp_edge p) = CNode (sp_level p) hi lo /\ good_z s (sp_edge p) /\
    if sp_asked p then
      hi <> lo /\ (exists c, sp_val p = Some c) /\
      (exists a, den_z s hi a = true) /\ (exists a, den_z s lo a = true)
    else (hi = lo /\ sp_val p = None) \/
         (hi <> lo /\ sp_val p = Some true /\ forall a, den_z s lo a = false).


End Choice.

Lemma nonfalse_sat : forall e, good_z s e -> isfz s e = false -> exists a, den_z s e a = true.
Proof.
  intros e G F. pose proof (rlevel_le s H (eref e)) as Hle. fold n in Hle.
  destruct (walk_z_run unit (fun st _ _ => (true, st)) (S n) tt e G F ltac:(lia)) as [tr [st' [_ R]]].
  apply (pathz_sat e tr (runz_path _ _ _ _ _ _ R) G).
Qed.

Lemma isfz_iff : forall e, good_z s e -> (isfz s e = true <-> forall a, den_z s e a = false).
Proof.
  intros e G. split; [apply isfz_true|].
  intros Hf. destruct (isfz s e) eqn:E; [reflexivity|].
  destruct (nonfalse_sat e G E) as [a Ha]. rewrite Hf in Ha. discriminate.
Qed.

End Z.

(** ** [pick_cube] *)

Section PickCubeZ.
Variable St : Type.
Variable choice : St -> nat -> edge -> bool * St.

Lemma runz_calls : forall s, ZbddOK s -> forall st e tr st', RunZ s St choice st e tr st' -> good_z s e ->
  forall p, In p tr -> call_ok_z s p.
Proof.
  intros s B st e tr st' R.
  induction R as [st e Ev | st e l hi lo tr st' Ev Heq R IH | st e l hi lo tr st' Ev Hne Fl R IH
                 | st e l hi lo c st1 tr st' Ev Hne Fl Ec R IH]; intros G p Hp.
  - destruct Hp.
  - destruct (z_view_node s B e l hi lo G Ev) as [El [Ll [Gh [Gl [Lh [Llo [Fh _]]]]]]].
    destruct Hp as [<-|Hp]; [|apply IH; assumption].
    exists hi, lo. simpl. split; [exact Ev|]. split; [exact G|]. left. auto.
  - destruct (z_view_node s B e l hi lo G Ev) as [El [Ll [Gh [Gl [Lh [Llo [Fh _]]]]]]].
    destruct Hp as [<-|Hp]; [|apply IH; assumption].
    exists hi, lo. simpl. split; [exact Ev|]. split; [exact G|]. right.
    split; [exact Hne|]. split; [reflexivity|]. apply (isfz_true s lo Fl).
  - destruct (z_view_node s B e l hi lo G Ev) as [El [Ll [Gh [Gl [Lh [Llo [Fh _]]]]]]].
    destruct Hp as [<-|Hp]; [|apply IH; [destruct c; assumption | exact Hp]].
    exists hi, lo. simpl. split; [exact Ev|]. split; [exact G|].
    split; [exact Hne|]. split; [eauto|]. split; apply (nonfalse_sat s B); assumption.
Qed.

Lemma runz_answers : forall s st e tr st', RunZ s St choice st e tr st' ->
  replay St choice st tr = (asked_vals tr, st').
Proof.
  intros s st e tr st' R.
  induction R as [st e Ev | st e l hi lo tr st' Ev Heq R IH | st e l hi lo tr st' Ev Hne Fl R IH
                 | st e l hi lo c st1 tr st' Ev Hne Fl Ec R IH].
  - reflexivity.
  - simpl. exact IH.
  - simpl. exact IH.
  - simpl. rewrite Ec, IH. reflexivity.
Qed.

Theorem pick_cube_z_total : forall s st e, ZbddOK s -> good_z s e ->
  exists r, pick_cube_z St choice s st e = Some r.
Proof.
  intros s st e B G. unfold pick_cube_z.
  destruct (view_plain s e) as [|[|]|l t x] eqn:Ev; eauto.
  - exfalso. apply (z_view_err s B e G Ev).
  - assert (Hnf : isfz s e = false) by (unfold is_false; rewrite Ev; reflexivity).
    pose proof (rlevel_le s (zo_wf s B) (eref e)).
    destruct (walk_z_run s B St choice (S (nlevels s)) st e G Hnf ltac:(lia)) as [tr [st' [W R]]]. rewrite W.
    destruct (pathz_levels s B e tr (runz_path s St choice _ _ _ _ R) G) as [A C].
    destruct (write_all_spec s (zo_wf s B) tr (repeat (Some false) (nlevels s)) (repeat_length _ _)
                (fun p Hp => proj2 (C p Hp)) (incr_from_nodup _ _ A)) as [cb [Ew _]].
    rewrite Ew. eauto.
Qed.

Theorem pick_cube_z_none_iff : forall s st e, ZbddOK s -> good_z s e ->
  (pick_cube_z St choice s st e = Some None <-> forall a, den_z s e a = false).
Proof.
  intros s st e B G. rewrite <- (isfz_iff s B e G). unfold pick_cube_z, is_false.
  destruct (view_plain s e) as [|[|]|l t x] eqn:Ev.
  - split; discriminate.
  - split; discriminate.
  - split; reflexivity.
  - split; [|discriminate].
    destruct (walk_z St choice (S (nlevels s)) s st e) as [[tr st']|]; [|discriminate].
    destruct (write_all s tr (repeat (Some false) (nlevels s))); discriminate.
Qed.

(** the cube: one entry per variable; the value written at the visit of the
    level, false for every level that is not on the path *)
Theorem pick_cube_z_some : forall s st e cb tr st', ZbddOK s -> good_z s e ->
  pick_cube_z St choice s st e = Some (Some (cb, tr, st')) ->
  RunZ s St choice st e tr st' /\ length cb = nlevels s /\
  forall l, l < nlevels s ->
    cube_lit s cb l = match trace_val tr l with Some v => v | None => Some false end.
Proof.
  intros s st e cb tr st' B G. unfold pick_cube_z.
  destruct (view_plain s e) as [|[|]|l t x] eqn:Ev; try discriminate.
  - intros E. inversion E; subst. split; [apply RZ_end; exact Ev|].
    split; [apply repeat_length|]. intros l Hl. simpl. apply cube_lit_repeat; [apply (zo_wf s B) | exact Hl].
  - assert (Hnf : isfz s e = false) by (unfold is_false; rewrite Ev; reflexivity).
    pose proof (rlevel_le s (zo_wf s B) (eref e)).
    destruct (walk_z_run s B St choice (S (nlevels s)) st e G Hnf ltac:(lia)) as [tr0 [st0 [W R]]]. rewrite W.
    destruct (pathz_levels s B e tr0 (runz_path s St choice _ _ _ _ R) G) as [A C].
    destruct (write_all_spec s (zo_wf s B) tr0 (repeat (Some false) (nlevels s)) (repeat_length _ _)
                (fun p Hp => proj2 (C p Hp)) (incr_from_nodup _ _ A)) as [cb0 [Ew [Lc Wc]]].
    rewrite Ew. intros E. inversion E; subst. split; [exact R|]. split; [exact Lc|].
    intros l0 Hl. rewrite (Wc l0 Hl).
    destruct (trace_val tr l0); [reflexivity|]. apply cube_lit_repeat; [apply (zo_wf s B) | exact Hl].
Qed.

Lemma agrees_zsatb : forall s a cb tr,
  (forall l, l < nlevels s ->
     cube_lit s cb l = match trace_val tr l with Some v => v | None => Some false end) ->
  (agrees s a cb <-> zsatb s a 0 tr = true).
Proof.
  intros s a cb tr Hc. unfold agrees, zsatb. rewrite forallb_forall. split.
  - intros Ha l Hin. apply in_seq in Hin. assert (Hl : l < nlevels s) by lia.
    specialize (Hc l Hl). specialize (Ha l).
    destruct (trace_val tr l) as [[c|]|].
    + apply eqb_true_iff. apply Ha; assumption.
    + reflexivity.
    + rewrite (Ha false Hl Hc). reflexivity.
  - intros Hs l b Hl E. specialize (Hs l ltac:(apply in_seq; lia)). rewrite (Hc l Hl) in E.
    destruct (trace_val tr l) as [[c|]|].
    + apply eqb_prop in Hs. congruence.
    + discriminate.
    + inversion E; subst. destruct (a l); [discriminate | reflexivity].
Qed.

Theorem pick_cube_z_implicant : forall s st e cb tr st', ZbddOK s -> good_z s e ->
  pick_cube_z St choice s st e = Some (Some (cb, tr, st')) ->
  forall a, agrees s a cb -> den_z s e a = true.
Proof.
  intros s st e cb tr st' B G E a Ha.
  destruct (pick_cube_z_some s st e cb tr st' B G E) as [R [Lc Wc]].
  unfold den_z. change (fun_zbdd s (eref e) a) with (Fz s 0 (eref e) a).
  apply (pathz_sem s B e tr (runz_path s St choice _ _ _ _ R) G 0 a ltac:(lia)).
  apply (agrees_zsatb s a cb tr Wc). exact Ha.
Qed.

End PickCubeZ.

(** ** Building the cube diagram *)

Lemma zsatb_skip : forall s a L l tr, L <= l -> l < nlevels s -> (forall p, In p tr -> l < sp_level p) ->
  zsatb s a L tr = all_lo (choice_of a) L (l - L) && negb (a l) && zsatb s a (S l) tr.
Proof.
  intros s a L l tr HL Hl Hgt. unfold zsatb.
  replace (nlevels s - L) with ((l - L) + S (nlevels s - S l)) by lia.
  rewrite seq_app, forallb_app. replace (L + (l - L)) with l by lia.
  cbn [seq forallb]. rewrite all_lo_seq, andb_assoc.
  assert (Hn : forall l0, l0 <= l -> trace_val tr l0 = None).
  { intros l0 Hl0. apply trace_val_none. intros Hi. apply in_map_iff in Hi.
    destruct Hi as [p [Hp1 Hp2]]. specialize (Hgt p Hp2). lia. }
  f_equal. f_equal.
  - apply forallb_ext_in. intros l0 Hin. apply in_seq in Hin. rewrite Hn by lia. reflexivity.
  - rewrite Hn by lia. reflexivity.
Qed.

Lemma term_of_z : forall s, ZbddOK s -> exists t, term_of s false = Some t /\ term_val s t = Some 0%N.
Proof.
  intros s B. destruct (zo_empty s B) as [t0 E0].
  destruct (rassoc_N_total (s_terms s) 0%N t0 (assoc_N_In _ _ _ E0)) as [t Et].
  exists t. split; [exact Et|]. apply (term_of_spec s false t (zo_wf s B) Et).
Qed.

Lemma view_plain_E : forall s id nd hi lo, find_node s id = Some nd -> nchildren nd = [hi; lo] ->
  view_plain s (E (RN id)) = CNode (nstored nd) hi lo.
Proof. intros s id nd hi lo E Hc. unfold view_plain. simpl. rewrite E, Hc. reflexivity. Qed.

Lemma fun_z_extends : forall s s' r L a, WF s -> extends s s' -> ref_ok s r -> Fz s' L r a = Fz s L r a.
Proof.
  intros s s' r L a H X Hok. unfold Fz.
  rewrite (ext_nlevels _ _ X), (semz_extends s s' H X _ _ _ _ Hok). reflexivity.
Qed.

Lemma isfz_term0 : forall s e, isfz s e = false -> forall t, eref e = RT t -> term_val s t <> Some 0%N.
Proof.
  intros s e F t Er Ev. unfold is_false, view_plain in F. rewrite Er, Ev in F. discriminate.
Qed.

(** [add_lit_z]: the node [level, [sub, sub]] (don't care) or [level, [sub, Empty]] *)
Lemma add_lit_z_ok : forall s sub l dnc, ZbddOK s -> good_z s sub -> isfz s sub = false ->
  l < nlevels s -> l < rlevel s (eref sub) ->
  exists s' r, add_lit_z s sub l dnc = Some (s', r) /\ ZbddOK s' /\ extends s s' /\ good_z s' r /\
    rlevel s' (eref r) = l /\ isfz s' r = false /\
    forall a, Fz s' l (eref r) a = (if dnc then true else a l) && Fz s (S l) (eref sub) a.
Proof.
  intros s sub l dnc B [Gs Ts] Fs Hl Hls. pose proof (zo_wf s B) as H. pose proof (zo_kind s B) as Hk.
  destruct (term_of_z s B) as [t0 [Et0 Vt0]].
  set (lo' := if dnc then sub else E (RT t0)).
  assert (Ea : add_lit_z s sub l dnc = Some (get_or_insert s l [sub; lo'])).
  { unfold add_lit_z, lo'. destruct dnc; [reflexivity | rewrite Et0; reflexivity]. }
  rewrite Ea. destruct (get_or_insert s l [sub; lo']) as [s' r] eqn:Eg.
  assert (Glo : ref_ok s (eref lo') /\ l < rlevel s (eref lo') /\ etag lo' = false).
  { unfold lo'. destruct dnc; [auto|]. simpl. split; [exists 0%N; exact Vt0 | split; [exact Hl | reflexivity]]. }
  assert (Hlen : length [sub; lo'] = arity (s_kind s)) by (rewrite Hk; reflexivity).
  assert (Hce : forall e, In e [sub; lo'] -> ref_ok s (eref e) /\ l < rlevel s (eref e)).
  { intros e [<-|[<-|[]]]; [auto | split; apply Glo]. }
  assert (Hred : reduced s [sub; lo']).
  { unfold reduced. rewrite Hk. exists sub. split; [reflexivity|]. apply (isfz_term0 s sub Fs). }
  assert (Htags : s_kind s <> KBcdd -> forall e, In e [sub; lo'] -> etag e = false).
  { intros _ e [<-|[<-|[]]]; [exact Ts | apply Glo]. }
  destruct (goi_any s l [sub; lo'] H Hl Hlen Hce Hred Htags s' r Eg) as [W' [X [id [nd [Er [E' [El Ec]]]]]]].
  pose proof (zbddok_extends s s' B X W') as B'.
  exists s', r. split; [reflexivity|]. split; [exact B'|]. split; [exact X|]. subst r.
  assert (Gr : good_z s' (E (RN id))) by (split; [exists nd; exact E' | reflexivity]).
  pose proof (view_plain_E s' id nd sub lo' E' Ec) as Ev. rewrite (wf_stored s' W' id nd E'), El in Ev.
  split; [exact Gr|]. split; [simpl; rewrite E'; exact El|].
  split; [unfold is_false; rewrite Ev; reflexivity|].
  intros a. destruct (z_view_node s' B' (E (RN id)) l sub lo' Gr Ev) as [_ [_ [_ [_ [_ [_ [_ Hd]]]]]]].
  rewrite Hd. unfold lo'. destruct dnc.
  - destruct (a l); simpl; apply (fun_z_extends s s' (eref sub) (S l) a H X Gs).
  - destruct (a l); simpl.
    + apply (fun_z_extends s s' (eref sub) (S l) a H X Gs).
    + rewrite (Fz_term s' (S l) t0 0%N a); [reflexivity|]. rewrite (ext_term_val _ _ t0 X). exact Vt0.
Qed.

(** what is known about a partial result: it is a non-empty edge of the
    extended table whose function from every level [L <= lev] is the cube of [tr] *)
Definition dd_ok (s : snap) (lev : nat) (s' : snap) (r : edge) (tr : list step) : Prop :=
  ZbddOK s' /\ extends s s' /\ good_z s' r /\ isfz s' r = false /\ lev <= rlevel s' (eref r) /\
  (forall p, In p tr -> lev <= sp_level p < nlevels s) /\
  forall L a, L <= lev -> Fz s' L (eref r) a = zsatb s a L tr.

Lemma dd_ok_term : forall s e, ZbddOK s -> good_z s e -> view_plain s e = CTerm true ->
  dd_ok s (rlevel s (eref e)) s e [].
Proof.
  intros s e B G Ev. split; [exact B|]. split; [apply extends_refl|]. split; [exact G|].
  split; [unfold is_false; rewrite Ev; reflexivity|]. split; [lia|]. split; [intros p []|].
  intros L a _. destruct (z_view_term s e true L a Ev) as [_ ->]. rewrite zsatb_nil. reflexivity.
Qed.

Lemma build_step : forall s e l hi lo (c dnc asked : bool) s1 sub tr, ZbddOK s -> good_z s e ->
  view_plain s e = CNode l hi lo -> (dnc = true -> hi = lo /\ c = true) ->
  dd_ok s (rlevel s (eref (if c then hi else lo))) s1 sub tr ->
  exists s2 r, (if c then add_lit_z s1 sub l dnc else Some (s1, sub)) = Some (s2, r) /\
    dd_ok s l s2 r (mkStep l e (if dnc then None else Some c) asked :: tr).
Proof.
  intros s e l hi lo c dnc asked s1 sub tr B G Ev Hdnc [B1 [X1 [G1 [F1 [L1 [T1 D1]]]]]].
  destruct (z_view_node s B e l hi lo G Ev) as [El [Ll [Gh [Gl [Lh [Llo _]]]]]].
  assert (Ln : l < rlevel s (eref (if c then hi else lo))) by (destruct c; assumption).
  set (lev' := rlevel s (eref (if c then hi else lo))) in *.
  assert (Tgt : forall p, In p tr -> l < sp_level p) by (intros p Hp; specialize (T1 p Hp); lia).
  destruct c.
  - destruct (add_lit_z_ok s1 sub l dnc B1 G1 F1 ltac:(rewrite (ext_nlevels _ _ X1); exact Ll) ltac:(lia))
      as [s2 [r [Ea [B2 [X2 [G2 [L2 [F2 D2]]]]]]]].
    exists s2, r. split; [exact Ea|].
    split; [exact B2|]. split; [eapply extends_trans; eauto|]. split; [exact G2|]. split; [exact F2|].
    split; [lia|]. split.
    + intros p [<-|Hp]; [simpl; lia | specialize (T1 p Hp); lia].
    + intros L a HL.
      rewrite (Fz_skip s2 (eref r) a (l - L) L (proj1 G2) ltac:(lia)), L2, D2.
      rewrite (D1 (S l) a ltac:(lia)).
      rewrite zsatb_cons by (assumption || lia). rewrite <- andb_assoc. f_equal. f_equal.
      destruct dnc; [reflexivity|]. destruct (a l); reflexivity.
  - assert (dnc = false) by (destruct dnc; [destruct (Hdnc eq_refl); discriminate | reflexivity]). subst dnc.
    exists s1, sub. split; [reflexivity|].
    split; [exact B1|]. split; [exact X1|]. split; [exact G1|]. split; [exact F1|].
    split; [lia|]. split.
    + intros p [<-|Hp]; [simpl; lia | specialize (T1 p Hp); lia].
    + intros L a HL. rewrite (D1 L a ltac:(lia)).
      rewrite zsatb_cons by (assumption || lia).
      rewrite (zsatb_skip s a L l tr) by (assumption || lia).
      destruct (a l); reflexivity.
Qed.

Section PickDdZ.
Variable St : Type.
Variable choice : St -> nat -> edge -> bool * St.

Lemma pick_dd_z_spec : forall fuel s st e, ZbddOK s -> good_z s e -> isfz s e = false ->
  nlevels s - rlevel s (eref e) < fuel ->
  exists s' r tr st',
    pick_dd_z St choice fuel s st e = Some (s', r, tr, st') /\
    walk_z St choice fuel s st e = Some (tr, st') /\
    dd_ok s (rlevel s (eref e)) s' r tr.
Proof.
  induction fuel as [|f IH]; intros s st e B G Hnf Hf; [lia|].
  simpl. unfold is_false in Hnf.
  destruct (view_plain s e) as [|b|l hi lo] eqn:Ev.
  - exfalso. apply (z_view_err s B e G Ev).
  - destruct b; [|discriminate]. exists s, e, [], st.
    split; [reflexivity|]. split; [reflexivity|]. apply dd_ok_term; assumption.
  - destruct (z_view_node s B e l hi lo G Ev) as [El [Ll [Gh [Gl [Lh [Llo [Fh _]]]]]]].
    pose proof (rlevel_le s (zo_wf s B) (eref hi)) as Bh. pose proof (rlevel_le s (zo_wf s B) (eref lo)) as Bl.
    (* the decision of both functions, uniformly *)
    assert (Hdec : exists (c dnc asked : bool) st1,
      (if edge_eqb hi lo || isfz s lo then (true, false, st)
       else let (c, st') := choice st l e in (c, true, st')) = (c, asked, st1) /\
      (if edge_eqb hi lo then (@None bool, hi, false, st)
       else if isfz s lo then (Some true, hi, false, st)
       else let (c, st') := choice st l e in (Some c, if c then hi else lo, true, st'))
      = (if dnc then None else Some c, if c then hi else lo, asked, st1) /\
      dnc = edge_eqb hi lo /\ (dnc = true -> hi = lo /\ c = true) /\
      isfz s (if c then hi else lo) = false).
    { destruct (edge_eqb hi lo) eqn:Eq.
      - exists true, true, false, st. simpl. repeat split; auto. apply edge_eqb_eq. exact Eq.
      - destruct (isfz s lo) eqn:Fl.
        + exists true, false, false, st. simpl. repeat split; auto; discriminate.
        + destruct (choice st l e) as [c st1]. exists c, false, true, st1. simpl.
          repeat split; auto; try discriminate. destruct c; assumption. }
    destruct Hdec as [c [dnc [asked [st1 [Ed1 [Ed2 [Edn [Hdnc Fc]]]]]]]].
    rewrite Ed1, Ed2, <- Edn.
    assert (Gc : good_z s (if c then hi else lo)) by (destruct c; assumption).
    destruct (IH s st1 (if c then hi else lo) B Gc Fc ltac:(destruct c; lia))
      as [s1 [sub [tr [st2 [P [W D]]]]]].
    rewrite P, W.
    destruct (build_step s e l hi lo c dnc asked s1 sub tr B G Ev Hdnc D) as [s2 [r [Eb D2]]].
    exists s2, r, (mkStep l e (if dnc then None else Some c) asked :: tr), st2.
    split; [|split; [reflexivity | rewrite <- El; exact D2]].
    destruct c; [rewrite Eb; reflexivity | inversion Eb; reflexivity].
Qed.

Lemma den_z_extends : forall s s' e a, ZbddOK s -> extends s s' -> good_z s e -> den_z s' e a = den_z s e a.
Proof.
  intros s s' e a B X [G _]. unfold den_z.
  change (fun_zbdd s' (eref e) a) with (Fz s' 0 (eref e) a).
  change (fun_zbdd s (eref e) a) with (Fz s 0 (eref e) a).
  apply (fun_z_extends s s' (eref e) 0 a (zo_wf s B) X G).
Qed.

(** [pick_cube] and [pick_cube_dd] describe the same cube *)
Theorem pick_dd_z_same_cube : forall s st e cb tr st', ZbddOK s -> good_z s e ->
  pick_cube_z St choice s st e = Some (Some (cb, tr, st')) ->
  exists s' r,
    pick_cube_dd_z St choice s st e = Some (s', r, tr, st') /\
    ZbddOK s' /\ extends s s' /\ good_z s' r /\
    forall a, den_z s' r a = true <-> agrees s a cb.
Proof.
  intros s st e cb tr st' B G E.
  destruct (pick_cube_z_some St choice s st e cb tr st' B G E) as [R [Lc Wc]].
  assert (Hnf : isfz s e = false).
  { destruct (isfz s e) eqn:F; [|reflexivity]. exfalso.
    pose proof (proj2 (pick_cube_z_none_iff St choice s st e B G) (isfz_true s e F)). congruence. }
  pose proof (rlevel_le s (zo_wf s B) (eref e)).
  destruct (pick_dd_z_spec (S (nlevels s)) s st e B G Hnf ltac:(lia))
    as [s' [r [tr0 [st0 [P [W [B' [X [G' [F' [L' [T' D']]]]]]]]]]]].
  assert (tr0 = tr /\ st0 = st').
  { unfold pick_cube_z in E. unfold is_false in Hnf.
    destruct (view_plain s e) as [|[|]|l t x] eqn:Ev; try discriminate.
    - inversion E; subst. simpl in W. rewrite Ev in W. inversion W. auto.
    - rewrite W in E. destruct (write_all s tr0 (repeat (Some false) (nlevels s))); [|discriminate].
      inversion E. auto. }
  destruct H0 as [-> ->].
  exists s', r. split; [exact P|]. split; [exact B'|]. split; [exact X|]. split; [exact G'|].
  intros a. unfold den_z. change (fun_zbdd s' (eref r) a) with (Fz s' 0 (eref r) a).
  rewrite (D' 0 a ltac:(lia)). symmetry. apply (agrees_zsatb s a cb tr Wc).
Qed.

Theorem pick_dd_z_false : forall s st e,
  pick_cube_z St choice s st e = Some None ->
  pick_cube_dd_z St choice s st e = Some (s, e, [], st).
Proof.
  intros s st e E. unfold pick_cube_z in E. unfold pick_cube_dd_z. cbn [pick_dd_z].
  destruct (view_plain s e) as [|[|]|l t x] eqn:Ev; try discriminate; [reflexivity|].
  destruct (walk_z St choice (S (nlevels s)) s st e) as [[tr st']|]; [|discriminate].
  destruct (write_all s tr (repeat (Some false) (nlevels s))); discriminate.
Qed.

Theorem pick_dd_z_implicant : forall s st e s' r tr st', ZbddOK s -> good_z s e ->
  pick_cube_dd_z St choice s st e = Some (s', r, tr, st') ->
  ZbddOK s' /\ extends s s' /\ good_z s' r /\
  (forall a, den_z s' r a = true -> den_z s' e a = true) /\
  ((forall a, den_z s' r a = false) <-> (forall a, den_z s e a = false)).
Proof.
  intros s st e s' r tr st' B G E.
  destruct (pick_cube_z_total St choice s st e B G) as [[[[cb tr0] st0]|] Ep].
  - destruct (pick_dd_z_same_cube s st e cb tr0 st0 B G Ep) as [s1 [r1 [P [B1 [X1 [G1 D1]]]]]].
    rewrite P in E. inversion E; subst.
    split; [exact B1|]. split; [exact X1|]. split; [exact G1|]. split.
    + intros a Ha. rewrite (den_z_extends s s' e a B X1 G).
      apply (pick_cube_z_implicant St choice s st e cb tr st' B G Ep). apply D1. exact Ha.
    + split.
      * intros Hf. exfalso.
        destruct (pick_cube_z_some St choice s st e cb tr st' B G Ep) as [R [Lc Wc]].
        assert (Ha : agrees s (follow tr) cb).
        { apply (agrees_zsatb s (follow tr) cb tr Wc). apply zsatb_follow. }
        apply D1 in Ha. rewrite Hf in Ha. discriminate.
      * intros Hf. exfalso.
        pose proof (proj2 (pick_cube_z_none_iff St choice s st e B G) Hf). congruence.
  - rewrite (pick_dd_z_false s st e Ep) in E. inversion E; subst.
    split; [exact B|]. split; [apply extends_refl|]. split; [exact G|]. split; [auto|]. tauto.
Qed.

End PickDdZ.

(** ** [pick_cube_dd_set] *)

(** the literal set as a ZBDD cube (see [cube_lits_z]) *)
Inductive CubeZ (s : snap) : edge -> list (nat * bool) -> Prop :=
| CZ_end : forall e, view_plain s e = CTerm true -> CubeZ s e []
| CZ_dc : forall e l hi lo L, view_plain s e = CNode l hi lo -> hi = lo ->
    CubeZ s hi L -> CubeZ s e ((l, true) :: L)
| CZ_pos : forall e l hi lo L, view_plain s e = CNode l hi lo -> hi <> lo -> isfz s lo = true ->
    CubeZ s hi L -> CubeZ s e ((l, false) :: L).

Lemma cube_lits_z_CubeZ : forall fuel s e L, cube_lits_z fuel s e = Some L -> CubeZ s e L.
Proof.
  induction fuel as [|f IH]; intros s e L E; simpl in E; [discriminate|].
  destruct (view_plain s e) as [|b|l hi lo] eqn:Ev; [discriminate| |].
  - destruct b; [|discriminate]. inversion E. apply CZ_end. exact Ev.
  - destruct (edge_eqb hi lo) eqn:Eq.
    + destruct (cube_lits_z f s hi) as [L'|] eqn:El; [|discriminate]. simpl in E. inversion E.
      eapply CZ_dc; eauto. apply edge_eqb_eq. exact Eq.
    + destruct (isfz s lo) eqn:Fl; [|discriminate].
      destruct (cube_lits_z f s hi) as [L'|] eqn:El; [|discriminate]. simpl in E. inversion E.
      eapply CZ_pos; eauto. intros Heq. apply edge_eqb_eq in Heq. congruence.
Qed.

Lemma CubeZ_levels : forall s e L, ZbddOK s -> CubeZ s e L -> good_z s e ->
  forall l b, In (l, b) L -> rlevel s (eref e) <= l.
Proof.
  intros s e L B C. induction C as [e Ev | e l hi lo L Ev Heq C IH | e l hi lo L Ev Hne Fl C IH]; intros G l0 b Hin.
  - destruct Hin.
  - destruct (z_view_node s B e l hi lo G Ev) as [El [Ll [Gh [Gl [Lh _]]]]].
    destruct Hin as [Hin|Hin]; [inversion Hin; lia|]. specialize (IH Gh l0 b Hin). lia.
  - destruct (z_view_node s B e l hi lo G Ev) as [El [Ll [Gh [Gl [Lh _]]]]].
    destruct Hin as [Hin|Hin]; [inversion Hin; lia|]. specialize (IH Gh l0 b Hin). lia.
Qed.

Lemma zlit_of_absent : forall L l, (forall l' b, In (l', b) L -> l < l') -> zlit_of L l = ZNeg.
Proof.
  induction L as [|[l0 b0] r IH]; intros l Hl; simpl; [reflexivity|].
  destruct (Nat.eqb_spec l0 l) as [E|_].
  - specialize (Hl l0 b0 (or_introl eq_refl)). lia.
  - apply IH. intros l' b Hin. apply (Hl l' b). right. exact Hin.
Qed.

(** [set_pop] on a cube: the literal set from [until] on, and the node of
    level [until] iff the variable is not a negative literal *)
Lemma set_pop_cubez : forall fuel s set L until, ZbddOK s -> good_z s set -> CubeZ s set L ->
  nlevels s - rlevel s (eref set) < fuel -> until < nlevels s ->
  exists set' L' nodeinfo, set_pop_z fuel s set until = Some (set', nodeinfo) /\ good_z s set' /\
    CubeZ s set' L' /\ (forall l, until <= l -> zlit_of L' l = zlit_of L l) /\
    zlit_of L until =
    match nodeinfo with
    | Some (shi, slo) => if edge_eqb shi slo then ZAbsent else ZPos
    | None => ZNeg
    end.
Proof.
  induction fuel as [|f IH]; intros s set L until B G C Hf Hu; [lia|].
  simpl.
  assert (Hstep : forall e l hi lo L0 dnc, view_plain s e = CNode l hi lo -> good_z s e ->
            CubeZ s e ((l, dnc) :: L0) -> CubeZ s hi L0 -> dnc = edge_eqb hi lo ->
            nlevels s - rlevel s (eref e) < S f ->
            exists set' L' nodeinfo,
              match Nat.compare l until with
              | Lt => set_pop_z f s hi until
              | Eq => Some (e, Some (hi, lo))
              | Gt => Some (e, None)
              end = Some (set', nodeinfo) /\ good_z s set' /\ CubeZ s set' L' /\
              (forall l1, until <= l1 -> zlit_of L' l1 = zlit_of ((l, dnc) :: L0) l1) /\
              zlit_of ((l, dnc) :: L0) until =
              match nodeinfo with
              | Some (shi, slo) => if edge_eqb shi slo then ZAbsent else ZPos
              | None => ZNeg
              end).
  { intros e l hi lo L0 dnc Ev Ge Ce Ch Hd Hfe.
    destruct (z_view_node s B e l hi lo Ge Ev) as [El [Ll [Gh [Gl [Lh _]]]]].
    pose proof (rlevel_le s (zo_wf s B) (eref hi)).
    destruct (Nat.compare_spec l until) as [Heq|Hlt|Hgt].
    - subst until. exists e, ((l, dnc) :: L0), (Some (hi, lo)).
      split; [reflexivity|]. split; [exact Ge|]. split; [exact Ce|]. split; [reflexivity|].
      simpl. rewrite Nat.eqb_refl, <- Hd. reflexivity.
    - destruct (IH s hi L0 until B Gh Ch ltac:(lia) Hu) as [set' [L' [ni [P [G' [C' [Hp Hz]]]]]]].
      exists set', L', ni. split; [exact P|]. split; [exact G'|]. split; [exact C'|]. split.
      + intros l1 Hl1. rewrite (Hp l1 Hl1). simpl. destruct (Nat.eqb_spec l l1); [lia | reflexivity].
      + rewrite <- Hz. simpl. destruct (Nat.eqb_spec l until); [lia | reflexivity].
    - exists e, ((l, dnc) :: L0), None.
      split; [reflexivity|]. split; [exact Ge|]. split; [exact Ce|]. split; [reflexivity|].
      apply zlit_of_absent. intros l' b [Hin|Hin]; [inversion Hin; lia|].
      pose proof (CubeZ_levels s hi L0 B Ch Gh l' b Hin). lia. }
  destruct C as [e Ev | e l hi lo L Ev Heq C | e l hi lo L Ev Hne Fl C].
  - rewrite Ev. exists e, [], None. split; [reflexivity|]. split; [exact G|].
    split; [apply CZ_end; exact Ev|]. split; reflexivity.
  - rewrite Ev. apply (Hstep e l hi lo L true Ev G); [eapply CZ_dc; eauto | exact C | | exact Hf].
    symmetry. apply edge_eqb_eq. exact Heq.
  - rewrite Ev. apply (Hstep e l hi lo L false Ev G); [eapply CZ_pos; eauto | exact C | | exact Hf].
    destruct (edge_eqb hi lo) eqn:Eq; [apply edge_eqb_eq in Eq; contradiction | reflexivity].
Qed.

(** how the literal set decides at a visited node *)
Definition set_rule (s : snap) (L : list (nat * bool)) (p : step) : Prop :=
  exists hi lo, view_plain s (sp_edge p) = CNode (sp_level p) hi lo /\
    if isfz s lo then sp_asked p = false /\ sp_val p = Some true
    else sp_asked p = true /\
         sp_val p = match zlit_of L (sp_level p) with
                    | ZPos => Some true
                    | ZNeg => Some false
                    | ZAbsent => if edge_eqb hi lo then None else Some true
                    end.

Lemma pick_dd_set_z_spec : forall L fuel s e set Lc, ZbddOK s -> good_z s e -> good_z s set ->
  CubeZ s set Lc -> (forall l, rlevel s (eref e) <= l -> zlit_of Lc l = zlit_of L l) ->
  isfz s e = false -> nlevels s - rlevel s (eref e) < fuel ->
  exists s' r tr, pick_dd_set_z fuel s e set = Some (s', r, tr) /\
    dd_ok s (rlevel s (eref e)) s' r tr /\ PathZ s e tr /\ forall p, In p tr -> set_rule s L p.
Proof.
  intros L. induction fuel as [|f IH]; intros s e set Lc B G Gs C HL Hnf Hf; [lia|].
  cbn [pick_dd_set_z]. unfold is_false in Hnf.
  destruct (view_plain s e) as [|b|l hi lo] eqn:Ev.
  - exfalso. apply (z_view_err s B e G Ev).
  - destruct b; [|discriminate]. exists s, e, [].
    split; [reflexivity|]. split; [apply dd_ok_term; assumption|].
    split; [apply PZ_end; exact Ev | intros p []].
  - destruct (z_view_node s B e l hi lo G Ev) as [El [Ll [Gh [Gl [Lh [Llo [Fh _]]]]]]].
    pose proof (rlevel_le s (zo_wf s B) (eref hi)) as Bh. pose proof (rlevel_le s (zo_wf s B) (eref lo)) as Bl.
    pose proof (rlevel_le s (zo_wf s B) (eref set)) as Bs.
    destruct (set_pop_cubez (S (nlevels s)) s set Lc l B Gs C ltac:(lia) Ll)
      as [set' [L' [ni [P [G' [C' [Hp Hz]]]]]]].
    rewrite P. rewrite (HL l ltac:(lia)) in Hz.
    (* the decision *)
    assert (Hdec : exists c dnc asked : bool,
      (if isfz s lo then (true, false, false)
       else match ni with
            | Some (shi, slo) => (true, if edge_eqb shi slo then edge_eqb hi lo else false, true)
            | None => (false, false, true)
            end) = (c, dnc, asked) /\
      (dnc = true -> hi = lo /\ c = true) /\ isfz s (if c then hi else lo) = false /\
      (if isfz s lo then asked = false /\ (if dnc then None else Some c) = Some true
       else asked = true /\
            (if dnc then None else Some c) =
            match zlit_of L l with
            | ZPos => Some true
            | ZNeg => Some false
            | ZAbsent => if edge_eqb hi lo then None else Some true
            end)).
    { destruct (isfz s lo) eqn:Fl.
      - exists true, false, false. repeat split; auto; discriminate.
      - destruct ni as [[shi slo]|].
        + destruct (edge_eqb shi slo) eqn:Es.
          * exists true, (edge_eqb hi lo), true. rewrite Hz. split; [reflexivity|].
            split; [intros Hd; split; [apply edge_eqb_eq; exact Hd | reflexivity]|].
            split; [exact Fh|]. split; reflexivity.
          * exists true, false, true. rewrite Hz. repeat split; auto; discriminate.
        + exists false, false, true. rewrite Hz. repeat split; auto; discriminate. }
    destruct Hdec as [c [dnc [asked [Ed [Hdnc [Fc Hrule]]]]]]. rewrite Ed.
    assert (Gc : good_z s (if c then hi else lo)) by (destruct c; assumption).
    assert (Lc' : l < rlevel s (eref (if c then hi else lo))) by (destruct c; assumption).
    destruct (IH s (if c then hi else lo) set' L' B Gc G' C'
                ltac:(intros l0 Hl0; rewrite (Hp l0 ltac:(lia)); apply HL; lia) Fc ltac:(destruct c; lia))
      as [s1 [sub [tr [Pd [D [Pz Hr]]]]]].
    rewrite Pd.
    destruct (build_step s e l hi lo c dnc asked s1 sub tr B G Ev Hdnc D) as [s2 [r [Eb D2]]].
    exists s2, r, (mkStep l e (if dnc then None else Some c) asked :: tr).
    split; [destruct c; [rewrite Eb; reflexivity | inversion Eb; reflexivity]|].
    split; [rewrite <- El; exact D2|]. split.
    + apply (PZ_step s e l hi lo (if dnc then None else Some c) asked tr Ev).
      * intros Hv. destruct dnc; [apply Hdnc; reflexivity | discriminate].
      * destruct dnc; [destruct (Hdnc eq_refl) as [_ ->]; exact Pz | destruct c; exact Pz].
    + intros p [<-|Hp']; [|apply Hr; exact Hp'].
      exists hi, lo. simpl. split; [exact Ev|]. destruct (isfz s lo); exact Hrule.
Qed.

(** [pick_cube_dd_set] with a literal set that is a cube diagram: the result
    is a non-empty cube (exactly the literals of the trace, false elsewhere)
    that implies the function; the values follow [set_rule] *)
Theorem pick_dd_set_z_ok : forall s e set L, ZbddOK s -> good_z s e -> good_z s set ->
  cube_lits_z (S (nlevels s)) s set = Some L -> isfz s e = false ->
  exists s' r tr, pick_cube_dd_set_z s e set = Some (s', r, tr) /\
    ZbddOK s' /\ extends s s' /\ good_z s' r /\
    (forall a, den_z s' r a = zsatb s a 0 tr) /\
    (forall a, den_z s' r a = true -> den_z s' e a = true) /\
    (exists a, den_z s' r a = true) /\
    forall p, In p tr -> set_rule s L p.
Proof.
  intros s e set L B G Gs E Hnf. unfold pick_cube_dd_set_z.
  pose proof (rlevel_le s (zo_wf s B) (eref e)).
  destruct (pick_dd_set_z_spec L (S (nlevels s)) s e set L B G Gs (cube_lits_z_CubeZ _ _ _ _ E)
              ltac:(reflexivity) Hnf ltac:(lia)) as [s' [r [tr [P [[B' [X [G' [F' [L' [T' D']]]]]] [Pz Hr]]]]]].
  exists s', r, tr. split; [exact P|]. split; [exact B'|]. split; [exact X|]. split; [exact G'|].
  assert (Hd : forall a, den_z s' r a = zsatb s a 0 tr).
  { intros a. unfold den_z. change (fun_zbdd s' (eref r) a) with (Fz s' 0 (eref r) a). apply D'. lia. }
  split; [exact Hd|]. split.
  - intros a Ha. rewrite (den_z_extends s s' e a B X G). unfold den_z.
    change (fun_zbdd s (eref e) a) with (Fz s 0 (eref e) a).
    apply (pathz_sem s B e tr Pz G 0 a ltac:(lia)). rewrite <- Hd. exact Ha.
  - split; [|exact Hr]. exists (follow tr). rewrite Hd. apply zsatb_follow.
Qed.

Theorem pick_dd_set_z_false : forall s e set, isfz s e = true ->
  pick_cube_dd_set_z s e set = Some (s, e, []).
Proof.
  intros s e set. unfold is_false, pick_cube_dd_set_z. cbn [pick_dd_set_z].
  destruct (view_plain s e) as [|[|]|]; try discriminate. reflexivity.
Qed.

(** ** [pick_cube_uniform] *)

Lemma count_zbdd_spec : forall s e, ZbddOK s -> good_z s e ->
  count_zbdd s e = Zc s (rlevel s (eref e)) (eref e).
Proof.
  intros s e B [G _]. unfold count_zbdd.
  rewrite (sat_zbdd_correct s (nlevels s) (eref e) (zo_wf s B) (zo_kind s B) (le_n _) G).
  rewrite Nat.sub_diag. change (2 ^ N.of_nat 0)%N with 1%N. rewrite N.mul_1_l.
  rewrite <- (Zc_lower s (zo_wf s B) (rlevel s (eref e)) 0 (eref e) G eq_refl).
  unfold Zc, count_levels. rewrite Nat.sub_0_r. reflexivity.
Qed.

Lemma count_zbdd_term : forall s e b, ZbddOK s -> good_z s e -> view_plain s e = CTerm b ->
  count_zbdd s e = if b then 1%N else 0%N.
Proof.
  intros s e b B G Ev. rewrite (count_zbdd_spec s e B G).
  destruct (view_plain_term s e b Ev) as [t [Er Et]]. rewrite Er. simpl rlevel.
  unfold Zc. rewrite Nat.sub_diag. simpl. rewrite (Fz_term s (nlevels s) t _ _ Et).
  rewrite Nat.sub_diag. simpl. destruct b; reflexivity.
Qed.

Lemma count_zbdd_node : forall s e l hi lo, ZbddOK s -> good_z s e -> view_plain s e = CNode l hi lo ->
  (count_zbdd s e = count_zbdd s hi + count_zbdd s lo)%N.
Proof.
  intros s e l hi lo B G Ev.
  destruct (z_view_node s B e l hi lo G Ev) as [El [Ll [Gh [Gl [Lh [Llo _]]]]]].
  destruct (view_plain_node s e l hi lo Ev) as [id [nd [Er [E [Hc Hl]]]]].
  rewrite (wf_stored s (zo_wf s B) id nd E) in Hl. subst l.
  rewrite (count_zbdd_spec s e B G), (count_zbdd_spec s hi B Gh), (count_zbdd_spec s lo B Gl).
  rewrite Er, (rlevel_node s id nd E), (Zc_node s (zo_wf s B) id nd hi lo E Hc).
  rewrite (Zc_lower s (zo_wf s B) (rlevel s (eref hi) - S (nlevel nd)) (S (nlevel nd)) (eref hi) (proj1 Gh) ltac:(lia)).
  rewrite (Zc_lower s (zo_wf s B) (rlevel s (eref lo) - S (nlevel nd)) (S (nlevel nd)) (eref lo) (proj1 Gl) ltac:(lia)).
  reflexivity.
Qed.

(** number of don't-care entries a trace writes *)
Definition dcs (tr : list step) : nat :=
  length (filter (fun p => match sp_val p with None => true | Some _ => false end) tr).

(** probability of a trace = 2^(don't cares) / #models ([count_zbdd]: the
    number of sets of the family = models over all levels) *)
Theorem runz_weight : forall s, ZbddOK s -> forall St choice st e tr st',
  RunZ s St choice st e tr st' -> good_z s e ->
  let (num, dn) := trace_weight view_plain count_zbdd s tr in
  (0 < num /\ 0 < dn /\ 0 < count_zbdd s e /\ num * count_zbdd s e = dn * 2 ^ N.of_nat (dcs tr))%N.
Proof.
  intros s B St choice st e tr st' R.
  induction R as [st e Ev | st e l hi lo tr st' Ev Heq R IH | st e l hi lo tr st' Ev Hne Fl R IH
                 | st e l hi lo c st1 tr st' Ev Hne Fl Ec R IH]; intros G.
  - simpl. rewrite (count_zbdd_term s e true B G Ev). change (2 ^ N.of_nat 0)%N with 1%N. lia.
  - destruct (z_view_node s B e l hi lo G Ev) as [El [Ll [Gh [Gl _]]]].
    pose proof (count_zbdd_node s e l hi lo B G Ev) as Hn. rewrite <- Heq in Hn.
    specialize (IH Gh). cbn [trace_weight sp_asked].
    destruct (trace_weight view_plain count_zbdd s tr) as [num dn]. destruct IH as [A [B0 [C D]]].
    unfold dcs. cbn [filter sp_val length]. fold (dcs tr). rewrite pow2_S.
    split; [exact A|]. split; [exact B0|]. split; [lia|]. rewrite Hn. lia.
  - destruct (z_view_node s B e l hi lo G Ev) as [El [Ll [Gh [Gl _]]]].
    pose proof (count_zbdd_node s e l hi lo B G Ev) as Hn.
    assert (Z : count_zbdd s lo = 0%N).
    { unfold is_false in Fl. destruct (view_plain s lo) as [|[|]|] eqn:Vl; try discriminate.
      apply (count_zbdd_term s lo false B Gl Vl). }
    specialize (IH Gh). cbn [trace_weight sp_asked].
    destruct (trace_weight view_plain count_zbdd s tr) as [num dn]. destruct IH as [A [B0 [C D]]].
    unfold dcs. cbn [filter sp_val]. fold (dcs tr).
    split; [exact A|]. split; [exact B0|]. split; [lia|]. rewrite Hn, Z, N.add_0_r. exact D.
  - destruct (z_view_node s B e l hi lo G Ev) as [El [Ll [Gh [Gl _]]]].
    pose proof (count_zbdd_node s e l hi lo B G Ev) as Hn.
    assert (G' : good_z s (if c then hi else lo)) by (destruct c; assumption).
    specialize (IH G'). cbn [trace_weight sp_asked sp_edge sp_val]. rewrite Ev.
    destruct (trace_weight view_plain count_zbdd s tr) as [num dn]. destruct IH as [A [B0 [C D]]].
    unfold dcs. cbn [filter sp_val]. fold (dcs tr). rewrite <- Hn.
    assert (P : (0 < count_zbdd s e)%N) by (destruct c; lia).
    split; [apply N.mul_pos_pos; assumption|]. split; [apply N.mul_pos_pos; assumption|].
    split; [exact P|].
    replace (num * count_zbdd s (if c then hi else lo) * count_zbdd s e)%N
      with ((num * count_zbdd s (if c then hi else lo)) * count_zbdd s e)%N by lia.
    rewrite D. lia.
Qed.

Theorem count_zbdd_models : forall s e, ZbddOK s -> good_z s e ->
  count_zbdd s e = count_levels (nlevels s) (fun_zbdd s (eref e)).
Proof.
  intros s e B [G _]. unfold count_zbdd.
  rewrite (sat_zbdd_correct s (nlevels s) (eref e) (zo_wf s B) (zo_kind s B) (le_n _) G).
  rewrite Nat.sub_diag. change (2 ^ N.of_nat 0)%N with 1%N. lia.
Qed.

Theorem pick_uniform_z_model : forall draws s e cb tr k, ZbddOK s -> good_z s e ->
  pick_uniform_z draws s e = Some (Some (cb, tr, k)) ->
  forall a, agrees s a cb -> den_z s e a = true.
Proof.
  intros draws s e cb tr k B G E.
  apply (pick_cube_z_implicant nat (uni_choice_z draws s) s 0 e cb tr k B G E).
Qed.

Theorem pick_uniform_z_none_iff : forall draws s e, ZbddOK s -> good_z s e ->
  (pick_uniform_z draws s e = Some None <-> forall a, den_z s e a = false).
Proof.
  intros draws s e B G.
  apply (pick_cube_z_none_iff nat (uni_choice_z draws s) s 0 e B G).
Qed.
