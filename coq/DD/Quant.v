(** * Quantification, restriction, substitution and apply-and-quantify of the
      plain BDD kind

    Executable definitions only (proofs: DD/QuantProofs*.v).  Mirrors
    oxidd-rules-bdd/src/lib.rs ([set_pop]) and
    oxidd-rules-bdd/src/simple/apply_rec.rs ([quant], [restrict] with its
    tail-recursive [inner], [substitute_prepare], [substitute],
    [apply_quant], [apply_quant_dispatch] and the [*_edge] entry points of
    [BooleanFunctionQuant] / [FunctionSubst] / [restrict_edge]), in the style
    of DD/Apply.v: references instead of edges, node creation by [mk_node]
    ([reduce]) / [get_or_insert], recursion on explicit fuel ([None] = fuel
    exhausted or one of the code's [unwrap]s / [unreachable!]s would fire), an
    abstract apply cache [cget]/[cadd] consulted and extended exactly where the
    code calls [apply_cache().get] / [add], and the unobservable edge order
    [gt] of [terminal_bin] as a parameter.

    Cache keys.  The code keys the cache by ([BDDOp], operand edges, numeric
    operands).  [BDDOp as u8]: Not = 0 ... Ite = 9 (DD/Apply.v), Substitute =
    10, Restrict = 11, Forall = 12, Exists = 13, Unique = 14, ForallAnd = 15
    ... ForallImpStrict = 22, ExistsAnd = 23 ... 30, UniqueAnd = 31 ... 38
    (inside each block the operators are in the order of [op_code]).
    [substitute] is the only user of a numeric operand (the substitution id,
    [get_extended]/[add_extended] with [(&[f], &[cache_id])]); the abstract
    cache has no numeric operands, so the pair (Substitute, id) is encoded
    injectively into the operator code: [code_subst id = 39 + id].

    Inner calls of [apply_not] / [apply_bin] / [apply_ite] and of [quant] from
    [apply_quant] get the fuel [S (nlevels s)] of the table they run on, which
    always suffices (DD/ApplyProofs.v); the same holds for [set_pop] and, with
    [S (2 * nlevels s)], for the tail-recursive part of [restrict]. *)

From Coq Require Import List NArith PArith Bool Arith FMapPositive.
From OxiVerif Require Import DD.Table DD.Sem DD.Build DD.Apply.
Import ListNotations.

(** the const parameter [Q] of [quant] / [apply_quant]: [BDDOp::And] (forall),
    [BDDOp::Or] (exists), [BDDOp::Xor] (unique) *)
Inductive quantifier := QForall | QExists | QUnique.

(** the operator that combines the two cofactor results *)
Definition qop (q : quantifier) : bop :=
  match q with QForall => OAnd | QExists => OOr | QUnique => OXor end.

Definition is_unique (q : quantifier) : bool :=
  match q with QUnique => true | _ => false end.

(** [BDDOp::Restrict], [BDDOp::Forall/Exists/Unique], [BDDOp::from_apply_quant] as u8 *)
Definition code_restrict : N := 11%N.
Definition qcode (q : quantifier) : N :=
  match q with QForall => 12 | QExists => 13 | QUnique => 14 end%N.
Definition aqcode (q : quantifier) (o : bop) : N :=
  ((match q with QForall => 14 | QExists => 22 | QUnique => 30 end) + op_code o)%N.
(** ([BDDOp::Substitute], [cache_id]) *)
Definition code_subst (id : N) : N := (39 + id)%N.

(** [set_pop]: drop the variables above level [until] from a variable set
    (a chain through the then-children) *)
Fixpoint set_pop (fuel : nat) (s : snap) (set : ref) (until : nat) : option ref :=
  match set with
  | RT _ => Some set
  | RN id =>
    match fuel with
    | O => None
    | S n =>
      match find_node s id with
      | None => None
      | Some nd =>
        if Nat.leb until (nstored nd) then Some set
        else
          match nchildren nd with
          | [t; _] => set_pop n s (eref t) until
          | _ => None
          end
      end
    end
  end.

(** result of the tail-recursive [inner] of [restrict] *)
Inductive rinner :=
| RDone (r : ref)
| RRec (vars f : ref) (fnode : node).

(** [restrict::inner]; invariant: [f] is [fnode] at [flevel], [vars] is [vnode] *)
Fixpoint restrict_inner (fuel : nat) (s : snap) (f : ref) (fnode : node) (flevel : nat)
         (vars : ref) (vnode : node) : option rinner :=
  match fuel with
  | O => None
  | S n =>
    let vlevel := nstored vnode in
    if Nat.ltb flevel vlevel then Some (RRec vars f fnode)      (* f above vars *)
    else
      match nchildren vnode with
      | [vt; ve] =>
        if Nat.ltb vlevel flevel then
          (* vars above f: skip the literal *)
          match eref vt with
          | RN tid =>
            match find_node s tid with
            | Some nn => restrict_inner n s f fnode flevel (eref vt) nn
            | None => None
            end
          | RT _ =>
            match view s (eref vt) with
            | Some (VT true) => Some (RDone f)
            | Some (VT false) =>
              match eref ve with
              | RN eid =>
                match find_node s eid with
                | Some nn => restrict_inner n s f fnode flevel (eref ve) nn
                | None => None
                end
              | RT _ => Some (RDone f)
              end
            | _ => None
            end
          end
        else
          (* top variable at the level of f: select the branch *)
          match nchildren fnode with
          | [ft; fe] =>
            match eref vt with
            | RN tid =>
              (* positive literal, more literals below *)
              match find_node s tid with
              | Some nn =>
                match eref ft with
                | RN fid' =>
                  match find_node s fid' with
                  | Some fn' => restrict_inner n s (eref ft) fn' (nstored fn') (eref vt) nn
                  | None => None
                  end
                | RT _ => Some (RDone (eref ft))
                end
              | None => None
              end
            | RT _ =>
              match view s (eref vt) with
              | Some (VT true) => Some (RDone (eref ft))        (* last literal, positive *)
              | Some (VT false) =>
                (* negative literal *)
                match eref ve with
                | RN eid =>
                  match find_node s eid with
                  | Some nn =>
                    match eref fe with
                    | RN fid' =>
                      match find_node s fid' with
                      | Some fn' => restrict_inner n s (eref fe) fn' (nstored fn') (eref ve) nn
                      | None => None
                      end
                    | RT _ => Some (RDone (eref fe))
                    end
                  | None => None
                  end
                | RT _ => Some (RDone (eref fe))
                end
              | _ => None
              end
            end
          | _ => None
          end
      | _ => None
      end
  end.

(** [substitute_prepare], first loop: [subst[level] = Some(r)] with [resize_with] *)
Fixpoint set_slot (l : list (option ref)) (i : nat) (x : ref) : list (option ref) :=
  match i, l with
  | O, [] => [Some x]
  | O, _ :: r => Some x :: r
  | S k, [] => None :: set_slot [] k x
  | S k, y :: r => y :: set_slot r k x
  end.

Fixpoint prepare_slots (s : snap) (pairs : list (nat * ref)) (acc : list (option ref))
  : option (list (option ref)) :=
  match pairs with
  | [] => Some acc
  | (v, r) :: rest =>
    match nth_error (s_v2l s) v with                (* [var_to_level] *)
    | Some lvl => prepare_slots s rest (set_slot acc lvl r)
    | None => None
    end
  end.

(** second loop: unlisted levels are mapped to the variable of that level *)
Fixpoint prepare_fill (s : snap) (slots : list (option ref)) (level : nat)
  : option (snap * list ref) :=
  match slots with
  | [] => Some (s, [])
  | Some e :: rest =>
    match prepare_fill s rest (S level) with
    | Some (s', l) => Some (s', e :: l)
    | None => None
    end
  | None :: rest =>
    match term_of s true, term_of s false with
    | Some t1, Some t0 =>
      let '(s1, e) := get_or_insert s level [E (RT t1); E (RT t0)] in
      match prepare_fill s1 rest (S level) with
      | Some (s', l) => Some (s', eref e :: l)
      | None => None
      end
    | _, _ => None
    end
  end.

Definition substitute_prepare (s : snap) (pairs : list (nat * ref)) : option (snap * list ref) :=
  match prepare_slots s pairs [] with
  | Some slots => prepare_fill s slots 0
  | None => None
  end.

Section Gt.
Variable gt : ref -> ref -> bool.

Section Cache.
Variable C : Type.
Variable cget : C -> N -> list ref -> option ref.
Variable cadd : C -> N -> list ref -> ref -> C.

(** [quant::<Q>] (named [quant_rec] here; [quant] is the spec function of DD/Sem.v) *)
Fixpoint quant_rec (fuel : nat) (s : snap) (c : C) (q : quantifier) (f vars : ref)
  : option (snap * C * ref) :=
  match fuel with
  | O => None
  | S n =>
    match f with
    | RT _ =>
      (* terminal cases *)
      if negb (is_unique q) || (match vars with RT _ => true | RN _ => false end)
      then Some (s, c, f)
      else match term_of s false with Some t => Some (s, c, RT t) | None => None end
    | RN fid =>
      match find_node s fid with
      | None => None
      | Some fnode =>
        let flevel := nstored fnode in
        match (if is_unique q then Some vars else set_pop (S (nlevels s)) s vars flevel) with
        | None => None
        | Some (RT _) => Some (s, c, f)
        | Some (RN vid as vars') =>
          match find_node s vid with
          | None => None
          | Some vnode =>
            let vlevel := nstored vnode in
            if is_unique q && Nat.ltb vlevel flevel then
              (* the variable does not occur in f: f xor f *)
              match term_of s false with Some t => Some (s, c, RT t) | None => None end
            else
              match cget c (qcode q) [f; vars'] with
              | Some h => Some (s, c, h)
              | None =>
                match nchildren fnode,
                      (if Nat.eqb vlevel flevel
                       then match nchildren vnode with [vt; _] => Some (eref vt) | _ => None end
                       else Some vars') with
                | [ft; fe], Some vt =>
                  match quant_rec n s c q (eref ft) vt with
                  | None => None
                  | Some (s1, c1, t) =>
                    match quant_rec n s1 c1 q (eref fe) vt with
                    | None => None
                    | Some (s2, c2, e) =>
                      if Nat.eqb flevel vlevel then
                        match apply_bin gt C cget cadd (S (nlevels s2)) s2 c2 (qop q) t e with
                        | None => None
                        | Some (s3, c3, res) =>
                          Some (s3, cadd c3 (qcode q) [f; vars'] res, res)
                        end
                      else
                        let '(s3, h) := mk_node s2 flevel [E t; E e] in
                        Some (s3, cadd c2 (qcode q) [f; vars'] (eref h), eref h)
                    end
                  end
                | _, _ => None
                end
              end
          end
        end
      end
    end
  end.

(** [restrict] *)
Fixpoint restrict (fuel : nat) (s : snap) (c : C) (f vars : ref) : option (snap * C * ref) :=
  match fuel with
  | O => None
  | S n =>
    match f, vars with
    | RN fid, RN vid =>
      match find_node s fid, find_node s vid with
      | Some fnode, Some vnode =>
        match restrict_inner (S (nlevels s + nlevels s)) s f fnode (nstored fnode) vars vnode with
        | None => None
        | Some (RDone r) => Some (s, c, r)
        | Some (RRec vars' f' fnode') =>
          (* f above the top-most restrict variable *)
          match cget c code_restrict [f'; vars'] with
          | Some r => Some (s, c, r)
          | None =>
            match nchildren fnode' with
            | [ft; fe] =>
              match restrict n s c (eref ft) vars' with
              | None => None
              | Some (s1, c1, t) =>
                match restrict n s1 c1 (eref fe) vars' with
                | None => None
                | Some (s2, c2, e) =>
                  let '(s3, h) := mk_node s2 (nstored fnode') [E t; E e] in
                  Some (s3, cadd c2 code_restrict [f'; vars'] (eref h), eref h)
                end
              end
            | _ => None
            end
          end
        end
      | _, _ => None
      end
    | _, _ => Some (s, c, f)
    end
  end.

(** [substitute]; [subst] maps levels to replacement functions *)
Fixpoint substitute (fuel : nat) (s : snap) (c : C) (f : ref) (subst : list ref) (id : N)
  : option (snap * C * ref) :=
  match fuel with
  | O => None
  | S n =>
    match f with
    | RT _ => Some (s, c, f)
    | RN fid =>
      match find_node s fid with
      | None => None
      | Some fnode =>
        let level := nstored fnode in
        if Nat.leb (length subst) level then Some (s, c, f)
        else
          match cget c (code_subst id) [f] with
          | Some h => Some (s, c, h)
          | None =>
            match nchildren fnode with
            | [ft; fe] =>
              match substitute n s c (eref ft) subst id with
              | None => None
              | Some (s1, c1, t) =>
                match substitute n s1 c1 (eref fe) subst id with
                | None => None
                | Some (s2, c2, e) =>
                  match nth_error subst level with
                  | None => None
                  | Some r =>
                    match apply_ite gt C cget cadd (S (nlevels s2)) s2 c2 r t e with
                    | None => None
                    | Some (s3, c3, res) => Some (s3, cadd c3 (code_subst id) [f] res, res)
                    end
                  end
                end
              end
            | _ => None
            end
          end
      end
    end
  end.

(** [apply_quant::<Q, OP>] *)
Fixpoint apply_quant (fuel : nat) (s : snap) (c : C) (q : quantifier) (op : bop) (f g vars : ref)
  : option (snap * C * ref) :=
  match fuel with
  | O => None
  | S n =>
    match terminal_bin gt s op f g with
    | TFail => None
    | TNot h =>
      match apply_not C cget cadd (S (nlevels s)) s c h with
      | None => None
      | Some (s1, c1, inverse) => quant_rec (S (nlevels s1)) s1 c1 q inverse vars
      end
    | TDone h => quant_rec (S (nlevels s)) s c q h vars
    | TBin _ f g =>
      match inner s f, inner s g with
      | Some fnode, Some gnode =>
        let flevel := nstored fnode in
        let glevel := nstored gnode in
        let min_level := Nat.min flevel glevel in
        match (if is_unique q then Some vars else set_pop (S (nlevels s)) s vars min_level) with
        | None => None
        | Some (RT _) =>
          (* empty variable set: just apply the operation *)
          apply_bin gt C cget cadd (S (nlevels s)) s c op f g
        | Some (RN vid as vars') =>
          match find_node s vid with
          | None => None
          | Some vnode =>
            let vlevel := nstored vnode in
            if Nat.ltb vlevel min_level && is_unique q then
              match term_of s false with Some t => Some (s, c, RT t) | None => None end
            else if Nat.ltb vlevel min_level then
              (* beyond the variables to be quantified *)
              apply_bin gt C cget cadd (S (nlevels s)) s c op f g
            else
              match cget c (aqcode q op) [f; g; vars'] with
              | Some h => Some (s, c, h)
              | None =>
                match (if Nat.eqb vlevel min_level
                       then match nchildren vnode with [vt; _] => Some (eref vt) | _ => None end
                       else Some vars'),
                      (if Nat.leb flevel glevel
                       then match nchildren fnode with [t; e] => Some (eref t, eref e) | _ => None end
                       else Some (f, f)),
                      (if Nat.leb glevel flevel
                       then match nchildren gnode with [t; e] => Some (eref t, eref e) | _ => None end
                       else Some (g, g)) with
                | Some vt, Some (ft, fe), Some (gt', ge) =>
                  match apply_quant n s c q op ft gt' vt with
                  | None => None
                  | Some (s1, c1, t) =>
                    match apply_quant n s1 c1 q op fe ge vt with
                    | None => None
                    | Some (s2, c2, e) =>
                      if Nat.eqb min_level vlevel then
                        match apply_bin gt C cget cadd (S (nlevels s2)) s2 c2 (qop q) t e with
                        | None => None
                        | Some (s3, c3, res) =>
                          Some (s3, cadd c3 (aqcode q op) [f; g; vars'] res, res)
                        end
                      else
                        let '(s3, h) := mk_node s2 min_level [E t; E e] in
                        Some (s3, cadd c2 (aqcode q op) [f; g; vars'] (eref h), eref h)
                    end
                  end
                | _, _, _ => None
                end
              end
          end
        end
      | _, _ => None       (* unreachable!("Terminal cases handled above") *)
      end
    end
  end.

(** ** The entry points ([SequentialRecursor]) *)

(** [forall_edge], [exists_edge], [unique_edge] *)
Definition quant_edge (s : snap) (c : C) (q : quantifier) (root vars : ref) :=
  quant_rec (S (nlevels s)) s c q root vars.

(** [apply_forall_edge], [apply_exists_edge], [apply_unique_edge] via
    [apply_quant_dispatch] (one monomorphic instance per operator) *)
Definition apply_quant_edge (s : snap) (c : C) (q : quantifier) (op : bop) (lhs rhs vars : ref) :=
  apply_quant (S (nlevels s)) s c q op lhs rhs vars.

(** [restrict_edge] *)
Definition restrict_edge (s : snap) (c : C) (root vars : ref) :=
  restrict (S (nlevels s)) s c root vars.

(** [substitute_edge]: [pairs] and [id] are [substitution.pairs()] and
    [substitution.id()] *)
Definition substitute_edge (s : snap) (c : C) (f : ref) (pairs : list (nat * ref)) (id : N) :=
  match substitute_prepare s pairs with
  | None => None
  | Some (s0, subst) => substitute (S (nlevels s0)) s0 c f subst id
  end.

End Cache.
End Gt.

(** ** The dispatch tables of the complement-edge kind
    (complement_edge/apply_rec.rs: [apply_quant_dispatch],
    [apply_quant_unique_dispatch]); proved in DD/QuantSpecProofs.v *)

Definition qdual (q : quantifier) : quantifier :=
  match q with QForall => QExists | QExists => QForall | QUnique => QUnique end.

(** one row: the quantifier and inner operator actually run, and which of the
    operands / the result are complemented *)
Record drow := mkRow { d_q : quantifier; d_op : bop; d_nf : bool; d_ng : bool; d_nres : bool }.

(** [apply_quant_dispatch::<Q, QN>] ([q] is [QForall] or [QExists], [QN = qdual q]) *)
Definition bcdd_dispatch (q : quantifier) (o : bop) : drow :=
  match o with
  | OAnd => mkRow q OAnd false false false
  | OOr => mkRow (qdual q) OAnd true true true
  | OXor => mkRow q OXor false false false
  | OEquiv => mkRow (qdual q) OXor false false true
  | ONand => mkRow (qdual q) OAnd false false true
  | ONor => mkRow q OAnd true true false
  | OImp => mkRow (qdual q) OAnd false true true
  | OImpStrict => mkRow q OAnd true false false
  end.

(** [apply_quant_unique_dispatch]; [BCDDOp::UniqueNand] is the fused inner operator [ONand] *)
Definition bcdd_unique_dispatch (o : bop) : drow :=
  match o with
  | OAnd => mkRow QUnique OAnd false false false
  | OOr => mkRow QUnique ONand true true false
  | OXor => mkRow QUnique OXor false false false
  | OEquiv => mkRow QUnique OXor true false false
  | ONand => mkRow QUnique ONand false false false
  | ONor => mkRow QUnique OAnd true true false
  | OImp => mkRow QUnique ONand false true false
  | OImpStrict => mkRow QUnique OAnd true false false
  end.
