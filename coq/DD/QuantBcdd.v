(** * Quantification, restriction, substitution and apply-and-quantify of the
      complement-edge kind (BCDD)

    Executable definitions only (proofs: DD/QuantBcdd*Proofs.v).  Mirrors
    oxidd-rules-bdd/src/lib.rs ([set_pop]) and
    oxidd-rules-bdd/src/complement_edge/apply_rec.rs: [quant], [apply_quant]
    (instantiated with [And], [Xor] and [UniqueNand]), [apply_quant_dispatch],
    [apply_quant_unique_dispatch], [restrict] with its tail-recursive [inner]
    and the [f_neg] / [vars_neg] polarity tracking, [substitute_prepare],
    [substitute], and the entry points of [BooleanFunctionQuant] /
    [FunctionSubst] / [restrict_edge] for [BCDDFunction]; in the style of
    DD/ApplyBcdd.v (edges = reference + complement tag, [cmk_node] = [reduce],
    abstract cache keyed by operator code and operand edges, unobservable
    edge order [lt], explicit fuel).

    [BCDDOp as u8]: And = 0, Xor = 1, Ite = 2, Substitute = 3, Restrict = 4,
    Forall = 5, Exists = 6, Unique = 7, ForallAnd = 8, ForallXor = 9,
    ExistAnd = 10, ExistXor = 11, UniqueAnd = 12, UniqueNand = 13,
    UniqueXor = 14.  The pair (Substitute, substitution id) is encoded into
    the operator code [15 + id] (the abstract cache has no numeric operands). *)

From Coq Require Import List NArith PArith Bool Arith FMapPositive.
From OxiVerif Require Import DD.Table DD.Sem DD.Build DD.Apply DD.ApplyBcdd DD.Quant.
Import ListNotations.

Definition ccode_restrict : N := 4%N.
Definition cqcode (q : quantifier) : N :=
  match q with QForall => 5 | QExists => 6 | QUnique => 7 end%N.

(** the const parameter [OP] of [apply_quant]: [And], [Xor], [UniqueNand] *)
Inductive aqop := AQAnd | AQXor | AQNand.

(** [BCDDOp::from_apply_quant(Q, OP)]; [None] = "invalid OP" (never instantiated) *)
Definition caqcode (q : quantifier) (o : aqop) : option N :=
  match q, o with
  | QForall, AQAnd => Some 8 | QForall, AQXor => Some 9
  | QExists, AQAnd => Some 10 | QExists, AQXor => Some 11
  | QUnique, AQAnd => Some 12 | QUnique, AQNand => Some 13 | QUnique, AQXor => Some 14
  | _, AQNand => None
  end%N.

Definition ccode_subst (id : N) : N := (15 + id)%N.

Definition is_term (e : edge) : bool := match eref e with RT _ => true | RN _ => false end.

(** [set_pop] on edges: the then-child is followed as stored *)
Fixpoint cset_pop (fuel : nat) (s : snap) (set : edge) (until : nat) : option edge :=
  match eref set with
  | RT _ => Some set
  | RN id =>
    match fuel with
    | O => None
    | S n =>
      match find_node s id with
      | None => None
      | Some nd =>
        if Nat.leb until (nstored nd) then Some set
        else
          match nchildren nd with
          | [t; _] => cset_pop n s t until
          | _ => None
          end
      end
    end
  end.

(** result of [restrict::inner] *)
Inductive crinner :=
| CRDone (r : edge)
| CRRec (vars f : edge) (f_neg : bool) (fnode : node).

(** [restrict::inner]; [f] is [fnode] at [flevel], [vars] is [vnode]; [f_neg] /
    [vars_neg] are the accumulated complement parities *)
Fixpoint crestrict_inner (fuel : nat) (s : snap) (f : edge) (f_neg : bool) (fnode : node) (flevel : nat)
         (vars : edge) (vars_neg : bool) (vnode : node) : option crinner :=
  match fuel with
  | O => None
  | S n =>
    let vlevel := nstored vnode in
    if Nat.ltb flevel vlevel then
      Some (CRRec (mkEdge (eref vars) vars_neg) f f_neg fnode)        (* f above vars *)
    else
      match nchildren vnode with
      | [vt; ve] =>
        if Nat.ltb vlevel flevel then
          (* vars above f *)
          match eref vt with
          | RN tid =>
            match find_node s tid with
            | Some nn => crestrict_inner n s f f_neg fnode flevel vt (xorb vars_neg (etag vt)) nn
            | None => None
            end
          | RT _ =>
            if vars_neg then
              match eref ve with
              | RN eid =>
                match find_node s eid with
                | Some nn => crestrict_inner n s f f_neg fnode flevel ve (negb (etag ve)) nn
                | None => None
                end
              | RT _ => Some (CRDone (mkEdge (eref f) f_neg))
              end
            else Some (CRDone (mkEdge (eref f) f_neg))
          end
        else
          (* top variable at the level of f *)
          match nchildren fnode with
          | [ft; fe] =>
            match eref vt with
            | RN tid =>
              (* x /\ phi: select the then branch *)
              match find_node s tid with
              | Some nn =>
                let f_neg' := xorb f_neg (etag ft) in
                match eref ft with
                | RN fid' =>
                  match find_node s fid' with
                  | Some fn' =>
                    crestrict_inner n s ft f_neg' fn' (nstored fn') vt (xorb vars_neg (etag vt)) nn
                  | None => None
                  end
                | RT _ => Some (CRDone (mkEdge (eref ft) f_neg'))
                end
              | None => None
              end
            | RT _ =>
              if vars_neg then
                (* not x /\ phi: select the else branch *)
                let f_neg' := xorb f_neg (etag fe) in
                match eref ve with
                | RN eid =>
                  match find_node s eid with
                  | Some nn =>
                    match eref fe with
                    | RN fid' =>
                      match find_node s fid' with
                      | Some fn' =>
                        crestrict_inner n s fe f_neg' fn' (nstored fn') ve (negb (etag ve)) nn
                      | None => None
                      end
                    | RT _ => Some (CRDone (mkEdge (eref fe) f_neg'))
                    end
                  | None => None
                  end
                | RT _ => Some (CRDone (mkEdge (eref fe) f_neg'))
                end
              else
                (* x: select the then branch *)
                Some (CRDone (mkEdge (eref ft) (xorb f_neg (etag ft))))
            end
          | _ => None
          end
      | _ => None
      end
  end.

(** [substitute_prepare] (edges) *)
Fixpoint cset_slot (l : list (option edge)) (i : nat) (x : edge) : list (option edge) :=
  match i, l with
  | O, [] => [Some x]
  | O, _ :: r => Some x :: r
  | S k, [] => None :: cset_slot [] k x
  | S k, y :: r => y :: cset_slot r k x
  end.

Fixpoint cprepare_slots (s : snap) (pairs : list (nat * edge)) (acc : list (option edge))
  : option (list (option edge)) :=
  match pairs with
  | [] => Some acc
  | (v, r) :: rest =>
    match nth_error (s_v2l s) v with
    | Some lvl => cprepare_slots s rest (cset_slot acc lvl r)
    | None => None
    end
  end.

Fixpoint cprepare_fill (s : snap) (slots : list (option edge)) (level : nat)
  : option (snap * list edge) :=
  match slots with
  | [] => Some (s, [])
  | Some e :: rest =>
    match cprepare_fill s rest (S level) with
    | Some (s', l) => Some (s', e :: l)
    | None => None
    end
  | None :: rest =>
    match cget_terminal s true, cget_terminal s false with
    | Some t1, Some t0 =>
      let '(s1, e) := get_or_insert s level [t1; t0] in
      match cprepare_fill s1 rest (S level) with
      | Some (s', l) => Some (s', e :: l)
      | None => None
      end
    | _, _ => None
    end
  end.

Definition csubstitute_prepare (s : snap) (pairs : list (nat * edge)) : option (snap * list edge) :=
  match cprepare_slots s pairs [] with
  | Some slots => cprepare_fill s slots 0
  | None => None
  end.

Section Lt.
Variable lt : edge -> edge -> bool.

Section Cache.
Variable C : Type.
Variable cget : C -> N -> list edge -> option edge.
Variable cadd : C -> N -> list edge -> edge -> C.

Notation cres := (option (snap * C * edge)).

(** the combination of the two cofactor results when the level is quantified:
    [apply_and(t, e)], [not(apply_and(not t, not e))], [apply_bin::<Xor>(t, e)] *)
Definition ccombine (s : snap) (c : C) (q : quantifier) (t e : edge) : cres :=
  match q with
  | QForall => capply_bin lt C cget cadd (S (nlevels s)) s c CAnd t e
  | QExists => onot C (capply_bin lt C cget cadd (S (nlevels s)) s c CAnd (enot t) (enot e))
  | QUnique => capply_bin lt C cget cadd (S (nlevels s)) s c CXor t e
  end.

Definition cfalse (s : snap) (c : C) : cres :=
  match cget_terminal s false with Some e => Some (s, c, e) | None => None end.

(** [quant::<Q>] *)
Fixpoint cquant_rec (fuel : nat) (s : snap) (c : C) (q : quantifier) (f vars : edge) : cres :=
  match fuel with
  | O => None
  | S n =>
    match eref f with
    | RT _ =>
      if negb (is_unique q) || is_term vars then Some (s, c, f) else cfalse s c
    | RN fid =>
      match find_node s fid with
      | None => None
      | Some fnode =>
        let flevel := nstored fnode in
        match (if is_unique q then Some vars else cset_pop (S (nlevels s)) s vars flevel) with
        | None => None
        | Some vars' =>
          match eref vars' with
          | RT _ => Some (s, c, f)
          | RN vid =>
            match find_node s vid with
            | None => None
            | Some vnode =>
              let vlevel := nstored vnode in
              if is_unique q && Nat.ltb vlevel flevel then cfalse s c
              else
                match cget c (cqcode q) [f; vars'] with
                | Some h => Some (s, c, h)
                | None =>
                  match ccofs (etag f) fnode,
                        (if Nat.eqb vlevel flevel
                         then match nchildren vnode with [vt; _] => Some vt | _ => None end
                         else Some vars') with
                  | Some (ft, fe), Some vt =>
                    match cquant_rec n s c q ft vt with
                    | None => None
                    | Some (s1, c1, t) =>
                      match cquant_rec n s1 c1 q fe vt with
                      | None => None
                      | Some (s2, c2, e) =>
                        if Nat.eqb flevel vlevel then
                          match ccombine s2 c2 q t e with
                          | None => None
                          | Some (s3, c3, res) => Some (s3, cadd c3 (cqcode q) [f; vars'] res, res)
                          end
                        else
                          let '(s3, h) := cmk_node s2 flevel t e in
                          Some (s3, cadd c2 (cqcode q) [f; vars'] h, h)
                      end
                    end
                  | _, _ => None
                  end
                end
            end
          end
        end
      end
    end
  end.

(** [apply_bin::<OP>] / [not(apply_and)] for the three instances of [OP] *)
Definition cplain (s : snap) (c : C) (o : aqop) (f g : edge) : cres :=
  match o with
  | AQAnd => capply_bin lt C cget cadd (S (nlevels s)) s c CAnd f g
  | AQXor => capply_bin lt C cget cadd (S (nlevels s)) s c CXor f g
  | AQNand => onot C (capply_bin lt C cget cadd (S (nlevels s)) s c CAnd f g)
  end.

(** [apply_quant::<Q, OP>] *)
Fixpoint capply_quant (fuel : nat) (s : snap) (c : C) (q : quantifier) (o : aqop) (f g vars : edge)
  : cres :=
  match fuel with
  | O => None
  | S n =>
    match caqcode q o with
    | None => None
    | Some operator =>
      match (match o with AQXor => cterminal_xor s f g | _ => cterminal_and s f g end) with
      | KFail => None
      | KDone h =>
        cquant_rec (S (nlevels s)) s c q (match o with AQNand => enot h | _ => h end) vars
      | KNodes fnode0 gnode0 =>
        let '(f, fnode, g, gnode) :=
          if lt f g then (f, fnode0, g, gnode0) else (g, gnode0, f, fnode0) in
        let flevel := nstored fnode in
        let glevel := nstored gnode in
        let min_level := Nat.min flevel glevel in
        match (if is_unique q then Some vars else cset_pop (S (nlevels s)) s vars min_level) with
        | None => None
        | Some vars' =>
          match eref vars' with
          | RT _ => cplain s c o f g
          | RN vid =>
            match find_node s vid with
            | None => None
            | Some vnode =>
              let vlevel := nstored vnode in
              if Nat.ltb vlevel min_level && is_unique q then cfalse s c
              else if Nat.ltb vlevel min_level then cplain s c o f g
              else
                match cget c operator [f; g; vars'] with
                | Some h => Some (s, c, h)
                | None =>
                  match (if Nat.eqb vlevel min_level
                         then match nchildren vnode with [vt; _] => Some vt | _ => None end
                         else Some vars'),
                        (if Nat.leb flevel glevel then ccofs (etag f) fnode else Some (f, f)),
                        (if Nat.leb glevel flevel then ccofs (etag g) gnode else Some (g, g)) with
                  | Some vt, Some (ft, fe), Some (gt', ge) =>
                    match capply_quant n s c q o ft gt' vt with
                    | None => None
                    | Some (s1, c1, t) =>
                      match capply_quant n s1 c1 q o fe ge vt with
                      | None => None
                      | Some (s2, c2, e) =>
                        if Nat.eqb min_level vlevel then
                          match ccombine s2 c2 q t e with
                          | None => None
                          | Some (s3, c3, res) => Some (s3, cadd c3 operator [f; g; vars'] res, res)
                          end
                        else
                          let '(s3, h) := cmk_node s2 min_level t e in
                          Some (s3, cadd c2 operator [f; g; vars'] h, h)
                      end
                    end
                  | _, _, _ => None
                  end
                end
            end
          end
        end
      end
    end
  end.

Definition aq (s : snap) (c : C) (q : quantifier) (o : aqop) (f g vars : edge) : cres :=
  capply_quant (S (nlevels s)) s c q o f g vars.

(** [apply_quant_dispatch::<Q, QN>] ([qn] = the dual quantifier) *)
Definition capply_quant_dispatch (s : snap) (c : C) (q qn : quantifier) (op : bop) (f g vars : edge)
  : cres :=
  match op with
  | OAnd => aq s c q AQAnd f g vars
  | OOr => onot C (aq s c qn AQAnd (enot f) (enot g) vars)
  | OXor => aq s c q AQXor f g vars
  | OEquiv => onot C (aq s c qn AQXor f g vars)
  | ONand => onot C (aq s c qn AQAnd f g vars)
  | ONor => aq s c q AQAnd (enot f) (enot g) vars
  | OImp => onot C (aq s c qn AQAnd f (enot g) vars)
  | OImpStrict => aq s c q AQAnd (enot f) g vars
  end.

(** [apply_quant_unique_dispatch] *)
Definition capply_quant_unique_dispatch (s : snap) (c : C) (op : bop) (f g vars : edge) : cres :=
  match op with
  | OAnd => aq s c QUnique AQAnd f g vars
  | OOr => aq s c QUnique AQNand (enot f) (enot g) vars
  | OXor => aq s c QUnique AQXor f g vars
  | OEquiv => aq s c QUnique AQXor (enot f) g vars
  | ONand => aq s c QUnique AQNand f g vars
  | ONor => aq s c QUnique AQAnd (enot f) (enot g) vars
  | OImp => aq s c QUnique AQNand f (enot g) vars
  | OImpStrict => aq s c QUnique AQAnd (enot f) g vars
  end.

(** [restrict] *)
Fixpoint crestrict (fuel : nat) (s : snap) (c : C) (f vars : edge) : cres :=
  match fuel with
  | O => None
  | S n =>
    match eref f, eref vars with
    | RN fid, RN vid =>
      match find_node s fid, find_node s vid with
      | Some fnode, Some vnode =>
        match crestrict_inner (S (nlevels s + nlevels s)) s f (etag f) fnode (nstored fnode)
                              vars (etag vars) vnode with
        | None => None
        | Some (CRDone r) => Some (s, c, r)
        | Some (CRRec vars' f' f_neg fnode') =>
          let f_untagged := untag f' in
          match cget c ccode_restrict [f_untagged; vars'] with
          | Some r => Some (s, c, retag f_neg r)
          | None =>
            match nchildren fnode' with
            | [ft; fe] =>
              match crestrict n s c ft vars' with
              | None => None
              | Some (s1, c1, t) =>
                match crestrict n s1 c1 fe vars' with
                | None => None
                | Some (s2, c2, e) =>
                  let '(s3, h) := cmk_node s2 (nstored fnode') t e in
                  Some (s3, cadd c2 ccode_restrict [f_untagged; vars'] h, retag f_neg h)
                end
              end
            | _ => None
            end
          end
        end
      | _, _ => None
      end
    | _, _ => Some (s, c, f)
    end
  end.

(** [substitute] *)
Fixpoint csubstitute (fuel : nat) (s : snap) (c : C) (f : edge) (subst : list edge) (id : N) : cres :=
  match fuel with
  | O => None
  | S n =>
    match eref f with
    | RT _ => Some (s, c, f)
    | RN fid =>
      match find_node s fid with
      | None => None
      | Some fnode =>
        let level := nstored fnode in
        if Nat.leb (length subst) level then Some (s, c, f)
        else
          match cget c (ccode_subst id) [f] with
          | Some h => Some (s, c, h)
          | None =>
            match ccofs (etag f) fnode with
            | Some (ft, fe) =>
              match csubstitute n s c ft subst id with
              | None => None
              | Some (s1, c1, t) =>
                match csubstitute n s1 c1 fe subst id with
                | None => None
                | Some (s2, c2, e) =>
                  match nth_error subst level with
                  | None => None
                  | Some r =>
                    match capply_ite lt C cget cadd (S (nlevels s2)) s2 c2 r t e with
                    | None => None
                    | Some (s3, c3, res) => Some (s3, cadd c3 (ccode_subst id) [f] res, res)
                    end
                  end
                end
              end
            | None => None
            end
          end
      end
    end
  end.

(** ** Entry points ([SequentialRecursor]) *)

Definition cquant_edge (s : snap) (c : C) (q : quantifier) (root vars : edge) : cres :=
  cquant_rec (S (nlevels s)) s c q root vars.

(** [apply_forall_edge], [apply_exists_edge], [apply_unique_edge] *)
Definition capply_quant_edge (s : snap) (c : C) (q : quantifier) (op : bop) (lhs rhs vars : edge) : cres :=
  match q with
  | QForall => capply_quant_dispatch s c QForall QExists op lhs rhs vars
  | QExists => capply_quant_dispatch s c QExists QForall op lhs rhs vars
  | QUnique => capply_quant_unique_dispatch s c op lhs rhs vars
  end.

Definition crestrict_edge (s : snap) (c : C) (root vars : edge) : cres :=
  crestrict (S (nlevels s)) s c root vars.

Definition csubstitute_edge (s : snap) (c : C) (f : edge) (pairs : list (nat * edge)) (id : N) : cres :=
  match csubstitute_prepare s pairs with
  | None => None
  | Some (s0, subst) => csubstitute (S (nlevels s0)) s0 c f subst id
  end.

End Cache.
End Lt.
