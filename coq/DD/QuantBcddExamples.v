(** * The hypotheses of the BCDD theorems of C04 are satisfiable, and the
    algorithms run: the complement-edge table [ex_bcdd] (DD/TableProofs.v:
    2 levels, identity order, node 1 = "x1", node 2 = "x0 <-> x1"),
    [vm_compute] runs of the entry points of DD/QuantBcdd.v. *)

From Coq Require Import List NArith PArith Bool Arith Lia FMapPositive.
From OxiVerif Require Import DD.Table DD.TableProofs DD.Sem DD.Build DD.BuildProofs DD.Apply DD.ApplyProofs
  DD.ApplyBcdd DD.ApplyBcddProofs DD.ApplyBcddIte DD.ApplyBcddEval DD.ApplyBcddExamples
  DD.Quant DD.QuantLemmas DD.QuantBcdd DD.QuantBcddLemmas DD.SubstBcddProofs DD.QuantBcddTop.
Import ListNotations.

Definition nx1 := mkEdge (RN 1) true.      (* not x1 *)
Definition x0n := mkNode 0 [tT; tF] 0 0.   (* the node of x0, created by the runs below under id 3 *)

Definition no_substC : N -> option (list (nat * edge)) := fun _ => None.

Lemma qcacheokc_empty : forall Sg s, QCacheOKC eac_get Sg s [].
Proof. intros Sg s. split; [apply eac_empty_ok|]. intros code args r E. discriminate. Qed.

(** node 1 is the variable set {x1}; its complement edge is the cube (not x1) *)
Example ex_varsetC : is_varsetC ex_bcdd n1 [1].
Proof. intros a. cbv. destruct (a 1); reflexivity. Qed.

Example ex_cubeC_neg : is_cubeC ex_bcdd nx1 [(1, false)].
Proof. intros a. cbv. destruct (a 1); reflexivity. Qed.

Example ex_bcdd_quant_hyps :
  BcOK ex_bcdd /\ QCacheOKC eac_get no_substC ex_bcdd [] /\ lossyC eac_get eac_add /\
  ref_ok ex_bcdd (eref n2) /\ ref_ok ex_bcdd (eref n1) /\
  (forall v, In v [1] -> v < nlevels ex_bcdd) /\ is_varsetC ex_bcdd n1 [1] /\ NoDup [1] /\
  NoDup (map fst [(1, false)]) /\ is_cubeC ex_bcdd nx1 [(1, false)].
Proof.
  split; [exact ex_bcdd_bcok|]. split; [apply qcacheokc_empty|]. split; [exact eac_lossy|].
  split; [eexists; reflexivity|]. split; [eexists; reflexivity|].
  split; [intros v [<-|[]]; vm_compute; lia|]. split; [exact ex_varsetC|].
  split; [repeat constructor; intros []|]. split; [repeat constructor; intros [] | exact ex_cubeC_neg].
Qed.

(** exists x1. (x0 <-> x1) = true, forall = false, unique = true; over the set
    {x0, x1} (node 2 read along its then-children) the operand x1 does not
    contain x0: unique gives false, exists skips it *)
Example ex_c_quant :
  new_nodes (cquant_edge lt_id eacache eac_get eac_add ex_bcdd [] QExists n2 n1) = Some ([], tT) /\
  new_nodes (cquant_edge lt_id eacache eac_get eac_add ex_bcdd [] QForall n2 n1) = Some ([], tF) /\
  new_nodes (cquant_edge lt_id eacache eac_get eac_add ex_bcdd [] QUnique n2 n1) = Some ([], tT) /\
  new_nodes (cquant_edge lt_id eacache eac_get eac_add ex_bcdd [] QUnique n1 n2) = Some ([], tF) /\
  new_nodes (cquant_edge lt_id eacache eac_get eac_add ex_bcdd [] QExists n1 n2) = Some ([], tT).
Proof. vm_compute. repeat split; reflexivity. Qed.

(** restrict (x0 <-> x1) by x1 gives x0, by (not x1) gives not x0 (the same
    node under a complemented edge); the complemented operand by (not x1): x0 *)
Example ex_c_restrict :
  new_nodes (crestrict_edge eacache eac_get eac_add ex_bcdd [] n2 n1) = Some ([(3%positive, x0n)], mkEdge (RN 3) false) /\
  new_nodes (crestrict_edge eacache eac_get eac_add ex_bcdd [] n2 nx1) = Some ([(3%positive, x0n)], mkEdge (RN 3) true) /\
  new_nodes (crestrict_edge eacache eac_get eac_add ex_bcdd [] (enot n2) nx1) = Some ([(3%positive, x0n)], mkEdge (RN 3) false).
Proof. vm_compute. repeat split; reflexivity. Qed.

(** exists x1. (x0 <-> x1) /\ x1 = x0;  forall x1. (x0 <-> x1) \/ not x1 = x0
    (dispatch row: not exists (not f /\ not g));  unique x1. (x0 <-> x1) \/ x1 = x0
    (row UniqueNand (not f) (not g));  unique x1. (x0 <-> x1) -> x1 = not x0 *)
Example ex_c_apply_quant :
  new_nodes (capply_quant_edge lt_id eacache eac_get eac_add ex_bcdd [] QExists OAnd n2 n1 n1)
    = Some ([(3%positive, x0n)], mkEdge (RN 3) false) /\
  new_nodes (capply_quant_edge lt_id eacache eac_get eac_add ex_bcdd [] QForall OOr n2 nx1 n1)
    = Some ([(3%positive, x0n)], mkEdge (RN 3) false) /\
  new_nodes (capply_quant_edge lt_id eacache eac_get eac_add ex_bcdd [] QUnique OOr n2 n1 n1)
    = Some ([(3%positive, x0n)], mkEdge (RN 3) false) /\
  new_nodes (capply_quant_edge lt_id eacache eac_get eac_add ex_bcdd [] QUnique OImp n2 n1 n1)
    = Some ([(3%positive, x0n)], mkEdge (RN 3) true).
Proof. vm_compute. repeat split; reflexivity. Qed.

(** x1 := not x1 in (x0 <-> x1) gives its complement (the variable node of the
    unlisted level 0 is created); x0 := x1 gives true; the second application of
    the first object is served from the cache *)
Example ex_c_substitute :
  (match csubstitute_edge lt_id eacache eac_get eac_add ex_bcdd [] n2 [(1, nx1)] 7%N with
   | Some (s, c, r) =>
     r = mkEdge (RN 2) true /\ eac_get c (ccode_subst 7) [n2] = Some r /\
     new_nodes (csubstitute_edge lt_id eacache eac_get eac_add s c n2 [(1, nx1)] 7%N)
       = Some ([(3%positive, x0n)], r)
   | None => False end) /\
  new_nodes (csubstitute_edge lt_id eacache eac_get eac_add ex_bcdd [] n2 [(0, n1)] 8%N) = Some ([], tT).
Proof. vm_compute. repeat split; reflexivity. Qed.

Example ex_bcdd_subst_hyps :
  let Sg := csg_add no_substC 7%N [(1, nx1)] in
  QCacheOKC eac_get Sg ex_bcdd [] /\ NoDup (map fst [(1, nx1)]) /\
  (forall v r, In (v, r) [(1, nx1)] -> v < nlevels ex_bcdd /\ ref_ok ex_bcdd (eref r)) /\
  Sg 7%N = Some [(1, nx1)].
Proof.
  split; [apply qcacheokc_empty|]. split; [repeat constructor; intros []|].
  split; [|reflexivity]. intros v r [E|[]]. inversion E; subst. split; [vm_compute; lia | eexists; reflexivity].
Qed.
