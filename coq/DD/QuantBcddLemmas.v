(** * Infrastructure for the proofs about DD/QuantBcdd.v (complement-edge kind)

    The level-indexed semantics ([qlevs], [restr], DD/QuantLemmas.v) is shared
    with the plain BDD kind; this file adds what depends on edges with
    complement tags: the chains the algorithms read ([VChainC], [LChainC] with
    the polarity of [restrict]'s walk), [cset_pop], the frame lemmas for
    [capply_bin] / [capply_ite], the cache invariant [QCacheOKC] and
    [qcresult_ok]. *)

From Coq Require Import List NArith PArith Bool Arith Lia FMapPositive.
From OxiVerif Require Import DD.Table DD.TableProofs DD.Canon DD.CanonBcdd DD.Sem DD.Build DD.BuildProofs
  DD.Apply DD.ApplyProofs DD.ApplyBcdd DD.ApplyBcddProofs DD.ApplyBcddIte DD.PickInsert
  DD.Quant DD.QuantLemmas DD.QuantBcdd.
Import ListNotations.

Lemma denc_cext : forall s e phi, WF s -> DenC s e phi -> cext phi.
Proof. intros s e phi H D. eapply cext_indep. apply (denc_indep s e phi H D). Qed.

(** the function of an edge to the terminal depends on no level *)
Lemma denc_term_nodep : forall s e t phi l, DenC s e phi -> eref e = RT t -> nodep phi l.
Proof.
  intros s e t phi l D Er c i Hc Hi.
  rewrite (denc_term s e t phi D Er c Hc), (denc_term s e t phi D Er _ (bchoice_upd c l i Hc Hi)).
  reflexivity.
Qed.

Lemma denc_term_const : forall s e t phi c c', DenC s e phi -> eref e = RT t ->
  bchoice c -> bchoice c' -> phi c = phi c'.
Proof.
  intros s e t phi c c' D Er Hc Hc'.
  rewrite (denc_term s e t phi D Er c Hc), (denc_term s e t phi D Er c' Hc'). reflexivity.
Qed.

(** ** Canonical denotation of an edge; substitution semantics *)

Definition dfunC (s : snap) (e : edge) : cfun :=
  fun c => match semc s (S (nlevels s)) e c with Some b => b | None => false end.

Lemma den_dfunC : forall s e, BcOK s -> ref_ok s (eref e) -> DenC s e (dfunC s e).
Proof.
  intros s e B Hok. split; [exact Hok|]. intros c Hc. unfold dfunC.
  destruct (denc_exists s e B Hok) as [phi [_ D]]. rewrite (D c Hc). reflexivity.
Qed.

Lemma dfunC_den : forall s e phi, DenC s e phi -> forall c, bchoice c -> dfunC s e c = phi c.
Proof. intros s e phi [_ D] c Hc. unfold dfunC. rewrite (D c Hc). reflexivity. Qed.

Lemma dfunC_extends : forall s s' e c, WF s -> extends s s' -> ref_ok s (eref e) ->
  dfunC s' e c = dfunC s e c.
Proof.
  intros s s' e c H X Hok. unfold dfunC.
  rewrite (ext_nlevels _ _ X), (semc_extends s s' H X _ e c Hok). reflexivity.
Qed.

Definition schC (s : snap) (sv : list edge) (c : nat -> nat) : nat -> nat :=
  fun l => match nth_error sv l with
           | Some r => if dfunC s r c then 0 else 1
           | None => c l
           end.

Definition csubstC (s : snap) (sv : list edge) (phi : cfun) : cfun := fun c => phi (schC s sv c).

Definition pschC (s : snap) (pairs : list (nat * edge)) (c : nat -> nat) : nat -> nat :=
  fun l => match nth_error (s_l2v s) l with
           | Some v => match assoc_nat pairs v with
                       | Some r => if dfunC s r c then 0 else 1
                       | None => c l
                       end
           | None => c l
           end.

Definition psubstC (s : snap) (pairs : list (nat * edge)) (phi : cfun) : cfun :=
  fun c => phi (pschC s pairs c).

Definition pairs_okC (s : snap) (pairs : list (nat * edge)) : Prop :=
  forall v r, In (v, r) pairs -> ref_ok s (eref r).

Lemma schC_bchoice : forall s sv c, bchoice c -> bchoice (schC s sv c).
Proof.
  intros s sv c Hc l. unfold schC. destruct (nth_error sv l); [destruct (dfunC s e c); lia | apply Hc].
Qed.

Lemma pschC_bchoice : forall s pairs c, bchoice c -> bchoice (pschC s pairs c).
Proof.
  intros s pairs c Hc l. unfold pschC. destruct (nth_error (s_l2v s) l) as [v|]; [|apply Hc].
  destruct (assoc_nat pairs v) as [r|]; [destruct (dfunC s r c); lia | apply Hc].
Qed.

Lemma schC_extends : forall s s' sv c, WF s -> extends s s' -> Forall (fun e => ref_ok s (eref e)) sv ->
  ceq (schC s' sv c) (schC s sv c).
Proof.
  intros s s' sv c H X F l. unfold schC. destruct (nth_error sv l) as [r|] eqn:E; [|reflexivity].
  rewrite (dfunC_extends s s' r c H X); [reflexivity|].
  rewrite Forall_forall in F. apply F. eapply nth_error_In; eauto.
Qed.

Lemma pschC_extends : forall s s' pairs c, WF s -> extends s s' -> pairs_okC s pairs ->
  ceq (pschC s' pairs c) (pschC s pairs c).
Proof.
  intros s s' pairs c H X F l. unfold pschC. rewrite (ext_l2v _ _ X).
  destruct (nth_error (s_l2v s) l) as [v|]; [|reflexivity].
  destruct (assoc_nat pairs v) as [r|] eqn:E; [|reflexivity].
  rewrite (dfunC_extends s s' r c H X); [reflexivity|]. apply (F v r). apply assoc_nat_In. exact E.
Qed.

Lemma csubstC_extends : forall s s' sv phi, WF s -> extends s s' ->
  Forall (fun e => ref_ok s (eref e)) sv -> cext phi ->
  forall c, bchoice c -> csubstC s' sv phi c = csubstC s sv phi c.
Proof.
  intros s s' sv phi H X F Xp c Hc. unfold csubstC.
  apply Xp; auto using schC_bchoice. apply schC_extends; assumption.
Qed.

Lemma psubstC_extends : forall s s' pairs phi, WF s -> extends s s' -> pairs_okC s pairs -> cext phi ->
  forall c, bchoice c -> psubstC s' pairs phi c = psubstC s pairs phi c.
Proof.
  intros s s' pairs phi H X F Xp c Hc. unfold psubstC.
  apply Xp; auto using pschC_bchoice. apply pschC_extends; assumption.
Qed.

Lemma psubstC_ext : forall s pairs phi phi', (forall c, bchoice c -> phi c = phi' c) ->
  forall c, bchoice c -> psubstC s pairs phi c = psubstC s pairs phi' c.
Proof. intros s pairs phi phi' E c Hc. unfold psubstC. apply E. apply pschC_bchoice. exact Hc. Qed.

Lemma pairs_okC_extends : forall s s' pairs, extends s s' -> pairs_okC s pairs -> pairs_okC s' pairs.
Proof. intros s s' pairs X F v r Hin. apply (ext_ref_ok _ _ _ X). apply (F v r Hin). Qed.

Definition SvOKC (s : snap) (sv : list edge) (pairs : list (nat * edge)) : Prop :=
  Forall (fun e => ref_ok s (eref e)) sv /\ pairs_okC s pairs /\
  forall c, bchoice c -> ceq (schC s sv c) (pschC s pairs c).

Lemma svokc_extends : forall s s' sv pairs, WF s -> extends s s' -> SvOKC s sv pairs -> SvOKC s' sv pairs.
Proof.
  intros s s' sv pairs H X [F [P E]]. split; [|split].
  - eapply Forall_impl; [|exact F]. intros r. apply (ext_ref_ok _ _ _ X).
  - apply (pairs_okC_extends s s' pairs X P).
  - intros c Hc l. rewrite (schC_extends s s' sv c H X F l), (pschC_extends s s' pairs c H X P l).
    apply E. exact Hc.
Qed.

(** ** Chains *)

(** the levels along the then-children of a variable set *)
Inductive VChainC (s : snap) : edge -> list nat -> Prop :=
| VCC_T : forall e t, eref e = RT t -> VChainC s e []
| VCC_N : forall e id nd t x L, eref e = RN id -> find_node s id = Some nd -> nchildren nd = [t; x] ->
    VChainC s t L -> VChainC s e (nlevel nd :: L).

(** the literals [restrict::inner] reads of a cube given as (reference,
    accumulated polarity): then-child inner = positive literal (continue with
    it), then-child terminal = positive literal if the polarity is even (last
    literal), negative literal otherwise (continue with the else-child) *)
Inductive LChainC (s : snap) : ref -> bool -> list (nat * bool) -> Prop :=
| LCC_T : forall t neg, LChainC s (RT t) neg []
| LCC_pos : forall id neg nd t x tid M, find_node s id = Some nd -> nchildren nd = [t; x] ->
    eref t = RN tid -> LChainC s (RN tid) (xorb neg (etag t)) M ->
    LChainC s (RN id) neg ((nlevel nd, true) :: M)
| LCC_pos_last : forall id nd t x tt, find_node s id = Some nd -> nchildren nd = [t; x] ->
    eref t = RT tt -> LChainC s (RN id) false [(nlevel nd, true)]
| LCC_neg : forall id nd t x tt M, find_node s id = Some nd -> nchildren nd = [t; x] ->
    eref t = RT tt -> LChainC s (eref x) (negb (etag x)) M ->
    LChainC s (RN id) true ((nlevel nd, false) :: M).

Section Chains.
Variable s : snap.
Hypothesis B : BcOK s.

Lemma vchainc_asc : forall e L, VChainC s e L -> asc (rlevel s (eref e)) L.
Proof.
  intros e L V. induction V as [e t Er|e id nd t x L Er En Ech V IH]; [exact I|].
  rewrite Er, (rlevel_node s id nd En). split; [lia|].
  assert (Ht : nth_error (nchildren nd) 0 = Some t) by (rewrite Ech; reflexivity).
  destruct (child_nth s (bc_wf s B) id nd 0 t En Ht) as [_ Hl]. apply (asc_mono _ _ _ IH). lia.
Qed.

Lemma vchainc_fun : forall e L L', VChainC s e L -> VChainC s e L' -> L = L'.
Proof.
  intros e L L' V. revert L'. induction V as [e t Er|e id nd t x L Er En Ech V IH]; intros L' V'.
  - inversion V' as [|e' id' nd' t' x' L2 Er' En' Ech' V2]; subst; [reflexivity | congruence].
  - inversion V' as [e' t' Er'|e' id' nd' t' x' L2 Er' En' Ech' V2]; subst; [congruence|].
    rewrite Er in Er'. inversion Er'; subst id'. rewrite En in En'. inversion En'; subst nd'.
    rewrite Ech in Ech'. inversion Ech'; subst t' x'. f_equal. apply IH. exact V2.
Qed.

Lemma vchainc_exists : forall n e, ref_ok s (eref e) -> nlevels s - rlevel s (eref e) < n ->
  exists L, VChainC s e L.
Proof.
  induction n as [|n IH]; intros e Hok Hn; [lia|].
  destruct (eref e) as [t|id] eqn:Er; [exists []; eapply VCC_T; eauto|].
  destruct Hok as [nd En]. destruct (bcdd_children s id nd B En) as [t [x Ech]].
  assert (Ht : nth_error (nchildren nd) 0 = Some t) by (rewrite Ech; reflexivity).
  destruct (child_nth s (bc_wf s B) id nd 0 t En Ht) as [Ot Hl].
  rewrite (rlevel_node s id nd En) in Hn.
  pose proof (rlevel_le s (bc_wf s B) (eref t)).
  destruct (IH t Ot ltac:(lia)) as [L V]. exists (nlevel nd :: L). eapply VCC_N; eauto.
Qed.

Lemma vchainc_total : forall e, ref_ok s (eref e) -> exists L, VChainC s e L.
Proof.
  intros e Hok. apply (vchainc_exists (S (nlevels s)) e Hok).
  pose proof (rlevel_le s (bc_wf s B) (eref e)). lia.
Qed.

Lemma vchainc_lt : forall e L l, VChainC s e L -> In l L -> l < nlevels s.
Proof.
  intros e L l V. induction V as [e t Er|e id nd t x L Er En Ech V IH]; intros Hin; [destruct Hin|].
  destruct Hin as [<-|Hin]; [apply (wf_level s (bc_wf s B) id nd En) | auto].
Qed.

Lemma lchainc_asc : forall r neg M, LChainC s r neg M -> asc (rlevel s r) (map fst M).
Proof.
  intros r neg M V.
  induction V as [t neg|id neg nd t x tid M En Ech Et V IH|id nd t x tt En Ech Et
                  |id nd t x tt M En Ech Et V IH]; [exact I| | |];
    rewrite (rlevel_node s id nd En); (split; [simpl; lia|]).
  - assert (Ht : nth_error (nchildren nd) 0 = Some t) by (rewrite Ech; reflexivity).
    destruct (child_nth s (bc_wf s B) id nd 0 t En Ht) as [_ Hl]. rewrite Et in Hl.
    apply (asc_mono _ _ _ IH). cbn [fst]. lia.
  - exact I.
  - assert (Ht : nth_error (nchildren nd) 1 = Some x) by (rewrite Ech; reflexivity).
    destruct (child_nth s (bc_wf s B) id nd 1 x En Ht) as [_ Hl]. apply (asc_mono _ _ _ IH). cbn [fst]. lia.
Qed.

Lemma lchainc_fun : forall r neg M M', LChainC s r neg M -> LChainC s r neg M' -> M = M'.
Proof.
  intros r neg M M' V. revert M'.
  induction V as [t neg|id neg nd t x tid M En Ech Et V IH|id nd t x tt En Ech Et
                  |id nd t x tt M En Ech Et V IH]; intros M' V'.
  - inversion V'. reflexivity.
  - inversion V' as [|id' neg' nd' t' x' tid' M2 En' Ech' Et' V2|id' nd' t' x' tt' En' Ech' Et'
                     |id' nd' t' x' tt' M2 En' Ech' Et' V2]; subst;
      rewrite En in En'; inversion En'; subst nd'; rewrite Ech in Ech'; inversion Ech'; subst t' x';
      try congruence.
    rewrite Et in Et'. inversion Et'; subst tid'. f_equal. apply IH. exact V2.
  - inversion V' as [|id' neg' nd' t' x' tid' M2 En' Ech' Et' V2|id' nd' t' x' tt' En' Ech' Et'
                     |id' nd' t' x' tt' M2 En' Ech' Et' V2]; subst;
      rewrite En in En'; inversion En'; subst nd'; rewrite Ech in Ech'; inversion Ech'; subst t' x';
      first [congruence | reflexivity].
  - inversion V' as [|id' neg' nd' t' x' tid' M2 En' Ech' Et' V2|id' nd' t' x' tt' En' Ech' Et'
                     |id' nd' t' x' tt' M2 En' Ech' Et' V2]; subst;
      rewrite En in En'; inversion En'; subst nd'; rewrite Ech in Ech'; inversion Ech'; subst t' x';
      try congruence.
    f_equal. apply IH. exact V2.
Qed.

Lemma lchainc_exists : forall n r neg, ref_ok s r -> nlevels s - rlevel s r < n ->
  exists M, LChainC s r neg M.
Proof.
  induction n as [|n IH]; intros r neg Hok Hn; [lia|].
  destruct r as [t|id]; [exists []; constructor|].
  destruct Hok as [nd En]. destruct (bcdd_children s id nd B En) as [t [x Ech]].
  assert (Ht : nth_error (nchildren nd) 0 = Some t) by (rewrite Ech; reflexivity).
  assert (Hx : nth_error (nchildren nd) 1 = Some x) by (rewrite Ech; reflexivity).
  destruct (child_nth s (bc_wf s B) id nd 0 t En Ht) as [Ot Hlt].
  destruct (child_nth s (bc_wf s B) id nd 1 x En Hx) as [Ox Hlx].
  rewrite (rlevel_node s id nd En) in Hn.
  pose proof (rlevel_le s (bc_wf s B) (eref t)). pose proof (rlevel_le s (bc_wf s B) (eref x)).
  destruct (eref t) as [tt|tid] eqn:Et.
  - destruct neg.
    + destruct (IH (eref x) (negb (etag x)) Ox ltac:(lia)) as [M V].
      exists ((nlevel nd, false) :: M). eapply LCC_neg; eauto.
    + exists [(nlevel nd, true)]. eapply LCC_pos_last; eauto.
  - destruct (IH (RN tid) (xorb neg (etag t)) Ot ltac:(lia)) as [M V].
    exists ((nlevel nd, true) :: M). eapply LCC_pos; eauto.
Qed.

Lemma lchainc_total : forall r neg, ref_ok s r -> exists M, LChainC s r neg M.
Proof.
  intros r neg Hok. apply (lchainc_exists (S (nlevels s)) r neg Hok).
  pose proof (rlevel_le s (bc_wf s B) r). lia.
Qed.

End Chains.

Lemma vchainc_extends : forall s s' e L, extends s s' -> VChainC s e L -> VChainC s' e L.
Proof.
  intros s s' e L X V. induction V as [e t Er|e id nd t x L Er En Ech V IH]; [eapply VCC_T; eauto|].
  eapply VCC_N; eauto. apply (ext_nodes _ _ X). exact En.
Qed.

Lemma lchainc_extends : forall s s' r neg M, extends s s' -> LChainC s r neg M -> LChainC s' r neg M.
Proof.
  intros s s' r neg M X V.
  induction V as [t neg|id neg nd t x tid M En Ech Et V IH|id nd t x tt En Ech Et
                  |id nd t x tt M En Ech Et V IH]; [constructor| | |].
  - eapply LCC_pos; eauto. apply (ext_nodes _ _ X). exact En.
  - eapply LCC_pos_last; eauto. apply (ext_nodes _ _ X). exact En.
  - eapply LCC_neg; eauto. apply (ext_nodes _ _ X). exact En.
Qed.

Lemma vchainc_T_inv : forall s e t L, VChainC s e L -> eref e = RT t -> L = [].
Proof. intros s e t L V Er. inversion V; subst; [reflexivity | congruence]. Qed.

Lemma vchainc_N_inv : forall s e id nd L, VChainC s e L -> eref e = RN id -> find_node s id = Some nd ->
  exists t x L', nchildren nd = [t; x] /\ L = nlevel nd :: L' /\ VChainC s t L'.
Proof.
  intros s e id nd L V Er En. inversion V as [e' t' Er'|e' id' nd' t x L' Er' En' Ech V']; subst; [congruence|].
  rewrite Er in Er'. inversion Er'; subst id'. rewrite En in En'. inversion En'; subst nd'.
  exists t, x, L'. auto.
Qed.

(** ** [cset_pop] *)

Lemma cset_pop_S : forall n s set until,
  cset_pop (S n) s set until =
  match eref set with
  | RT _ => Some set
  | RN id =>
    match find_node s id with
    | None => None
    | Some nd =>
      if Nat.leb until (nstored nd) then Some set
      else match nchildren nd with
           | [t; _] => cset_pop n s t until
           | _ => None
           end
    end
  end.
Proof. intros n s set until. simpl. destruct (eref set); reflexivity. Qed.

Lemma cset_pop_ok : forall s, BcOK s -> forall fuel vars L until,
  ref_ok s (eref vars) -> VChainC s vars L -> nlevels s - rlevel s (eref vars) < fuel ->
  until <= nlevels s ->
  exists vars' L', cset_pop fuel s vars until = Some vars' /\ ref_ok s (eref vars') /\
    VChainC s vars' L' /\ until <= rlevel s (eref vars') /\
    exists pre, L = pre ++ L' /\ forall l, In l pre -> l < until.
Proof.
  intros s B. pose proof (bc_wf s B) as H.
  induction fuel as [|n IH]; intros vars L until Hok V Hf Hu; [lia|].
  rewrite cset_pop_S. destruct V as [e t Er|e id nd t x L Er En Ech V].
  - rewrite Er. exists e, []. split; [reflexivity|]. split; [exact Hok|].
    split; [eapply VCC_T; eauto|]. rewrite Er. simpl rlevel. split; [exact Hu|].
    exists []. split; [reflexivity | intros l []].
  - rewrite Er, En, (wf_stored s H id nd En). rewrite Er, (rlevel_node s id nd En) in Hf.
    destruct (Nat.leb_spec until (nlevel nd)) as [Hle|Hgt].
    + exists e, (nlevel nd :: L). split; [reflexivity|]. split; [exact Hok|].
      split; [eapply VCC_N; eauto|]. rewrite Er, (rlevel_node s id nd En).
      split; [exact Hle|]. exists []. split; [reflexivity | intros l []].
    + rewrite Ech.
      assert (Ht : nth_error (nchildren nd) 0 = Some t) by (rewrite Ech; reflexivity).
      destruct (child_nth s H id nd 0 t En Ht) as [Ot Hl].
      pose proof (rlevel_le s H (eref t)).
      destruct (IH t L until Ot V ltac:(lia) Hu) as [vars' [L' [E [O' [V' [Hu' [pre [EL Hpre]]]]]]]].
      exists vars', L'. split; [exact E|]. split; [exact O'|]. split; [exact V'|].
      split; [exact Hu'|].
      exists (nlevel nd :: pre). split; [simpl; rewrite EL; reflexivity|].
      intros l [<-|Hin]; [exact Hgt | apply Hpre; exact Hin].
Qed.

(** ** Frame lemmas for the BCDD apply algorithms *)

Section Frame.
Variable lt : edge -> edge -> bool.
Variable C : Type.
Variable cget : C -> N -> list edge -> option edge.
Variable cadd : C -> N -> list edge -> edge -> C.
Hypothesis Hlossy : lossyC cget cadd.

(** everything [c'] serves under an operator code above [Ite] was served by [c] *)
Definition serves_fromC (c c' : C) : Prop :=
  forall k a r, cget c' k a = Some r -> (k <= 2)%N \/ cget c k a = Some r.

Lemma sfc_refl : forall c, serves_fromC c c.
Proof. intros c k a r E. right. exact E. Qed.

Lemma sfc_trans : forall c1 c2 c3, serves_fromC c1 c2 -> serves_fromC c2 c3 -> serves_fromC c1 c3.
Proof.
  intros c1 c2 c3 A A' k a r E. destruct (A' k a r E) as [Hk|E2]; [left; exact Hk | apply (A k a r E2)].
Qed.

Lemma sfc_add : forall c k a r, (k <= 2)%N -> serves_fromC c (cadd c k a r).
Proof.
  intros c k a r Hk k' a' r' E.
  destruct (Hlossy _ _ _ _ _ _ _ E) as [[-> _]|E']; [left; exact Hk | right; exact E'].
Qed.

Lemma cbin_step_frame : forall (rec : snap -> C -> edge -> edge -> option (snap * C * edge)),
  (forall s c f g s' c' r, rec s c f g = Some (s', c', r) -> serves_fromC c c') ->
  forall s c op f fnd g gnd s' c' r,
  cbin_step C cget cadd rec s c op f fnd g gnd = Some (s', c', r) -> serves_fromC c c'.
Proof.
  intros rec Hrec s c op f fnd g gnd s' c' r E. unfold cbin_step in E.
  destruct (cget c (cop_code op) [f; g]) as [h|]; [inversion E; subst; apply sfc_refl|].
  cbv zeta in E.
  destruct (ccof2 f fnd _) as [[ft fe]|]; [|discriminate].
  destruct (ccof2 g gnd _) as [[gt ge]|]; [|discriminate].
  destruct (rec s c ft gt) as [[[s1 c1] t]|] eqn:E1; [|discriminate].
  destruct (rec s1 c1 fe ge) as [[[s2 c2] e]|] eqn:E2; [|discriminate].
  destruct (cmk_node s2 _ t e) as [s3 h]. inversion E; subst.
  eapply sfc_trans; [apply (Hrec _ _ _ _ _ _ _ E1)|]. eapply sfc_trans; [apply (Hrec _ _ _ _ _ _ _ E2)|].
  apply sfc_add. destruct op; simpl; lia.
Qed.

Lemma capply_bin_frame : forall fuel s c op f g s' c' r,
  capply_bin lt C cget cadd fuel s c op f g = Some (s', c', r) -> serves_fromC c c'.
Proof.
  induction fuel as [|n IH]; intros s c op f g s' c' r E; [discriminate|].
  rewrite capply_bin_S in E. destruct (cterminal s op f g) as [h|fn gn|]; [| |discriminate].
  - inversion E; subst. apply sfc_refl.
  - destruct (lt f g);
      (eapply cbin_step_frame; [|exact E]; intros s0 c0 f0 g0 s0' c0' r0 E0; apply (IH _ _ _ _ _ _ _ _ E0)).
Qed.

Lemma onot_frame : forall (res : option (snap * C * edge)) c s' c' r,
  (forall s1 c1 r1, res = Some (s1, c1, r1) -> serves_fromC c c1) ->
  onot C res = Some (s', c', r) -> serves_fromC c c'.
Proof.
  intros res c s' c' r Hres E. destruct res as [[[s1 c1] r1]|]; [|discriminate].
  simpl in E. inversion E; subst. apply (Hres _ _ _ eq_refl).
Qed.

Lemma capply_ite_frame : forall fuel s c f g h s' c' r,
  capply_ite lt C cget cadd fuel s c f g h = Some (s', c', r) -> serves_fromC c c'.
Proof.
  assert (Bin : forall fuel s c op f g s' c' r,
             capply_bin lt C cget cadd fuel s c op f g = Some (s', c', r) -> serves_fromC c c')
    by apply capply_bin_frame.
  assert (NBin : forall fuel s c op f g s' c' r,
             onot C (capply_bin lt C cget cadd fuel s c op f g) = Some (s', c', r) -> serves_fromC c c').
  { intros fuel s c op f g s' c' r E. eapply onot_frame; [|exact E].
    intros s1 c1 r1 E1. apply (Bin _ _ _ _ _ _ _ _ _ E1). }
  induction fuel as [|n IH]; intros s c f g h s' c' r E; [discriminate|].
  rewrite capply_ite_S in E.
  destruct (ref_eqb (eref g) (eref h)).
  { destruct (Bool.eqb (etag g) (etag h)); [inversion E; subst; apply sfc_refl | eapply NBin; eauto]. }
  destruct (ref_eqb (eref f) (eref g)).
  { destruct (Bool.eqb (etag f) (etag g)); [eapply NBin; eauto | eapply Bin; eauto]. }
  destruct (ref_eqb (eref f) (eref h)).
  { destruct (Bool.eqb (etag f) (etag h)); [eapply Bin; eauto | eapply NBin; eauto]. }
  destruct (cnode s f) as [[fnd|]|]; [| |discriminate].
  2:{ inversion E; subst. apply sfc_refl. }
  destruct (cnode s g) as [[gnd|]|]; destruct (cnode s h) as [[hnd|]|]; try discriminate;
    try (destruct (etag g); [eapply Bin; eauto | eapply NBin; eauto]; fail);
    try (destruct (etag h); [eapply Bin; eauto | eapply NBin; eauto]; fail).
  unfold cite_step in E.
  destruct (cget c ccode_ite [f; g; h]) as [r0|]; [inversion E; subst; apply sfc_refl|].
  cbv zeta in E.
  destruct (ccof2 f fnd _) as [[ft fe]|]; [|discriminate].
  destruct (ccof2 g gnd _) as [[gt ge]|]; [|discriminate].
  destruct (ccof2 h hnd _) as [[ht he]|]; [|discriminate].
  destruct (capply_ite lt C cget cadd n s c ft gt ht) as [[[s1 c1] t]|] eqn:E1; [|discriminate].
  destruct (capply_ite lt C cget cadd n s1 c1 fe ge he) as [[[s2 c2] e]|] eqn:E2; [|discriminate].
  destruct (cmk_node s2 _ t e) as [s3 r1]. inversion E; subst.
  eapply sfc_trans; [apply (IH _ _ _ _ _ _ _ _ E1)|]. eapply sfc_trans; [apply (IH _ _ _ _ _ _ _ _ E2)|].
  apply sfc_add. unfold ccode_ite. lia.
Qed.

(** ** The cache invariant *)

Variable Sg : N -> option (list (nat * edge)).

(** the pointwise meaning of the three instances of [apply_quant]'s [OP] *)
Definition aqeval (o : aqop) (x y : bool) : bool :=
  match o with AQAnd => x && y | AQXor => xorb x y | AQNand => negb (x && y) end.

Definition cqentry_ok (s : snap) (code : N) (args : list edge) (r : edge) : Prop :=
  (forall q f vars, code = cqcode q -> args = [f; vars] ->
     exists phi L, DenC s f phi /\ VChainC s vars L /\ DenC s r (qlevs (qf q) L phi)) /\
  (forall f vars, code = ccode_restrict -> args = [f; vars] ->
     exists phi M, DenC s f phi /\ LChainC s (eref vars) (etag vars) M /\ DenC s r (restr M phi)) /\
  (forall q o f g vars, caqcode q o = Some code -> args = [f; g; vars] ->
     exists phi psi L, DenC s f phi /\ DenC s g psi /\ VChainC s vars L /\
       DenC s r (qlevs (qf q) L (fun c => aqeval o (phi c) (psi c)))) /\
  (forall id f, code = ccode_subst id -> args = [f] ->
     exists pairs phi, Sg id = Some pairs /\ pairs_okC s pairs /\ DenC s f phi /\
       DenC s r (psubstC s pairs phi)).

Definition QCacheOKC (s : snap) (c : C) : Prop :=
  CacheOKC cget s c /\ forall code args r, cget c code args = Some r -> cqentry_ok s code args r.

Lemma caqcode_range : forall q o k, caqcode q o = Some k -> (8 <= k <= 14)%N.
Proof. intros [] [] k E; simpl in E; inversion E; lia. Qed.

Lemma cqentry_ok_extends : forall s s' code args r, BcOK s -> extends s s' ->
  cqentry_ok s code args r -> cqentry_ok s' code args r.
Proof.
  intros s s' code args r B X [Q1 [Q2 [Q3 Q4]]]. split; [|split; [|split]].
  - intros q f vars Hc Ha. destruct (Q1 q f vars Hc Ha) as [phi [L [D [V Dr]]]].
    exists phi, L. split; [eapply denc_extends; eauto|]. split; [eapply vchainc_extends; eauto|].
    eapply denc_extends; eauto.
  - intros f vars Hc Ha. destruct (Q2 f vars Hc Ha) as [phi [M [D [V Dr]]]].
    exists phi, M. split; [eapply denc_extends; eauto|]. split; [eapply lchainc_extends; eauto|].
    eapply denc_extends; eauto.
  - intros q o f g vars Hc Ha. destruct (Q3 q o f g vars Hc Ha) as [phi [psi [L [D [D' [V Dr]]]]]].
    exists phi, psi, L. split; [eapply denc_extends; eauto|]. split; [eapply denc_extends; eauto|].
    split; [eapply vchainc_extends; eauto|]. eapply denc_extends; eauto.
  - intros id f Hc Ha. destruct (Q4 id f Hc Ha) as [pairs [phi [Es [F [D Dr]]]]].
    exists pairs, phi. split; [exact Es|]. split; [eapply pairs_okC_extends; eauto|].
    split; [eapply denc_extends; eauto|].
    apply (denc_ext s' r (psubstC s pairs phi)); [eapply denc_extends; eauto|].
    intros c0 Hc0. symmetry.
    apply (psubstC_extends s s' pairs phi (bc_wf s B) X F (denc_cext s f phi (bc_wf s B) D) c0 Hc0).
Qed.

Lemma cqentry_ok_low : forall s code args r, (code <= 2)%N -> cqentry_ok s code args r.
Proof.
  intros s code args r Hk. split; [|split; [|split]].
  - intros q f vars Hc. exfalso. destruct q; simpl in Hc; lia.
  - intros f vars Hc. exfalso. unfold ccode_restrict in Hc. lia.
  - intros q o f g vars Hc. exfalso. pose proof (caqcode_range q o code Hc). lia.
  - intros id f Hc. exfalso. unfold ccode_subst in Hc. lia.
Qed.

Lemma qcacheokc_frame : forall s s' c c', BcOK s -> extends s s' -> QCacheOKC s c ->
  CacheOKC cget s' c' -> serves_fromC c c' -> QCacheOKC s' c'.
Proof.
  intros s s' c c' B X [_ Q] O' Sf. split; [exact O'|].
  intros code args r E. destruct (Sf code args r E) as [Hk|E0].
  - apply cqentry_ok_low. exact Hk.
  - apply (cqentry_ok_extends s s' code args r B X). apply (Q _ _ _ E0).
Qed.

Lemma qcacheokc_extends : forall s s' c, BcOK s -> extends s s' -> QCacheOKC s c -> QCacheOKC s' c.
Proof.
  intros s s' c B X Q. apply (qcacheokc_frame s s' c c B X Q); [|apply sfc_refl].
  apply (ccacheok_extends C cget s s' c B X (proj1 Q)).
Qed.

Lemma centry_ok_high : forall s code args r, (2 < code)%N -> centry_ok s code args r.
Proof.
  intros s code args r Hk. unfold centry_ok.
  destruct args as [|f [|g [|h [|x rest]]]]; auto.
  - intros o Hc. destruct o; simpl in Hc; lia.
  - intros Hc. unfold ccode_ite in Hc. lia.
Qed.

Lemma qcacheokc_add : forall s c code args r, QCacheOKC s c -> (2 < code)%N ->
  cqentry_ok s code args r -> QCacheOKC s (cadd c code args r).
Proof.
  intros s c code args r [O Q] Hk Hn. split.
  - apply (ccacheok_add C cget cadd Hlossy); [exact O | apply centry_ok_high; exact Hk].
  - intros code' args' r' E.
    destruct (Hlossy _ _ _ _ _ _ _ E) as [[-> [-> ->]]|E']; [exact Hn | apply (Q _ _ _ E')].
Qed.

Lemma cqcode_inj : forall q q', cqcode q = cqcode q' -> q = q'.
Proof. intros [] [] E; simpl in E; try lia; reflexivity. Qed.

Lemma caqcode_inj : forall q o q' o' k, caqcode q o = Some k -> caqcode q' o' = Some k -> q = q' /\ o = o'.
Proof. intros [] [] [] [] k E E'; simpl in E, E'; inversion E; subst; inversion E'; auto. Qed.

Lemma cqentry_quant : forall s q f vars r phi L,
  DenC s f phi -> VChainC s vars L -> DenC s r (qlevs (qf q) L phi) ->
  cqentry_ok s (cqcode q) [f; vars] r.
Proof.
  intros s q f vars r phi L D V Dr. split; [|split; [|split]].
  - intros q' f' vars' Hc Ha. apply cqcode_inj in Hc. subst q'. inversion Ha; subst. eauto.
  - intros f' vars' Hc. exfalso. unfold ccode_restrict in Hc. destruct q; simpl in Hc; lia.
  - intros q' o f' g' vars' Hc. exfalso. pose proof (caqcode_range q' o _ Hc). destruct q; simpl in *; lia.
  - intros id f' Hc. exfalso. unfold ccode_subst in Hc. destruct q; simpl in Hc; lia.
Qed.

Lemma cqentry_restrict : forall s f vars r phi M,
  DenC s f phi -> LChainC s (eref vars) (etag vars) M -> DenC s r (restr M phi) ->
  cqentry_ok s ccode_restrict [f; vars] r.
Proof.
  intros s f vars r phi M D V Dr. split; [|split; [|split]].
  - intros q f' vars' Hc. exfalso. unfold ccode_restrict in Hc. destruct q; simpl in Hc; lia.
  - intros f' vars' _ Ha. inversion Ha; subst. eauto.
  - intros q' o f' g' vars' Hc. exfalso. pose proof (caqcode_range q' o _ Hc). unfold ccode_restrict in *. lia.
  - intros id f' Hc. exfalso. unfold ccode_subst, ccode_restrict in Hc. lia.
Qed.

Lemma cqentry_aq : forall s q o k f g vars r phi psi L, caqcode q o = Some k ->
  DenC s f phi -> DenC s g psi -> VChainC s vars L ->
  DenC s r (qlevs (qf q) L (fun c => aqeval o (phi c) (psi c))) ->
  cqentry_ok s k [f; g; vars] r.
Proof.
  intros s q o k f g vars r phi psi L Ek D D' V Dr. pose proof (caqcode_range q o k Ek) as Hr.
  split; [|split; [|split]].
  - intros q' f' vars' Hc. exfalso. destruct q'; simpl in Hc; lia.
  - intros f' vars' Hc. exfalso. unfold ccode_restrict in Hc. lia.
  - intros q' o' f' g' vars' Hc Ha. destruct (caqcode_inj q' o' q o k Hc Ek) as [-> ->].
    inversion Ha; subst. exists phi, psi, L. auto.
  - intros id f' Hc. exfalso. unfold ccode_subst in Hc. lia.
Qed.

Lemma cqentry_subst : forall s id f r pairs phi,
  Sg id = Some pairs -> pairs_okC s pairs -> DenC s f phi -> DenC s r (psubstC s pairs phi) ->
  cqentry_ok s (ccode_subst id) [f] r.
Proof.
  intros s id f r pairs phi Es F D Dr. split; [|split; [|split]].
  - intros q' f' vars' Hc. exfalso. unfold ccode_subst in Hc. destruct q'; simpl in Hc; lia.
  - intros f' vars' Hc. exfalso. unfold ccode_subst, ccode_restrict in Hc. lia.
  - intros q' o' f' g' vars' Hc. exfalso. pose proof (caqcode_range q' o' _ Hc). unfold ccode_subst in *. lia.
  - intros id' f' Hc Ha. assert (id' = id) by (unfold ccode_subst in Hc; lia). subst id'.
    inversion Ha; subst. exists pairs, phi. auto.
Qed.

(** ** Results *)

Definition qcresult_ok (s : snap) (res : option (snap * C * edge)) (Phi : cfun) : Prop :=
  exists s' c' r, res = Some (s', c', r) /\
    BcOK s' /\ extends s s' /\ QCacheOKC s' c' /\ DenC s' r Phi.

Lemma qcresult_ok_ext : forall s res Phi Phi', qcresult_ok s res Phi ->
  (forall c0, bchoice c0 -> Phi c0 = Phi' c0) -> qcresult_ok s res Phi'.
Proof.
  intros s res Phi Phi' [s' [c' [r [E [B [X [Q D]]]]]]] Hp.
  exists s', c', r. repeat (split; [assumption|]). apply (denc_ext s' r Phi Phi' D Hp).
Qed.

Lemma qcresult_ok_here : forall s c r Phi, BcOK s -> QCacheOKC s c -> DenC s r Phi ->
  qcresult_ok s (Some (s, c, r)) Phi.
Proof.
  intros s c r Phi B Q D. exists s, c, r. split; [reflexivity|]. split; [exact B|].
  split; [apply extends_refl|]. split; [exact Q | exact D].
Qed.

Lemma qcresult_trans : forall s s1 res Phi, extends s s1 -> qcresult_ok s1 res Phi -> qcresult_ok s res Phi.
Proof.
  intros s s1 res Phi X [s' [c' [r [E [B' [X' [Q' D']]]]]]].
  exists s', c', r. split; [exact E|]. split; [exact B'|].
  split; [eapply extends_trans; eauto|]. split; assumption.
Qed.

Lemma qcresult_not : forall s res Phi, qcresult_ok s res Phi ->
  qcresult_ok s (onot C res) (fun c0 => negb (Phi c0)).
Proof.
  intros s res Phi [s' [c' [r [E [B [X [Q D]]]]]]].
  exists s', c', (enot r). split; [rewrite E; reflexivity|].
  split; [exact B|]. split; [exact X|]. split; [exact Q|]. apply denc_not. exact D.
Qed.

Lemma qcresult_of_result : forall s c res Phi, BcOK s -> QCacheOKC s c ->
  cresult_ok cget s c res Phi ->
  (forall s' c' r, res = Some (s', c', r) -> serves_fromC c c') ->
  qcresult_ok s res Phi.
Proof.
  intros s c res Phi B Q [s' [c' [r [E [B' [X [O' [D _]]]]]]]] Sf.
  exists s', c', r. split; [exact E|]. split; [exact B'|]. split; [exact X|].
  split; [|exact D]. apply (qcacheokc_frame s s' c c' B X Q O' (Sf _ _ _ E)).
Qed.

Lemma qc_apply_bin : forall op s c f g phi psi, BcOK s -> QCacheOKC s c -> DenC s f phi -> DenC s g psi ->
  qcresult_ok s (capply_bin lt C cget cadd (S (nlevels s)) s c op f g)
              (fun c0 => ceval op (phi c0) (psi c0)).
Proof.
  intros op s c f g phi psi B Q Df Dg. apply (qcresult_of_result s c _ _ B Q).
  - apply (capply_bin_ok lt C cget cadd Hlossy op _ s c f g phi psi B (proj1 Q) Df Dg). lia.
  - intros s' c' r E. apply (capply_bin_frame _ _ _ _ _ _ _ _ _ E).
Qed.

Lemma qc_apply_ite : forall s c f g h phi psi theta, BcOK s -> QCacheOKC s c ->
  DenC s f phi -> DenC s g psi -> DenC s h theta ->
  qcresult_ok s (capply_ite lt C cget cadd (S (nlevels s)) s c f g h)
              (fun c0 => if phi c0 then psi c0 else theta c0).
Proof.
  intros s c f g h phi psi theta B Q Df Dg Dh. apply (qcresult_of_result s c _ _ B Q).
  - apply (capply_ite_ok lt C cget cadd Hlossy _ s c f g h phi psi theta B (proj1 Q) Df Dg Dh). lia.
  - intros s' c' r E. apply (capply_ite_frame _ _ _ _ _ _ _ _ _ E).
Qed.

(** the combination step of [quant] / [apply_quant] *)
Lemma qc_combine : forall q s c t e P0 P1, BcOK s -> QCacheOKC s c -> DenC s t P0 -> DenC s e P1 ->
  qcresult_ok s (ccombine lt C cget cadd s c q t e) (fun c0 => qf q (P0 c0) (P1 c0)).
Proof.
  intros q s c t e P0 P1 B Q Dt De. destruct q; unfold ccombine, qf; simpl qop.
  - apply (qcresult_ok_ext s _ _ _ (qc_apply_bin CAnd s c t e P0 P1 B Q Dt De)). reflexivity.
  - apply (qcresult_ok_ext s _ (fun c0 => negb (ceval CAnd (negb (P0 c0)) (negb (P1 c0))))).
    + apply qcresult_not.
      apply (qc_apply_bin CAnd s c (enot t) (enot e) _ _ B Q (denc_not s t P0 Dt) (denc_not s e P1 De)).
    + intros c0 _. simpl. destruct (P0 c0), (P1 c0); reflexivity.
  - apply (qcresult_ok_ext s _ _ _ (qc_apply_bin CXor s c t e P0 P1 B Q Dt De)). reflexivity.
Qed.

(** the false terminal as a result *)
Lemma qc_false : forall s c Phi, BcOK s -> QCacheOKC s c -> (forall c0, bchoice c0 -> Phi c0 = false) ->
  qcresult_ok s (cfalse C s c) Phi.
Proof.
  intros s c Phi B Q Hp. unfold cfalse. destruct (cget_terminal_den s false B) as [e [Et T]].
  rewrite Et.
  apply (qcresult_ok_here s c e Phi B Q). apply (denc_ext s e _ _ T).
  intros c0 Hc. symmetry. apply Hp. exact Hc.
Qed.

End Frame.

Arguments QCacheOKC {C}.
Arguments qcresult_ok {C}.
Arguments serves_fromC {C}.
