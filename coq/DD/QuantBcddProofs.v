(** * Soundness of [cquant_rec] and [capply_quant] (complement-edge kind)

    [cquant_rec_ok], [capply_quant_ok]: as for the plain BDD kind
    (DD/QuantProofs.v, DD/ApplyQuantProofs.v), with edges carrying complement
    tags, [collect_cofactors] pushing the tag down, and the combination
    [and] / [not (and (not t) (not e))] / [xor] of the two cofactor results.
    [capply_quant_dispatch_ok], [capply_quant_unique_dispatch_ok]: the two
    dispatch tables, all 8 operators. *)

From Coq Require Import List NArith PArith Bool Arith Lia FMapPositive.
From OxiVerif Require Import DD.Table DD.TableProofs DD.Canon DD.CanonBcdd DD.Sem DD.Build DD.BuildProofs
  DD.Apply DD.ApplyProofs DD.ApplyBcdd DD.ApplyBcddProofs DD.ApplyBcddIte
  DD.Quant DD.QuantLemmas DD.QuantProofs DD.QuantBcdd DD.QuantBcddLemmas.
Import ListNotations.

Section Q.
Variable lt : edge -> edge -> bool.
Variable C : Type.
Variable cget : C -> N -> list edge -> option edge.
Variable cadd : C -> N -> list edge -> edge -> C.
Hypothesis Hlossy : lossyC cget cadd.
Variable Sg : N -> option (list (nat * edge)).

Notation QOKC := (QCacheOKC cget Sg).
Notation qcres := (qcresult_ok cget Sg).

Lemma cquant_rec_S : forall n s c q f vars,
  cquant_rec lt C cget cadd (S n) s c q f vars =
    match eref f with
    | RT _ =>
      if negb (is_unique q) || is_term vars then Some (s, c, f) else cfalse C s c
    | RN fid =>
      match find_node s fid with
      | None => None
      | Some fnode =>
        let flevel := nstored fnode in
        match (if is_unique q then Some vars else cset_pop (S (nlevels s)) s vars flevel) with
        | None => None
        | Some vars' =>
          match eref vars' with
          | RT _ => Some (s, c, f)
          | RN vid =>
            match find_node s vid with
            | None => None
            | Some vnode =>
              let vlevel := nstored vnode in
              if is_unique q && Nat.ltb vlevel flevel then cfalse C s c
              else
                match cget c (cqcode q) [f; vars'] with
                | Some h => Some (s, c, h)
                | None =>
                  match ccofs (etag f) fnode,
                        (if Nat.eqb vlevel flevel
                         then match nchildren vnode with [vt; _] => Some vt | _ => None end
                         else Some vars') with
                  | Some (ft, fe), Some vt =>
                    match cquant_rec lt C cget cadd n s c q ft vt with
                    | None => None
                    | Some (s1, c1, t) =>
                      match cquant_rec lt C cget cadd n s1 c1 q fe vt with
                      | None => None
                      | Some (s2, c2, e) =>
                        if Nat.eqb flevel vlevel then
                          match ccombine lt C cget cadd s2 c2 q t e with
                          | None => None
                          | Some (s3, c3, res) => Some (s3, cadd c3 (cqcode q) [f; vars'] res, res)
                          end
                        else
                          let '(s3, h) := cmk_node s2 flevel t e in
                          Some (s3, cadd c2 (cqcode q) [f; vars'] h, h)
                      end
                    end
                  | _, _ => None
                  end
                end
            end
          end
        end
      end
    end.
Proof. reflexivity. Qed.

(** the popped variable set, shared by [quant] and [apply_quant] *)
Lemma cpop_ok : forall s q vars L lvl Phi, BcOK s -> ref_ok s (eref vars) -> VChainC s vars L ->
  lvl < nlevels s -> indep Phi lvl ->
  exists vars' L',
    (if is_unique q then Some vars else cset_pop (S (nlevels s)) s vars lvl) = Some vars' /\
    ref_ok s (eref vars') /\ VChainC s vars' L' /\
    (is_unique q = false -> lvl <= rlevel s (eref vars')) /\
    forall c0, bchoice c0 -> qlevs (qf q) L Phi c0 = qlevs (qf q) L' Phi c0.
Proof.
  intros s q vars L lvl Phi B Ov V Hlvl IP. pose proof (bc_wf s B) as H.
  assert (XP : cext Phi) by (apply (cext_indep Phi lvl IP)).
  destruct (is_unique q) eqn:Eq.
  - exists vars, L. split; [reflexivity|]. split; [exact Ov|]. split; [exact V|].
    split; [discriminate | reflexivity].
  - pose proof (rlevel_le s H (eref vars)).
    destruct (cset_pop_ok s B (S (nlevels s)) vars L lvl Ov V ltac:(lia) ltac:(lia))
      as [vars' [L' [E [O' [V' [Hu [pre [EL Hpre]]]]]]]].
    exists vars', L'. split; [exact E|]. split; [exact O'|]. split; [exact V'|].
    split; [intros _; exact Hu|]. intros c0 Hc. rewrite EL, qlevs_app.
    apply qlevs_nodep_idem; [apply qf_idem; exact Eq | apply cext_qlevs; exact XP | | exact Hc].
    intros l Hl. apply nodep_qlevs; [exact XP|]. apply (indep_nodep Phi lvl l IP). apply Hpre. exact Hl.
Qed.

(** the variable set handed to the recursive calls *)
Lemma cvt_ok : forall s vars' vid vnd L' lvl, BcOK s -> eref vars' = RN vid -> find_node s vid = Some vnd ->
  VChainC s vars' L' -> lvl <= nlevel vnd ->
  exists vt' Lr,
    (if Nat.eqb (nlevel vnd) lvl
     then match nchildren vnd with [vt0; _] => Some vt0 | _ => None end
     else Some vars') = Some vt' /\ ref_ok s (eref vt') /\ VChainC s vt' Lr /\ ~ In lvl Lr /\
    (if Nat.eqb lvl (nlevel vnd) then L' = lvl :: Lr else L' = Lr).
Proof.
  intros s vars' vid vnd L' lvl B Er Evn V' Hvl. pose proof (bc_wf s B) as H.
  destruct (vchainc_N_inv s vars' vid vnd L' V' Er Evn) as [vt [ve [L'' [Evch [EL' Vt]]]]].
  pose proof (vchainc_asc s B _ _ V') as Asc. rewrite Er, (rlevel_node s vid vnd Evn), EL' in Asc.
  destruct Asc as [_ Asc].
  rewrite (Nat.eqb_sym lvl (nlevel vnd)). destruct (Nat.eqb_spec (nlevel vnd) lvl) as [Eq|Hne].
  - rewrite Evch. exists vt, L''. split; [reflexivity|].
    assert (Hvt0 : nth_error (nchildren vnd) 0 = Some vt) by (rewrite Evch; reflexivity).
    split; [apply (child_nth s H vid vnd 0 vt Evn Hvt0)|]. split; [exact Vt|].
    split; [apply (asc_notin L'' (S (nlevel vnd)) lvl Asc); lia | rewrite <- Eq; exact EL'].
  - exists vars', L'. split; [reflexivity|]. split; [rewrite Er; exists vnd; exact Evn|]. split; [exact V'|].
    split; [|reflexivity]. rewrite EL'. intros [E|Hin]; [lia|].
    pose proof (asc_ge L'' (S (nlevel vnd)) lvl Asc Hin). lia.
Qed.

Theorem cquant_rec_ok : forall q fuel s c f vars phi L,
  BcOK s -> QOKC s c -> DenC s f phi -> ref_ok s (eref vars) -> VChainC s vars L ->
  nlevels s - rlevel s (eref f) < fuel ->
  qcres s (cquant_rec lt C cget cadd fuel s c q f vars) (qlevs (qf q) L phi).
Proof.
  intros q. induction fuel as [|n IH]; intros s c f vars phi L B Q D Ov V Hfuel; [lia|].
  pose proof (bc_wf s B) as H. pose proof (denc_cext s f phi H D) as Xp.
  rewrite cquant_rec_S. destruct (eref f) as [t|fid] eqn:Erf.
  - (* terminal *)
    assert (Hnd : forall l, nodep phi l) by (intros l; apply (denc_term_nodep s f t phi l D Erf)).
    destruct (negb (is_unique q) || is_term vars) eqn:Ec.
    + apply (qcresult_ok_here C cget Sg s c _ _ B Q). apply (denc_ext s f phi _ D).
      intros c0 Hc. apply orb_true_iff in Ec. destruct Ec as [Eq|Ev].
      * symmetry. apply qlevs_nodep_idem; auto. apply qf_idem. destruct (is_unique q); [discriminate | reflexivity].
      * unfold is_term in Ev. destruct (eref vars) as [tv|vid] eqn:Erv; [|discriminate].
        rewrite (vchainc_T_inv s vars tv L V Erv). reflexivity.
    + apply orb_false_iff in Ec. destruct Ec as [Eq Ev].
      unfold is_term in Ev. destruct (eref vars) as [tv|vid] eqn:Erv; [discriminate|].
      destruct Ov as [vnd Evn]. destruct (vchainc_N_inv s vars vid vnd L V Erv Evn) as [vt [ve [L' [_ [-> _]]]]].
      assert (Hq : q = QUnique) by (destruct q; simpl in Eq; try discriminate; reflexivity). subst q.
      apply (qc_false C cget Sg s c _ B Q). intros c0 Hc. simpl qlevs.
      apply (qlev_xor_nodep (nlevel vnd) (qlevs (qf QUnique) L' phi)); [|exact Hc].
      apply nodep_qlevs; auto.
  - (* inner node *)
    pose proof (proj1 D) as Of. rewrite Erf in Of. destruct Of as [fnd Ef]. rewrite Ef. cbv zeta.
    rewrite (wf_stored s H fid fnd Ef).
    rewrite (rlevel_node s fid fnd Ef) in Hfuel. pose proof (wf_level s H fid fnd Ef) as Hlv.
    set (lvl := nlevel fnd) in *.
    assert (Ip : indep phi lvl).
    { unfold lvl. rewrite <- (rlevel_node s fid fnd Ef), <- Erf. apply (denc_indep s _ phi H D). }
    destruct (cpop_ok s q vars L lvl phi B Ov V Hlv Ip) as [vars' [L' [Epop [Ov' [V' [Hge HL]]]]]].
    rewrite Epop.
    apply (qcresult_ok_ext C cget Sg s _ (qlevs (qf q) L' phi));
      [|intros c0 Hc; symmetry; apply HL; exact Hc].
    clear HL V Ov L vars Epop.
    destruct (eref vars') as [tv|vid] eqn:Erv.
    { rewrite (vchainc_T_inv s vars' tv L' V' Erv). apply (qcresult_ok_here C cget Sg s c _ _ B Q). exact D. }
    destruct Ov' as [vnd Evn]. rewrite Evn. rewrite (wf_stored s H vid vnd Evn).
    set (vlvl := nlevel vnd) in *.
    destruct (vchainc_N_inv s vars' vid vnd L' V' Erv Evn) as [vt0 [ve0 [L'' [Evch [EL' Vt]]]]].
    destruct (is_unique q && Nat.ltb vlvl lvl) eqn:Eu.
    { apply andb_true_iff in Eu. destruct Eu as [Eq Hlt]. apply Nat.ltb_lt in Hlt.
      assert (Hq : q = QUnique) by (destruct q; simpl in Eq; try discriminate; reflexivity). subst q.
      apply (qc_false C cget Sg s c _ B Q). intros c0 Hc. rewrite EL'. simpl qlevs.
      apply (qlev_xor_nodep vlvl (qlevs (qf QUnique) L'' phi)); [|exact Hc].
      apply nodep_qlevs; [exact Xp|]. apply (indep_nodep phi lvl vlvl Ip Hlt). }
    assert (Hvl : lvl <= vlvl).
    { destruct (is_unique q) eqn:Eq.
      - simpl in Eu. apply Nat.ltb_ge in Eu. exact Eu.
      - specialize (Hge eq_refl). rewrite (rlevel_node s vid vnd Evn) in Hge. exact Hge. }
    clear Eu Hge.
    destruct (cget c (cqcode q) [f; vars']) as [h|] eqn:Ecache.
    { destruct (proj1 (proj2 Q _ _ _ Ecache) q f vars' eq_refl eq_refl) as [phi0 [L0 [D0 [V0 Dh]]]].
      apply (qcresult_ok_here C cget Sg s c _ _ B Q).
      rewrite (vchainc_fun s _ _ _ V0 V') in Dh.
      apply (denc_ext s h _ _ Dh). apply qlevs_ext. apply (denc_unique s _ phi0 phi D0 D). }
    destruct (bcdd_children s fid fnd B Ef) as [a [b Ech]]. unfold ccofs. rewrite Ech.
    assert (Ha : nth_error (nchildren fnd) 0 = Some a) by (rewrite Ech; reflexivity).
    assert (Hb : nth_error (nchildren fnd) 1 = Some b) by (rewrite Ech; reflexivity).
    pose proof (denc_child s f fid fnd 0 a phi B D Erf Ef Ha) as Dft.
    pose proof (denc_child s f fid fnd 1 b phi B D Erf Ef Hb) as Dfe.
    destruct (child_nth s H fid fnd 0 a Ef Ha) as [Oft Lft].
    destruct (child_nth s H fid fnd 1 b Ef Hb) as [Ofe Lfe].
    fold lvl in Dft, Dfe, Lft, Lfe.
    set (ft := retag (etag f) a) in *. set (fe := retag (etag f) b) in *.
    destruct (cvt_ok s vars' vid vnd L' lvl B Erv Evn V' Hvl) as [vt' [Lr [Evt [Ovt [Vr [Hnin HLr]]]]]].
    fold vlvl in Evt, HLr. rewrite Evt.
    pose proof (rlevel_le s H (eref a)) as Hle1. pose proof (rlevel_le s H (eref b)) as Hle2.
    destruct (IH s c ft vt' _ Lr B Q Dft Ovt Vr ltac:(simpl; lia))
      as [s1 [c1 [t [E1 [B1 [X1 [Q1 D1]]]]]]].
    rewrite E1.
    assert (Dfe1 : DenC s1 fe (cofn phi lvl 1)) by (apply (denc_extends s s1 _ _ B X1 Dfe)).
    assert (Hf1 : nlevels s1 - rlevel s1 (eref fe) < n)
      by (simpl; rewrite (ext_nlevels _ _ X1), (ext_rlevel _ _ _ X1 Ofe); lia).
    destruct (IH s1 c1 fe vt' _ Lr B1 Q1 Dfe1 (ext_ref_ok _ _ _ X1 Ovt)
                 (vchainc_extends _ _ _ _ X1 Vr) Hf1)
      as [s2 [c2 [e [E2 [B2 [X2 [Q2 D2]]]]]]].
    rewrite E2.
    assert (D1' : DenC s2 t (qlevs (qf q) Lr (cofn phi lvl 0))) by (apply (denc_extends s1 s2 _ _ B1 X2 D1)).
    assert (X02 : extends s s2) by (eapply extends_trans; eauto).
    destruct (Nat.eqb_spec lvl vlvl) as [Eqv|Hnev].
    + destruct (qc_combine lt C cget cadd Hlossy Sg q s2 c2 t e _ _ B2 Q2 D1' D2)
        as [s3 [c3 [res [E3 [B3 [X3 [Q3 D3]]]]]]].
      rewrite E3.
      assert (X03 : extends s s3) by (eapply extends_trans; eauto).
      assert (Dres : DenC s3 res (qlevs (qf q) L' phi)).
      { apply (denc_ext s3 res _ _ D3). intros c0 Hc. rewrite HLr. simpl qlevs. unfold qlev.
        rewrite !cofn_qlevs by (auto; lia). reflexivity. }
      exists s3, (cadd c3 (cqcode q) [f; vars'] res), res.
      split; [reflexivity|]. split; [exact B3|]. split; [exact X03|]. split; [|exact Dres].
      apply (qcacheokc_add C cget cadd Hlossy Sg s3 c3 _ _ _ Q3); [destruct q; simpl; lia|].
      apply (cqentry_quant Sg s3 q f vars' res phi L');
        [apply (denc_extends s s3 _ _ B X03 D) | apply (vchainc_extends _ _ _ _ X03 V') | exact Dres].
    + destruct (cmk_node s2 lvl t e) as [s3 h] eqn:Em.
      assert (Hl2 : lvl < nlevels s2) by (rewrite (ext_nlevels _ _ X02); exact Hlv).
      assert (II : forall i, i < 2 -> indep (qlevs (qf q) Lr (cofn phi lvl i)) (S lvl)).
      { intros i Hi. apply indep_qlevs. apply (indep_cofn phi lvl lvl i Ip (le_n _) Hi). }
      destruct (cnode_step s2 lvl t e _ _ s3 h B2 Hl2 D1' D2 (II 0 ltac:(lia)) (II 1 ltac:(lia)) Em)
        as [B3 [X3 Dh]].
      assert (X03 : extends s s3) by (eapply extends_trans; eauto).
      assert (Dres : DenC s3 h (qlevs (qf q) L' phi)).
      { apply (denc_ext s3 h _ _ Dh). intros c0 Hc. rewrite HLr. apply qlevs_shannon; assumption. }
      exists s3, (cadd c2 (cqcode q) [f; vars'] h), h.
      split; [reflexivity|]. split; [exact B3|]. split; [exact X03|]. split; [|exact Dres].
      apply (qcacheokc_add C cget cadd Hlossy Sg s3 c2 _ _ _
               (qcacheokc_extends C cget Sg s2 s3 c2 B2 X3 Q2)); [destruct q; simpl; lia|].
      apply (cqentry_quant Sg s3 q f vars' h phi L');
        [apply (denc_extends s s3 _ _ B X03 D) | apply (vchainc_extends _ _ _ _ X03 V') | exact Dres].
Qed.

End Q.
