(** * The complement-edge quantification / restriction / substitution
      algorithms against the spec layer (DD/Sem.v)

    [cube_chainC] (an edge that denotes a cube of literals has that cube as
    the literal chain [restrict]'s polarity-tracking walk reads), the bridges
    to variable-indexed assignments, and the entry-point theorems in terms of
    [cbfun_of]: [cquant_edge_sound], [capply_quant_edge_sound],
    [crestrict_edge_sound], [csubstitute_edge_sound]. *)

From Coq Require Import List NArith PArith Bool Arith Lia FMapPositive Permutation.
From OxiVerif Require Import DD.Table DD.TableProofs DD.Canon DD.CanonBcdd DD.Sem DD.Build DD.BuildProofs
  DD.Apply DD.ApplyProofs DD.ApplyEvalProofs DD.ApplyBcdd DD.ApplyBcddProofs DD.ApplyBcddIte DD.ApplyBcddEval
  DD.Quant DD.QuantSpecProofs DD.QuantLemmas DD.QuantProofs DD.QuantTopProofs
  DD.QuantBcdd DD.QuantBcddLemmas DD.QuantBcddProofs DD.ApplyQuantBcddProofs DD.RestrictBcddProofs
  DD.SubstBcddProofs.
Import ListNotations.

(** the then-edge of a stored node is not complemented *)
Lemma bc_then_untagged : forall s id nd t x, BcOK s -> find_node s id = Some nd -> nchildren nd = [t; x] ->
  etag t = false.
Proof.
  intros s id nd t x B En Ech.
  destruct (reduced_bcdd s (bc_kind s B) _ (wf_reduced s (bc_wf s B) id nd En)) as [_ [t' [Eh Et]]].
  rewrite Ech in Eh. simpl in Eh. inversion Eh; subst. exact Et.
Qed.

(** a cube that is constant true has no literal *)
Lemma cubeL_true_nil : forall M, NoDup (map fst M) ->
  (forall c, bchoice c -> cubeL M c = true) -> M = [].
Proof.
  intros [|[l b] rest] Hnd Ht; [reflexivity|]. exfalso.
  destruct (cube_flip ((l, b) :: rest) l b Hnd (or_introl eq_refl)) as [_ [Hc2 [_ [F _]]]].
  rewrite (Ht _ Hc2) in F. discriminate.
Qed.

Theorem cube_chainC : forall s, BcOK s -> forall n r neg M0,
  nlevels s - rlevel s r < n -> DenC s (mkEdge r neg) (cubeL M0) -> NoDup (map fst M0) ->
  (forall p, In p M0 -> fst p < nlevels s) ->
  exists M, LChainC s r neg M /\ Permutation M M0.
Proof.
  intros s B. pose proof (bc_wf s B) as H.
  induction n as [|n IH]; intros r neg M0 Hn D Hnd Hlt; [lia|].
  destruct r as [t|id].
  - destruct M0 as [|[l b] rest]; [exists []; split; constructor|]. exfalso.
    destruct (cube_flip ((l, b) :: rest) l b Hnd (or_introl eq_refl)) as [Hc1 [Hc2 [T [F _]]]].
    rewrite (denc_term_const s _ t _ _ _ D eq_refl Hc1 Hc2) in T. congruence.
  - pose proof (proj1 D) as Ok. simpl in Ok. destruct Ok as [nd En].
    rewrite (rlevel_node s id nd En) in Hn.
    pose proof (wf_level s H id nd En) as Hlv. set (lvl := nlevel nd) in *.
    assert (Ip : indep (cubeL M0) lvl).
    { pose proof (denc_indep s _ _ H D) as I0. simpl eref in I0. rewrite (rlevel_node s id nd En) in I0. exact I0. }
    assert (Hge : forall p, In p M0 -> lvl <= fst p).
    { intros [l b] Hin. simpl. destruct (le_lt_dec lvl l) as [Hle|Hgt]; [exact Hle|]. exfalso.
      destruct (cube_flip M0 l b Hnd Hin) as [Hc1 [Hc2 [T [F Ex]]]].
      rewrite (Ip _ _ Hc1 Hc2) in T; [congruence|]. intros x Hx. apply Ex. lia. }
    assert (Hroot : In lvl (map fst M0)).
    { destruct (in_dec Nat.eq_dec lvl (map fst M0)) as [Hin|Hnin]; [exact Hin|]. exfalso.
      assert (I' : indep (cubeL M0) (S lvl)).
      { intros c c' _ _ E. apply cubeL_reads. intros p Hp. apply E.
        specialize (Hge p Hp).
        assert (fst p <> lvl) by (intros Eq; apply Hnin; rewrite <- Eq; apply in_map; exact Hp). lia. }
      pose proof (denc_level s _ _ (S lvl) B D ltac:(lia) I') as Hl.
      simpl eref in Hl. rewrite (rlevel_node s id nd En) in Hl. fold lvl in Hl. lia. }
    apply in_map_iff in Hroot. destruct Hroot as [[l0 b] [El0 Hin]]. simpl in El0. subst l0.
    destruct (in_split _ _ Hin) as [A [Bq EM0]].
    set (M0' := A ++ Bq).
    assert (P0 : Permutation M0 ((lvl, b) :: M0')).
    { rewrite EM0. symmetry. apply Permutation_middle. }
    assert (Hnd' : NoDup (map fst ((lvl, b) :: M0'))).
    { eapply Permutation_NoDup; [apply Permutation_map; exact P0 | exact Hnd]. }
    simpl in Hnd'. apply NoDup_cons_iff in Hnd'. destruct Hnd' as [Hn0 Hnd0].
    assert (Hlt' : forall p, In p M0' -> fst p < nlevels s).
    { intros p Hp. apply Hlt. apply (Permutation_in _ (Permutation_sym P0)). right. exact Hp. }
    assert (Hsame : forall c, cofn (cubeL M0) lvl (lit_ix b) c = cubeL M0' c).
    { intros c. unfold cofn. rewrite (cubeL_perm _ _ _ P0), cubeL_cons.
      unfold cupd at 1. rewrite Nat.eqb_refl, Nat.eqb_refl. simpl.
      apply cubeL_reads. intros p Hp. unfold cupd.
      destruct (Nat.eqb_spec (fst p) lvl) as [E|]; [|reflexivity].
      exfalso. apply Hn0. rewrite <- E. apply in_map. exact Hp. }
    assert (Hother : forall c, cofn (cubeL M0) lvl (1 - lit_ix b) c = false).
    { intros c. unfold cofn. apply (cubeL_false M0 _ lvl b Hin).
      unfold cupd. rewrite Nat.eqb_refl. destruct b; simpl; lia. }
    destruct (bcdd_children s id nd B En) as [t [x Ech]].
    assert (Ht : nth_error (nchildren nd) 0 = Some t) by (rewrite Ech; reflexivity).
    assert (Hx : nth_error (nchildren nd) 1 = Some x) by (rewrite Ech; reflexivity).
    pose proof (denc_child s (mkEdge (RN id) neg) id nd 0 t _ B D eq_refl En Ht) as Dt.
    pose proof (denc_child s (mkEdge (RN id) neg) id nd 1 x _ B D eq_refl En Hx) as Dx.
    simpl etag in Dt, Dx. unfold retag in Dt, Dx.
    destruct (child_nth s H id nd 0 t En Ht) as [Ot Lt]. destruct (child_nth s H id nd 1 x En Hx) as [Ox Lx].
    fold lvl in Dt, Dx, Lt, Lx.
    pose proof (rlevel_le s H (eref t)). pose proof (rlevel_le s H (eref x)).
    pose proof (bc_then_untagged s id nd t x B En Ech) as Tt.
    (* the satisfying choice of the rest of the cube *)
    pose proof (cubeL_sat M0' Hnd0) as Sat. pose proof (csat_bchoice M0') as Hsat.
    destruct (eref t) as [tt|tid] eqn:Et.
    + (* the then-edge points to the terminal *)
      rewrite Tt, xorb_false_r in Dt.
      pose proof (denc_term s _ tt _ Dt eq_refl) as Ct. simpl in Ct.
      destruct neg.
      * (* the then-cofactor is false: negative literal *)
        destruct b.
        { exfalso. simpl lit_ix in Hsame. specialize (Ct _ Hsat). rewrite Hsame, Sat in Ct. discriminate. }
        assert (Dx' : DenC s (mkEdge (eref x) (xorb true (etag x))) (cubeL M0'))
          by (apply (denc_ext s _ _ _ Dx); intros c _; apply (Hsame c)).
        simpl xorb in Dx'.
        destruct (IH (eref x) (negb (etag x)) M0' ltac:(lia) Dx' Hnd0 Hlt') as [M1 [V1 P1]].
        exists ((lvl, false) :: M1). split; [eapply LCC_neg; eauto|].
        eapply Permutation_trans; [apply perm_skip; exact P1 | symmetry; exact P0].
      * (* the then-cofactor is true: the last literal, positive *)
        destruct b.
        2:{ exfalso. specialize (Ct _ Hsat). simpl lit_ix in Hother. simpl in Hother.
            rewrite (Hother (csat M0')) in Ct. discriminate. }
        assert (Enil : M0' = []).
        { apply cubeL_true_nil; [exact Hnd0|]. intros c Hc. rewrite <- Hsame. apply (Ct c Hc). }
        exists [(lvl, true)]. split; [eapply LCC_pos_last; eauto|].
        rewrite Enil in P0. symmetry. exact P0.
    + (* the then-edge points to a node: positive literal *)
      destruct b.
      2:{ exfalso.
          assert (Dt' : DenC s (mkEdge (RN tid) (xorb neg (etag t))) (fun _ => false))
            by (apply (denc_ext s _ _ _ Dt); intros c _; apply (Hother c)).
          destruct (cget_terminal_den s false B) as [e0 [E0 D0]].
          pose proof (denc_canon s _ _ _ B Dt' D0) as Ee.
          unfold cget_terminal in E0. destruct (bc_term_id s); inversion E0; subst e0. discriminate. }
      assert (Dt' : DenC s (mkEdge (RN tid) (xorb neg (etag t))) (cubeL M0'))
        by (apply (denc_ext s _ _ _ Dt); intros c _; apply (Hsame c)).
      destruct (IH (RN tid) (xorb neg (etag t)) M0' ltac:(lia) Dt' Hnd0 Hlt') as [M1 [V1 P1]].
      exists ((lvl, true) :: M1). split; [eapply LCC_pos; eauto|].
      eapply Permutation_trans; [apply perm_skip; exact P1 | symmetry; exact P0].
Qed.

(** a cube of positive literals read as a variable set *)
Lemma lchainc_vchainc : forall s r neg M, LChainC s r neg M -> (forall p, In p M -> snd p = true) ->
  forall e, eref e = r -> VChainC s e (map fst M).
Proof.
  intros s r neg M V.
  induction V as [t neg|id neg nd t x tid M En Ech Et V IH|id nd t x tt En Ech Et
                  |id nd t x tt M En Ech Et V IH]; intros Hp e Er.
  - eapply VCC_T; eauto.
  - simpl. eapply VCC_N; eauto. apply IH; [|exact Et]. intros p Hin. apply Hp. right. exact Hin.
  - simpl. eapply VCC_N; eauto. eapply VCC_T; eauto.
  - specialize (Hp (nlevel nd, false) (or_introl eq_refl)). discriminate.
Qed.

Lemma lchainc_lt : forall s r neg M p, BcOK s -> LChainC s r neg M -> In p M -> fst p < nlevels s.
Proof.
  intros s r neg M p B V.
  induction V as [t neg|id neg nd t x tid M En Ech Et V IH|id nd t x tt En Ech Et
                  |id nd t x tt M En Ech Et V IH]; intros Hin; [destruct Hin| | |];
    (destruct Hin as [<-|Hin]; [simpl; apply (wf_level s (bc_wf s B) id nd En) | auto]).
  destruct Hin.
Qed.

Section PermC.
Variable s : snap.
Hypothesis B : BcOK s.

Lemma semc_ext_lt : forall f e c c', (forall l, l < nlevels s -> c l = c' l) ->
  semc s f e c = semc s f e c'.
Proof.
  pose proof (bc_wf s B) as H.
  induction f as [|f IH]; intros e c c' E.
  - destruct (eref e) as [t|id] eqn:Er; [rewrite !(semc_T _ _ _ _ t Er); reflexivity|].
    rewrite !(semc_O _ _ _ id Er). reflexivity.
  - destruct (eref e) as [t|id] eqn:Er; [rewrite !(semc_T _ _ _ _ t Er); reflexivity|].
    rewrite !(semc_S _ _ _ _ id Er). destruct (find_node s id) as [nd|] eqn:En; [|reflexivity].
    rewrite <- (E (nlevel nd) (wf_level s H id nd En)).
    destruct (nth_error (nchildren nd) (c (nlevel nd))) as [e'|]; [|reflexivity].
    rewrite (IH e' c c' E). reflexivity.
Qed.

Lemma denc_lt : forall e phi c c', DenC s e phi -> bchoice c -> bchoice c' ->
  (forall l, l < nlevels s -> c l = c' l) -> phi c = phi c'.
Proof.
  intros e phi c c' [_ D] Hc Hc' E.
  pose proof (D c Hc) as A. pose proof (D c' Hc') as A'.
  rewrite (semc_ext_lt _ e c c' E) in A. congruence.
Qed.

Lemma denc_bfun : forall e phi c, DenC s e phi -> bchoice c -> phi c = cbfun_of s e (asg_of s c).
Proof.
  intros e phi c D Hc. rewrite (cbfun_of_den s e phi D).
  apply (denc_lt e phi _ _ D Hc (choice_of_bchoice s _)).
  intros l Hl. symmetry. apply (choice_of_asg_of s (bc_wf s B)); assumption.
Qed.

Lemma aext_cbfun_of : forall e, aext (cbfun_of s e).
Proof.
  intros e a a' E. unfold cbfun_of.
  rewrite (semc_ext s (bc_wf s B) _ e _ _ (fun l _ => choice_of_aeq s a a' E l)). reflexivity.
Qed.

Lemma psubstC_bridge : forall phi pairs, cext phi ->
  forall a, psubstC s pairs phi (choice_of s a) =
            subst_s (map (fun p => (fst p, cbfun_of s (snd p))) pairs) (fun a0 => phi (choice_of s a0)) a.
Proof.
  intros phi pairs X a. unfold psubstC, subst_s.
  apply X; [apply pschC_bchoice; apply choice_of_bchoice | apply choice_of_bchoice|].
  intros l. unfold pschC, choice_of. destruct (nth_error (s_l2v s) l) as [v|]; [|reflexivity].
  rewrite (assoc_nat_map _ _ (cbfun_of s) pairs v).
  destruct (assoc_nat pairs v) as [r|]; reflexivity.
Qed.

End PermC.

(** ** What the caller passes *)

Definition is_varsetC (s : snap) (vars : edge) (vs : list nat) : Prop :=
  forall a, cbfun_of s vars a = forallb (fun v => a v) vs.

Definition is_cubeC (s : snap) (vars : edge) (lits : list (nat * bool)) : Prop :=
  forall a, cbfun_of s vars a = forallb (fun p : nat * bool => Bool.eqb (a (fst p)) (snd p)) lits.

Lemma cube_lchainC : forall s vars lits, BcOK s -> ref_ok s (eref vars) -> is_cubeC s vars lits ->
  NoDup (map fst lits) -> (forall p, In p lits -> fst p < nlevels s) ->
  exists M, LChainC s (eref vars) (etag vars) M /\
            Permutation M (map (fun p : nat * bool => (lv s (fst p), snd p)) lits).
Proof.
  intros s vars lits B Ov Hc Hnd Hlt. pose proof (bc_wf s B) as H.
  set (M0 := map (fun p : nat * bool => (lv s (fst p), snd p)) lits).
  destruct (denc_exists s vars B Ov) as [phi0 D0].
  assert (D : DenC s (mkEdge (eref vars) (etag vars)) (cubeL M0)).
  { rewrite edge_eta. apply (denc_ext s vars phi0 _ D0). intros c Hc0.
    rewrite (denc_bfun s B vars phi0 c D0 Hc0), Hc. unfold cubeL, M0. rewrite forallb_map.
    apply forallb_ext. intros [v b]. simpl. unfold asg_of. pose proof (Hc0 (lv s v)) as Hb.
    destruct b; simpl; destruct (c (lv s v)) as [|[|k]]; try reflexivity; lia. }
  pose proof (rlevel_le s H (eref vars)).
  apply (cube_chainC s B (S (nlevels s)) (eref vars) (etag vars) M0 ltac:(lia) D).
  - unfold M0. rewrite map_map. simpl.
    clear - Hnd Hlt H. induction lits as [|[v b] r IH]; [constructor|].
    simpl in *. inversion Hnd as [|? ? Hn Hr]; subst. constructor.
    + intros Hin. apply in_map_iff in Hin. destruct Hin as [[w b'] [E Hw]]. simpl in E.
      apply Hn. apply in_map_iff. exists (w, b'). split; [|exact Hw]. simpl.
      apply (lv_inj s H); [apply (Hlt (w, b')); right; exact Hw | apply (Hlt (v, b)); left; reflexivity | exact E].
    + apply IH; [exact Hr|]. intros p Hp. apply Hlt. right. exact Hp.
  - intros p Hp. unfold M0 in Hp. apply in_map_iff in Hp. destruct Hp as [[v b] [<- Hv]]. simpl.
    apply (lv_spec s H v (Hlt (v, b) Hv)).
Qed.

Lemma varset_chainC : forall s vars vs, BcOK s -> ref_ok s (eref vars) -> is_varsetC s vars vs ->
  (forall v, In v vs -> v < nlevels s) ->
  exists L, VChainC s vars L /\ (forall l, In l L -> l < nlevels s) /\
            Permutation (map (vl s) L) (nodup Nat.eq_dec vs).
Proof.
  intros s vars vs B Ov Hvs Hlt. pose proof (bc_wf s B) as H.
  set (ws := nodup Nat.eq_dec vs).
  set (lits := map (fun v => (v, true)) ws).
  assert (Hc : is_cubeC s vars lits).
  { intros a. rewrite Hvs. unfold lits. rewrite forallb_map. simpl.
    rewrite (forallb_same_elems _ (fun v => a v) vs ws) by (intros x; unfold ws; rewrite nodup_In; reflexivity).
    apply forallb_ext. intros v. destruct (a v); reflexivity. }
  assert (Hf : map fst lits = ws) by (unfold lits; rewrite map_map; simpl; apply map_id).
  destruct (cube_lchainC s vars lits B Ov Hc) as [M [V P]].
  { rewrite Hf. apply NoDup_nodup. }
  { intros p Hp. unfold lits in Hp. apply in_map_iff in Hp. destruct Hp as [v [<- Hv]]. simpl.
    apply Hlt. unfold ws in Hv. rewrite nodup_In in Hv. exact Hv. }
  assert (Hpos : forall p, In p M -> snd p = true).
  { intros p Hp. apply (Permutation_in _ P) in Hp. apply in_map_iff in Hp.
    destruct Hp as [[v b] [<- Hv]]. unfold lits in Hv. apply in_map_iff in Hv.
    destruct Hv as [w [E _]]. inversion E. reflexivity. }
  exists (map fst M). split; [apply (lchainc_vchainc s _ _ M V Hpos vars eq_refl)|].
  split.
  - intros l Hl. apply in_map_iff in Hl. destruct Hl as [p [<- Hp]]. apply (lchainc_lt s _ _ M p B V Hp).
  - apply (Permutation_map fst) in P. apply (Permutation_map (vl s)) in P.
    eapply Permutation_trans; [exact P|]. unfold lits. rewrite !map_map. simpl.
    rewrite (map_ext_in _ (fun v => v)); [rewrite map_id; apply Permutation_refl|].
    intros v Hv. apply (vl_lv s H). apply Hlt. unfold ws in Hv. rewrite nodup_In in Hv. exact Hv.
Qed.

Lemma cqlevs_quant : forall s q vars vs L phi F, BcOK s -> ref_ok s (eref vars) -> is_varsetC s vars vs ->
  (forall v, In v vs -> v < nlevels s) -> (q = QUnique -> NoDup vs) ->
  VChainC s vars L -> cext phi -> aext F -> (forall a, F a = phi (choice_of s a)) ->
  forall a, qlevs (qf q) L phi (choice_of s a) = quant (qfun q) vs F a.
Proof.
  intros s q vars vs L phi F B Ov Hvs Hlt Hu V X XF EF a. pose proof (bc_wf s B) as H.
  destruct (varset_chainC s vars vs B Ov Hvs Hlt) as [L' [V' [HL P]]].
  rewrite (vchainc_fun s _ _ _ V V').
  rewrite <- (quant_bridge s H (qf q) phi (map (vl s) L') L' X (forall2_vl s L' H HL)).
  rewrite (quant_ext (qf q) _ _ F) by (intros a0; symmetry; apply EF).
  rewrite (quant_ext_q (qf q) (qfun q)) by (intros x y; symmetry; apply qfun_qop).
  assert (Med : medial (qfun q)) by (destruct q; simpl; auto using medial_andb, medial_orb, medial_xorb).
  rewrite (quant_perm (qfun q) _ _ F Med XF P).
  destruct q.
  - apply (quant_nodup andb vs F idem_andb XF).
  - apply (quant_nodup orb vs F idem_orb XF).
  - rewrite (nodup_fixed_point Nat.eq_dec (Hu eq_refl)). reflexivity.
Qed.

Section TopC.
Variable lt : edge -> edge -> bool.
Variable C : Type.
Variable cget : C -> N -> list edge -> option edge.
Variable cadd : C -> N -> list edge -> edge -> C.
Hypothesis Hlossy : lossyC cget cadd.
Variable Sg : N -> option (list (nat * edge)).

Notation QOKC := (QCacheOKC cget Sg).

(** exists / forall / unique *)
Theorem cquant_edge_sound : forall q s c f vars,
  BcOK s -> QOKC s c -> ref_ok s (eref f) -> ref_ok s (eref vars) ->
  exists s' c' r, cquant_edge lt C cget cadd s c q f vars = Some (s', c', r) /\
    BcOK s' /\ extends s s' /\ QOKC s' c' /\ ref_ok s' (eref r) /\
    forall vs, (forall v, In v vs -> v < nlevels s) -> is_varsetC s vars vs -> (q = QUnique -> NoDup vs) ->
    forall a, cbfun_of s' r a = quant (qfun q) vs (cbfun_of s f) a.
Proof.
  intros q s c f vars B Q Of Ov. pose proof (bc_wf s B) as H.
  destruct (denc_exists s f B Of) as [phi D]. destruct (vchainc_total s B vars Ov) as [L V].
  pose proof (rlevel_le s H (eref f)).
  destruct (cquant_rec_ok lt C cget cadd Hlossy Sg q (S (nlevels s)) s c f vars phi L B Q D Ov V ltac:(lia))
    as [s' [c' [r [E [B' [X [Q' D']]]]]]].
  exists s', c', r. split; [exact E|]. split; [exact B'|]. split; [exact X|]. split; [exact Q'|].
  split; [apply (proj1 D')|]. intros vs Hlt Hvs Hu a.
  rewrite (cbfun_of_den s' r _ D'). unfold choice_of. rewrite (ext_l2v _ _ X). fold (choice_of s a).
  apply (cqlevs_quant s q vars vs L phi (cbfun_of s f) B Ov Hvs Hlt Hu V (denc_cext s f phi H D)
           (aext_cbfun_of s B f) (cbfun_of_den s f phi D)).
Qed.

(** apply_forall / apply_exists / apply_unique through the dispatch tables *)
Theorem capply_quant_edge_sound : forall q op s c f g vars,
  BcOK s -> QOKC s c -> ref_ok s (eref f) -> ref_ok s (eref g) -> ref_ok s (eref vars) ->
  exists s' c' r, capply_quant_edge lt C cget cadd s c q op f g vars = Some (s', c', r) /\
    BcOK s' /\ extends s s' /\ QOKC s' c' /\ ref_ok s' (eref r) /\
    forall vs, (forall v, In v vs -> v < nlevels s) -> is_varsetC s vars vs -> (q = QUnique -> NoDup vs) ->
    forall a, cbfun_of s' r a = quant (qfun q) vs (lift2 op (cbfun_of s f) (cbfun_of s g)) a.
Proof.
  intros q op s c f g vars B Q Of Og Ov. pose proof (bc_wf s B) as H.
  destruct (denc_exists s f B Of) as [phi Df]. destruct (denc_exists s g B Og) as [psi Dg].
  destruct (vchainc_total s B vars Ov) as [L V].
  destruct (capply_quant_edge_ok lt C cget cadd Hlossy Sg q op s c f g vars phi psi L B Q Df Dg Ov V)
    as [s' [c' [r [E [B' [X [Q' D']]]]]]].
  exists s', c', r. split; [exact E|]. split; [exact B'|]. split; [exact X|]. split; [exact Q'|].
  split; [apply (proj1 D')|]. intros vs Hlt Hvs Hu a.
  rewrite (cbfun_of_den s' r _ D'). unfold choice_of. rewrite (ext_l2v _ _ X). fold (choice_of s a).
  apply (cqlevs_quant s q vars vs L _ (lift2 op (cbfun_of s f) (cbfun_of s g)) B Ov Hvs Hlt Hu V).
  - apply (cext_indep _ 0). intros x y Hx Hy Exy.
    rewrite (indep_cext phi (denc_cext s f phi H Df) x y Hx Hy Exy),
            (indep_cext psi (denc_cext s g psi H Dg) x y Hx Hy Exy). reflexivity.
  - apply aext_lift2; apply (aext_cbfun_of s B).
  - intros a0. unfold lift2. rewrite (cbfun_of_den s f phi Df), (cbfun_of_den s g psi Dg). reflexivity.
Qed.

(** restrict *)
Theorem crestrict_edge_sound : forall s c f vars,
  BcOK s -> QOKC s c -> ref_ok s (eref f) -> ref_ok s (eref vars) ->
  exists s' c' r, crestrict_edge C cget cadd s c f vars = Some (s', c', r) /\
    BcOK s' /\ extends s s' /\ QOKC s' c' /\ ref_ok s' (eref r) /\
    forall lits, NoDup (map fst lits) -> (forall p, In p lits -> fst p < nlevels s) -> is_cubeC s vars lits ->
    forall a, cbfun_of s' r a = restrict_s lits (cbfun_of s f) a.
Proof.
  intros s c f vars B Q Of Ov. pose proof (bc_wf s B) as H.
  destruct (denc_exists s f B Of) as [phi D].
  destruct (lchainc_total s B (eref vars) (etag vars) Ov) as [M0 V0].
  pose proof (rlevel_le s H (eref f)).
  destruct (crestrict_ok C cget cadd Hlossy Sg (S (nlevels s)) s c f vars phi M0 B Q D Ov V0 ltac:(lia))
    as [s' [c' [r [E [B' [X [Q' D']]]]]]].
  exists s', c', r. split; [exact E|]. split; [exact B'|]. split; [exact X|]. split; [exact Q'|].
  split; [apply (proj1 D')|]. intros lits Hnd Hlt Hc a.
  destruct (cube_lchainC s vars lits B Ov Hc Hnd Hlt) as [M [V P]].
  rewrite (lchainc_fun s _ _ _ _ V0 V) in D'.
  rewrite (cbfun_of_den s' r _ D'). unfold choice_of. rewrite (ext_l2v _ _ X). fold (choice_of s a).
  set (lits' := map (fun m : nat * bool => (vl s (fst m), snd m)) M).
  assert (F2 : Forall2 (fun (p m : nat * bool) => nth_error (s_l2v s) (fst m) = Some (fst p) /\ snd p = snd m)
                       lits' M).
  { unfold lits'. assert (HM : forall p, In p M -> fst p < nlevels s)
      by (intros p Hp; apply (lchainc_lt s _ _ M p B V Hp)).
    clear - HM H. induction M as [|m r IH]; [constructor|]. simpl. constructor.
    - simpl. split; [apply (vl_spec s H (fst m)); apply HM; left; reflexivity | reflexivity].
    - apply IH. intros p Hp. apply HM. right. exact Hp. }
  rewrite <- (restr_bridge s H phi lits' M (denc_cext s f phi H D) F2 a).
  rewrite (restrict_s_ext lits' _ (cbfun_of s f)) by (intros a0; symmetry; apply (cbfun_of_den s f phi D)).
  assert (P' : Permutation lits' lits).
  { unfold lits'. apply (Permutation_map (fun m : nat * bool => (vl s (fst m), snd m))) in P.
    eapply Permutation_trans; [exact P|]. rewrite map_map. simpl.
    rewrite (map_ext_in _ (fun p => p)); [rewrite map_id; apply Permutation_refl|].
    intros [v b] Hv. simpl. rewrite (vl_lv s H v (Hlt (v, b) Hv)). reflexivity. }
  apply (restrict_s_perm lits' lits (cbfun_of s f) (aext_cbfun_of s B f)); [|exact P'].
  eapply Permutation_NoDup; [apply Permutation_map; symmetry; exact P' | exact Hnd].
Qed.

(** substitute *)
Theorem csubstitute_edge_sound : forall s c f pairs id,
  BcOK s -> QOKC s c -> ref_ok s (eref f) -> NoDup (map fst pairs) ->
  (forall v r, In (v, r) pairs -> v < nlevels s /\ ref_ok s (eref r)) -> Sg id = Some pairs ->
  exists s' c' r, csubstitute_edge lt C cget cadd s c f pairs id = Some (s', c', r) /\
    BcOK s' /\ extends s s' /\ QOKC s' c' /\ ref_ok s' (eref r) /\
    forall a, cbfun_of s' r a =
              subst_s (map (fun p => (fst p, cbfun_of s (snd p))) pairs) (cbfun_of s f) a.
Proof.
  intros s c f pairs id B Q Of Hnd Hp Es. pose proof (bc_wf s B) as H.
  destruct (denc_exists s f B Of) as [phi D].
  destruct (csubstitute_edge_ok lt C cget cadd Hlossy Sg s c f pairs id phi B Q D Hnd Hp Es)
    as [s' [c' [r [E [B' [X [Q' D']]]]]]].
  exists s', c', r. split; [exact E|]. split; [exact B'|]. split; [exact X|]. split; [exact Q'|].
  split; [apply (proj1 D')|]. intros a.
  rewrite (cbfun_of_den s' r _ D'). unfold choice_of. rewrite (ext_l2v _ _ X). fold (choice_of s a).
  rewrite (psubstC_bridge s phi pairs (denc_cext s f phi H D) a).
  apply subst_s_ext. intros a0. symmetry. apply (cbfun_of_den s f phi D).
Qed.

End TopC.
