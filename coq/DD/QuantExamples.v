(** * The hypotheses of the C04 theorems are satisfiable, and the algorithms run

    Concrete table [ex_snap] (DD/TableProofs.v): 2 variables, variable 0 at
    level 1, variable 1 at level 0; node 1 = x0, node 2 = not x0,
    node 3 = (x1 <-> x0).  [vm_compute] runs of the models of DD/Quant.v with
    the association-list cache, and the instances of the soundness theorems'
    hypotheses. *)

From Coq Require Import List NArith PArith Bool Arith Lia FMapPositive.
From OxiVerif Require Import DD.Table DD.TableProofs DD.Sem DD.Build DD.BuildProofs
  DD.Apply DD.ApplyProofs DD.ApplyEvalProofs DD.ApplyExamples DD.Quant DD.QuantSpecProofs
  DD.QuantLemmas DD.QuantProofs DD.SubstProofs DD.QuantTopProofs DD.QuantHistory.
Import ListNotations.

Definition no_subst : N -> option (list (nat * ref)) := fun _ => None.

(** the empty cache satisfies the invariant for every registry *)
Lemma qcacheok_empty : forall Sg s, QCacheOK ac_get Sg s [].
Proof. intros Sg s. split; [apply ac_empty_ok|]. intros code args r E. discriminate. Qed.

Lemma qcacheok_nocache : forall Sg s c, QCacheOK nc_get Sg s c.
Proof. intros Sg s c. split; [apply nc_ok|]. intros code args r E. discriminate. Qed.

(** node 1 is the variable set {x0}, node 2 the cube (not x0) *)
Example ex_varset : is_varset ex_snap (RN 1) [0].
Proof. intros a. cbv. destruct (a 0); reflexivity. Qed.

Example ex_cube_pos : is_cube ex_snap (RN 1) [(0, true)].
Proof. intros a. cbv. destruct (a 0); reflexivity. Qed.

Example ex_cube_neg : is_cube ex_snap (RN 2) [(0, false)].
Proof. intros a. cbv. destruct (a 0); reflexivity. Qed.

(** all hypotheses of [quant_edge_sound] / [apply_quant_edge_sound] / [restrict_edge_sound] hold *)
Example ex_quant_hyps :
  BddOK ex_snap /\ QCacheOK ac_get no_subst ex_snap [] /\ lossy ac_get ac_add /\
  ref_ok ex_snap (RN 3) /\ ref_ok ex_snap (RN 1) /\
  (forall v, In v [0] -> v < nlevels ex_snap) /\ is_varset ex_snap (RN 1) [0] /\ NoDup [0] /\
  NoDup (map fst [(0, false)]) /\ is_cube ex_snap (RN 2) [(0, false)].
Proof.
  split; [exact ex_snap_bdd_ok|]. split; [apply qcacheok_empty|]. split; [exact ac_lossy|].
  split; [eexists; reflexivity|]. split; [eexists; reflexivity|].
  split; [intros v [<-|[]]; vm_compute; lia|]. split; [exact ex_varset|].
  split; [repeat constructor; intros []|]. split; [repeat constructor; intros [] | exact ex_cube_neg].
Qed.

Definition res_of (r : option (snap * acache * ref)) : option (nat * ref) :=
  match r with Some (s, _, r) => Some (PositiveMap.cardinal (s_nodes s), r) | None => None end.

(** exists x0. (x1 <-> x0) = true, forall x0. ... = false, unique x0. ... = true;
    no node is created *)
Example ex_quant_x0 :
  res_of (quant_edge gt_id acache ac_get ac_add ex_snap [] QExists (RN 3) (RN 1)) = Some (3, RT 1%N) /\
  res_of (quant_edge gt_id acache ac_get ac_add ex_snap [] QForall (RN 3) (RN 1)) = Some (3, RT 0%N) /\
  res_of (quant_edge gt_id acache ac_get ac_add ex_snap [] QUnique (RN 3) (RN 1)) = Some (3, RT 1%N).
Proof. vm_compute. repeat split; reflexivity. Qed.

(** the variable set {x0} lies above x0's own node only for "not x0" (node 2,
    same level); quantifying x0 in "x0": set_pop keeps the set; quantifying a
    variable above the operand: exists/forall skip it ([set_pop]), unique gives
    false.  Operand node 1 (= x0, level 1), variable set {x1} (node 4 = x1 at
    level 0, built by [mk_var]) *)
Example ex_quant_var_above :
  match mk_var ex_snap 1 false with
  | Some (s, x1) =>
    x1 = RN 4 /\
    res_of (quant_edge gt_id acache ac_get ac_add s [] QExists (RN 1) x1) = Some (4, RN 1) /\
    res_of (quant_edge gt_id acache ac_get ac_add s [] QForall (RN 1) x1) = Some (4, RN 1) /\
    res_of (quant_edge gt_id acache ac_get ac_add s [] QUnique (RN 1) x1) = Some (4, RT 0%N) /\
    (* exists x1. (x1 <-> x0) = true;  over the set {x1, x0} (node 5 = x1 /\ x0) as well *)
    res_of (quant_edge gt_id acache ac_get ac_add s [] QExists (RN 3) x1) = Some (4, RT 1%N) /\
    match apply_bin gt_id acache ac_get ac_add 3 s [] OAnd x1 (RN 1) with
    | Some (s2, _, both) =>
      res_of (quant_edge gt_id acache ac_get ac_add s2 [] QForall (RN 3) both) = Some (5, RT 0%N) /\
      res_of (quant_edge gt_id acache ac_get ac_add s2 [] QUnique (RN 3) both) = Some (5, RT 0%N)
    | None => False
    end
  | None => False
  end.
Proof. vm_compute. repeat split; reflexivity. Qed.

(** restrict (x1 <-> x0) by x0 = true gives x1 (a new node at level 0), by
    x0 = false gives not x1; restricting by a variable above the operand keeps it *)
Example ex_restrict :
  (match restrict_edge acache ac_get ac_add ex_snap [] (RN 3) (RN 1) with
   | Some (s, _, r) => find_node s 4%positive = Some (mkNode 0 [E (RT 1); E (RT 0)] 0 0) /\ r = RN 4
   | None => False end) /\
  (match restrict_edge acache ac_get ac_add ex_snap [] (RN 3) (RN 2) with
   | Some (s, _, r) => find_node s 4%positive = Some (mkNode 0 [E (RT 0); E (RT 1)] 0 0) /\ r = RN 4
   | None => False end) /\
  res_of (restrict_edge acache ac_get ac_add ex_snap [] (RN 1) (RN 3)) = Some (3, RT 1%N) /\
  res_of (restrict_edge acache ac_get ac_add ex_snap [] (RN 3) (RT 1%N)) = Some (3, RN 3).
Proof. vm_compute. repeat split; reflexivity. Qed.

(** exists x0. (x1 <-> x0) /\ x0  =  x1;  forall x0. (x1 <-> x0) \/ not x0  =  x1;
    unique x0. (x1 <-> x0) xor x0  =  false (the operand is "not x1", x0 does not occur) *)
Example ex_apply_quant :
  (match apply_quant_edge gt_id acache ac_get ac_add ex_snap [] QExists OAnd (RN 3) (RN 1) (RN 1) with
   | Some (s, _, r) => find_node s 4%positive = Some (mkNode 0 [E (RT 1); E (RT 0)] 0 0) /\ r = RN 4
   | None => False end) /\
  (match apply_quant_edge gt_id acache ac_get ac_add ex_snap [] QForall OOr (RN 3) (RN 2) (RN 1) with
   | Some (s, _, r) => find_node s 4%positive = Some (mkNode 0 [E (RT 1); E (RT 0)] 0 0) /\ r = RN 4
   | None => False end) /\
  (match apply_quant_edge gt_id acache ac_get ac_add ex_snap [] QUnique OXor (RN 3) (RN 1) (RN 1) with
   | Some (s, _, r) => r = RT 0%N
   | None => False end).
Proof. vm_compute. repeat split; reflexivity. Qed.

(** substitution x0 := not x0 in (x1 <-> x0) gives (x1 <-> not x0) = (x1 xor x0);
    the simultaneous swap x0 := x1, x1 := x0 leaves the (symmetric) function alone (one intermediate node, not x1, is created);
    the second application of the same object is served from the cache *)
Example ex_substitute :
  (match substitute_edge gt_id acache ac_get ac_add ex_snap [] (RN 3) [(0, RN 2)] 7%N with
   | Some (s, c, r) =>
     find_node s 5%positive = Some (mkNode 0 [E (RN 2); E (RN 1)] 0 0) /\ r = RN 5 /\
     ac_get c (code_subst 7) [RN 3] = Some (RN 5) /\
     res_of (substitute_edge gt_id acache ac_get ac_add s c (RN 3) [(0, RN 2)] 7%N) = Some (5, RN 5)
   | None => False end) /\
  (match mk_var ex_snap 1 false with
   | Some (s, x1) =>
     res_of (substitute_edge gt_id acache ac_get ac_add s [] (RN 3) [(0, x1); (1, RN 1)] 8%N) = Some (5, RN 3)
   | None => False end).
Proof. vm_compute. repeat split; reflexivity. Qed.

(** hypotheses of [substitute_edge_sound] *)
Example ex_subst_hyps :
  let Sg := sg_add no_subst 7%N [(0, RN 2)] in
  QCacheOK ac_get Sg ex_snap [] /\ NoDup (map fst [(0, RN 2)]) /\
  (forall v r, In (v, r) [(0, RN 2)] -> v < nlevels ex_snap /\ ref_ok ex_snap r) /\
  Sg 7%N = Some [(0, RN 2)].
Proof.
  split; [apply qcacheok_empty|]. split; [repeat constructor; intros []|].
  split; [|reflexivity]. intros v r [E|[]]. inversion E; subst. split; [vm_compute; lia | eexists; reflexivity].
Qed.

(** a history on [ex_snap] with the association-list cache: two substitution
    objects (x0 := not x0 under id 0, x0 := x0 under id 1) applied alternately
    and repeatedly, a quantification in between, the cache cleared, the first
    object applied again: always the same results *)
Example ex_history :
  match qrun gt_id acache ac_get ac_add [] (mkQ acache ex_snap [] [] 0%N)
          [QONewSubst [(0, RN 2)]; QONewSubst [(0, RN 1)];
           QOSubst (RN 3) 0%N; QOSubst (RN 3) 1%N; QOSubst (RN 3) 0%N;
           QOQuant QExists (RN 3) (RN 1);
           QOSubst (RN 3) 1%N; QOClear; QOSubst (RN 3) 0%N] with
  | Some (st, rs) =>
    rs = [None; None; Some (RN 5); Some (RN 3); Some (RN 5); Some (RT 1%N); Some (RN 3); None; Some (RN 5)] /\
    q_next acache st = 2%N /\ q_c acache st <> []
  | None => False
  end.
Proof. vm_compute. repeat split; try reflexivity. discriminate. Qed.

Example ex_history_inv : QInv acache ac_get (mkQ acache ex_snap [] [] 0%N).
Proof. apply qinv_init; [reflexivity | exact ex_snap_bdd_ok]. Qed.
