(** * Histories of quantification / restriction / substitution operations

    A state = node table + apply cache + the registry of substitution objects
    with the id counter ([new_substitution_id]).  Operations: the three
    quantifiers, the fused forms, restrict, substitute with a registered
    object, creation of a new substitution object (fresh id), clearing the
    cache (what gc / reordering do to it; the table itself is not changed by
    this model of "clear").

    [qstep_ok]: from every state satisfying the invariant [QInv], every
    operation whose operands exist runs to completion, re-establishes the
    invariant, only extends the table, and returns a reference denoting the
    spec function of its operands - so in every history, one substitution
    object can be applied any number of times and several objects in any
    interleaving ([qrun_ok]). *)

From Coq Require Import List NArith PArith Bool Arith Lia FMapPositive.
From OxiVerif Require Import DD.Table DD.TableProofs DD.Canon DD.Sem DD.Build DD.BuildProofs
  DD.Apply DD.ApplyProofs DD.ApplyEvalProofs DD.Quant DD.QuantSpecProofs DD.QuantLemmas
  DD.QuantProofs DD.RestrictProofs DD.SubstProofs DD.ApplyQuantProofs DD.QuantTopProofs.
Import ListNotations.

Definition pairs_t := list (nat * ref).

(** the registry as a function: id |-> object *)
Fixpoint reg_fn (reg : list (N * pairs_t)) (id : N) : option pairs_t :=
  match reg with
  | [] => None
  | (i, p) :: r => if N.eqb id i then Some p else reg_fn r id
  end.

Section Hist.
Variable gt : ref -> ref -> bool.
Variable C : Type.
Variable cget : C -> N -> list ref -> option ref.
Variable cadd : C -> N -> list ref -> ref -> C.
Hypothesis Hlossy : lossy cget cadd.
(** the cleared cache *)
Variable cempty : C.
Hypothesis Hempty : forall k a, cget cempty k a = None.

Record qstate := mkQ { q_s : snap; q_c : C; q_reg : list (N * pairs_t); q_next : N }.

Inductive qop :=
| QOQuant (q : quantifier) (f vars : ref)
| QOApplyQuant (q : quantifier) (o : bop) (f g vars : ref)
| QORestrict (f vars : ref)
| QOSubst (f : ref) (id : N)
| QONewSubst (pairs : pairs_t)
| QOClear.

Definition with_res (st : qstate) (res : option (snap * C * ref)) : option (qstate * option ref) :=
  match res with
  | Some (s', c', r) => Some (mkQ s' c' (q_reg st) (q_next st), Some r)
  | None => None
  end.

Definition qstep (st : qstate) (o : qop) : option (qstate * option ref) :=
  match o with
  | QOQuant q f vars => with_res st (quant_edge gt C cget cadd (q_s st) (q_c st) q f vars)
  | QOApplyQuant q op f g vars =>
    with_res st (apply_quant_edge gt C cget cadd (q_s st) (q_c st) q op f g vars)
  | QORestrict f vars => with_res st (restrict_edge C cget cadd (q_s st) (q_c st) f vars)
  | QOSubst f id =>
    match reg_fn (q_reg st) id with
    | Some pairs => with_res st (substitute_edge gt C cget cadd (q_s st) (q_c st) f pairs id)
    | None => None
    end
  | QONewSubst pairs =>
    Some (mkQ (q_s st) (q_c st) ((q_next st, pairs) :: q_reg st) (N.succ (q_next st)), None)
  | QOClear => Some (mkQ (q_s st) cempty (q_reg st) (q_next st), None)
  end.

Definition pairs_wf (s : snap) (pairs : pairs_t) : Prop :=
  NoDup (map fst pairs) /\ forall v r, In (v, r) pairs -> v < nlevels s /\ ref_ok s r.

Record QInv (st : qstate) : Prop := mkQInv {
  qi_bdd : BddOK (q_s st);
  qi_cache : QCacheOK cget (reg_fn (q_reg st)) (q_s st) (q_c st);
  qi_reg : forall id pairs, reg_fn (q_reg st) id = Some pairs -> pairs_wf (q_s st) pairs;
  qi_fresh : forall id, (q_next st <= id)%N -> reg_fn (q_reg st) id = None
}.

(** the operands exist *)
Definition op_pre (st : qstate) (o : qop) : Prop :=
  match o with
  | QOQuant _ f vars => ref_ok (q_s st) f /\ ref_ok (q_s st) vars
  | QOApplyQuant _ _ f g vars => ref_ok (q_s st) f /\ ref_ok (q_s st) g /\ ref_ok (q_s st) vars
  | QORestrict f vars => ref_ok (q_s st) f /\ ref_ok (q_s st) vars
  | QOSubst f id => ref_ok (q_s st) f /\ exists pairs, reg_fn (q_reg st) id = Some pairs
  | QONewSubst pairs => pairs_wf (q_s st) pairs
  | QOClear => True
  end.

(** what the operation returns, in terms of the spec layer *)
Definition op_post (st : qstate) (o : qop) (st' : qstate) (res : option ref) : Prop :=
  let s := q_s st in let s' := q_s st' in
  match o with
  | QOQuant q f vars =>
    exists r, res = Some r /\ ref_ok s' r /\
    forall vs, (forall v, In v vs -> v < nlevels s) -> is_varset s vars vs -> (q = QUnique -> NoDup vs) ->
    forall a, bfun_of s' r a = quant (qfun q) vs (bfun_of s f) a
  | QOApplyQuant q op f g vars =>
    exists r, res = Some r /\ ref_ok s' r /\
    forall vs, (forall v, In v vs -> v < nlevels s) -> is_varset s vars vs -> (q = QUnique -> NoDup vs) ->
    forall a, bfun_of s' r a = quant (qfun q) vs (lift2 op (bfun_of s f) (bfun_of s g)) a
  | QORestrict f vars =>
    exists r, res = Some r /\ ref_ok s' r /\
    forall lits, NoDup (map fst lits) -> (forall p, In p lits -> fst p < nlevels s) -> is_cube s vars lits ->
    forall a, bfun_of s' r a = restrict_s lits (bfun_of s f) a
  | QOSubst f id =>
    exists r pairs, res = Some r /\ ref_ok s' r /\ reg_fn (q_reg st) id = Some pairs /\
    forall a, bfun_of s' r a = subst_s (map (fun p => (fst p, bfun_of s (snd p))) pairs) (bfun_of s f) a
  | QONewSubst pairs =>
    res = None /\ reg_fn (q_reg st') (q_next st) = Some pairs /\ q_next st' = N.succ (q_next st)
  | QOClear => res = None
  end.

Lemma pairs_wf_extends : forall s s' pairs, extends s s' -> pairs_wf s pairs -> pairs_wf s' pairs.
Proof.
  intros s s' pairs X [Hnd Hp]. split; [exact Hnd|]. intros v r Hin.
  destruct (Hp v r Hin) as [A B]. split; [rewrite (ext_nlevels _ _ X); exact A | apply (ext_ref_ok _ _ _ X B)].
Qed.

(** a result of one of the algorithms re-establishes the invariant *)
Lemma inv_with_res : forall st s' c', QInv st -> BddOK s' -> extends (q_s st) s' ->
  QCacheOK cget (reg_fn (q_reg st)) s' c' -> QInv (mkQ s' c' (q_reg st) (q_next st)).
Proof.
  intros st s' c' I B' X Q'. constructor; simpl; [exact B' | exact Q' | | apply (qi_fresh st I)].
  intros id pairs E. apply (pairs_wf_extends (q_s st) s' pairs X). apply (qi_reg st I id pairs E).
Qed.

Theorem qstep_ok : forall st o, QInv st -> op_pre st o ->
  exists st' res, qstep st o = Some (st', res) /\ QInv st' /\ extends (q_s st) (q_s st') /\
                  op_post st o st' res.
Proof.
  intros st o I Pre. pose proof (qi_bdd st I) as B. pose proof (qi_cache st I) as Q.
  destruct o as [q f vars|q op f g vars|f vars|f id|pairs|]; simpl in Pre; simpl qstep.
  - destruct Pre as [Of Ov].
    destruct (quant_edge_total gt C cget cadd Hlossy _ q (q_s st) (q_c st) f vars B Q Of Ov)
      as [s' [c' [r [E [B' [X [Q' [Or S]]]]]]]].
    rewrite E. simpl. eexists; eexists. split; [reflexivity|].
    split; [apply (inv_with_res st s' c' I B' X Q')|]. split; [exact X|].
    exists r. split; [reflexivity|]. split; [exact Or | exact S].
  - destruct Pre as [Of [Og Ov]].
    destruct (apply_quant_edge_total gt C cget cadd Hlossy _ q op (q_s st) (q_c st) f g vars B Q Of Og Ov)
      as [s' [c' [r [E [B' [X [Q' [Or S]]]]]]]].
    rewrite E. simpl. eexists; eexists. split; [reflexivity|].
    split; [apply (inv_with_res st s' c' I B' X Q')|]. split; [exact X|].
    exists r. split; [reflexivity|]. split; [exact Or | exact S].
  - destruct Pre as [Of Ov].
    destruct (restrict_edge_total C cget cadd Hlossy _ (q_s st) (q_c st) f vars B Q Of Ov)
      as [s' [c' [r [E [B' [X [Q' [Or S]]]]]]]].
    rewrite E. simpl. eexists; eexists. split; [reflexivity|].
    split; [apply (inv_with_res st s' c' I B' X Q')|]. split; [exact X|].
    exists r. split; [reflexivity|]. split; [exact Or | exact S].
  - destruct Pre as [Of [pairs Er]]. rewrite Er.
    destruct (qi_reg st I id pairs Er) as [Hnd Hp].
    destruct (substitute_edge_sound gt C cget cadd Hlossy _ (q_s st) (q_c st) f pairs id B Q Of Hnd Hp Er)
      as [s' [c' [r [E [B' [X [Q' [Or S]]]]]]]].
    rewrite E. simpl. eexists; eexists. split; [reflexivity|].
    split; [apply (inv_with_res st s' c' I B' X Q')|]. split; [exact X|].
    exists r, pairs. split; [reflexivity|]. split; [exact Or|]. split; [exact Er | exact S].
  - eexists; eexists. split; [reflexivity|]. simpl.
    assert (Hfresh : reg_fn (q_reg st) (q_next st) = None) by (apply (qi_fresh st I); lia).
    split; [|split; [apply extends_refl|]].
    + constructor; simpl.
      * exact B.
      * apply (qcacheok_register C cget (reg_fn (q_reg st)) (q_s st) (q_c st) (q_next st) pairs Q Hfresh).
      * intros id p. destruct (N.eqb_spec id (q_next st)) as [->|Hne].
        -- intros E. inversion E; subst. exact Pre.
        -- apply (qi_reg st I id p).
      * intros id Hid. destruct (N.eqb_spec id (q_next st)) as [->|Hne]; [lia|].
        apply (qi_fresh st I). lia.
    + split; [reflexivity|]. split; [rewrite N.eqb_refl; reflexivity | reflexivity].
  - eexists; eexists. split; [reflexivity|]. simpl.
    split; [|split; [apply extends_refl | reflexivity]].
    constructor; simpl; [exact B | | apply (qi_reg st I) | apply (qi_fresh st I)].
    split; [intros code args r E; rewrite Hempty in E; discriminate|].
    intros code args r E. rewrite Hempty in E. discriminate.
Qed.

(** ** Whole histories *)

Fixpoint qrun (st : qstate) (ops : list qop) : option (qstate * list (option ref)) :=
  match ops with
  | [] => Some (st, [])
  | o :: rest =>
    match qstep st o with
    | None => None
    | Some (st1, r) =>
      match qrun st1 rest with
      | Some (st2, rs) => Some (st2, r :: rs)
      | None => None
      end
    end
  end.

(** every operation's operands exist when it is its turn *)
Fixpoint ops_pre (st : qstate) (ops : list qop) : Prop :=
  match ops with
  | [] => True
  | o :: rest => op_pre st o /\ forall st1 r, qstep st o = Some (st1, r) -> ops_pre st1 rest
  end.

(** the states and results of a run, operation by operation *)
Fixpoint run_post (st : qstate) (ops : list qop) (rs : list (option ref)) : Prop :=
  match ops, rs with
  | [], [] => True
  | o :: rest, r :: rs' => exists st1, qstep st o = Some (st1, r) /\ op_post st o st1 r /\ run_post st1 rest rs'
  | _, _ => False
  end.

Theorem qrun_ok : forall ops st, QInv st -> ops_pre st ops ->
  exists st' rs, qrun st ops = Some (st', rs) /\ QInv st' /\ extends (q_s st) (q_s st') /\
                 run_post st ops rs.
Proof.
  induction ops as [|o rest IH]; intros st I Pre.
  - exists st, []. split; [reflexivity|]. split; [exact I|]. split; [apply extends_refl | exact Logic.I].
  - destruct Pre as [P0 Prest].
    destruct (qstep_ok st o I P0) as [st1 [r [E [I1 [X1 Post]]]]].
    destruct (IH st1 I1 (Prest st1 r E)) as [st2 [rs [E2 [I2 [X2 Posts]]]]].
    exists st2, (r :: rs). simpl. rewrite E, E2. split; [reflexivity|]. split; [exact I2|].
    split; [eapply extends_trans; eauto|]. exists st1. auto.
Qed.

End Hist.

(** the initial state: any BddOK table, cleared cache, no substitution object *)
Theorem qinv_init : forall C (cget : C -> N -> list ref -> option ref) cempty s,
  (forall k a, cget cempty k a = None) -> BddOK s -> QInv C cget (mkQ C s cempty [] 0%N).
Proof.
  intros C cget cempty s Hempty B. constructor; simpl; [exact B | | discriminate | reflexivity].
  split; intros code args r E; rewrite Hempty in E; discriminate.
Qed.
