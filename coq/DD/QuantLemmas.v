(** * Infrastructure for the proofs about DD/Quant.v

    - choice-level (= level-indexed) versions of the spec functions:
      [qlevs] (iterated quantification over a list of levels), [restr]
      (cofactor w.r.t. a list of level literals), [csubst] (simultaneous
      substitution of levels by references), with congruence / commutation /
      independence lemmas;
    - [VChain s vars L]: the levels met along the then-children of [vars]
      (what [set_pop] / [quant] / [apply_quant] read of a variable set);
      [LChain s vars M]: the literals [restrict::inner] reads of a cube;
    - frame lemmas: [apply_not] / [apply_bin] / [apply_ite] only add cache
      entries under their own operator codes (0..9);
    - [QCacheOK]: the cache invariant extended to the entries of [quant_rec],
      [restrict], [substitute], [apply_quant]; [qresult_ok]. *)

From Coq Require Import List NArith PArith Bool Arith Lia FMapPositive.
From OxiVerif Require Import DD.Table DD.TableProofs DD.Canon DD.Sem DD.Build DD.BuildProofs
  DD.Apply DD.ApplyProofs DD.Quant.
Import ListNotations.

Definition cfun := (nat -> nat) -> bool.

(** ** Choices up to pointwise equality *)

Definition ceq (c c' : nat -> nat) : Prop := forall l, c l = c' l.

Definition cext (phi : cfun) : Prop :=
  forall c c', bchoice c -> bchoice c' -> ceq c c' -> phi c = phi c'.

Lemma cext_indep : forall phi L, indep phi L -> cext phi.
Proof. intros phi L I c c' Hc Hc' E. apply I; auto. Qed.

Lemma indep_cext : forall phi, cext phi -> indep phi 0.
Proof. intros phi X c c' Hc Hc' E. apply X; auto. intros l. apply E. lia. Qed.

Lemma den_cext : forall s r phi, WF s -> Den s r phi -> cext phi.
Proof. intros s r phi H D. eapply cext_indep. apply (den_indep s r phi H D). Qed.

Lemma cupd_comm : forall c l m i j, l <> m -> ceq (cupd (cupd c l i) m j) (cupd (cupd c m j) l i).
Proof.
  intros c l m i j Hne x. unfold cupd.
  destruct (Nat.eqb_spec x m) as [Em|Hm]; destruct (Nat.eqb_spec x l) as [El|Hl]; try reflexivity.
  subst. contradiction.
Qed.

Lemma cupd_cupd : forall c l i j, ceq (cupd (cupd c l i) l j) (cupd c l j).
Proof. intros c l i j x. unfold cupd. destruct (Nat.eqb x l); reflexivity. Qed.

Lemma cupd_self : forall c l, ceq (cupd c l (c l)) c.
Proof. intros c l x. unfold cupd. destruct (Nat.eqb_spec x l) as [->|]; reflexivity. Qed.

Lemma ceq_cupd : forall c c' l i, ceq c c' -> ceq (cupd c l i) (cupd c' l i).
Proof. intros c c' l i E x. unfold cupd. destruct (Nat.eqb x l); [reflexivity | apply E]. Qed.

Lemma cext_cofn : forall phi l i, cext phi -> i < 2 -> cext (cofn phi l i).
Proof.
  intros phi l i X Hi c c' Hc Hc' E. unfold cofn.
  apply X; try (apply bchoice_upd; assumption). apply ceq_cupd. exact E.
Qed.

Ltac bc := repeat (apply bchoice_upd); try assumption; try lia; auto.

Lemma cext_comm : forall psi, cext psi -> forall c l m i j, bchoice c -> i < 2 -> j < 2 -> l <> m ->
  psi (cupd (cupd c l i) m j) = psi (cupd (cupd c m j) l i).
Proof. intros psi G c l m i j Hc Hi Hj Hne. apply G; [bc | bc | apply cupd_comm; exact Hne]. Qed.

Lemma cext_dbl : forall psi, cext psi -> forall c l i j, bchoice c -> i < 2 -> j < 2 ->
  psi (cupd (cupd c l i) l j) = psi (cupd c l j).
Proof. intros psi G c l i j Hc Hi Hj. apply G; [bc | bc | apply cupd_cupd]. Qed.

(** the function does not depend on level [l] *)
Definition nodep (phi : cfun) (l : nat) : Prop :=
  forall c i, bchoice c -> i < 2 -> phi (cupd c l i) = phi c.

Lemma indep_nodep : forall phi K l, indep phi K -> l < K -> nodep phi l.
Proof.
  intros phi K l I Hl c i Hc Hi. apply I; [apply bchoice_upd; assumption | exact Hc|].
  intros x Hx. unfold cupd. destruct (Nat.eqb_spec x l); [lia | reflexivity].
Qed.

Lemma cofn_self : forall phi c l, cext phi -> bchoice c -> cofn phi l (c l) c = phi c.
Proof.
  intros phi c l X Hc. unfold cofn. apply X; [apply bchoice_upd; [exact Hc | apply Hc] | exact Hc|].
  apply cupd_self.
Qed.

(** ** Iterated quantification over levels (mirrors [Sem.quant]) *)

Definition qlev (q : bool -> bool -> bool) (l : nat) (phi : cfun) : cfun :=
  fun c => q (cofn phi l 0 c) (cofn phi l 1 c).

Fixpoint qlevs (q : bool -> bool -> bool) (L : list nat) (phi : cfun) : cfun :=
  match L with
  | [] => phi
  | l :: r => qlev q l (qlevs q r phi)
  end.

Lemma indep_qlev : forall q l phi K, indep phi K -> indep (qlev q l phi) K.
Proof.
  intros q l phi K I c c' Hc Hc' E. unfold qlev, cofn.
  rewrite (I (cupd c l 0) (cupd c' l 0)), (I (cupd c l 1) (cupd c' l 1)); auto using bchoice_upd;
    intros x Hx; unfold cupd; destruct (Nat.eqb x l); auto.
Qed.

Lemma indep_qlevs : forall q L phi K, indep phi K -> indep (qlevs q L phi) K.
Proof.
  intros q L phi K I. induction L as [|l r IH]; [exact I|]. simpl. apply indep_qlev. exact IH.
Qed.

Lemma cext_qlevs : forall q L phi, cext phi -> cext (qlevs q L phi).
Proof. intros q L phi X. eapply cext_indep. apply indep_qlevs. apply indep_cext. exact X. Qed.

Lemma qlevs_ext : forall q L phi phi', (forall c, bchoice c -> phi c = phi' c) ->
  forall c, bchoice c -> qlevs q L phi c = qlevs q L phi' c.
Proof.
  intros q L phi phi' E. induction L as [|l r IH]; intros c Hc; [apply E; exact Hc|].
  simpl. unfold qlev, cofn. rewrite !IH by (apply bchoice_upd; auto). reflexivity.
Qed.

(** a cofactor w.r.t. a level that is not quantified commutes with the quantification *)
Lemma cofn_qlevs : forall q L phi l i, cext phi -> ~ In l L -> i < 2 ->
  forall c, bchoice c -> cofn (qlevs q L phi) l i c = qlevs q L (cofn phi l i) c.
Proof.
  intros q L phi l i X. induction L as [|m r IH]; intros Hn Hi c Hc; [reflexivity|].
  simpl in Hn. assert (Hml : l <> m) by (intros ->; tauto). assert (Hnr : ~ In l r) by tauto.
  pose proof (cext_qlevs q r phi X) as G.
  change (q (qlevs q r phi (cupd (cupd c l i) m 0)) (qlevs q r phi (cupd (cupd c l i) m 1))
          = q (qlevs q r (cofn phi l i) (cupd c m 0)) (qlevs q r (cofn phi l i) (cupd c m 1))).
  rewrite <- (IH Hnr Hi (cupd c m 0)), <- (IH Hnr Hi (cupd c m 1)) by (apply bchoice_upd; auto).
  unfold cofn.
  rewrite (cext_comm _ G c l m i 0 Hc Hi ltac:(lia) Hml).
  rewrite (cext_comm _ G c l m i 1 Hc Hi ltac:(lia) Hml).
  reflexivity.
Qed.

Lemma nodep_qlevs : forall q L phi l, cext phi -> nodep phi l -> nodep (qlevs q L phi) l.
Proof.
  intros q L phi l X Hn. induction L as [|m r IH]; [exact Hn|].
  pose proof (cext_qlevs q r phi X) as G.
  intros c i Hc Hi. simpl. unfold qlev, cofn.
  destruct (Nat.eq_dec l m) as [->|Hne].
  - rewrite (cext_dbl _ G c m i 0 Hc Hi ltac:(lia)).
    rewrite (cext_dbl _ G c m i 1 Hc Hi ltac:(lia)).
    reflexivity.
  - rewrite (cext_comm _ G c l m i 0 Hc Hi ltac:(lia) Hne).
    rewrite (cext_comm _ G c l m i 1 Hc Hi ltac:(lia) Hne).
    rewrite !IH by auto using bchoice_upd. reflexivity.
Qed.

(** idempotent connective: levels the function does not depend on can be dropped *)
Lemma qlev_nodep_idem : forall q l phi, (forall x, q x x = x) -> nodep phi l ->
  forall c, bchoice c -> qlev q l phi c = phi c.
Proof. intros q l phi I Hn c Hc. unfold qlev, cofn. rewrite !Hn by auto. apply I. Qed.

Lemma qlevs_nodep_idem : forall q L phi, (forall x, q x x = x) -> cext phi ->
  (forall l, In l L -> nodep phi l) -> forall c, bchoice c -> qlevs q L phi c = phi c.
Proof.
  intros q L phi I X. induction L as [|l r IH]; intros Hn c Hc; [reflexivity|].
  simpl. rewrite qlev_nodep_idem; auto.
  - apply IH; auto. intros m Hm. apply Hn. right. exact Hm.
  - apply nodep_qlevs; auto. apply Hn. left. reflexivity.
Qed.

(** exclusive or: quantifying a level the function does not depend on gives false *)
Lemma qlev_xor_nodep : forall l phi, nodep phi l ->
  forall c, bchoice c -> qlev xorb l phi c = false.
Proof. intros l phi Hn c Hc. unfold qlev, cofn. rewrite !Hn by auto. apply xorb_nilpotent. Qed.

(** Shannon expansion of a quantified function on a level outside the list *)
Lemma qlevs_shannon : forall q L phi lvl, cext phi -> ~ In lvl L ->
  forall c, bchoice c ->
  (if Nat.eqb (c lvl) 0 then qlevs q L (cofn phi lvl 0) c else qlevs q L (cofn phi lvl 1) c)
  = qlevs q L phi c.
Proof.
  intros q L phi lvl X Hn c Hc.
  rewrite (shannon_pick c lvl (fun i => qlevs q L (cofn phi lvl i) c) Hc).
  rewrite <- cofn_qlevs by (auto; apply Hc).
  apply cofn_self; [apply cext_qlevs; exact X | exact Hc].
Qed.

(** ** Cofactor w.r.t. a list of level literals (mirrors [Sem.restrict_s]) *)

Definition lit_ix (b : bool) : nat := if b then 0 else 1.

Lemma lit_ix_lt : forall b, lit_ix b < 2.
Proof. intros []; simpl; lia. Qed.

Fixpoint restr (M : list (nat * bool)) (phi : cfun) : cfun :=
  match M with
  | [] => phi
  | (l, b) :: r => cofn (restr r phi) l (lit_ix b)
  end.

Lemma indep_restr : forall M phi K, indep phi K -> indep (restr M phi) K.
Proof.
  intros M phi K I. induction M as [|[l b] r IH]; [exact I|].
  simpl. intros c c' Hc Hc' E. unfold cofn. apply IH; auto using bchoice_upd, lit_ix_lt.
  intros x Hx. unfold cupd. destruct (Nat.eqb x l); auto.
Qed.

Lemma cext_restr : forall M phi, cext phi -> cext (restr M phi).
Proof. intros M phi X. eapply cext_indep. apply indep_restr. apply indep_cext. exact X. Qed.

Lemma restr_ext : forall M phi phi', (forall c, bchoice c -> phi c = phi' c) ->
  forall c, bchoice c -> restr M phi c = restr M phi' c.
Proof.
  intros M phi phi' E. induction M as [|[l b] r IH]; intros c Hc; [apply E; exact Hc|].
  simpl. unfold cofn. apply IH. apply bchoice_upd; auto using lit_ix_lt.
Qed.

Lemma cofn_restr : forall M phi l i, cext phi -> ~ In l (map fst M) -> i < 2 ->
  forall c, bchoice c -> cofn (restr M phi) l i c = restr M (cofn phi l i) c.
Proof.
  intros M phi l i X. induction M as [|[m b] r IH]; intros Hn Hi c Hc; [reflexivity|].
  simpl in Hn. assert (Hml : l <> m) by (intros ->; tauto). assert (Hnr : ~ In l (map fst r)) by tauto.
  pose proof (cext_restr r phi X) as G. pose proof (lit_ix_lt b) as Hb.
  simpl. unfold cofn at 1. unfold cofn at 1. unfold cofn at 1.
  rewrite <- (IH Hnr Hi (cupd c m (lit_ix b))) by (apply bchoice_upd; auto).
  unfold cofn. apply G; auto using bchoice_upd. apply cupd_comm. exact Hml.
Qed.

Lemma nodep_restr : forall M phi l, cext phi -> nodep phi l -> nodep (restr M phi) l.
Proof.
  intros M phi l X Hn. induction M as [|[m b] r IH]; [exact Hn|].
  pose proof (cext_restr r phi X) as G. pose proof (lit_ix_lt b) as Hb.
  intros c i Hc Hi. simpl. unfold cofn.
  destruct (Nat.eq_dec l m) as [->|Hne].
  - apply G; auto using bchoice_upd. apply cupd_cupd.
  - rewrite (cext_comm _ G c l m i (lit_ix b) Hc Hi Hb Hne).
    apply IH; auto using bchoice_upd.
Qed.

(** a literal on a level the function does not depend on can be dropped *)
Lemma restr_drop : forall M phi l b, cext phi -> nodep phi l ->
  forall c, bchoice c -> restr ((l, b) :: M) phi c = restr M phi c.
Proof.
  intros M phi l b X Hn c Hc. simpl. unfold cofn.
  apply (nodep_restr M phi l X Hn); auto using lit_ix_lt.
Qed.

(** the top literal can be pushed inside when its level is not in the rest *)
Lemma restr_push : forall M phi l b, cext phi -> ~ In l (map fst M) ->
  forall c, bchoice c -> restr ((l, b) :: M) phi c = restr M (cofn phi l (lit_ix b)) c.
Proof. intros M phi l b X Hn c Hc. simpl. apply cofn_restr; auto using lit_ix_lt. Qed.

Lemma restr_shannon : forall M phi lvl, cext phi -> ~ In lvl (map fst M) ->
  forall c, bchoice c ->
  (if Nat.eqb (c lvl) 0 then restr M (cofn phi lvl 0) c else restr M (cofn phi lvl 1) c)
  = restr M phi c.
Proof.
  intros M phi lvl X Hn c Hc.
  rewrite (shannon_pick c lvl (fun i => restr M (cofn phi lvl i) c) Hc).
  rewrite <- cofn_restr by (auto; apply Hc).
  apply cofn_self; [apply cext_restr; exact X | exact Hc].
Qed.

(** ** Simultaneous substitution of levels by references *)

(** the canonical denotation of a reference *)
Definition dfun (s : snap) (r : ref) : cfun :=
  fun c => match semk s (S (nlevels s)) r c with Some 1%N => true | _ => false end.

Lemma den_dfun : forall s r, BddOK s -> ref_ok s r -> Den s r (dfun s r).
Proof.
  intros s r B Hok. split; [exact Hok|]. intros c Hc. unfold dfun.
  destruct (den_exists s r B Hok) as [phi [_ D]]. rewrite (D c Hc). destruct (phi c); reflexivity.
Qed.

Lemma dfun_den : forall s r phi, Den s r phi -> forall c, bchoice c -> dfun s r c = phi c.
Proof. intros s r phi [_ D] c Hc. unfold dfun. rewrite (D c Hc). destruct (phi c); reflexivity. Qed.

Lemma dfun_extends : forall s s' r c, WF s -> extends s s' -> ref_ok s r -> dfun s' r c = dfun s r c.
Proof.
  intros s s' r c H X Hok. unfold dfun.
  rewrite (ext_nlevels _ _ X), (semk_extends s s' H X _ r c Hok). reflexivity.
Qed.

(** the choice under which the substituted function is evaluated: level [l]
    takes the then-child iff its replacement is true under [c] *)
Definition sch (s : snap) (sv : list ref) (c : nat -> nat) : nat -> nat :=
  fun l => match nth_error sv l with
           | Some r => if dfun s r c then 0 else 1
           | None => c l
           end.

Definition csubst (s : snap) (sv : list ref) (phi : cfun) : cfun := fun c => phi (sch s sv c).

Lemma sch_bchoice : forall s sv c, bchoice c -> bchoice (sch s sv c).
Proof.
  intros s sv c Hc l. unfold sch. destruct (nth_error sv l); [destruct (dfun s r c); lia | apply Hc].
Qed.

Lemma sch_extends : forall s s' sv c, WF s -> extends s s' -> Forall (ref_ok s) sv ->
  ceq (sch s' sv c) (sch s sv c).
Proof.
  intros s s' sv c H X F l. unfold sch. destruct (nth_error sv l) as [r|] eqn:E; [|reflexivity].
  rewrite (dfun_extends s s' r c H X); [reflexivity|].
  rewrite Forall_forall in F. apply F. eapply nth_error_In; eauto.
Qed.

Lemma csubst_extends : forall s s' sv phi, WF s -> extends s s' -> Forall (ref_ok s) sv -> cext phi ->
  forall c, bchoice c -> csubst s' sv phi c = csubst s sv phi c.
Proof.
  intros s s' sv phi H X F Xp c Hc. unfold csubst.
  apply Xp; auto using sch_bchoice. apply sch_extends; assumption.
Qed.

Lemma csubst_ext : forall s sv phi phi', (forall c, bchoice c -> phi c = phi' c) ->
  forall c, bchoice c -> csubst s sv phi c = csubst s sv phi' c.
Proof. intros s sv phi phi' E c Hc. unfold csubst. apply E. apply sch_bchoice. exact Hc. Qed.

(** the same for a substitution object: pairs (variable, replacement); a level
    is replaced iff its variable is listed *)
Definition psch (s : snap) (pairs : list (nat * ref)) (c : nat -> nat) : nat -> nat :=
  fun l => match nth_error (s_l2v s) l with
           | Some v => match assoc_nat pairs v with
                       | Some r => if dfun s r c then 0 else 1
                       | None => c l
                       end
           | None => c l
           end.

Definition psubst (s : snap) (pairs : list (nat * ref)) (phi : cfun) : cfun :=
  fun c => phi (psch s pairs c).

Definition pairs_ok (s : snap) (pairs : list (nat * ref)) : Prop :=
  forall v r, In (v, r) pairs -> ref_ok s r.

Lemma assoc_nat_In : forall (A : Type) (l : list (nat * A)) k x, assoc_nat l k = Some x -> In (k, x) l.
Proof.
  intros A l k x. induction l as [|[a b] r IH]; simpl; [discriminate|].
  destruct (Nat.eqb_spec a k) as [->|Hne]; intros E; [inversion E; subst; left; reflexivity | right; auto].
Qed.

Lemma psch_bchoice : forall s pairs c, bchoice c -> bchoice (psch s pairs c).
Proof.
  intros s pairs c Hc l. unfold psch. destruct (nth_error (s_l2v s) l) as [v|]; [|apply Hc].
  destruct (assoc_nat pairs v) as [r|]; [destruct (dfun s r c); lia | apply Hc].
Qed.

Lemma psch_extends : forall s s' pairs c, WF s -> extends s s' -> pairs_ok s pairs ->
  ceq (psch s' pairs c) (psch s pairs c).
Proof.
  intros s s' pairs c H X F l. unfold psch. rewrite (ext_l2v _ _ X).
  destruct (nth_error (s_l2v s) l) as [v|]; [|reflexivity].
  destruct (assoc_nat pairs v) as [r|] eqn:E; [|reflexivity].
  rewrite (dfun_extends s s' r c H X); [reflexivity|]. apply (F v r). apply assoc_nat_In. exact E.
Qed.

Lemma psubst_extends : forall s s' pairs phi, WF s -> extends s s' -> pairs_ok s pairs -> cext phi ->
  forall c, bchoice c -> psubst s' pairs phi c = psubst s pairs phi c.
Proof.
  intros s s' pairs phi H X F Xp c Hc. unfold psubst.
  apply Xp; auto using psch_bchoice. apply psch_extends; assumption.
Qed.

Lemma psubst_ext : forall s pairs phi phi', (forall c, bchoice c -> phi c = phi' c) ->
  forall c, bchoice c -> psubst s pairs phi c = psubst s pairs phi' c.
Proof. intros s pairs phi phi' E c Hc. unfold psubst. apply E. apply psch_bchoice. exact Hc. Qed.

Lemma pairs_ok_extends : forall s s' pairs, extends s s' -> pairs_ok s pairs -> pairs_ok s' pairs.
Proof. intros s s' pairs X F v r Hin. apply (ext_ref_ok _ _ _ X). apply (F v r Hin). Qed.

(** the level-indexed vector built by [substitute_prepare] agrees with the object *)
Definition SvOK (s : snap) (sv : list ref) (pairs : list (nat * ref)) : Prop :=
  Forall (ref_ok s) sv /\ pairs_ok s pairs /\
  forall c, bchoice c -> ceq (sch s sv c) (psch s pairs c).

Lemma svok_extends : forall s s' sv pairs, WF s -> extends s s' -> SvOK s sv pairs -> SvOK s' sv pairs.
Proof.
  intros s s' sv pairs H X [F [P E]]. split; [|split].
  - eapply Forall_impl; [|exact F]. intros r. apply (ext_ref_ok _ _ _ X).
  - apply (pairs_ok_extends s s' pairs X P).
  - intros c Hc l. rewrite (sch_extends s s' sv c H X F l), (psch_extends s s' pairs c H X P l).
    apply E. exact Hc.
Qed.

(** ** Variable sets and literal cubes as the algorithms read them *)

(** the levels along the then-children *)
Inductive VChain (s : snap) : ref -> list nat -> Prop :=
| VC_T : forall t, VChain s (RT t) []
| VC_N : forall id nd t e L, find_node s id = Some nd -> nchildren nd = [t; e] ->
    VChain s (eref t) L -> VChain s (RN id) (nlevel nd :: L).

(** the literals of a cube: then-child inner or true = positive literal,
    then-child false = negative literal (continue with the else-child) *)
Inductive LChain (s : snap) : ref -> list (nat * bool) -> Prop :=
| LC_T : forall t, LChain s (RT t) []
| LC_pos : forall id nd t e M, find_node s id = Some nd -> nchildren nd = [t; e] ->
    (view s (eref t) = Some VI \/ view s (eref t) = Some (VT true)) ->
    LChain s (eref t) M -> LChain s (RN id) ((nlevel nd, true) :: M)
| LC_neg : forall id nd t e M, find_node s id = Some nd -> nchildren nd = [t; e] ->
    view s (eref t) = Some (VT false) ->
    LChain s (eref e) M -> LChain s (RN id) ((nlevel nd, false) :: M).

(** strictly increasing, all at least [K] *)
Fixpoint asc (K : nat) (L : list nat) : Prop :=
  match L with
  | [] => True
  | l :: r => K <= l /\ asc (S l) r
  end.

Lemma asc_mono : forall L K K', asc K L -> K' <= K -> asc K' L.
Proof. intros [|l r] K K' A Hle; [exact I|]. destruct A as [A1 A2]. split; [lia | exact A2]. Qed.

Lemma asc_ge : forall L K l, asc K L -> In l L -> K <= l.
Proof.
  induction L as [|m r IH]; intros K l A Hin; [destruct Hin|].
  destruct A as [A1 A2]. destruct Hin as [->|Hin]; [exact A1|].
  specialize (IH _ _ A2 Hin). lia.
Qed.

Lemma asc_notin : forall L K l, asc K L -> l < K -> ~ In l L.
Proof. intros L K l A Hl Hin. pose proof (asc_ge L K l A Hin). lia. Qed.

Lemma asc_nodup : forall L K, asc K L -> NoDup L.
Proof.
  induction L as [|m r IH]; intros K A; [constructor|]. destruct A as [A1 A2].
  constructor; [apply (asc_notin r (S m) m A2); lia | apply (IH _ A2)].
Qed.

Section Chains.
Variable s : snap.
Hypothesis B : BddOK s.

Lemma vchain_asc : forall r L, VChain s r L -> asc (rlevel s r) L.
Proof.
  intros r L V. induction V as [t|id nd t e L En Ech V IH]; [exact I|].
  rewrite (rlevel_node s id nd En). split; [lia|].
  assert (Ht : nth_error (nchildren nd) 0 = Some t) by (rewrite Ech; reflexivity).
  destruct (child_nth s (bo_wf s B) id nd 0 t En Ht) as [_ Hl]. apply (asc_mono _ _ _ IH). lia.
Qed.

Lemma vchain_fun : forall r L L', VChain s r L -> VChain s r L' -> L = L'.
Proof.
  intros r L L' V. revert L'. induction V as [t|id nd t e L En Ech V IH]; intros L' V'.
  - inversion V'. reflexivity.
  - inversion V' as [|id' nd' t' e' L2 En' Ech' V2]; subst.
    rewrite En in En'. inversion En'; subst nd'. rewrite Ech in Ech'. inversion Ech'; subst t' e'.
    f_equal. apply IH. exact V2.
Qed.

Lemma vchain_exists : forall n r, ref_ok s r -> nlevels s - rlevel s r < n -> exists L, VChain s r L.
Proof.
  induction n as [|n IH]; intros r Hok Hn; [lia|].
  destruct r as [t|id]; [exists []; constructor|].
  destruct Hok as [nd En]. destruct (bdd_children s id nd B En) as [t [e Ech]].
  assert (Ht : nth_error (nchildren nd) 0 = Some t) by (rewrite Ech; reflexivity).
  destruct (child_nth s (bo_wf s B) id nd 0 t En Ht) as [Ot Hl].
  rewrite (rlevel_node s id nd En) in Hn.
  pose proof (rlevel_le s (bo_wf s B) (eref t)).
  destruct (IH (eref t) Ot ltac:(lia)) as [L V]. exists (nlevel nd :: L). econstructor; eauto.
Qed.

Lemma vchain_total : forall r, ref_ok s r -> exists L, VChain s r L.
Proof. intros r Hok. apply (vchain_exists (S (nlevels s)) r Hok). lia. Qed.

Lemma vchain_lt : forall r L l, VChain s r L -> In l L -> l < nlevels s.
Proof.
  intros r L l V. induction V as [t|id nd t e L En Ech V IH]; intros Hin; [destruct Hin|].
  destruct Hin as [<-|Hin]; [apply (wf_level s (bo_wf s B) id nd En) | auto].
Qed.

Lemma lchain_asc : forall r M, LChain s r M -> asc (rlevel s r) (map fst M).
Proof.
  intros r M V.
  induction V as [t|id nd t e M En Ech Hv V IH|id nd t e M En Ech Hv V IH]; [exact I| |];
    rewrite (rlevel_node s id nd En); (split; [simpl; lia|]).
  - assert (Ht : nth_error (nchildren nd) 0 = Some t) by (rewrite Ech; reflexivity).
    destruct (child_nth s (bo_wf s B) id nd 0 t En Ht) as [_ Hl]. apply (asc_mono _ _ _ IH). simpl. lia.
  - assert (Ht : nth_error (nchildren nd) 1 = Some e) by (rewrite Ech; reflexivity).
    destruct (child_nth s (bo_wf s B) id nd 1 e En Ht) as [_ Hl]. apply (asc_mono _ _ _ IH). simpl. lia.
Qed.

Lemma lchain_exists : forall n r, ref_ok s r -> nlevels s - rlevel s r < n -> exists M, LChain s r M.
Proof.
  induction n as [|n IH]; intros r Hok Hn; [lia|].
  destruct r as [t|id]; [exists []; constructor|].
  destruct Hok as [nd En]. destruct (bdd_children s id nd B En) as [t [e Ech]].
  assert (Ht : nth_error (nchildren nd) 0 = Some t) by (rewrite Ech; reflexivity).
  assert (He : nth_error (nchildren nd) 1 = Some e) by (rewrite Ech; reflexivity).
  destruct (child_nth s (bo_wf s B) id nd 0 t En Ht) as [Ot Hlt].
  destruct (child_nth s (bo_wf s B) id nd 1 e En He) as [Oe Hle].
  rewrite (rlevel_node s id nd En) in Hn.
  pose proof (rlevel_le s (bo_wf s B) (eref t)). pose proof (rlevel_le s (bo_wf s B) (eref e)).
  destruct (view_total s (eref t) B Ot) as [[|[]] Vt].
  - destruct (IH (eref t) Ot ltac:(lia)) as [M V]. exists ((nlevel nd, true) :: M).
    eapply LC_pos; eauto.
  - destruct (IH (eref t) Ot ltac:(lia)) as [M V]. exists ((nlevel nd, true) :: M).
    eapply LC_pos; eauto.
  - destruct (IH (eref e) Oe ltac:(lia)) as [M V]. exists ((nlevel nd, false) :: M).
    eapply LC_neg; eauto.
Qed.

Lemma lchain_total : forall r, ref_ok s r -> exists M, LChain s r M.
Proof. intros r Hok. apply (lchain_exists (S (nlevels s)) r Hok). lia. Qed.

End Chains.

Lemma view_extends : forall s s' r, extends s s' -> view s' r = view s r.
Proof. intros s s' [t|id] X; simpl; [rewrite (ext_term_val _ _ t X)|]; reflexivity. Qed.

Lemma vchain_extends : forall s s' r L, extends s s' -> VChain s r L -> VChain s' r L.
Proof.
  intros s s' r L X V. induction V as [t|id nd t e L En Ech V IH]; [constructor|].
  econstructor; eauto. apply (ext_nodes _ _ X). exact En.
Qed.

Lemma lchain_extends : forall s s' r M, extends s s' -> LChain s r M -> LChain s' r M.
Proof.
  intros s s' r M X V.
  induction V as [t|id nd t e M En Ech Hv V IH|id nd t e M En Ech Hv V IH]; [constructor| |].
  - eapply LC_pos; eauto; [apply (ext_nodes _ _ X); exact En | rewrite (view_extends _ _ _ X); exact Hv].
  - eapply LC_neg; eauto; [apply (ext_nodes _ _ X); exact En | rewrite (view_extends _ _ _ X); exact Hv].
Qed.

(** a cube of positive literals read as a variable set *)
Lemma lchain_vchain : forall s r M, LChain s r M -> (forall p, In p M -> snd p = true) ->
  VChain s r (map fst M).
Proof.
  intros s r M V. induction V as [t|id nd t e M En Ech Hv V IH|id nd t e M En Ech Hv V IH]; intros Hp.
  - constructor.
  - simpl. econstructor; eauto. apply IH. intros p Hin. apply Hp. right. exact Hin.
  - specialize (Hp (nlevel nd, false) (or_introl eq_refl)). discriminate.
Qed.

(** ** [set_pop] *)

Lemma set_pop_S : forall n s set until,
  set_pop (S n) s set until =
  match set with
  | RT _ => Some set
  | RN id =>
    match find_node s id with
    | None => None
    | Some nd =>
      if Nat.leb until (nstored nd) then Some set
      else match nchildren nd with
           | [t; _] => set_pop n s (eref t) until
           | _ => None
           end
    end
  end.
Proof. intros n s [t|id] until; reflexivity. Qed.

(** [set_pop] returns the first reference of the chain at or below [until];
    the dropped levels are all above [until] *)
Lemma set_pop_ok : forall s, BddOK s -> forall fuel vars L until,
  ref_ok s vars -> VChain s vars L -> nlevels s - rlevel s vars < fuel -> until <= nlevels s ->
  exists vars' L', set_pop fuel s vars until = Some vars' /\ ref_ok s vars' /\
    VChain s vars' L' /\ until <= rlevel s vars' /\ rlevel s vars <= rlevel s vars' /\
    exists pre, L = pre ++ L' /\ forall l, In l pre -> l < until.
Proof.
  intros s B. pose proof (bo_wf s B) as H.
  induction fuel as [|n IH]; intros vars L until Hok V Hf Hu; [lia|].
  rewrite set_pop_S. destruct V as [t|id nd t e L En Ech V].
  - exists (RT t), []. split; [reflexivity|]. split; [exact Hok|]. split; [constructor|].
    simpl rlevel. split; [exact Hu|]. split; [lia|]. exists []. split; [reflexivity | intros l []].
  - rewrite En, (wf_stored s H id nd En). rewrite (rlevel_node s id nd En) in Hf.
    destruct (Nat.leb_spec until (nlevel nd)) as [Hle|Hgt].
    + exists (RN id), (nlevel nd :: L). split; [reflexivity|]. split; [exact Hok|].
      split; [econstructor; eauto|]. rewrite (rlevel_node s id nd En).
      split; [exact Hle|]. split; [lia|]. exists []. split; [reflexivity | intros l []].
    + rewrite Ech.
      assert (Ht : nth_error (nchildren nd) 0 = Some t) by (rewrite Ech; reflexivity).
      destruct (child_nth s H id nd 0 t En Ht) as [Ot Hl].
      pose proof (rlevel_le s H (eref t)).
      destruct (IH (eref t) L until Ot V ltac:(lia) Hu) as [vars' [L' [E [O' [V' [Hu' [Hr [pre [EL Hpre]]]]]]]]].
      exists vars', L'. split; [exact E|]. split; [exact O'|]. split; [exact V'|].
      split; [exact Hu'|]. rewrite (rlevel_node s id nd En). split; [lia|].
      exists (nlevel nd :: pre). split; [simpl; rewrite EL; reflexivity|].
      intros l [<-|Hin]; [exact Hgt | apply Hpre; exact Hin].
Qed.

(** ** Frame lemmas for the apply algorithms *)

Section Frame.
Variable gt : ref -> ref -> bool.
Variable C : Type.
Variable cget : C -> N -> list ref -> option ref.
Variable cadd : C -> N -> list ref -> ref -> C.
Hypothesis Hlossy : lossy cget cadd.

(** everything [c'] serves under an operator code above [Ite] was served by [c] *)
Definition serves_from (c c' : C) : Prop :=
  forall k a r, cget c' k a = Some r -> (k <= 9)%N \/ cget c k a = Some r.

Lemma sf_refl : forall c, serves_from c c.
Proof. intros c k a r E. right. exact E. Qed.

Lemma sf_trans : forall c1 c2 c3, serves_from c1 c2 -> serves_from c2 c3 -> serves_from c1 c3.
Proof.
  intros c1 c2 c3 A A' k a r E. destruct (A' k a r E) as [Hk|E2]; [left; exact Hk | apply (A k a r E2)].
Qed.

Lemma sf_add : forall c k a r, (k <= 9)%N -> serves_from c (cadd c k a r).
Proof.
  intros c k a r Hk k' a' r' E.
  destruct (Hlossy _ _ _ _ _ _ _ E) as [[-> _]|E']; [left; exact Hk | right; exact E'].
Qed.

Lemma op_code_le : forall o, (op_code o <= 9)%N.
Proof. intros []; simpl; lia. Qed.

Lemma apply_not_frame : forall fuel s c f s' c' r,
  apply_not C cget cadd fuel s c f = Some (s', c', r) -> serves_from c c'.
Proof.
  induction fuel as [|n IH]; intros s c f s' c' r E; [discriminate|].
  rewrite apply_not_S in E. destruct f as [t|id].
  - destruct (view s (RT t)) as [[|b]|]; try discriminate.
    destruct (term_of s (negb b)); inversion E; subst. apply sf_refl.
  - destruct (find_node s id) as [nd|]; [|discriminate].
    destruct (cget c code_not [RN id]) as [h|]; [inversion E; subst; apply sf_refl|].
    destruct (nchildren nd) as [|ft [|fe [|x rest]]]; try discriminate.
    destruct (apply_not C cget cadd n s c (eref ft)) as [[[s1 c1] t]|] eqn:E1; [|discriminate].
    destruct (apply_not C cget cadd n s1 c1 (eref fe)) as [[[s2 c2] e]|] eqn:E2; [|discriminate].
    destruct (mk_node s2 (nstored nd) [Build.E t; Build.E e]) as [s3 h]. inversion E; subst.
    eapply sf_trans; [apply (IH _ _ _ _ _ _ E1)|]. eapply sf_trans; [apply (IH _ _ _ _ _ _ E2)|].
    apply sf_add. unfold code_not. lia.
Qed.

Lemma apply_bin_frame : forall fuel s c op f g s' c' r,
  apply_bin gt C cget cadd fuel s c op f g = Some (s', c', r) -> serves_from c c'.
Proof.
  induction fuel as [|n IH]; intros s c op f g s' c' r E; [discriminate|].
  rewrite apply_bin_S in E. destruct (terminal_bin gt s op f g) as [h|h|o a b|]; [| | |discriminate].
  - inversion E; subst. apply sf_refl.
  - apply (apply_not_frame _ _ _ _ _ _ _ E).
  - destruct (cget c (op_code o) [a; b]) as [h|]; [inversion E; subst; apply sf_refl|].
    destruct (inner s f) as [fnode|]; [|discriminate]. destruct (inner s g) as [gnode|]; [|discriminate].
    cbv zeta in E.
    destruct (cof2 f fnode _) as [[ft fe]|]; [|discriminate].
    destruct (cof2 g gnode _) as [[gt' ge]|]; [|discriminate].
    destruct (apply_bin gt C cget cadd n s c op ft gt') as [[[s1 c1] t]|] eqn:E1; [|discriminate].
    destruct (apply_bin gt C cget cadd n s1 c1 op fe ge) as [[[s2 c2] e]|] eqn:E2; [|discriminate].
    destruct (mk_node s2 _ [Build.E t; Build.E e]) as [s3 h]. inversion E; subst.
    eapply sf_trans; [apply (IH _ _ _ _ _ _ _ _ E1)|]. eapply sf_trans; [apply (IH _ _ _ _ _ _ _ _ E2)|].
    apply sf_add. apply op_code_le.
Qed.

Lemma apply_ite_frame : forall fuel s c f g h s' c' r,
  apply_ite gt C cget cadd fuel s c f g h = Some (s', c', r) -> serves_from c c'.
Proof.
  induction fuel as [|n IH]; intros s c f g h s' c' r E; [discriminate|].
  rewrite apply_ite_S in E.
  destruct (ref_eqb g h); [inversion E; subst; apply sf_refl|].
  destruct (ref_eqb f g); [apply (apply_bin_frame _ _ _ _ _ _ _ _ _ E)|].
  destruct (ref_eqb f h); [apply (apply_bin_frame _ _ _ _ _ _ _ _ _ E)|].
  destruct (view s f) as [[|bf]|]; [| |discriminate].
  2:{ inversion E; subst. apply sf_refl. }
  destruct (view s g) as [[|[]]|]; destruct (view s h) as [[|[]]|]; try discriminate;
    try (apply (apply_bin_frame _ _ _ _ _ _ _ _ _ E));
    try (apply (apply_not_frame _ _ _ _ _ _ _ E));
    try (inversion E; subst; apply sf_refl).
  destruct (cget c code_ite [f; g; h]) as [r0|]; [inversion E; subst; apply sf_refl|].
  destruct (inner s f) as [fnode|]; [|discriminate]. destruct (inner s g) as [gnode|]; [|discriminate].
  destruct (inner s h) as [hnode|]; [|discriminate]. cbv zeta in E.
  destruct (cof2 f fnode _) as [[ft fe]|]; [|discriminate].
  destruct (cof2 g gnode _) as [[gt' ge]|]; [|discriminate].
  destruct (cof2 h hnode _) as [[ht he]|]; [|discriminate].
  destruct (apply_ite gt C cget cadd n s c ft gt' ht) as [[[s1 c1] t]|] eqn:E1; [|discriminate].
  destruct (apply_ite gt C cget cadd n s1 c1 fe ge he) as [[[s2 c2] e]|] eqn:E2; [|discriminate].
  destruct (mk_node s2 _ [Build.E t; Build.E e]) as [s3 r1]. inversion E; subst.
  eapply sf_trans; [apply (IH _ _ _ _ _ _ _ _ E1)|]. eapply sf_trans; [apply (IH _ _ _ _ _ _ _ _ E2)|].
  apply sf_add. unfold code_ite. lia.
Qed.

(** ** The cache invariant for all operators of the BDD kind *)

(** registry of substitution objects: id |-> the pairs (variable, replacement) *)
Variable Sg : N -> option (list (nat * ref)).

Definition qf (q : quantifier) : bool -> bool -> bool := eval_bop (qop q).

Definition qentry_ok (s : snap) (code : N) (args : list ref) (r : ref) : Prop :=
  (forall q f vars, code = qcode q -> args = [f; vars] ->
     exists phi L, Den s f phi /\ VChain s vars L /\ Den s r (qlevs (qf q) L phi)) /\
  (forall f vars, code = code_restrict -> args = [f; vars] ->
     exists phi M, Den s f phi /\ LChain s vars M /\ Den s r (restr M phi)) /\
  (forall q o f g vars, code = aqcode q o -> args = [f; g; vars] ->
     exists phi psi L, Den s f phi /\ Den s g psi /\ VChain s vars L /\
       Den s r (qlevs (qf q) L (fun c => eval_bop o (phi c) (psi c)))) /\
  (forall id f, code = code_subst id -> args = [f] ->
     exists pairs phi, Sg id = Some pairs /\ pairs_ok s pairs /\ Den s f phi /\
       Den s r (psubst s pairs phi)).

Definition QCacheOK (s : snap) (c : C) : Prop :=
  CacheOK cget s c /\ forall code args r, cget c code args = Some r -> qentry_ok s code args r.

Lemma forall_ref_ok_extends : forall s s' sv, extends s s' -> Forall (ref_ok s) sv -> Forall (ref_ok s') sv.
Proof. intros s s' sv X F. eapply Forall_impl; [|exact F]. intros r. apply (ext_ref_ok _ _ _ X). Qed.

Lemma qentry_ok_extends : forall s s' code args r, BddOK s -> extends s s' ->
  qentry_ok s code args r -> qentry_ok s' code args r.
Proof.
  intros s s' code args r B X [Q1 [Q2 [Q3 Q4]]]. split; [|split; [|split]].
  - intros q f vars Hc Ha. destruct (Q1 q f vars Hc Ha) as [phi [L [D [V Dr]]]].
    exists phi, L. split; [eapply den_extends; eauto|]. split; [eapply vchain_extends; eauto|].
    eapply den_extends; eauto.
  - intros f vars Hc Ha. destruct (Q2 f vars Hc Ha) as [phi [M [D [V Dr]]]].
    exists phi, M. split; [eapply den_extends; eauto|]. split; [eapply lchain_extends; eauto|].
    eapply den_extends; eauto.
  - intros q o f g vars Hc Ha. destruct (Q3 q o f g vars Hc Ha) as [phi [psi [L [D [D' [V Dr]]]]]].
    exists phi, psi, L. split; [eapply den_extends; eauto|]. split; [eapply den_extends; eauto|].
    split; [eapply vchain_extends; eauto|]. eapply den_extends; eauto.
  - intros id f Hc Ha. destruct (Q4 id f Hc Ha) as [pairs [phi [Es [F [D Dr]]]]].
    exists pairs, phi. split; [exact Es|]. split; [eapply pairs_ok_extends; eauto|].
    split; [eapply den_extends; eauto|].
    apply (den_ext s' r (psubst s pairs phi)); [eapply den_extends; eauto|].
    intros c0 Hc0. symmetry.
    apply (psubst_extends s s' pairs phi (bo_wf s B) X F (den_cext s f phi (bo_wf s B) D) c0 Hc0).
Qed.

(** codes of the apply algorithms carry no obligation here *)
Lemma qentry_ok_low : forall s code args r, (code <= 9)%N -> qentry_ok s code args r.
Proof.
  intros s code args r Hk. split; [|split; [|split]].
  - intros q f vars Hc. exfalso. destruct q; simpl in Hc; lia.
  - intros f vars Hc. exfalso. unfold code_restrict in Hc. lia.
  - intros q o f g vars Hc. exfalso. unfold aqcode in Hc. destruct q; lia.
  - intros id f Hc. exfalso. unfold code_subst in Hc. lia.
Qed.

Lemma qcacheok_frame : forall s s' c c', BddOK s -> extends s s' -> QCacheOK s c ->
  CacheOK cget s' c' -> serves_from c c' -> QCacheOK s' c'.
Proof.
  intros s s' c c' B X [_ Q] O' Sf. split; [exact O'|].
  intros code args r E. destruct (Sf code args r E) as [Hk|E0].
  - apply qentry_ok_low. exact Hk.
  - apply (qentry_ok_extends s s' code args r B X). apply (Q _ _ _ E0).
Qed.

Lemma qcacheok_extends : forall s s' c, BddOK s -> extends s s' -> QCacheOK s c -> QCacheOK s' c.
Proof.
  intros s s' c B X Q. apply (qcacheok_frame s s' c c B X Q); [|apply sf_refl].
  apply (cacheok_extends C cget s s' c B X (proj1 Q)).
Qed.

(** the codes used here are not codes of the apply algorithms *)
Lemma qcode_gt : forall q, (9 < qcode q)%N.
Proof. intros []; simpl; lia. Qed.
Lemma aqcode_gt : forall q o, (9 < aqcode q o)%N.
Proof. intros q o. unfold aqcode. destruct q; lia. Qed.
Lemma code_subst_gt : forall id, (9 < code_subst id)%N.
Proof. intros id. unfold code_subst. lia. Qed.

Lemma entry_ok_high : forall s code args r, (9 < code)%N -> entry_ok s code args r.
Proof.
  intros s code args r Hk. unfold entry_ok.
  destruct args as [|f [|g [|h [|x rest]]]]; auto.
  - intros Hc. unfold code_not in Hc. lia.
  - intros o Hc. pose proof (op_code_le o). lia.
  - intros Hc. unfold code_ite in Hc. lia.
Qed.

Lemma qcacheok_add : forall s c code args r, QCacheOK s c -> (9 < code)%N ->
  qentry_ok s code args r -> QCacheOK s (cadd c code args r).
Proof.
  intros s c code args r [O Q] Hk Hn. split.
  - apply (cacheok_add C cget cadd Hlossy); [exact O | apply entry_ok_high; exact Hk].
  - intros code' args' r' E.
    destruct (Hlossy _ _ _ _ _ _ _ E) as [[-> [-> ->]]|E']; [exact Hn | apply (Q _ _ _ E')].
Qed.

(** the codes are pairwise distinct *)
Lemma qcode_inj : forall q q', qcode q = qcode q' -> q = q'.
Proof. intros [] [] E; simpl in E; try lia; reflexivity. Qed.

Lemma aqcode_inj : forall q o q' o', aqcode q o = aqcode q' o' -> q = q' /\ o = o'.
Proof.
  intros q o q' o' E. unfold aqcode in E.
  assert (Ho : forall x, (1 <= op_code x <= 8)%N) by (intros []; simpl; lia).
  pose proof (Ho o). pose proof (Ho o').
  destruct q, q'; try lia; (split; [reflexivity | apply op_code_inj; lia]).
Qed.

Lemma code_subst_inj : forall i j, code_subst i = code_subst j -> i = j.
Proof. intros i j E. unfold code_subst in E. lia. Qed.

Lemma qcode_not_restrict : forall q, qcode q <> code_restrict.
Proof. intros []; unfold code_restrict; simpl; lia. Qed.
Lemma qcode_not_aq : forall q q' o, qcode q <> aqcode q' o.
Proof.
  intros q q' o. unfold aqcode. assert (1 <= op_code o)%N by (destruct o; simpl; lia).
  destruct q, q'; simpl; lia.
Qed.
Lemma qcode_not_subst : forall q id, qcode q <> code_subst id.
Proof. intros [] id; unfold code_subst; simpl; lia. Qed.
Lemma restrict_not_aq : forall q o, code_restrict <> aqcode q o.
Proof. intros q o. unfold aqcode, code_restrict. destruct q; lia. Qed.
Lemma restrict_not_subst : forall id, code_restrict <> code_subst id.
Proof. intros id. unfold code_restrict, code_subst. lia. Qed.
Lemma aq_not_subst : forall q o id, aqcode q o <> code_subst id.
Proof.
  intros q o id. unfold aqcode, code_subst. assert (op_code o <= 8)%N by (destruct o; simpl; lia).
  destruct q; lia.
Qed.

(** building the entry obligations *)
Lemma qentry_quant : forall s q f vars r phi L,
  Den s f phi -> VChain s vars L -> Den s r (qlevs (qf q) L phi) ->
  qentry_ok s (qcode q) [f; vars] r.
Proof.
  intros s q f vars r phi L D V Dr. split; [|split; [|split]].
  - intros q' f' vars' Hc Ha. apply qcode_inj in Hc. subst q'. inversion Ha; subst. eauto.
  - intros f' vars' Hc. exfalso. apply (qcode_not_restrict q Hc).
  - intros q' o f' g' vars' Hc. exfalso. apply (qcode_not_aq q q' o Hc).
  - intros id f' Hc. exfalso. apply (qcode_not_subst q id Hc).
Qed.

Lemma qentry_restrict : forall s f vars r phi M,
  Den s f phi -> LChain s vars M -> Den s r (restr M phi) ->
  qentry_ok s code_restrict [f; vars] r.
Proof.
  intros s f vars r phi M D V Dr. split; [|split; [|split]].
  - intros q f' vars' Hc. exfalso. apply (qcode_not_restrict q). auto.
  - intros f' vars' _ Ha. inversion Ha; subst. eauto.
  - intros q' o f' g' vars' Hc. exfalso. apply (restrict_not_aq q' o Hc).
  - intros id f' Hc. exfalso. apply (restrict_not_subst id Hc).
Qed.

Lemma qentry_aq : forall s q o f g vars r phi psi L,
  Den s f phi -> Den s g psi -> VChain s vars L ->
  Den s r (qlevs (qf q) L (fun c => eval_bop o (phi c) (psi c))) ->
  qentry_ok s (aqcode q o) [f; g; vars] r.
Proof.
  intros s q o f g vars r phi psi L D D' V Dr. split; [|split; [|split]].
  - intros q' f' vars' Hc. exfalso. apply (qcode_not_aq q' q o). auto.
  - intros f' vars' Hc. exfalso. apply (restrict_not_aq q o). auto.
  - intros q' o' f' g' vars' Hc Ha. apply aqcode_inj in Hc. destruct Hc as [<- <-].
    inversion Ha; subst. exists phi, psi, L. auto.
  - intros id f' Hc. exfalso. apply (aq_not_subst q o id Hc).
Qed.

Lemma qentry_subst : forall s id f r pairs phi,
  Sg id = Some pairs -> pairs_ok s pairs -> Den s f phi -> Den s r (psubst s pairs phi) ->
  qentry_ok s (code_subst id) [f] r.
Proof.
  intros s id f r pairs phi Es F D Dr. split; [|split; [|split]].
  - intros q' f' vars' Hc. exfalso. apply (qcode_not_subst q' id). auto.
  - intros f' vars' Hc. exfalso. apply (restrict_not_subst id). auto.
  - intros q' o' f' g' vars' Hc. exfalso. apply (aq_not_subst q' o' id). auto.
  - intros id' f' Hc Ha. apply code_subst_inj in Hc. subst id'. inversion Ha; subst.
    exists pairs, phi. auto.
Qed.

(** ** Results *)

Definition qresult_ok (s : snap) (res : option (snap * C * ref)) (Phi : cfun) : Prop :=
  exists s' c' r, res = Some (s', c', r) /\
    BddOK s' /\ extends s s' /\ QCacheOK s' c' /\ Den s' r Phi.

Lemma qresult_ok_ext : forall s res Phi Phi', qresult_ok s res Phi ->
  (forall c0, bchoice c0 -> Phi c0 = Phi' c0) -> qresult_ok s res Phi'.
Proof.
  intros s res Phi Phi' [s' [c' [r [E [B [X [Q D]]]]]]] Hp.
  exists s', c', r. repeat (split; [assumption|]). apply (den_ext s' r Phi Phi' D Hp).
Qed.

Lemma qresult_ok_here : forall s c r Phi, BddOK s -> QCacheOK s c -> Den s r Phi ->
  qresult_ok s (Some (s, c, r)) Phi.
Proof.
  intros s c r Phi B Q D. exists s, c, r. split; [reflexivity|]. split; [exact B|].
  split; [apply extends_refl|]. split; [exact Q | exact D].
Qed.

(** lifting the theorems of DD/ApplyProofs.v to the larger invariant *)
Lemma qresult_of_result : forall s c res Phi, BddOK s -> QCacheOK s c ->
  result_ok C cget s c res Phi ->
  (forall s' c' r, res = Some (s', c', r) -> serves_from c c') ->
  qresult_ok s res Phi.
Proof.
  intros s c res Phi B Q [s' [c' [r [E [B' [X [O' [D _]]]]]]]] Sf.
  exists s', c', r. split; [exact E|]. split; [exact B'|]. split; [exact X|].
  split; [|exact D]. apply (qcacheok_frame s s' c c' B X Q O' (Sf _ _ _ E)).
Qed.

Lemma q_apply_not : forall s c f phi, BddOK s -> QCacheOK s c -> Den s f phi ->
  qresult_ok s (apply_not C cget cadd (S (nlevels s)) s c f) (fun c0 => negb (phi c0)).
Proof.
  intros s c f phi B Q D. apply (qresult_of_result s c _ _ B Q).
  - apply (apply_not_ok C cget cadd Hlossy _ s c f phi B (proj1 Q) D).
    pose proof (rlevel_le s (bo_wf s B) f). lia.
  - intros s' c' r E. apply (apply_not_frame _ _ _ _ _ _ _ E).
Qed.

Lemma q_apply_bin : forall op s c f g phi psi, BddOK s -> QCacheOK s c -> Den s f phi -> Den s g psi ->
  qresult_ok s (apply_bin gt C cget cadd (S (nlevels s)) s c op f g)
             (fun c0 => eval_bop op (phi c0) (psi c0)).
Proof.
  intros op s c f g phi psi B Q Df Dg. apply (qresult_of_result s c _ _ B Q).
  - apply (apply_bin_ok gt C cget cadd Hlossy op _ s c f g phi psi B (proj1 Q) Df Dg). lia.
  - intros s' c' r E. apply (apply_bin_frame _ _ _ _ _ _ _ _ _ E).
Qed.

Lemma q_apply_ite : forall s c f g h phi psi theta, BddOK s -> QCacheOK s c ->
  Den s f phi -> Den s g psi -> Den s h theta ->
  qresult_ok s (apply_ite gt C cget cadd (S (nlevels s)) s c f g h)
             (fun c0 => if phi c0 then psi c0 else theta c0).
Proof.
  intros s c f g h phi psi theta B Q Df Dg Dh. apply (qresult_of_result s c _ _ B Q).
  - apply (apply_ite_ok gt C cget cadd Hlossy _ s c f g h phi psi theta B (proj1 Q) Df Dg Dh). lia.
  - intros s' c' r E. apply (apply_ite_frame _ _ _ _ _ _ _ _ _ E).
Qed.

End Frame.

Arguments QCacheOK {C}.
Arguments qresult_ok {C}.
Arguments serves_from {C}.
