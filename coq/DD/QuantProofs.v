(** * Soundness of [quant_rec] (exists / forall / unique) of DD/Quant.v

    [quant_rec_ok]: for every BddOK table, every cache satisfying [QCacheOK]
    (of any [lossy] implementation), every operand [f] and every reference
    [vars] (read as a variable set along its then-children, [VChain]), with
    fuel above the height of [f], the algorithm returns (never [None]) a
    well-formed extension of the table, a correct cache, and a reference
    denoting the iterated and / or / xor combination of the cofactors of [f]
    over the levels of [vars] ([qlevs]).  The bridge to [Sem.exists_s] etc.
    over variables is in DD/QuantTopProofs.v. *)

From Coq Require Import List NArith PArith Bool Arith Lia FMapPositive.
From OxiVerif Require Import DD.Table DD.TableProofs DD.Canon DD.Sem DD.Build DD.BuildProofs
  DD.Apply DD.ApplyProofs DD.Quant DD.QuantLemmas.
Import ListNotations.

Lemma qlevs_app : forall q A B phi, qlevs q (A ++ B) phi = qlevs q A (qlevs q B phi).
Proof. intros q A B phi. induction A as [|l r IH]; [reflexivity|]. simpl. rewrite IH. reflexivity. Qed.

(** the function of a terminal depends on no level *)
Lemma den_term_nodep : forall s t phi l, Den s (RT t) phi -> nodep phi l.
Proof.
  intros s t phi l [_ D] c i Hc Hi. apply b2c_inj.
  pose proof (D c Hc) as A. pose proof (D (cupd c l i) (bchoice_upd c l i Hc Hi)) as A'.
  rewrite semk_T in A, A'. congruence.
Qed.

Lemma qf_idem : forall q, is_unique q = false -> forall x, qf q x x = x.
Proof. intros [] Hq []; try discriminate; reflexivity. Qed.

Lemma vchain_T_inv : forall s t L, VChain s (RT t) L -> L = [].
Proof. intros s t L V. inversion V. reflexivity. Qed.

Lemma vchain_N_inv : forall s id nd L, VChain s (RN id) L -> find_node s id = Some nd ->
  exists t e L', nchildren nd = [t; e] /\ L = nlevel nd :: L' /\ VChain s (eref t) L'.
Proof.
  intros s id nd L V En. inversion V as [|id' nd' t e L' En' Ech V']; subst.
  rewrite En in En'. inversion En'; subst nd'. exists t, e, L'. auto.
Qed.

Section Q.
Variable gt : ref -> ref -> bool.
Variable C : Type.
Variable cget : C -> N -> list ref -> option ref.
Variable cadd : C -> N -> list ref -> ref -> C.
Hypothesis Hlossy : lossy cget cadd.
Variable Sg : N -> option (list (nat * ref)).

Notation QOK := (QCacheOK cget Sg).
Notation qres := (qresult_ok cget Sg).

Lemma quant_rec_S : forall n s c q f vars,
  quant_rec gt C cget cadd (S n) s c q f vars =
    match f with
    | RT _ =>
      if negb (is_unique q) || (match vars with RT _ => true | RN _ => false end)
      then Some (s, c, f)
      else match term_of s false with Some t => Some (s, c, RT t) | None => None end
    | RN fid =>
      match find_node s fid with
      | None => None
      | Some fnode =>
        let flevel := nstored fnode in
        match (if is_unique q then Some vars else set_pop (S (nlevels s)) s vars flevel) with
        | None => None
        | Some (RT _) => Some (s, c, f)
        | Some (RN vid as vars') =>
          match find_node s vid with
          | None => None
          | Some vnode =>
            let vlevel := nstored vnode in
            if is_unique q && Nat.ltb vlevel flevel then
              match term_of s false with Some t => Some (s, c, RT t) | None => None end
            else
              match cget c (qcode q) [f; vars'] with
              | Some h => Some (s, c, h)
              | None =>
                match nchildren fnode,
                      (if Nat.eqb vlevel flevel
                       then match nchildren vnode with [vt; _] => Some (eref vt) | _ => None end
                       else Some vars') with
                | [ft; fe], Some vt =>
                  match quant_rec gt C cget cadd n s c q (eref ft) vt with
                  | None => None
                  | Some (s1, c1, t) =>
                    match quant_rec gt C cget cadd n s1 c1 q (eref fe) vt with
                    | None => None
                    | Some (s2, c2, e) =>
                      if Nat.eqb flevel vlevel then
                        match apply_bin gt C cget cadd (S (nlevels s2)) s2 c2 (qop q) t e with
                        | None => None
                        | Some (s3, c3, res) =>
                          Some (s3, cadd c3 (qcode q) [f; vars'] res, res)
                        end
                      else
                        let '(s3, h) := mk_node s2 flevel [E t; E e] in
                        Some (s3, cadd c2 (qcode q) [f; vars'] (eref h), eref h)
                    end
                  end
                | _, _ => None
                end
              end
          end
        end
      end
    end.
Proof. reflexivity. Qed.

(** the false terminal as a result *)
Lemma q_false : forall s c Phi, BddOK s -> QOK s c -> (forall c0, bchoice c0 -> Phi c0 = false) ->
  qres s (match term_of s false with Some t => Some (s, c, RT t) | None => None end) Phi.
Proof.
  intros s c Phi B Q Hp. destruct (term_of_total s false B) as [t Et]. rewrite Et.
  apply (qresult_ok_here C cget Sg s c (RT t) Phi B Q).
  apply (den_ext s (RT t) (fun _ => false)); [apply den_const; assumption|].
  intros c0 Hc. symmetry. apply Hp. exact Hc.
Qed.

Theorem quant_rec_ok : forall q fuel s c f vars phi L,
  BddOK s -> QOK s c -> Den s f phi -> ref_ok s vars -> VChain s vars L ->
  nlevels s - rlevel s f < fuel ->
  qres s (quant_rec gt C cget cadd fuel s c q f vars) (qlevs (qf q) L phi).
Proof.
  intros q. induction fuel as [|n IH]; intros s c f vars phi L B Q D Ov V Hfuel; [lia|].
  pose proof (bo_wf s B) as H. pose proof (den_cext s f phi H D) as Xp.
  rewrite quant_rec_S. destruct f as [t|fid].
  - (* terminal *)
    assert (Hnd : forall l, nodep phi l) by (intros l; apply (den_term_nodep s t phi l D)).
    destruct (negb (is_unique q) || match vars with RT _ => true | RN _ => false end) eqn:Ec.
    + apply (qresult_ok_here C cget Sg s c _ _ B Q). apply (den_ext s (RT t) phi _ D).
      intros c0 Hc. apply orb_true_iff in Ec. destruct Ec as [Eq|Ev].
      * symmetry. apply qlevs_nodep_idem; auto. apply qf_idem. destruct (is_unique q); [discriminate | reflexivity].
      * destruct vars as [tv|vid]; [|discriminate]. rewrite (vchain_T_inv s tv L V). reflexivity.
    + apply orb_false_iff in Ec. destruct Ec as [Eq Ev].
      destruct vars as [tv|vid]; [discriminate|].
      destruct Ov as [vnd Evn]. destruct (vchain_N_inv s vid vnd L V Evn) as [vt [ve [L' [_ [-> _]]]]].
      assert (Hq : q = QUnique) by (destruct q; simpl in Eq; try discriminate; reflexivity). subst q.
      apply (q_false s c _ B Q). intros c0 Hc. simpl qlevs.
      apply (qlev_xor_nodep (nlevel vnd) (qlevs (qf QUnique) L' phi)); [|exact Hc].
      apply nodep_qlevs; auto.
  - (* inner node *)
    destruct (proj1 D) as [fnd Ef]. rewrite Ef. cbv zeta. rewrite (wf_stored s H fid fnd Ef).
    rewrite (rlevel_node s fid fnd Ef) in Hfuel. pose proof (wf_level s H fid fnd Ef) as Hlv.
    set (lvl := nlevel fnd) in *.
    assert (Ip : indep phi lvl)
      by (unfold lvl; rewrite <- (rlevel_node s fid fnd Ef); apply (den_indep s _ phi H D)).
    (* the (popped) variable set *)
    assert (Hpop : exists vars' L',
               (if is_unique q then Some vars else set_pop (S (nlevels s)) s vars lvl) = Some vars' /\
               ref_ok s vars' /\ VChain s vars' L' /\
               (is_unique q = false -> lvl <= rlevel s vars') /\
               forall c0, bchoice c0 -> qlevs (qf q) L phi c0 = qlevs (qf q) L' phi c0).
    { destruct (is_unique q) eqn:Eq.
      - exists vars, L. split; [reflexivity|]. split; [exact Ov|]. split; [exact V|].
        split; [discriminate | reflexivity].
      - pose proof (rlevel_le s H vars).
        destruct (set_pop_ok s B (S (nlevels s)) vars L lvl Ov V ltac:(lia) ltac:(lia))
          as [vars' [L' [E [O' [V' [Hu [_ [pre [EL Hpre]]]]]]]]].
        exists vars', L'. split; [exact E|]. split; [exact O'|]. split; [exact V'|].
        split; [intros _; exact Hu|]. intros c0 Hc. rewrite EL, qlevs_app.
        apply qlevs_nodep_idem; [apply qf_idem; exact Eq | apply cext_qlevs; exact Xp | | exact Hc].
        intros l Hl. apply nodep_qlevs; [exact Xp|]. apply (indep_nodep phi lvl l Ip). apply Hpre. exact Hl. }
    destruct Hpop as [vars' [L' [Epop [Ov' [V' [Hge HL]]]]]]. rewrite Epop.
    apply (qresult_ok_ext C cget Sg s _ (qlevs (qf q) L' phi));
      [|intros c0 Hc; symmetry; apply HL; exact Hc].
    clear HL V Ov L vars Epop.
    destruct vars' as [tv|vid].
    { rewrite (vchain_T_inv s tv L' V'). apply (qresult_ok_here C cget Sg s c _ _ B Q). exact D. }
    destruct Ov' as [vnd Evn]. rewrite Evn. rewrite (wf_stored s H vid vnd Evn).
    destruct (vchain_N_inv s vid vnd L' V' Evn) as [vt [ve [L'' [Evch [EL' Vt]]]]].
    pose proof (vchain_asc s B _ _ V') as Asc. rewrite (rlevel_node s vid vnd Evn), EL' in Asc.
    destruct Asc as [_ Asc]. set (vlvl := nlevel vnd) in *.
    destruct (is_unique q && Nat.ltb vlvl lvl) eqn:Eu.
    { apply andb_true_iff in Eu. destruct Eu as [Eq Hlt]. apply Nat.ltb_lt in Hlt.
      assert (Hq : q = QUnique) by (destruct q; simpl in Eq; try discriminate; reflexivity). subst q.
      apply (q_false s c _ B Q). intros c0 Hc. rewrite EL'. simpl qlevs.
      apply (qlev_xor_nodep vlvl (qlevs (qf QUnique) L'' phi)); [|exact Hc].
      apply nodep_qlevs; [exact Xp|]. apply (indep_nodep phi lvl vlvl Ip Hlt). }
    assert (Hvl : lvl <= vlvl).
    { destruct (is_unique q) eqn:Eq.
      - simpl in Eu. apply Nat.ltb_ge in Eu. exact Eu.
      - specialize (Hge eq_refl). rewrite (rlevel_node s vid vnd Evn) in Hge. exact Hge. }
    clear Eu Hge.
    destruct (cget c (qcode q) [RN fid; RN vid]) as [h|] eqn:Ecache.
    { (* cache hit *)
      destruct (proj1 (proj2 Q _ _ _ Ecache) q (RN fid) (RN vid) eq_refl eq_refl) as [phi0 [L0 [D0 [V0 Dh]]]].
      apply (qresult_ok_here C cget Sg s c _ _ B Q).
      rewrite (vchain_fun s _ _ _ V0 V') in Dh.
      apply (den_ext s h _ _ Dh). apply qlevs_ext. apply (den_unique s _ phi0 phi D0 D). }
    destruct (bdd_children s fid fnd B Ef) as [ft [fe Ech]]. rewrite Ech.
    assert (Hft : nth_error (nchildren fnd) 0 = Some ft) by (rewrite Ech; reflexivity).
    assert (Hfe : nth_error (nchildren fnd) 1 = Some fe) by (rewrite Ech; reflexivity).
    pose proof (den_child s fid fnd 0 ft phi B D Ef Hft) as Dft.
    pose proof (den_child s fid fnd 1 fe phi B D Ef Hfe) as Dfe.
    destruct (child_nth s H fid fnd 0 ft Ef Hft) as [Oft Lft].
    destruct (child_nth s H fid fnd 1 fe Ef Hfe) as [Ofe Lfe].
    fold lvl in Dft, Dfe, Lft, Lfe.
    (* the variable set for the recursive calls *)
    assert (Hvt : exists vt' Lr,
               (if Nat.eqb vlvl lvl
                then match nchildren vnd with [vt0; _] => Some (eref vt0) | _ => None end
                else Some (RN vid)) = Some vt' /\ ref_ok s vt' /\ VChain s vt' Lr /\
               ~ In lvl Lr /\
               (if Nat.eqb lvl vlvl then L' = lvl :: Lr else L' = Lr)).
    { rewrite (Nat.eqb_sym lvl vlvl). destruct (Nat.eqb_spec vlvl lvl) as [Eq|Hne].
      - rewrite Evch. exists (eref vt), L''. split; [reflexivity|].
        assert (Hvt0 : nth_error (nchildren vnd) 0 = Some vt) by (rewrite Evch; reflexivity).
        split; [apply (child_nth s H vid vnd 0 vt Evn Hvt0)|]. split; [exact Vt|].
        split; [apply (asc_notin L'' (S vlvl) lvl Asc); lia | rewrite <- Eq; exact EL'].
      - exists (RN vid), L'. split; [reflexivity|]. split; [exists vnd; exact Evn|]. split; [exact V'|].
        split; [|reflexivity]. rewrite EL'. intros [E|Hin]; [lia|].
        pose proof (asc_ge L'' (S vlvl) lvl Asc Hin). lia. }
    destruct Hvt as [vt' [Lr [Evt [Ovt [Vr [Hnin HLr]]]]]]. rewrite Evt.
    pose proof (rlevel_le s H (eref ft)) as Hle1. pose proof (rlevel_le s H (eref fe)) as Hle2.
    destruct (IH s c (eref ft) vt' _ Lr B Q Dft Ovt Vr ltac:(lia))
      as [s1 [c1 [t [E1 [B1 [X1 [Q1 D1]]]]]]].
    rewrite E1.
    assert (Dfe1 : Den s1 (eref fe) (cofn phi lvl 1)) by (apply (den_extends s s1 _ _ B X1 Dfe)).
    assert (Hf1 : nlevels s1 - rlevel s1 (eref fe) < n)
      by (rewrite (ext_nlevels _ _ X1), (ext_rlevel _ _ _ X1 Ofe); lia).
    destruct (IH s1 c1 (eref fe) vt' _ Lr B1 Q1 Dfe1 (ext_ref_ok _ _ _ X1 Ovt)
                 (vchain_extends _ _ _ _ X1 Vr) Hf1)
      as [s2 [c2 [e [E2 [B2 [X2 [Q2 D2]]]]]]].
    rewrite E2.
    assert (D1' : Den s2 t (qlevs (qf q) Lr (cofn phi lvl 0))) by (apply (den_extends s1 s2 _ _ B1 X2 D1)).
    assert (X02 : extends s s2) by (eapply extends_trans; eauto).
    assert (Xc0 : cext (cofn phi lvl 0)) by (apply cext_cofn; [exact Xp | lia]).
    assert (Xc1 : cext (cofn phi lvl 1)) by (apply cext_cofn; [exact Xp | lia]).
    destruct (Nat.eqb_spec lvl vlvl) as [Eqv|Hnev].
    + (* the level is quantified: combine the two results with the quantifier's operator *)
      destruct (q_apply_bin gt C cget cadd Hlossy Sg (qop q) s2 c2 t e _ _ B2 Q2 D1' D2)
        as [s3 [c3 [res [E3 [B3 [X3 [Q3 D3]]]]]]].
      rewrite E3.
      assert (X03 : extends s s3) by (eapply extends_trans; eauto).
      assert (Dres : Den s3 res (qlevs (qf q) L' phi)).
      { apply (den_ext s3 res _ _ D3). intros c0 Hc. rewrite HLr. simpl qlevs. unfold qlev.
        rewrite !cofn_qlevs by (auto; lia). reflexivity. }
      exists s3, (cadd c3 (qcode q) [RN fid; RN vid] res), res.
      split; [reflexivity|]. split; [exact B3|]. split; [exact X03|]. split; [|exact Dres].
      apply (qcacheok_add C cget cadd Hlossy Sg s3 c3 _ _ _ Q3 (qcode_gt q)).
      apply (qentry_quant Sg s3 q (RN fid) (RN vid) res phi L');
        [apply (den_extends s s3 _ _ B X03 D) | apply (vchain_extends _ _ _ _ X03 V') | exact Dres].
    + (* the level stays: a node *)
      destruct (mk_node s2 lvl [Build.E t; Build.E e]) as [s3 h] eqn:Em.
      assert (Hl2 : lvl < nlevels s2) by (rewrite (ext_nlevels _ _ X02); exact Hlv).
      assert (II : forall i, i < 2 -> indep (qlevs (qf q) Lr (cofn phi lvl i)) (S lvl)).
      { intros i Hi. apply indep_qlevs. apply (indep_cofn phi lvl lvl i Ip (le_n _) Hi). }
      destruct (node_step s2 lvl t e _ _ s3 h B2 Hl2 D1' D2 (II 0 ltac:(lia)) (II 1 ltac:(lia)) Em)
        as [B3 [X3 Dh]].
      assert (X03 : extends s s3) by (eapply extends_trans; eauto).
      assert (Dres : Den s3 (eref h) (qlevs (qf q) L' phi)).
      { apply (den_ext s3 (eref h) _ _ Dh). intros c0 Hc. rewrite HLr.
        apply qlevs_shannon; assumption. }
      exists s3, (cadd c2 (qcode q) [RN fid; RN vid] (eref h)), (eref h).
      split; [reflexivity|]. split; [exact B3|]. split; [exact X03|]. split; [|exact Dres].
      apply (qcacheok_add C cget cadd Hlossy Sg s3 c2 _ _ _
               (qcacheok_extends C cget Sg s2 s3 c2 B2 X3 Q2) (qcode_gt q)).
      apply (qentry_quant Sg s3 q (RN fid) (RN vid) (eref h) phi L');
        [apply (den_extends s s3 _ _ B X03 D) | apply (vchain_extends _ _ _ _ X03 V') | exact Dres].
Qed.

End Q.
