(** * Spec-layer laws of quantification, restriction and substitution (DD/Sem.v)

    Everything here is about the mathematical objects of DD/Sem.v only
    ([quant], [exists_s], [forall_s], [unique_s], [restrict_s], [subst_s]),
    for every assignment and every variable list:

    - [quant_perm]: the order of the variable list is irrelevant (or, and, xor);
    - [quant_dup], [quant_same_elems]: duplicates are irrelevant (or, and);
      [unique_dup]: a duplicate makes the exclusive-or quantifier false;
    - [forall_exists_dual], [exists_forall_dual], [unique_neg];
    - [quant_not_support], [unique_not_support]: quantifying variables outside
      the support;
    - [restrict_s_over], [over_spec], [restrict_s_perm], [restrict_s_indep]:
      [restrict_s] is the cofactor w.r.t. the partial assignment;
    - [subst_s_var], [subst_s_lift2], [subst_s_id], [subst_s_unused],
      [subst_s_shannon]: simultaneous substitution;
    - [bcdd_dispatch_spec], [bcdd_unique_dispatch_spec]: the identities behind
      the dispatch tables of complement_edge/apply_rec.rs
      ([apply_quant_dispatch], [apply_quant_unique_dispatch]).

    Coq has no function extensionality, so the laws that move an assignment
    update past another one are stated for functions that respect pointwise
    equality of assignments ([aext]); every function denoted by a decision
    diagram does (DD/QuantProofs.v, [aext_bfun_of]). *)

From Coq Require Import List Bool Arith Lia Permutation.
From OxiVerif Require Import DD.Sem DD.Quant.
Import ListNotations.

(** ** Assignments up to pointwise equality *)

Definition aeq (a a' : asg) : Prop := forall v, a v = a' v.
Definition aext (f : bfun) : Prop := forall a a', aeq a a' -> f a = f a'.

Lemma aeq_refl : forall a, aeq a a.
Proof. intros a v. reflexivity. Qed.

Lemma aeq_upd : forall a a' v b, aeq a a' -> aeq (upd a v b) (upd a' v b).
Proof. intros a a' v b E x. unfold upd. destruct (Nat.eqb x v); [reflexivity | apply E]. Qed.

Lemma aupd_comm : forall a v w b b', v <> w -> aeq (upd (upd a v b) w b') (upd (upd a w b') v b).
Proof.
  intros a v w b b' Hne x. unfold upd.
  destruct (Nat.eqb_spec x w) as [Ew|Hw]; destruct (Nat.eqb_spec x v) as [Ev|Hv]; try reflexivity.
  subst. contradiction.
Qed.

Lemma aupd_upd : forall a v b b', aeq (upd (upd a v b) v b') (upd a v b').
Proof. intros a v b b' x. unfold upd. destruct (Nat.eqb x v); reflexivity. Qed.

Lemma aupd_self : forall a v, aeq (upd a v (a v)) a.
Proof. intros a v x. unfold upd. destruct (Nat.eqb_spec x v) as [->|]; reflexivity. Qed.

Lemma aupd_at : forall a v b, upd a v b v = b.
Proof. intros a v b. unfold upd. rewrite Nat.eqb_refl. reflexivity. Qed.

Lemma aupd_other : forall a v b x, x <> v -> upd a v b x = a x.
Proof. intros a v b x Hne. unfold upd. destruct (Nat.eqb_spec x v); [contradiction | reflexivity]. Qed.

Lemma aext_cof : forall f v b, aext f -> aext (cof f v b).
Proof. intros f v b X a a' E. unfold cof. apply X. apply aeq_upd. exact E. Qed.

Lemma aext_lift1 : forall u f, aext f -> aext (lift1 u f).
Proof. intros u f X a a' E. unfold lift1. rewrite (X a a' E). reflexivity. Qed.

Lemma aext_lift2 : forall o f g, aext f -> aext g -> aext (lift2 o f g).
Proof. intros o f g X Y a a' E. unfold lift2. rewrite (X a a' E), (Y a a' E). reflexivity. Qed.

Lemma aext_var : forall v, aext (var_s v).
Proof. intros v a a' E. apply E. Qed.

Lemma aext_const : forall b, aext (const_s b).
Proof. intros b a a' E. reflexivity. Qed.

(** ** Algebraic properties of the combining connective *)

Definition medial (q : bool -> bool -> bool) : Prop :=
  forall a b c d, q (q a b) (q c d) = q (q a c) (q b d).
Definition idem (q : bool -> bool -> bool) : Prop := forall x, q x x = x.

Lemma medial_orb : medial orb.  Proof. intros [] [] [] []; reflexivity. Qed.
Lemma medial_andb : medial andb. Proof. intros [] [] [] []; reflexivity. Qed.
Lemma medial_xorb : medial xorb. Proof. intros [] [] [] []; reflexivity. Qed.
Lemma idem_orb : idem orb.   Proof. intros []; reflexivity. Qed.
Lemma idem_andb : idem andb. Proof. intros []; reflexivity. Qed.

(** ** [quant]: congruence and extensionality *)

Lemma quant_cons : forall q v r f a,
  quant q (v :: r) f a = q (quant q r f (upd a v true)) (quant q r f (upd a v false)).
Proof. reflexivity. Qed.

Lemma quant_ext : forall q vs f g, (forall a, f a = g a) ->
  forall a, quant q vs f a = quant q vs g a.
Proof.
  intros q vs f g E. induction vs as [|v r IH]; intros a; [apply E|].
  rewrite !quant_cons, !IH. reflexivity.
Qed.

Lemma aext_quant : forall q vs f, aext f -> aext (quant q vs f).
Proof.
  intros q vs f X. induction vs as [|v r IH]; [exact X|].
  intros a a' E. rewrite !quant_cons.
  rewrite (IH _ _ (aeq_upd a a' v true E)), (IH _ _ (aeq_upd a a' v false E)). reflexivity.
Qed.

(** ** Order independence *)

Lemma quant_swap : forall q v w r f, medial q -> aext f ->
  forall a, quant q (v :: w :: r) f a = quant q (w :: v :: r) f a.
Proof.
  intros q v w r f M X a. pose proof (aext_quant q r f X) as G.
  rewrite !quant_cons.
  destruct (Nat.eq_dec v w) as [->|Hne]; [reflexivity|].
  rewrite M.
  rewrite (G _ _ (aupd_comm a v w true true Hne)), (G _ _ (aupd_comm a v w true false Hne)),
          (G _ _ (aupd_comm a v w false true Hne)), (G _ _ (aupd_comm a v w false false Hne)).
  reflexivity.
Qed.

Theorem quant_perm : forall q vs vs' f, medial q -> aext f -> Permutation vs vs' ->
  forall a, quant q vs f a = quant q vs' f a.
Proof.
  intros q vs vs' f M X P. induction P as [|x l l' P IH|x y l|l l' l'' P1 IH1 P2 IH2]; intros a.
  - reflexivity.
  - rewrite !quant_cons, !IH. reflexivity.
  - apply quant_swap; assumption.
  - rewrite IH1. apply IH2.
Qed.

(** ** Quantified variables no longer matter; duplicates *)

Lemma quant_indep_in : forall q vs f v b, aext f -> In v vs ->
  forall a, quant q vs f (upd a v b) = quant q vs f a.
Proof.
  intros q vs f v b X. induction vs as [|w r IH]; intros Hin a; [destruct Hin|].
  pose proof (aext_quant q r f X) as G. rewrite !quant_cons.
  destruct (Nat.eq_dec w v) as [->|Hne].
  - rewrite (G _ _ (aupd_upd a v b true)), (G _ _ (aupd_upd a v b false)). reflexivity.
  - destruct Hin as [E|Hin]; [contradiction|].
    assert (Hne' : v <> w) by congruence.
    rewrite (G _ _ (aupd_comm a v w b true Hne')), (G _ _ (aupd_comm a v w b false Hne')).
    rewrite !(IH Hin). reflexivity.
Qed.

Theorem quant_dup : forall q v vs f, idem q -> aext f -> In v vs ->
  forall a, quant q (v :: vs) f a = quant q vs f a.
Proof.
  intros q v vs f I X Hin a. rewrite quant_cons.
  rewrite !(quant_indep_in q vs f v _ X Hin). apply I.
Qed.

(** for the exclusive-or quantifier a repeated variable gives the constant false *)
Theorem unique_dup : forall v vs f, aext f -> In v vs ->
  forall a, unique_s (v :: vs) f a = false.
Proof.
  intros v vs f X Hin a. unfold unique_s. rewrite quant_cons.
  rewrite !(quant_indep_in xorb vs f v _ X Hin). apply xorb_nilpotent.
Qed.

Lemma quant_nodup : forall q vs f, idem q -> aext f ->
  forall a, quant q (nodup Nat.eq_dec vs) f a = quant q vs f a.
Proof.
  intros q vs f I X. induction vs as [|v r IH]; intros a; [reflexivity|].
  simpl nodup. destruct (in_dec Nat.eq_dec v r) as [Hin|Hnin].
  - rewrite IH. symmetry. apply quant_dup; assumption.
  - rewrite !quant_cons, !IH. reflexivity.
Qed.

(** or / and: only the *set* of listed variables matters *)
Theorem quant_same_elems : forall q vs vs' f, medial q -> idem q -> aext f ->
  (forall v, In v vs <-> In v vs') ->
  forall a, quant q vs f a = quant q vs' f a.
Proof.
  intros q vs vs' f M I X E a.
  rewrite <- (quant_nodup q vs f I X), <- (quant_nodup q vs' f I X).
  apply quant_perm; try assumption.
  apply NoDup_Permutation; try apply NoDup_nodup.
  intros v. rewrite !nodup_In. apply E.
Qed.

Theorem exists_perm : forall vs vs' f, aext f -> Permutation vs vs' ->
  forall a, exists_s vs f a = exists_s vs' f a.
Proof. intros. apply quant_perm; auto using medial_orb. Qed.

Theorem forall_perm : forall vs vs' f, aext f -> Permutation vs vs' ->
  forall a, forall_s vs f a = forall_s vs' f a.
Proof. intros. apply quant_perm; auto using medial_andb. Qed.

Theorem unique_perm : forall vs vs' f, aext f -> Permutation vs vs' ->
  forall a, unique_s vs f a = unique_s vs' f a.
Proof. intros. apply quant_perm; auto using medial_xorb. Qed.

Theorem exists_same_elems : forall vs vs' f, aext f -> (forall v, In v vs <-> In v vs') ->
  forall a, exists_s vs f a = exists_s vs' f a.
Proof. intros. apply quant_same_elems; auto using medial_orb, idem_orb. Qed.

Theorem forall_same_elems : forall vs vs' f, aext f -> (forall v, In v vs <-> In v vs') ->
  forall a, forall_s vs f a = forall_s vs' f a.
Proof. intros. apply quant_same_elems; auto using medial_andb, idem_andb. Qed.

(** ** Variables outside the support *)

Definition nodep_s (f : bfun) (v : nat) : Prop := forall a b, f (upd a v b) = f a.

Theorem quant_not_support : forall q vs f, idem q -> (forall v, In v vs -> nodep_s f v) ->
  forall a, quant q vs f a = f a.
Proof.
  intros q vs f I. induction vs as [|v r IH]; intros Hs a; [reflexivity|].
  rewrite quant_cons, !IH by (intros w Hw; apply Hs; right; exact Hw).
  rewrite !(Hs v (or_introl eq_refl)). apply I.
Qed.

Lemma nodep_quant : forall q vs f v, aext f -> nodep_s f v -> nodep_s (quant q vs f) v.
Proof.
  intros q vs f v X Hn. induction vs as [|w r IH]; [exact Hn|].
  intros a b. pose proof (aext_quant q r f X) as G. rewrite !quant_cons.
  destruct (Nat.eq_dec v w) as [->|Hne].
  - rewrite (G _ _ (aupd_upd a w b true)), (G _ _ (aupd_upd a w b false)). reflexivity.
  - rewrite (G _ _ (aupd_comm a v w b true Hne)), (G _ _ (aupd_comm a v w b false Hne)), !IH.
    reflexivity.
Qed.

(** unique quantification of a variable the function does not depend on: [f xor f] *)
Theorem unique_not_support : forall v vs f, aext f -> nodep_s f v ->
  forall a, unique_s (v :: vs) f a = false.
Proof.
  intros v vs f X Hn a. unfold unique_s. rewrite quant_cons.
  rewrite !(nodep_quant xorb vs f v X Hn). apply xorb_nilpotent.
Qed.

(** ** Duality *)

Lemma quant_dual : forall q q' vs f, (forall x y, q' x y = negb (q (negb x) (negb y))) ->
  forall a, quant q' vs f a = negb (quant q vs (lift1 negb f) a).
Proof.
  intros q q' vs f D. induction vs as [|v r IH]; intros a.
  - unfold lift1. simpl. rewrite negb_involutive. reflexivity.
  - rewrite !quant_cons, D, !IH, !negb_involutive. reflexivity.
Qed.

Theorem forall_exists_dual : forall vs f a,
  forall_s vs f a = negb (exists_s vs (lift1 negb f) a).
Proof. intros. apply quant_dual. intros [] []; reflexivity. Qed.

Theorem exists_forall_dual : forall vs f a,
  exists_s vs f a = negb (forall_s vs (lift1 negb f) a).
Proof. intros. apply quant_dual. intros [] []; reflexivity. Qed.

(** the exclusive-or quantifier absorbs a negation of its operand (for a
    non-empty variable list): [(~g1) xor (~g0) = g1 xor g0] *)
Theorem unique_neg : forall v vs f a,
  unique_s (v :: vs) (lift1 negb f) a = unique_s (v :: vs) f a.
Proof.
  intros v vs f. unfold unique_s. revert v. induction vs as [|w r IH]; intros v a.
  - simpl. unfold cof, lift1. destruct (f (upd a v true)), (f (upd a v false)); reflexivity.
  - rewrite (quant_cons xorb v (w :: r)), (quant_cons xorb v (w :: r) f), !IH. reflexivity.
Qed.

(** ** Restriction = cofactor w.r.t. the partial assignment *)

(** the assignment overridden by a list of literals (later entries win) *)
Fixpoint over (lits : list (nat * bool)) (a : asg) : asg :=
  match lits with
  | [] => a
  | (v, b) :: r => over r (upd a v b)
  end.

Theorem restrict_s_over : forall lits f a, restrict_s lits f a = f (over lits a).
Proof.
  induction lits as [|[v b] r IH]; intros f a; [reflexivity|].
  simpl. unfold cof. apply IH.
Qed.

Lemma over_notin : forall lits a x, ~ In x (map fst lits) -> over lits a x = a x.
Proof.
  induction lits as [|[v b] r IH]; intros a x Hn; [reflexivity|].
  simpl in *. rewrite IH by tauto. apply aupd_other. intros ->. tauto.
Qed.

(** with every variable listed at most once: listed variables get the listed
    value, all others keep theirs *)
Theorem over_spec : forall lits a x, NoDup (map fst lits) ->
  over lits a x = match assoc_nat lits x with Some b => b | None => a x end.
Proof.
  induction lits as [|[v b] r IH]; intros a x Hnd; [reflexivity|].
  simpl in *. inversion Hnd as [|? ? Hv Hr]; subst.
  destruct (Nat.eqb_spec v x) as [->|Hne].
  - rewrite over_notin by exact Hv. apply aupd_at.
  - rewrite IH by exact Hr. destruct (assoc_nat r x); [reflexivity|].
    apply aupd_other. congruence.
Qed.

Lemma restrict_s_ext : forall lits f g, (forall a, f a = g a) ->
  forall a, restrict_s lits f a = restrict_s lits g a.
Proof. intros lits f g E a. rewrite !restrict_s_over. apply E. Qed.

Lemma aeq_over : forall lits a a', aeq a a' -> aeq (over lits a) (over lits a').
Proof.
  induction lits as [|[v b] r IH]; intros a a' E; [exact E|].
  simpl. apply IH. apply aeq_upd. exact E.
Qed.

Lemma aext_restrict : forall lits f, aext f -> aext (restrict_s lits f).
Proof.
  intros lits f X a a' E. rewrite !restrict_s_over. apply X. apply aeq_over. exact E.
Qed.

Lemma assoc_nat_perm : forall (l l' : list (nat * bool)) x, NoDup (map fst l) -> Permutation l l' ->
  assoc_nat l x = assoc_nat l' x.
Proof.
  intros l l' x Hnd P. revert Hnd.
  induction P as [|[v b] l l' P IH|[v b] [w b'] l|l l' l'' P1 IH1 P2 IH2]; intros Hnd.
  - reflexivity.
  - simpl in *. inversion Hnd; subst. rewrite IH by assumption. reflexivity.
  - simpl in *. inversion Hnd as [|? ? Hv Hr]; subst.
    destruct (Nat.eqb_spec w x) as [->|]; destruct (Nat.eqb_spec v x) as [->|]; try reflexivity.
    exfalso. apply Hv. left. reflexivity.
  - rewrite IH1 by exact Hnd. apply IH2.
    eapply Permutation_NoDup; [apply Permutation_map; exact P1 | exact Hnd].
Qed.

(** the order of the literals is irrelevant *)
Theorem restrict_s_perm : forall lits lits' f, aext f -> NoDup (map fst lits) ->
  Permutation lits lits' -> forall a, restrict_s lits f a = restrict_s lits' f a.
Proof.
  intros lits lits' f X Hnd P a. rewrite !restrict_s_over. apply X. intros x.
  assert (Hnd' : NoDup (map fst lits'))
    by (eapply Permutation_NoDup; [apply Permutation_map; exact P | exact Hnd]).
  rewrite !over_spec by assumption. rewrite (assoc_nat_perm lits lits' x Hnd P). reflexivity.
Qed.

(** a restricted variable no longer matters *)
Theorem restrict_s_indep : forall lits f v b, aext f -> NoDup (map fst lits) ->
  In v (map fst lits) -> forall a, restrict_s lits f (upd a v b) = restrict_s lits f a.
Proof.
  intros lits f v b X Hnd Hin a. rewrite !restrict_s_over. apply X. intros x.
  rewrite !over_spec by assumption.
  destruct (assoc_nat lits x) eqn:E; [reflexivity|].
  apply aupd_other. intros ->.
  clear - Hin E. induction lits as [|[w b'] r IH]; [destruct Hin|].
  simpl in *. destruct (Nat.eqb_spec w v); [discriminate|]. destruct Hin; [contradiction | auto].
Qed.

(** the empty cube and single literals *)
Theorem restrict_s_nil : forall f a, restrict_s [] f a = f a.
Proof. reflexivity. Qed.

Theorem restrict_s_one : forall v b f a, restrict_s [(v, b)] f a = cof f v b a.
Proof. reflexivity. Qed.

(** Shannon expansion links the quantifiers to restriction *)
Theorem quant_one_restrict : forall q v f a,
  quant q [v] f a = q (restrict_s [(v, true)] f a) (restrict_s [(v, false)] f a).
Proof. reflexivity. Qed.

(** ** Substitution *)

(** the assignment under which [subst_s sub f] evaluates [f] *)
Definition sub_asg (sub : list (nat * bfun)) (a : asg) : asg :=
  fun v => match assoc_nat sub v with Some g => g a | None => a v end.

Theorem subst_s_sub_asg : forall sub f a, subst_s sub f a = f (sub_asg sub a).
Proof. reflexivity. Qed.

(** unlisted variables are untouched, listed ones read their replacement under
    the *original* assignment (simultaneity) *)
Theorem subst_s_var : forall sub v a,
  subst_s sub (var_s v) a = match assoc_nat sub v with Some g => g a | None => a v end.
Proof. reflexivity. Qed.

Theorem subst_s_const : forall sub b a, subst_s sub (const_s b) a = b.
Proof. reflexivity. Qed.

Theorem subst_s_lift1 : forall sub u f a, subst_s sub (lift1 u f) a = lift1 u (subst_s sub f) a.
Proof. reflexivity. Qed.

Theorem subst_s_lift2 : forall sub o f g a,
  subst_s sub (lift2 o f g) a = lift2 o (subst_s sub f) (subst_s sub g) a.
Proof. reflexivity. Qed.

Theorem subst_s_ite : forall sub f g h a,
  subst_s sub (ite_s f g h) a = ite_s (subst_s sub f) (subst_s sub g) (subst_s sub h) a.
Proof. reflexivity. Qed.

Lemma subst_s_ext : forall sub f g, (forall a, f a = g a) -> forall a, subst_s sub f a = subst_s sub g a.
Proof. intros sub f g E a. apply E. Qed.

(** identity replacement *)
Theorem subst_s_id : forall sub f, aext f ->
  (forall v g, assoc_nat sub v = Some g -> forall a, g a = a v) ->
  forall a, subst_s sub f a = f a.
Proof.
  intros sub f X Hid a. unfold subst_s. apply X. intros v. cbv beta.
  match goal with |- match ?x with _ => _ end = _ => destruct x as [g|] eqn:E end;
    [apply (Hid v g E) | reflexivity].
Qed.

Theorem subst_s_nil : forall f a, subst_s [] f a = f a.
Proof. reflexivity. Qed.

(** a replacement for a variable outside the support is irrelevant *)
Theorem subst_s_unused : forall sub f v g, aext f -> nodep_s f v ->
  forall a, subst_s ((v, g) :: sub) f a = subst_s sub f a.
Proof.
  intros sub f v g X Hn a. unfold subst_s.
  set (a1 := fun x => match assoc_nat ((v, g) :: sub) x with Some h => h a | None => a x end).
  set (a2 := fun x => match assoc_nat sub x with Some h => h a | None => a x end).
  rewrite <- (Hn a2 (g a)). apply X. intros x. unfold a1, a2, upd. simpl.
  rewrite (Nat.eqb_sym v x). destruct (Nat.eqb x v); reflexivity.
Qed.

(** the recursion scheme of the algorithm: Shannon expansion on one variable,
    the variable's replacement (or the variable itself) selecting the branch *)
Theorem subst_s_shannon : forall sub f v, aext f -> forall a,
  subst_s sub f a =
  if (match assoc_nat sub v with Some g => g a | None => a v end)
  then subst_s sub (cof f v true) a else subst_s sub (cof f v false) a.
Proof.
  intros sub f v X a. unfold subst_s, cof.
  set (a' := fun x => match assoc_nat sub x with Some g => g a | None => a x end).
  change (match assoc_nat sub v with Some g => g a | None => a v end) with (a' v).
  destruct (a' v) eqn:E; apply X; intros x; symmetry; rewrite <- E; apply aupd_self.
Qed.

(** swapping two variables is not the same as two successive single
    substitutions: the replacements are read under the original assignment *)
Example subst_s_swap : forall f a, aext f ->
  subst_s [(0, var_s 1); (1, var_s 0)] f a =
  f (fun v => match v with 0 => a 1 | 1 => a 0 | _ => a v end).
Proof. intros f a X. unfold subst_s. apply X. intros [|[|v]]; reflexivity. Qed.

(** ** Apply-and-quantify: the plain BDD forms are the definition, the
    complement-edge forms go through the dispatch tables *)

Definition qfun (q : quantifier) : bool -> bool -> bool :=
  match q with QForall => andb | QExists => orb | QUnique => xorb end.

Lemma qfun_qop : forall q x y, qfun q x y = eval_bop (qop q) x y.
Proof. intros [] x y; reflexivity. Qed.

(** what [apply_forall] / [apply_exists] / [apply_unique] must return *)
Definition apply_quant_s (q : quantifier) (o : bop) (vs : list nat) (f g : bfun) : bfun :=
  quant (qfun q) vs (lift2 o f g).

(** the dispatch tables [bcdd_dispatch] / [bcdd_unique_dispatch] are in DD/Quant.v *)

Definition cneg (b : bool) (f : bfun) : bfun := if b then lift1 negb f else f.

Definition run_row (r : drow) (vs : list nat) (f g : bfun) : bfun :=
  cneg (d_nres r) (apply_quant_s (d_q r) (d_op r) vs (cneg (d_nf r) f) (cneg (d_ng r) g)).

Theorem bcdd_dispatch_spec : forall q o vs f g a, q <> QUnique ->
  run_row (bcdd_dispatch q o) vs f g a = apply_quant_s q o vs f g a.
Proof.
  intros q o vs f g a Hq. unfold run_row, apply_quant_s.
  assert (Dual : forall h a0, lift1 negb (quant (qfun (qdual q)) vs h) a0
                              = quant (qfun q) vs (lift1 negb h) a0).
  { intros h a0. unfold lift1 at 1.
    destruct q; [| |contradiction]; simpl qdual; simpl qfun.
    - change (quant andb) with forall_s. change (quant orb) with exists_s.
      rewrite forall_exists_dual. f_equal. apply quant_ext. intros x. unfold lift1.
      rewrite negb_involutive. reflexivity.
    - change (quant andb) with forall_s. change (quant orb) with exists_s.
      rewrite exists_forall_dual. f_equal. apply quant_ext. intros x. unfold lift1.
      rewrite negb_involutive. reflexivity. }
  destruct o; simpl bcdd_dispatch; simpl d_q; simpl d_op; simpl d_nf; simpl d_ng; simpl d_nres;
    unfold cneg; try rewrite Dual; apply quant_ext; intros x; unfold lift1, lift2; simpl;
    destruct (f x), (g x); reflexivity.
Qed.

Theorem bcdd_unique_dispatch_spec : forall o vs f g a,
  run_row (bcdd_unique_dispatch o) vs f g a = apply_quant_s QUnique o vs f g a.
Proof.
  intros o vs f g a. unfold run_row, apply_quant_s.
  destruct o; simpl bcdd_unique_dispatch; simpl d_q; simpl d_op; simpl d_nf; simpl d_ng; simpl d_nres;
    unfold cneg; apply quant_ext; intros x; unfold lift1, lift2; simpl;
    destruct (f x), (g x); reflexivity.
Qed.
