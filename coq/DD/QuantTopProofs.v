(** * The quantification / restriction / substitution algorithms against the
      spec layer (DD/Sem.v)

    - [cube_chain]: a reference that *denotes* a cube of literals (distinct
      levels) has exactly that cube as its literal chain, sorted by level
      (canonicity), so the structural reading of the algorithms ([VChain],
      [LChain]) is the semantic one;
    - bridges from level-indexed choices to variable-indexed assignments:
      [quant_bridge], [restr_bridge], [psubst_bridge];
    - the soundness theorems of the entry points in terms of [bfun_of] and
      [Sem.quant] / [exists_s] / [forall_s] / [unique_s] / [restrict_s] /
      [subst_s] / [lift2]: [quant_edge_sound], [restrict_edge_sound],
      [apply_quant_edge_sound], [substitute_edge_sound]. *)

From Coq Require Import List NArith PArith Bool Arith Lia FMapPositive Permutation.
From OxiVerif Require Import DD.Table DD.TableProofs DD.Canon DD.Sem DD.Build DD.BuildProofs
  DD.Apply DD.ApplyProofs DD.ApplyEvalProofs DD.Quant DD.QuantSpecProofs DD.QuantLemmas
  DD.QuantProofs DD.RestrictProofs DD.SubstProofs DD.ApplyQuantProofs.
Import ListNotations.

(** ** Cubes of level literals *)

Definition cubeL (M : list (nat * bool)) : cfun :=
  fun c => forallb (fun p : nat * bool => Nat.eqb (c (fst p)) (lit_ix (snd p))) M.

(** a choice satisfying the cube *)
Fixpoint csat (M : list (nat * bool)) (l : nat) : nat :=
  match M with
  | [] => 0
  | (m, b) :: r => if Nat.eqb l m then lit_ix b else csat r l
  end.

Lemma csat_bchoice : forall M, bchoice (csat M).
Proof.
  induction M as [|[m b] r IH]; intros l; simpl; [lia|].
  destruct (Nat.eqb l m); [apply lit_ix_lt | apply IH].
Qed.

Lemma cubeL_reads : forall M c c', (forall p, In p M -> c (fst p) = c' (fst p)) ->
  cubeL M c = cubeL M c'.
Proof.
  induction M as [|p r IH]; intros c c' E; [reflexivity|].
  unfold cubeL in *. simpl. rewrite (E p (or_introl eq_refl)). f_equal.
  apply IH. intros q Hq. apply E. right. exact Hq.
Qed.

Lemma cubeL_sat : forall M, NoDup (map fst M) -> cubeL M (csat M) = true.
Proof.
  induction M as [|[m b] r IH]; intros Hnd; [reflexivity|].
  simpl in Hnd. inversion Hnd as [|? ? Hn Hr]; subst.
  unfold cubeL. simpl. rewrite Nat.eqb_refl, Nat.eqb_refl. simpl.
  change (cubeL r (fun l => if Nat.eqb l m then lit_ix b else csat r l) = true).
  rewrite (cubeL_reads r _ (csat r)); [apply IH; exact Hr|].
  intros p Hp. destruct (Nat.eqb_spec (fst p) m) as [E|]; [|reflexivity].
  exfalso. apply Hn. rewrite <- E. apply in_map. exact Hp.
Qed.

Lemma cubeL_false : forall M c l b, In (l, b) M -> c l <> lit_ix b -> cubeL M c = false.
Proof.
  intros M c l b Hin Hne. destruct (cubeL M c) eqn:E; [|reflexivity]. exfalso.
  unfold cubeL in E. rewrite forallb_forall in E. specialize (E (l, b) Hin). simpl in E.
  apply Nat.eqb_eq in E. contradiction.
Qed.

Lemma cubeL_perm : forall M M' c, Permutation M M' -> cubeL M c = cubeL M' c.
Proof.
  intros M M' c P. induction P as [|x l l' P IH|x y l|l l' l'' P1 IH1 P2 IH2].
  - reflexivity.
  - unfold cubeL in *. simpl. rewrite IH. reflexivity.
  - unfold cubeL. simpl. rewrite !andb_assoc, (andb_comm (Nat.eqb _ _)). reflexivity.
  - congruence.
Qed.

Lemma cubeL_cons : forall l b M c,
  cubeL ((l, b) :: M) c = Nat.eqb (c l) (lit_ix b) && cubeL M c.
Proof. reflexivity. Qed.

(** flipping a literal of a satisfying choice *)
Lemma cube_flip : forall M l b, NoDup (map fst M) -> In (l, b) M ->
  let c1 := csat M in let c2 := cupd c1 l (1 - lit_ix b) in
  bchoice c1 /\ bchoice c2 /\ cubeL M c1 = true /\ cubeL M c2 = false /\
  forall x, x <> l -> c1 x = c2 x.
Proof.
  intros M l b Hnd Hin c1 c2. pose proof (csat_bchoice M) as Hc1.
  split; [exact Hc1|]. split; [apply bchoice_upd; [exact Hc1 | destruct b; simpl; lia]|].
  split; [apply cubeL_sat; exact Hnd|].
  split.
  - apply (cubeL_false M c2 l b Hin). unfold c2, cupd. rewrite Nat.eqb_refl. destruct b; simpl; lia.
  - intros x Hx. unfold c2, cupd. destruct (Nat.eqb_spec x l); [contradiction | reflexivity].
Qed.

Theorem cube_chain : forall s, BddOK s -> forall n r M0,
  nlevels s - rlevel s r < n -> Den s r (cubeL M0) -> NoDup (map fst M0) ->
  (forall p, In p M0 -> fst p < nlevels s) ->
  exists M, LChain s r M /\ Permutation M M0.
Proof.
  intros s B. pose proof (bo_wf s B) as H.
  induction n as [|n IH]; intros r M0 Hn D Hnd Hlt; [lia|].
  destruct r as [t|id].
  - (* a terminal denotes a constant: the cube is empty *)
    destruct M0 as [|[l b] rest]; [exists []; split; constructor|]. exfalso.
    destruct (cube_flip ((l, b) :: rest) l b Hnd (or_introl eq_refl)) as [Hc1 [Hc2 [T [F _]]]].
    rewrite (den_term_const s t _ _ _ D Hc1 Hc2) in T. congruence.
  - destruct (proj1 D) as [nd En]. rewrite (rlevel_node s id nd En) in Hn.
    pose proof (wf_level s H id nd En) as Hlv. set (lvl := nlevel nd) in *.
    assert (Ip : indep (cubeL M0) lvl)
      by (unfold lvl; rewrite <- (rlevel_node s id nd En); apply (den_indep s _ _ H D)).
    (* no literal above the root *)
    assert (Hge : forall p, In p M0 -> lvl <= fst p).
    { intros [l b] Hin. simpl. destruct (le_lt_dec lvl l) as [Hle|Hgt]; [exact Hle|]. exfalso.
      destruct (cube_flip M0 l b Hnd Hin) as [Hc1 [Hc2 [T [F Ex]]]].
      rewrite (Ip _ _ Hc1 Hc2) in T; [congruence|]. intros x Hx. apply Ex. lia. }
    (* the root level is a literal *)
    assert (Hroot : In lvl (map fst M0)).
    { destruct (in_dec Nat.eq_dec lvl (map fst M0)) as [Hin|Hnin]; [exact Hin|]. exfalso.
      assert (I' : indep (cubeL M0) (S lvl)).
      { intros c c' _ _ E. apply cubeL_reads. intros p Hp. apply E.
        specialize (Hge p Hp). assert (fst p <> lvl) by (intros Eq; apply Hnin; rewrite <- Eq; apply in_map; exact Hp).
        lia. }
      pose proof (den_level s (RN id) _ (S lvl) B D ltac:(lia) I') as Hl.
      rewrite (rlevel_node s id nd En) in Hl. fold lvl in Hl. lia. }
    apply in_map_iff in Hroot. destruct Hroot as [[l0 b] [El0 Hin]]. simpl in El0. subst l0.
    destruct (in_split _ _ Hin) as [A [Bq EM0]].
    set (M0' := A ++ Bq).
    assert (P0 : Permutation M0 ((lvl, b) :: M0')).
    { rewrite EM0. symmetry. apply Permutation_middle. }
    assert (Hnd' : NoDup (map fst ((lvl, b) :: M0'))).
    { eapply Permutation_NoDup; [apply Permutation_map; exact P0 | exact Hnd]. }
    simpl in Hnd'. apply NoDup_cons_iff in Hnd'. destruct Hnd' as [Hn0 Hnd0].
    assert (Hlt' : forall p, In p M0' -> fst p < nlevels s).
    { intros p Hp. apply Hlt. apply (Permutation_in _ (Permutation_sym P0)). right. exact Hp. }
    assert (Hsame : forall c, cofn (cubeL M0) lvl (lit_ix b) c = cubeL M0' c).
    { intros c. unfold cofn. rewrite (cubeL_perm _ _ _ P0), cubeL_cons.
      unfold cupd at 1. rewrite Nat.eqb_refl, Nat.eqb_refl. simpl.
      apply cubeL_reads. intros p Hp. unfold cupd.
      destruct (Nat.eqb_spec (fst p) lvl) as [E|]; [|reflexivity].
      exfalso. apply Hn0. rewrite <- E. apply in_map. exact Hp. }
    assert (Hother : forall c, cofn (cubeL M0) lvl (1 - lit_ix b) c = false).
    { intros c. unfold cofn. apply (cubeL_false M0 _ lvl b Hin).
      unfold cupd. rewrite Nat.eqb_refl. destruct b; simpl; lia. }
    destruct (bdd_children s id nd B En) as [t [e Ech]].
    assert (Ht : nth_error (nchildren nd) 0 = Some t) by (rewrite Ech; reflexivity).
    assert (He : nth_error (nchildren nd) 1 = Some e) by (rewrite Ech; reflexivity).
    pose proof (den_child s id nd 0 t _ B D En Ht) as Dt.
    pose proof (den_child s id nd 1 e _ B D En He) as De.
    destruct (child_nth s H id nd 0 t En Ht) as [Ot Lt].
    destruct (child_nth s H id nd 1 e En He) as [Oe Le].
    fold lvl in Dt, De, Lt, Le.
    pose proof (rlevel_le s H (eref t)). pose proof (rlevel_le s H (eref e)).
    destruct b; simpl lit_ix in *.
    + (* positive literal *)
      assert (Dt' : Den s (eref t) (cubeL M0')) by (apply (den_ext s _ _ _ Dt); intros c _; apply Hsame).
      assert (Hv : view s (eref t) = Some VI \/ view s (eref t) = Some (VT true)).
      { destruct (view_total s (eref t) B Ot) as [[|[]] Vt]; [left; exact Vt | right; exact Vt|].
        exfalso. pose proof (view_den_T s (eref t) false _ Dt' Vt (csat M0') (csat_bchoice M0')) as F.
        rewrite (cubeL_sat M0' Hnd0) in F. discriminate. }
      destruct (IH (eref t) M0' ltac:(lia) Dt' Hnd0 Hlt') as [M1 [V1 P1]].
      exists ((lvl, true) :: M1). split; [eapply LC_pos; eauto|].
      eapply Permutation_trans; [apply perm_skip; exact P1 | symmetry; exact P0].
    + (* negative literal: the then-child is the false terminal *)
      assert (Dt' : Den s (eref t) (fun _ => false)) by (apply (den_ext s _ _ _ Dt); intros c _; apply Hother).
      destruct (term_of_total s false B) as [t0 T0].
      pose proof (den_canon s _ _ _ B Dt' (den_const s false t0 B T0)) as Et.
      assert (Hv : view s (eref t) = Some (VT false)).
      { rewrite Et. unfold view. rewrite (term_of_spec s false t0 H T0). reflexivity. }
      assert (De' : Den s (eref e) (cubeL M0')) by (apply (den_ext s _ _ _ De); intros c _; apply Hsame).
      destruct (IH (eref e) M0' ltac:(lia) De' Hnd0 Hlt') as [M1 [V1 P1]].
      exists ((lvl, false) :: M1). split; [eapply LC_neg; eauto|].
      eapply Permutation_trans; [apply perm_skip; exact P1 | symmetry; exact P0].
Qed.

(** ** Variables and levels *)

Definition lv (s : snap) (v : nat) : nat := nth v (s_v2l s) 0.
Definition vl (s : snap) (l : nat) : nat := nth l (s_l2v s) 0.

Section Perm.
Variable s : snap.
Hypothesis H : WF s.

Lemma lv_spec : forall v, v < nlevels s ->
  nth_error (s_v2l s) v = Some (lv s v) /\ nth_error (s_l2v s) (lv s v) = Some v /\ lv s v < nlevels s.
Proof.
  intros v Hv. assert (Hv' : v < length (s_v2l s)) by (rewrite (wf_perm_len s H); exact Hv).
  destruct (wf_perm_v2l s H v Hv') as [l [E1 E2]]. unfold lv.
  rewrite (nth_error_nth _ _ 0 E1). split; [exact E1|]. split; [exact E2|].
  unfold nlevels. apply nth_error_Some. congruence.
Qed.

Lemma vl_spec : forall l, l < nlevels s ->
  nth_error (s_l2v s) l = Some (vl s l) /\ nth_error (s_v2l s) (vl s l) = Some l /\ vl s l < nlevels s.
Proof.
  intros l Hl. destruct (wf_perm_l2v s H l Hl) as [v [E1 E2]]. unfold vl.
  rewrite (nth_error_nth _ _ 0 E1). split; [exact E1|]. split; [exact E2|].
  unfold nlevels. rewrite <- (wf_perm_len s H). apply nth_error_Some. congruence.
Qed.

Lemma vl_lv : forall v, v < nlevels s -> vl s (lv s v) = v.
Proof.
  intros v Hv. destruct (lv_spec v Hv) as [_ [E _]]. unfold vl at 1. apply (nth_error_nth _ _ 0 E).
Qed.

Lemma lv_vl : forall l, l < nlevels s -> lv s (vl s l) = l.
Proof.
  intros l Hl. destruct (vl_spec l Hl) as [_ [E _]]. unfold lv at 1. apply (nth_error_nth _ _ 0 E).
Qed.

Lemma lv_inj : forall v w, v < nlevels s -> w < nlevels s -> lv s v = lv s w -> v = w.
Proof. intros v w Hv Hw E. rewrite <- (vl_lv v Hv), <- (vl_lv w Hw), E. reflexivity. Qed.

(** the assignment read off a choice *)
Definition asg_of (c : nat -> nat) : asg := fun v => Nat.eqb (c (lv s v)) 0.

Lemma choice_of_asg_of : forall c l, bchoice c -> l < nlevels s -> choice_of s (asg_of c) l = c l.
Proof.
  intros c l Hc Hl. unfold choice_of, asg_of. destruct (vl_spec l Hl) as [E [_ _]]. rewrite E.
  rewrite (lv_vl l Hl). pose proof (Hc l). destruct (c l) as [|[|k]]; [reflexivity | reflexivity | lia].
Qed.

(** the interpretation reads the choice only at existing levels *)
Lemma semk_ext_lt : forall f r c c', (forall l, l < nlevels s -> c l = c' l) ->
  semk s f r c = semk s f r c'.
Proof.
  induction f as [|f IH]; intros r c c' E.
  - destruct r as [t|id]; [rewrite !semk_T; reflexivity | reflexivity].
  - destruct r as [t|id]; [rewrite !semk_T; reflexivity|].
    rewrite !semk_S. destruct (find_node s id) as [nd|] eqn:En; [|reflexivity].
    rewrite <- (E (nlevel nd) (wf_level s H id nd En)).
    destruct (nth_error (nchildren nd) (c (nlevel nd))); [apply IH; exact E | reflexivity].
Qed.

Lemma den_lt : forall r phi c c', Den s r phi -> bchoice c -> bchoice c' ->
  (forall l, l < nlevels s -> c l = c' l) -> phi c = phi c'.
Proof.
  intros r phi c c' [_ D] Hc Hc' E. apply b2c_inj.
  pose proof (D c Hc) as A. pose proof (D c' Hc') as A'.
  rewrite (semk_ext_lt _ r c c' E) in A. congruence.
Qed.

Lemma den_bfun : forall r phi c, Den s r phi -> bchoice c -> phi c = bfun_of s r (asg_of c).
Proof.
  intros r phi c D Hc. rewrite (bfun_of_den s r phi D).
  apply (den_lt r phi _ _ D Hc (choice_of_bchoice s _)).
  intros l Hl. symmetry. apply choice_of_asg_of; assumption.
Qed.

Lemma choice_of_aeq : forall a a', aeq a a' -> forall l, choice_of s a l = choice_of s a' l.
Proof. intros a a' E l. unfold choice_of. destruct (nth_error (s_l2v s) l); [rewrite E|]; reflexivity. Qed.

Lemma aext_bfun_of : forall r, aext (bfun_of s r).
Proof.
  intros r a a' E. unfold bfun_of.
  rewrite (semk_ext s H _ r _ _ (fun l _ => choice_of_aeq a a' E l)). reflexivity.
Qed.

(** ** Bridges *)

Lemma quant_bridge : forall q phi ws Ls, cext phi ->
  Forall2 (fun v l => nth_error (s_l2v s) l = Some v) ws Ls ->
  forall a, quant q ws (fun a0 => phi (choice_of s a0)) a = qlevs q Ls phi (choice_of s a).
Proof.
  intros q phi ws Ls X F. induction F as [|v l ws' Ls' El F IH]; intros a; [reflexivity|].
  rewrite quant_cons, !IH. simpl qlevs. unfold qlev, cofn.
  pose proof (cext_qlevs q Ls' phi X) as G.
  assert (E1 : qlevs q Ls' phi (choice_of s (Sem.upd a v true)) = qlevs q Ls' phi (cupd (choice_of s a) l 0)).
  { apply G; [apply choice_of_bchoice | apply bchoice_upd; [apply choice_of_bchoice | lia]|].
    intros x. apply (choice_of_upd s a v l true H El x). }
  assert (E0 : qlevs q Ls' phi (choice_of s (Sem.upd a v false)) = qlevs q Ls' phi (cupd (choice_of s a) l 1)).
  { apply G; [apply choice_of_bchoice | apply bchoice_upd; [apply choice_of_bchoice | lia]|].
    intros x. apply (choice_of_upd s a v l false H El x). }
  rewrite E1, E0. reflexivity.
Qed.

Lemma restr_bridge : forall phi lits M, cext phi ->
  Forall2 (fun (p m : nat * bool) => nth_error (s_l2v s) (fst m) = Some (fst p) /\ snd p = snd m) lits M ->
  forall a, restrict_s lits (fun a0 => phi (choice_of s a0)) a = restr M phi (choice_of s a).
Proof.
  intros phi lits M X F. induction F as [|[v b] [l b'] lits' M' [El Eb] F IH]; intros a; [reflexivity|].
  simpl in El, Eb. subst b'. simpl. unfold cof, cofn. rewrite IH.
  apply (cext_restr M' phi X); [apply choice_of_bchoice | apply bchoice_upd; [apply choice_of_bchoice | apply lit_ix_lt]|].
  intros x. rewrite (choice_of_upd s a v l b H El x). destruct b; reflexivity.
Qed.

Lemma assoc_nat_map : forall (A B : Type) (g : A -> B) (l : list (nat * A)) k,
  assoc_nat (map (fun p => (fst p, g (snd p))) l) k = option_map g (assoc_nat l k).
Proof.
  intros A B g l k. induction l as [|[a b] r IH]; [reflexivity|]. simpl.
  destruct (Nat.eqb a k); [reflexivity | exact IH].
Qed.

Lemma psubst_bridge : forall phi pairs, cext phi ->
  forall a, psubst s pairs phi (choice_of s a) =
            subst_s (map (fun p => (fst p, bfun_of s (snd p))) pairs) (fun a0 => phi (choice_of s a0)) a.
Proof.
  intros phi pairs X a. unfold psubst, subst_s.
  apply X; [apply psch_bchoice; apply choice_of_bchoice | apply choice_of_bchoice|].
  intros l. unfold psch, choice_of. destruct (nth_error (s_l2v s) l) as [v|]; [|reflexivity].
  rewrite (assoc_nat_map _ _ (bfun_of s) pairs v).
  destruct (assoc_nat pairs v) as [r|]; reflexivity.
Qed.

End Perm.

(** ** What the caller passes as variable set / cube *)

(** [vars] is the conjunction of the variables [vs] *)
Definition is_varset (s : snap) (vars : ref) (vs : list nat) : Prop :=
  forall a, bfun_of s vars a = forallb (fun v => a v) vs.

(** [vars] is the conjunction of the literals [lits] *)
Definition is_cube (s : snap) (vars : ref) (lits : list (nat * bool)) : Prop :=
  forall a, bfun_of s vars a = forallb (fun p : nat * bool => Bool.eqb (a (fst p)) (snd p)) lits.

Lemma forallb_map : forall (A B : Type) (f : B -> bool) (g : A -> B) l,
  forallb f (map g l) = forallb (fun x => f (g x)) l.
Proof. intros A B f g l. induction l as [|x r IH]; [reflexivity|]. simpl. rewrite IH. reflexivity. Qed.

Lemma forallb_ext : forall (A : Type) (f g : A -> bool) l, (forall x, f x = g x) -> forallb f l = forallb g l.
Proof. intros A f g l E. induction l as [|x r IH]; [reflexivity|]. simpl. rewrite E, IH. reflexivity. Qed.

Lemma forallb_same_elems : forall (A : Type) (f : A -> bool) l l',
  (forall x, In x l <-> In x l') -> forallb f l = forallb f l'.
Proof.
  intros A f l l' E. destruct (forallb f l) eqn:E1; symmetry.
  - rewrite forallb_forall in *. intros x Hx. apply E1. apply E. exact Hx.
  - destruct (forallb f l') eqn:E2; [|reflexivity].
    rewrite forallb_forall in E2. assert (forallb f l = true); [|congruence].
    apply forallb_forall. intros x Hx. apply E2. apply E. exact Hx.
Qed.

(** the literal chain of a cube *)
Lemma cube_lchain : forall s vars lits, BddOK s -> ref_ok s vars -> is_cube s vars lits ->
  NoDup (map fst lits) -> (forall p, In p lits -> fst p < nlevels s) ->
  exists M, LChain s vars M /\
            Permutation M (map (fun p : nat * bool => (lv s (fst p), snd p)) lits).
Proof.
  intros s vars lits B Ov Hc Hnd Hlt. pose proof (bo_wf s B) as H.
  set (M0 := map (fun p : nat * bool => (lv s (fst p), snd p)) lits).
  destruct (den_exists s vars B Ov) as [phi0 D0].
  assert (D : Den s vars (cubeL M0)).
  { apply (den_ext s vars phi0 _ D0). intros c Hc0.
    rewrite (den_bfun s H vars phi0 c D0 Hc0), Hc. unfold cubeL, M0. rewrite forallb_map.
    apply forallb_ext. intros [v b]. simpl. unfold asg_of. pose proof (Hc0 (lv s v)) as Hb.
    destruct b; simpl; destruct (c (lv s v)) as [|[|k]]; try reflexivity; lia. }
  pose proof (rlevel_le s H vars).
  apply (cube_chain s B (S (nlevels s)) vars M0 ltac:(lia) D).
  - unfold M0. rewrite map_map. simpl.
    clear - Hnd Hlt H. induction lits as [|[v b] r IH]; [constructor|].
    simpl in *. inversion Hnd as [|? ? Hn Hr]; subst. constructor.
    + intros Hin. apply in_map_iff in Hin. destruct Hin as [[w b'] [E Hw]]. simpl in E.
      apply Hn. apply in_map_iff. exists (w, b'). split; [|exact Hw]. simpl.
      apply (lv_inj s H); [apply (Hlt (w, b')); right; exact Hw | apply (Hlt (v, b)); left; reflexivity | exact E].
    + apply IH; [exact Hr|]. intros p Hp. apply Hlt. right. exact Hp.
  - intros p Hp. unfold M0 in Hp. apply in_map_iff in Hp. destruct Hp as [[v b] [<- Hv]]. simpl.
    apply (lv_spec s H v (Hlt (v, b) Hv)).
Qed.

Lemma lchain_lt : forall s r M p, BddOK s -> LChain s r M -> In p M -> fst p < nlevels s.
Proof.
  intros s r M p B V. induction V as [t|id nd t e M En Ech Hv V IH|id nd t e M En Ech Hv V IH];
    intros Hin; [destruct Hin| |];
    (destruct Hin as [<-|Hin]; [simpl; apply (wf_level s (bo_wf s B) id nd En) | auto]).
Qed.

Section Top.
Variable gt : ref -> ref -> bool.
Variable C : Type.
Variable cget : C -> N -> list ref -> option ref.
Variable cadd : C -> N -> list ref -> ref -> C.
Hypothesis Hlossy : lossy cget cadd.
Variable Sg : N -> option (list (nat * ref)).

Notation QOK := (QCacheOK cget Sg).

Lemma quant_ext_q : forall (q q' : bool -> bool -> bool) vs f, (forall x y, q x y = q' x y) ->
  forall a, quant q vs f a = quant q' vs f a.
Proof.
  intros q q' vs f E. induction vs as [|v r IH]; intros a; [reflexivity|].
  rewrite !quant_cons, !IH. apply E.
Qed.

(** the variable set of the algorithms is the variable set of the caller *)
Lemma varset_chain : forall s vars vs, BddOK s -> ref_ok s vars -> is_varset s vars vs ->
  (forall v, In v vs -> v < nlevels s) ->
  exists L, VChain s vars L /\ (forall l, In l L -> l < nlevels s) /\
            Permutation (map (vl s) L) (nodup Nat.eq_dec vs).
Proof.
  intros s vars vs B Ov Hvs Hlt. pose proof (bo_wf s B) as H.
  set (ws := nodup Nat.eq_dec vs).
  set (lits := map (fun v => (v, true)) ws).
  assert (Hc : is_cube s vars lits).
  { intros a. rewrite Hvs. unfold lits. rewrite forallb_map. simpl.
    rewrite (forallb_same_elems _ (fun v => a v) vs ws) by (intros x; unfold ws; rewrite nodup_In; reflexivity).
    apply forallb_ext. intros v. destruct (a v); reflexivity. }
  assert (Hf : map fst lits = ws) by (unfold lits; rewrite map_map; simpl; apply map_id).
  destruct (cube_lchain s vars lits B Ov Hc) as [M [V P]].
  { rewrite Hf. apply NoDup_nodup. }
  { intros p Hp. unfold lits in Hp. apply in_map_iff in Hp. destruct Hp as [v [<- Hv]]. simpl.
    apply Hlt. unfold ws in Hv. rewrite nodup_In in Hv. exact Hv. }
  assert (Hpos : forall p, In p M -> snd p = true).
  { intros p Hp. apply (Permutation_in _ P) in Hp. apply in_map_iff in Hp.
    destruct Hp as [[v b] [<- Hv]]. unfold lits in Hv. apply in_map_iff in Hv.
    destruct Hv as [w [E _]]. inversion E. reflexivity. }
  exists (map fst M). split; [apply lchain_vchain; assumption|].
  split.
  - intros l Hl. apply in_map_iff in Hl. destruct Hl as [p [<- Hp]]. apply (lchain_lt s vars M p B V Hp).
  - apply (Permutation_map fst) in P. apply (Permutation_map (vl s)) in P.
    eapply Permutation_trans; [exact P|]. unfold lits. rewrite !map_map. simpl.
    rewrite (map_ext_in _ (fun v => v)); [rewrite map_id; apply Permutation_refl|].
    intros v Hv. apply (vl_lv s H). apply Hlt. unfold ws in Hv. rewrite nodup_In in Hv. exact Hv.
Qed.

Lemma forall2_vl : forall s L, WF s -> (forall l, In l L -> l < nlevels s) ->
  Forall2 (fun v l => nth_error (s_l2v s) l = Some v) (map (vl s) L) L.
Proof.
  intros s L H. induction L as [|l r IH]; intros Hlt; [constructor|]. simpl. constructor.
  - apply (vl_spec s H l). apply Hlt. left. reflexivity.
  - apply IH. intros x Hx. apply Hlt. right. exact Hx.
Qed.

(** iterated quantification over levels = quantification over the caller's variables *)
Lemma qlevs_quant : forall s q vars vs L phi F, BddOK s -> ref_ok s vars -> is_varset s vars vs ->
  (forall v, In v vs -> v < nlevels s) -> (q = QUnique -> NoDup vs) ->
  VChain s vars L -> cext phi -> aext F -> (forall a, F a = phi (choice_of s a)) ->
  forall a, qlevs (qf q) L phi (choice_of s a) = quant (qfun q) vs F a.
Proof.
  intros s q vars vs L phi F B Ov Hvs Hlt Hu V X XF EF a. pose proof (bo_wf s B) as H.
  destruct (varset_chain s vars vs B Ov Hvs Hlt) as [L' [V' [HL P]]].
  rewrite (vchain_fun s _ _ _ V V').
  rewrite <- (quant_bridge s H (qf q) phi (map (vl s) L') L' X (forall2_vl s L' H HL)).
  rewrite (quant_ext (qf q) _ _ F) by (intros a0; symmetry; apply EF).
  rewrite (quant_ext_q (qf q) (qfun q)) by (intros x y; symmetry; apply qfun_qop).
  assert (Med : medial (qfun q)) by (destruct q; simpl; auto using medial_andb, medial_orb, medial_xorb).
  rewrite (quant_perm (qfun q) _ _ F Med XF P).
  destruct q.
  - apply (quant_nodup andb vs F idem_andb XF).
  - apply (quant_nodup orb vs F idem_orb XF).
  - rewrite (nodup_fixed_point Nat.eq_dec (Hu eq_refl)). reflexivity.
Qed.

(** *** exists / forall / unique *)
Theorem quant_edge_sound : forall q s c f vars vs,
  BddOK s -> QOK s c -> ref_ok s f -> ref_ok s vars ->
  (forall v, In v vs -> v < nlevels s) -> is_varset s vars vs ->
  (q = QUnique -> NoDup vs) ->
  exists s' c' r, quant_edge gt C cget cadd s c q f vars = Some (s', c', r) /\
    BddOK s' /\ extends s s' /\ QOK s' c' /\ ref_ok s' r /\
    forall a, bfun_of s' r a = quant (qfun q) vs (bfun_of s f) a.
Proof.
  intros q s c f vars vs B Q Of Ov Hlt Hvs Hu. pose proof (bo_wf s B) as H.
  destruct (den_exists s f B Of) as [phi D]. destruct (vchain_total s B vars Ov) as [L V].
  pose proof (rlevel_le s H f).
  destruct (quant_rec_ok gt C cget cadd Hlossy Sg q (S (nlevels s)) s c f vars phi L B Q D Ov V ltac:(lia))
    as [s' [c' [r [E [B' [X [Q' D']]]]]]].
  exists s', c', r. split; [exact E|]. split; [exact B'|]. split; [exact X|]. split; [exact Q'|].
  split; [apply (proj1 D')|]. intros a.
  rewrite (bfun_of_den s' r _ D'). unfold choice_of. rewrite (ext_l2v _ _ X). fold (choice_of s a).
  apply (qlevs_quant s q vars vs L phi (bfun_of s f) B Ov Hvs Hlt Hu V (den_cext s f phi H D)
           (aext_bfun_of s H f) (bfun_of_den s f phi D)).
Qed.

(** *** apply_exists / apply_forall / apply_unique: the operator followed by the quantification *)
Theorem apply_quant_edge_sound : forall q op s c f g vars vs,
  BddOK s -> QOK s c -> ref_ok s f -> ref_ok s g -> ref_ok s vars ->
  (forall v, In v vs -> v < nlevels s) -> is_varset s vars vs ->
  (q = QUnique -> NoDup vs) ->
  exists s' c' r, apply_quant_edge gt C cget cadd s c q op f g vars = Some (s', c', r) /\
    BddOK s' /\ extends s s' /\ QOK s' c' /\ ref_ok s' r /\
    forall a, bfun_of s' r a = quant (qfun q) vs (lift2 op (bfun_of s f) (bfun_of s g)) a.
Proof.
  intros q op s c f g vars vs B Q Of Og Ov Hlt Hvs Hu. pose proof (bo_wf s B) as H.
  destruct (den_exists s f B Of) as [phi Df]. destruct (den_exists s g B Og) as [psi Dg].
  destruct (vchain_total s B vars Ov) as [L V].
  destruct (apply_quant_ok gt C cget cadd Hlossy Sg q op (S (nlevels s)) s c f g vars phi psi L
              B Q Df Dg Ov V ltac:(lia))
    as [s' [c' [r [E [B' [X [Q' D']]]]]]].
  exists s', c', r. split; [exact E|]. split; [exact B'|]. split; [exact X|]. split; [exact Q'|].
  split; [apply (proj1 D')|]. intros a.
  rewrite (bfun_of_den s' r _ D'). unfold choice_of. rewrite (ext_l2v _ _ X). fold (choice_of s a).
  apply (qlevs_quant s q vars vs L _ (lift2 op (bfun_of s f) (bfun_of s g)) B Ov Hvs Hlt Hu V).
  - apply (cext_indep _ 0). intros x y Hx Hy Exy.
    rewrite (indep_cext phi (den_cext s f phi H Df) x y Hx Hy Exy),
            (indep_cext psi (den_cext s g psi H Dg) x y Hx Hy Exy). reflexivity.
  - apply aext_lift2; apply (aext_bfun_of s H).
  - intros a0. unfold lift2. rewrite (bfun_of_den s f phi Df), (bfun_of_den s g psi Dg). reflexivity.
Qed.

(** *** restrict *)
Theorem restrict_edge_sound : forall s c f vars lits,
  BddOK s -> QOK s c -> ref_ok s f -> ref_ok s vars ->
  NoDup (map fst lits) -> (forall p, In p lits -> fst p < nlevels s) -> is_cube s vars lits ->
  exists s' c' r, restrict_edge C cget cadd s c f vars = Some (s', c', r) /\
    BddOK s' /\ extends s s' /\ QOK s' c' /\ ref_ok s' r /\
    forall a, bfun_of s' r a = restrict_s lits (bfun_of s f) a.
Proof.
  intros s c f vars lits B Q Of Ov Hnd Hlt Hc. pose proof (bo_wf s B) as H.
  destruct (den_exists s f B Of) as [phi D].
  destruct (cube_lchain s vars lits B Ov Hc Hnd Hlt) as [M [V P]].
  pose proof (rlevel_le s H f).
  destruct (restrict_ok C cget cadd Hlossy Sg (S (nlevels s)) s c f vars phi M B Q D Ov V ltac:(lia))
    as [s' [c' [r [E [B' [X [Q' D']]]]]]].
  exists s', c', r. split; [exact E|]. split; [exact B'|]. split; [exact X|]. split; [exact Q'|].
  split; [apply (proj1 D')|]. intros a.
  rewrite (bfun_of_den s' r _ D'). unfold choice_of. rewrite (ext_l2v _ _ X). fold (choice_of s a).
  set (lits' := map (fun m : nat * bool => (vl s (fst m), snd m)) M).
  assert (F2 : Forall2 (fun (p m : nat * bool) => nth_error (s_l2v s) (fst m) = Some (fst p) /\ snd p = snd m)
                       lits' M).
  { unfold lits'. assert (HM : forall p, In p M -> fst p < nlevels s) by (intros p Hp; apply (lchain_lt s vars M p B V Hp)).
    clear - HM H. induction M as [|m r IH]; [constructor|]. simpl. constructor.
    - simpl. split; [apply (vl_spec s H (fst m)); apply HM; left; reflexivity | reflexivity].
    - apply IH. intros p Hp. apply HM. right. exact Hp. }
  rewrite <- (restr_bridge s H phi lits' M (den_cext s f phi H D) F2 a).
  rewrite (restrict_s_ext lits' _ (bfun_of s f)) by (intros a0; symmetry; apply (bfun_of_den s f phi D)).
  assert (P' : Permutation lits' lits).
  { unfold lits'. apply (Permutation_map (fun m : nat * bool => (vl s (fst m), snd m))) in P.
    eapply Permutation_trans; [exact P|]. rewrite map_map. simpl.
    rewrite (map_ext_in _ (fun p => p)); [rewrite map_id; apply Permutation_refl|].
    intros [v b] Hv. simpl. rewrite (vl_lv s H v (Hlt (v, b) Hv)). reflexivity. }
  apply (restrict_s_perm lits' lits (bfun_of s f) (aext_bfun_of s H f)); [|exact P'].
  eapply Permutation_NoDup; [apply Permutation_map; symmetry; exact P' | exact Hnd].
Qed.

(** *** substitute *)
Theorem substitute_edge_sound : forall s c f pairs id,
  BddOK s -> QOK s c -> ref_ok s f -> NoDup (map fst pairs) ->
  (forall v r, In (v, r) pairs -> v < nlevels s /\ ref_ok s r) -> Sg id = Some pairs ->
  exists s' c' r, substitute_edge gt C cget cadd s c f pairs id = Some (s', c', r) /\
    BddOK s' /\ extends s s' /\ QOK s' c' /\ ref_ok s' r /\
    forall a, bfun_of s' r a =
              subst_s (map (fun p => (fst p, bfun_of s (snd p))) pairs) (bfun_of s f) a.
Proof.
  intros s c f pairs id B Q Of Hnd Hp Es. pose proof (bo_wf s B) as H.
  destruct (den_exists s f B Of) as [phi D].
  destruct (substitute_edge_ok gt C cget cadd Hlossy Sg s c f pairs id phi B Q D Hnd Hp Es)
    as [s' [c' [r [E [B' [X [Q' D']]]]]]].
  exists s', c', r. split; [exact E|]. split; [exact B'|]. split; [exact X|]. split; [exact Q'|].
  split; [apply (proj1 D')|]. intros a.
  rewrite (bfun_of_den s' r _ D'). unfold choice_of. rewrite (ext_l2v _ _ X). fold (choice_of s a).
  rewrite (psubst_bridge s phi pairs (den_cext s f phi H D) a).
  apply subst_s_ext. intros a0. symmetry. apply (bfun_of_den s f phi D).
Qed.

End Top.

(** ** The six quantifier entry points in terms of [exists_s] / [forall_s] / [unique_s] *)

Section Instances.
Variable gt : ref -> ref -> bool.
Variable C : Type.
Variable cget : C -> N -> list ref -> option ref.
Variable cadd : C -> N -> list ref -> ref -> C.
Hypothesis Hlossy : lossy cget cadd.
Variable Sg : N -> option (list (nat * ref)).

Notation QOK := (QCacheOK cget Sg).

Theorem exists_edge_sound : forall s c f vars vs,
  BddOK s -> QOK s c -> ref_ok s f -> ref_ok s vars ->
  (forall v, In v vs -> v < nlevels s) -> is_varset s vars vs ->
  exists s' c' r, quant_edge gt C cget cadd s c QExists f vars = Some (s', c', r) /\
    BddOK s' /\ extends s s' /\ QOK s' c' /\ ref_ok s' r /\
    forall a, bfun_of s' r a = exists_s vs (bfun_of s f) a.
Proof.
  intros s c f vars vs B Q Of Ov Hlt Hvs.
  apply (quant_edge_sound gt C cget cadd Hlossy Sg QExists s c f vars vs B Q Of Ov Hlt Hvs). discriminate.
Qed.

Theorem forall_edge_sound : forall s c f vars vs,
  BddOK s -> QOK s c -> ref_ok s f -> ref_ok s vars ->
  (forall v, In v vs -> v < nlevels s) -> is_varset s vars vs ->
  exists s' c' r, quant_edge gt C cget cadd s c QForall f vars = Some (s', c', r) /\
    BddOK s' /\ extends s s' /\ QOK s' c' /\ ref_ok s' r /\
    forall a, bfun_of s' r a = forall_s vs (bfun_of s f) a.
Proof.
  intros s c f vars vs B Q Of Ov Hlt Hvs.
  apply (quant_edge_sound gt C cget cadd Hlossy Sg QForall s c f vars vs B Q Of Ov Hlt Hvs). discriminate.
Qed.

Theorem unique_edge_sound : forall s c f vars vs,
  BddOK s -> QOK s c -> ref_ok s f -> ref_ok s vars ->
  (forall v, In v vs -> v < nlevels s) -> is_varset s vars vs -> NoDup vs ->
  exists s' c' r, quant_edge gt C cget cadd s c QUnique f vars = Some (s', c', r) /\
    BddOK s' /\ extends s s' /\ QOK s' c' /\ ref_ok s' r /\
    forall a, bfun_of s' r a = unique_s vs (bfun_of s f) a.
Proof.
  intros s c f vars vs B Q Of Ov Hlt Hvs Hnd.
  apply (quant_edge_sound gt C cget cadd Hlossy Sg QUnique s c f vars vs B Q Of Ov Hlt Hvs). intros _. exact Hnd.
Qed.

Theorem apply_exists_edge_sound : forall op s c f g vars vs,
  BddOK s -> QOK s c -> ref_ok s f -> ref_ok s g -> ref_ok s vars ->
  (forall v, In v vs -> v < nlevels s) -> is_varset s vars vs ->
  exists s' c' r, apply_quant_edge gt C cget cadd s c QExists op f g vars = Some (s', c', r) /\
    BddOK s' /\ extends s s' /\ QOK s' c' /\ ref_ok s' r /\
    forall a, bfun_of s' r a = exists_s vs (lift2 op (bfun_of s f) (bfun_of s g)) a.
Proof.
  intros op s c f g vars vs B Q Of Og Ov Hlt Hvs.
  apply (apply_quant_edge_sound gt C cget cadd Hlossy Sg QExists op s c f g vars vs B Q Of Og Ov Hlt Hvs).
  discriminate.
Qed.

Theorem apply_forall_edge_sound : forall op s c f g vars vs,
  BddOK s -> QOK s c -> ref_ok s f -> ref_ok s g -> ref_ok s vars ->
  (forall v, In v vs -> v < nlevels s) -> is_varset s vars vs ->
  exists s' c' r, apply_quant_edge gt C cget cadd s c QForall op f g vars = Some (s', c', r) /\
    BddOK s' /\ extends s s' /\ QOK s' c' /\ ref_ok s' r /\
    forall a, bfun_of s' r a = forall_s vs (lift2 op (bfun_of s f) (bfun_of s g)) a.
Proof.
  intros op s c f g vars vs B Q Of Og Ov Hlt Hvs.
  apply (apply_quant_edge_sound gt C cget cadd Hlossy Sg QForall op s c f g vars vs B Q Of Og Ov Hlt Hvs).
  discriminate.
Qed.

Theorem apply_unique_edge_sound : forall op s c f g vars vs,
  BddOK s -> QOK s c -> ref_ok s f -> ref_ok s g -> ref_ok s vars ->
  (forall v, In v vs -> v < nlevels s) -> is_varset s vars vs -> NoDup vs ->
  exists s' c' r, apply_quant_edge gt C cget cadd s c QUnique op f g vars = Some (s', c', r) /\
    BddOK s' /\ extends s s' /\ QOK s' c' /\ ref_ok s' r /\
    forall a, bfun_of s' r a = unique_s vs (lift2 op (bfun_of s f) (bfun_of s g)) a.
Proof.
  intros op s c f g vars vs B Q Of Og Ov Hlt Hvs Hnd.
  apply (apply_quant_edge_sound gt C cget cadd Hlossy Sg QUnique op s c f g vars vs B Q Of Og Ov Hlt Hvs).
  intros _. exact Hnd.
Qed.

(** the fused forms return what the plain operator followed by the plain
    quantification returns: the same reference (canonicity), whatever the two
    caches contain *)
Theorem apply_quant_is_apply_then_quant : forall q op s c1 c2 f g vars vs,
  BddOK s -> QOK s c1 -> QOK s c2 -> ref_ok s f -> ref_ok s g -> ref_ok s vars ->
  (forall v, In v vs -> v < nlevels s) -> is_varset s vars vs -> (q = QUnique -> NoDup vs) ->
  exists s1 c1' r1 s2 c2' h s3 c3' r2,
    apply_quant_edge gt C cget cadd s c1 q op f g vars = Some (s1, c1', r1) /\
    apply_bin gt C cget cadd (S (nlevels s)) s c2 op f g = Some (s2, c2', h) /\
    quant_edge gt C cget cadd s2 c2' q h vars = Some (s3, c3', r2) /\
    forall a, bfun_of s1 r1 a = bfun_of s3 r2 a.
Proof.
  intros q op s c1 c2 f g vars vs B Q1 Q2 Of Og Ov Hlt Hvs Hu. pose proof (bo_wf s B) as H.
  destruct (apply_quant_edge_sound gt C cget cadd Hlossy Sg q op s c1 f g vars vs B Q1 Of Og Ov Hlt Hvs Hu)
    as [s1 [c1' [r1 [E1 [B1 [X1 [_ [_ S1]]]]]]]].
  destruct (den_exists s f B Of) as [phi Df]. destruct (den_exists s g B Og) as [psi Dg].
  destruct (q_apply_bin gt C cget cadd Hlossy Sg op s c2 f g phi psi B Q2 Df Dg)
    as [s2 [c2' [h [E2 [B2 [X2 [Q2' D2]]]]]]].
  assert (Hvs2 : is_varset s2 vars vs).
  { intros a. rewrite <- Hvs. unfold bfun_of, FUEL, choice_of.
    rewrite (ext_nlevels _ _ X2), (ext_l2v _ _ X2), (semk_extends s s2 H X2 _ vars _ Ov). reflexivity. }
  assert (Hlt2 : forall v, In v vs -> v < nlevels s2) by (intros v Hv; rewrite (ext_nlevels _ _ X2); auto).
  destruct (quant_edge_sound gt C cget cadd Hlossy Sg q s2 c2' h vars vs B2 Q2' (proj1 D2)
              (ext_ref_ok _ _ _ X2 Ov) Hlt2 Hvs2 Hu)
    as [s3 [c3' [r2 [E3 [_ [_ [_ [_ S3]]]]]]]].
  exists s1, c1', r1, s2, c2', h, s3, c3', r2. repeat (split; [assumption|]).
  intros a. rewrite S1, S3. apply quant_ext. intros a0. unfold lift2.
  rewrite (bfun_of_den s2 h _ D2), (bfun_of_den s f phi Df), (bfun_of_den s g psi Dg).
  unfold choice_of. rewrite (ext_l2v _ _ X2). reflexivity.
Qed.

End Instances.

(** ** The same theorems with the caller's reading of [vars] quantified after
    the run: the algorithms terminate for *every* reference passed as variable
    set / cube; whenever that reference denotes a variable set / cube, the
    result is the spec function *)

Section Total.
Variable gt : ref -> ref -> bool.
Variable C : Type.
Variable cget : C -> N -> list ref -> option ref.
Variable cadd : C -> N -> list ref -> ref -> C.
Hypothesis Hlossy : lossy cget cadd.
Variable Sg : N -> option (list (nat * ref)).

Notation QOK := (QCacheOK cget Sg).

Theorem quant_edge_total : forall q s c f vars,
  BddOK s -> QOK s c -> ref_ok s f -> ref_ok s vars ->
  exists s' c' r, quant_edge gt C cget cadd s c q f vars = Some (s', c', r) /\
    BddOK s' /\ extends s s' /\ QOK s' c' /\ ref_ok s' r /\
    forall vs, (forall v, In v vs -> v < nlevels s) -> is_varset s vars vs -> (q = QUnique -> NoDup vs) ->
    forall a, bfun_of s' r a = quant (qfun q) vs (bfun_of s f) a.
Proof.
  intros q s c f vars B Q Of Ov. pose proof (bo_wf s B) as H.
  destruct (den_exists s f B Of) as [phi D]. destruct (vchain_total s B vars Ov) as [L V].
  pose proof (rlevel_le s H f).
  destruct (quant_rec_ok gt C cget cadd Hlossy Sg q (S (nlevels s)) s c f vars phi L B Q D Ov V ltac:(lia))
    as [s' [c' [r [E [B' [X [Q' D']]]]]]].
  exists s', c', r. split; [exact E|]. split; [exact B'|]. split; [exact X|]. split; [exact Q'|].
  split; [apply (proj1 D')|]. intros vs Hlt Hvs Hu a.
  rewrite (bfun_of_den s' r _ D'). unfold choice_of. rewrite (ext_l2v _ _ X). fold (choice_of s a).
  apply (qlevs_quant s q vars vs L phi (bfun_of s f) B Ov Hvs Hlt Hu V (den_cext s f phi H D)
           (aext_bfun_of s H f) (bfun_of_den s f phi D)).
Qed.

Theorem apply_quant_edge_total : forall q op s c f g vars,
  BddOK s -> QOK s c -> ref_ok s f -> ref_ok s g -> ref_ok s vars ->
  exists s' c' r, apply_quant_edge gt C cget cadd s c q op f g vars = Some (s', c', r) /\
    BddOK s' /\ extends s s' /\ QOK s' c' /\ ref_ok s' r /\
    forall vs, (forall v, In v vs -> v < nlevels s) -> is_varset s vars vs -> (q = QUnique -> NoDup vs) ->
    forall a, bfun_of s' r a = quant (qfun q) vs (lift2 op (bfun_of s f) (bfun_of s g)) a.
Proof.
  intros q op s c f g vars B Q Of Og Ov. pose proof (bo_wf s B) as H.
  destruct (den_exists s f B Of) as [phi Df]. destruct (den_exists s g B Og) as [psi Dg].
  destruct (vchain_total s B vars Ov) as [L V].
  destruct (apply_quant_ok gt C cget cadd Hlossy Sg q op (S (nlevels s)) s c f g vars phi psi L
              B Q Df Dg Ov V ltac:(lia))
    as [s' [c' [r [E [B' [X [Q' D']]]]]]].
  exists s', c', r. split; [exact E|]. split; [exact B'|]. split; [exact X|]. split; [exact Q'|].
  split; [apply (proj1 D')|]. intros vs Hlt Hvs Hu a.
  rewrite (bfun_of_den s' r _ D'). unfold choice_of. rewrite (ext_l2v _ _ X). fold (choice_of s a).
  apply (qlevs_quant s q vars vs L _ (lift2 op (bfun_of s f) (bfun_of s g)) B Ov Hvs Hlt Hu V).
  - apply (cext_indep _ 0). intros x y Hx Hy Exy.
    rewrite (indep_cext phi (den_cext s f phi H Df) x y Hx Hy Exy),
            (indep_cext psi (den_cext s g psi H Dg) x y Hx Hy Exy). reflexivity.
  - apply aext_lift2; apply (aext_bfun_of s H).
  - intros a0. unfold lift2. rewrite (bfun_of_den s f phi Df), (bfun_of_den s g psi Dg). reflexivity.
Qed.

Theorem restrict_edge_total : forall s c f vars,
  BddOK s -> QOK s c -> ref_ok s f -> ref_ok s vars ->
  exists s' c' r, restrict_edge C cget cadd s c f vars = Some (s', c', r) /\
    BddOK s' /\ extends s s' /\ QOK s' c' /\ ref_ok s' r /\
    forall lits, NoDup (map fst lits) -> (forall p, In p lits -> fst p < nlevels s) -> is_cube s vars lits ->
    forall a, bfun_of s' r a = restrict_s lits (bfun_of s f) a.
Proof.
  intros s c f vars B Q Of Ov. pose proof (bo_wf s B) as H.
  destruct (den_exists s f B Of) as [phi D]. destruct (lchain_total s B vars Ov) as [M V].
  pose proof (rlevel_le s H f).
  destruct (restrict_ok C cget cadd Hlossy Sg (S (nlevels s)) s c f vars phi M B Q D Ov V ltac:(lia))
    as [s' [c' [r [E [B' [X [Q' D']]]]]]].
  exists s', c', r. split; [exact E|]. split; [exact B'|]. split; [exact X|]. split; [exact Q'|].
  split; [apply (proj1 D')|]. intros lits Hnd Hlt Hc a.
  (* the run is deterministic: reuse the theorem for this reading of [vars] *)
  destruct (restrict_edge_sound C cget cadd Hlossy Sg s c f vars lits B Q Of Ov Hnd Hlt Hc)
    as [s2 [c2 [r2 [E2 [_ [_ [_ [_ S2]]]]]]]].
  unfold restrict_edge in E2. rewrite E in E2. inversion E2; subst. apply S2.
Qed.

End Total.
