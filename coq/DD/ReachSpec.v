(** * What [count_reach] counts, and what an [iso] relates

    - [count_reach_spec]: the work-list traversal [reach] (DD/Table.v) with the
      fuel [count_reach] gives it visits exactly the references reachable
      from the edge through child edges ([reachable], DD/TableProofs.v), each
      once: [count_reach s e] is the number of reachable stored inner nodes
      plus the number of reachable terminals;
    - [bisim_reachable], [iso_reachable]: a bisimulation / [iso]
      (DD/BuildCanonProofs.v) that relates two roots is total and onto between
      the two reachable sub-diagrams - together with its one-to-one clauses
      it is a graph isomorphism between them. *)

From Coq Require Import List NArith PArith Bool Arith Lia FMapPositive.
From OxiVerif Require Import DD.Table DD.TableProofs DD.Iso DD.BuildCanonProofs.
Import ListNotations.

(** ** The traversal *)

Section ReachSpec.
Variable s : snap.
Hypothesis Har : arity_ok s.

Definition seenN (sn : PositiveMap.t unit) (id : positive) : Prop := PositiveMap.find id sn <> None.

(** [x] needs no further work: a recorded terminal, a marked node, or a
    dangling node reference (skipped by [reach]; none in a well-formed table) *)
Definition rdone (sn : PositiveMap.t unit) (st : list N) (x : ref) : Prop :=
  match x with
  | RT t => In t st
  | RN id => seenN sn id \/ find_node s id = None
  end.

Section Inv.
(** a set of references that is closed under taking children *)
Variable P : ref -> Prop.
Hypothesis Pchild : forall id nd e, P (RN id) -> find_node s id = Some nd -> In e (nchildren nd) -> P (eref e).

Record rinv (todo : list ref) (sn : PositiveMap.t unit) (st : list N) : Prop := mkRinv {
  ri_todo : forall x, In x todo -> P x;
  ri_sn : forall id, seenN sn id -> P (RN id) /\ find_node s id <> None;
  ri_st : forall t, In t st -> P (RT t);
  ri_nodup : NoDup st;
  ri_closed : forall id nd e, seenN sn id -> find_node s id = Some nd -> In e (nchildren nd) ->
    In (eref e) todo \/ rdone sn st (eref e)
}.

Lemma rinv_seen_sub : forall todo sn st, rinv todo sn st -> seen_sub s sn.
Proof. intros todo sn st I k Hk. apply (ri_sn _ _ _ I k Hk). Qed.

Lemma seenN_add : forall sn id k, seenN (PositiveMap.add id tt sn) k <-> k = id \/ seenN sn k.
Proof.
  intros sn id k. unfold seenN. destruct (Pos.eq_dec k id) as [->|Hne].
  - rewrite PositiveMap.gss. split; [auto | discriminate].
  - rewrite PositiveMap.gso by exact Hne. split; [auto | intros [E|E]; [contradiction | exact E]].
Qed.

Lemma reach_post : forall fuel todo sn st, mu s todo sn <= fuel -> rinv todo sn st ->
  rinv [] (fst (reach s fuel todo sn st)) (snd (reach s fuel todo sn st)) /\
  (forall x, rdone sn st x -> rdone (fst (reach s fuel todo sn st)) (snd (reach s fuel todo sn st)) x) /\
  (forall x, In x todo -> rdone (fst (reach s fuel todo sn st)) (snd (reach s fuel todo sn st)) x).
Proof.
  induction fuel as [|f IH]; intros todo sn st Hmu I.
  - assert (todo = []) by (unfold mu in Hmu; destruct todo; [reflexivity | cbn [length] in Hmu; nia]).
    subst todo. simpl. split; [exact I|]. split; [auto | intros x []].
  - rewrite reach_S. destruct todo as [|[t|id] r].
    + simpl. split; [exact I|]. split; [auto | intros x []].
    + (* a terminal *)
      assert (Hmu' : mu s r sn <= f) by (unfold mu in *; cbn [length] in *; nia).
      destruct (existsb (N.eqb t) st) eqn:Et.
      * apply existsb_N_In in Et.
        assert (I' : rinv r sn st).
        { constructor; try apply I.
          - intros x Hx. apply (ri_todo _ _ _ I). right. exact Hx.
          - intros k nd e Hk En He. destruct (ri_closed _ _ _ I k nd e Hk En He) as [[Hx|Hx]|Hx]; auto.
            right. rewrite <- Hx. exact Et. }
        destruct (IH r sn st Hmu' I') as [A [B C]]. split; [exact A|]. split; [exact B|].
        intros x [<-|Hx]; [apply B; exact Et | apply C; exact Hx].
      * assert (Hn : ~ In t st) by (intros Hin; apply existsb_N_In in Hin; congruence).
        assert (I' : rinv r sn (t :: st)).
        { constructor.
          - intros x Hx. apply (ri_todo _ _ _ I). right. exact Hx.
          - apply I.
          - intros u [<-|Hu]; [apply (ri_todo _ _ _ I); left; reflexivity | apply (ri_st _ _ _ I u Hu)].
          - constructor; [exact Hn | apply I].
          - intros k nd e Hk En He. destruct (ri_closed _ _ _ I k nd e Hk En He) as [[Hx|Hx]|Hx].
            + right. rewrite <- Hx. left. reflexivity.
            + left. exact Hx.
            + right. destruct (eref e); simpl in *; auto. }
        destruct (IH r sn (t :: st) Hmu' I') as [A [B C]]. split; [exact A|].
        assert (Hd : forall x, rdone sn st x -> rdone sn (t :: st) x)
          by (intros [u|k]; simpl; auto).
        split; [intros x Hx; apply B, Hd, Hx|].
        intros x [<-|Hx]; [apply B; left; reflexivity | apply C; exact Hx].
    + (* an inner node *)
      assert (Hmu' : mu s r sn <= f) by (unfold mu in *; cbn [length] in *; nia).
      assert (Istep : rdone sn st (RN id) -> rinv r sn st).
      { intros Hd. constructor; try apply I.
        - intros x Hx. apply (ri_todo _ _ _ I). right. exact Hx.
        - intros k nd e Hk En He. destruct (ri_closed _ _ _ I k nd e Hk En He) as [[Hx|Hx]|Hx]; auto.
          right. rewrite <- Hx. exact Hd. }
      destruct (PositiveMap.find id sn) as [u|] eqn:Es.
      * assert (Hd : rdone sn st (RN id)) by (left; unfold seenN; congruence).
        destruct (IH r sn st Hmu' (Istep Hd)) as [A [B C]]. split; [exact A|]. split; [exact B|].
        intros x [<-|Hx]; [apply B; exact Hd | apply C; exact Hx].
      * destruct (find_node s id) as [nd|] eqn:En.
        -- (* expand *)
           assert (Hsub : seen_sub s sn) by (apply (rinv_seen_sub _ _ _ I)).
           assert (Hlt : PositiveMap.cardinal sn < PositiveMap.cardinal (s_nodes s)).
           { apply (card_lt unit node sn (s_nodes s) id tt); [exact Hsub | | exact Es].
             unfold find_node in En. congruence. }
           assert (Hmu2 : mu s (map eref (nchildren nd) ++ r) (PositiveMap.add id tt sn) <= f).
           { unfold mu in *. rewrite app_length, map_length, (card_add_new unit sn id tt Es).
             cbn [length] in Hmu. pose proof (Har id nd En) as Hl.
             set (c := PositiveMap.cardinal sn) in *. set (n := PositiveMap.cardinal (s_nodes s)) in *.
             replace (n - c) with (S (n - S c)) in Hmu by lia. rewrite Nat.mul_succ_r in Hmu. lia. }
           assert (Pid : P (RN id)) by (apply (ri_todo _ _ _ I); left; reflexivity).
           assert (Hd : forall x, rdone sn st x -> rdone (PositiveMap.add id tt sn) st x).
           { intros [u|k]; simpl; [auto|]. intros [Hk|Hk]; [left; apply seenN_add; auto | auto]. }
           assert (I' : rinv (map eref (nchildren nd) ++ r) (PositiveMap.add id tt sn) st).
           { constructor.
             - intros x Hx. apply in_app_or in Hx. destruct Hx as [Hx|Hx].
               + apply in_map_iff in Hx. destruct Hx as [e [<- He]]. apply (Pchild id nd e Pid En He).
               + apply (ri_todo _ _ _ I). right. exact Hx.
             - intros k Hk. apply seenN_add in Hk. destruct Hk as [->|Hk].
               + split; [exact Pid | congruence].
               + apply (ri_sn _ _ _ I k Hk).
             - apply I.
             - apply I.
             - intros k nd' e Hk En' He. apply seenN_add in Hk. destruct Hk as [->|Hk].
               + rewrite En in En'. inversion En'; subst nd'. left. apply in_or_app. left.
                 apply in_map. exact He.
               + destruct (ri_closed _ _ _ I k nd' e Hk En' He) as [[Hx|Hx]|Hx].
                 * right. rewrite <- Hx. left. apply seenN_add. auto.
                 * left. apply in_or_app. right. exact Hx.
                 * right. apply Hd. exact Hx. }
           destruct (IH _ _ st Hmu2 I') as [A [B C]]. split; [exact A|].
           split; [intros x Hx; apply B, Hd, Hx|].
           intros x [<-|Hx]; [apply B; left; apply seenN_add; auto | apply C; apply in_or_app; auto].
        -- (* dangling reference: skipped *)
           assert (Hd : rdone sn st (RN id)) by (right; exact En).
           destruct (IH r sn st Hmu' (Istep Hd)) as [A [B C]]. split; [exact A|]. split; [exact B|].
           intros x [<-|Hx]; [apply B; exact Hd | apply C; exact Hx].
Qed.

End Inv.

Lemma keys_seen : forall (sn : PositiveMap.t unit) id,
  In id (map fst (PositiveMap.elements sn)) <-> seenN sn id.
Proof.
  intros sn id. unfold seenN. split.
  - intros Hin. apply in_map_iff in Hin. destruct Hin as [[k v] [<- Hin]]. simpl.
    apply PositiveMap.elements_complete in Hin. congruence.
  - intros Hf. destruct (PositiveMap.find id sn) as [v|] eqn:E; [|congruence].
    apply PositiveMap.elements_correct in E. apply in_map_iff. exists (id, v). auto.
Qed.

(** [count_reach s e] = number of stored inner nodes reachable from [e] +
    number of terminals reachable from [e] *)
Theorem count_reach_spec : forall e, exists (ns : list positive) (ts : list N),
  NoDup ns /\ NoDup ts /\
  (forall id, In id ns <-> reachable s [eref e] (RN id) /\ find_node s id <> None) /\
  (forall t, In t ts <-> reachable s [eref e] (RT t)) /\
  count_reach s e = N.of_nat (length ns + length ts).
Proof.
  intros e. set (P := reachable s [eref e]).
  assert (Pchild : forall id nd x, P (RN id) -> find_node s id = Some nd -> In x (nchildren nd) -> P (eref x))
    by (intros id nd x Hp En Hx; apply (reach_child s [eref e] id nd x Hp En Hx)).
  set (F := let n := PositiveMap.cardinal (s_nodes s) in
            let fuel := S (n * S (arity (s_kind s)) + length (s_terms s) + 1) in fuel + fuel).
  assert (Hmu : mu s [eref e] (PositiveMap.empty unit) <= F).
  { unfold mu, F. simpl length. change (PositiveMap.cardinal (PositiveMap.empty unit)) with 0.
    rewrite Nat.sub_0_r, (Nat.mul_comm (S (arity (s_kind s)))). cbv zeta. lia. }
  assert (I0 : rinv P [eref e] (PositiveMap.empty unit) []).
  { constructor.
    - intros x [<-|[]]. apply reach_root. left. reflexivity.
    - intros id Hid. unfold seenN in Hid. rewrite PositiveMap.gempty in Hid. congruence.
    - intros t [].
    - constructor.
    - intros id nd x Hid. unfold seenN in Hid. rewrite PositiveMap.gempty in Hid. congruence. }
  destruct (reach_post P Pchild F [eref e] (PositiveMap.empty unit) [] Hmu I0) as [A [_ C]].
  assert (Hc : count_reach s e =
               N.of_nat (PositiveMap.cardinal (fst (reach s F [eref e] (PositiveMap.empty unit) []))
                         + length (snd (reach s F [eref e] (PositiveMap.empty unit) [])))).
  { unfold count_reach. fold F. destruct (reach s F [eref e] (PositiveMap.empty unit) []). reflexivity. }
  destruct (reach s F [eref e] (PositiveMap.empty unit) []) as [sn st]. simpl fst in *. simpl snd in *.
  (* everything reachable is done *)
  assert (Hall : forall x, P x -> rdone sn st x).
  { intros x Hx. induction Hx as [r Hr|id nd x Hp IHp En Hx].
    - apply C. exact Hr.
    - destruct IHp as [Hs|Hn]; [|congruence].
      destruct (ri_closed P _ _ _ A id nd x Hs En Hx) as [[]|Hd]. exact Hd. }
  exists (map fst (PositiveMap.elements sn)), st.
  split; [apply elements_keys_nodup|]. split; [apply (ri_nodup P _ _ _ A)|].
  split; [|split].
  - intros id. rewrite keys_seen. split; [apply (ri_sn P _ _ _ A)|].
    intros [Hp Hf]. destruct (Hall _ Hp) as [Hs|Hn]; [exact Hs | contradiction].
  - intros t. split; [apply (ri_st P _ _ _ A) | apply (Hall (RT t))].
  - rewrite Hc, map_length, PositiveMap.cardinal_1. reflexivity.
Qed.

End ReachSpec.

(** ** Bisimulations are total and onto between the reachable sub-diagrams *)

Lemma Forall2_In_l : forall (A B : Type) (R : A -> B -> Prop) l1 l2 x,
  Forall2 R l1 l2 -> In x l1 -> exists y, In y l2 /\ R x y.
Proof.
  intros A B R l1 l2 x HF. induction HF as [|a b l1 l2 Hab HF IH]; intros Hin; [destruct Hin|].
  destruct Hin as [<-|Hin]; [exists b; split; [left; reflexivity | exact Hab]|].
  destruct (IH Hin) as [y [Hy Hr]]. exists y. split; [right; exact Hy | exact Hr].
Qed.

Lemma Forall2_swap : forall (A B : Type) (R : A -> B -> Prop) l1 l2,
  Forall2 R l1 l2 -> Forall2 (fun b a => R a b) l2 l1.
Proof. intros A B R l1 l2 HF. induction HF; constructor; auto. Qed.

Lemma bisim_swap : forall s1 s2 R, bisim s1 s2 R -> bisim s2 s1 (fun b a => R a b).
Proof.
  intros s1 s2 R HB. constructor.
  - intros r2 r1 HR. pose proof (bs_shape s1 s2 R HB r1 r2 HR) as Hs.
    destruct r1, r2; auto.
  - intros b a HR. pose proof (bs_node s1 s2 R HB a b HR) as Hn.
    destruct (find_node s1 a), (find_node s2 b); auto. apply Forall2_swap. exact Hn.
  - intros b a b' a' H1 H2. pose proof (bs_inj_n s1 s2 R HB a b a' b' H1 H2). tauto.
  - intros u t u' t' H1 H2. pose proof (bs_inj_t s1 s2 R HB t u t' u' H1 H2). tauto.
Qed.

Theorem bisim_reachable : forall s1 s2 R, bisim s1 s2 R -> forall r1 r2, R r1 r2 ->
  forall x, reachable s1 [r1] x -> exists y, reachable s2 [r2] y /\ R x y.
Proof.
  intros s1 s2 R HB r1 r2 HR x Hx. induction Hx as [r Hr|id nd e Hp IH En He].
  - destruct Hr as [<-|[]]. exists r2. split; [apply reach_root; left; reflexivity | exact HR].
  - destruct IH as [y [Hy Rxy]].
    pose proof (bs_shape s1 s2 R HB _ _ Rxy) as Hs. destruct y as [u|b]; [contradiction|].
    pose proof (bs_node s1 s2 R HB id b Rxy) as Hn. rewrite En in Hn.
    destruct (find_node s2 b) as [n2|] eqn:E2; [|contradiction].
    destruct (Forall2_In_l _ _ R _ _ (eref e) Hn (in_map eref _ _ He)) as [y' [Hy' Ry']].
    apply in_map_iff in Hy'. destruct Hy' as [e2 [<- He2]].
    exists (eref e2). split; [apply (reach_child s2 [r2] b n2 e2 Hy E2 He2) | exact Ry'].
Qed.

(** an [iso] relating two roots restricts to an isomorphism between the two
    reachable sub-diagrams: every reachable reference on either side has a
    partner (unique by the one-to-one clauses of [bisim]) on the other side *)
Theorem iso_reachable : forall s1 s2 R, iso s1 s2 R -> forall r1 r2, R r1 r2 ->
  (forall x, reachable s1 [r1] x -> exists y, reachable s2 [r2] y /\ R x y) /\
  (forall y, reachable s2 [r2] y -> exists x, reachable s1 [r1] x /\ R x y).
Proof.
  intros s1 s2 R I r1 r2 HR. pose proof (iso_bisim _ _ _ I) as HB. split.
  - apply (bisim_reachable s1 s2 R HB r1 r2 HR).
  - apply (bisim_reachable s2 s1 _ (bisim_swap s1 s2 R HB) r2 r1 HR).
Qed.

(** the partner is unique *)
Theorem bisim_functional : forall s1 s2 R, bisim s1 s2 R ->
  forall x y y', R x y -> R x y' -> y = y'.
Proof.
  intros s1 s2 R HB x y y' H1 H2.
  pose proof (bs_shape s1 s2 R HB _ _ H1) as S1. pose proof (bs_shape s1 s2 R HB _ _ H2) as S2.
  destruct x as [t|a], y as [u|b], y' as [u'|b']; try contradiction.
  - f_equal. apply (bs_inj_t s1 s2 R HB t u t u' H1 H2). reflexivity.
  - f_equal. apply (bs_inj_n s1 s2 R HB a b a b' H1 H2). reflexivity.
Qed.
