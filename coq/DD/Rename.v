(** * Renaming the node ids of a snapshot (C20)

    Executable definitions only (proofs: DD/RenameProofs.v).

    The two node stores of OxiDD identify a node differently: [manager-index]
    by the index of its slot, [manager-pointer] by the address of its
    [arcslab] cell ([Edge::node_id] is that number).  The algorithms never
    interpret an id; they compare ids for equality, hash them and order them
    ([gt] of DD/Apply.v).  A store that hands out other ids therefore produces
    the same table up to a renaming [rho] of ids.  [rename_snap rho s] is that
    renamed table: every stored node is moved to [rho id], every reference
    [RN id] in a child list or in the handle list becomes [RN (rho id)];
    levels, terminals, tags, reference counts and the variable order stay. *)

From Coq Require Import List NArith PArith Bool Arith FMapPositive.
From OxiVerif Require Import DD.Table.
Import ListNotations.

Section Rename.
Variable rho : positive -> positive.

Definition rename_ref (r : ref) : ref :=
  match r with RT t => RT t | RN id => RN (rho id) end.

Definition rename_edge (e : edge) : edge := mkEdge (rename_ref (eref e)) (etag e).

Definition rename_node (nd : node) : node :=
  mkNode (nlevel nd) (map rename_edge (nchildren nd)) (nstored nd) (nrc nd).

Definition rename_list (l : list (positive * node)) (acc : PositiveMap.t node) : PositiveMap.t node :=
  fold_left (fun a (p : positive * node) => PositiveMap.add (rho (fst p)) (rename_node (snd p)) a) l acc.

Definition rename_nodes (m : PositiveMap.t node) : PositiveMap.t node :=
  rename_list (PositiveMap.elements m) (PositiveMap.empty node).

Definition rename_handle (h : N * edge) : N * edge := (fst h, rename_edge (snd h)).

Definition rename_snap (s : snap) : snap :=
  mkSnap (s_kind s) (rename_nodes (s_nodes s)) (s_terms s) (s_v2l s) (s_l2v s)
         (map rename_handle (s_handles s)).

End Rename.

(** an example of a renaming: the address of slot [id] in a slab at [base]
    with cells of [2^k] bytes *)
Definition addr_of (base : positive) (k : nat) (id : positive) : positive :=
  (base + Pos.shiftl_nat id k)%positive.
