(** * Observables are invariant under renaming of node ids (C20 (b))

    For every injective [rho] and every snapshot [s] of ANY kind (BDD, BCDD,
    ZBDD, MTBDD, TDD), well-formed or not:
    - [sem_edge_rename]: every edge has the same value under every choice;
    - [count_reach_rename]: every edge has the same node count;
    - [wf_rename] / [wf_b_rename]: the structural invariant (C03) holds of the
      renamed table iff it holds of the original;
    - [rc_exact_rename]: the reference-count invariant (C05) holds of the
      renamed table iff it holds of the original;
    - [observe_rename]: the whole observation (DD/ConfigApply.v) is the same.
    So two node stores that differ only in the ids they hand out can not be
    told apart through the API. *)

From Coq Require Import List NArith PArith Bool Arith Lia FMapPositive Permutation.
From OxiVerif Require Import DD.Table DD.TableExtra DD.TableProofs DD.Iso DD.Rename DD.ConfigApply.
Import ListNotations.

Definition injective (rho : positive -> positive) : Prop := forall a b, rho a = rho b -> a = b.

Lemma addr_of_injective : forall base k, injective (addr_of base k).
Proof.
  intros base k a b E. unfold addr_of in E. apply Pos.add_reg_l in E.
  revert E. induction k as [|k IH]; simpl; intros E; [exact E|].
  apply IH. unfold Pos.shiftl_nat in *. simpl in E. inversion E. reflexivity.
Qed.

Section RP.
Variable rho : positive -> positive.
Hypothesis Hinj : injective rho.

Notation rr := (rename_ref rho).
Notation re := (rename_edge rho).
Notation rn := (rename_node rho).
Notation rs := (rename_snap rho).

Lemma rename_ref_inj : forall a b, rr a = rr b -> a = b.
Proof.
  intros [t|a] [u|b] E; simpl in E; try discriminate; inversion E; subst; try reflexivity.
  f_equal. apply Hinj. assumption.
Qed.

Lemma rename_edge_inj : forall a b, re a = re b -> a = b.
Proof.
  intros a b E. unfold rename_edge in E. inversion E as [[E1 E2]].
  apply edge_ext; [apply rename_ref_inj; exact E1 | exact E2].
Qed.

Lemma map_rename_edge_inj : forall a b, map re a = map re b -> a = b.
Proof.
  induction a as [|x a IH]; intros [|y b] E; simpl in E; try discriminate; [reflexivity|].
  injection E as E1 E2 E3. f_equal; [apply edge_ext; [apply rename_ref_inj; exact E1 | exact E2] | apply IH; exact E3].
Qed.

(** ** The renamed node map *)

Lemma rl_other : forall l acc j, (forall p, In p l -> rho (fst p) <> j) ->
  PositiveMap.find j (rename_list rho l acc) = PositiveMap.find j acc.
Proof.
  induction l as [|p l IH]; intros acc j Hn; [reflexivity|]. simpl.
  rewrite IH by (intros q Hq; apply Hn; right; exact Hq).
  apply PositiveMap.gso. intros E. apply (Hn p (or_introl eq_refl)). auto.
Qed.

Lemma rl_in : forall l acc id nd, NoDup (map fst l) -> In (id, nd) l ->
  PositiveMap.find (rho id) (rename_list rho l acc) = Some (rn nd).
Proof.
  induction l as [|p l IH]; intros acc id nd Hnd Hin; [destruct Hin|].
  simpl in Hnd. inversion Hnd as [|? ? Hp Hl]; subst. simpl.
  destruct Hin as [->|Hin].
  - simpl. rewrite rl_other; [apply PositiveMap.gss|].
    intros q Hq E. apply Hinj in E. apply Hp. simpl. rewrite <- E. apply (in_map fst l q Hq).
  - apply IH; assumption.
Qed.

Lemma rl_inv : forall l acc j nd', PositiveMap.find j (rename_list rho l acc) = Some nd' ->
  (exists id nd, In (id, nd) l /\ j = rho id /\ nd' = rn nd) \/ PositiveMap.find j acc = Some nd'.
Proof.
  induction l as [|[k v] l IH]; intros acc j nd' E; [right; exact E|]. simpl in E.
  destruct (IH _ _ _ E) as [[id [nd [Hin [Hj Hn]]]]|E'].
  - left. exists id, nd. split; [right; exact Hin | auto].
  - simpl in E'. destruct (Pos.eq_dec j (rho k)) as [->|Hne].
    + rewrite PositiveMap.gss in E'. inversion E'; subst. left. exists k, v. split; [left; reflexivity | auto].
    + rewrite PositiveMap.gso in E' by exact Hne. right. exact E'.
Qed.

Lemma rl_card : forall l acc, NoDup (map fst l) ->
  (forall p, In p l -> PositiveMap.find (rho (fst p)) acc = None) ->
  PositiveMap.cardinal (rename_list rho l acc) = length l + PositiveMap.cardinal acc.
Proof.
  induction l as [|p l IH]; intros acc Hnd Hacc; [reflexivity|].
  simpl in Hnd. inversion Hnd as [|? ? Hp Hl]; subst. simpl.
  rewrite IH; [|exact Hl|].
  - rewrite card_add_new by (apply Hacc; left; reflexivity). lia.
  - intros q Hq. rewrite PositiveMap.gso; [apply Hacc; right; exact Hq|].
    intros E. apply Hinj in E. apply Hp. rewrite <- E. apply (in_map fst l q Hq).
Qed.

Lemma find_rename : forall s id,
  find_node (rs s) (rho id) = option_map rn (find_node s id).
Proof.
  intros s id. unfold find_node. simpl. unfold rename_nodes.
  destruct (PositiveMap.find id (s_nodes s)) as [nd|] eqn:E; simpl.
  - apply rl_in; [apply elements_keys_nodup | apply PositiveMap.elements_correct; exact E].
  - rewrite rl_other; [apply PositiveMap.gempty|].
    intros [k v] Hin Ek. simpl in Ek. apply Hinj in Ek. subst k.
    apply PositiveMap.elements_complete in Hin. congruence.
Qed.

Lemma find_rename_inv : forall s j nd', find_node (rs s) j = Some nd' ->
  exists id nd, j = rho id /\ find_node s id = Some nd /\ nd' = rn nd.
Proof.
  intros s j nd' E. unfold find_node in E. simpl in E. unfold rename_nodes in E.
  destruct (rl_inv _ _ _ _ E) as [[id [nd [Hin [Hj Hn]]]]|E'].
  - exists id, nd. split; [exact Hj|]. split; [|exact Hn].
    apply PositiveMap.elements_complete. exact Hin.
  - rewrite PositiveMap.gempty in E'. discriminate.
Qed.

Lemma card_rename : forall s,
  PositiveMap.cardinal (s_nodes (rs s)) = PositiveMap.cardinal (s_nodes s).
Proof.
  intros s. simpl. unfold rename_nodes. rewrite rl_card.
  - rewrite (PositiveMap.cardinal_1 (s_nodes s)). change (PositiveMap.cardinal (PositiveMap.empty node)) with 0. rewrite Nat.add_0_r. reflexivity.
  - apply elements_keys_nodup.
  - intros p _. apply PositiveMap.gempty.
Qed.

(** ** Interpreters *)

Lemma semk_rename : forall s f r c, semk (rs s) f (rr r) c = semk s f r c.
Proof.
  intros s. induction f as [|f IH]; intros [t|id] c; simpl rename_ref; try reflexivity.
  rewrite !semk_S, find_rename. destruct (find_node s id) as [nd|]; [|reflexivity].
  cbn [option_map rename_node nchildren nlevel]. rewrite nth_error_map.
  destruct (nth_error (nchildren nd) (c (nlevel nd))) as [e|]; [|reflexivity].
  cbn [option_map]. apply (IH (eref e) c).
Qed.

Lemma semc_rename : forall s f e c, semc (rs s) f (re e) c = semc s f e c.
Proof.
  intros s. induction f as [|f IH]; intros e c; destruct (eref e) as [t|id] eqn:Ee.
  - rewrite (semc_T _ _ (re e) c t), (semc_T _ _ e c t); [reflexivity | exact Ee | simpl; rewrite Ee; reflexivity].
  - rewrite (semc_O _ (re e) c (rho id)), (semc_O _ e c id); [reflexivity | exact Ee | simpl; rewrite Ee; reflexivity].
  - rewrite (semc_T _ _ (re e) c t), (semc_T _ _ e c t); [reflexivity | exact Ee | simpl; rewrite Ee; reflexivity].
  - rewrite (semc_S _ _ (re e) c (rho id)) by (simpl; rewrite Ee; reflexivity).
    rewrite (semc_S _ _ e c id Ee), find_rename.
    destruct (find_node s id) as [nd|]; [|reflexivity].
    cbn [option_map rename_node nchildren nlevel]. rewrite nth_error_map.
    destruct (nth_error (nchildren nd) (c (nlevel nd))) as [e'|]; [|reflexivity].
    cbn [option_map]. rewrite IH. reflexivity.
Qed.

Lemma semz_rename : forall s f lvl r c, semz (rs s) f lvl (rr r) c = semz s f lvl r c.
Proof.
  intros s. induction f as [|f IH]; intros lvl [t|id] c; simpl rename_ref; try reflexivity.
  rewrite !semz_S, find_rename. destruct (find_node s id) as [nd|]; [|reflexivity].
  cbn [option_map rename_node nchildren nlevel].
  destruct (Nat.ltb (nlevel nd) lvl); [reflexivity|].
  destruct (all_lo c lvl (nlevel nd - lvl)); [|reflexivity].
  rewrite nth_error_map.
  destruct (nth_error (nchildren nd) (c (nlevel nd))) as [e|]; [|reflexivity].
  cbn [option_map]. apply (IH _ (eref e) c).
Qed.

(** value of every edge, all kinds *)
Theorem sem_edge_rename : forall s e c, sem_edge (rs s) (re e) c = sem_edge s e c.
Proof.
  intros s e c. unfold sem_edge. change (s_kind (rs s)) with (s_kind s).
  change (nlevels (rs s)) with (nlevels s).
  destruct (s_kind s).
  - apply (semk_rename s _ (eref e) c).
  - rewrite semc_rename. reflexivity.
  - rewrite (semz_rename s _ 0 (eref e) c). reflexivity.
  - apply (semk_rename s _ (eref e) c).
  - apply (semk_rename s _ (eref e) c).
Qed.

(** ** Node counts *)

Lemma rename_bisim : forall s, bisim s (rs s) (fun r1 r2 => r2 = rr r1).
Proof.
  intros s. constructor.
  - intros [t|a] r2 ->; exact I.
  - intros a b E. inversion E; subst b. rewrite find_rename.
    destruct (find_node s a) as [nd|]; [|exact I]. cbn [option_map rename_node nchildren].
    induction (nchildren nd) as [|x l IH]; simpl; constructor; [reflexivity | exact IH].
  - intros a b a' b' E E'. inversion E; inversion E'; subst. split; [intros ->; reflexivity | apply Hinj].
  - intros t u t' u' E E'. inversion E; inversion E'; subst. tauto.
Qed.

(** node count of every edge, all kinds, no well-formedness needed *)
Theorem count_reach_rename : forall s e, count_reach (rs s) (re e) = count_reach s e.
Proof.
  intros s e. unfold count_reach. rewrite card_rename.
  change (s_kind (rs s)) with (s_kind s). change (s_terms (rs s)) with (s_terms s).
  set (F := _ + _).
  destruct (reach_lockstep s (rs s) _ (rename_bisim s) F [eref e] [eref (re e)]
              (PositiveMap.empty unit) (PositiveMap.empty unit) [] []) as [[Hc _] [Hl _]].
  - constructor; [reflexivity | constructor].
  - split; [reflexivity|]. intros a b _. rewrite !PositiveMap.gempty. tauto.
  - split; [reflexivity|]. intros t u _. simpl. tauto.
  - destruct (reach s F [eref e] (PositiveMap.empty unit) []) as [sn st].
    destruct (reach (rs s) F [eref (re e)] (PositiveMap.empty unit) []) as [sn' st'].
    simpl in Hc, Hl. rewrite Hc, Hl. reflexivity.
Qed.

(** ** The structural invariant *)

Lemma ref_ok_rename : forall s r, ref_ok (rs s) (rr r) <-> ref_ok s r.
Proof.
  intros s [t|id]; simpl; [reflexivity|]. rewrite find_rename.
  destruct (find_node s id) as [nd|]; simpl; split; intros [x E]; try discriminate; eauto.
Qed.

Lemma rlevel_rename : forall s r, rlevel (rs s) (rr r) = rlevel s r.
Proof.
  intros s [t|id]; [reflexivity|]. simpl rename_ref. unfold rlevel. rewrite find_rename.
  destruct (find_node s id); reflexivity.
Qed.

Lemma all_same_rename : forall ch, all_same (map re ch) <-> all_same ch.
Proof.
  intros ch. unfold all_same. split.
  - intros A a b Ha Hb. apply rename_edge_inj. apply A; apply in_map; assumption.
  - intros A a b Ha Hb. apply in_map_iff in Ha. apply in_map_iff in Hb.
    destruct Ha as [x [<- Hx]]. destruct Hb as [y [<- Hy]]. f_equal. apply A; assumption.
Qed.

Lemma reduced_rename : forall s ch, reduced (rs s) (map re ch) <-> reduced s ch.
Proof.
  intros s ch. unfold reduced. change (s_kind (rs s)) with (s_kind s).
  destruct (s_kind s); try apply not_iff_compat; try apply all_same_rename.
  - rewrite all_same_rename. split.
    + intros [A [t [Ht Tt]]]. split; [exact A|]. destruct ch as [|x l]; [discriminate|].
      simpl in Ht. inversion Ht; subst. exists x. split; [reflexivity | exact Tt].
    + intros [A [t [Ht Tt]]]. split; [exact A|]. destruct ch as [|x l]; [discriminate|].
      simpl in Ht. inversion Ht; subst. exists (re t). split; [reflexivity | exact Tt].
  - split.
    + intros [hi [Hh Ht]]. destruct ch as [|x l]; [discriminate|]. simpl in Hh. inversion Hh; subst.
      exists x. split; [reflexivity|]. intros t Et. apply (Ht t). simpl. rewrite Et. reflexivity.
    + intros [hi [Hh Ht]]. destruct ch as [|x l]; [discriminate|]. simpl in Hh. inversion Hh; subst.
      exists (re hi). split; [reflexivity|]. intros t Et. apply (Ht t).
      simpl in Et. destruct (eref hi); simpl in Et; [exact Et | discriminate].
Qed.

Theorem wf_rename : forall s, WF (rs s) <-> WF s.
Proof.
  intros s. split; intros H.
  - (* the original is well-formed if the renamed table is *)
    assert (F : forall id nd, find_node s id = Some nd -> find_node (rs s) (rho id) = Some (rn nd))
      by (intros id nd E; rewrite find_rename, E; reflexivity).
    constructor.
    + exact (wf_perm_len _ H).
    + exact (wf_perm_v2l _ H).
    + exact (wf_perm_l2v _ H).
    + intros id nd E. pose proof (wf_arity _ H _ _ (F id nd E)) as A. simpl in A.
      rewrite map_length in A. exact A.
    + intros id nd E. exact (wf_stored _ H _ _ (F id nd E)).
    + intros id nd E. exact (wf_level _ H _ _ (F id nd E)).
    + intros id nd e E He.
      destruct (wf_child _ H _ _ (re e) (F id nd E) (in_map re _ _ He)) as [A L].
      split; [apply (ref_ok_rename s (eref e)); exact A|].
      change (eref (re e)) with (rr (eref e)) in L. rewrite rlevel_rename in L. exact L.
    + intros id nd E. apply (reduced_rename s). exact (wf_reduced _ H _ _ (F id nd E)).
    + intros Hk id nd e E He. exact (wf_tags _ H Hk _ _ (re e) (F id nd E) (in_map re _ _ He)).
    + intros id1 id2 n1 n2 E1 E2 Hl Hc. apply Hinj.
      apply (wf_unique _ H _ _ _ _ (F id1 n1 E1) (F id2 n2 E2)); [exact Hl | simpl; rewrite Hc; reflexivity].
    + exact (wf_term_ids _ H).
    + exact (wf_term_vals _ H).
    + intros h Hh.
      destruct (wf_handles _ H (rename_handle rho h) (in_map (rename_handle rho) _ _ Hh)) as [A T].
      split; [apply (ref_ok_rename s (eref (snd h))); exact A | exact T].
  - (* the renamed table is well-formed if the original is *)
    constructor.
    + exact (wf_perm_len _ H).
    + exact (wf_perm_v2l _ H).
    + exact (wf_perm_l2v _ H).
    + intros j nd' E. destruct (find_rename_inv s j nd' E) as [id [nd [-> [E' ->]]]]. simpl.
      rewrite map_length. exact (wf_arity _ H _ _ E').
    + intros j nd' E. destruct (find_rename_inv s j nd' E) as [id [nd [-> [E' ->]]]].
      exact (wf_stored _ H _ _ E').
    + intros j nd' E. destruct (find_rename_inv s j nd' E) as [id [nd [-> [E' ->]]]].
      exact (wf_level _ H _ _ E').
    + intros j nd' e' E He. destruct (find_rename_inv s j nd' E) as [id [nd [-> [E' ->]]]].
      simpl in He. apply in_map_iff in He. destruct He as [e [<- He]].
      destruct (wf_child _ H _ _ e E' He) as [A L].
      split; [apply (ref_ok_rename s (eref e)); exact A|].
      change (eref (re e)) with (rr (eref e)). rewrite rlevel_rename. exact L.
    + intros j nd' E. destruct (find_rename_inv s j nd' E) as [id [nd [-> [E' ->]]]].
      simpl. apply (reduced_rename s). exact (wf_reduced _ H _ _ E').
    + intros Hk j nd' e' E He. destruct (find_rename_inv s j nd' E) as [id [nd [-> [E' ->]]]].
      simpl in He. apply in_map_iff in He. destruct He as [e [<- He]].
      exact (wf_tags _ H Hk _ _ e E' He).
    + intros j1 j2 n1' n2' E1 E2 Hl Hc.
      destruct (find_rename_inv s j1 n1' E1) as [id1 [n1 [-> [E1' ->]]]].
      destruct (find_rename_inv s j2 n2' E2) as [id2 [n2 [-> [E2' ->]]]].
      f_equal. apply (wf_unique _ H _ _ _ _ E1' E2'); [exact Hl|].
      apply map_rename_edge_inj. exact Hc.
    + exact (wf_term_ids _ H).
    + exact (wf_term_vals _ H).
    + intros h' Hh. simpl in Hh. apply in_map_iff in Hh. destruct Hh as [h [<- Hh]].
      destruct (wf_handles _ H h Hh) as [A T].
      split; [apply (ref_ok_rename s (eref (snd h))); exact A | exact T].
Qed.

Theorem wf_b_rename : forall s, wf_b (rs s) = wf_b s.
Proof.
  intros s. apply Bool.eq_iff_eq_true. rewrite !wf_b_spec. apply wf_rename.
Qed.

Theorem wf_full_b_rename : forall s, wf_full_b (rs s) = wf_full_b s.
Proof. intros s. unfold wf_full_b. rewrite wf_b_rename. reflexivity. Qed.

(** ** The reference-count invariant *)

Lemma NoDup_map_inj : forall (A B : Type) (f : A -> B) l,
  (forall x y, f x = f y -> x = y) -> NoDup l -> NoDup (map f l).
Proof.
  intros A B f l Hf Hl. induction Hl as [|x l Hx Hl IH]; simpl; constructor; [|exact IH].
  intros Hin. apply in_map_iff in Hin. destruct Hin as [y [E Hy]]. apply Hf in E. subst y. auto.
Qed.

Definition rename_pair (p : positive * node) : positive * node := (rho (fst p), rn (snd p)).

Lemma elements_rename : forall s,
  Permutation (PositiveMap.elements (s_nodes (rs s))) (map rename_pair (PositiveMap.elements (s_nodes s))).
Proof.
  intros s. apply NoDup_Permutation.
  - apply (NoDup_map_inv fst). apply elements_keys_nodup.
  - apply (NoDup_map_inv fst). rewrite map_map. simpl.
    rewrite <- (map_map fst rho). apply NoDup_map_inj; [exact Hinj | apply elements_keys_nodup].
  - intros [j nd']. split.
    + intros Hin. apply (find_node_elements (rs s)) in Hin.
      destruct (find_rename_inv s j nd' Hin) as [id [nd [-> [E ->]]]].
      apply in_map_iff. exists (id, nd). split; [reflexivity | apply find_node_elements; exact E].
    + intros Hin. apply in_map_iff in Hin. destruct Hin as [[id nd] [E Hin]].
      unfold rename_pair in E. simpl in E. inversion E; subst j nd'.
      apply (find_node_elements (rs s)). rewrite find_rename.
      apply find_node_elements in Hin. rewrite Hin. reflexivity.
Qed.

Lemma child_refs_rename : forall s, Permutation (child_refs (rs s)) (map rr (child_refs s)).
Proof.
  intros s. unfold child_refs. rewrite (elements_rename s).
  induction (PositiveMap.elements (s_nodes s)) as [|p l IH]; simpl; [constructor|].
  rewrite map_app. apply Permutation_app; [|exact IH].
  rewrite !map_map. apply Permutation_refl.
Qed.

Lemma refs_to_rename : forall id l, refs_to (rho id) (map rr l) = refs_to id l.
Proof.
  intros id l. unfold refs_to. symmetry.
  apply (count_occ_map rr ref_eq_dec ref_eq_dec rename_ref_inj (RN id) l).
Qed.

Lemma rc_sum_rename : forall s extra id,
  refs_to (rho id) (handle_refs (rs s)) + refs_to (rho id) (map eref (map re extra))
  + refs_to (rho id) (child_refs (rs s))
  = refs_to id (handle_refs s) + refs_to id (map eref extra) + refs_to id (child_refs s).
Proof.
  intros s extra id.
  assert (E1 : handle_refs (rs s) = map rr (handle_refs s))
    by (unfold handle_refs; simpl; rewrite !map_map; reflexivity).
  assert (E2 : map eref (map re extra) = map rr (map eref extra)) by (rewrite !map_map; reflexivity).
  assert (E3 : refs_to (rho id) (child_refs (rs s)) = refs_to (rho id) (map rr (child_refs s))).
  { unfold refs_to. apply (proj1 (Permutation_count_occ ref_eq_dec _ _) (child_refs_rename s)). }
  rewrite E1, E2, E3, !refs_to_rename. reflexivity.
Qed.

Theorem rc_exact_rename : forall s extra, rc_exact (rs s) (map re extra) <-> rc_exact s extra.
Proof.
  intros s extra. unfold rc_exact. split.
  - intros Hx id nd E.
    assert (E' : find_node (rs s) (rho id) = Some (rn nd)) by (rewrite find_rename, E; reflexivity).
    specialize (Hx _ _ E'). rewrite rc_sum_rename in Hx. exact Hx.
  - intros Hx j nd' E. destruct (find_rename_inv s j nd' E) as [id [nd [-> [E' ->]]]].
    rewrite rc_sum_rename. exact (Hx _ _ E').
Qed.

Theorem rc_exact_b_rename : forall s extra, rc_exact_b (rs s) (map re extra) = rc_exact_b s extra.
Proof.
  intros s extra. apply Bool.eq_iff_eq_true. rewrite !rc_exact_b_spec. apply rc_exact_rename.
Qed.

(** ** The whole observation *)

Theorem observe_rename : forall s c, observe (rs s) c = observe s c.
Proof.
  intros s c. unfold observe. f_equal. simpl. rewrite map_map. apply map_ext.
  intros h. unfold obs_handle. simpl. rewrite sem_edge_rename, count_reach_rename. reflexivity.
Qed.

End RP.
