(** * Soundness of [crestrict] with its tail-recursive [crestrict_inner]
      (complement-edge kind: [f_neg] / [vars_neg] polarity tracking)

    [crestrict_ok]: for every BcOK table, [QCacheOKC] cache, operand [f] and
    edge [vars] (read as a cube of literals the way the code walks it,
    [LChainC] with the accumulated polarity), the result denotes the cofactor of
    [f] w.r.t. those literals ([restr]). *)

From Coq Require Import List NArith PArith Bool Arith Lia FMapPositive.
From OxiVerif Require Import DD.Table DD.TableProofs DD.Canon DD.CanonBcdd DD.Sem DD.Build DD.BuildProofs
  DD.Apply DD.ApplyProofs DD.ApplyBcdd DD.ApplyBcddProofs DD.ApplyBcddIte
  DD.Quant DD.QuantLemmas DD.QuantProofs DD.RestrictProofs DD.QuantBcdd DD.QuantBcddLemmas.
Import ListNotations.

Lemma crestrict_inner_S : forall n s f f_neg fnode flevel vars vars_neg vnode,
  crestrict_inner (S n) s f f_neg fnode flevel vars vars_neg vnode =
    let vlevel := nstored vnode in
    if Nat.ltb flevel vlevel then
      Some (CRRec (mkEdge (eref vars) vars_neg) f f_neg fnode)
    else
      match nchildren vnode with
      | [vt; ve] =>
        if Nat.ltb vlevel flevel then
          match eref vt with
          | RN tid =>
            match find_node s tid with
            | Some nn => crestrict_inner n s f f_neg fnode flevel vt (xorb vars_neg (etag vt)) nn
            | None => None
            end
          | RT _ =>
            if vars_neg then
              match eref ve with
              | RN eid =>
                match find_node s eid with
                | Some nn => crestrict_inner n s f f_neg fnode flevel ve (negb (etag ve)) nn
                | None => None
                end
              | RT _ => Some (CRDone (mkEdge (eref f) f_neg))
              end
            else Some (CRDone (mkEdge (eref f) f_neg))
          end
        else
          match nchildren fnode with
          | [ft; fe] =>
            match eref vt with
            | RN tid =>
              match find_node s tid with
              | Some nn =>
                let f_neg' := xorb f_neg (etag ft) in
                match eref ft with
                | RN fid' =>
                  match find_node s fid' with
                  | Some fn' =>
                    crestrict_inner n s ft f_neg' fn' (nstored fn') vt (xorb vars_neg (etag vt)) nn
                  | None => None
                  end
                | RT _ => Some (CRDone (mkEdge (eref ft) f_neg'))
                end
              | None => None
              end
            | RT _ =>
              if vars_neg then
                let f_neg' := xorb f_neg (etag fe) in
                match eref ve with
                | RN eid =>
                  match find_node s eid with
                  | Some nn =>
                    match eref fe with
                    | RN fid' =>
                      match find_node s fid' with
                      | Some fn' =>
                        crestrict_inner n s fe f_neg' fn' (nstored fn') ve (negb (etag ve)) nn
                      | None => None
                      end
                    | RT _ => Some (CRDone (mkEdge (eref fe) f_neg'))
                    end
                  | None => None
                  end
                | RT _ => Some (CRDone (mkEdge (eref fe) f_neg'))
                end
              else
                Some (CRDone (mkEdge (eref ft) (xorb f_neg (etag ft))))
            end
          | _ => None
          end
      | _ => None
      end.
Proof. reflexivity. Qed.

(** [restr] commutes with every pointwise post-processing (complementing) *)
Lemma restr_map : forall (u : bool -> bool) M phi c,
  restr M (fun c0 => u (phi c0)) c = u (restr M phi c).
Proof.
  intros u M phi. induction M as [|[l b] r IH]; intros c; [reflexivity|].
  simpl. unfold cofn. apply IH.
Qed.

Lemma lchainc_T_inv : forall s t neg M, LChainC s (RT t) neg M -> M = [].
Proof. intros s t neg M V. inversion V. reflexivity. Qed.

(** case analysis of a cube node as [restrict::inner] performs it *)
Lemma lchainc_N_inv : forall s id neg nd t x M, LChainC s (RN id) neg M -> find_node s id = Some nd ->
  nchildren nd = [t; x] ->
  match eref t with
  | RN tid => exists M1, M = (nlevel nd, true) :: M1 /\ LChainC s (RN tid) (xorb neg (etag t)) M1
  | RT _ =>
    if neg then exists M1, M = (nlevel nd, false) :: M1 /\ LChainC s (eref x) (negb (etag x)) M1
    else M = [(nlevel nd, true)]
  end.
Proof.
  intros s id neg nd t x M V En Ech.
  inversion V as [|id' neg' nd' t' x' tid' M1 En' Ech' Et' V1|id' nd' t' x' tt' En' Ech' Et'
                  |id' nd' t' x' tt' M1 En' Ech' Et' V1]; subst;
    rewrite En in En'; inversion En'; subst nd'; rewrite Ech in Ech'; inversion Ech'; subst t' x';
    rewrite Et'; eauto.
Qed.

Definition crinner_post (s : snap) (lvl0 : nat) (phi : cfun) (M : list (nat * bool)) (res : crinner) : Prop :=
  match res with
  | CRDone r => DenC s r (restr M phi)
  | CRRec vars' f' f_neg' fnode' =>
    exists fid' vid' vnd' phi' M',
      eref f' = RN fid' /\ find_node s fid' = Some fnode' /\
      eref vars' = RN vid' /\ find_node s vid' = Some vnd' /\
      DenC s (mkEdge (eref f') f_neg') phi' /\ LChainC s (eref vars') (etag vars') M' /\
      nlevel fnode' < nlevel vnd' /\ lvl0 <= nlevel fnode' /\
      forall c, bchoice c -> restr M phi c = restr M' phi' c
  end.

Lemma crinner_post_weaken : forall s lvl0 lvl1 phi M phi1 M1 res,
  crinner_post s lvl1 phi1 M1 res -> lvl0 <= lvl1 ->
  (forall c, bchoice c -> restr M phi c = restr M1 phi1 c) ->
  crinner_post s lvl0 phi M res.
Proof.
  intros s lvl0 lvl1 phi M phi1 M1 [r|vars' f' fn' fnode'] P Hle E; simpl in *.
  - apply (denc_ext s r _ _ P). intros c Hc. symmetry. apply E. exact Hc.
  - destruct P as [fid' [vid' [vnd' [phi' [M' [A1 [A2 [A3 [A4 [A5 [A6 [A7 [A8 A9]]]]]]]]]]]]].
    exists fid', vid', vnd', phi', M'. repeat (split; [assumption|]). split; [lia|].
    intros c Hc. rewrite E by exact Hc. apply A9. exact Hc.
Qed.

Section InnerSec.
Variable s : snap.
Hypothesis B : BcOK s.

Theorem crestrict_inner_ok : forall fuel f f_neg fid fnd vars vars_neg vid vnd phi M,
  eref f = RN fid -> find_node s fid = Some fnd -> eref vars = RN vid -> find_node s vid = Some vnd ->
  DenC s (mkEdge (eref f) f_neg) phi -> LChainC s (RN vid) vars_neg M ->
  (nlevels s - nlevel fnd) + (nlevels s - nlevel vnd) < fuel ->
  exists res, crestrict_inner fuel s f f_neg fnd (nlevel fnd) vars vars_neg vnd = Some res /\
              crinner_post s (nlevel fnd) phi M res.
Proof.
  pose proof (bc_wf s B) as H.
  induction fuel as [|n IH]; intros f f_neg fid fnd vars vars_neg vid vnd phi M Erf Ef Erv Ev D V Hfuel; [lia|].
  pose proof (denc_cext s _ phi H D) as Xp.
  pose proof (wf_level s H fid fnd Ef) as Hlf. pose proof (wf_level s H vid vnd Ev) as Hlv.
  assert (Ip : indep phi (nlevel fnd)).
  { pose proof (denc_indep s _ phi H D) as I0. simpl eref in I0. rewrite Erf, (rlevel_node s fid fnd Ef) in I0.
    exact I0. }
  rewrite crestrict_inner_S. cbv zeta. rewrite (wf_stored s H vid vnd Ev).
  destruct (Nat.ltb_spec (nlevel fnd) (nlevel vnd)) as [Hlt|Hge].
  { eexists. split; [reflexivity|]. simpl.
    exists fid, vid, vnd, phi, M.
    split; [exact Erf|]. split; [exact Ef|]. split; [exact Erv|]. split; [exact Ev|].
    split; [exact D|]. split; [rewrite Erv; exact V|]. split; [exact Hlt|]. split; [lia|]. reflexivity. }
  destruct (bcdd_children s vid vnd B Ev) as [vt [ve Evch]]. rewrite Evch.
  assert (Hvt : nth_error (nchildren vnd) 0 = Some vt) by (rewrite Evch; reflexivity).
  assert (Hve : nth_error (nchildren vnd) 1 = Some ve) by (rewrite Evch; reflexivity).
  destruct (child_nth s H vid vnd 0 vt Ev Hvt) as [Ovt Lvt].
  destruct (child_nth s H vid vnd 1 ve Ev Hve) as [Ove Lve].
  pose proof (lchainc_asc s B _ _ _ V) as Asc. rewrite (rlevel_node s vid vnd Ev) in Asc.
  pose proof (lchainc_N_inv s vid vars_neg vnd vt ve M V Ev Evch) as Inv.
  destruct (Nat.ltb_spec (nlevel vnd) (nlevel fnd)) as [Hvf|Hfv].
  - (* vars above f: the literal is irrelevant *)
    assert (Hnd : nodep phi (nlevel vnd)) by (apply (indep_nodep phi (nlevel fnd)); assumption).
    assert (Done : forall b, crinner_post s (nlevel fnd) phi [(nlevel vnd, b)] (CRDone (mkEdge (eref f) f_neg))).
    { intros b. simpl. apply (denc_ext s _ phi _ D). intros c Hc. symmetry.
      apply (restr_drop [] phi (nlevel vnd) b Xp Hnd c Hc). }
    destruct (eref vt) as [tt|tid] eqn:Et.
    + destruct vars_neg.
      * destruct Inv as [M1 [EM V1]]. subst M.
        destruct (eref ve) as [et|eid] eqn:Ee.
        -- rewrite (lchainc_T_inv s et _ M1 V1). eexists. split; [reflexivity | apply Done].
        -- destruct Ove as [nn En]. rewrite En. rewrite (rlevel_node s eid nn En) in Lve.
           destruct (IH f f_neg fid fnd ve (negb (etag ve)) eid nn phi M1 Erf Ef Ee En D V1 ltac:(lia))
             as [res [E P]].
           exists res. split; [exact E|].
           apply (crinner_post_weaken s _ _ phi _ phi M1 res P (le_n _)).
           intros c Hc. apply restr_drop; assumption.
      * subst M. eexists. split; [reflexivity | apply Done].
    + destruct Inv as [M1 [EM V1]]. subst M.
      destruct Ovt as [nn En]. rewrite En. rewrite (rlevel_node s tid nn En) in Lvt.
      destruct (IH f f_neg fid fnd vt (xorb vars_neg (etag vt)) tid nn phi M1 Erf Ef Et En D V1 ltac:(lia))
        as [res [E P]].
      exists res. split; [exact E|].
      apply (crinner_post_weaken s _ _ phi _ phi M1 res P (le_n _)).
      intros c Hc. apply restr_drop; assumption.
  - (* the top literal is on the level of f *)
    assert (Elv : nlevel vnd = nlevel fnd) by lia. set (lvl := nlevel fnd) in *.
    destruct (bcdd_children s fid fnd B Ef) as [ft [fe Efch]]. rewrite Efch.
    assert (Hft : nth_error (nchildren fnd) 0 = Some ft) by (rewrite Efch; reflexivity).
    assert (Hfe : nth_error (nchildren fnd) 1 = Some fe) by (rewrite Efch; reflexivity).
    pose proof (denc_child s (mkEdge (eref f) f_neg) fid fnd 0 ft phi B D Erf Ef Hft) as Dft.
    pose proof (denc_child s (mkEdge (eref f) f_neg) fid fnd 1 fe phi B D Erf Ef Hfe) as Dfe.
    simpl etag in Dft, Dfe. unfold retag in Dft, Dfe.
    destruct (child_nth s H fid fnd 0 ft Ef Hft) as [Oft Lft].
    destruct (child_nth s H fid fnd 1 fe Ef Hfe) as [Ofe Lfe].
    fold lvl in Dft, Dfe, Lft, Lfe.
    (* continuing with the selected child [g] (accumulated polarity [gn]) and the rest of the cube *)
    assert (Cont : forall (g : edge) (gn : bool) psi (v' : edge) vn' vid' nn M1 b,
               DenC s (mkEdge (eref g) gn) psi -> ref_ok s (eref g) -> lvl < rlevel s (eref g) ->
               eref v' = RN vid' -> find_node s vid' = Some nn -> nlevel vnd < nlevel nn ->
               LChainC s (RN vid') vn' M1 ->
               (forall c, bchoice c -> restr ((nlevel vnd, b) :: M1) phi c = restr M1 psi c) ->
               exists res,
                 match eref g with
                 | RN fid' =>
                   match find_node s fid' with
                   | Some fn' => crestrict_inner n s g gn fn' (nstored fn') v' vn' nn
                   | None => None
                   end
                 | RT _ => Some (CRDone (mkEdge (eref g) gn))
                 end = Some res /\ crinner_post s lvl phi ((nlevel vnd, b) :: M1) res).
    { intros g gn psi v' vn' vid' nn M1 b Dp Op Lp Erv' En Ln V1 HE. destruct (eref g) as [tf|fid'] eqn:Erg.
      - eexists. split; [reflexivity|]. simpl.
        apply (denc_ext s _ psi _ Dp). intros c Hc.
        change (cofn (restr M1 phi) (nlevel vnd) (lit_ix b) c) with (restr ((nlevel vnd, b) :: M1) phi c).
        rewrite HE by exact Hc. symmetry.
        apply restr_nodep_all; [apply (denc_cext s _ psi H Dp) | | exact Hc].
        intros l. apply (denc_term_nodep s (mkEdge (RT tf) gn) tf psi l Dp eq_refl).
      - destruct Op as [fn' Efn]. rewrite Efn, (wf_stored s H fid' fn' Efn).
        rewrite (rlevel_node s fid' fn' Efn) in Lp.
        destruct (IH g gn fid' fn' v' vn' vid' nn psi M1 Erg Efn Erv' En) as [res [E P]].
        + rewrite Erg. exact Dp.
        + exact V1.
        + lia.
        + exists res. split; [exact E|].
          apply (crinner_post_weaken s lvl (nlevel fn') phi _ psi M1 res P ltac:(lia) HE). }
    destruct (eref vt) as [tt|tid] eqn:Et.
    + destruct vars_neg.
      * (* negative literal: else branch *)
        destruct Inv as [M1 [EM V1]]. subst M. simpl in Asc. destruct Asc as [_ Asc].
        assert (HE : forall c, bchoice c ->
                   restr ((nlevel vnd, false) :: M1) phi c = restr M1 (cofn phi lvl 1) c).
        { intros c Hc. rewrite Elv. apply (restr_push M1 phi lvl false Xp); [|exact Hc].
          apply (asc_notin _ _ _ Asc). lia. }
        cbv zeta.
        destruct (eref ve) as [et|eid] eqn:Ee.
        -- rewrite (lchainc_T_inv s et _ M1 V1) in *.
           eexists. split; [reflexivity|]. simpl. rewrite Elv. exact Dfe.
        -- destruct Ove as [nn En]. rewrite En. rewrite (rlevel_node s eid nn En) in Lve.
           apply (Cont fe (xorb f_neg (etag fe)) _ ve (negb (etag ve)) eid nn M1 false Dfe Ofe Lfe Ee En Lve V1 HE).
      * (* last literal, positive: then branch *)
        subst M. eexists. split; [reflexivity|]. simpl. rewrite Elv. exact Dft.
    + (* positive literal, more below: then branch *)
      destruct Inv as [M1 [EM V1]]. subst M. simpl in Asc. destruct Asc as [_ Asc].
      assert (HE : forall c, bchoice c ->
                 restr ((nlevel vnd, true) :: M1) phi c = restr M1 (cofn phi lvl 0) c).
      { intros c Hc. rewrite Elv. apply (restr_push M1 phi lvl true Xp); [|exact Hc].
        apply (asc_notin _ _ _ Asc). lia. }
      destruct Ovt as [nn En]. rewrite En. rewrite (rlevel_node s tid nn En) in Lvt. cbv zeta.
      apply (Cont ft (xorb f_neg (etag ft)) _ vt (xorb vars_neg (etag vt)) tid nn M1 true Dft Oft Lft Et En Lvt V1 HE).
Qed.

End InnerSec.

Section R.
Variable lt : edge -> edge -> bool.
Variable C : Type.
Variable cget : C -> N -> list edge -> option edge.
Variable cadd : C -> N -> list edge -> edge -> C.
Hypothesis Hlossy : lossyC cget cadd.
Variable Sg : N -> option (list (nat * edge)).

Notation QOKC := (QCacheOKC cget Sg).
Notation qcres := (qcresult_ok cget Sg).

Lemma crestrict_S : forall n s c f vars,
  crestrict C cget cadd (S n) s c f vars =
    match eref f, eref vars with
    | RN fid, RN vid =>
      match find_node s fid, find_node s vid with
      | Some fnode, Some vnode =>
        match crestrict_inner (S (nlevels s + nlevels s)) s f (etag f) fnode (nstored fnode)
                              vars (etag vars) vnode with
        | None => None
        | Some (CRDone r) => Some (s, c, r)
        | Some (CRRec vars' f' f_neg fnode') =>
          let f_untagged := untag f' in
          match cget c ccode_restrict [f_untagged; vars'] with
          | Some r => Some (s, c, retag f_neg r)
          | None =>
            match nchildren fnode' with
            | [ft; fe] =>
              match crestrict C cget cadd n s c ft vars' with
              | None => None
              | Some (s1, c1, t) =>
                match crestrict C cget cadd n s1 c1 fe vars' with
                | None => None
                | Some (s2, c2, e) =>
                  let '(s3, h) := cmk_node s2 (nstored fnode') t e in
                  Some (s3, cadd c2 ccode_restrict [f_untagged; vars'] h, retag f_neg h)
                end
              end
            | _ => None
            end
          end
        end
      | _, _ => None
      end
    | _, _ => Some (s, c, f)
    end.
Proof. reflexivity. Qed.

Theorem crestrict_ok : forall fuel s c f vars phi M,
  BcOK s -> QOKC s c -> DenC s f phi -> ref_ok s (eref vars) -> LChainC s (eref vars) (etag vars) M ->
  nlevels s - rlevel s (eref f) < fuel ->
  qcres s (crestrict C cget cadd fuel s c f vars) (restr M phi).
Proof.
  induction fuel as [|n IH]; intros s c f vars phi M B Q D Ov V Hfuel; [lia|].
  pose proof (bc_wf s B) as H. pose proof (denc_cext s f phi H D) as Xp.
  rewrite crestrict_S. destruct (eref f) as [tf|fid] eqn:Erf.
  { apply (qcresult_ok_here C cget Sg s c _ _ B Q). apply (denc_ext s _ phi _ D).
    intros c0 Hc. symmetry. apply restr_nodep_all; auto. intros l. apply (denc_term_nodep s f tf phi l D Erf). }
  destruct (eref vars) as [tv|vid] eqn:Erv.
  { rewrite (lchainc_T_inv s tv _ M V). apply (qcresult_ok_here C cget Sg s c _ _ B Q). exact D. }
  pose proof (proj1 D) as Of. rewrite Erf in Of. destruct Of as [fnd Ef]. destruct Ov as [vnd Ev].
  rewrite Ef, Ev. rewrite (wf_stored s H fid fnd Ef). rewrite (rlevel_node s fid fnd Ef) in Hfuel.
  assert (D0 : DenC s (mkEdge (eref f) (etag f)) phi) by (rewrite edge_eta; exact D).
  destruct (crestrict_inner_ok s B (S (nlevels s + nlevels s)) f (etag f) fid fnd vars (etag vars) vid vnd
              phi M Erf Ef Erv Ev D0 V ltac:(lia)) as [res [Eri P]].
  rewrite Eri. destruct res as [r|vars' f' f_neg fnode']; simpl in P.
  { apply (qcresult_ok_here C cget Sg s c _ _ B Q). exact P. }
  destruct P as [fid' [vid' [vnd' [phi' [M' [Erf' [Ef' [Erv' [Ev' [D' [V' [Hlt [Hle HE]]]]]]]]]]]]].
  apply (qcresult_ok_ext C cget Sg s _ (restr M' phi')); [|intros c0 Hc; symmetry; apply HE; exact Hc].
  cbv zeta.
  (* the untagged node and its function *)
  set (psi := fun c0 : nat -> nat => xorb f_neg (phi' c0)).
  assert (Du : DenC s (untag f') psi).
  { pose proof (denc_retag s _ phi' f_neg D') as R. unfold retag in R. simpl in R.
    rewrite xorb_nilpotent in R. exact R. }
  assert (Hback : forall c0, bchoice c0 -> xorb f_neg (restr M' psi c0) = restr M' phi' c0).
  { intros c0 Hc. unfold psi. rewrite (restr_map (xorb f_neg) M' phi' c0).
    rewrite <- xorb_assoc, xorb_nilpotent, xorb_false_l. reflexivity. }
  pose proof (denc_cext s _ psi H Du) as Xpsi.
  pose proof (wf_level s H fid' fnode' Ef') as Hlv'.
  set (lvl := nlevel fnode') in *.
  assert (Ip : indep psi lvl).
  { pose proof (denc_indep s _ psi H Du) as I0. simpl eref in I0.
    rewrite Erf', (rlevel_node s fid' fnode' Ef') in I0. exact I0. }
  destruct (cget c ccode_restrict [untag f'; vars']) as [r|] eqn:Ecache.
  { destruct (proj1 (proj2 (proj2 Q _ _ _ Ecache)) (untag f') vars' eq_refl eq_refl)
      as [phi0 [M0 [D0' [V0 Dr]]]].
    apply (qcresult_ok_here C cget Sg s c _ _ B Q).
    rewrite (lchainc_fun s _ _ _ _ V0 V') in Dr.
    apply (denc_ext s _ _ _ (denc_retag s r _ f_neg Dr)). intros c0 Hc.
    rewrite <- (Hback c0 Hc). f_equal. apply restr_ext; [|exact Hc].
    apply (denc_unique s _ phi0 psi D0' Du). }
  destruct (bcdd_children s fid' fnode' B Ef') as [ft [fe Ech]]. rewrite Ech.
  assert (Hft : nth_error (nchildren fnode') 0 = Some ft) by (rewrite Ech; reflexivity).
  assert (Hfe : nth_error (nchildren fnode') 1 = Some fe) by (rewrite Ech; reflexivity).
  assert (Eru : eref (untag f') = RN fid') by exact Erf'.
  pose proof (denc_child s (untag f') fid' fnode' 0 ft psi B Du Eru Ef' Hft) as Dft.
  pose proof (denc_child s (untag f') fid' fnode' 1 fe psi B Du Eru Ef' Hfe) as Dfe.
  simpl etag in Dft, Dfe. rewrite retag_false in Dft, Dfe.
  destruct (child_nth s H fid' fnode' 0 ft Ef' Hft) as [Oft Lft].
  destruct (child_nth s H fid' fnode' 1 fe Ef' Hfe) as [Ofe Lfe].
  fold lvl in Dft, Dfe, Lft, Lfe.
  assert (Ov' : ref_ok s (eref vars')) by (rewrite Erv'; exists vnd'; exact Ev').
  pose proof (rlevel_le s H (eref ft)) as Hle1. pose proof (rlevel_le s H (eref fe)) as Hle2.
  destruct (IH s c ft vars' _ M' B Q Dft Ov' V' ltac:(lia))
    as [s1 [c1 [t [E1 [B1 [X1 [Q1 D1]]]]]]].
  rewrite E1.
  assert (Dfe1 : DenC s1 fe (cofn psi lvl 1)) by (apply (denc_extends s s1 _ _ B X1 Dfe)).
  assert (Hf1 : nlevels s1 - rlevel s1 (eref fe) < n)
    by (rewrite (ext_nlevels _ _ X1), (ext_rlevel _ _ _ X1 Ofe); lia).
  destruct (IH s1 c1 fe vars' _ M' B1 Q1 Dfe1 (ext_ref_ok _ _ _ X1 Ov')
               (lchainc_extends _ _ _ _ _ X1 V') Hf1)
    as [s2 [c2 [e [E2 [B2 [X2 [Q2 D2]]]]]]].
  rewrite E2. rewrite (wf_stored s H fid' fnode' Ef'). fold lvl.
  assert (D1' : DenC s2 t (restr M' (cofn psi lvl 0))) by (apply (denc_extends s1 s2 _ _ B1 X2 D1)).
  assert (X02 : extends s s2) by (eapply extends_trans; eauto).
  destruct (cmk_node s2 lvl t e) as [s3 h] eqn:Em.
  assert (Hl2 : lvl < nlevels s2) by (rewrite (ext_nlevels _ _ X02); exact Hlv').
  assert (II : forall i, i < 2 -> indep (restr M' (cofn psi lvl i)) (S lvl)).
  { intros i Hi. apply indep_restr. apply (indep_cofn psi lvl lvl i Ip (le_n _) Hi). }
  destruct (cnode_step s2 lvl t e _ _ s3 h B2 Hl2 D1' D2 (II 0 ltac:(lia)) (II 1 ltac:(lia)) Em)
    as [B3 [X3 Dh]].
  assert (X03 : extends s s3) by (eapply extends_trans; eauto).
  assert (Hnin : ~ In lvl (map fst M')).
  { pose proof (lchainc_asc s B _ _ _ V') as Asc. rewrite Erv', (rlevel_node s vid' vnd' Ev') in Asc.
    apply (asc_notin _ _ _ Asc). exact Hlt. }
  assert (Dres : DenC s3 h (restr M' psi)).
  { apply (denc_ext s3 h _ _ Dh). intros c0 Hc. apply restr_shannon; assumption. }
  exists s3, (cadd c2 ccode_restrict [untag f'; vars'] h), (retag f_neg h).
  split; [reflexivity|]. split; [exact B3|]. split; [exact X03|]. split.
  - apply (qcacheokc_add C cget cadd Hlossy Sg s3 c2 _ _ _
             (qcacheokc_extends C cget Sg s2 s3 c2 B2 X3 Q2)); [unfold ccode_restrict; lia|].
    apply (cqentry_restrict Sg s3 (untag f') vars' h psi M');
      [apply (denc_extends s s3 _ _ B X03 Du) | apply (lchainc_extends _ _ _ _ _ X03 V') | exact Dres].
  - apply (denc_ext s3 _ _ _ (denc_retag s3 h _ f_neg Dres)). exact Hback.
Qed.

End R.
