(** * Soundness of [restrict] (with its tail-recursive [restrict_inner]) of DD/Quant.v

    [restrict_ok]: for every BddOK table, [QCacheOK] cache, operand [f] and
    reference [vars] (read as a cube of literals the way the code walks it,
    [LChain]), with fuel above the height of [f], the result denotes the
    cofactor of [f] w.r.t. the literals of [vars] ([restr]); table only
    extended, invariants preserved. *)

From Coq Require Import List NArith PArith Bool Arith Lia FMapPositive.
From OxiVerif Require Import DD.Table DD.TableProofs DD.Canon DD.Sem DD.Build DD.BuildProofs
  DD.Apply DD.ApplyProofs DD.Quant DD.QuantLemmas DD.QuantProofs.
Import ListNotations.

Lemma restrict_inner_S : forall n s f fnode flevel vars vnode,
  restrict_inner (S n) s f fnode flevel vars vnode =
    let vlevel := nstored vnode in
    if Nat.ltb flevel vlevel then Some (RRec vars f fnode)
    else
      match nchildren vnode with
      | [vt; ve] =>
        if Nat.ltb vlevel flevel then
          match eref vt with
          | RN tid =>
            match find_node s tid with
            | Some nn => restrict_inner n s f fnode flevel (eref vt) nn
            | None => None
            end
          | RT _ =>
            match view s (eref vt) with
            | Some (VT true) => Some (RDone f)
            | Some (VT false) =>
              match eref ve with
              | RN eid =>
                match find_node s eid with
                | Some nn => restrict_inner n s f fnode flevel (eref ve) nn
                | None => None
                end
              | RT _ => Some (RDone f)
              end
            | _ => None
            end
          end
        else
          match nchildren fnode with
          | [ft; fe] =>
            match eref vt with
            | RN tid =>
              match find_node s tid with
              | Some nn =>
                match eref ft with
                | RN fid' =>
                  match find_node s fid' with
                  | Some fn' => restrict_inner n s (eref ft) fn' (nstored fn') (eref vt) nn
                  | None => None
                  end
                | RT _ => Some (RDone (eref ft))
                end
              | None => None
              end
            | RT _ =>
              match view s (eref vt) with
              | Some (VT true) => Some (RDone (eref ft))
              | Some (VT false) =>
                match eref ve with
                | RN eid =>
                  match find_node s eid with
                  | Some nn =>
                    match eref fe with
                    | RN fid' =>
                      match find_node s fid' with
                      | Some fn' => restrict_inner n s (eref fe) fn' (nstored fn') (eref ve) nn
                      | None => None
                      end
                    | RT _ => Some (RDone (eref fe))
                    end
                  | None => None
                  end
                | RT _ => Some (RDone (eref fe))
                end
              | _ => None
              end
            end
          | _ => None
          end
      | _ => None
      end.
Proof. reflexivity. Qed.

Lemma lchain_T_inv : forall s t M, LChain s (RT t) M -> M = [].
Proof. intros s t M V. inversion V. reflexivity. Qed.

Lemma lchain_N_inv : forall s id nd t e M, LChain s (RN id) M -> find_node s id = Some nd ->
  nchildren nd = [t; e] ->
  (exists M1, M = (nlevel nd, true) :: M1 /\
     (view s (eref t) = Some VI \/ view s (eref t) = Some (VT true)) /\ LChain s (eref t) M1) \/
  (exists M1, M = (nlevel nd, false) :: M1 /\ view s (eref t) = Some (VT false) /\ LChain s (eref e) M1).
Proof.
  intros s id nd t e M V En Ech.
  inversion V as [|id' nd' t' e' M1 En' Ech' Hv V'|id' nd' t' e' M1 En' Ech' Hv V']; subst;
    rewrite En in En'; inversion En'; subst nd'; rewrite Ech in Ech'; inversion Ech'; subst t' e'.
  - left. exists M1. auto.
  - right. exists M1. auto.
Qed.

Lemma lchain_fun : forall s r M M', LChain s r M -> LChain s r M' -> M = M'.
Proof.
  intros s r M M' V. revert M'.
  induction V as [t|id nd t e M En Ech Hv V IH|id nd t e M En Ech Hv V IH]; intros M' V'.
  - inversion V'. reflexivity.
  - destruct (lchain_N_inv s id nd t e M' V' En Ech) as [[M1 [-> [_ V1]]]|[M1 [-> [Hv' _]]]].
    + f_equal. apply IH. exact V1.
    + destruct Hv as [Hv|Hv]; rewrite Hv in Hv'; discriminate.
  - destruct (lchain_N_inv s id nd t e M' V' En Ech) as [[M1 [-> [Hv' _]]]|[M1 [-> [_ V1]]]].
    + destruct Hv' as [Hv'|Hv']; rewrite Hv in Hv'; discriminate.
    + f_equal. apply IH. exact V1.
Qed.

(** a function that depends on no level is its own cofactor *)
Lemma restr_nodep_all : forall M psi, cext psi -> (forall l, nodep psi l) ->
  forall c, bchoice c -> restr M psi c = psi c.
Proof.
  induction M as [|[l b] r IH]; intros psi X Hn c Hc; [reflexivity|].
  rewrite restr_drop by auto. apply IH; auto.
Qed.

(** what [restrict_inner] promises *)
Definition rinner_post (s : snap) (lvl0 : nat) (phi : cfun) (M : list (nat * bool)) (res : rinner) : Prop :=
  match res with
  | RDone r => Den s r (restr M phi)
  | RRec vars' f' fnode' =>
    exists fid' vid' vnd' phi' M',
      f' = RN fid' /\ find_node s fid' = Some fnode' /\
      vars' = RN vid' /\ find_node s vid' = Some vnd' /\
      Den s f' phi' /\ LChain s vars' M' /\
      nlevel fnode' < nlevel vnd' /\ lvl0 <= nlevel fnode' /\
      forall c, bchoice c -> restr M phi c = restr M' phi' c
  end.

Lemma rinner_post_weaken : forall s lvl0 lvl1 phi M phi1 M1 res,
  rinner_post s lvl1 phi1 M1 res -> lvl0 <= lvl1 ->
  (forall c, bchoice c -> restr M phi c = restr M1 phi1 c) ->
  rinner_post s lvl0 phi M res.
Proof.
  intros s lvl0 lvl1 phi M phi1 M1 [r|vars' f' fnode'] P Hle E; simpl in *.
  - apply (den_ext s r _ _ P). intros c Hc. symmetry. apply E. exact Hc.
  - destruct P as [fid' [vid' [vnd' [phi' [M' [A1 [A2 [A3 [A4 [A5 [A6 [A7 [A8 A9]]]]]]]]]]]]].
    exists fid', vid', vnd', phi', M'. repeat (split; [assumption|]). split; [lia|].
    intros c Hc. rewrite E by exact Hc. apply A9. exact Hc.
Qed.

Section InnerSec.
Variable s : snap.
Hypothesis B : BddOK s.

Lemma view_RN : forall id, view s (RN id) = Some VI.
Proof. reflexivity. Qed.

Lemma view_RT_not_VI : forall t, view s (RT t) <> Some VI.
Proof. intros t E. destruct (view_VI s (RT t) E) as [id Hid]. discriminate. Qed.

Theorem restrict_inner_ok : forall fuel fid fnd vid vnd phi M,
  find_node s fid = Some fnd -> find_node s vid = Some vnd ->
  Den s (RN fid) phi -> LChain s (RN vid) M ->
  (nlevels s - nlevel fnd) + (nlevels s - nlevel vnd) < fuel ->
  exists res, restrict_inner fuel s (RN fid) fnd (nlevel fnd) (RN vid) vnd = Some res /\
              rinner_post s (nlevel fnd) phi M res.
Proof.
  pose proof (bo_wf s B) as H.
  induction fuel as [|n IH]; intros fid fnd vid vnd phi M Ef Ev D V Hfuel; [lia|].
  pose proof (den_cext s _ phi H D) as Xp.
  pose proof (wf_level s H fid fnd Ef) as Hlf. pose proof (wf_level s H vid vnd Ev) as Hlv.
  assert (Ip : indep phi (nlevel fnd))
    by (rewrite <- (rlevel_node s fid fnd Ef); apply (den_indep s _ phi H D)).
  rewrite restrict_inner_S. cbv zeta. rewrite (wf_stored s H vid vnd Ev).
  destruct (Nat.ltb_spec (nlevel fnd) (nlevel vnd)) as [Hlt|Hge].
  { exists (RRec (RN vid) (RN fid) fnd). split; [reflexivity|]. simpl.
    exists fid, vid, vnd, phi, M.
    split; [reflexivity|]. split; [exact Ef|]. split; [reflexivity|]. split; [exact Ev|].
    split; [exact D|]. split; [exact V|]. split; [exact Hlt|]. split; [lia|]. reflexivity. }
  destruct (bdd_children s vid vnd B Ev) as [vt [ve Evch]]. rewrite Evch.
  assert (Hvt : nth_error (nchildren vnd) 0 = Some vt) by (rewrite Evch; reflexivity).
  assert (Hve : nth_error (nchildren vnd) 1 = Some ve) by (rewrite Evch; reflexivity).
  destruct (child_nth s H vid vnd 0 vt Ev Hvt) as [Ovt Lvt].
  destruct (child_nth s H vid vnd 1 ve Ev Hve) as [Ove Lve].
  pose proof (lchain_asc s B _ _ V) as Asc. rewrite (rlevel_node s vid vnd Ev) in Asc.
  destruct (Nat.ltb_spec (nlevel vnd) (nlevel fnd)) as [Hvf|Hfv].
  - (* vars above f: the literal is irrelevant *)
    assert (Hnd : nodep phi (nlevel vnd)) by (apply (indep_nodep phi (nlevel fnd)); assumption).
    destruct (lchain_N_inv s vid vnd vt ve M V Ev Evch) as [[M1 [EM [Hv V1]]]|[M1 [EM [Hv V1]]]];
      subst M.
    + (* positive literal *)
      destruct (eref vt) as [tt|tid] eqn:Et.
      * destruct Hv as [Hv|Hv]; [exfalso; apply (view_RT_not_VI tt Hv)|]. rewrite Hv.
        rewrite (lchain_T_inv s tt M1 V1).
        exists (RDone (RN fid)). split; [reflexivity|]. simpl.
        apply (den_ext s _ phi _ D). intros c Hc. symmetry.
        apply (restr_drop [] phi (nlevel vnd) true Xp Hnd c Hc).
      * destruct Ovt as [nn En]. rewrite En. rewrite (rlevel_node s tid nn En) in Lvt.
        destruct (IH fid fnd tid nn phi M1 Ef En D V1 ltac:(lia)) as [res [E P]].
        exists res. split; [exact E|].
        apply (rinner_post_weaken s _ _ phi _ phi M1 res P (le_n _)).
        intros c Hc. apply restr_drop; assumption.
    + (* negative literal *)
      destruct (eref vt) as [tt|tid] eqn:Et; [|rewrite view_RN in Hv; discriminate]. rewrite Hv.
      destruct (eref ve) as [et|eid] eqn:Ee.
      * rewrite (lchain_T_inv s et M1 V1).
        exists (RDone (RN fid)). split; [reflexivity|]. simpl.
        apply (den_ext s _ phi _ D). intros c Hc. symmetry.
        apply (restr_drop [] phi (nlevel vnd) false Xp Hnd c Hc).
      * destruct Ove as [nn En]. rewrite En. rewrite (rlevel_node s eid nn En) in Lve.
        destruct (IH fid fnd eid nn phi M1 Ef En D V1 ltac:(lia)) as [res [E P]].
        exists res. split; [exact E|].
        apply (rinner_post_weaken s _ _ phi _ phi M1 res P (le_n _)).
        intros c Hc. apply restr_drop; assumption.
  - (* the top literal is on the level of f *)
    assert (Elv : nlevel vnd = nlevel fnd) by lia. set (lvl := nlevel fnd) in *.
    destruct (bdd_children s fid fnd B Ef) as [ft [fe Efch]]. rewrite Efch.
    assert (Hft : nth_error (nchildren fnd) 0 = Some ft) by (rewrite Efch; reflexivity).
    assert (Hfe : nth_error (nchildren fnd) 1 = Some fe) by (rewrite Efch; reflexivity).
    pose proof (den_child s fid fnd 0 ft phi B D Ef Hft) as Dft.
    pose proof (den_child s fid fnd 1 fe phi B D Ef Hfe) as Dfe.
    destruct (child_nth s H fid fnd 0 ft Ef Hft) as [Oft Lft].
    destruct (child_nth s H fid fnd 1 fe Ef Hfe) as [Ofe Lfe].
    fold lvl in Dft, Dfe, Lft, Lfe.
    (* continuing below with the selected child [f'] and the rest of the cube *)
    assert (Cont : forall f' psi vid' nn M1 b,
               Den s f' psi -> ref_ok s f' -> lvl < rlevel s f' ->
               find_node s vid' = Some nn -> nlevel vnd < nlevel nn -> LChain s (RN vid') M1 ->
               (forall c, bchoice c -> restr ((nlevel vnd, b) :: M1) phi c = restr M1 psi c) ->
               exists res,
                 match f' with
                 | RN fid' =>
                   match find_node s fid' with
                   | Some fn' => restrict_inner n s f' fn' (nstored fn') (RN vid') nn
                   | None => None
                   end
                 | RT _ => Some (RDone f')
                 end = Some res /\ rinner_post s lvl phi ((nlevel vnd, b) :: M1) res).
    { intros f' psi vid' nn M1 b Dp Op Lp En Ln V1 HE. destruct f' as [tf|fid'].
      - exists (RDone (RT tf)). split; [reflexivity|]. simpl.
        apply (den_ext s _ psi _ Dp). intros c Hc. change (cofn (restr M1 phi) (nlevel vnd) (lit_ix b) c)
          with (restr ((nlevel vnd, b) :: M1) phi c). rewrite HE by exact Hc. symmetry.
        apply restr_nodep_all; [apply (den_cext s _ psi H Dp) | | exact Hc].
        intros l. apply (den_term_nodep s tf psi l Dp).
      - destruct Op as [fn' Efn]. rewrite Efn, (wf_stored s H fid' fn' Efn).
        rewrite (rlevel_node s fid' fn' Efn) in Lp.
        destruct (IH fid' fn' vid' nn psi M1 Efn En Dp V1 ltac:(lia)) as [res [E P]].
        exists res. split; [exact E|].
        apply (rinner_post_weaken s lvl (nlevel fn') phi _ psi M1 res P ltac:(lia) HE). }
    destruct (lchain_N_inv s vid vnd vt ve M V Ev Evch) as [[M1 [EM [Hv V1]]]|[M1 [EM [Hv V1]]]];
      subst M; simpl in Asc; destruct Asc as [_ Asc].
    + (* positive literal: then-branch *)
      assert (HE : forall c, bchoice c ->
                 restr ((nlevel vnd, true) :: M1) phi c = restr M1 (cofn phi lvl 0) c).
      { intros c Hc. rewrite Elv. apply (restr_push M1 phi lvl true Xp); [|exact Hc].
        apply (asc_notin _ _ _ Asc). lia. }
      destruct (eref vt) as [tt|tid] eqn:Et.
      * destruct Hv as [Hv|Hv]; [exfalso; apply (view_RT_not_VI tt Hv)|]. rewrite Hv.
        rewrite (lchain_T_inv s tt M1 V1) in *.
        exists (RDone (eref ft)). split; [reflexivity|]. simpl. rewrite Elv. exact Dft.
      * destruct Ovt as [nn En]. rewrite En. rewrite (rlevel_node s tid nn En) in Lvt.
        apply (Cont (eref ft) _ tid nn M1 true Dft Oft Lft En Lvt V1 HE).
    + (* negative literal: else-branch *)
      assert (HE : forall c, bchoice c ->
                 restr ((nlevel vnd, false) :: M1) phi c = restr M1 (cofn phi lvl 1) c).
      { intros c Hc. rewrite Elv. apply (restr_push M1 phi lvl false Xp); [|exact Hc].
        apply (asc_notin _ _ _ Asc). lia. }
      destruct (eref vt) as [tt|tid] eqn:Et; [|rewrite view_RN in Hv; discriminate]. rewrite Hv.
      destruct (eref ve) as [et|eid] eqn:Ee.
      * rewrite (lchain_T_inv s et M1 V1) in *.
        exists (RDone (eref fe)). split; [reflexivity|]. simpl. rewrite Elv. exact Dfe.
      * destruct Ove as [nn En]. rewrite En. rewrite (rlevel_node s eid nn En) in Lve.
        apply (Cont (eref fe) _ eid nn M1 false Dfe Ofe Lfe En Lve V1 HE).
Qed.

End InnerSec.

Section R.
Variable gt : ref -> ref -> bool.
Variable C : Type.
Variable cget : C -> N -> list ref -> option ref.
Variable cadd : C -> N -> list ref -> ref -> C.
Hypothesis Hlossy : lossy cget cadd.
Variable Sg : N -> option (list (nat * ref)).

Notation QOK := (QCacheOK cget Sg).
Notation qres := (qresult_ok cget Sg).

Lemma restrict_S : forall n s c f vars,
  restrict C cget cadd (S n) s c f vars =
    match f, vars with
    | RN fid, RN vid =>
      match find_node s fid, find_node s vid with
      | Some fnode, Some vnode =>
        match restrict_inner (S (nlevels s + nlevels s)) s f fnode (nstored fnode) vars vnode with
        | None => None
        | Some (RDone r) => Some (s, c, r)
        | Some (RRec vars' f' fnode') =>
          match cget c code_restrict [f'; vars'] with
          | Some r => Some (s, c, r)
          | None =>
            match nchildren fnode' with
            | [ft; fe] =>
              match restrict C cget cadd n s c (eref ft) vars' with
              | None => None
              | Some (s1, c1, t) =>
                match restrict C cget cadd n s1 c1 (eref fe) vars' with
                | None => None
                | Some (s2, c2, e) =>
                  let '(s3, h) := mk_node s2 (nstored fnode') [E t; E e] in
                  Some (s3, cadd c2 code_restrict [f'; vars'] (eref h), eref h)
                end
              end
            | _ => None
            end
          end
        end
      | _, _ => None
      end
    | _, _ => Some (s, c, f)
    end.
Proof. reflexivity. Qed.

Theorem restrict_ok : forall fuel s c f vars phi M,
  BddOK s -> QOK s c -> Den s f phi -> ref_ok s vars -> LChain s vars M ->
  nlevels s - rlevel s f < fuel ->
  qres s (restrict C cget cadd fuel s c f vars) (restr M phi).
Proof.
  induction fuel as [|n IH]; intros s c f vars phi M B Q D Ov V Hfuel; [lia|].
  pose proof (bo_wf s B) as H. pose proof (den_cext s f phi H D) as Xp.
  rewrite restrict_S. destruct f as [tf|fid].
  { apply (qresult_ok_here C cget Sg s c _ _ B Q). apply (den_ext s _ phi _ D).
    intros c0 Hc. symmetry. apply restr_nodep_all; auto. intros l. apply (den_term_nodep s tf phi l D). }
  destruct vars as [tv|vid].
  { rewrite (lchain_T_inv s tv M V). apply (qresult_ok_here C cget Sg s c _ _ B Q). exact D. }
  destruct (proj1 D) as [fnd Ef]. destruct Ov as [vnd Ev]. rewrite Ef, Ev.
  rewrite (wf_stored s H fid fnd Ef). rewrite (rlevel_node s fid fnd Ef) in Hfuel.
  destruct (restrict_inner_ok s B (S (nlevels s + nlevels s)) fid fnd vid vnd phi M Ef Ev D V ltac:(lia))
    as [res [Eri P]].
  rewrite Eri. destruct res as [r|vars' f' fnode']; simpl in P.
  { apply (qresult_ok_here C cget Sg s c _ _ B Q). exact P. }
  destruct P as [fid' [vid' [vnd' [phi' [M' [-> [Ef' [-> [Ev' [D' [V' [Hlt [Hle HE]]]]]]]]]]]]].
  apply (qresult_ok_ext C cget Sg s _ (restr M' phi')); [|intros c0 Hc; symmetry; apply HE; exact Hc].
  pose proof (den_cext s _ phi' H D') as Xp'.
  pose proof (wf_level s H fid' fnode' Ef') as Hlv'.
  set (lvl := nlevel fnode') in *.
  assert (Ip : indep phi' lvl)
    by (unfold lvl; rewrite <- (rlevel_node s fid' fnode' Ef'); apply (den_indep s _ phi' H D')).
  destruct (cget c code_restrict [RN fid'; RN vid']) as [r|] eqn:Ecache.
  { destruct (proj1 (proj2 (proj2 Q _ _ _ Ecache)) (RN fid') (RN vid') eq_refl eq_refl)
      as [phi0 [M0 [D0 [V0 Dr]]]].
    apply (qresult_ok_here C cget Sg s c _ _ B Q).
    rewrite (lchain_fun s _ _ _ V0 V') in Dr.
    apply (den_ext s r _ _ Dr). apply restr_ext. apply (den_unique s _ phi0 phi' D0 D'). }
  destruct (bdd_children s fid' fnode' B Ef') as [ft [fe Ech]]. rewrite Ech.
  assert (Hft : nth_error (nchildren fnode') 0 = Some ft) by (rewrite Ech; reflexivity).
  assert (Hfe : nth_error (nchildren fnode') 1 = Some fe) by (rewrite Ech; reflexivity).
  pose proof (den_child s fid' fnode' 0 ft phi' B D' Ef' Hft) as Dft.
  pose proof (den_child s fid' fnode' 1 fe phi' B D' Ef' Hfe) as Dfe.
  destruct (child_nth s H fid' fnode' 0 ft Ef' Hft) as [Oft Lft].
  destruct (child_nth s H fid' fnode' 1 fe Ef' Hfe) as [Ofe Lfe].
  fold lvl in Dft, Dfe, Lft, Lfe.
  assert (Ov' : ref_ok s (RN vid')) by (exists vnd'; exact Ev').
  pose proof (rlevel_le s H (eref ft)) as Hle1. pose proof (rlevel_le s H (eref fe)) as Hle2.
  destruct (IH s c (eref ft) (RN vid') _ M' B Q Dft Ov' V' ltac:(lia))
    as [s1 [c1 [t [E1 [B1 [X1 [Q1 D1]]]]]]].
  rewrite E1.
  assert (Dfe1 : Den s1 (eref fe) (cofn phi' lvl 1)) by (apply (den_extends s s1 _ _ B X1 Dfe)).
  assert (Hf1 : nlevels s1 - rlevel s1 (eref fe) < n)
    by (rewrite (ext_nlevels _ _ X1), (ext_rlevel _ _ _ X1 Ofe); lia).
  destruct (IH s1 c1 (eref fe) (RN vid') _ M' B1 Q1 Dfe1 (ext_ref_ok _ _ _ X1 Ov')
               (lchain_extends _ _ _ _ X1 V') Hf1)
    as [s2 [c2 [e [E2 [B2 [X2 [Q2 D2]]]]]]].
  rewrite E2. rewrite (wf_stored s H fid' fnode' Ef'). fold lvl.
  assert (D1' : Den s2 t (restr M' (cofn phi' lvl 0))) by (apply (den_extends s1 s2 _ _ B1 X2 D1)).
  assert (X02 : extends s s2) by (eapply extends_trans; eauto).
  destruct (mk_node s2 lvl [Build.E t; Build.E e]) as [s3 h] eqn:Em.
  assert (Hl2 : lvl < nlevels s2) by (rewrite (ext_nlevels _ _ X02); exact Hlv').
  assert (II : forall i, i < 2 -> indep (restr M' (cofn phi' lvl i)) (S lvl)).
  { intros i Hi. apply indep_restr. apply (indep_cofn phi' lvl lvl i Ip (le_n _) Hi). }
  destruct (node_step s2 lvl t e _ _ s3 h B2 Hl2 D1' D2 (II 0 ltac:(lia)) (II 1 ltac:(lia)) Em)
    as [B3 [X3 Dh]].
  assert (X03 : extends s s3) by (eapply extends_trans; eauto).
  assert (Hnin : ~ In lvl (map fst M')).
  { pose proof (lchain_asc s B _ _ V') as Asc. rewrite (rlevel_node s vid' vnd' Ev') in Asc.
    apply (asc_notin _ _ _ Asc). exact Hlt. }
  assert (Dres : Den s3 (eref h) (restr M' phi')).
  { apply (den_ext s3 (eref h) _ _ Dh). intros c0 Hc. apply restr_shannon; assumption. }
  exists s3, (cadd c2 code_restrict [RN fid'; RN vid'] (eref h)), (eref h).
  split; [reflexivity|]. split; [exact B3|]. split; [exact X03|]. split; [|exact Dres].
  apply (qcacheok_add C cget cadd Hlossy Sg s3 c2 _ _ _
           (qcacheok_extends C cget Sg s2 s3 c2 B2 X3 Q2)); [unfold code_restrict; lia|].
  apply (qentry_restrict Sg s3 (RN fid') (RN vid') (eref h) phi' M');
    [apply (den_extends s s3 _ _ B X03 D') | apply (lchain_extends _ _ _ _ X03 V') | exact Dres].
Qed.

End R.
