(** * The BCDD recursion of [sat_count_edge] in [Saturating<uW>] (DD/SatCount.v, [sat_bcdd_sat])

    Like the BDD version (DD/SatCountProofs.v, Part D): the run returns the
    exact count while [2^vars] is representable, otherwise the out-of-range
    marker, except for the unsatisfiable function, whose count 0 is exact.
    The argument needs that no inner node denotes the constant true function:
    such a node would have two identical children (there is only one
    terminal in a BCDD: hypothesis [terms_kind]). *)

From Coq Require Import List NArith PArith Bool Arith Lia FMapPositive.
From OxiVerif Require Import DD.Table DD.TableExtra DD.TableProofs DD.SatCount DD.SatCountProofs.
Import ListNotations.

Arguments N.add : simpl never.
Arguments N.sub : simpl never.
Arguments N.mul : simpl never.
Arguments N.div : simpl never.
Arguments N.modulo : simpl never.
Arguments N.pow : simpl never.
Arguments N.min : simpl never.

Section SatBcddSat.
Variable w : N.
Hypothesis Hw : (2 <= w)%N.
Variable s : snap.
Hypothesis H : WF s.
Hypothesis Hkind : s_kind s = KBcdd.
Hypothesis Hterms : terms_kind s.
Variable vars : nat.
Hypothesis Hvars : nlevels s <= vars.

Let n := nlevels s.
Let K : N := (2 ^ N.of_nat (vars - n))%N.
Let T (r : ref) (tag : bool) : N := count_levels n (Fc s r tag).

Lemma Tc_term : forall t tag, T (RT t) tag = if tag then 0%N else (2 ^ N.of_nat n)%N.
Proof.
  intros t tag. unfold T, count_levels.
  rewrite (cnt_ext n 0 (Fc s (RT t) tag) (fun _ => negb tag)).
  2:{ intros a. unfold Fc, fun_bcdd. rewrite (semc_T s _ _ _ t) by reflexivity. reflexivity. }
  rewrite cnt_const. destruct tag; reflexivity.
Qed.

(** only the untagged terminal edge is satisfied by every assignment *)
Lemma full_is_true_c : forall k r tag, ref_ok s r -> n - rlevel s r <= k ->
  T r tag = (2 ^ N.of_nat n)%N -> exists t, r = RT t /\ tag = false.
Proof.
  induction k as [k IH] using lt_wf_ind. intros r tag Hok Hk HT.
  destruct r as [t|id].
  - rewrite Tc_term in HT. exists t. split; [reflexivity|]. destruct tag; [|reflexivity].
    pose proof (pow2_pos (N.of_nat n)). lia.
  - exfalso. destruct Hok as [nd E]. rewrite (rlevel_node s id nd E) in Hk.
    pose proof (wf_level s H id nd E) as Hlv. fold n in Hlv.
    destruct (two_children s id nd H (bcdd_binary s Hkind) E) as [e0 [e1 Hc]].
    destruct (node_children_ok_c s H id nd e0 e1 E Hc) as [[O0 L0] [O1 L1]].
    pose proof (total_node_c s H vars Hvars id tag nd e0 e1 E Hc) as Ht. fold n in Ht.
    fold (T (eref e0) (xorb tag (etag e0))) in Ht. fold (T (eref e1) (xorb tag (etag e1))) in Ht.
    fold (T (RN id) tag) in Ht.
    assert (B0 : (T (eref e0) (xorb tag (etag e0)) <= 2 ^ N.of_nat n)%N) by apply cnt_le.
    assert (B1 : (T (eref e1) (xorb tag (etag e1)) <= 2 ^ N.of_nat n)%N) by apply cnt_le.
    destruct (IH (n - rlevel s (eref e0)) ltac:(lia) (eref e0) (xorb tag (etag e0)) O0 (le_n _) ltac:(lia)) as [t0 [R0 X0]].
    destruct (IH (n - rlevel s (eref e1)) ltac:(lia) (eref e1) (xorb tag (etag e1)) O1 (le_n _) ltac:(lia)) as [t1 [R1 X1]].
    (* both children are the same edge *)
    assert (Et : t0 = t1).
    { rewrite R0 in O0. rewrite R1 in O1. destruct O0 as [v0 V0]. destruct O1 as [v1 V1].
      apply (bcdd_one_term s t0 t1 v0 v1 Hkind Hterms V0 V1). }
    assert (Ee : e0 = e1).
    { apply edge_ext; [congruence|]. destruct tag, (etag e0), (etag e1); simpl in *; congruence. }
    pose proof (wf_reduced s H id nd E) as Hr. unfold reduced in Hr. rewrite Hkind in Hr.
    destruct Hr as [Hr _]. apply Hr. rewrite Hc. subst e1.
    intros x y [<-|[<-|[]]] [<-|[<-|[]]]; reflexivity.
Qed.

Lemma node_not_full_c : forall id tag nd, find_node s id = Some nd ->
  (T (RN id) tag + 1 <= 2 ^ N.of_nat n)%N.
Proof.
  intros id tag nd E.
  assert (B : (T (RN id) tag <= 2 ^ N.of_nat n)%N) by apply cnt_le.
  destruct (N.eq_dec (T (RN id) tag) (2 ^ N.of_nat n)) as [Heq|Hne]; [|lia].
  destruct (full_is_true_c _ (RN id) tag ltac:(exists nd; exact E) (le_n _) Heq) as [t [R _]]. discriminate.
Qed.

Definition run_c (f : nat) (r : ref) (tag : bool) : option N :=
  walk (bcdd_scheme (sat_ops w) (n_shl (sat_ops w) 1%N vars)) s f r tag.

Lemma run_c_T : forall f t tag,
  run_c f (RT t) tag = Some (if tag then 0%N else n_shl (sat_ops w) 1%N vars).
Proof. intros. unfold run_c. rewrite walk_T. reflexivity. Qed.

Lemma run_c_node : forall f id tag nd e0 e1,
  find_node s id = Some nd -> nchildren nd = [e0; e1] ->
  run_c (S f) (RN id) tag =
  match run_c f (eref e0) (xorb tag (etag e0)), run_c f (eref e1) (xorb tag (etag e1)) with
  | Some a, Some b => Some (n_shr (sat_ops w) (n_add (sat_ops w) a b) 1)
  | _, _ => None
  end.
Proof.
  intros f id tag nd e0 e1 E Hc. unfold run_c.
  rewrite (walk_node _ s f id tag nd e0 e1 E Hc). reflexivity.
Qed.

Lemma K_vars_cs : (K * 2 ^ N.of_nat n = 2 ^ N.of_nat vars)%N.
Proof. unfold K. rewrite <- pow2_add. f_equal. f_equal. lia. Qed.

Lemma run_c_main : forall f r tag, ref_ok s r -> n - rlevel s r < f ->
  run_c f r tag = Some (saturate w vars (K * T r tag)).
Proof.
  induction f as [|f IH]; intros r tag Hok Hf; [lia|].
  destruct r as [t|id].
  - rewrite run_c_T, Tc_term, (shl_one w Hw s vars Hvars). f_equal. destruct tag.
    + rewrite N.mul_0_r. unfold saturate. destruct (N.of_nat vars <? w)%N; reflexivity.
    + rewrite K_vars_cs. reflexivity.
  - destruct Hok as [nd E]. rewrite (rlevel_node s id nd E) in Hf.
    destruct (two_children s id nd H (bcdd_binary s Hkind) E) as [e0 [e1 Hc]].
    destruct (node_children_ok_c s H id nd e0 e1 E Hc) as [[O0 L0] [O1 L1]].
    pose proof (rlevel_le s H (eref e0)) as B0. pose proof (rlevel_le s H (eref e1)) as B1.
    fold n in B0, B1.
    rewrite (run_c_node f id tag nd e0 e1 E Hc).
    rewrite (IH (eref e0) _ O0), (IH (eref e1) _ O1) by lia. f_equal.
    pose proof (total_node_c s H vars Hvars id tag nd e0 e1 E Hc) as Ht. fold n in Ht.
    fold (T (eref e0) (xorb tag (etag e0))) in Ht. fold (T (eref e1) (xorb tag (etag e1))) in Ht.
    fold (T (RN id) tag) in Ht.
    pose proof (node_not_full_c id tag nd E) as Hnf. pose proof K_vars_cs as HK.
    assert (HK1 : (1 <= K)%N) by (unfold K; pose proof (pow2_pos (N.of_nat (vars - n))); lia).
    assert (Hab : (K * T (eref e0) (xorb tag (etag e0)) + K * T (eref e1) (xorb tag (etag e1)) =
                   K * T (RN id) tag * 2)%N).
    { rewrite <- N.mul_add_distr_l, Ht. lia. }
    rewrite (comb_saturate w Hw s vars Hvars (K * T (RN id) tag)%N _ _ Hab).
    + rewrite Hab, N.div_mul by discriminate. reflexivity.
    + rewrite <- HK. nia.
Qed.

End SatBcddSat.

(** The BCDD recursion run in [Saturating<uW>] returns the exact count as long
    as [2^vars] is representable; otherwise the out-of-range marker, except for
    the unsatisfiable function (count 0). *)
Theorem sat_bcdd_saturating : forall w, (2 <= w)%N -> forall s vars e,
  WF s -> s_kind s = KBcdd -> terms_kind s -> nlevels s <= vars -> ref_ok s (eref e) ->
  sat_bcdd_sat w s (S (nlevels s)) vars e =
  option_map (saturate w vars) (sat_bcdd s (S (nlevels s)) vars e).
Proof.
  intros w Hw s vars e H Hk Ht Hv Hok.
  rewrite (sat_bcdd_correct s vars e H Hk Hv Hok). simpl option_map.
  unfold sat_bcdd_sat. fold (run_c w s vars (S (nlevels s)) (eref e) (etag e)).
  rewrite (run_c_main w Hw s H Hk Ht vars Hv (S (nlevels s)) (eref e) (etag e) Hok) by lia.
  unfold Fc. rewrite edge_eta. reflexivity.
Qed.

Corollary sat_bcdd_saturating_exact : forall w, (2 <= w)%N -> forall s vars e,
  WF s -> s_kind s = KBcdd -> terms_kind s -> nlevels s <= vars -> (N.of_nat vars < w)%N ->
  ref_ok s (eref e) ->
  sat_bcdd_sat w s (S (nlevels s)) vars e =
  Some (2 ^ N.of_nat (vars - nlevels s) * count_levels (nlevels s) (fun_bcdd s e))%N.
Proof.
  intros w Hw s vars e H Hk Ht Hv Hlt Hok. rewrite (sat_bcdd_saturating w Hw s vars e H Hk Ht Hv Hok).
  rewrite (sat_bcdd_correct s vars e H Hk Hv Hok). simpl. unfold saturate.
  destruct (N.ltb_spec (N.of_nat vars) w); [reflexivity | lia].
Qed.

Example ex_sat_bcdd_u64 :
  wf_full_b ex_sat_bcdd = true /\
  sat_bcdd_sat 64 ex_sat_bcdd 4 63 (mkEdge (RN 4) false) = Some (5 * 2 ^ 60)%N /\
  sat_bcdd_sat 64 ex_sat_bcdd 4 63 (mkEdge (RN 4) true) = Some (3 * 2 ^ 60)%N /\
  sat_bcdd_sat 64 ex_sat_bcdd 4 64 (mkEdge (RN 4) true) = Some (sat_max 64) /\
  sat_bcdd_sat 64 ex_sat_bcdd 4 64 (mkEdge (RT 0) true) = Some 0%N.
Proof. vm_compute. repeat split; reflexivity. Qed.
