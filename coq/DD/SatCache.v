(** * [SatCountCache] objects kept over the life of a manager (package C12s)

    Executable definitions only (proofs: DD/SatCacheProofs.v, DD/SatNatProofs.v,
    DD/SatSmallVars.v).

    Rust sources mirrored here (on top of DD/SatCount.v, which mirrors the three
    [sat_count_edge] and [SatCountCache::clear_if_invalid]):
    - [Manager::gc] and [Manager::reorder] of oxidd-manager-index/src/manager.rs
      (and oxidd-manager-pointer/src/manager.rs), as far as the counters go:
      [gc] does [gc_count.fetch_add(1)], [reorder] does [gc_count += 1;
      reorder_count += 1] after the closure ("garbage collections are
      performed, but not necessarily through Self::gc");
    - the caller's side: several [SatCountCache] objects (one per cache id and
      number type, [cache_all] fixed at creation) handed to [sat_count] calls
      that are interleaved with arbitrary other manager operations;
    - [BooleanFunction::pick_cube_uniform_edge] of oxidd-core/src/function.rs:
      the closure given to [pick_cube_edge] calls [sat_count_edge] on the two
      cofactors of the node it is shown, with [vars = manager.num_levels()] and
      the caller's cache ([uni_counts]);
    - the number type [Natural] as an instance of the number interface
      ([nat_ops]; [Saturating<uW>] is [sat_ops] of DD/SatCount.v, [F64] is
      [f64_ops] of DD/SatCountF64.v).

    The cache is tagged with [(vars, epoch)], [epoch = Manager::gc_count()] at
    the time of the last call.  [reorder_count] is not part of the tag: the
    code relies on [reorder] incrementing [gc_count] as well.  The events of a
    history:
    - [EGrow s']: anything that frees no node id -- operations creating nodes,
      cloning / dropping handles (reference counts change, the node stays in
      its unique table until the next collection), [add_vars];
    - [EGc s']: a collection: any set of nodes may disappear, their ids are
      free for re-use by later [EGrow] steps (the new table [s'] is arbitrary);
    - [EReorder s']: a reordering: nodes are removed, created and relabelled;
    - [ECount cid vars e]: [sat_count(vars)] of the edge [e] through the cache
      object [cid]. *)
From Coq Require Import List NArith PArith Bool Arith FMapPositive.
From OxiVerif Require Import DD.Table DD.SatCount Num.Natural DD.Pick.
Import ListNotations.

(** ** [Natural] as a counting type ([impl SatCountNumber]: [From<u32>], [Add],
       [Shl<u32>], [Shr<u32>], [MIN_EXP = 0]; bigint.rs) *)
Definition nat_ops : numops natural :=
  mkOps natural (from_u32 0%N) (from_u32 1%N) nat_add
        (fun x k => nat_shl x (N.of_nat k))
        (fun x k => nat_shr x (N.of_nat k))
        0.

(** ** The manager as [clear_if_invalid] and [sat_count_edge] see it *)

Record mgr := mkMgr { m_snap : snap; m_gc : N; m_reorder : N }.

Inductive event :=
| EGrow (s' : snap)
| EGc (s' : snap)
| EReorder (s' : snap)
| ECount (cid : positive) (vars : nat) (e : edge).

(** [bump = true]: [reorder] increments [gc_count] (the code as it is);
    [bump = false]: a manager whose [reorder] only counts reorderings (used
    for the refutation example only) *)
Definition mgr_step_with (bump : bool) (m : mgr) (ev : event) : mgr :=
  match ev with
  | EGrow s' => mkMgr s' (m_gc m) (m_reorder m)
  | EGc s' => mkMgr s' (m_gc m + 1)%N (m_reorder m)
  | EReorder s' => mkMgr s' (if bump then m_gc m + 1 else m_gc m)%N (m_reorder m + 1)%N
  | ECount _ _ _ => m
  end.

Notation mgr_step := (mgr_step_with true).

(** ** Validity rules *)

Section Rule.
Context {A : Type}.
Variable o : numops A.

(** [clear_if_invalid] without the [gc_count] comparison (a wrong rule; the
    refutation example and the seeded change of the check use it) *)
Definition clear_vars_only (c : @scache A) (epoch : N) (vars : nat) : @scache A :=
  if negb (Nat.eqb vars (c_vars c)) then mkCache epoch vars (PositiveMap.empty A) (c_all c) else c.

(** ... without the [vars] comparison *)
Definition clear_epoch_only (c : @scache A) (epoch : N) (vars : nat) : @scache A :=
  if negb (N.eqb epoch (c_epoch c)) then mkCache epoch vars (PositiveMap.empty A) (c_all c) else c.

(** [sat_count_edge] with the cache preparation [clr] in the place of
    [cache.clear_if_invalid(manager, vars)] *)
Definition sat_query_with (clr : @scache A -> N -> nat -> @scache A)
    (c : @scache A) (epoch : N) (s : snap) (vars : nat) (e : edge) : option (A * @scache A) :=
  let c' := clr c epoch vars in
  let fuel := S (nlevels s) in
  let res :=
    match s_kind s with
    | KBcdd => sat_count_bcdd o s fuel vars (c_all c') e (c_map c')
    | KZbdd => sat_count_zbdd o s fuel vars (c_all c') (eref e) (c_map c')
    | _ => sat_count_bdd o s fuel vars (c_all c') (eref e) (c_map c')
    end in
  match res with
  | Some (v, m) => Some (v, set_map c' m)
  | None => None
  end.

(** ** The caller's cache objects *)

Definition caches := PositiveMap.t (@scache A).

(** [SatCountCache::default()] with [cache_all] set at creation *)
Definition cache_new (all : bool) : @scache A := mkCache 0%N 0 (PositiveMap.empty A) all.

Definition get_cache (alls : positive -> bool) (cs : caches) (cid : positive) : @scache A :=
  match PositiveMap.find cid cs with
  | Some c => c
  | None => cache_new (alls cid)
  end.

(** one [sat_count] through the cache object [cid] *)
Definition count_event_with (clr : @scache A -> N -> nat -> @scache A) (alls : positive -> bool)
    (m : mgr) (cs : caches) (cid : positive) (vars : nat) (e : edge) : option (A * caches) :=
  match sat_query_with clr (get_cache alls cs cid) (m_gc m) (m_snap m) vars e with
  | Some (v, c') => Some (v, PositiveMap.add cid c' cs)
  | None => None
  end.

Definition count_event := count_event_with (@clear_if_invalid A).

(** a whole history: the values returned by the [ECount] events, in order *)
Fixpoint run_events_with (clr : @scache A -> N -> nat -> @scache A) (bump : bool) (alls : positive -> bool)
    (m : mgr) (cs : caches) (evs : list event) : option (list A * mgr * caches) :=
  match evs with
  | [] => Some ([], m, cs)
  | ECount cid vars e :: rest =>
    match count_event_with clr alls m cs cid vars e with
    | None => None
    | Some (v, cs1) =>
      match run_events_with clr bump alls m cs1 rest with
      | Some (vs, m', cs') => Some (v :: vs, m', cs')
      | None => None
      end
    end
  | ev :: rest => run_events_with clr bump alls (mgr_step_with bump m ev) cs rest
  end.

Definition run_events := run_events_with (@clear_if_invalid A) true.

(** the reference values: the same calls, each on a fresh cache without caching *)
Fixpoint ref_events (bump : bool) (m : mgr) (evs : list event) : list (option A) :=
  match evs with
  | [] => []
  | ECount _ vars e :: rest => sat_ref o (m_snap m) vars e :: ref_events bump m rest
  | ev :: rest => ref_events bump (mgr_step_with bump m ev) rest
  end.

(** ** [pick_cube_uniform_edge]: the two [sat_count_edge] calls of the closure

    [view] is [Pick.view_plain] (BDD, ZBDD: [collect_children]) or
    [Pick.view_bcdd] ([collect_cofactors(tag, node)]); [vars = num_levels]. *)
Definition uni_counts (view : snap -> edge -> cview) (c : @scache A) (epoch : N) (s : snap) (e : edge)
  : option (A * A * @scache A) :=
  match view s e with
  | CNode _ t x =>
    match sat_query o c epoch s (nlevels s) t with
    | Some (ct, c1) =>
      match sat_query o c1 epoch s (nlevels s) x with
      | Some (ce, c2) => Some (ct, ce, c2)
      | None => None
      end
    | None => None
    end
  | _ => None
  end.

(** the calls of one [pick_cube_uniform]: the closure is called at the steps of
    the trace where the choice was asked, in path order *)
Fixpoint uni_trace (view : snap -> edge -> cview) (c : @scache A) (epoch : N) (s : snap) (tr : list step)
  : option (@scache A) :=
  match tr with
  | [] => Some c
  | p :: r =>
    if sp_asked p then
      match uni_counts view c epoch s (sp_edge p) with
      | Some (_, _, c') => uni_trace view c' epoch s r
      | None => None
      end
    else uni_trace view c epoch s r
  end.

End Rule.

(** ** The epoch discipline, decidable on two snapshots

    [same_table_b s s' = true] iff every node of [s] is still stored in [s']
    under its id with the same children, and the terminals and the kind are the
    same ([same_table] of DD/SatCountProofs.v): what must hold between two
    observations of a manager with the same [gc_count]. *)
Definition opt_N_eqb (a b : option N) : bool :=
  match a, b with
  | Some x, Some y => N.eqb x y
  | None, None => true
  | _, _ => false
  end.

Definition same_table_b (s s' : snap) : bool :=
  kind_eqb (s_kind s') (s_kind s)
  && forallb (fun p : N * N => opt_N_eqb (term_val s' (fst p)) (term_val s (fst p))) (s_terms s ++ s_terms s')
  && forallb (fun p : positive * node =>
                match find_node s' (fst p) with
                | Some nd' => edges_eqb (nchildren nd') (nchildren (snd p))
                | None => false
                end) (PositiveMap.elements (s_nodes s)).

(** two consecutive observations [(s, gc, reorder)], [(s', gc', reorder')] of
    one manager are consistent with [mgr_step]: the counters do not decrease,
    a reordering shows in [gc_count] too, and an unchanged [gc_count] means
    that no node id was freed *)
Definition obs_ok_b (m m' : mgr) : bool :=
  N.leb (m_gc m) (m_gc m') && N.leb (m_reorder m) (m_reorder m')
  && N.leb (m_reorder m' - m_reorder m) (m_gc m' - m_gc m)
  && (negb (N.eqb (m_gc m) (m_gc m')) || same_table_b (m_snap m) (m_snap m')).

(** ** Height: the longest path of inner nodes below a reference

    [sat_count(vars)] of a BDD / BCDD with [vars] below the number of levels is
    exact as long as no path tests more than [vars] variables (DD/SatSmallVars.v). *)
Fixpoint height (s : snap) (fuel : nat) (r : ref) : nat :=
  match r with
  | RT _ => 0
  | RN id =>
    match fuel with
    | O => 0
    | S f =>
      match find_node s id with
      | None => 0
      | Some nd => S (fold_right (fun e acc => Nat.max (height s f (eref e)) acc) 0 (nchildren nd))
      end
    end
  end.

Definition height_of (s : snap) (r : ref) : nat := height s (S (nlevels s)) r.

(** ** Examples *)

(** [ex_sat_bdd] after its handle was dropped and a collection ran, with the
    function x1 /\ x2 built afterwards: the node id 2 (formerly x2) now holds
    x1 /\ x2, the id 5 is new *)
Definition ex_reuse_bdd : snap :=
  mkSnap KBdd
    (PositiveMap.add 2%positive (mkNode 1 [xe (RN 5); xe (RT 0)] 1 1)
    (PositiveMap.add 5%positive (mkNode 2 [xe (RT 1); xe (RT 0)] 2 1)
       (PositiveMap.empty node)))
    [(0%N, 0%N); (1%N, 1%N)]
    [0; 1; 2] [0; 1; 2]
    [(0%N, xe (RN 2))].

(** count (x0 /\ x1) \/ x2 over 3 variables with a [cache_all] cache, drop,
    collect (here: everything goes), build x1 /\ x2 (re-using id 2), count it *)
Definition ex_reuse_events : list event :=
  [ ECount 1%positive 3 (xe (RN 4));
    EGc (mkSnap KBdd (PositiveMap.empty node) [(0%N, 0%N); (1%N, 1%N)] [0; 1; 2] [0; 1; 2] []);
    EGrow ex_reuse_bdd;
    ECount 1%positive 3 (xe (RN 2)) ].

(** the same with a reordering in the place of the collection *)
Definition ex_reuse_events_reorder : list event :=
  [ ECount 1%positive 3 (xe (RN 4));
    EReorder ex_reuse_bdd;
    ECount 1%positive 3 (xe (RN 2)) ].

(** a change of [vars] on an unchanged table *)
Definition ex_vars_events : list event :=
  [ ECount 1%positive 3 (xe (RN 4)); ECount 1%positive 4 (xe (RN 4)) ].

Definition ex_mgr0 : mgr := mkMgr ex_sat_bdd 0%N 0%N.
