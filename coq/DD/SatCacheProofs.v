(** * Proofs about kept [SatCountCache] objects (model: DD/SatCache.v)

    The theorem: over any history of manager events (growth, collections,
    reorderings; node ids freed by a collection or reordering and re-used for
    other functions later) every [sat_count] served through any of the
    caller's cache objects returns what the same call returns on a fresh cache
    without caching ([sat_ref]) -- for every number type; in exact arithmetic
    that is the number of satisfying assignments.  The epoch discipline
    ([hist_ok] of DD/SatQueryProofs.v, there a hypothesis) is derived here from
    the step relation of the manager: [gc_count] never decreases, every event
    that can free a node id increments it, so a cache whose tag carries the
    current [gc_count] was filled on a table that the current table extends.

    The tag rule is necessary: without the [gc_count] comparison, without the
    [vars] comparison, or with a manager whose [reorder] does not increment
    [gc_count], concrete histories return wrong counts ([*_refuted]). *)
From Coq Require Import List NArith PArith Bool Arith Lia FMapPositive.
From OxiVerif Require Import DD.Table DD.TableExtra DD.TableProofs DD.SatCount DD.SatCountProofs DD.SatQueryProofs.
From OxiVerif Require Import Num.Natural DD.Pick DD.SatCache.
Import ListNotations.

(** * Part 1: [same_table_b] decides [same_table] *)

Lemma kind_eqb_iff : forall a b, kind_eqb a b = true <-> a = b.
Proof. intros a b. destruct a, b; simpl; split; intros E; try reflexivity; try discriminate. Qed.

Lemma opt_N_eqb_iff : forall a b, opt_N_eqb a b = true <-> a = b.
Proof.
  intros [x|] [y|]; simpl; split; intros E; try reflexivity; try discriminate.
  - apply N.eqb_eq in E. congruence.
  - inversion E. apply N.eqb_refl.
Qed.

Theorem same_table_b_spec : forall s s', same_table_b s s' = true <-> same_table s s'.
Proof.
  intros s s'. unfold same_table_b. rewrite !andb_true_iff, kind_eqb_iff, !forallb_forall. split.
  - intros [[Hk Ht] Hn]. constructor.
    + exact Hk.
    + intros t. destruct (term_val s t) as [v|] eqn:E.
      * apply opt_N_eqb_iff. rewrite <- E. apply (Ht (t, v)). apply in_or_app. left.
        apply assoc_N_In. exact E.
      * destruct (term_val s' t) as [v'|] eqn:E'; [|reflexivity].
        assert (X : opt_N_eqb (term_val s' t) (term_val s t) = true).
        { apply (Ht (t, v')). apply in_or_app. right. apply assoc_N_In. exact E'. }
        apply opt_N_eqb_iff in X. congruence.
    + intros id nd E. specialize (Hn (id, nd) (proj1 (find_node_elements s id nd) E)). simpl in Hn.
      destruct (find_node s' id) as [nd'|]; [|discriminate].
      exists nd'. split; [reflexivity|]. apply edges_eqb_eq. exact Hn.
  - intros X. split; [split|].
    + apply (st_kind s s' X).
    + intros [t v] _. simpl. apply opt_N_eqb_iff. apply (st_terms s s' X).
    + intros [id nd] Hin. simpl.
      assert (E : find_node s id = Some nd) by (apply find_node_elements; exact Hin).
      destruct (st_nodes s s' X id nd E) as [nd' [E' Hc]]. rewrite E'. apply edges_eqb_eq. exact Hc.
Qed.

Lemma same_table_trans : forall s1 s2 s3, same_table s1 s2 -> same_table s2 s3 -> same_table s1 s3.
Proof.
  intros s1 s2 s3 X Y. constructor.
  - rewrite (st_kind s2 s3 Y). apply (st_kind s1 s2 X).
  - intros t. rewrite (st_terms s2 s3 Y). apply (st_terms s1 s2 X).
  - intros id nd E. destruct (st_nodes s1 s2 X id nd E) as [nd2 [E2 C2]].
    destruct (st_nodes s2 s3 Y id nd2 E2) as [nd3 [E3 C3]]. exists nd3. split; [exact E3 | congruence].
Qed.

(** * Part 2: histories *)

(** the manager holds a well-formed binary diagram *)
Definition mgr_ok (m : mgr) : Prop := WF (m_snap m) /\ binary (s_kind (m_snap m)).

(** what an event may do.  [EGrow]: no node disappears, no child list changes
    (reference counts, levels, handles, the number of levels may change);
    [EGc] / [EReorder]: any well-formed table of the same kind;
    [ECount]: the edge is one of the current table *)
Definition step_ok (m : mgr) (ev : event) : Prop :=
  match ev with
  | EGrow s' => WF s' /\ same_table (m_snap m) s'
  | EGc s' => WF s' /\ s_kind s' = s_kind (m_snap m)
  | EReorder s' => WF s' /\ s_kind s' = s_kind (m_snap m)
  | ECount _ _ e => ref_ok (m_snap m) (eref e)
  end.

Fixpoint hist_valid (m : mgr) (evs : list event) : Prop :=
  match evs with
  | [] => True
  | ev :: rest => step_ok m ev /\ hist_valid (mgr_step m ev) rest
  end.

Definition final_mgr (m : mgr) (evs : list event) : mgr := fold_left mgr_step evs m.

Lemma mgr_ok_step : forall m ev, mgr_ok m -> step_ok m ev -> mgr_ok (mgr_step m ev).
Proof.
  intros m ev [H Hb] Hs. destruct ev as [s'|s'|s'|cid vars e]; simpl in *.
  - destruct Hs as [H' X]. split; [exact H'|]. simpl. rewrite (st_kind _ _ X). exact Hb.
  - destruct Hs as [H' K]. split; [exact H'|]. simpl. rewrite K. exact Hb.
  - destruct Hs as [H' K]. split; [exact H'|]. simpl. rewrite K. exact Hb.
  - split; assumption.
Qed.

(** the counters: [gc_count] and [reorder_count] never decrease, a reordering
    shows in [gc_count] as well *)
Lemma step_counters : forall m ev,
  (m_gc m <= m_gc (mgr_step m ev) /\ m_reorder m <= m_reorder (mgr_step m ev) /\
   m_reorder (mgr_step m ev) - m_reorder m <= m_gc (mgr_step m ev) - m_gc m)%N.
Proof. intros m ev. destruct ev; simpl; lia. Qed.

Lemma hist_counters : forall evs m,
  (m_gc m <= m_gc (final_mgr m evs) /\ m_reorder m <= m_reorder (final_mgr m evs) /\
   m_reorder (final_mgr m evs) - m_reorder m <= m_gc (final_mgr m evs) - m_gc m)%N.
Proof.
  unfold final_mgr. induction evs as [|ev rest IH]; intros m; simpl; [lia|].
  specialize (IH (mgr_step m ev)). pose proof (step_counters m ev). lia.
Qed.

(** an unchanged [gc_count] means that no node id was freed: the table was
    only extended *)
Lemma hist_same_gc : forall evs m, WF (m_snap m) -> hist_valid m evs ->
  m_gc (final_mgr m evs) = m_gc m -> same_table (m_snap m) (m_snap (final_mgr m evs)).
Proof.
  induction evs as [|ev rest IH]; intros m H Hv Hg; simpl in *; [apply same_table_refl|].
  destruct Hv as [Hs Hr].
  pose proof (hist_counters rest (mgr_step m ev)) as [Hc _]. unfold final_mgr in *.
  destruct ev as [s'|s'|s'|cid vars e]; simpl in *.
  - destruct Hs as [H' X]. eapply same_table_trans; [exact X|]. apply (IH (mkMgr s' (m_gc m) (m_reorder m))); assumption.
  - lia.
  - lia.
  - apply (IH m); assumption.
Qed.

(** what the driver checks on consecutive observations of the real manager *)
Theorem obs_ok_of_history : forall evs m, WF (m_snap m) -> hist_valid m evs ->
  obs_ok_b m (final_mgr m evs) = true.
Proof.
  intros evs m H Hv. unfold obs_ok_b. pose proof (hist_counters evs m) as [H1 [H2 H3]].
  rewrite !andb_true_iff, !N.leb_le, orb_true_iff, negb_true_iff. repeat split; try assumption.
  destruct (N.eqb_spec (m_gc m) (m_gc (final_mgr m evs))) as [E|E]; [right | left; reflexivity].
  apply same_table_b_spec. apply hist_same_gc; [assumption | assumption | congruence].
Qed.

Section Hist.
Context {A : Type}.
Variable o : numops A.
Variable alls : positive -> bool.

Lemma sat_query_with_std : forall c epoch s vars e,
  sat_query_with o (@clear_if_invalid A) c epoch s vars e = sat_query o c epoch s vars e.
Proof. reflexivity. Qed.

(** the invariant of one cache object: its epoch tag is not ahead of the
    manager, and if it is the current [gc_count] then the content is exact for
    the current table *)
Definition cinv (m : mgr) (c : @scache A) : Prop :=
  (c_epoch c <= m_gc m)%N /\ (c_epoch c = m_gc m -> cache_valid o c (m_snap m)).

Definition caches_inv (m : mgr) (cs : @caches A) : Prop :=
  forall cid c, PositiveMap.find cid cs = Some c -> cinv m c.

Lemma cinv_new : forall m all, cinv m (cache_new all).
Proof.
  intros m all. split; [simpl; lia|]. intros _. unfold cache_valid, cache_new. simpl. apply cache_ok_empty.
Qed.

Lemma cinv_get : forall m cs cid, caches_inv m cs -> cinv m (get_cache alls cs cid).
Proof.
  intros m cs cid Hc. unfold get_cache. destruct (PositiveMap.find cid cs) as [c|] eqn:E; [apply (Hc cid c E) | apply cinv_new].
Qed.

Lemma caches_inv_empty : forall m, caches_inv m (PositiveMap.empty _).
Proof. intros m cid c E. rewrite PositiveMap.gempty in E. discriminate. Qed.

(** the dangerous events: a collection or a reordering makes every tag stale *)
Lemma cinv_step : forall m ev c, mgr_ok m -> step_ok m ev -> cinv m c -> cinv (mgr_step m ev) c.
Proof.
  intros m ev c [H Hb] Hs [Hle Hv]. destruct ev as [s'|s'|s'|cid vars e]; simpl in *.
  - destruct Hs as [H' X]. split; [exact Hle|]. simpl. intros E.
    apply (cache_valid_extend o c (m_snap m) s' H H' X). apply Hv. exact E.
  - split; simpl; [lia|]. intros E. lia.
  - split; simpl; [lia|]. intros E. lia.
  - split; assumption.
Qed.

(** one call through a cache object of the table *)
Lemma count_event_sound : forall m cs cid vars e, mgr_ok m -> caches_inv m cs -> ref_ok (m_snap m) (eref e) ->
  exists v cs', count_event o alls m cs cid vars e = Some (v, cs') /\
    sat_ref o (m_snap m) vars e = Some v /\ caches_inv m cs'.
Proof.
  intros m cs cid vars e [H Hb] Hc Hok.
  destruct (sat_ref_total o (m_snap m) vars e H Hb Hok) as [v Ev].
  destruct (cinv_get m cs cid Hc) as [Hle Hv].
  destruct (sat_query_sound o (get_cache alls cs cid) (m_gc m) (m_snap m) vars e v H Hb Hok
              (fun E _ => Hv E) Ev) as [c' [Eq [Ee [_ [_ Hv']]]]].
  exists v, (PositiveMap.add cid c' cs). unfold count_event, count_event_with.
  rewrite sat_query_with_std, Eq. split; [reflexivity|]. split; [exact Ev|].
  intros cid' c0 E. destruct (Pos.eq_dec cid' cid) as [->|Hne].
  - rewrite PositiveMap.gss in E. inversion E; subst c0. split; [lia | intros _; exact Hv'].
  - rewrite PositiveMap.gso in E by exact Hne. apply (Hc cid' c0 E).
Qed.

Lemma run_events_from : forall evs m cs, mgr_ok m -> caches_inv m cs -> hist_valid m evs ->
  exists vs cs', run_events o alls m cs evs = Some (vs, final_mgr m evs, cs') /\
    map Some vs = ref_events o true m evs /\ caches_inv (final_mgr m evs) cs'.
Proof.
  induction evs as [|ev rest IH]; intros m cs Hm Hc Hv.
  - exists [], cs. split; [reflexivity|]. split; [reflexivity | exact Hc].
  - destruct Hv as [Hs Hr]. pose proof (mgr_ok_step m ev Hm Hs) as Hm'.
    assert (Hother : (forall cid vars e, ev <> ECount cid vars e) ->
              exists vs cs', run_events o alls m cs (ev :: rest) = Some (vs, final_mgr m (ev :: rest), cs') /\
                map Some vs = ref_events o true m (ev :: rest) /\ caches_inv (final_mgr m (ev :: rest)) cs').
    { intros Hne.
      assert (Hc' : caches_inv (mgr_step m ev) cs).
      { intros cid c E. apply cinv_step; [exact Hm | exact Hs | apply (Hc cid c E)]. }
      destruct (IH (mgr_step m ev) cs Hm' Hc' Hr) as [vs [cs' [Er [Ef Hi]]]].
      exists vs, cs'. unfold run_events in *.
      destruct ev as [s'|s'|s'|cid vars e]; try (split; [exact Er | split; [exact Ef | exact Hi]]).
      exfalso. apply (Hne cid vars e). reflexivity. }
    destruct ev as [s'|s'|s'|cid vars e]; try (apply Hother; intros; discriminate).
    clear Hother. simpl in Hs.
    destruct (count_event_sound m cs cid vars e Hm Hc Hs) as [v [cs1 [Ec [Ev Hc1]]]].
    destruct (IH m cs1 Hm Hc1 Hr) as [vs [cs' [Er [Ef Hi]]]].
    exists (v :: vs), cs'. unfold run_events, count_event in *. simpl. rewrite Ec, Er.
    split; [reflexivity|]. split; [|exact Hi]. simpl. rewrite Ev, Ef. reflexivity.
Qed.

(** Kept caches are transparent: whatever happens to the manager between the
    calls and however the calls are distributed over the caller's cache
    objects, every call returns the value of the uncached computation on the
    table of the moment. *)
Theorem cache_history_correct : forall evs m, mgr_ok m -> hist_valid m evs ->
  exists vs cs', run_events o alls m (PositiveMap.empty _) evs = Some (vs, final_mgr m evs, cs') /\
    map Some vs = ref_events o true m evs.
Proof.
  intros evs m Hm Hv. destruct (run_events_from evs m _ Hm (caches_inv_empty m) Hv) as [vs [cs' [Er [Ef _]]]].
  exists vs, cs'. split; assumption.
Qed.

(** a collection or reordering between two uses of a cache object empties it:
    no entry that was stored before the event is ever read afterwards, in
    particular not the entry of a node id that was freed and re-used *)
Theorem stale_entries_never_read : forall m ev c vars e,
  (exists s', ev = EGc s' \/ ev = EReorder s') -> (c_epoch c <= m_gc m)%N ->
  sat_query o c (m_gc (mgr_step m ev)) (m_snap (mgr_step m ev)) vars e =
  sat_query o (mkCache (m_gc (mgr_step m ev)) vars (PositiveMap.empty A) (c_all c))
            (m_gc (mgr_step m ev)) (m_snap (mgr_step m ev)) vars e.
Proof.
  intros m ev c vars e [s' [->| ->]] Hle; apply sat_query_clears; left; simpl; lia.
Qed.

(** ** [pick_cube_uniform]: the counts the closure obtains through the cache *)
Theorem uni_counts_sound : forall view m c e l t x, mgr_ok m -> cinv m c ->
  view (m_snap m) e = CNode l t x -> ref_ok (m_snap m) (eref t) -> ref_ok (m_snap m) (eref x) ->
  exists ct ce c', uni_counts o view c (m_gc m) (m_snap m) e = Some (ct, ce, c') /\
    sat_ref o (m_snap m) (nlevels (m_snap m)) t = Some ct /\
    sat_ref o (m_snap m) (nlevels (m_snap m)) x = Some ce /\ cinv m c'.
Proof.
  intros view m c e l t x [H Hb] [Hle Hv] Ev Ot Ox. unfold uni_counts. rewrite Ev.
  destruct (sat_ref_total o (m_snap m) (nlevels (m_snap m)) t H Hb Ot) as [ct Et].
  destruct (sat_ref_total o (m_snap m) (nlevels (m_snap m)) x H Hb Ox) as [ce Ee].
  destruct (sat_query_sound o c (m_gc m) (m_snap m) _ t ct H Hb Ot (fun E _ => Hv E) Et)
    as [c1 [Q1 [E1 [_ [_ V1]]]]].
  destruct (sat_query_sound o c1 (m_gc m) (m_snap m) _ x ce H Hb Ox (fun _ _ => V1) Ee)
    as [c2 [Q2 [E2 [_ [_ V2]]]]].
  exists ct, ce, c2. rewrite Q1, Q2. repeat split; try assumption; try reflexivity.
  - lia.
  - intros _. exact V2.
Qed.

End Hist.

(** * Part 3: exact arithmetic *)

Arguments N.mul : simpl never.
Arguments N.pow : simpl never.
Arguments N.div : simpl never.

(** every counting call of the history asks for at least as many variables as
    there are levels, on a BDD / BCDD / ZBDD *)
Fixpoint counting_hist (m : mgr) (evs : list event) : Prop :=
  match evs with
  | [] => True
  | ECount _ vars e :: rest =>
    counting_kind (s_kind (m_snap m)) /\ nlevels (m_snap m) <= vars /\ counting_hist m rest
  | ev :: rest => counting_hist (mgr_step m ev) rest
  end.

(** the numbers of satisfying assignments the calls must return *)
Fixpoint exact_events (m : mgr) (evs : list event) : list N :=
  match evs with
  | [] => []
  | ECount _ vars e :: rest => exact_count (m_snap m) vars e :: exact_events m rest
  | ev :: rest => exact_events (mgr_step m ev) rest
  end.

Lemma ref_events_exact : forall evs m, mgr_ok m -> hist_valid m evs -> counting_hist m evs ->
  ref_events exact_ops true m evs = map Some (exact_events m evs).
Proof.
  induction evs as [|ev rest IH]; intros m Hm Hv Hc; [reflexivity|].
  destruct Hv as [Hs Hr]. pose proof (mgr_ok_step m ev Hm Hs) as Hm'.
  destruct ev as [s'|s'|s'|cid vars e]; simpl in *; try (apply IH; assumption).
  destruct Hc as [Hk [Hl Hc]]. destruct Hm as [H Hb].
  rewrite (sat_ref_exact (m_snap m) vars e H Hk Hl Hs). f_equal. apply IH; [split|..]; assumption.
Qed.

(** Model counting through kept caches is exact. *)
Theorem cache_history_exact : forall alls evs m, mgr_ok m -> hist_valid m evs -> counting_hist m evs ->
  exists cs', run_events exact_ops alls m (PositiveMap.empty _) evs =
              Some (exact_events m evs, final_mgr m evs, cs').
Proof.
  intros alls evs m Hm Hv Hc.
  destruct (cache_history_correct exact_ops alls evs m Hm Hv) as [vs [cs' [Er Ef]]].
  exists cs'. rewrite Er. rewrite (ref_events_exact evs m Hm Hv Hc) in Ef.
  assert (E : vs = exact_events m evs).
  { revert Ef. generalize (exact_events m evs). clear. induction vs as [|v vs IH]; intros [|x l] E; try discriminate; [reflexivity|].
    simpl in E. inversion E. f_equal. apply IH. assumption. }
  rewrite E. reflexivity.
Qed.

(** the counts of DD/Pick.v ([count_bdd] / [count_bcdd] / [count_zbdd]: the branch weights in the theorems
    C13_*_uniform_prob) are the values of a call with [vars = num_levels] in exact arithmetic *)
Lemma sat_ref_pick_count : forall s e v, sat_ref exact_ops s (nlevels s) e = Some v ->
  match s_kind s with
  | KBdd => count_bdd s e = v
  | KBcdd => count_bcdd s e = v
  | KZbdd => count_zbdd s e = v
  | _ => True
  end.
Proof.
  intros s e v. unfold sat_ref. destruct (s_kind s) eqn:Hk; try exact (fun _ => I); rewrite ?terminal_val_exact.
  - unfold count_bdd, sat_bdd. destruct (SatCount.walk _ s _ (eref e) false) as [x|]; simpl; [|discriminate].
    intros E. inversion E. reflexivity.
  - unfold count_bcdd, sat_bcdd. destruct (SatCount.walk _ s _ (eref e) (etag e)) as [x|]; simpl; [|discriminate].
    intros E. inversion E. unfold rescale, scaled_bcdd. simpl. change (2 ^ 0)%N with 1%N. lia.
  - unfold count_zbdd, sat_zbdd, paths_zbdd. destruct (SatCount.walk _ s _ (eref e) false) as [x|]; simpl; [|discriminate].
    intros E. inversion E. reflexivity.
Qed.

(** non-vacuity of [uni_counts_sound]: at the root of (x0 /\ x1) \/ x2 the closure obtains 6 = #(x1 \/ x2) and
    4 = #x2 over three variables and leaves them in the cache *)
Example ex_uni_counts :
  cinv exact_ops ex_mgr0 (cache_new true) /\
  view_plain ex_sat_bdd (xe (RN 4)) = CNode 0 (xe (RN 3)) (xe (RN 2)) /\
  match uni_counts exact_ops view_plain (cache_new true) 0%N ex_sat_bdd (xe (RN 4)) with
  | Some (ct, ce, c) => ct = 6%N /\ ce = 4%N /\ count_bdd ex_sat_bdd (xe (RN 3)) = 6%N /\
                        PositiveMap.find 2%positive (c_map c) = Some 4%N
  | None => False
  end.
Proof. split; [apply cinv_new|]. vm_compute. repeat split; reflexivity. Qed.

(** * Part 4: the tag rule is necessary *)

Lemma ex_mgr0_ok : mgr_ok ex_mgr0.
Proof. split; [apply wf_b_spec; vm_compute; reflexivity | simpl; discriminate]. Qed.

Ltac wf_vm := apply wf_b_spec; vm_compute; reflexivity.
Ltac ok_vm := simpl; eexists; reflexivity.

Lemma ex_reuse_valid : hist_valid ex_mgr0 ex_reuse_events.
Proof.
  unfold ex_reuse_events, hist_valid, step_ok.
  split; [ok_vm|]. split; [split; [wf_vm | reflexivity]|].
  split; [split; [wf_vm | apply same_table_b_spec; vm_compute; reflexivity]|].
  split; [ok_vm | exact I].
Qed.

Lemma ex_reuse_reorder_valid : hist_valid ex_mgr0 ex_reuse_events_reorder.
Proof.
  unfold ex_reuse_events_reorder, hist_valid, step_ok.
  split; [ok_vm|]. split; [split; [wf_vm | reflexivity]|]. split; [ok_vm | exact I].
Qed.

Lemma ex_vars_valid : hist_valid ex_mgr0 ex_vars_events.
Proof. unfold ex_vars_events, hist_valid, step_ok. split; [ok_vm|]. split; [ok_vm | exact I]. Qed.

(** the hypotheses of the history theorems hold for the example, and the code's
    rule returns the exact counts: 5 for (x0 /\ x1) \/ x2, then 2 for x1 /\ x2
    although its root re-uses the node id 2 under which the cache held 4 *)
Example ex_reuse_exact :
  mgr_ok ex_mgr0 /\ hist_valid ex_mgr0 ex_reuse_events /\ counting_hist ex_mgr0 ex_reuse_events /\
  exact_events ex_mgr0 ex_reuse_events = [5; 2]%N /\
  match run_events exact_ops (fun _ => true) ex_mgr0 (PositiveMap.empty _) ex_reuse_events with
  | Some (vs, m', _) => vs = [5; 2]%N /\ m_gc m' = 1%N
  | None => False
  end.
Proof.
  split; [exact ex_mgr0_ok|]. split; [exact ex_reuse_valid|]. split.
  - simpl. repeat split; try (left; reflexivity); vm_compute; lia.
  - split; vm_compute; [reflexivity | split; reflexivity].
Qed.

(** [clear_if_invalid] without the [gc_count] comparison: the second call reads
    the entry of the freed and re-used node id 2 and returns 4 instead of 2 *)
Theorem rule_without_gc_count_refuted :
  exists m evs, mgr_ok m /\ hist_valid m evs /\ counting_hist m evs /\
    exists vs m' cs', run_events_with exact_ops (@clear_vars_only N) true (fun _ => true) m (PositiveMap.empty _) evs
                      = Some (vs, m', cs') /\ vs <> exact_events m evs.
Proof.
  exists ex_mgr0, ex_reuse_events. destruct ex_reuse_exact as [H1 [H2 [H3 _]]].
  split; [exact H1|]. split; [exact H2|]. split; [exact H3|].
  eexists. eexists. eexists. split; [vm_compute; reflexivity|]. vm_compute. discriminate.
Qed.

(** the same with a manager whose [reorder] does not increment [gc_count]
    (the code's rule, which does not look at [reorder_count]) *)
Theorem reorder_without_gc_bump_refuted :
  exists m evs, mgr_ok m /\ hist_valid m evs /\ counting_hist m evs /\
    exists vs m' cs', run_events_with exact_ops (@clear_if_invalid N) false (fun _ => true) m (PositiveMap.empty _) evs
                      = Some (vs, m', cs') /\ vs <> exact_events m evs.
Proof.
  exists ex_mgr0, ex_reuse_events_reorder.
  split; [exact ex_mgr0_ok|]. split; [exact ex_reuse_reorder_valid|]. split.
  - simpl. repeat split; try (left; reflexivity); vm_compute; lia.
  - eexists. eexists. eexists. split; [vm_compute; reflexivity|]. vm_compute. discriminate.
Qed.

(** without the [vars] comparison: [sat_count(4)] after [sat_count(3)] returns
    the root's entry for three variables, 5 instead of 10 *)
Theorem rule_without_vars_refuted :
  exists m evs, mgr_ok m /\ hist_valid m evs /\ counting_hist m evs /\
    exists vs m' cs', run_events_with exact_ops (@clear_epoch_only N) true (fun _ => true) m (PositiveMap.empty _) evs
                      = Some (vs, m', cs') /\ vs <> exact_events m evs.
Proof.
  exists ex_mgr0, ex_vars_events.
  split; [exact ex_mgr0_ok|]. split; [exact ex_vars_valid|]. split.
  - simpl. repeat split; try (left; reflexivity); vm_compute; lia.
  - eexists. eexists. eexists. split; [vm_compute; reflexivity|]. vm_compute. discriminate.
Qed.
