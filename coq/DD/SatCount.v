(** * Model counting ([sat_count_edge]) for BDDs, BCDDs and ZBDDs

    Executable definitions only (proofs: DD/SatCountProofs.v).

    Rust sources mirrored here:
    - [sat_count_edge] of oxidd-rules-bdd/src/simple/apply_rec.rs (BDD),
      oxidd-rules-bdd/src/complement_edge/apply_rec.rs (BCDD) and
      oxidd-rules-zbdd/src/apply_rec.rs (ZBDD);
    - [SatCountCache] / [clear_if_invalid] of oxidd-core/src/util/mod.rs;
    - [Saturating<u64>] / [Saturating<u128>] of oxidd-core/src/util/num/mod.rs.

    The three [inner] functions have the same shape: return the value of a
    terminal; otherwise look the node up in the cache (if [do_cache]), recurse
    into the two cofactors (then first), combine, insert (if [do_cache]).  They
    differ in four places, collected in a [scheme]:
    - the value of a terminal edge,
    - the cache key (BDD, ZBDD: the node id; BCDD: node id with the complement
      tag in the most significant bit),
    - the edge tag handed down to a child (BCDD: [collect_cofactors] xors the
      tag of the incoming edge onto the children; BDD/ZBDD edges carry no tag),
    - the combination ([(a + b) >> 1] resp. [a + b]).
    [walk] is the recursion without cache, [walkc] the recursion as written,
    threading [cache.map].

    Numbers: [numops] is the part of [SatCountNumber] the code uses; the
    instances are exact naturals ([exact_ops]; what a correct arbitrary
    precision type computes) and [Saturating<uW>] ([sat_ops W]). *)

From Coq Require Import List NArith PArith Bool Arith FMapPositive.
From OxiVerif Require Import DD.Table.
Import ListNotations.

(** ** Number types *)

Record numops (A : Type) := mkOps {
  n_zero : A;                        (* N::from(0u32) *)
  n_one : A;                         (* N::from(1u32) *)
  n_add : A -> A -> A;               (* Add *)
  n_shl : A -> nat -> A;             (* Shl<u32> *)
  n_shr : A -> nat -> A;             (* Shr<u32> *)
  n_scale : nat                      (* -MIN_EXP: 0 for the integer types, 1021 for F64 *)
}.
Arguments n_zero {A}. Arguments n_one {A}. Arguments n_add {A}.
Arguments n_shl {A}. Arguments n_shr {A}. Arguments n_scale {A}.

(** exact arithmetic on naturals *)
Definition exact_ops : numops N :=
  mkOps N 0%N 1%N N.add
        (fun x k => (x * 2 ^ N.of_nat k)%N)
        (fun x k => (x / 2 ^ N.of_nat k)%N)
        0.

(** [Saturating<uW>] ([w] = 64 or 128): [T::MAX] is the out-of-range marker.
    - [Add]: [saturating_add];
    - [Shl]: 0 stays 0; [MAX] if [rhs > leading_zeros], i.e. as soon as a 1 bit
      would be shifted out; otherwise [self.0 << rhs];
    - [Shr]: the marker is kept, any other value is shifted (the shift amounts
      that occur are below [W]). *)
Definition sat_max (w : N) : N := (2 ^ w - 1)%N.

Definition sat_ops (w : N) : numops N :=
  mkOps N 0%N 1%N
        (fun a b => N.min (a + b) (sat_max w))
        (fun x k => if (x =? 0)%N then 0%N
                    else if (w - N.size x <? N.of_nat k)%N then sat_max w
                    else ((x * 2 ^ N.of_nat k) mod 2 ^ w)%N)
        (fun x k => if (x =? sat_max w)%N then sat_max w else (x / 2 ^ N.of_nat k)%N)
        0.

(** what a saturating run is expected to return for the exact value [x] of a
    count over [vars] variables: [x] itself as long as [2^vars] is
    representable, otherwise the marker (0 stays 0: the count of the
    unsatisfiable function is exact in every type) *)
Definition saturate (w : N) (vars : nat) (x : N) : N :=
  if (N.of_nat vars <? w)%N then x else if (x =? 0)%N then 0%N else sat_max w.

Definition sat_u64 (vars : nat) (x : N) : N := saturate 64 vars x.
Definition sat_u128 (vars : nat) (x : N) : N := saturate 128 vars x.

(** ** The recursion scheme *)

Record scheme (A : Type) := mkScheme {
  sc_term : snap -> N -> bool -> option A;   (* terminal id, tag of the edge |-> value *)
  sc_key : bool -> positive -> positive;     (* tag, node id |-> cache key *)
  sc_tag : bool -> bool -> bool;             (* tag of the incoming edge, tag of the child edge |-> tag handed down *)
  sc_tagok : bool -> bool;                   (* the tags that occur for this kind *)
  sc_comb : A -> A -> A
}.
Arguments sc_term {A}. Arguments sc_key {A}. Arguments sc_tag {A}.
Arguments sc_tagok {A}. Arguments sc_comb {A}.

Section Walk.
Context {A : Type}.
Variable sch : scheme A.

(** [inner] without the cache *)
Fixpoint walk (s : snap) (fuel : nat) (r : ref) (tag : bool) : option A :=
  match r with
  | RT t => sc_term sch s t tag
  | RN id =>
    match fuel with
    | O => None
    | S f =>
      match find_node s id with
      | None => None
      | Some nd =>
        match nchildren nd with
        | e0 :: e1 :: nil =>
          match walk s f (eref e0) (sc_tag sch tag (etag e0)),
                walk s f (eref e1) (sc_tag sch tag (etag e1)) with
          | Some a, Some b => Some (sc_comb sch a b)
          | _, _ => None
          end
        | _ => None
        end
      end
    end
  end.

(** [inner] as written: [all] is [cache.cache_all], [m] is [cache.map];
    [do_cache = cache.cache_all || node.ref_count() > 1] *)
Fixpoint walkc (s : snap) (fuel : nat) (all : bool) (r : ref) (tag : bool) (m : PositiveMap.t A)
  : option (A * PositiveMap.t A) :=
  match r with
  | RT t => match sc_term sch s t tag with Some v => Some (v, m) | None => None end
  | RN id =>
    match fuel with
    | O => None
    | S f =>
      match find_node s id with
      | None => None
      | Some nd =>
        let do_cache := all || N.ltb 1 (nrc nd) in
        match (if do_cache then PositiveMap.find (sc_key sch tag id) m else None) with
        | Some n => Some (n, m)
        | None =>
          match nchildren nd with
          | e0 :: e1 :: nil =>
            match walkc s f all (eref e0) (sc_tag sch tag (etag e0)) m with
            | None => None
            | Some (a, m1) =>
              match walkc s f all (eref e1) (sc_tag sch tag (etag e1)) m1 with
              | None => None
              | Some (b, m2) =>
                let n := sc_comb sch a b in
                Some (n, if do_cache then PositiveMap.add (sc_key sch tag id) n m2 else m2)
              end
            end
          | _ => None
          end
        end
      end
    end
  end.

End Walk.

(** ** The three instances *)

Section Ops.
Context {A : Type}.
Variable o : numops A.

(** BDD: True |-> [terminal_val], False |-> 0; key = node id; [(a + b) >> 1] *)
Definition bdd_scheme (tv : A) : scheme A :=
  mkScheme A
    (fun s t _ => match term_val s t with
                  | Some v => Some (if N.eqb v 1 then tv else n_zero o)
                  | None => None
                  end)
    (fun _ id => id)
    (fun _ _ => false)
    negb
    (fun a b => n_shr o (n_add o a b) 1).

(** BCDD: the terminal under an untagged edge |-> [terminal_val], under a
    complemented edge |-> 0; key = [node_id | tag << 63], here: tag as the
    lowest bit; children tags are xor-ed with the incoming tag *)
Definition bcdd_scheme (tv : A) : scheme A :=
  mkScheme A
    (fun _ _ tag => Some (if tag then n_zero o else tv))
    (fun tag id => if tag then xI id else xO id)
    xorb
    (fun _ => true)
    (fun a b => n_shr o (n_add o a b) 1).

(** ZBDD: Empty |-> 0, Base |-> 1; key = node id; [a + b] (number of paths to Base) *)
Definition zbdd_scheme : scheme A :=
  mkScheme A
    (fun s t _ => match term_val s t with
                  | Some v => Some (if N.eqb v 1 then n_one o else n_zero o)
                  | None => None
                  end)
    (fun _ id => id)
    (fun _ _ => false)
    negb
    (n_add o).

(** [terminal_val] and the final rescaling of the BDD / BCDD versions.  The BDD
    version tests [scale_exp != 0 && vars >= scale_exp], the BCDD version only
    [vars >= scale_exp] (so that integer types run through [res << 0]). *)
Definition scaled_bdd (vars : nat) : bool := negb (Nat.eqb (n_scale o) 0) && Nat.leb (n_scale o) vars.
Definition scaled_bcdd (vars : nat) : bool := Nat.leb (n_scale o) vars.

Definition terminal_val (scaled : bool) (vars : nat) : A :=
  n_shl o (n_one o) (if scaled then vars - n_scale o else vars).

Definition rescale (scaled : bool) (res : A) : A :=
  if scaled then n_shl o res (n_scale o) else res.

(** [sat_count_edge] after [cache.clear_if_invalid], BDD *)
Definition sat_count_bdd (s : snap) (fuel : nat) (vars : nat) (all : bool) (r : ref) (m : PositiveMap.t A)
  : option (A * PositiveMap.t A) :=
  let sc := scaled_bdd vars in
  match walkc (bdd_scheme (terminal_val sc vars)) s fuel all r false m with
  | Some (res, m') => Some (rescale sc res, m')
  | None => None
  end.

(** ... BCDD *)
Definition sat_count_bcdd (s : snap) (fuel : nat) (vars : nat) (all : bool) (e : edge) (m : PositiveMap.t A)
  : option (A * PositiveMap.t A) :=
  let sc := scaled_bcdd vars in
  match walkc (bcdd_scheme (terminal_val sc vars)) s fuel all (eref e) (etag e) m with
  | Some (res, m') => Some (rescale sc res, m')
  | None => None
  end.

(** ... ZBDD: the path count, shifted by [vars - num_levels] *)
Definition zbdd_shift (s : snap) (vars : nat) (count : A) : A :=
  if Nat.leb (nlevels s) vars then n_shl o count (vars - nlevels s)
  else n_shr o count (nlevels s - vars).

Definition sat_count_zbdd (s : snap) (fuel : nat) (vars : nat) (all : bool) (r : ref) (m : PositiveMap.t A)
  : option (A * PositiveMap.t A) :=
  match walkc zbdd_scheme s fuel all r false m with
  | Some (count, m') => Some (zbdd_shift s vars count, m')
  | None => None
  end.

(** ** [SatCountCache] *)

Record scache := mkCache {
  c_epoch : N;
  c_vars : nat;
  c_map : PositiveMap.t A;
  c_all : bool
}.

(** [SatCountCache::default()] *)
Definition cache_default : scache := mkCache 0%N 0 (PositiveMap.empty A) false.

(** [clear_if_invalid(manager, vars)] with [epoch = manager.gc_count()] *)
Definition clear_if_invalid (c : scache) (epoch : N) (vars : nat) : scache :=
  if negb (N.eqb epoch (c_epoch c)) || negb (Nat.eqb vars (c_vars c))
  then mkCache epoch vars (PositiveMap.empty A) (c_all c)
  else c.

Definition set_map (c : scache) (m : PositiveMap.t A) : scache :=
  mkCache (c_epoch c) (c_vars c) m (c_all c).

(** one call of [sat_count_edge] (kind taken from the snapshot): the manager's
    [gc_count] is [epoch], its node table is [s] *)
Definition sat_query (c : scache) (epoch : N) (s : snap) (vars : nat) (e : edge)
  : option (A * scache) :=
  let c' := clear_if_invalid c epoch vars in
  let fuel := S (nlevels s) in
  let res :=
    match s_kind s with
    | KBcdd => sat_count_bcdd s fuel vars (c_all c') e (c_map c')
    | KZbdd => sat_count_zbdd s fuel vars (c_all c') (eref e) (c_map c')
    | _ => sat_count_bdd s fuel vars (c_all c') (eref e) (c_map c')
    end in
  match res with
  | Some (v, m) => Some (v, set_map c' m)
  | None => None
  end.

Record query := mkQuery { q_epoch : N; q_snap : snap; q_vars : nat; q_edge : edge }.

(** a sequence of calls sharing one cache *)
Fixpoint run_queries (c : scache) (qs : list query) : option (list A * scache) :=
  match qs with
  | [] => Some ([], c)
  | q :: rest =>
    match sat_query c (q_epoch q) (q_snap q) (q_vars q) (q_edge q) with
    | None => None
    | Some (v, c') =>
      match run_queries c' rest with
      | Some (vs, c'') => Some (v :: vs, c'')
      | None => None
      end
    end
  end.

(** the same call on an empty cache and without caching anything: the
    reference value of a query *)
Definition sat_ref (s : snap) (vars : nat) (e : edge) : option A :=
  let fuel := S (nlevels s) in
  match s_kind s with
  | KBcdd =>
    let sc := scaled_bcdd vars in
    option_map (rescale sc) (walk (bcdd_scheme (terminal_val sc vars)) s fuel (eref e) (etag e))
  | KZbdd => option_map (zbdd_shift s vars) (walk zbdd_scheme s fuel (eref e) false)
  | _ =>
    let sc := scaled_bdd vars in
    option_map (rescale sc) (walk (bdd_scheme (terminal_val sc vars)) s fuel (eref e) false)
  end.

End Ops.

(** ** Exact counts *)

(** BDD: True |-> 2^vars, False |-> 0, node |-> (then + else) / 2 *)
Definition sat_bdd (s : snap) (fuel : nat) (vars : nat) (r : ref) : option N :=
  walk (bdd_scheme exact_ops (2 ^ N.of_nat vars)%N) s fuel r false.

Definition sat_bcdd (s : snap) (fuel : nat) (vars : nat) (e : edge) : option N :=
  walk (bcdd_scheme exact_ops (2 ^ N.of_nat vars)%N) s fuel (eref e) (etag e).

(** ZBDD: number of paths to Base ... *)
Definition paths_zbdd (s : snap) (fuel : nat) (r : ref) : option N :=
  walk (zbdd_scheme exact_ops) s fuel r false.

(** ... times [2^(vars - num_levels)] *)
Definition sat_zbdd (s : snap) (fuel : nat) (vars : nat) (r : ref) : option N :=
  option_map (zbdd_shift exact_ops s vars) (paths_zbdd s fuel r).

(** the cached versions in exact arithmetic *)
Definition sat_bdd_c (s : snap) (fuel : nat) (vars : nat) (all : bool) (r : ref) (m : PositiveMap.t N) :=
  walkc (bdd_scheme exact_ops (2 ^ N.of_nat vars)%N) s fuel all r false m.

Definition sat_bcdd_c (s : snap) (fuel : nat) (vars : nat) (all : bool) (e : edge) (m : PositiveMap.t N) :=
  walkc (bcdd_scheme exact_ops (2 ^ N.of_nat vars)%N) s fuel all (eref e) (etag e) m.

Definition paths_zbdd_c (s : snap) (fuel : nat) (all : bool) (r : ref) (m : PositiveMap.t N) :=
  walkc (zbdd_scheme exact_ops) s fuel all r false m.

(** the saturating runs of the BDD recursion *)
Definition sat_bdd_sat (w : N) (s : snap) (fuel : nat) (vars : nat) (r : ref) : option N :=
  walk (bdd_scheme (sat_ops w) (n_shl (sat_ops w) 1%N vars)) s fuel r false.

Definition sat_bcdd_sat (w : N) (s : snap) (fuel : nat) (vars : nat) (e : edge) : option N :=
  walk (bcdd_scheme (sat_ops w) (n_shl (sat_ops w) 1%N vars)) s fuel (eref e) (etag e).

Definition sat_zbdd_sat (w : N) (s : snap) (fuel : nat) (vars : nat) (r : ref) : option N :=
  option_map (zbdd_shift (sat_ops w) s vars) (walk (zbdd_scheme (sat_ops w)) s fuel r false).

(** ** The specification side: counting level-assignments *)

Definition lasg := nat -> bool.          (* level |-> value of the level's variable *)

(** the child index taken at every level (0 = then, variable true) *)
Definition choice_of (a : lasg) : nat -> nat := fun l => if a l then 0 else 1.

Definition updb (a : lasg) (l : nat) (b : bool) : lasg :=
  fun x => if Nat.eqb x l then b else a x.

(** number of assignments of the [k] levels [l, l + k) satisfying [f]
    (all other levels read as false) *)
Fixpoint cnt (k : nat) (l : nat) (f : lasg -> bool) : N :=
  match k with
  | O => if f (fun _ => false) then 1%N else 0%N
  | S k' => (cnt k' (S l) (fun a => f (updb a l true)) + cnt k' (S l) (fun a => f (updb a l false)))%N
  end.

(** number of assignments of the levels [0, n) satisfying [f] *)
Definition count_levels (n : nat) (f : lasg -> bool) : N := cnt n 0 f.

Definition opt_is (v : N) (x : option N) : bool :=
  match x with Some w => N.eqb w v | None => false end.

Definition opt_true (x : option bool) : bool :=
  match x with Some b => b | None => false end.

(** the Boolean functions of level-assignments denoted by an edge *)
Definition fun_bdd (s : snap) (r : ref) : lasg -> bool :=
  fun a => opt_is 1 (semk s (S (nlevels s)) r (choice_of a)).

Definition fun_bcdd (s : snap) (e : edge) : lasg -> bool :=
  fun a => opt_true (semc s (S (nlevels s)) e (choice_of a)).

Definition fun_zbdd (s : snap) (r : ref) : lasg -> bool :=
  fun a => opt_true (semz s (S (nlevels s)) 0 r (choice_of a)).

(** ** Floating point: which naturals an [f64] holds exactly *)

(** [x = m * 2^e] with [m < 2^53] (exponent range: every count below 2^1024) *)
Definition f64_exact (x : N) : Prop := exists m e : N, (x = m * 2 ^ e /\ m < 2 ^ 53 /\ x < 2 ^ 1024)%N.

(** ** Examples *)

Definition xe (r : ref) : edge := mkEdge r false.

(** (x0 /\ x1) \/ x2 over 3 levels: node 4 (level 0), 3 (level 1), 2 (level 2) *)
Definition ex_sat_bdd : snap :=
  mkSnap KBdd
    (PositiveMap.add 4%positive (mkNode 0 [xe (RN 3); xe (RN 2)] 0 1)
    (PositiveMap.add 3%positive (mkNode 1 [xe (RT 1); xe (RN 2)] 1 1)
    (PositiveMap.add 2%positive (mkNode 2 [xe (RT 1); xe (RT 0)] 2 2)
       (PositiveMap.empty node))))
    [(0%N, 0%N); (1%N, 1%N)]
    [0; 1; 2] [0; 1; 2]
    [(0%N, xe (RN 4))].

(** the same function as a BCDD: terminal = true; x2 = node 2 (T, ~T);
    node 3 = ite(x1, T, x2); node 4 = ite(x0, node 3, x2) *)
Definition ex_sat_bcdd : snap :=
  mkSnap KBcdd
    (PositiveMap.add 4%positive (mkNode 0 [mkEdge (RN 3) false; mkEdge (RN 2) false] 0 1)
    (PositiveMap.add 3%positive (mkNode 1 [mkEdge (RT 0) false; mkEdge (RN 2) false] 1 1)
    (PositiveMap.add 2%positive (mkNode 2 [mkEdge (RT 0) false; mkEdge (RT 0) true] 2 2)
       (PositiveMap.empty node))))
    [(0%N, 1%N)]
    [0; 1; 2] [0; 1; 2]
    [(0%N, mkEdge (RN 4) false)].

(** the same function as a ZBDD over 3 levels (family of its 5 models:
    {0,1}, {0,1,2}, {2}, {0,2}, {1,2}) *)
Definition ex_sat_zbdd : snap :=
  mkSnap KZbdd
    (PositiveMap.add 6%positive (mkNode 0 [xe (RN 5); xe (RN 3)] 0 1)
    (PositiveMap.add 5%positive (mkNode 1 [xe (RN 4); xe (RN 2)] 1 1)
    (PositiveMap.add 4%positive (mkNode 2 [xe (RT 1); xe (RT 1)] 2 1)
    (PositiveMap.add 3%positive (mkNode 1 [xe (RN 2); xe (RN 2)] 1 1)
    (PositiveMap.add 2%positive (mkNode 2 [xe (RT 1); xe (RT 0)] 2 2)
       (PositiveMap.empty node))))))
    [(0%N, 0%N); (1%N, 1%N)]
    [0; 1; 2] [0; 1; 2]
    [(0%N, xe (RN 6))].
