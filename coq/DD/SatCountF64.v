(** * [sat_count::<F64>]: the floating-point instance of the number interface
      of DD/SatCount.v

    Executable definitions only (theorems: DD/SatF64Proofs.v).  [f64_ops] is
    the part of [impl SatCountNumber for F64] that the three [sat_count_edge]
    use (/repo/crates/oxidd-core/src/util/num/mod.rs): [From<u32>] for 0 and 1,
    [Add], [Shl<u32>], [Shr<u32>] and [MIN_EXP = f64::MIN_EXP = -1021]; the
    operations are those of Num/F64Count.v (Flocq's binary64). *)
From Coq Require Import List NArith ZArith PArith Bool FMapPositive.
From Flocq Require Import IEEE754.Binary IEEE754.Bits.
From OxiVerif Require Import DD.Table DD.SatCount.
From OxiVerif Require Import Num.F64Count.

Definition f64_ops : numops binary64 :=
  mkOps binary64
        (f64c_from_u32 0)                         (* N::from(0u32) *)
        (f64c_from_u32 1)                         (* N::from(1u32) *)
        f64c_add
        (fun x k => f64c_shl x (N.of_nat k))
        (fun x k => f64c_shr x (N.of_nat k))
        1021.                                     (* -f64::MIN_EXP *)

(** [sat_count::<F64>] of one call on a fresh cache without caching, observed
    through [f64::to_bits] *)
Definition sat_f64_bits (s : snap) (vars : nat) (e : edge) : option Z :=
  option_map bits_of_b64 (sat_ref f64_ops s vars e).

(** the same call as written (with the in-call cache; [all] = [cache_all]) *)
Definition sat_f64_cached_bits (all : bool) (s : snap) (vars : nat) (e : edge) : option Z :=
  match sat_query f64_ops (mkCache 0%N vars (PositiveMap.empty binary64) all) 0%N s vars e with
  | Some (v, _) => Some (bits_of_b64 v)
  | None => None
  end.

(** what the exact count [x] is expected to be as an [f64]: the correctly
    rounded integer ([+inf] from [2^1024] on) *)
Definition f64_count_bits (x : N) : Z := bits_of_b64 (f64_of_N x).
