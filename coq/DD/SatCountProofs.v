(** * Proofs about model counting (DD/SatCount.v)

    Part A (any number type, any of the three recursion schemes):
    unfolding, fuel adequacy, totality, invariance under table extension,
    soundness of the cache ([walkc_sound]).
    Part B: counting lemmas for [cnt] / [count_levels].
    Part C: [sat_bdd_correct], [sat_bcdd_correct], [sat_zbdd_correct]
    (exact arithmetic), divisibility / exactness of every halving.
    Part D: saturating arithmetic.
    Part E: [sat_query] / [run_queries] with epochs. *)

From Coq Require Import List NArith PArith Bool Arith Lia FMapPositive.
From OxiVerif Require Import DD.Table DD.TableExtra DD.TableProofs DD.SatCount.
Import ListNotations.

Arguments N.add : simpl never.
Arguments N.sub : simpl never.
Arguments N.mul : simpl never.
Arguments N.div : simpl never.
Arguments N.modulo : simpl never.
Arguments N.pow : simpl never.
Arguments N.min : simpl never.

(** * Part A: the generic recursion *)

(** binary kinds *)
Definition binary (k : kind) : Prop := k <> KTdd.

Lemma two_children : forall s id nd, WF s -> binary (s_kind s) -> find_node s id = Some nd ->
  exists e0 e1, nchildren nd = [e0; e1].
Proof.
  intros s id nd H Hb E. pose proof (wf_arity s H id nd E) as Ha.
  assert (Ha2 : arity (s_kind s) = 2) by (unfold binary in Hb; destruct (s_kind s); simpl; congruence).
  rewrite Ha2 in Ha. destruct (nchildren nd) as [|a [|b [|c r]]]; simpl in Ha; try discriminate.
  eauto.
Qed.

(** the part of a snapshot the counting recursion looks at is preserved *)
Record same_table (s s' : snap) : Prop := mkSameTable {
  st_kind : s_kind s' = s_kind s;
  st_terms : forall t, term_val s' t = term_val s t;
  st_nodes : forall id nd, find_node s id = Some nd ->
      exists nd', find_node s' id = Some nd' /\ nchildren nd' = nchildren nd
}.

Lemma same_table_refl : forall s, same_table s s.
Proof. intros s. constructor; eauto. Qed.

Section WalkGen.
Context {A : Type}.
Variable sch : scheme A.

Lemma walk_T : forall s f t tag, walk sch s f (RT t) tag = sc_term sch s t tag.
Proof. destruct f; reflexivity. Qed.

Lemma walk_S : forall s f id tag,
  walk sch s (S f) (RN id) tag =
  match find_node s id with
  | None => None
  | Some nd =>
    match nchildren nd with
    | e0 :: e1 :: nil =>
      match walk sch s f (eref e0) (sc_tag sch tag (etag e0)),
            walk sch s f (eref e1) (sc_tag sch tag (etag e1)) with
      | Some a, Some b => Some (sc_comb sch a b)
      | _, _ => None
      end
    | _ => None
    end
  end.
Proof. reflexivity. Qed.

Lemma walk_node : forall s f id tag nd e0 e1,
  find_node s id = Some nd -> nchildren nd = [e0; e1] ->
  walk sch s (S f) (RN id) tag =
  match walk sch s f (eref e0) (sc_tag sch tag (etag e0)),
        walk sch s f (eref e1) (sc_tag sch tag (etag e1)) with
  | Some a, Some b => Some (sc_comb sch a b)
  | _, _ => None
  end.
Proof. intros s f id tag nd e0 e1 E Hc. rewrite walk_S, E, Hc. reflexivity. Qed.

Arguments walk : simpl never.

(** more fuel does not change a result *)
Lemma walk_mono : forall s f f' r tag v, walk sch s f r tag = Some v -> f <= f' ->
  walk sch s f' r tag = Some v.
Proof.
  intros s. induction f as [|f IH]; intros f' r tag v Hw Hle.
  - destruct r as [t|id]; [rewrite walk_T in *; exact Hw | discriminate].
  - destruct r as [t|id]; [rewrite walk_T in *; exact Hw|].
    destruct f' as [|f']; [lia|]. rewrite walk_S in *.
    destruct (find_node s id) as [nd|]; [|discriminate].
    destruct (nchildren nd) as [|e0 [|e1 [|e2 r]]]; try discriminate.
    destruct (walk sch s f (eref e0) _) as [a|] eqn:Ea; [|discriminate].
    destruct (walk sch s f (eref e1) _) as [b|] eqn:Eb; [|discriminate].
    rewrite (IH f' _ _ a Ea), (IH f' _ _ b Eb) by lia. exact Hw.
Qed.

Section OnSnap.
Variable s : snap.
Hypothesis H : WF s.

Lemma walk_fuel : forall f1 f2 r tag, ref_ok s r ->
  nlevels s - rlevel s r < f1 -> nlevels s - rlevel s r < f2 ->
  walk sch s f1 r tag = walk sch s f2 r tag.
Proof.
  induction f1 as [|f1 IH]; intros f2 r tag Hok H1 H2; [lia|].
  destruct r as [t|id]; [rewrite !walk_T; reflexivity|].
  destruct f2 as [|f2]; [lia|]. rewrite !walk_S.
  destruct (find_node s id) as [nd|] eqn:E; [|reflexivity].
  rewrite (rlevel_node s id nd E) in H1, H2.
  destruct (nchildren nd) as [|e0 [|e1 [|e2 r]]] eqn:Hc; try reflexivity.
  assert (I0 : In e0 (nchildren nd)) by (rewrite Hc; simpl; auto).
  assert (I1 : In e1 (nchildren nd)) by (rewrite Hc; simpl; auto).
  destruct (wf_child s H id nd e0 E I0) as [O0 L0].
  destruct (wf_child s H id nd e1 E I1) as [O1 L1].
  pose proof (rlevel_le s H (eref e0)). pose proof (rlevel_le s H (eref e1)).
  rewrite (IH f2 (eref e0)), (IH f2 (eref e1)) by (auto; lia). reflexivity.
Qed.

(** any fuel that produced a value agrees with the standard fuel *)
Lemma walk_std : forall f r tag v, ref_ok s r -> walk sch s f r tag = Some v ->
  walk sch s (S (nlevels s)) r tag = Some v.
Proof.
  intros f r tag v Hok Hw.
  pose proof (walk_mono s f (Nat.max f (S (nlevels s))) r tag v Hw ltac:(lia)) as Hm.
  rewrite <- Hm. apply walk_fuel; auto; lia.
Qed.

Hypothesis Hbin : binary (s_kind s).
Hypothesis Hterm_total : forall t tag, (exists v, term_val s t = Some v) ->
  exists a, sc_term sch s t tag = Some a.

Lemma walk_total : forall f r tag, ref_ok s r -> nlevels s - rlevel s r < f ->
  exists a, walk sch s f r tag = Some a.
Proof.
  induction f as [|f IH]; intros r tag Hok Hf; [lia|].
  destruct r as [t|id]; [rewrite walk_T; apply Hterm_total; exact Hok|].
  destruct Hok as [nd E]. rewrite (rlevel_node s id nd E) in Hf.
  destruct (two_children s id nd H Hbin E) as [e0 [e1 Hc]].
  rewrite (walk_node s f id tag nd e0 e1 E Hc).
  assert (I0 : In e0 (nchildren nd)) by (rewrite Hc; simpl; auto).
  assert (I1 : In e1 (nchildren nd)) by (rewrite Hc; simpl; auto).
  destruct (wf_child s H id nd e0 E I0) as [O0 L0].
  destruct (wf_child s H id nd e1 E I1) as [O1 L1].
  pose proof (rlevel_le s H (eref e0)). pose proof (rlevel_le s H (eref e1)).
  destruct (IH (eref e0) (sc_tag sch tag (etag e0)) O0 ltac:(lia)) as [a Ea].
  destruct (IH (eref e1) (sc_tag sch tag (etag e1)) O1 ltac:(lia)) as [b Eb].
  rewrite Ea, Eb. eauto.
Qed.

(** ** The cache *)

Hypothesis key_inj : forall t t' id id', sc_tagok sch t = true -> sc_tagok sch t' = true ->
  sc_key sch t id = sc_key sch t' id' -> id = id' /\ t = t'.
Hypothesis tag_closed : forall t ct, sc_tagok sch t = true -> sc_tagok sch (sc_tag sch t ct) = true.

(** every entry is the value the uncached recursion computes for that node *)
Definition cache_ok (m : PositiveMap.t A) : Prop :=
  forall id tag v, sc_tagok sch tag = true ->
    PositiveMap.find (sc_key sch tag id) m = Some v ->
    walk sch s (S (nlevels s)) (RN id) tag = Some v.

Lemma cache_ok_empty : cache_ok (PositiveMap.empty A).
Proof. intros id tag v _ E. rewrite PositiveMap.gempty in E. discriminate. Qed.

Lemma cache_ok_add : forall m id tag v, cache_ok m -> sc_tagok sch tag = true ->
  walk sch s (S (nlevels s)) (RN id) tag = Some v ->
  cache_ok (PositiveMap.add (sc_key sch tag id) v m).
Proof.
  intros m id tag v Hm Ht Hw id' tag' v' Ht' E.
  destruct (Pos.eq_dec (sc_key sch tag' id') (sc_key sch tag id)) as [Ek|Ek].
  - rewrite Ek, PositiveMap.gss in E. inversion E; subst v'.
    destruct (key_inj _ _ _ _ Ht' Ht Ek) as [-> ->]. exact Hw.
  - rewrite PositiveMap.gso in E by exact Ek. apply (Hm id' tag' v' Ht' E).
Qed.

(** The cached recursion returns what the uncached one returns, and keeps the
    cache exact. *)
Theorem walkc_sound : forall f all r tag m v, ref_ok s r -> sc_tagok sch tag = true ->
  cache_ok m -> walk sch s f r tag = Some v ->
  exists m', walkc sch s f all r tag m = Some (v, m') /\ cache_ok m'.
Proof.
  induction f as [|f IH]; intros all r tag m v Hok Ht Hm Hw.
  - destruct r as [t|id]; [|discriminate]. rewrite walk_T in Hw. simpl. rewrite Hw. eauto.
  - destruct r as [t|id].
    { rewrite walk_T in Hw. simpl. rewrite Hw. eauto. }
    pose proof (walk_std (S f) (RN id) tag v Hok Hw) as Hstd.
    rewrite walk_S in Hw. simpl walkc.
    destruct (find_node s id) as [nd|] eqn:E; [|discriminate].
    set (dc := all || (1 <? nrc nd)%N).
    destruct (if dc then PositiveMap.find (sc_key sch tag id) m else None) as [n|] eqn:Ef.
    + destruct dc; [|discriminate].
      pose proof (Hm id tag n Ht Ef) as Hn. rewrite Hstd in Hn. inversion Hn; subst n. eauto.
    + destruct (nchildren nd) as [|e0 [|e1 [|e2 r]]] eqn:Hc; try discriminate.
      assert (I0 : In e0 (nchildren nd)) by (rewrite Hc; simpl; auto).
      assert (I1 : In e1 (nchildren nd)) by (rewrite Hc; simpl; auto).
      destruct (wf_child s H id nd e0 E I0) as [O0 _].
      destruct (wf_child s H id nd e1 E I1) as [O1 _].
      destruct (walk sch s f (eref e0) _) as [a|] eqn:Ea; [|discriminate].
      destruct (walk sch s f (eref e1) _) as [b|] eqn:Eb; [|discriminate].
      inversion Hw; subst v.
      destruct (IH all (eref e0) _ m a O0 (tag_closed _ _ Ht) Hm Ea) as [m1 [W1 C1]].
      destruct (IH all (eref e1) _ m1 b O1 (tag_closed _ _ Ht) C1 Eb) as [m2 [W2 C2]].
      rewrite W1, W2. eexists. split; [reflexivity|].
      destruct dc; [|exact C2]. apply cache_ok_add; auto.
Qed.

End OnSnap.

(** ** Invariance under table extension *)

Lemma walk_same_table : forall s s', WF s -> same_table s s' ->
  (forall t tag, sc_term sch s' t tag = sc_term sch s t tag) ->
  forall f r tag, ref_ok s r -> walk sch s' f r tag = walk sch s f r tag.
Proof.
  intros s s' H X Ht. induction f as [|f IH]; intros r tag Hok.
  - destruct r as [t|id]; [rewrite !walk_T; apply Ht | reflexivity].
  - destruct r as [t|id]; [rewrite !walk_T; apply Ht|].
    rewrite !walk_S. destruct Hok as [nd E].
    destruct (st_nodes s s' X id nd E) as [nd' [E' Hc']]. rewrite E, E', Hc'.
    destruct (nchildren nd) as [|e0 [|e1 [|e2 r]]] eqn:Hc; try reflexivity.
    assert (I0 : In e0 (nchildren nd)) by (rewrite Hc; simpl; auto).
    assert (I1 : In e1 (nchildren nd)) by (rewrite Hc; simpl; auto).
    destruct (wf_child s H id nd e0 E I0) as [O0 _].
    destruct (wf_child s H id nd e1 E I1) as [O1 _].
    rewrite (IH (eref e0)), (IH (eref e1)) by assumption. reflexivity.
Qed.

Lemma same_table_ref_ok : forall s s' r, same_table s s' -> ref_ok s r -> ref_ok s' r.
Proof.
  intros s s' [t|id] X; simpl.
  - rewrite (st_terms s s' X). auto.
  - intros [nd E]. destruct (st_nodes s s' X id nd E) as [nd' [E' _]]. eauto.
Qed.

(** an exact cache stays exact when the table is extended (same epoch) *)
Lemma cache_ok_same_table : forall s s' m, WF s -> WF s' -> same_table s s' ->
  (forall t tag, sc_term sch s' t tag = sc_term sch s t tag) ->
  cache_ok s m -> cache_ok s' m.
Proof.
  intros s s' m H H' X Ht Hm id tag v Htag E.
  pose proof (Hm id tag v Htag E) as Hw.
  assert (Hok : ref_ok s (RN id)).
  { rewrite walk_S in Hw. simpl. destruct (find_node s id) as [nd|]; [eauto | discriminate]. }
  rewrite <- (walk_same_table s s' H X Ht _ _ _ Hok) in Hw.
  apply (walk_std s' H' _ _ _ _ (same_table_ref_ok s s' _ X Hok) Hw).
Qed.

End WalkGen.
