(** * Proofs about model counting (DD/SatCount.v)

    Part A (any number type, any of the three recursion schemes):
    unfolding, fuel adequacy, totality, invariance under table extension,
    soundness of the cache ([walkc_sound]).
    Part B: counting lemmas for [cnt] / [count_levels].
    Part C: [sat_bdd_correct], [sat_bcdd_correct], [sat_zbdd_correct]
    (exact arithmetic), divisibility / exactness of every halving.
    Part D: saturating arithmetic.
    Part E: [sat_query] / [run_queries] with epochs. *)

From Coq Require Import List NArith PArith Bool Arith Lia FMapPositive.
From OxiVerif Require Import DD.Table DD.TableExtra DD.TableProofs DD.SatCount.
Import ListNotations.

Arguments N.add : simpl never.
Arguments N.sub : simpl never.
Arguments N.mul : simpl never.
Arguments N.div : simpl never.
Arguments N.modulo : simpl never.
Arguments N.pow : simpl never.
Arguments N.min : simpl never.

(** * Part A: the generic recursion *)

(** binary kinds *)
Definition binary (k : kind) : Prop := k <> KTdd.

Lemma two_children : forall s id nd, WF s -> binary (s_kind s) -> find_node s id = Some nd ->
  exists e0 e1, nchildren nd = [e0; e1].
Proof.
  intros s id nd H Hb E. pose proof (wf_arity s H id nd E) as Ha.
  assert (Ha2 : arity (s_kind s) = 2) by (unfold binary in Hb; destruct (s_kind s); simpl; congruence).
  rewrite Ha2 in Ha. destruct (nchildren nd) as [|a [|b [|c r]]]; simpl in Ha; try discriminate.
  eauto.
Qed.

(** the part of a snapshot the counting recursion looks at is preserved *)
Record same_table (s s' : snap) : Prop := mkSameTable {
  st_kind : s_kind s' = s_kind s;
  st_terms : forall t, term_val s' t = term_val s t;
  st_nodes : forall id nd, find_node s id = Some nd ->
      exists nd', find_node s' id = Some nd' /\ nchildren nd' = nchildren nd
}.

Lemma same_table_refl : forall s, same_table s s.
Proof. intros s. constructor; eauto. Qed.

Section WalkGen.
Context {A : Type}.
Variable sch : scheme A.

Lemma walk_T : forall s f t tag, walk sch s f (RT t) tag = sc_term sch s t tag.
Proof. destruct f; reflexivity. Qed.

Lemma walk_S : forall s f id tag,
  walk sch s (S f) (RN id) tag =
  match find_node s id with
  | None => None
  | Some nd =>
    match nchildren nd with
    | e0 :: e1 :: nil =>
      match walk sch s f (eref e0) (sc_tag sch tag (etag e0)),
            walk sch s f (eref e1) (sc_tag sch tag (etag e1)) with
      | Some a, Some b => Some (sc_comb sch a b)
      | _, _ => None
      end
    | _ => None
    end
  end.
Proof. reflexivity. Qed.

Lemma walk_node : forall s f id tag nd e0 e1,
  find_node s id = Some nd -> nchildren nd = [e0; e1] ->
  walk sch s (S f) (RN id) tag =
  match walk sch s f (eref e0) (sc_tag sch tag (etag e0)),
        walk sch s f (eref e1) (sc_tag sch tag (etag e1)) with
  | Some a, Some b => Some (sc_comb sch a b)
  | _, _ => None
  end.
Proof. intros s f id tag nd e0 e1 E Hc. rewrite walk_S, E, Hc. reflexivity. Qed.

Arguments walk : simpl never.

(** more fuel does not change a result *)
Lemma walk_mono : forall s f f' r tag v, walk sch s f r tag = Some v -> f <= f' ->
  walk sch s f' r tag = Some v.
Proof.
  intros s. induction f as [|f IH]; intros f' r tag v Hw Hle.
  - destruct r as [t|id]; [rewrite walk_T in *; exact Hw | discriminate].
  - destruct r as [t|id]; [rewrite walk_T in *; exact Hw|].
    destruct f' as [|f']; [lia|]. rewrite walk_S in *.
    destruct (find_node s id) as [nd|]; [|discriminate].
    destruct (nchildren nd) as [|e0 [|e1 [|e2 r]]]; try discriminate.
    destruct (walk sch s f (eref e0) _) as [a|] eqn:Ea; [|discriminate].
    destruct (walk sch s f (eref e1) _) as [b|] eqn:Eb; [|discriminate].
    rewrite (IH f' _ _ a Ea), (IH f' _ _ b Eb) by lia. exact Hw.
Qed.

Section OnSnap.
Variable s : snap.
Hypothesis H : WF s.

Lemma walk_fuel : forall f1 f2 r tag, ref_ok s r ->
  nlevels s - rlevel s r < f1 -> nlevels s - rlevel s r < f2 ->
  walk sch s f1 r tag = walk sch s f2 r tag.
Proof.
  induction f1 as [|f1 IH]; intros f2 r tag Hok H1 H2; [lia|].
  destruct r as [t|id]; [rewrite !walk_T; reflexivity|].
  destruct f2 as [|f2]; [lia|]. rewrite !walk_S.
  destruct (find_node s id) as [nd|] eqn:E; [|reflexivity].
  rewrite (rlevel_node s id nd E) in H1, H2.
  destruct (nchildren nd) as [|e0 [|e1 [|e2 r]]] eqn:Hc; try reflexivity.
  assert (I0 : In e0 (nchildren nd)) by (rewrite Hc; simpl; auto).
  assert (I1 : In e1 (nchildren nd)) by (rewrite Hc; simpl; auto).
  destruct (wf_child s H id nd e0 E I0) as [O0 L0].
  destruct (wf_child s H id nd e1 E I1) as [O1 L1].
  pose proof (rlevel_le s H (eref e0)). pose proof (rlevel_le s H (eref e1)).
  rewrite (IH f2 (eref e0)), (IH f2 (eref e1)) by (auto; lia). reflexivity.
Qed.

(** any fuel that produced a value agrees with the standard fuel *)
Lemma walk_std : forall f r tag v, ref_ok s r -> walk sch s f r tag = Some v ->
  walk sch s (S (nlevels s)) r tag = Some v.
Proof.
  intros f r tag v Hok Hw.
  pose proof (walk_mono s f (Nat.max f (S (nlevels s))) r tag v Hw ltac:(lia)) as Hm.
  rewrite <- Hm. apply walk_fuel; auto; lia.
Qed.

Hypothesis Hbin : binary (s_kind s).
Hypothesis Hterm_total : forall t tag, (exists v, term_val s t = Some v) ->
  exists a, sc_term sch s t tag = Some a.

Lemma walk_total : forall f r tag, ref_ok s r -> nlevels s - rlevel s r < f ->
  exists a, walk sch s f r tag = Some a.
Proof.
  induction f as [|f IH]; intros r tag Hok Hf; [lia|].
  destruct r as [t|id]; [rewrite walk_T; apply Hterm_total; exact Hok|].
  destruct Hok as [nd E]. rewrite (rlevel_node s id nd E) in Hf.
  destruct (two_children s id nd H Hbin E) as [e0 [e1 Hc]].
  rewrite (walk_node s f id tag nd e0 e1 E Hc).
  assert (I0 : In e0 (nchildren nd)) by (rewrite Hc; simpl; auto).
  assert (I1 : In e1 (nchildren nd)) by (rewrite Hc; simpl; auto).
  destruct (wf_child s H id nd e0 E I0) as [O0 L0].
  destruct (wf_child s H id nd e1 E I1) as [O1 L1].
  pose proof (rlevel_le s H (eref e0)). pose proof (rlevel_le s H (eref e1)).
  destruct (IH (eref e0) (sc_tag sch tag (etag e0)) O0 ltac:(lia)) as [a Ea].
  destruct (IH (eref e1) (sc_tag sch tag (etag e1)) O1 ltac:(lia)) as [b Eb].
  rewrite Ea, Eb. eauto.
Qed.

(** ** The cache *)

Hypothesis key_inj : forall t t' id id', sc_tagok sch t = true -> sc_tagok sch t' = true ->
  sc_key sch t id = sc_key sch t' id' -> id = id' /\ t = t'.
Hypothesis tag_closed : forall t ct, sc_tagok sch t = true -> sc_tagok sch (sc_tag sch t ct) = true.

(** every entry is the value the uncached recursion computes for that node *)
Definition cache_ok (m : PositiveMap.t A) : Prop :=
  forall id tag v, sc_tagok sch tag = true ->
    PositiveMap.find (sc_key sch tag id) m = Some v ->
    walk sch s (S (nlevels s)) (RN id) tag = Some v.

Lemma cache_ok_empty : cache_ok (PositiveMap.empty A).
Proof. intros id tag v _ E. rewrite PositiveMap.gempty in E. discriminate. Qed.

Lemma cache_ok_add : forall m id tag v, cache_ok m -> sc_tagok sch tag = true ->
  walk sch s (S (nlevels s)) (RN id) tag = Some v ->
  cache_ok (PositiveMap.add (sc_key sch tag id) v m).
Proof.
  intros m id tag v Hm Ht Hw id' tag' v' Ht' E.
  destruct (Pos.eq_dec (sc_key sch tag' id') (sc_key sch tag id)) as [Ek|Ek].
  - rewrite Ek, PositiveMap.gss in E. inversion E; subst v'.
    destruct (key_inj _ _ _ _ Ht' Ht Ek) as [-> ->]. exact Hw.
  - rewrite PositiveMap.gso in E by exact Ek. apply (Hm id' tag' v' Ht' E).
Qed.

(** The cached recursion returns what the uncached one returns, and keeps the
    cache exact. *)
Theorem walkc_sound : forall f all r tag m v, ref_ok s r -> sc_tagok sch tag = true ->
  cache_ok m -> walk sch s f r tag = Some v ->
  exists m', walkc sch s f all r tag m = Some (v, m') /\ cache_ok m'.
Proof.
  induction f as [|f IH]; intros all r tag m v Hok Ht Hm Hw.
  - destruct r as [t|id]; [|discriminate]. rewrite walk_T in Hw. simpl. rewrite Hw. eauto.
  - destruct r as [t|id].
    { rewrite walk_T in Hw. simpl. rewrite Hw. eauto. }
    pose proof (walk_std (S f) (RN id) tag v Hok Hw) as Hstd.
    rewrite walk_S in Hw. simpl walkc.
    destruct (find_node s id) as [nd|] eqn:E; [|discriminate].
    set (dc := all || (1 <? nrc nd)%N).
    destruct (if dc then PositiveMap.find (sc_key sch tag id) m else None) as [n|] eqn:Ef.
    + destruct dc; [|discriminate].
      pose proof (Hm id tag n Ht Ef) as Hn. rewrite Hstd in Hn. inversion Hn; subst n. eauto.
    + destruct (nchildren nd) as [|e0 [|e1 [|e2 r]]] eqn:Hc; try discriminate.
      assert (I0 : In e0 (nchildren nd)) by (rewrite Hc; simpl; auto).
      assert (I1 : In e1 (nchildren nd)) by (rewrite Hc; simpl; auto).
      destruct (wf_child s H id nd e0 E I0) as [O0 _].
      destruct (wf_child s H id nd e1 E I1) as [O1 _].
      destruct (walk sch s f (eref e0) _) as [a|] eqn:Ea; [|discriminate].
      destruct (walk sch s f (eref e1) _) as [b|] eqn:Eb; [|discriminate].
      inversion Hw; subst v.
      destruct (IH all (eref e0) _ m a O0 (tag_closed _ _ Ht) Hm Ea) as [m1 [W1 C1]].
      destruct (IH all (eref e1) _ m1 b O1 (tag_closed _ _ Ht) C1 Eb) as [m2 [W2 C2]].
      rewrite W1, W2. eexists. split; [reflexivity|].
      destruct dc; [|exact C2]. apply cache_ok_add; auto.
Qed.

End OnSnap.

(** ** Invariance under table extension *)

Lemma walk_same_table : forall s s', WF s -> same_table s s' ->
  (forall t tag, sc_term sch s' t tag = sc_term sch s t tag) ->
  forall f r tag, ref_ok s r -> walk sch s' f r tag = walk sch s f r tag.
Proof.
  intros s s' H X Ht. induction f as [|f IH]; intros r tag Hok.
  - destruct r as [t|id]; [rewrite !walk_T; apply Ht | reflexivity].
  - destruct r as [t|id]; [rewrite !walk_T; apply Ht|].
    rewrite !walk_S. destruct Hok as [nd E].
    destruct (st_nodes s s' X id nd E) as [nd' [E' Hc']]. rewrite E, E', Hc'.
    destruct (nchildren nd) as [|e0 [|e1 [|e2 r]]] eqn:Hc; try reflexivity.
    assert (I0 : In e0 (nchildren nd)) by (rewrite Hc; simpl; auto).
    assert (I1 : In e1 (nchildren nd)) by (rewrite Hc; simpl; auto).
    destruct (wf_child s H id nd e0 E I0) as [O0 _].
    destruct (wf_child s H id nd e1 E I1) as [O1 _].
    rewrite (IH (eref e0)), (IH (eref e1)) by assumption. reflexivity.
Qed.

Lemma same_table_ref_ok : forall s s' r, same_table s s' -> ref_ok s r -> ref_ok s' r.
Proof.
  intros s s' [t|id] X; simpl.
  - rewrite (st_terms s s' X). auto.
  - intros [nd E]. destruct (st_nodes s s' X id nd E) as [nd' [E' _]]. eauto.
Qed.

(** an exact cache stays exact when the table is extended (same epoch) *)
Lemma cache_ok_same_table : forall s s' m, WF s -> WF s' -> same_table s s' ->
  (forall t tag, sc_term sch s' t tag = sc_term sch s t tag) ->
  cache_ok s m -> cache_ok s' m.
Proof.
  intros s s' m H H' X Ht Hm id tag v Htag E.
  pose proof (Hm id tag v Htag E) as Hw.
  assert (Hok : ref_ok s (RN id)).
  { rewrite walk_S in Hw. simpl. destruct (find_node s id) as [nd|]; [eauto | discriminate]. }
  rewrite <- (walk_same_table s s' H X Ht _ _ _ Hok) in Hw.
  apply (walk_std s' H' _ _ _ _ (same_table_ref_ok s s' _ X Hok) Hw).
Qed.

End WalkGen.

(** * Part B: counting level-assignments *)

(** [f] does not look at level [l] *)
Definition indep (f : lasg -> bool) (l : nat) : Prop := forall a b, f (updb a l b) = f a.

Lemma cnt_ext : forall k l f g, (forall a, f a = g a) -> cnt k l f = cnt k l g.
Proof.
  induction k as [|k IH]; intros l f g Hfg; simpl.
  - rewrite Hfg. reflexivity.
  - rewrite (IH (S l) (fun a => f (updb a l true)) (fun a => g (updb a l true))) by (intros; apply Hfg).
    rewrite (IH (S l) (fun a => f (updb a l false)) (fun a => g (updb a l false))) by (intros; apply Hfg).
    reflexivity.
Qed.

Lemma cnt_indep : forall k l f, indep f l -> (cnt (S k) l f = 2 * cnt k (S l) f)%N.
Proof.
  intros k l f Hi. simpl.
  rewrite (cnt_ext k (S l) (fun a => f (updb a l true)) f) by (intros; apply Hi).
  rewrite (cnt_ext k (S l) (fun a => f (updb a l false)) f) by (intros; apply Hi).
  lia.
Qed.

Lemma pow2_S : forall j, (2 ^ N.of_nat (S j) = 2 * 2 ^ N.of_nat j)%N.
Proof. intros j. rewrite Nat2N.inj_succ, N.pow_succ_r'. reflexivity. Qed.

Lemma pow2_add : forall a b, (2 ^ N.of_nat (a + b) = 2 ^ N.of_nat a * 2 ^ N.of_nat b)%N.
Proof. intros a b. rewrite Nat2N.inj_add, N.pow_add_r. reflexivity. Qed.

Lemma pow2_pos : forall k, (0 < 2 ^ k)%N.
Proof. intros k. apply N.neq_0_lt_0. apply N.pow_nonzero. discriminate. Qed.

(** levels the function does not look at double the count *)
Lemma cnt_skip : forall j k l f, (forall i, l <= i < l + j -> indep f i) ->
  (cnt (j + k) l f = 2 ^ N.of_nat j * cnt k (l + j) f)%N.
Proof.
  induction j as [|j IH]; intros k l f Hi.
  - simpl plus. rewrite Nat.add_0_r. change (N.of_nat 0) with 0%N. rewrite N.pow_0_r. lia.
  - change (S j + k) with (S (j + k)). rewrite cnt_indep by (apply Hi; lia).
    rewrite (IH k (S l) f) by (intros i Hr; apply Hi; lia).
    replace (l + S j) with (S l + j) by lia. rewrite pow2_S. lia.
Qed.

Lemma cnt_const : forall k l b, cnt k l (fun _ => b) = if b then (2 ^ N.of_nat k)%N else 0%N.
Proof.
  induction k as [|k IH]; intros l b.
  - simpl. destruct b; reflexivity.
  - change (cnt (S k) l (fun _ => b)) with (cnt k (S l) (fun _ => b) + cnt k (S l) (fun _ => b))%N.
    rewrite IH, pow2_S. destruct b; lia.
Qed.

Lemma cnt_le : forall k l f, (cnt k l f <= 2 ^ N.of_nat k)%N.
Proof.
  induction k as [|k IH]; intros l f.
  - simpl. destruct (f _); change (2 ^ N.of_nat 0)%N with 1%N; lia.
  - change (cnt (S k) l f) with
      (cnt k (S l) (fun a => f (updb a l true)) + cnt k (S l) (fun a => f (updb a l false)))%N.
    pose proof (IH (S l) (fun a => f (updb a l true))).
    pose proof (IH (S l) (fun a => f (updb a l false))).
    rewrite pow2_S. lia.
Qed.

(** a level that must be false does not contribute *)
Lemma cnt_lo : forall k l f g, indep g l -> (forall a, f a = negb (a l) && g a) ->
  cnt (S k) l f = cnt k (S l) g.
Proof.
  intros k l f g Hi Hf.
  change (cnt (S k) l f) with
    (cnt k (S l) (fun a => f (updb a l true)) + cnt k (S l) (fun a => f (updb a l false)))%N.
  rewrite (cnt_ext k (S l) (fun a => f (updb a l true)) (fun _ => false)).
  2:{ intros a. rewrite Hf. unfold updb at 1. rewrite Nat.eqb_refl. reflexivity. }
  rewrite (cnt_ext k (S l) (fun a => f (updb a l false)) g).
  2:{ intros a. rewrite Hf. unfold updb at 1. rewrite Nat.eqb_refl. simpl. apply Hi. }
  rewrite cnt_const. lia.
Qed.

Lemma updb_same : forall a l b, updb a l b l = b.
Proof. intros. unfold updb. rewrite Nat.eqb_refl. reflexivity. Qed.

Lemma updb_other : forall a l b x, x <> l -> updb a l b x = a x.
Proof. intros a l b x Hx. unfold updb. destruct (Nat.eqb_spec x l); [contradiction | reflexivity]. Qed.

Lemma choice_of_lt : forall a l, choice_of a l < 2.
Proof. intros a l. unfold choice_of. destruct (a l); lia. Qed.

Lemma choice_of_ok : forall s a, choice_ok s (choice_of a).
Proof. intros s a l. pose proof (choice_of_lt a l). destruct (s_kind s); simpl; lia. Qed.

Lemma choice_of_updb_other : forall a l b x, x <> l -> choice_of (updb a l b) x = choice_of a x.
Proof. intros. unfold choice_of. rewrite updb_other by assumption. reflexivity. Qed.

Lemma choice_of_updb_same : forall a l b, choice_of (updb a l b) l = if b then 0 else 1.
Proof. intros. unfold choice_of. rewrite updb_same. reflexivity. Qed.

(** * Part C: exact counts *)

(** ** BDD *)

From OxiVerif Require Import DD.Canon.

Section SatBdd.
Variable s : snap.
Hypothesis H : WF s.
Hypothesis Hkind : s_kind s = KBdd.
Variable vars : nat.
Hypothesis Hvars : nlevels s <= vars.

Let n := nlevels s.
Let K : N := (2 ^ N.of_nat (vars - n))%N.

Lemma bdd_binary : binary (s_kind s).
Proof. unfold binary. rewrite Hkind. discriminate. Qed.

Lemma sat_bdd_T : forall f t, sat_bdd s f vars (RT t) =
  match term_val s t with
  | Some v => Some (if N.eqb v 1 then 2 ^ N.of_nat vars else 0)%N
  | None => None
  end.
Proof. intros. unfold sat_bdd. rewrite walk_T. reflexivity. Qed.

(** the recursion equation: (then + else) / 2 *)
Lemma sat_bdd_node : forall f id nd e0 e1,
  find_node s id = Some nd -> nchildren nd = [e0; e1] ->
  sat_bdd s (S f) vars (RN id) =
  match sat_bdd s f vars (eref e0), sat_bdd s f vars (eref e1) with
  | Some a, Some b => Some ((a + b) / 2)%N
  | _, _ => None
  end.
Proof.
  intros f id nd e0 e1 E Hc. unfold sat_bdd.
  rewrite (walk_node _ s f id false nd e0 e1 E Hc). simpl sc_tag.
  destruct (walk _ s f (eref e0) false); [|reflexivity].
  destruct (walk _ s f (eref e1) false); reflexivity.
Qed.

(** [fun_bdd] does not look at the levels above the reference *)
Lemma fun_bdd_indep : forall r i, i < rlevel s r -> indep (fun_bdd s r) i.
Proof.
  intros r i Hi a b. unfold fun_bdd. f_equal. apply (semk_ext s H). intros l Hl.
  apply choice_of_updb_other. lia.
Qed.

(** fixing the node's level selects the child *)
Lemma fun_bdd_child : forall id nd e0 e1 a b,
  find_node s id = Some nd -> nchildren nd = [e0; e1] ->
  fun_bdd s (RN id) (updb a (nlevel nd) b) = fun_bdd s (eref (if b then e0 else e1)) a.
Proof.
  intros id nd e0 e1 a b E Hc. unfold fun_bdd. f_equal.
  set (i := if b then 0 else 1).
  assert (Hn : nth_error (nchildren nd) i = Some (if b then e0 else e1))
    by (rewrite Hc; unfold i; destruct b; reflexivity).
  pose proof (child_sem s H id nd i _ (choice_of a) E Hn) as Hs. unfold semn in Hs.
  rewrite Hs. apply (semk_ext s H). intros l Hl. unfold upd.
  destruct (Nat.eqb_spec l (nlevel nd)) as [->|Hne].
  - rewrite choice_of_updb_same. unfold i. destruct b; reflexivity.
  - apply choice_of_updb_other. exact Hne.
Qed.

(** number of satisfying assignments of the levels [l, n) *)
Definition Cb (l : nat) (r : ref) : N := cnt (n - l) l (fun_bdd s r).

Lemma Cb_total : forall l r, l <= rlevel s r ->
  (count_levels n (fun_bdd s r) = 2 ^ N.of_nat l * Cb l r)%N.
Proof.
  intros l r Hl. pose proof (rlevel_le s H r) as Hle. fold n in Hle.
  unfold count_levels, Cb. replace n with (l + (n - l)) at 1 by lia.
  rewrite cnt_skip by (intros i Hi; apply fun_bdd_indep; lia). reflexivity.
Qed.

Lemma Cb_node : forall id nd e0 e1, find_node s id = Some nd -> nchildren nd = [e0; e1] ->
  (Cb (nlevel nd) (RN id) = Cb (S (nlevel nd)) (eref e0) + Cb (S (nlevel nd)) (eref e1))%N.
Proof.
  intros id nd e0 e1 E Hc. pose proof (wf_level s H id nd E) as Hl. fold n in Hl.
  unfold Cb. replace (n - nlevel nd) with (S (n - S (nlevel nd))) by lia.
  change (cnt (S (n - S (nlevel nd))) (nlevel nd) (fun_bdd s (RN id))) with
    (cnt (n - S (nlevel nd)) (S (nlevel nd)) (fun a => fun_bdd s (RN id) (updb a (nlevel nd) true)) +
     cnt (n - S (nlevel nd)) (S (nlevel nd)) (fun a => fun_bdd s (RN id) (updb a (nlevel nd) false)))%N.
  rewrite (cnt_ext _ _ (fun a => fun_bdd s (RN id) (updb a (nlevel nd) true)) (fun_bdd s (eref e0)))
    by (intros a; apply (fun_bdd_child id nd e0 e1 a true E Hc)).
  rewrite (cnt_ext _ _ (fun a => fun_bdd s (RN id) (updb a (nlevel nd) false)) (fun_bdd s (eref e1)))
    by (intros a; apply (fun_bdd_child id nd e0 e1 a false E Hc)).
  reflexivity.
Qed.

Lemma node_children_ok : forall id nd e0 e1, find_node s id = Some nd -> nchildren nd = [e0; e1] ->
  (ref_ok s (eref e0) /\ nlevel nd < rlevel s (eref e0)) /\
  (ref_ok s (eref e1) /\ nlevel nd < rlevel s (eref e1)).
Proof.
  intros id nd e0 e1 E Hc. split; apply (wf_child s H id nd _ E); rewrite Hc; simpl; auto.
Qed.

(** the total count of a node is the mean of its children's *)
Lemma total_node : forall id nd e0 e1, find_node s id = Some nd -> nchildren nd = [e0; e1] ->
  (count_levels n (fun_bdd s (eref e0)) + count_levels n (fun_bdd s (eref e1)) =
   2 * count_levels n (fun_bdd s (RN id)))%N.
Proof.
  intros id nd e0 e1 E Hc.
  destruct (node_children_ok id nd e0 e1 E Hc) as [[O0 L0] [O1 L1]].
  rewrite (Cb_total (S (nlevel nd)) (eref e0)) by lia.
  rewrite (Cb_total (S (nlevel nd)) (eref e1)) by lia.
  rewrite (Cb_total (nlevel nd) (RN id)) by (rewrite (rlevel_node s id nd E); lia).
  rewrite (Cb_node id nd e0 e1 E Hc), pow2_S. lia.
Qed.

Lemma K_vars : (K * 2 ^ N.of_nat n = 2 ^ N.of_nat vars)%N.
Proof. unfold K. rewrite <- pow2_add. f_equal. f_equal. lia. Qed.

Lemma sat_bdd_main : forall f r, ref_ok s r -> n - rlevel s r < f ->
  sat_bdd s f vars r = Some (K * count_levels n (fun_bdd s r))%N.
Proof.
  induction f as [|f IH]; intros r Hok Hf; [lia|].
  destruct r as [t|id].
  - rewrite sat_bdd_T. destruct Hok as [v Ev]. rewrite Ev. f_equal.
    unfold count_levels.
    rewrite (cnt_ext n 0 (fun_bdd s (RT t)) (fun _ => N.eqb v 1)).
    2:{ intros a. unfold fun_bdd. rewrite semk_T, Ev. reflexivity. }
    rewrite cnt_const. destruct (N.eqb v 1); [symmetry; apply K_vars | lia].
  - destruct Hok as [nd E]. rewrite (rlevel_node s id nd E) in Hf.
    destruct (two_children s id nd H bdd_binary E) as [e0 [e1 Hc]].
    destruct (node_children_ok id nd e0 e1 E Hc) as [[O0 L0] [O1 L1]].
    pose proof (rlevel_le s H (eref e0)) as B0. pose proof (rlevel_le s H (eref e1)) as B1.
    fold n in B0, B1.
    rewrite (sat_bdd_node f id nd e0 e1 E Hc).
    rewrite (IH (eref e0) O0), (IH (eref e1) O1) by lia. f_equal.
    rewrite <- N.mul_add_distr_l, (total_node id nd e0 e1 E Hc).
    replace (K * (2 * count_levels n (fun_bdd s (RN id))))%N
      with (K * count_levels n (fun_bdd s (RN id)) * 2)%N by lia.
    apply N.div_mul. discriminate.
Qed.


(** model counting on BDDs is exact *)
Theorem sat_bdd_correct_sec : forall r, ref_ok s r ->
  sat_bdd s (S n) vars r =
  Some (2 ^ N.of_nat (vars - n) * count_levels n (fun_bdd s r))%N.
Proof. intros r Hok. apply sat_bdd_main; [exact Hok | lia]. Qed.

(** the value of a reference of level [l] is a multiple of [2^(vars - n + l)]:
    only the [n - l] levels below it can lower the power of two *)
Theorem sat_bdd_divisible_sec : forall r, ref_ok s r ->
  sat_bdd s (S n) vars r =
  Some (2 ^ N.of_nat (vars - n + rlevel s r) * Cb (rlevel s r) r)%N.
Proof.
  intros r Hok. rewrite (sat_bdd_correct_sec r Hok). f_equal.
  rewrite (Cb_total (rlevel s r) r (le_n _)), pow2_add. lia.
Qed.

(** every halving [(a + b) >> 1] of the recursion is exact *)
Theorem sat_bdd_halving_exact_sec : forall id nd e0 e1 a b,
  find_node s id = Some nd -> nchildren nd = [e0; e1] ->
  sat_bdd s (S n) vars (eref e0) = Some a -> sat_bdd s (S n) vars (eref e1) = Some b ->
  ((a + b) mod 2 = 0 /\ sat_bdd s (S n) vars (RN id) = Some ((a + b) / 2) /\
   2 * ((a + b) / 2) = a + b)%N.
Proof.
  intros id nd e0 e1 a b E Hc Ha Hb.
  destruct (node_children_ok id nd e0 e1 E Hc) as [[O0 L0] [O1 L1]].
  rewrite (sat_bdd_correct_sec _ O0) in Ha. rewrite (sat_bdd_correct_sec _ O1) in Hb.
  inversion Ha; subst a. inversion Hb; subst b. clear Ha Hb.
  assert (Hsum : (2 ^ N.of_nat (vars - n) * count_levels n (fun_bdd s (eref e0)) +
                  2 ^ N.of_nat (vars - n) * count_levels n (fun_bdd s (eref e1)) =
                  (2 ^ N.of_nat (vars - n) * count_levels n (fun_bdd s (RN id))) * 2)%N).
  { rewrite <- N.mul_add_distr_l, (total_node id nd e0 e1 E Hc). lia. }
  rewrite Hsum. split; [apply N.mod_mul; discriminate|].
  rewrite N.div_mul by discriminate. split; [|lia].
  apply sat_bdd_correct_sec. exists nd. exact E.
Qed.

(** the count never exceeds [2^vars] ... *)
Lemma sat_bdd_le_sec : forall r v, ref_ok s r -> sat_bdd s (S n) vars r = Some v ->
  (v <= 2 ^ N.of_nat vars)%N.
Proof.
  intros r v Hok Hv. rewrite (sat_bdd_correct_sec r Hok) in Hv. inversion Hv; subst v.
  rewrite <- K_vars. unfold K. apply N.mul_le_mono_l. apply cnt_le.
Qed.

End SatBdd.

Theorem sat_bdd_correct : forall s vars r, WF s -> s_kind s = KBdd -> nlevels s <= vars ->
  ref_ok s r ->
  sat_bdd s (S (nlevels s)) vars r =
  Some (2 ^ N.of_nat (vars - nlevels s) * count_levels (nlevels s) (fun_bdd s r))%N.
Proof. intros s vars r H Hk Hv Hok. apply sat_bdd_correct_sec; assumption. Qed.

Theorem sat_bdd_divisible : forall s vars r, WF s -> s_kind s = KBdd -> nlevels s <= vars ->
  ref_ok s r ->
  sat_bdd s (S (nlevels s)) vars r =
  Some (2 ^ N.of_nat (vars - nlevels s + rlevel s r) *
        cnt (nlevels s - rlevel s r) (rlevel s r) (fun_bdd s r))%N.
Proof. intros s vars r H Hk Hv Hok. apply sat_bdd_divisible_sec; assumption. Qed.

Theorem sat_bdd_halving_exact : forall s vars id nd e0 e1 a b,
  WF s -> s_kind s = KBdd -> nlevels s <= vars ->
  find_node s id = Some nd -> nchildren nd = [e0; e1] ->
  sat_bdd s (S (nlevels s)) vars (eref e0) = Some a ->
  sat_bdd s (S (nlevels s)) vars (eref e1) = Some b ->
  ((a + b) mod 2 = 0 /\ sat_bdd s (S (nlevels s)) vars (RN id) = Some ((a + b) / 2) /\
   2 * ((a + b) / 2) = a + b)%N.
Proof. intros s vars id nd e0 e1 a b H Hk Hv. apply sat_bdd_halving_exact_sec; assumption. Qed.

Lemma sat_bdd_le : forall s vars r v, WF s -> s_kind s = KBdd -> nlevels s <= vars ->
  ref_ok s r -> sat_bdd s (S (nlevels s)) vars r = Some v -> (v <= 2 ^ N.of_nat vars)%N.
Proof. intros s vars r v H Hk Hv. apply sat_bdd_le_sec; assumption. Qed.

Example ex_sat_bdd_wf : wf_b ex_sat_bdd = true.
Proof. vm_compute. reflexivity. Qed.

(* (x0 /\ x1) \/ x2: 5 models over 3 variables, 10 over 4 *)
Example ex_sat_bdd_count :
  sat_bdd ex_sat_bdd 4 3 (RN 4) = Some 5%N /\
  sat_bdd ex_sat_bdd 4 4 (RN 4) = Some 10%N /\
  count_levels 3 (fun_bdd ex_sat_bdd (RN 4)) = 5%N /\
  sat_bdd ex_sat_bdd 4 3 (RT 0) = Some 0%N /\ sat_bdd ex_sat_bdd 4 3 (RT 1) = Some 8%N.
Proof. vm_compute. repeat split; reflexivity. Qed.

(* the cached run: same values; the shared node 2 (ref_count 2) is cached *)
Example ex_sat_bdd_cached :
  match sat_bdd_c ex_sat_bdd 4 3 false (RN 4) (PositiveMap.empty N) with
  | Some (v, m) => v = 5%N /\ PositiveMap.elements m = [(2%positive, 4%N)]
  | None => False
  end.
Proof. vm_compute. split; reflexivity. Qed.

(** ** BCDD *)

From OxiVerif Require Import DD.CanonBcdd.

Lemma semc_retag : forall s f x t c,
  semc s f (mkEdge (eref x) (xorb t (etag x))) c = option_map (xorb t) (semc s f x c).
Proof.
  intros s f x t c. destruct (eref x) as [u|id] eqn:Er.
  - rewrite (semc_T s f _ c u) by reflexivity. rewrite (semc_T s f x c u Er). simpl.
    destruct t, (etag x); reflexivity.
  - destruct f as [|f].
    + rewrite (semc_O s _ c id) by reflexivity. rewrite (semc_O s x c id Er). reflexivity.
    + rewrite (semc_S s f _ c id) by reflexivity. rewrite (semc_S s f x c id Er).
      destruct (find_node s id) as [nd|]; [|reflexivity].
      destruct (nth_error (nchildren nd) (c (nlevel nd))) as [e'|]; [|reflexivity].
      destruct (semc s f e' c) as [b|]; [|reflexivity]. simpl.
      destruct t, (etag x), b; reflexivity.
Qed.

Section SatBcdd.
Variable s : snap.
Hypothesis H : WF s.
Hypothesis Hkind : s_kind s = KBcdd.
Variable vars : nat.
Hypothesis Hvars : nlevels s <= vars.

Let n := nlevels s.
Let K : N := (2 ^ N.of_nat (vars - n))%N.

Lemma bcdd_binary : binary (s_kind s).
Proof. unfold binary. rewrite Hkind. discriminate. Qed.

(** the function of the edge (r, tag) *)
Definition Fc (r : ref) (tag : bool) : lasg -> bool := fun_bcdd s (mkEdge r tag).

Definition walk_c (f : nat) (r : ref) (tag : bool) : option N :=
  walk (bcdd_scheme exact_ops (2 ^ N.of_nat vars)%N) s f r tag.

Lemma sat_bcdd_walk : forall f e, sat_bcdd s f vars e = walk_c f (eref e) (etag e).
Proof. reflexivity. Qed.

Lemma walk_c_T : forall f t tag,
  walk_c f (RT t) tag = Some (if tag then 0 else 2 ^ N.of_nat vars)%N.
Proof. intros. unfold walk_c. rewrite walk_T. reflexivity. Qed.

(** the recursion equation: cofactors carry the incoming tag *)
Lemma walk_c_node : forall f id tag nd e0 e1,
  find_node s id = Some nd -> nchildren nd = [e0; e1] ->
  walk_c (S f) (RN id) tag =
  match walk_c f (eref e0) (xorb tag (etag e0)), walk_c f (eref e1) (xorb tag (etag e1)) with
  | Some a, Some b => Some ((a + b) / 2)%N
  | _, _ => None
  end.
Proof.
  intros f id tag nd e0 e1 E Hc. unfold walk_c.
  rewrite (walk_node _ s f id tag nd e0 e1 E Hc). simpl sc_tag.
  destruct (walk _ s f (eref e0) _); [|reflexivity].
  destruct (walk _ s f (eref e1) _); reflexivity.
Qed.

Lemma Fc_indep : forall r tag i, i < rlevel s r -> indep (Fc r tag) i.
Proof.
  intros r tag i Hi a b. unfold Fc, fun_bcdd. f_equal. apply (semc_ext s H). simpl eref.
  intros l Hl. apply choice_of_updb_other. lia.
Qed.

Lemma Fc_child : forall id tag nd e0 e1 a b,
  find_node s id = Some nd -> nchildren nd = [e0; e1] ->
  Fc (RN id) tag (updb a (nlevel nd) b) =
  Fc (eref (if b then e0 else e1)) (xorb tag (etag (if b then e0 else e1))) a.
Proof.
  intros id tag nd e0 e1 a b E Hc. unfold Fc, fun_bcdd. f_equal.
  set (i := if b then 0 else 1). set (x := if b then e0 else e1).
  assert (Hn : nth_error (nchildren nd) i = Some x)
    by (rewrite Hc; unfold i, x; destruct b; reflexivity).
  pose proof (child_semc s H (mkEdge (RN id) tag) id nd i x (choice_of a) eq_refl E Hn) as Hs.
  unfold semcn in Hs. simpl etag in Hs.
  rewrite semc_retag, <- Hs. apply (semc_ext s H). simpl eref. intros l Hl. unfold upd.
  destruct (Nat.eqb_spec l (nlevel nd)) as [->|Hne].
  - rewrite choice_of_updb_same. unfold i. destruct b; reflexivity.
  - apply choice_of_updb_other. exact Hne.
Qed.

Definition Cc (l : nat) (r : ref) (tag : bool) : N := cnt (n - l) l (Fc r tag).

Lemma Cc_total : forall l r tag, l <= rlevel s r ->
  (count_levels n (Fc r tag) = 2 ^ N.of_nat l * Cc l r tag)%N.
Proof.
  intros l r tag Hl. pose proof (rlevel_le s H r) as Hle. fold n in Hle.
  unfold count_levels, Cc. replace n with (l + (n - l)) at 1 by lia.
  rewrite cnt_skip by (intros i Hi; apply Fc_indep; lia). reflexivity.
Qed.

Lemma Cc_node : forall id tag nd e0 e1, find_node s id = Some nd -> nchildren nd = [e0; e1] ->
  (Cc (nlevel nd) (RN id) tag =
   Cc (S (nlevel nd)) (eref e0) (xorb tag (etag e0)) + Cc (S (nlevel nd)) (eref e1) (xorb tag (etag e1)))%N.
Proof.
  intros id tag nd e0 e1 E Hc. pose proof (wf_level s H id nd E) as Hl. fold n in Hl.
  unfold Cc. replace (n - nlevel nd) with (S (n - S (nlevel nd))) by lia.
  change (cnt (S (n - S (nlevel nd))) (nlevel nd) (Fc (RN id) tag)) with
    (cnt (n - S (nlevel nd)) (S (nlevel nd)) (fun a => Fc (RN id) tag (updb a (nlevel nd) true)) +
     cnt (n - S (nlevel nd)) (S (nlevel nd)) (fun a => Fc (RN id) tag (updb a (nlevel nd) false)))%N.
  rewrite (cnt_ext _ _ (fun a => Fc (RN id) tag (updb a (nlevel nd) true))
             (Fc (eref e0) (xorb tag (etag e0))))
    by (intros a; apply (Fc_child id tag nd e0 e1 a true E Hc)).
  rewrite (cnt_ext _ _ (fun a => Fc (RN id) tag (updb a (nlevel nd) false))
             (Fc (eref e1) (xorb tag (etag e1))))
    by (intros a; apply (Fc_child id tag nd e0 e1 a false E Hc)).
  reflexivity.
Qed.

Lemma node_children_ok_c : forall id nd e0 e1, find_node s id = Some nd -> nchildren nd = [e0; e1] ->
  (ref_ok s (eref e0) /\ nlevel nd < rlevel s (eref e0)) /\
  (ref_ok s (eref e1) /\ nlevel nd < rlevel s (eref e1)).
Proof.
  intros id nd e0 e1 E Hc. split; apply (wf_child s H id nd _ E); rewrite Hc; simpl; auto.
Qed.

Lemma total_node_c : forall id tag nd e0 e1, find_node s id = Some nd -> nchildren nd = [e0; e1] ->
  (count_levels n (Fc (eref e0) (xorb tag (etag e0))) + count_levels n (Fc (eref e1) (xorb tag (etag e1))) =
   2 * count_levels n (Fc (RN id) tag))%N.
Proof.
  intros id tag nd e0 e1 E Hc.
  destruct (node_children_ok_c id nd e0 e1 E Hc) as [[O0 L0] [O1 L1]].
  rewrite (Cc_total (S (nlevel nd)) (eref e0)) by lia.
  rewrite (Cc_total (S (nlevel nd)) (eref e1)) by lia.
  rewrite (Cc_total (nlevel nd) (RN id)) by (rewrite (rlevel_node s id nd E); lia).
  rewrite (Cc_node id tag nd e0 e1 E Hc), pow2_S. lia.
Qed.

Lemma K_vars_c : (K * 2 ^ N.of_nat n = 2 ^ N.of_nat vars)%N.
Proof. unfold K. rewrite <- pow2_add. f_equal. f_equal. lia. Qed.

Lemma sat_bcdd_main : forall f r tag, ref_ok s r -> n - rlevel s r < f ->
  walk_c f r tag = Some (K * count_levels n (Fc r tag))%N.
Proof.
  induction f as [|f IH]; intros r tag Hok Hf; [lia|].
  destruct r as [t|id].
  - rewrite walk_c_T. f_equal. unfold count_levels.
    rewrite (cnt_ext n 0 (Fc (RT t) tag) (fun _ => negb tag)).
    2:{ intros a. unfold Fc, fun_bcdd. rewrite (semc_T s _ _ _ t) by reflexivity. reflexivity. }
    rewrite cnt_const. destruct tag; simpl; [lia | symmetry; apply K_vars_c].
  - destruct Hok as [nd E]. rewrite (rlevel_node s id nd E) in Hf.
    destruct (two_children s id nd H bcdd_binary E) as [e0 [e1 Hc]].
    destruct (node_children_ok_c id nd e0 e1 E Hc) as [[O0 L0] [O1 L1]].
    pose proof (rlevel_le s H (eref e0)) as B0. pose proof (rlevel_le s H (eref e1)) as B1.
    fold n in B0, B1.
    rewrite (walk_c_node f id tag nd e0 e1 E Hc).
    rewrite (IH (eref e0) _ O0), (IH (eref e1) _ O1) by lia. f_equal.
    rewrite <- N.mul_add_distr_l, (total_node_c id tag nd e0 e1 E Hc).
    replace (K * (2 * count_levels n (Fc (RN id) tag)))%N
      with (K * count_levels n (Fc (RN id) tag) * 2)%N by lia.
    apply N.div_mul. discriminate.
Qed.

Theorem sat_bcdd_halving_exact_sec : forall id tag nd e0 e1 a b,
  find_node s id = Some nd -> nchildren nd = [e0; e1] ->
  walk_c (S n) (eref e0) (xorb tag (etag e0)) = Some a ->
  walk_c (S n) (eref e1) (xorb tag (etag e1)) = Some b ->
  ((a + b) mod 2 = 0 /\ walk_c (S n) (RN id) tag = Some ((a + b) / 2) /\
   2 * ((a + b) / 2) = a + b)%N.
Proof.
  intros id tag nd e0 e1 a b E Hc Ha Hb.
  destruct (node_children_ok_c id nd e0 e1 E Hc) as [[O0 L0] [O1 L1]].
  rewrite (sat_bcdd_main _ _ _ O0) in Ha by lia. rewrite (sat_bcdd_main _ _ _ O1) in Hb by lia.
  inversion Ha; subst a. inversion Hb; subst b. clear Ha Hb.
  rewrite <- N.mul_add_distr_l, (total_node_c id tag nd e0 e1 E Hc).
  replace (K * (2 * count_levels n (Fc (RN id) tag)))%N
    with (K * count_levels n (Fc (RN id) tag) * 2)%N by lia.
  split; [apply N.mod_mul; discriminate|].
  rewrite N.div_mul by discriminate. split; [|lia].
  apply sat_bcdd_main; [exists nd; exact E | lia].
Qed.

End SatBcdd.

Lemma edge_eta : forall e, mkEdge (eref e) (etag e) = e.
Proof. intros [r t]. reflexivity. Qed.

Theorem sat_bcdd_correct : forall s vars e, WF s -> s_kind s = KBcdd -> nlevels s <= vars ->
  ref_ok s (eref e) ->
  sat_bcdd s (S (nlevels s)) vars e =
  Some (2 ^ N.of_nat (vars - nlevels s) * count_levels (nlevels s) (fun_bcdd s e))%N.
Proof.
  intros s vars e H Hk Hv Hok. rewrite sat_bcdd_walk.
  rewrite (sat_bcdd_main s H Hk vars Hv (S (nlevels s)) (eref e) (etag e) Hok) by lia.
  unfold Fc. rewrite edge_eta. reflexivity.
Qed.

(** every halving of the BCDD recursion is exact: [a], [b] are the values of
    the two cofactors of the edge (id, tag) *)
Theorem sat_bcdd_halving_exact : forall s vars id tag nd e0 e1 a b,
  WF s -> s_kind s = KBcdd -> nlevels s <= vars ->
  find_node s id = Some nd -> nchildren nd = [e0; e1] ->
  sat_bcdd s (S (nlevels s)) vars (mkEdge (eref e0) (xorb tag (etag e0))) = Some a ->
  sat_bcdd s (S (nlevels s)) vars (mkEdge (eref e1) (xorb tag (etag e1))) = Some b ->
  ((a + b) mod 2 = 0 /\ sat_bcdd s (S (nlevels s)) vars (mkEdge (RN id) tag) = Some ((a + b) / 2) /\
   2 * ((a + b) / 2) = a + b)%N.
Proof.
  intros s vars id tag nd e0 e1 a b H Hk Hv E Hc Ha Hb.
  apply (sat_bcdd_halving_exact_sec s H Hk vars Hv id tag nd e0 e1 a b E Hc Ha Hb).
Qed.

Example ex_sat_bcdd_ok : wf_full_b ex_sat_bcdd = true.
Proof. vm_compute. reflexivity. Qed.

Example ex_sat_bcdd_count :
  sat_bcdd ex_sat_bcdd 4 3 (mkEdge (RN 4) false) = Some 5%N /\
  sat_bcdd ex_sat_bcdd 4 3 (mkEdge (RN 4) true) = Some 3%N /\
  sat_bcdd ex_sat_bcdd 4 4 (mkEdge (RN 4) false) = Some 10%N /\
  count_levels 3 (fun_bcdd ex_sat_bcdd (mkEdge (RN 4) false)) = 5%N /\
  count_levels 3 (fun_bcdd ex_sat_bcdd (mkEdge (RN 4) true)) = 3%N.
Proof. vm_compute. repeat split; reflexivity. Qed.

(* cache keys carry the tag: node 2 is cached once per polarity *)
Example ex_sat_bcdd_cached :
  match sat_bcdd_c ex_sat_bcdd 4 3 false (mkEdge (RN 4) true) (PositiveMap.empty N) with
  | Some (v, m) => v = 3%N /\ PositiveMap.elements m = [(5%positive, 4%N)]
  | None => False
  end.
Proof. vm_compute. split; reflexivity. Qed.

(** ** ZBDD *)

From OxiVerif Require Import DD.CanonZbdd.

Lemma all_lo_S : forall c from k,
  all_lo c from (S k) = Nat.eqb (c from) 1 && all_lo c (S from) k.
Proof. reflexivity. Qed.

Section SatZbdd.
Variable s : snap.
Hypothesis H : WF s.
Hypothesis Hkind : s_kind s = KZbdd.

Let n := nlevels s.

Lemma zbdd_binary : binary (s_kind s).
Proof. unfold binary. rewrite Hkind. discriminate. Qed.

(** the function of [r] seen from level [l] *)
Definition Fz (l : nat) (r : ref) : lasg -> bool :=
  fun a => opt_true (semz s (S n) l r (choice_of a)).

Lemma paths_T : forall f t, paths_zbdd s f (RT t) =
  match term_val s t with
  | Some v => Some (if N.eqb v 1 then 1 else 0)%N
  | None => None
  end.
Proof. intros. unfold paths_zbdd. rewrite walk_T. reflexivity. Qed.

(** the recursion equation: then + else *)
Lemma paths_node : forall f id nd e0 e1,
  find_node s id = Some nd -> nchildren nd = [e0; e1] ->
  paths_zbdd s (S f) (RN id) =
  match paths_zbdd s f (eref e0), paths_zbdd s f (eref e1) with
  | Some a, Some b => Some (a + b)%N
  | _, _ => None
  end.
Proof.
  intros f id nd e0 e1 E Hc. unfold paths_zbdd.
  rewrite (walk_node _ s f id false nd e0 e1 E Hc). reflexivity.
Qed.

Lemma Fz_indep : forall l r i, i < l -> indep (Fz l r) i.
Proof.
  intros l r i Hi a b. unfold Fz. f_equal. apply semz_ext. intros x Hx.
  apply choice_of_updb_other. lia.
Qed.

(** a level skipped in front of a reference must be false *)
Lemma Fz_lo : forall l r a, ref_ok s r -> l < rlevel s r ->
  Fz l r a = negb (a l) && Fz (S l) r a.
Proof.
  intros l r a Hok Hl. unfold Fz. destruct r as [t|id].
  - destruct Hok as [v Ev]. rewrite !semz_T, Ev. simpl in Hl. fold n in Hl. fold n.
    replace (n - l) with (S (n - S l)) by lia. rewrite all_lo_S.
    unfold choice_of at 1. simpl opt_true.
    destruct (a l); simpl; destruct (N.eqb v 1); reflexivity.
  - destruct Hok as [nd E]. rewrite !semz_S, E. rewrite (rlevel_node s id nd E) in Hl.
    destruct (Nat.ltb_spec (nlevel nd) l) as [X|_]; [lia|].
    destruct (Nat.ltb_spec (nlevel nd) (S l)) as [X|_]; [lia|].
    replace (nlevel nd - l) with (S (nlevel nd - S l)) by lia. rewrite all_lo_S.
    unfold choice_of at 1. destruct (a l); simpl; reflexivity.
Qed.

Definition Zc (l : nat) (r : ref) : N := cnt (n - l) l (Fz l r).

Lemma Zc_step : forall l r, ref_ok s r -> l < rlevel s r -> Zc l r = Zc (S l) r.
Proof.
  intros l r Hok Hl. pose proof (rlevel_le s H r) as Hle. fold n in Hle.
  unfold Zc. replace (n - l) with (S (n - S l)) by lia.
  apply cnt_lo; [apply Fz_indep; lia | intros a; apply Fz_lo; assumption].
Qed.

Lemma Zc_lower : forall d l r, ref_ok s r -> l + d = rlevel s r -> Zc l r = Zc (rlevel s r) r.
Proof.
  induction d as [|d IH]; intros l r Hok Hl.
  - replace l with (rlevel s r) by lia. reflexivity.
  - rewrite (Zc_step l r Hok) by lia. apply IH; [exact Hok | lia].
Qed.

Lemma Fz_child : forall id nd e0 e1 a b,
  find_node s id = Some nd -> nchildren nd = [e0; e1] ->
  Fz (nlevel nd) (RN id) (updb a (nlevel nd) b) = Fz (S (nlevel nd)) (eref (if b then e0 else e1)) a.
Proof.
  intros id nd e0 e1 a b E Hc. unfold Fz. f_equal.
  set (x := if b then e0 else e1).
  assert (Hn : nth_error (nchildren nd) (choice_of (updb a (nlevel nd) b) (nlevel nd)) = Some x).
  { rewrite choice_of_updb_same, Hc. unfold x. destruct b; reflexivity. }
  pose proof (node_semz s H id nd x (nlevel nd) _ E Hn (le_n _)) as Hs.
  rewrite Nat.sub_diag in Hs. specialize (Hs eq_refl). unfold semzn in Hs. fold n in Hs.
  rewrite Hs. apply semz_ext. intros l Hl. apply choice_of_updb_other. lia.
Qed.

Lemma Zc_node : forall id nd e0 e1, find_node s id = Some nd -> nchildren nd = [e0; e1] ->
  (Zc (nlevel nd) (RN id) = Zc (S (nlevel nd)) (eref e0) + Zc (S (nlevel nd)) (eref e1))%N.
Proof.
  intros id nd e0 e1 E Hc. pose proof (wf_level s H id nd E) as Hl. fold n in Hl.
  unfold Zc. replace (n - nlevel nd) with (S (n - S (nlevel nd))) by lia.
  change (cnt (S (n - S (nlevel nd))) (nlevel nd) (Fz (nlevel nd) (RN id))) with
    (cnt (n - S (nlevel nd)) (S (nlevel nd)) (fun a => Fz (nlevel nd) (RN id) (updb a (nlevel nd) true)) +
     cnt (n - S (nlevel nd)) (S (nlevel nd)) (fun a => Fz (nlevel nd) (RN id) (updb a (nlevel nd) false)))%N.
  rewrite (cnt_ext _ _ (fun a => Fz (nlevel nd) (RN id) (updb a (nlevel nd) true))
             (Fz (S (nlevel nd)) (eref e0)))
    by (intros a; apply (Fz_child id nd e0 e1 a true E Hc)).
  rewrite (cnt_ext _ _ (fun a => Fz (nlevel nd) (RN id) (updb a (nlevel nd) false))
             (Fz (S (nlevel nd)) (eref e1)))
    by (intros a; apply (Fz_child id nd e0 e1 a false E Hc)).
  reflexivity.
Qed.

Lemma paths_main : forall f r, ref_ok s r -> n - rlevel s r < f ->
  paths_zbdd s f r = Some (Zc (rlevel s r) r).
Proof.
  induction f as [|f IH]; intros r Hok Hf; [lia|].
  destruct r as [t|id].
  - rewrite paths_T. destruct Hok as [v Ev]. rewrite Ev. f_equal.
    unfold Zc. simpl rlevel. fold n. rewrite Nat.sub_diag. simpl cnt.
    unfold Fz. rewrite semz_T, Ev. fold n. rewrite Nat.sub_diag. simpl.
    rewrite andb_true_r. reflexivity.
  - destruct Hok as [nd E]. rewrite (rlevel_node s id nd E) in *.
    destruct (two_children s id nd H zbdd_binary E) as [e0 [e1 Hc]].
    assert (I0 : In e0 (nchildren nd)) by (rewrite Hc; simpl; auto).
    assert (I1 : In e1 (nchildren nd)) by (rewrite Hc; simpl; auto).
    destruct (wf_child s H id nd e0 E I0) as [O0 L0].
    destruct (wf_child s H id nd e1 E I1) as [O1 L1].
    pose proof (rlevel_le s H (eref e0)) as B0. pose proof (rlevel_le s H (eref e1)) as B1.
    fold n in B0, B1.
    rewrite (paths_node f id nd e0 e1 E Hc).
    rewrite (IH (eref e0) O0), (IH (eref e1) O1) by lia. f_equal.
    rewrite (Zc_node id nd e0 e1 E Hc).
    rewrite (Zc_lower (rlevel s (eref e0) - S (nlevel nd)) (S (nlevel nd)) (eref e0) O0) by lia.
    rewrite (Zc_lower (rlevel s (eref e1) - S (nlevel nd)) (S (nlevel nd)) (eref e1) O1) by lia.
    reflexivity.
Qed.

(** the number of paths to Base is the number of satisfying level-assignments *)
Theorem paths_zbdd_correct_sec : forall r, ref_ok s r ->
  paths_zbdd s (S n) r = Some (count_levels n (fun_zbdd s r)).
Proof.
  intros r Hok. rewrite paths_main by (auto; lia). f_equal.
  rewrite <- (Zc_lower (rlevel s r) 0 r Hok) by lia.
  unfold Zc, count_levels. rewrite Nat.sub_0_r. reflexivity.
Qed.

End SatZbdd.

Theorem paths_zbdd_correct : forall s r, WF s -> s_kind s = KZbdd -> ref_ok s r ->
  paths_zbdd s (S (nlevels s)) r = Some (count_levels (nlevels s) (fun_zbdd s r)).
Proof. intros s r H Hk Hok. apply paths_zbdd_correct_sec; assumption. Qed.

(** [sat_count(vars)] on ZBDDs, [vars >= num_levels]: every additional
    variable doubles the count *)
Theorem sat_zbdd_correct : forall s vars r, WF s -> s_kind s = KZbdd -> nlevels s <= vars ->
  ref_ok s r ->
  sat_zbdd s (S (nlevels s)) vars r =
  Some (2 ^ N.of_nat (vars - nlevels s) * count_levels (nlevels s) (fun_zbdd s r))%N.
Proof.
  intros s vars r H Hk Hv Hok. unfold sat_zbdd. rewrite (paths_zbdd_correct s r H Hk Hok).
  simpl option_map. unfold zbdd_shift.
  destruct (Nat.leb_spec (nlevels s) vars) as [_|X]; [|lia]. simpl n_shl. f_equal. lia.
Qed.

Example ex_sat_zbdd_ok : wf_full_b ex_sat_zbdd = true.
Proof. vm_compute. reflexivity. Qed.

Example ex_sat_zbdd_count :
  paths_zbdd ex_sat_zbdd 4 (RN 6) = Some 5%N /\
  sat_zbdd ex_sat_zbdd 4 3 (RN 6) = Some 5%N /\
  sat_zbdd ex_sat_zbdd 4 4 (RN 6) = Some 10%N /\
  count_levels 3 (fun_zbdd ex_sat_zbdd (RN 6)) = 5%N.
Proof. vm_compute. repeat split; reflexivity. Qed.

(** * Part D: saturating arithmetic ([Saturating<u64>], [Saturating<u128>]) *)

From OxiVerif Require Num.NatBase.

Section Saturating.
Variable w : N.
Hypothesis Hw : (2 <= w)%N.

Let MAX := sat_max w.

(** [<<] of [Saturating<uW>]: the product if it fits, the marker otherwise *)
Definition sat_fit (x : N) : N := if (x <? 2 ^ w)%N then x else sat_max w.

Lemma sat_shl_spec : forall x k, (x < 2 ^ w)%N ->
  n_shl (sat_ops w) x k = sat_fit (x * 2 ^ N.of_nat k)%N.
Proof.
  intros x k Hx. simpl n_shl. unfold sat_fit. destruct (N.eqb_spec x 0) as [->|Hnz].
  - rewrite N.mul_0_l. pose proof (pow2_pos w). destruct (N.ltb_spec 0 (2 ^ w)); [reflexivity | lia].
  - assert (Hs : (N.size x <= w)%N) by (apply NatBase.size_le_iff; exact Hx).
    pose proof (NatBase.size_mul_p2 x (N.of_nat k) Hnz) as Sm.
    pose proof (NatBase.size_le_iff (x * 2 ^ N.of_nat k) w) as Hiff.
    destruct (N.ltb_spec (w - N.size x) (N.of_nat k)) as [Hov|Hfit];
      destruct (N.ltb_spec (x * 2 ^ N.of_nat k) (2 ^ w)) as [Hlt|Hge]; try reflexivity.
    + apply Hiff in Hlt. lia.
    + apply N.mod_small. exact Hlt.
    + exfalso. assert (Hc : (N.size (x * 2 ^ N.of_nat k) <= w)%N) by lia. apply Hiff in Hc. lia.
Qed.

Lemma pow_w_ge4 : (4 <= 2 ^ w)%N.
Proof. change 4%N with (2 ^ 2)%N. apply N.pow_le_mono_r; [discriminate | exact Hw]. Qed.

Lemma max_ge3 : (3 <= MAX)%N.
Proof. unfold MAX, sat_max. pose proof pow_w_ge4. lia. Qed.

(** ** BDD *)

Section SatBddSat.
Variable s : snap.
Hypothesis H : WF s.
Hypothesis Hkind : s_kind s = KBdd.
Variable vars : nat.
Hypothesis Hvars : nlevels s <= vars.

Let n := nlevels s.
Let K : N := (2 ^ N.of_nat (vars - n))%N.
Let T (r : ref) : N := count_levels n (fun_bdd s r).

Lemma T_term : forall t v, term_val s t = Some v ->
  T (RT t) = if N.eqb v 1 then (2 ^ N.of_nat n)%N else 0%N.
Proof.
  intros t v Ev. unfold T, count_levels.
  rewrite (cnt_ext n 0 (fun_bdd s (RT t)) (fun _ => N.eqb v 1)).
  2:{ intros a. unfold fun_bdd. rewrite semk_T, Ev. reflexivity. }
  apply cnt_const.
Qed.

(** only the true terminal is satisfied by every assignment (a node with two
    such children would be redundant) *)
Lemma full_is_true : forall k r, ref_ok s r -> n - rlevel s r <= k ->
  T r = (2 ^ N.of_nat n)%N -> exists t, r = RT t /\ term_val s t = Some 1%N.
Proof.
  induction k as [k IH] using lt_wf_ind. intros r Hok Hk HT.
  destruct r as [t|id].
  - destruct Hok as [v Ev]. rewrite (T_term t v Ev) in HT. exists t. split; [reflexivity|].
    destruct (N.eqb_spec v 1) as [->|_]; [exact Ev|].
    pose proof (pow2_pos (N.of_nat n)). lia.
  - exfalso. destruct Hok as [nd E]. rewrite (rlevel_node s id nd E) in Hk.
    pose proof (wf_level s H id nd E) as Hlv. fold n in Hlv.
    destruct (two_children s id nd H (bdd_binary s Hkind) E) as [e0 [e1 Hc]].
    destruct (node_children_ok s H id nd e0 e1 E Hc) as [[O0 L0] [O1 L1]].
    pose proof (total_node s H vars Hvars id nd e0 e1 E Hc) as Ht. fold n in Ht. fold (T (eref e0)) in Ht.
    fold (T (eref e1)) in Ht. fold (T (RN id)) in Ht.
    assert (B0 : (T (eref e0) <= 2 ^ N.of_nat n)%N) by apply cnt_le.
    assert (B1 : (T (eref e1) <= 2 ^ N.of_nat n)%N) by apply cnt_le.
    destruct (IH (n - rlevel s (eref e0)) ltac:(lia) (eref e0) O0 (le_n _) ltac:(lia)) as [t0 [R0 V0]].
    destruct (IH (n - rlevel s (eref e1)) ltac:(lia) (eref e1) O1 (le_n _) ltac:(lia)) as [t1 [R1 V1]].
    assert (t0 = t1) by (apply (term_val_inj s t0 t1 1%N H V0 V1)). subst t1.
    assert (Hnb : s_kind s <> KBcdd) by (rewrite Hkind; discriminate).
    assert (I0 : In e0 (nchildren nd)) by (rewrite Hc; simpl; auto).
    assert (I1 : In e1 (nchildren nd)) by (rewrite Hc; simpl; auto).
    assert (e0 = e1).
    { apply edge_ext; [congruence|].
      rewrite (wf_tags s H Hnb id nd e0 E I0), (wf_tags s H Hnb id nd e1 E I1). reflexivity. }
    pose proof (wf_reduced s H id nd E) as Hr. unfold reduced in Hr. rewrite Hkind in Hr.
    apply Hr. rewrite Hc. subst e1. intros x y [<-|[<-|[]]] [<-|[<-|[]]]; reflexivity.
Qed.

Lemma node_not_full : forall id nd, find_node s id = Some nd -> (T (RN id) + 1 <= 2 ^ N.of_nat n)%N.
Proof.
  intros id nd E.
  assert (B : (T (RN id) <= 2 ^ N.of_nat n)%N) by apply cnt_le.
  destruct (N.eq_dec (T (RN id)) (2 ^ N.of_nat n)) as [Heq|Hne]; [|lia].
  destruct (full_is_true _ (RN id) ltac:(exists nd; exact E) (le_n _) Heq) as [t [R _]]. discriminate.
Qed.

Definition run_sat (f : nat) (r : ref) : option N := sat_bdd_sat w s f vars r.

Lemma run_sat_T : forall f t, run_sat f (RT t) =
  match term_val s t with
  | Some v => Some (if N.eqb v 1 then n_shl (sat_ops w) 1%N vars else 0%N)
  | None => None
  end.
Proof. intros. unfold run_sat, sat_bdd_sat. rewrite walk_T. reflexivity. Qed.

Lemma run_sat_node : forall f id nd e0 e1,
  find_node s id = Some nd -> nchildren nd = [e0; e1] ->
  run_sat (S f) (RN id) =
  match run_sat f (eref e0), run_sat f (eref e1) with
  | Some a, Some b => Some (n_shr (sat_ops w) (n_add (sat_ops w) a b) 1)
  | _, _ => None
  end.
Proof.
  intros f id nd e0 e1 E Hc. unfold run_sat, sat_bdd_sat.
  rewrite (walk_node _ s f id false nd e0 e1 E Hc). reflexivity.
Qed.

Lemma K_vars_s : (K * 2 ^ N.of_nat n = 2 ^ N.of_nat vars)%N.
Proof. unfold K. rewrite <- pow2_add. f_equal. f_equal. lia. Qed.

Lemma K_pos : (1 <= K)%N.
Proof. unfold K. pose proof (pow2_pos (N.of_nat (vars - n))). lia. Qed.

(** [1 << vars] in the saturating type *)
Lemma shl_one : n_shl (sat_ops w) 1%N vars = saturate w vars (2 ^ N.of_nat vars)%N.
Proof.
  pose proof pow_w_ge4 as H4. rewrite sat_shl_spec by lia. unfold sat_fit, saturate. rewrite N.mul_1_l.
  destruct (N.ltb_spec (N.of_nat vars) w) as [Hlt|Hge].
  - assert (2 ^ N.of_nat vars < 2 ^ w)%N by (apply N.pow_lt_mono_r; [reflexivity | exact Hlt]).
    destruct (N.ltb_spec (2 ^ N.of_nat vars) (2 ^ w)); [reflexivity | lia].
  - assert (2 ^ w <= 2 ^ N.of_nat vars)%N by (apply N.pow_le_mono_r; [discriminate | exact Hge]).
    pose proof (pow2_pos (N.of_nat vars)).
    destruct (N.ltb_spec (2 ^ N.of_nat vars) (2 ^ w)); [lia|].
    destruct (N.eqb_spec (2 ^ N.of_nat vars) 0); [lia | reflexivity].
Qed.

(** one step of the recursion: the saturating combination of the (saturated)
    children values is the saturated exact value *)
Lemma comb_saturate : forall X a b, (a + b = X * 2)%N -> (X + 1 <= 2 ^ N.of_nat vars)%N ->
  n_shr (sat_ops w) (n_add (sat_ops w) (saturate w vars a) (saturate w vars b)) 1 =
  saturate w vars ((a + b) / 2)%N.
Proof.
  intros X a b Hab HX. rewrite Hab, N.div_mul by discriminate.
  pose proof max_ge3 as Hm. pose proof pow_w_ge4 as H4.
  simpl n_shr. simpl n_add. fold MAX. unfold saturate. fold MAX.
  destruct (N.ltb_spec (N.of_nat vars) w) as [Hlt|Hge].
  - assert (Hp : (2 * 2 ^ N.of_nat vars <= 2 ^ w)%N).
    { rewrite <- N.pow_succ_r'. apply N.pow_le_mono_r; [discriminate | lia]. }
    assert (Hmx : (MAX = 2 ^ w - 1)%N) by reflexivity.
    rewrite N.min_l by lia.
    destruct (N.eqb_spec (a + b) MAX) as [Heq|_]; [lia|].
    change (2 ^ N.of_nat 1)%N with 2%N. rewrite Hab. apply N.div_mul. discriminate.
  - destruct (N.eqb_spec a 0) as [->|Ha]; destruct (N.eqb_spec b 0) as [->|Hb].
    + assert (X = 0%N) by lia. subst X. rewrite N.min_l by lia.
      destruct (N.eqb_spec (0 + 0) MAX) as [Heq|_]; [lia|]. reflexivity.
    + rewrite N.min_r by lia. rewrite N.eqb_refl.
      destruct (N.eqb_spec X 0); [lia | reflexivity].
    + rewrite N.min_r by lia. rewrite N.eqb_refl.
      destruct (N.eqb_spec X 0); [lia | reflexivity].
    + rewrite N.min_r by lia. rewrite N.eqb_refl.
      destruct (N.eqb_spec X 0); [lia | reflexivity].
Qed.

Lemma run_sat_main : forall f r, ref_ok s r -> n - rlevel s r < f ->
  run_sat f r = Some (saturate w vars (K * T r)).
Proof.
  induction f as [|f IH]; intros r Hok Hf; [lia|].
  destruct r as [t|id].
  - rewrite run_sat_T. destruct Hok as [v Ev]. rewrite Ev, (T_term t v Ev), shl_one. f_equal.
    destruct (N.eqb v 1).
    + rewrite K_vars_s. reflexivity.
    + rewrite N.mul_0_r. unfold saturate. destruct (N.of_nat vars <? w)%N; reflexivity.
  - destruct Hok as [nd E]. rewrite (rlevel_node s id nd E) in Hf.
    destruct (two_children s id nd H (bdd_binary s Hkind) E) as [e0 [e1 Hc]].
    destruct (node_children_ok s H id nd e0 e1 E Hc) as [[O0 L0] [O1 L1]].
    pose proof (rlevel_le s H (eref e0)) as B0. pose proof (rlevel_le s H (eref e1)) as B1.
    fold n in B0, B1.
    rewrite (run_sat_node f id nd e0 e1 E Hc).
    rewrite (IH (eref e0) O0), (IH (eref e1) O1) by lia. f_equal.
    pose proof (total_node s H vars Hvars id nd e0 e1 E Hc) as Ht. fold n in Ht. fold (T (eref e0)) in Ht.
    fold (T (eref e1)) in Ht. fold (T (RN id)) in Ht.
    pose proof (node_not_full id nd E) as Hnf. pose proof K_vars_s as HK. pose proof K_pos as HK1.
    assert (Hab : (K * T (eref e0) + K * T (eref e1) = K * T (RN id) * 2)%N).
    { rewrite <- N.mul_add_distr_l, Ht. lia. }
    rewrite (comb_saturate (K * T (RN id))%N _ _ Hab).
    + rewrite Hab, N.div_mul by discriminate. reflexivity.
    + rewrite <- HK. nia.
Qed.

End SatBddSat.

(** The BDD recursion run in [Saturating<uW>] returns the exact count as long
    as [2^vars] is representable ([vars < W]); otherwise it returns the
    out-of-range marker, except for the unsatisfiable function, whose count 0
    is exact in every type. *)
Theorem sat_bdd_saturating : forall s vars r, WF s -> s_kind s = KBdd -> nlevels s <= vars ->
  ref_ok s r ->
  sat_bdd_sat w s (S (nlevels s)) vars r =
  option_map (saturate w vars) (sat_bdd s (S (nlevels s)) vars r).
Proof.
  intros s vars r H Hk Hv Hok.
  rewrite (sat_bdd_correct s vars r H Hk Hv Hok). simpl option_map.
  exact (run_sat_main s H Hk vars Hv (S (nlevels s)) r Hok ltac:(lia)).
Qed.

Corollary sat_bdd_saturating_exact : forall s vars r, WF s -> s_kind s = KBdd ->
  nlevels s <= vars -> (N.of_nat vars < w)%N -> ref_ok s r ->
  sat_bdd_sat w s (S (nlevels s)) vars r =
  Some (2 ^ N.of_nat (vars - nlevels s) * count_levels (nlevels s) (fun_bdd s r))%N.
Proof.
  intros s vars r H Hk Hv Hlt Hok. rewrite (sat_bdd_saturating s vars r H Hk Hv Hok).
  rewrite (sat_bdd_correct s vars r H Hk Hv Hok). simpl. unfold saturate.
  destruct (N.ltb_spec (N.of_nat vars) w); [reflexivity | lia].
Qed.

(** ** ZBDD *)

Section SatZbddSat.
Variable s : snap.
Hypothesis H : WF s.
Hypothesis Hkind : s_kind s = KZbdd.
Hypothesis Hn : (N.of_nat (nlevels s) < w)%N.

Let n := nlevels s.

Definition runz (f : nat) (r : ref) : option N := walk (zbdd_scheme (sat_ops w)) s f r false.

Lemma runz_main : forall f r, ref_ok s r -> n - rlevel s r < f ->
  runz f r = paths_zbdd s f r.
Proof.
  induction f as [|f IH]; intros r Hok Hf; [lia|].
  destruct r as [t|id].
  - unfold runz, paths_zbdd. rewrite !walk_T. reflexivity.
  - destruct Hok as [nd E]. pose proof Hf as Hf'. rewrite (rlevel_node s id nd E) in Hf.
    destruct (two_children s id nd H (zbdd_binary s Hkind) E) as [e0 [e1 Hc]].
    assert (I0 : In e0 (nchildren nd)) by (rewrite Hc; simpl; auto).
    assert (I1 : In e1 (nchildren nd)) by (rewrite Hc; simpl; auto).
    destruct (wf_child s H id nd e0 E I0) as [O0 L0].
    destruct (wf_child s H id nd e1 E I1) as [O1 L1].
    pose proof (rlevel_le s H (eref e0)) as B0. pose proof (rlevel_le s H (eref e1)) as B1.
    fold n in B0, B1.
    pose proof (paths_main s H Hkind (S f) (RN id) ltac:(exists nd; exact E) Hf') as Hp.
    rewrite (paths_node s f id nd e0 e1 E Hc) in Hp.
    rewrite (paths_node s f id nd e0 e1 E Hc).
    unfold runz. rewrite (walk_node _ s f id false nd e0 e1 E Hc). simpl sc_tag.
    fold (runz f (eref e0)). fold (runz f (eref e1)).
    rewrite (IH (eref e0) O0), (IH (eref e1) O1) by lia.
    destruct (paths_zbdd s f (eref e0)) as [a|]; [|reflexivity].
    destruct (paths_zbdd s f (eref e1)) as [b|]; [|reflexivity].
    assert (Hab : (a + b)%N = Zc s (rlevel s (RN id)) (RN id)) by congruence. simpl sc_comb. simpl n_add. f_equal. apply N.min_l.
    rewrite Hab. unfold Zc.
    pose proof (cnt_le (nlevels s - rlevel s (RN id)) (rlevel s (RN id)) (Fz s (rlevel s (RN id)) (RN id))) as Hle.
    assert (Hp2 : (2 ^ N.of_nat (nlevels s - rlevel s (RN id)) <= 2 ^ N.of_nat (nlevels s))%N)
      by (apply N.pow_le_mono_r; [discriminate | lia]).
    assert (Hp3 : (2 * 2 ^ N.of_nat (nlevels s) <= 2 ^ w)%N).
    { rewrite <- N.pow_succ_r'. apply N.pow_le_mono_r; [discriminate | lia]. }
    pose proof pow_w_ge4. unfold sat_max. lia.
Qed.

End SatZbddSat.

(** ZBDD counts in [Saturating<uW>] (diagrams with fewer than [W] levels): the
    exact count if it is representable, the out-of-range marker otherwise *)
Theorem sat_zbdd_saturating : forall s vars r, WF s -> s_kind s = KZbdd ->
  nlevels s <= vars -> (N.of_nat (nlevels s) < w)%N -> ref_ok s r ->
  sat_zbdd_sat w s (S (nlevels s)) vars r =
  Some (sat_fit (2 ^ N.of_nat (vars - nlevels s) * count_levels (nlevels s) (fun_zbdd s r)))%N.
Proof.
  intros s vars r H Hk Hv Hlt Hok. unfold sat_zbdd_sat. fold (runz s (S (nlevels s)) r).
  rewrite (runz_main s H Hk Hlt (S (nlevels s)) r Hok) by lia.
  rewrite (paths_zbdd_correct s r H Hk Hok). simpl option_map. f_equal.
  unfold zbdd_shift. destruct (Nat.leb_spec (nlevels s) vars) as [_|X]; [|lia].
  pose proof (cnt_le (nlevels s) 0 (fun_zbdd s r)) as Hle. fold (count_levels (nlevels s) (fun_zbdd s r)) in Hle.
  assert (Hq : (2 ^ N.of_nat (nlevels s) < 2 ^ w)%N) by (apply N.pow_lt_mono_r; [reflexivity | exact Hlt]).
  rewrite sat_shl_spec by lia. f_equal. apply N.mul_comm.
Qed.

(** ... in particular exact while [2^vars] is representable *)
Theorem sat_zbdd_saturating_exact : forall s vars r, WF s -> s_kind s = KZbdd ->
  nlevels s <= vars -> (N.of_nat vars < w)%N -> ref_ok s r ->
  sat_zbdd_sat w s (S (nlevels s)) vars r =
  Some (2 ^ N.of_nat (vars - nlevels s) * count_levels (nlevels s) (fun_zbdd s r))%N.
Proof.
  intros s vars r H Hk Hv Hlt Hok. rewrite (sat_zbdd_saturating s vars r H Hk Hv ltac:(lia) Hok).
  f_equal. unfold sat_fit.
  pose proof (cnt_le (nlevels s) 0 (fun_zbdd s r)) as Hle. fold (count_levels (nlevels s) (fun_zbdd s r)) in Hle.
  assert (Hp : (2 ^ N.of_nat (vars - nlevels s) * 2 ^ N.of_nat (nlevels s) = 2 ^ N.of_nat vars)%N).
  { rewrite <- pow2_add. f_equal. f_equal. lia. }
  assert (Hq : (2 ^ N.of_nat vars < 2 ^ w)%N) by (apply N.pow_lt_mono_r; [reflexivity | exact Hlt]).
  pose proof (pow2_pos (N.of_nat (vars - nlevels s))).
  destruct (N.ltb_spec (2 ^ N.of_nat (vars - nlevels s) * count_levels (nlevels s) (fun_zbdd s r)) (2 ^ w));
    [reflexivity | nia].
Qed.

End Saturating.

(** The ZBDD version shifts the path count ([count << (vars - levels)]): the
    tautology over 3 levels (8 models) with [vars = 64] has 2^64 models, which
    [Saturating<u64>] reports as the marker; a single path with [vars = 64]
    (2^61 models) is still exact. *)
Definition ex_zbdd_taut : snap :=
  mkSnap KZbdd
    (PositiveMap.add 3%positive (mkNode 0 [xe (RN 2); xe (RN 2)] 0 1)
    (PositiveMap.add 2%positive (mkNode 1 [xe (RN 1); xe (RN 1)] 1 2)
    (PositiveMap.add 1%positive (mkNode 2 [xe (RT 1); xe (RT 1)] 2 2)
       (PositiveMap.empty node))))
    [(0%N, 0%N); (1%N, 1%N)]
    [0; 1; 2] [0; 1; 2]
    [(0%N, xe (RN 3))].

Example ex_zbdd_shl_saturates :
  wf_full_b ex_zbdd_taut = true /\
  sat_zbdd ex_zbdd_taut 4 64 (RN 3) = Some (2 ^ 64)%N /\
  sat_zbdd_sat 64 ex_zbdd_taut 4 64 (RN 3) = Some (sat_max 64) /\
  sat_zbdd_sat 64 ex_zbdd_taut 4 60 (RN 3) = Some (2 ^ 60)%N /\
  sat_u64 64 (2 ^ 64) = sat_max 64.
Proof. vm_compute. repeat split; reflexivity. Qed.

Example ex_sat_bdd_u64 :
  sat_bdd_sat 64 ex_sat_bdd 4 63 (RN 4) = Some (5 * 2 ^ 60)%N /\
  sat_bdd_sat 64 ex_sat_bdd 4 64 (RN 4) = Some (sat_max 64) /\
  sat_bdd_sat 64 ex_sat_bdd 4 64 (RT 0) = Some 0%N.
Proof. vm_compute. repeat split; reflexivity. Qed.
