(** * [sat_count::<F64>]: theorems (models: DD/SatCount.v, DD/SatCountF64.v, Num/F64Count.v)

    Part 1: [walk_sim], a simulation between two runs of the counting
    recursion over different number types.
    Part 2: the halving recursion of BDDs / BCDDs in [f64] ([Rel]: the float
    holds the exact value scaled by [2^-1021] resp. [2^0], or the run has
    overflowed, which needs [vars >= 2044]).
    Part 3: for diagrams with at most 53 levels [sat_count::<F64>(vars)]
    returns the correctly rounded exact count [f64_of_N (exact_count ...)] for
    EVERY [vars >= levels]: exactly the count while it is below [2^1024]
    ([sat_ref_f64_exact], e.g. all [vars <= 1023]), [+inf] from there on
    ([sat_ref_f64_overflow]); with the scale-down by [MIN_EXP] for
    [vars >= 1021]; BDD, BCDD, ZBDD; and for whole histories on a reused cache
    ([run_queries_f64], from the number-type independent
    [run_queries_correct]).
    Part 4: without the bound on the levels the run is the evaluation of the
    same expression tree over the reals with Flocq's rounding [rnd64] after
    every operation ([walk_f64_bdd_rounded], [walk_f64_bcdd_rounded]).

    Depends on Flocq's classical axioms (see Num/F64CountProofs.v). *)
From Coq Require Import List NArith ZArith PArith Bool Arith Lia Reals Lra FMapPositive.
From Flocq Require Import Core.Core IEEE754.Binary IEEE754.Bits.
From OxiVerif Require Import DD.Table DD.TableExtra DD.TableProofs DD.SatCount DD.SatCountProofs DD.SatQueryProofs.
From OxiVerif Require Import Num.F64Count Num.F64CountProofs DD.SatCountF64.
Import ListNotations.

Arguments N.add : simpl never.
Arguments N.sub : simpl never.
Arguments N.mul : simpl never.
Arguments N.div : simpl never.
Arguments N.modulo : simpl never.
Arguments N.pow : simpl never.

(** * Part 1: a simulation between two runs of the recursion *)

Section Sim.
Context {A B : Type}.
Variables (sa : scheme A) (sb : scheme B) (R : A -> B -> Prop) (s : snap).
Hypothesis Htag : forall t c, sc_tag sb t c = sc_tag sa t c.
Hypothesis Hterm : forall t tag a, sc_term sa s t tag = Some a ->
  exists b, sc_term sb s t tag = Some b /\ R a b.
Hypothesis Hcomb : forall f id nd e0 e1 tag a0 a1 b0 b1,
  find_node s id = Some nd -> nchildren nd = [e0; e1] ->
  walk sa s f (eref e0) (sc_tag sa tag (etag e0)) = Some a0 ->
  walk sa s f (eref e1) (sc_tag sa tag (etag e1)) = Some a1 ->
  R a0 b0 -> R a1 b1 -> R (sc_comb sa a0 a1) (sc_comb sb b0 b1).

Lemma walk_sim : forall f r tag a, walk sa s f r tag = Some a ->
  exists b, walk sb s f r tag = Some b /\ R a b.
Proof.
  induction f as [|f IH]; intros r tag a Hw.
  - destruct r as [t|id]; [|simpl in Hw; discriminate]. rewrite walk_T in *. apply Hterm. exact Hw.
  - destruct r as [t|id]; [rewrite walk_T in *; apply Hterm; exact Hw|].
    rewrite walk_S in Hw. rewrite walk_S. revert Hw.
    destruct (find_node s id) as [nd|] eqn:E; [|discriminate].
    destruct (nchildren nd) as [|e0 [|e1 [|e2 l]]] eqn:Hc; try discriminate.
    destruct (walk sa s f (eref e0) _) as [a0|] eqn:E0; [|discriminate].
    destruct (walk sa s f (eref e1) _) as [a1|] eqn:E1; [|discriminate].
    intros Hw. inversion Hw; subst a.
    destruct (IH _ _ _ E0) as [b0 [W0 R0]]. destruct (IH _ _ _ E1) as [b1 [W1 R1]].
    rewrite !Htag, W0, W1. eexists. split; [reflexivity|].
    apply (Hcomb f id nd e0 e1 tag a0 a1 b0 b1 E Hc E0 E1 R0 R1).
Qed.

End Sim.

(** * Part 2: the halving recursion (BDD, BCDD) in [f64] *)

Local Open Scope Z_scope.

Lemma fops_zero : n_zero f64_ops = f64c_pos_zero.
Proof. vm_compute. reflexivity. Qed.

Lemma fops_one_rep : frep (n_one f64_ops) 1 0.
Proof. apply (of_N_small 1). change (2 ^ 53)%N with 9007199254740992%N. lia. Qed.

Lemma pow53 : forall n : nat, (n <= 53)%nat -> (2 ^ N.of_nat n <= 2 ^ 53)%N.
Proof. intros n H. apply N.pow_le_mono_r; lia. Qed.

Section Halving.
Variables vars n : nat.
Hypothesis Hn : (n <= vars)%nat.
Hypothesis Hn53 : (n <= 53)%nat.

Let sc : bool := Nat.leb 1021 vars.
Let sh : Z := if sc then 1021 else 0.
Let J : N := N.of_nat (vars - n).

(** [x] holds the exact value [v] of the recursion, scaled by [2^-sh]; or the
    run has overflowed, which only happens for [vars >= 2044], where every
    non-zero count is beyond the range of [f64] *)
Definition Rel (v : N) (x : binary64) : Prop :=
  frep x v (- sh) \/ (x = f64c_pos_inf /\ v <> 0%N /\ (2044 <= vars)%nat).

Lemma sh_cases : (sc = true /\ sh = 1021 /\ (1021 <= vars)%nat) \/ (sc = false /\ sh = 0 /\ (vars < 1021)%nat).
Proof.
  unfold sh, sc. destruct (Nat.leb_spec 1021 vars); [left | right]; repeat split; lia.
Qed.

Lemma Rel_fin_or_inf : forall v x, Rel v x -> is_finite 53 1024 x = true \/ x = f64c_pos_inf.
Proof. intros v x [(F & _)|(E & _)]; [left | right]; assumption. Qed.

Lemma rel_zero : Rel 0 (n_zero f64_ops).
Proof. left. rewrite fops_zero. apply frep_pos_zero. Qed.

Lemma rel_terminal : Rel (2 ^ N.of_nat vars) (terminal_val f64_ops sc vars).
Proof.
  unfold terminal_val. change (n_scale f64_ops) with 1021%nat.
  change (n_shl f64_ops (n_one f64_ops) (if sc then (vars - 1021)%nat else vars))
    with (f64c_shl (n_one f64_ops) (N.of_nat (if sc then (vars - 1021)%nat else vars))).
  set (k := N.of_nat (if sc then (vars - 1021)%nat else vars)).
  assert (Hk : Z.of_N k = Z.of_nat vars - sh).
  { unfold k. destruct sh_cases as [(-> & -> & H)|(-> & -> & H)]; lia. }
  rewrite (shl_of_N _ 1 0 k k fops_one_rep); [|change (2 ^ 53)%N with 9007199254740992%N; lia | lia | lia | lia].
  destruct (N.lt_ge_cases (1 * 2 ^ k) (2 ^ 1024)) as [Hlt|Hge].
  - left. apply (frep_ext _ 1 (Z.of_N k)).
    + apply of_N_rep; [change (2 ^ 53)%N with 9007199254740992%N; lia | exact Hlt].
    + rewrite <- (N.mul_1_l (2 ^ N.of_nat vars)), dy_shift. f_equal; lia.
  - right. rewrite of_N_ovf by (try exact Hge; change (2 ^ 53)%N with 9007199254740992%N; lia).
    split; [reflexivity|]. split; [apply N.pow_nonzero; discriminate|].
    assert (1024 <= k)%N.
    { destruct (N.le_gt_cases 1024 k) as [|Hc]; [assumption|]. exfalso.
      assert (2 ^ k < 2 ^ 1024)%N by (apply N.pow_lt_mono_r; lia). lia. }
    destruct sh_cases as [(_ & E & H1)|(_ & E & H1)]; rewrite E in Hk; lia.
Qed.

Lemma rel_halve : forall a0 a1 c x0 x1, Rel a0 x0 -> Rel a1 x1 ->
  (a0 + a1 = 2 * (c * 2 ^ J))%N -> (c <= 2 ^ N.of_nat n)%N ->
  Rel ((a0 + a1) / 2) (f64c_shr (f64c_add x0 x1) 1).
Proof.
  intros a0 a1 c x0 x1 R0 R1 Hs Hc.
  assert (Hdiv : ((a0 + a1) / 2 = c * 2 ^ J)%N).
  { rewrite Hs, N.mul_comm. apply N.div_mul. discriminate. }
  assert (Hc53 : (c <= 2 ^ 53)%N) by (pose proof (pow53 n Hn53); lia).
  assert (Hsh : 0 <= sh <= 1021) by (destruct sh_cases as [(_ & -> & _)|(_ & -> & _)]; lia).
  destruct R0 as [F0|(E0 & N0 & V0)].
  - destruct R1 as [F1|(E1 & N1 & V1)].
    + assert (E : dy (a0 + a1) (- sh) = dy c (Z.of_N J + 1 - sh)).
      { rewrite Hs. replace (2 * (c * 2 ^ J))%N with (c * 2 ^ (J + 1))%N.
        - rewrite dy_shift. f_equal; lia.
        - rewrite N.pow_add_r. change (2 ^ 1)%N with 2%N. lia. }
      destruct (frep_add_as x0 x1 a0 a1 (- sh) c (Z.of_N J + 1 - sh) F0 F1 E Hc53 ltac:(lia)) as [Hfin Hovf].
      destruct (Rlt_le_dec (dy c (Z.of_N J + 1 - sh)) (bpow radix2 1024)) as [Hlt|Hge].
      * left. specialize (Hfin Hlt).
        pose proof (frep_shr _ c _ 1 Hfin Hc53 ltac:(lia) ltac:(lia)) as Hr.
        apply (frep_ext _ _ _ _ _ Hr). rewrite Hdiv, dy_shift. f_equal; lia.
      * right. rewrite (Hovf Hge), shr_inf by lia. split; [reflexivity|].
        assert (Hcnz : c <> 0%N).
        { intros ->. rewrite dy_0 in Hge. pose proof (bpow_gt_0 radix2 1024). lra. }
        split.
        -- rewrite Hdiv. pose proof (N.pow_nonzero 2 J ltac:(discriminate)). nia.
        -- pose proof (dy_ge_exp c (N.of_nat n) _ 1024 Hc Hge) as Hb.
           unfold J in Hb. destruct sh_cases as [(_ & E1 & H1)|(_ & E1 & H1)]; rewrite E1 in Hb; lia.
    + right. subst x1. rewrite add_inf_r by (left; apply F0). rewrite shr_inf by lia.
      split; [reflexivity|]. split; [|exact V1]. rewrite Hdiv.
      intros Hz. rewrite Hz in Hs. lia.
  - right. subst x0. rewrite add_inf_l by (apply (Rel_fin_or_inf a1); exact R1). rewrite shr_inf by lia.
    split; [reflexivity|]. split; [|exact V0]. rewrite Hdiv.
    intros Hz. rewrite Hz in Hs. lia.
Qed.

Lemma rel_finish : forall v c x, Rel v x -> v = (c * 2 ^ J)%N -> (c <= 2 ^ N.of_nat n)%N ->
  rescale f64_ops sc x = f64_of_N v.
Proof.
  intros v c x Rv -> Hc.
  assert (Hc53 : (c <= 2 ^ 53)%N) by (pose proof (pow53 n Hn53); lia).
  unfold rescale. change (n_scale f64_ops) with 1021%nat.
  change (n_shl f64_ops x 1021%nat) with (f64c_shl x (N.of_nat 1021)).
  destruct Rv as [Fx|(E & Nz & V)].
  - assert (Fc : frep x c (Z.of_N J - sh)).
    { apply (frep_ext _ _ _ _ _ Fx). rewrite dy_shift. f_equal; lia. }
    destruct sh_cases as [(E1 & E2 & H1)|(E1 & E2 & H1)]; rewrite E1; rewrite E2 in Fc.
    + apply (shl_of_N x c (Z.of_N J - 1021) (N.of_nat 1021) J Fc Hc53); lia.
    + replace (Z.of_N J - 0) with (Z.of_N J) in Fc by lia. apply rep_of_N; assumption.
  - subst x. assert (Esc : sc = true) by (unfold sc; apply Nat.leb_le; lia). rewrite Esc, shl_inf.
    symmetry. apply of_N_ovf; [exact Hc53|].
    assert (c <> 0%N) by (intros ->; apply Nz; lia).
    assert (2 ^ 1024 <= 2 ^ J)%N by (apply N.pow_le_mono_r; unfold J; lia). nia.
Qed.

End Halving.

(** * Part 3: [sat_count::<F64>] returns the correctly rounded exact count *)

Local Close Scope Z_scope.

Lemma scaled_bdd_f64 : forall vars, scaled_bdd f64_ops vars = Nat.leb 1021 vars.
Proof. intros. reflexivity. Qed.

Lemma scaled_bcdd_f64 : forall vars, scaled_bcdd f64_ops vars = Nat.leb 1021 vars.
Proof. intros. reflexivity. Qed.

Lemma exact_halve : forall a b : N, n_shr exact_ops (n_add exact_ops a b) 1 = ((a + b) / 2)%N.
Proof. intros. reflexivity. Qed.

Lemma f64_halve : forall x y, n_shr f64_ops (n_add f64_ops x y) 1 = f64c_shr (f64c_add x y) 1.
Proof. intros. reflexivity. Qed.

(** ** BDD *)

Theorem sat_ref_f64_bdd : forall s vars e, WF s -> s_kind s = KBdd -> nlevels s <= vars ->
  nlevels s <= 53 -> ref_ok s (eref e) ->
  sat_ref f64_ops s vars e = Some (f64_of_N (exact_count s vars e)).
Proof.
  intros s vars e H Hk Hv H53 Hok. rewrite sat_ref_unfold. unfold finish, scheme_of, start_tag, exact_count.
  rewrite Hk, scaled_bdd_f64. set (n := nlevels s) in *.
  pose proof (sat_bdd_correct s vars (eref e) H Hk Hv Hok) as Hex. fold n in Hex. unfold sat_bdd in Hex.
  destruct (walk_sim (bdd_scheme exact_ops (2 ^ N.of_nat vars)%N)
              (bdd_scheme f64_ops (terminal_val f64_ops (Nat.leb 1021 vars) vars))
              (Rel vars) s) with (f := S n) (r := eref e) (tag := false)
              (a := (2 ^ N.of_nat (vars - n) * count_levels n (fun_bdd s (eref e)))%N)
    as [x [Wx Rx]]; [reflexivity | | | exact Hex |].
  - (* terminals *)
    intros t tag a. simpl. destruct (term_val s t) as [v|]; [|discriminate]. intros E. inversion E; subst a.
    eexists. split; [reflexivity|]. destruct (N.eqb v 1); [apply (rel_terminal vars n Hv H53) | apply rel_zero].
  - (* nodes *)
    intros f id nd e0 e1 tag a0 a1 b0 b1 E Hc W0 W1 R0 R1.
    change (sc_comb (bdd_scheme exact_ops (2 ^ N.of_nat vars)%N) a0 a1) with (n_shr exact_ops (n_add exact_ops a0 a1) 1).
    change (sc_comb (bdd_scheme f64_ops (terminal_val f64_ops (Nat.leb 1021 vars) vars)) b0 b1)
      with (n_shr f64_ops (n_add f64_ops b0 b1) 1).
    rewrite exact_halve, f64_halve.
    assert (I0 : In e0 (nchildren nd)) by (rewrite Hc; simpl; auto).
    assert (I1 : In e1 (nchildren nd)) by (rewrite Hc; simpl; auto).
    destruct (wf_child s H id nd e0 E I0) as [O0 _]. destruct (wf_child s H id nd e1 E I1) as [O1 _].
    simpl sc_tag in W0, W1.
    pose proof (walk_std _ s H _ _ _ _ O0 W0) as S0. pose proof (walk_std _ s H _ _ _ _ O1 W1) as S1.
    destruct (sat_bdd_halving_exact s vars id nd e0 e1 a0 a1 H Hk Hv E Hc S0 S1) as [_ [Hn Hd]].
    rewrite (sat_bdd_correct s vars (RN id) H Hk Hv (ex_intro _ nd E)) in Hn. injection Hn as Hq.
    apply (rel_halve vars n Hv H53 a0 a1 (count_levels n (fun_bdd s (RN id)))); try assumption.
    + fold n in Hq. rewrite <- Hd, <- Hq. lia.
    + apply cnt_le.
  - rewrite Wx. simpl option_map. f_equal.
    apply (rel_finish vars n Hv H53 _ (count_levels n (fun_bdd s (eref e)))); [exact Rx | lia | apply cnt_le].
Qed.

(** ** BCDD *)

Theorem sat_ref_f64_bcdd : forall s vars e, WF s -> s_kind s = KBcdd -> nlevels s <= vars ->
  nlevels s <= 53 -> ref_ok s (eref e) ->
  sat_ref f64_ops s vars e = Some (f64_of_N (exact_count s vars e)).
Proof.
  intros s vars e H Hk Hv H53 Hok. rewrite sat_ref_unfold. unfold finish, scheme_of, start_tag, exact_count.
  rewrite Hk, scaled_bcdd_f64. set (n := nlevels s) in *.
  pose proof (sat_bcdd_correct s vars e H Hk Hv Hok) as Hex. fold n in Hex. unfold sat_bcdd in Hex.
  destruct (walk_sim (bcdd_scheme exact_ops (2 ^ N.of_nat vars)%N)
              (bcdd_scheme f64_ops (terminal_val f64_ops (Nat.leb 1021 vars) vars))
              (Rel vars) s) with (f := S n) (r := eref e) (tag := etag e)
              (a := (2 ^ N.of_nat (vars - n) * count_levels n (fun_bcdd s e))%N)
    as [x [Wx Rx]]; [reflexivity | | | exact Hex |].
  - (* terminals *)
    intros t tag a. simpl. intros E. inversion E; subst a.
    eexists. split; [reflexivity|]. destruct tag; [apply rel_zero | apply (rel_terminal vars n Hv H53)].
  - (* nodes *)
    intros f id nd e0 e1 tag a0 a1 b0 b1 E Hc W0 W1 R0 R1.
    change (sc_comb (bcdd_scheme exact_ops (2 ^ N.of_nat vars)%N) a0 a1) with (n_shr exact_ops (n_add exact_ops a0 a1) 1).
    change (sc_comb (bcdd_scheme f64_ops (terminal_val f64_ops (Nat.leb 1021 vars) vars)) b0 b1)
      with (n_shr f64_ops (n_add f64_ops b0 b1) 1).
    rewrite exact_halve, f64_halve.
    assert (I0 : In e0 (nchildren nd)) by (rewrite Hc; simpl; auto).
    assert (I1 : In e1 (nchildren nd)) by (rewrite Hc; simpl; auto).
    destruct (wf_child s H id nd e0 E I0) as [O0 _]. destruct (wf_child s H id nd e1 E I1) as [O1 _].
    simpl sc_tag in W0, W1.
    pose proof (walk_std _ s H _ _ _ _ O0 W0) as S0. pose proof (walk_std _ s H _ _ _ _ O1 W1) as S1.
    destruct (sat_bcdd_halving_exact s vars id tag nd e0 e1 a0 a1 H Hk Hv E Hc S0 S1) as [_ [Hn Hd]].
    rewrite (sat_bcdd_correct s vars (mkEdge (RN id) tag) H Hk Hv (ex_intro _ nd E)) in Hn. injection Hn as Hq.
    apply (rel_halve vars n Hv H53 a0 a1 (count_levels n (fun_bcdd s (mkEdge (RN id) tag)))); try assumption.
    + fold n in Hq. rewrite <- Hd, <- Hq. lia.
    + apply cnt_le.
  - rewrite Wx. simpl option_map. f_equal.
    apply (rel_finish vars n Hv H53 _ (count_levels n (fun_bcdd s e))); [exact Rx | lia | apply cnt_le].
Qed.

(** ** ZBDD: the path count is at most [2^levels], every sum is exact *)

Theorem sat_ref_f64_zbdd : forall s vars e, WF s -> s_kind s = KZbdd -> nlevels s <= vars ->
  nlevels s <= 53 -> ref_ok s (eref e) ->
  sat_ref f64_ops s vars e = Some (f64_of_N (exact_count s vars e)).
Proof.
  intros s vars e H Hk Hv H53 Hok. rewrite sat_ref_unfold. unfold finish, scheme_of, start_tag, exact_count.
  rewrite Hk. set (n := nlevels s) in *.
  pose proof (paths_zbdd_correct s (eref e) H Hk Hok) as Hex. fold n in Hex. unfold paths_zbdd in Hex.
  destruct (walk_sim (zbdd_scheme exact_ops) (zbdd_scheme f64_ops)
              (fun v x => frep x v 0) s) with (f := S n) (r := eref e) (tag := false)
              (a := count_levels n (fun_zbdd s (eref e)))
    as [x [Wx Rx]]; [reflexivity | | | exact Hex |].
  - (* terminals *)
    intros t tag a. simpl. destruct (term_val s t) as [v|]; [|discriminate]. intros E. inversion E; subst a.
    eexists. split; [reflexivity|]. destruct (N.eqb v 1); [exact fops_one_rep | exact (of_N_small 0 ltac:(discriminate))].
  - (* nodes *)
    intros f id nd e0 e1 tag a0 a1 b0 b1 E Hc W0 W1 R0 R1.
    change (sc_comb (zbdd_scheme exact_ops) a0 a1) with (a0 + a1)%N.
    change (sc_comb (zbdd_scheme f64_ops) b0 b1) with (f64c_add b0 b1).
    assert (I0 : In e0 (nchildren nd)) by (rewrite Hc; simpl; auto).
    assert (I1 : In e1 (nchildren nd)) by (rewrite Hc; simpl; auto).
    destruct (wf_child s H id nd e0 E I0) as [O0 _]. destruct (wf_child s H id nd e1 E I1) as [O1 _].
    simpl sc_tag in W0, W1.
    pose proof (walk_std _ s H _ _ _ _ O0 W0) as S0. pose proof (walk_std _ s H _ _ _ _ O1 W1) as S1.
    pose proof (paths_zbdd_correct s (RN id) H Hk (ex_intro _ nd E)) as Hn. unfold paths_zbdd in Hn.
    rewrite (walk_node _ s (nlevels s) id false nd e0 e1 E Hc) in Hn. simpl sc_tag in Hn.
    (* children at fuel [nlevels s]: same values as at the standard fuel *)
    destruct (walk (zbdd_scheme exact_ops) s (nlevels s) (eref e0) false) as [a0'|] eqn:E0; [|discriminate].
    destruct (walk (zbdd_scheme exact_ops) s (nlevels s) (eref e1) false) as [a1'|] eqn:E1; [|discriminate].
    pose proof (walk_std _ s H _ _ _ _ O0 E0) as S0'. pose proof (walk_std _ s H _ _ _ _ O1 E1) as S1'.
    rewrite S0 in S0'. rewrite S1 in S1'. injection S0' as <-. injection S1' as <-.
    change (sc_comb (zbdd_scheme exact_ops) a0 a1) with (a0 + a1)%N in Hn. injection Hn as Hq.
    assert (Hle : (a0 + a1 <= 2 ^ 53)%N).
    { rewrite Hq. pose proof (cnt_le (nlevels s) 0 (fun_zbdd s (RN id))) as B. unfold count_levels.
      pose proof (pow53 (nlevels s) H53). lia. }
    apply frep_add; try assumption; [lia|].
    rewrite dy_int. change 1024%Z with (Z.of_N 1024). apply IZR_N_lt_bpow.
    eapply N.le_lt_trans; [exact Hle|]. apply N.pow_lt_mono_r; lia.
  - rewrite Wx. simpl option_map. f_equal. unfold zbdd_shift. fold n.
    destruct (Nat.leb_spec n vars) as [_|]; [|lia].
    change (n_shl f64_ops x (vars - n)) with (f64c_shl x (N.of_nat (vars - n))).
    rewrite N.mul_comm.
    apply (shl_of_N x _ 0%Z (N.of_nat (vars - n)) (N.of_nat (vars - n)) Rx); try lia.
    pose proof (cnt_le n 0 (fun_zbdd s (eref e))) as B. unfold count_levels. pose proof (pow53 n H53). lia.
Qed.

(** ** all three kinds *)

Theorem sat_ref_f64 : forall s vars e, WF s -> counting_kind (s_kind s) -> nlevels s <= vars ->
  nlevels s <= 53 -> ref_ok s (eref e) ->
  sat_ref f64_ops s vars e = Some (f64_of_N (exact_count s vars e)).
Proof.
  intros s vars e H [Hk|[Hk|Hk]] Hv H53 Hok;
    [apply sat_ref_f64_bdd | apply sat_ref_f64_bcdd | apply sat_ref_f64_zbdd]; assumption.
Qed.

(** the result is exact (an [f64] holding the count) whenever the count is below
    [2^1024], in particular for every [vars <= 1023]; and [+inf] otherwise *)
Theorem sat_ref_f64_exact : forall s vars e, WF s -> counting_kind (s_kind s) -> nlevels s <= vars ->
  nlevels s <= 53 -> ref_ok s (eref e) -> (exact_count s vars e < 2 ^ 1024)%N ->
  exists x, sat_ref f64_ops s vars e = Some x /\ is_finite 53 1024 x = true /\
            B2R 53 1024 x = IZR (Z.of_N (exact_count s vars e)).
Proof.
  intros s vars e H Hk Hv H53 Hok Hlt. eexists. split; [apply sat_ref_f64; assumption|].
  revert Hlt. unfold exact_count. rewrite N.mul_comm. intros Hlt. apply f64_of_N_exact; [|exact Hlt].
  pose proof (pow53 (nlevels s) H53).
  destruct (s_kind s); unfold count_levels;
    match goal with |- (cnt ?k ?l ?f <= _)%N => pose proof (cnt_le k l f) end; lia.
Qed.

Lemma exact_count_le : forall s vars e, (exact_count s vars e <= 2 ^ N.of_nat (vars - nlevels s) * 2 ^ N.of_nat (nlevels s))%N.
Proof.
  intros. unfold exact_count. apply N.mul_le_mono_l. unfold count_levels. apply cnt_le.
Qed.

Corollary sat_ref_f64_exact_vars : forall s vars e, WF s -> counting_kind (s_kind s) -> nlevels s <= vars ->
  nlevels s <= 53 -> ref_ok s (eref e) -> vars <= 1023 ->
  exists x, sat_ref f64_ops s vars e = Some x /\ is_finite 53 1024 x = true /\
            B2R 53 1024 x = IZR (Z.of_N (exact_count s vars e)).
Proof.
  intros s vars e H Hk Hv H53 Hok Hs. apply sat_ref_f64_exact; try assumption.
  eapply N.le_lt_trans; [apply exact_count_le|]. rewrite <- N.pow_add_r. apply N.pow_lt_mono_r; lia.
Qed.

Theorem sat_ref_f64_overflow : forall s vars e, WF s -> counting_kind (s_kind s) -> nlevels s <= vars ->
  nlevels s <= 53 -> ref_ok s (eref e) -> (2 ^ 1024 <= exact_count s vars e)%N ->
  sat_ref f64_ops s vars e = Some f64c_pos_inf.
Proof.
  intros s vars e H Hk Hv H53 Hok Hge. rewrite (sat_ref_f64 s vars e H Hk Hv H53 Hok). f_equal.
  revert Hge. unfold exact_count. rewrite N.mul_comm. intros Hge. apply of_N_ovf; [|exact Hge].
  pose proof (pow53 (nlevels s) H53).
  destruct (s_kind s); unfold count_levels;
    match goal with |- (cnt ?k ?l ?f <= _)%N => pose proof (cnt_le k l f) end; lia.
Qed.

(** ** histories with a reused cache *)

Fixpoint small_levels (qs : list query) : Prop :=
  match qs with
  | [] => True
  | q :: rest => nlevels (q_snap q) <= 53 /\ small_levels rest
  end.

Theorem run_queries_f64 : forall q qs,
  qok q -> hist_ok q qs -> counting (q :: qs) -> small_levels (q :: qs) ->
  exists c', run_queries f64_ops (@cache_default binary64) (q :: qs) =
             Some (map (fun q => f64_of_N (exact_count (q_snap q) (q_vars q) (q_edge q))) (q :: qs), c').
Proof.
  intros q qs Hq Hh Hc Hs.
  destruct (run_queries_correct f64_ops q qs Hq Hh) as [vs [c' [Er Hf]]].
  exists c'. rewrite Er. f_equal. f_equal.
  assert (Hall : Forall qok (q :: qs)).
  { constructor; [exact Hq|]. clear - Hh. revert q Hh. induction qs as [|x r IH]; intros q Hh; [constructor|].
    destruct Hh as [Hx [_ Hr]]. constructor; [exact Hx | apply (IH x Hr)]. }
  clear - Hf Hc Hs Hall. revert Hc Hs Hall. induction Hf as [|x v l l' Hxv _ IH]; intros Hc Hs Hall; [reflexivity|].
  destruct Hc as [Hk [Hv Hc]]. destruct Hs as [H53 Hs]. inversion Hall as [|? ? [Hw [_ Hok]] Hall']; subst.
  simpl map. rewrite (sat_ref_f64 (q_snap x) (q_vars x) (q_edge x) Hw Hk Hv H53 Hok) in Hxv.
  inversion Hxv; subst v. f_equal. apply IH; assumption.
Qed.

(** * Part 4: beyond 53 levels -- the run is the evaluation of the same
      expression tree with every operation correctly rounded

    No bound on the number of levels and no well-formedness is needed here:
    the float run and the run over the reals with [rnd64] after every
    operation visit the same tree.  The terminal value is [2^k], [k <= 1022]
    (no intermediate overflow: all values stay in [[0, 2^k]]). *)

Local Open Scope R_scope.

Notation rnd64 := (round radix2 (FLT_exp (-1074) 53) ZnearestE).

(** [(a + b) >> 1] over the reals, rounded like the two float operations *)
Definition halveR (a b : R) : R := rnd64 (rnd64 (a + b) * bpow radix2 (-1)).

Definition bdd_schemeR (T : R) : scheme R :=
  mkScheme R
    (fun s t _ => match term_val s t with
                  | Some v => Some (if N.eqb v 1 then T else 0)
                  | None => None
                  end)
    (fun _ id => id) (fun _ _ => false) negb halveR.

Definition bcdd_schemeR (T : R) : scheme R :=
  mkScheme R (fun _ _ tag => Some (if tag then 0 else T))
    (fun tag id => if tag then xI id else xO id) xorb (fun _ => true) halveR.

Definition RelR (T : R) (a : R) (x : binary64) : Prop :=
  is_finite 53 1024 x = true /\ B2R 53 1024 x = a /\ 0 <= a <= T.

Lemma bpow_format : forall k : Z, (-1074 <= k)%Z -> generic_format radix2 (FLT_exp (-1074) 53) (bpow radix2 k).
Proof.
  intros k Hk. replace (bpow radix2 k) with (dy 1 k) by (unfold dy; simpl IZR; ring).
  apply dy_format; [discriminate | exact Hk].
Qed.

Lemma rnd_le_bpow : forall x (k : Z), (-1074 <= k)%Z -> x <= bpow radix2 k -> rnd64 x <= bpow radix2 k.
Proof.
  intros x k Hk Hx. apply round_le_generic; [apply (@FLT_exp_valid (-1074) 53 Hprec53) | apply valid_rnd_N | apply bpow_format; exact Hk | exact Hx].
Qed.

Lemma rnd_ge_0 : forall x, 0 <= x -> 0 <= rnd64 x.
Proof.
  intros x Hx. apply round_ge_generic; [apply (@FLT_exp_valid (-1074) 53 Hprec53) | apply valid_rnd_N | apply generic_format_0 | exact Hx].
Qed.

Lemma relR_halve : forall (k : N) a0 a1 x0 x1, (k <= 1022)%N ->
  RelR (bpow radix2 (Z.of_N k)) a0 x0 -> RelR (bpow radix2 (Z.of_N k)) a1 x1 ->
  RelR (bpow radix2 (Z.of_N k)) (halveR a0 a1) (f64c_shr (f64c_add x0 x1) 1).
Proof.
  intros k a0 a1 x0 x1 Hk (F0 & V0 & L0 & U0) (F1 & V1 & L1 & U1).
  set (T := bpow radix2 (Z.of_N k)) in *.
  assert (HT2 : T + T = bpow radix2 (Z.of_N k + 1)) by (rewrite bpow_plus; simpl (bpow radix2 1); unfold T; lra).
  assert (Hs0 : 0 <= rnd64 (a0 + a1)) by (apply rnd_ge_0; lra).
  assert (Hs1 : rnd64 (a0 + a1) <= bpow radix2 (Z.of_N k + 1)) by (apply rnd_le_bpow; [lia | lra]).
  assert (Hlt : Rabs (rnd64 (B2R 53 1024 x0 + B2R 53 1024 x1)) < bpow radix2 1024).
  { rewrite V0, V1, Rabs_pos_eq by exact Hs0. eapply Rle_lt_trans; [exact Hs1|]. apply bpow_lt. lia. }
  destruct (f64c_add_round x0 x1 F0 F1 Hlt) as [Fs Vs]. rewrite V0, V1 in Vs.
  destruct (f64c_shr_round (f64c_add x0 x1) 1 Fs ltac:(lia)) as [Fr Vr]. rewrite Vs in Vr.
  split; [exact Fr|]. split; [exact Vr|]. unfold halveR.
  assert (Hh : bpow radix2 (Z.of_N k + 1) * bpow radix2 (-1) = T).
  { rewrite <- bpow_plus. unfold T. f_equal. lia. }
  pose proof (bpow_gt_0 radix2 (-1)).
  split.
  - apply rnd_ge_0. apply Rmult_le_pos; lra.
  - apply rnd_le_bpow; [lia|]. fold T. rewrite <- Hh. apply Rmult_le_compat_r; lra.
Qed.

Lemma relR_terminal : forall k : N, (k <= 1022)%N ->
  RelR (bpow radix2 (Z.of_N k)) (bpow radix2 (Z.of_N k)) (f64c_shl (n_one f64_ops) k).
Proof.
  intros k Hk.
  assert (Hr : frep (f64c_shl (n_one f64_ops) k) 1 (0 + Z.of_N k)).
  { apply frep_shl; [exact fops_one_rep | discriminate | lia | lia |].
    unfold dy. simpl IZR. rewrite Rmult_1_l. apply bpow_lt. lia. }
  destruct Hr as (F & _ & V). split; [exact F|]. split.
  - rewrite V. unfold dy. simpl IZR. rewrite Rmult_1_l. f_equal.
  - pose proof (bpow_ge_0 radix2 (Z.of_N k)). lra.
Qed.

Lemma relR_zero : forall T, 0 <= T -> RelR T 0 (n_zero f64_ops).
Proof. intros T HT. rewrite fops_zero. split; [reflexivity|]. split; [reflexivity | lra]. Qed.

Theorem walk_f64_bdd_rounded : forall s (k : N) f r a, (k <= 1022)%N ->
  walk (bdd_schemeR (bpow radix2 (Z.of_N k))) s f r false = Some a ->
  exists x, walk (bdd_scheme f64_ops (f64c_shl (n_one f64_ops) k)) s f r false = Some x /\
            is_finite 53 1024 x = true /\ B2R 53 1024 x = a.
Proof.
  intros s k f r a Hk Hw.
  destruct (walk_sim (bdd_schemeR (bpow radix2 (Z.of_N k))) (bdd_scheme f64_ops (f64c_shl (n_one f64_ops) k))
              (RelR (bpow radix2 (Z.of_N k))) s) with (f := f) (r := r) (tag := false) (a := a)
    as [x [Wx (F & V & _)]]; [reflexivity | | | exact Hw | eauto].
  - intros t tag v. simpl. destruct (term_val s t) as [w|]; [|discriminate]. intros E. inversion E; subst v.
    eexists. split; [reflexivity|]. destruct (N.eqb w 1); [apply relR_terminal; exact Hk | apply relR_zero; apply bpow_ge_0].
  - intros f' id nd e0 e1 tag a0 a1 b0 b1 _ _ _ _ R0 R1. apply (relR_halve k); assumption.
Qed.

Theorem walk_f64_bcdd_rounded : forall s (k : N) f r tag a, (k <= 1022)%N ->
  walk (bcdd_schemeR (bpow radix2 (Z.of_N k))) s f r tag = Some a ->
  exists x, walk (bcdd_scheme f64_ops (f64c_shl (n_one f64_ops) k)) s f r tag = Some x /\
            is_finite 53 1024 x = true /\ B2R 53 1024 x = a.
Proof.
  intros s k f r tag a Hk Hw.
  destruct (walk_sim (bcdd_schemeR (bpow radix2 (Z.of_N k))) (bcdd_scheme f64_ops (f64c_shl (n_one f64_ops) k))
              (RelR (bpow radix2 (Z.of_N k))) s) with (f := f) (r := r) (tag := tag) (a := a)
    as [x [Wx (F & V & _)]]; [reflexivity | | | exact Hw | eauto].
  - intros t tg v. simpl. intros E. inversion E; subst v.
    eexists. split; [reflexivity|]. destruct tg; [apply relR_zero; apply bpow_ge_0 | apply relR_terminal; exact Hk].
  - intros f' id nd e0 e1 tg a0 a1 b0 b1 _ _ _ _ R0 R1. apply (relR_halve k); assumption.
Qed.

(** [sat_count::<F64>(vars)] on a BDD for [vars <= 1020] (no rescaling): the
    rounded evaluation of the expression tree, for any number of levels *)
Corollary sat_ref_f64_bdd_rounded : forall s vars e a, s_kind s = KBdd -> (vars <= 1020)%nat ->
  walk (bdd_schemeR (bpow radix2 (Z.of_nat vars))) s (S (nlevels s)) (eref e) false = Some a ->
  exists x, sat_ref f64_ops s vars e = Some x /\ is_finite 53 1024 x = true /\ B2R 53 1024 x = a.
Proof.
  intros s vars e a Hk Hv Hw. rewrite sat_ref_unfold. unfold finish, scheme_of, start_tag. rewrite Hk, scaled_bdd_f64.
  assert (Esc : Nat.leb 1021 vars = false) by (apply Nat.leb_gt; lia). rewrite Esc.
  rewrite <- nat_N_Z in Hw.
  destruct (walk_f64_bdd_rounded s (N.of_nat vars) _ _ a ltac:(lia) Hw) as [x [Wx [F V]]].
  exists x. unfold terminal_val.
  change (n_shl f64_ops (n_one f64_ops) vars) with (f64c_shl (n_one f64_ops) (N.of_nat vars)).
  rewrite Wx. auto.
Qed.

Corollary sat_ref_f64_bcdd_rounded : forall s vars e a, s_kind s = KBcdd -> (vars <= 1020)%nat ->
  walk (bcdd_schemeR (bpow radix2 (Z.of_nat vars))) s (S (nlevels s)) (eref e) (etag e) = Some a ->
  exists x, sat_ref f64_ops s vars e = Some x /\ is_finite 53 1024 x = true /\ B2R 53 1024 x = a.
Proof.
  intros s vars e a Hk Hv Hw. rewrite sat_ref_unfold. unfold finish, scheme_of, start_tag. rewrite Hk, scaled_bcdd_f64.
  assert (Esc : Nat.leb 1021 vars = false) by (apply Nat.leb_gt; lia). rewrite Esc.
  rewrite <- nat_N_Z in Hw.
  destruct (walk_f64_bcdd_rounded s (N.of_nat vars) _ _ _ a ltac:(lia) Hw) as [x [Wx [F V]]].
  exists x. unfold terminal_val.
  change (n_shl f64_ops (n_one f64_ops) vars) with (f64c_shl (n_one f64_ops) (N.of_nat vars)).
  rewrite Wx. auto.
Qed.

Local Close Scope R_scope.

(** * Examples (non-vacuity) *)

(** (x0 /\ x1) \/ x2 as BDD, BCDD, ZBDD: 5.0, 10.0, 5 * 2^1020, +inf; 0 stays 0;
    the cached run agrees *)
Example ex_sat_f64 :
  sat_f64_bits ex_sat_bdd 3 (xe (RN 4)) = Some 0x4014000000000000%Z /\
  sat_f64_bits ex_sat_bdd 4 (xe (RN 4)) = Some 0x4024000000000000%Z /\
  sat_f64_bits ex_sat_bdd 1023 (xe (RN 4)) = Some 0x7fd4000000000000%Z /\
  sat_f64_bits ex_sat_bdd 1100 (xe (RN 4)) = Some 0x7ff0000000000000%Z /\
  sat_f64_bits ex_sat_bdd 3000 (xe (RN 4)) = Some 0x7ff0000000000000%Z /\
  sat_f64_bits ex_sat_bdd 1100 (xe (RT 0)) = Some 0%Z /\
  sat_f64_bits ex_sat_bcdd 3 (mkEdge (RN 4) true) = Some 0x4008000000000000%Z /\
  sat_f64_bits ex_sat_zbdd 3 (xe (RN 6)) = Some 0x4014000000000000%Z /\
  sat_f64_bits ex_sat_zbdd 1100 (xe (RN 6)) = Some 0x7ff0000000000000%Z /\
  sat_f64_cached_bits true ex_sat_bdd 1023 (xe (RN 4)) = Some 0x7fd4000000000000%Z /\
  f64_count_bits 5 = 0x4014000000000000%Z /\ f64_count_bits (5 * 2 ^ 1020) = 0x7fd4000000000000%Z /\
  f64_count_bits (2 ^ 1024) = 0x7ff0000000000000%Z.
Proof. vm_compute. repeat split; reflexivity. Qed.

(** the example history of DD/SatQueryProofs.v satisfies the hypotheses of
    [run_queries_f64] and returns 5.0, 6.0, 10.0, 8.0 *)
Example ex_f64_history_small : small_levels ex_history.
Proof. simpl. change (nlevels ex_sat_bdd) with 3. repeat split; lia. Qed.

Example ex_f64_history_run :
  match run_queries f64_ops (@cache_default binary64) ex_history with
  | Some (vs, c) => map bits_of_b64 vs =
      [0x4014000000000000; 0x4018000000000000; 0x4024000000000000; 0x4020000000000000]%Z
  | None => False
  end.
Proof. vm_compute. reflexivity. Qed.

(** the hypotheses of [sat_ref_f64] hold for the example diagram; the theorem
    instantiated: 5 * 2^1097 models over 1100 variables are +inf, 5 * 2^1020
    over 1023 variables are exact *)
Example ex_sat_f64_hyps :
  WF ex_sat_bdd /\ counting_kind (s_kind ex_sat_bdd) /\ nlevels ex_sat_bdd <= 53 /\
  ref_ok ex_sat_bdd (eref (xe (RN 4))) /\
  exact_count ex_sat_bdd 1023 (xe (RN 4)) = (5 * 2 ^ 1020)%N /\
  sat_ref f64_ops ex_sat_bdd 1023 (xe (RN 4)) = Some (f64_of_N (5 * 2 ^ 1020)) /\
  sat_ref f64_ops ex_sat_bdd 1100 (xe (RN 4)) = Some f64c_pos_inf.
Proof.
  assert (W : WF ex_sat_bdd) by (apply wf_b_spec; exact ex_sat_bdd_wf).
  assert (K : counting_kind (s_kind ex_sat_bdd)) by (left; reflexivity).
  assert (L : nlevels ex_sat_bdd <= 53) by (change (nlevels ex_sat_bdd) with 3; lia).
  assert (R : ref_ok ex_sat_bdd (eref (xe (RN 4)))) by (simpl; eexists; reflexivity).
  assert (C : count_levels 3 (fun_bdd ex_sat_bdd (RN 4)) = 5%N) by (vm_compute; reflexivity).
  assert (E : forall vars, exact_count ex_sat_bdd vars (xe (RN 4)) = (2 ^ N.of_nat (vars - 3) * 5)%N).
  { intros vars. unfold exact_count. change (nlevels ex_sat_bdd) with 3. simpl s_kind. cbv iota.
    change (eref (xe (RN 4))) with (RN 4). rewrite C. reflexivity. }
  split; [exact W|]. split; [exact K|]. split; [exact L|]. split; [exact R|]. split; [|split].
  - rewrite E. change (N.of_nat (1023 - 3)) with 1020%N. lia.
  - rewrite (sat_ref_f64 _ 1023 _ W K ltac:(change (nlevels ex_sat_bdd) with 3; lia) L R), E.
    change (N.of_nat (1023 - 3)) with 1020%N. repeat f_equal; try lia.
  - apply (sat_ref_f64_overflow _ 1100 _ W K ltac:(change (nlevels ex_sat_bdd) with 3; lia) L R).
    rewrite E. change (N.of_nat (1100 - 3)) with 1097%N.
    assert (2 ^ 1024 <= 2 ^ 1097)%N by (apply N.pow_le_mono_r; lia). lia.
Qed.
