(** * [sat_count] over [Saturating<u64>] / [Saturating<u128>] at the query level

    DD/SatCountProofs.v and DD/SatBcddSatProofs.v prove the saturating runs for
    the bare recursions ([sat_bdd_sat], [sat_bcdd_sat], [sat_zbdd_sat]).  The
    correspondence run replays whole calls ([sat_query] = [clear_if_invalid] +
    recursion + final rescaling, instantiated with [sat_ops w]); this file
    states the same results for [sat_ref (sat_ops w)] -- the reference value of
    a call -- and lifts them to histories on kept caches.  It also relates
    [sat_ops] (the number interface used by the counting model) to the model
    of the number type itself (Num/Saturating.v). *)
From Coq Require Import List NArith PArith Bool Arith Lia FMapPositive.
From OxiVerif Require Import DD.Table DD.TableExtra DD.TableProofs DD.SatCount DD.SatCountProofs DD.SatQueryProofs
  DD.SatBcddSatProofs Num.Saturating.
From OxiVerif Require Import DD.SatCache DD.SatCacheProofs.
Import ListNotations.

Arguments N.add : simpl never.
Arguments N.sub : simpl never.
Arguments N.mul : simpl never.
Arguments N.div : simpl never.
Arguments N.modulo : simpl never.
Arguments N.pow : simpl never.

(** [sat_ops w] is [Saturating<uW>] of Num/Saturating.v ([>>] for the shift
    amounts below [W]; Rust takes the amount modulo [W] in release builds and
    panics in debug builds beyond) *)
Theorem sat_ops_saturating : forall w a b k,
  n_zero (sat_ops w) = su_from_u32 0 /\ n_one (sat_ops w) = su_from_u32 1 /\
  n_add (sat_ops w) a b = su_add w a b /\
  n_shl (sat_ops w) a k = su_shl w a (N.of_nat k) /\
  ((N.of_nat k < w)%N -> n_shr (sat_ops w) a k = su_shr w a (N.of_nat k)).
Proof.
  intros w a b k. repeat split; try reflexivity.
  intros Hk. simpl n_shr. unfold su_shr, sat_max, su_max. rewrite (N.mod_small _ _ Hk). reflexivity.
Qed.

(** what a call must return in [Saturating<uW>] for the exact count [x] *)
Definition sat_expected (w : N) (k : kind) (vars : nat) (x : N) : N :=
  match k with
  | KZbdd => sat_fit w x            (* the count while it is representable, else the marker *)
  | _ => saturate w vars x          (* the count while 2^vars is representable, else the marker (0 stays 0) *)
  end.

Lemma shl0_id : forall w x, (x < 2 ^ w)%N -> n_shl (sat_ops w) x 0 = x.
Proof.
  intros w x Hx. simpl n_shl. destruct (N.eqb_spec x 0) as [->|Hnz]; [reflexivity|].
  change (N.of_nat 0) with 0%N.
  destruct (N.ltb_spec (w - N.size x) 0) as [X|_]; [lia|].
  change (2 ^ 0)%N with 1%N. rewrite N.mul_1_r. apply N.mod_small. exact Hx.
Qed.

Lemma saturate_lt : forall w vars x, (1 <= w)%N -> (x <= 2 ^ N.of_nat vars)%N -> (saturate w vars x < 2 ^ w)%N.
Proof.
  intros w vars x Hw Hx. unfold saturate, sat_max.
  assert (Hp : (0 < 2 ^ w)%N) by (apply pow2_pos).
  destruct (N.ltb_spec (N.of_nat vars) w) as [L|G].
  - eapply N.le_lt_trans; [exact Hx|]. apply N.pow_lt_mono_r; [reflexivity | exact L].
  - destruct (N.eqb_spec x 0); lia.
Qed.

Theorem sat_ref_saturating : forall w, (2 <= w)%N -> forall s vars e,
  WF s -> counting_kind (s_kind s) -> (s_kind s = KBcdd -> terms_kind s) ->
  (s_kind s = KZbdd -> (N.of_nat (nlevels s) < w)%N) ->
  nlevels s <= vars -> ref_ok s (eref e) ->
  sat_ref (sat_ops w) s vars e = Some (sat_expected w (s_kind s) vars (exact_count s vars e)).
Proof.
  intros w Hw s vars e H Hk Ht Hz Hv Hok. unfold sat_ref, sat_expected, exact_count.
  destruct Hk as [Hk|[Hk|Hk]]; rewrite Hk.
  - change (scaled_bdd (sat_ops w) vars) with false. unfold terminal_val, rescale.
    change (n_one (sat_ops w)) with 1%N.
    fold (sat_bdd_sat w s (S (nlevels s)) vars (eref e)).
    rewrite (sat_bdd_saturating w Hw s vars (eref e) H Hk Hv Hok), (sat_bdd_correct s vars (eref e) H Hk Hv Hok).
    reflexivity.
  - change (scaled_bcdd (sat_ops w) vars) with true. unfold terminal_val, rescale.
    change (n_one (sat_ops w)) with 1%N. change (n_scale (sat_ops w)) with 0. rewrite Nat.sub_0_r.
    fold (sat_bcdd_sat w s (S (nlevels s)) vars e).
    rewrite (sat_bcdd_saturating w Hw s vars e H Hk (Ht Hk) Hv Hok), (sat_bcdd_correct s vars e H Hk Hv Hok).
    simpl option_map. f_equal. apply shl0_id. apply saturate_lt; [lia|].
    pose proof (cnt_le (nlevels s) 0 (fun_bcdd s e)) as Hle. fold (count_levels (nlevels s) (fun_bcdd s e)) in Hle.
    replace vars with ((vars - nlevels s) + nlevels s) at 2 by lia. rewrite pow2_add.
    apply N.mul_le_mono_l. exact Hle.
  - fold (sat_zbdd_sat w s (S (nlevels s)) vars (eref e)).
    apply (sat_zbdd_saturating w Hw s vars (eref e) H Hk Hv (Hz Hk) Hok).
Qed.

(** * Histories *)

(** the side conditions of [sat_ref_saturating] along a history *)
Fixpoint sat_hist (w : N) (m : mgr) (evs : list event) : Prop :=
  match evs with
  | [] => True
  | ECount _ vars e :: rest =>
    (s_kind (m_snap m) = KBcdd -> terms_kind (m_snap m)) /\
    (s_kind (m_snap m) = KZbdd -> (N.of_nat (nlevels (m_snap m)) < w)%N) /\ sat_hist w m rest
  | ev :: rest => sat_hist w (mgr_step m ev) rest
  end.

Fixpoint sat_events (w : N) (m : mgr) (evs : list event) : list N :=
  match evs with
  | [] => []
  | ECount _ vars e :: rest =>
    sat_expected w (s_kind (m_snap m)) vars (exact_count (m_snap m) vars e) :: sat_events w m rest
  | ev :: rest => sat_events w (mgr_step m ev) rest
  end.

Lemma ref_events_saturating : forall w, (2 <= w)%N -> forall evs m,
  mgr_ok m -> hist_valid m evs -> counting_hist m evs -> sat_hist w m evs ->
  ref_events (sat_ops w) true m evs = map Some (sat_events w m evs).
Proof.
  intros w Hw. induction evs as [|ev rest IH]; intros m Hm Hv Hc Hs; [reflexivity|].
  destruct Hv as [Hst Hr]. pose proof (mgr_ok_step m ev Hm Hst) as Hm'.
  destruct ev as [s'|s'|s'|cid vars e]; simpl in *; try (apply IH; assumption).
  destruct Hc as [Hk [Hl Hc]]. destruct Hs as [Ht [Hz Hs]]. destruct Hm as [H Hb].
  rewrite (sat_ref_saturating w Hw (m_snap m) vars e H Hk Ht Hz Hl Hst). f_equal.
  apply IH; [split|..]; assumption.
Qed.

(** every count served through any kept cache, over any history, in
    [Saturating<uW>]: the number of satisfying assignments, or the marker
    exactly when the type cannot hold [2^vars] (ZBDD: the count itself) *)
Theorem cache_history_saturating : forall w, (2 <= w)%N -> forall alls evs m,
  mgr_ok m -> hist_valid m evs -> counting_hist m evs -> sat_hist w m evs ->
  exists cs', run_events (sat_ops w) alls m (PositiveMap.empty _) evs =
              Some (sat_events w m evs, final_mgr m evs, cs').
Proof.
  intros w Hw alls evs m Hm Hv Hc Hs.
  destruct (cache_history_correct (sat_ops w) alls evs m Hm Hv) as [vs [cs' [Er Ef]]].
  exists cs'. rewrite Er. rewrite (ref_events_saturating w Hw evs m Hm Hv Hc Hs) in Ef.
  assert (E : vs = sat_events w m evs).
  { revert Ef. generalize (sat_events w m evs). clear.
    induction vs as [|v vs IH]; intros [|x l] E; try discriminate; [reflexivity|].
    simpl in E. inversion E. f_equal. apply IH. assumption. }
  rewrite E. reflexivity.
Qed.

(** non-vacuity: the id-reuse history of DD/SatCache.v in [Saturating<u64>], with 3 and with 64 variables *)
Example ex_reuse_u64 :
  sat_hist 64 ex_mgr0 ex_reuse_events /\
  match run_events (sat_ops 64) (fun _ => true) ex_mgr0 (PositiveMap.empty _) ex_reuse_events with
  | Some (vs, _, _) => vs = [5; 2]%N
  | None => False
  end /\
  sat_ref (sat_ops 64) ex_sat_bdd 64 (xe (RN 4)) = Some (sat_max 64) /\
  sat_ref (sat_ops 64) ex_sat_bdd 63 (xe (RN 4)) = Some (5 * 2 ^ 60)%N.
Proof.
  split; [simpl; repeat split; intros X; discriminate|]. vm_compute. repeat split; reflexivity.
Qed.
