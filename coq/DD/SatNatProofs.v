(** * [sat_count::<Natural>]: the arbitrary-precision type in the counting recursion

    DD/SatCount.v proves the counts in exact arithmetic on [N] ([exact_ops]),
    "what a correct arbitrary-precision type computes".  Here the recursion is
    run over the model of the real type ([nat_ops] of DD/SatCache.v: the
    operations of Num/Natural.v, i.e. of bigint.rs) and shown to return a
    [Natural] that satisfies the representation invariant and denotes exactly
    the number of satisfying assignments -- never the error value NaN: every
    halving [(a + b) >> 1] is exact (DD/SatCountProofs.v), and no exponent can
    reach [u64::MAX] because [vars] is a [u32]. *)
From Coq Require Import List NArith PArith Bool Arith Lia FMapPositive.
From OxiVerif Require Import DD.Table DD.TableExtra DD.TableProofs DD.SatCount DD.SatCountProofs DD.SatQueryProofs.
From OxiVerif Require Import Num.Natural Num.NatBase Num.NaturalProofs Num.NaturalAddProofs.
From OxiVerif Require Import DD.SatCache DD.SatCacheProofs.
Import ListNotations.

Arguments N.add : simpl never.
Arguments N.sub : simpl never.
Arguments N.mul : simpl never.
Arguments N.div : simpl never.
Arguments N.modulo : simpl never.
Arguments N.pow : simpl never.

(** * A simulation between two runs of the recursion over different number types
      (as [walk_sim] of DD/SatF64Proofs.v; repeated here to keep this file
      independent of the floating-point development) *)
Section Sim.
Context {A B : Type}.
Variables (sa : scheme A) (sb : scheme B) (R : A -> B -> Prop) (s : snap).
Hypothesis Htag : forall t c, sc_tag sb t c = sc_tag sa t c.
Hypothesis Hterm : forall t tag a, sc_term sa s t tag = Some a ->
  exists b, sc_term sb s t tag = Some b /\ R a b.
Hypothesis Hcomb : forall f id nd e0 e1 tag a0 a1 b0 b1,
  find_node s id = Some nd -> nchildren nd = [e0; e1] ->
  walk sa s f (eref e0) (sc_tag sa tag (etag e0)) = Some a0 ->
  walk sa s f (eref e1) (sc_tag sa tag (etag e1)) = Some a1 ->
  R a0 b0 -> R a1 b1 -> R (sc_comb sa a0 a1) (sc_comb sb b0 b1).

Lemma walk_simulation : forall f r tag a, walk sa s f r tag = Some a ->
  exists b, walk sb s f r tag = Some b /\ R a b.
Proof.
  induction f as [|f IH]; intros r tag a Hw.
  - destruct r as [t|id]; [|simpl in Hw; discriminate]. rewrite walk_T in *. apply Hterm. exact Hw.
  - destruct r as [t|id]; [rewrite walk_T in *; apply Hterm; exact Hw|].
    rewrite walk_S in Hw. rewrite walk_S. revert Hw.
    destruct (find_node s id) as [nd|] eqn:E; [|discriminate].
    destruct (nchildren nd) as [|e0 [|e1 [|e2 l]]] eqn:Hc; try discriminate.
    destruct (walk sa s f (eref e0) _) as [a0|] eqn:E0; [|discriminate].
    destruct (walk sa s f (eref e1) _) as [a1|] eqn:E1; [|discriminate].
    intros Hw. inversion Hw; subst a.
    destruct (IH _ _ _ E0) as [b0 [W0 R0]]. destruct (IH _ _ _ E1) as [b1 [W1 R1]].
    rewrite !Htag, W0, W1. eexists. split; [reflexivity|].
    apply (Hcomb f id nd e0 e1 tag a0 a1 b0 b1 E Hc E0 E1 R0 R1).
Qed.

End Sim.

Local Open Scope N_scope.

(** a number below [2^K], [K < u64::MAX], is representable (its exponent, the
    number of trailing zero bits, is below [u64::MAX]) *)
Lemma norm_small : forall v K, v < 2 ^ K -> K < U64MAX -> norm v = Some v.
Proof.
  intros v K Hv HK. unfold norm. destruct (N.eqb_spec v 0) as [E|E]; [reflexivity|].
  pose proof (ctz_lt_size v E) as Hc. apply size_le_iff in Hv.
  destruct (N.ltb_spec (ctz v) U64MAX) as [_|X]; [reflexivity | lia].
Qed.

Section NatRel.
Variable K : N.                       (* all values are at most [2^K] *)
Hypothesis HK : K < 2 ^ 32.

(** the [Natural] [x] is well-formed and holds exactly [a] *)
Definition RelN (a : N) (x : natural) : Prop := Inv x /\ val x = Some a /\ a <= 2 ^ K.

Lemma K_small : K + 2 < U64MAX.
Proof. change (2 ^ 32) with 4294967296 in HK. unfold U64MAX. lia. Qed.

Lemma reln_zero : RelN 0 (n_zero nat_ops).
Proof.
  destruct (from_u32_spec 0 ltac:(reflexivity)) as [I V]. split; [exact I|]. split; [exact V|].
  pose proof (p2_pos K). lia.
Qed.

Lemma reln_one : RelN 1 (n_one nat_ops).
Proof.
  destruct (from_u32_spec 1 ltac:(reflexivity)) as [I V]. split; [exact I|]. split; [exact V|].
  pose proof (p2_pos K). lia.
Qed.

(** [x << k] (the shift amount is a [u32]) *)
Lemma reln_shl : forall a x k, RelN a x -> N.of_nat k < 2 ^ 32 -> a * 2 ^ N.of_nat k <= 2 ^ K ->
  RelN (a * 2 ^ N.of_nat k) (n_shl nat_ops x k).
Proof.
  intros a x k [I [V B]] Hk Hb. pose proof K_small as Hs.
  assert (Hk' : N.of_nat k <= U64MAX) by (change (2 ^ 32) with 4294967296 in Hk; unfold U64MAX; lia).
  destruct (nat_shl_spec x (N.of_nat k) I Hk') as [I' V']. simpl n_shl.
  split; [exact I'|]. split; [|exact Hb]. rewrite V', V.
  apply (norm_small _ (K + 1)); [|lia]. rewrite N.add_1_r, N.pow_succ_r'. pose proof (p2_pos K). lia.
Qed.

(** [x + y] *)
Lemma reln_add : forall a b x y, RelN a x -> RelN b y -> a + b <= 2 ^ K -> RelN (a + b) (n_add nat_ops x y).
Proof.
  intros a b x y [Ia [Va Ba]] [Ib [Vb Bb]] Hs. pose proof K_small as Hk.
  destruct (nat_add_spec x y Ia Ib) as [I V]. simpl n_add. split; [exact I|]. split; [|exact Hs].
  rewrite V, Va, Vb. apply (norm_small _ (K + 1)); [|lia].
  rewrite N.add_1_r, N.pow_succ_r'. pose proof (p2_pos K). lia.
Qed.

(** [(x + y) >> 1] when the sum is even *)
Lemma reln_halve : forall a b x y, RelN a x -> RelN b y -> (a + b) mod 2 = 0 ->
  RelN ((a + b) / 2) (n_shr nat_ops (n_add nat_ops x y) 1).
Proof.
  intros a b x y [Ia [Va Ba]] [Ib [Vb Bb]] He. pose proof K_small as Hk.
  destruct (nat_add_spec x y Ia Ib) as [I V]. rewrite Va, Vb in V.
  rewrite (norm_small (a + b) (K + 2)) in V.
  2:{ replace (K + 2) with (N.succ (N.succ K)) by lia. rewrite !N.pow_succ_r'. pose proof (p2_pos K). lia. }
  2:{ exact Hk. }
  destruct (nat_shr_spec (nat_add x y) 1 I ltac:(unfold U64MAX; lia)) as [I' V'].
  simpl n_shr. simpl n_add. change (N.of_nat 1) with 1. split; [exact I'|]. split.
  - rewrite V', V. change (2 ^ 1) with 2. rewrite He. reflexivity.
  - apply N.div_le_upper_bound; [discriminate | lia].
Qed.

End NatRel.

Local Close Scope N_scope.

Lemma exact_halve : forall a b : N, n_shr exact_ops (n_add exact_ops a b) 1 = ((a + b) / 2)%N.
Proof. intros. reflexivity. Qed.

(** * BDD *)
Theorem sat_ref_nat_bdd : forall s vars e, WF s -> s_kind s = KBdd -> nlevels s <= vars ->
  (N.of_nat vars < 2 ^ 32)%N -> ref_ok s (eref e) ->
  exists x, sat_ref nat_ops s vars e = Some x /\ Inv x /\ val x = Some (exact_count s vars e).
Proof.
  intros s vars e H Hk Hv H32 Hok. rewrite sat_ref_unfold. unfold finish, scheme_of, start_tag, exact_count.
  rewrite Hk. change (scaled_bdd nat_ops vars) with false. set (n := nlevels s) in *.
  pose proof (sat_bdd_correct s vars (eref e) H Hk Hv Hok) as Hex. fold n in Hex. unfold sat_bdd in Hex.
  destruct (walk_simulation (bdd_scheme exact_ops (2 ^ N.of_nat vars)%N)
              (bdd_scheme nat_ops (terminal_val nat_ops false vars))
              (RelN (N.of_nat vars)) s) with (f := S n) (r := eref e) (tag := false)
              (a := (2 ^ N.of_nat (vars - n) * count_levels n (fun_bdd s (eref e)))%N)
    as [x [Wx Rx]]; [reflexivity | | | exact Hex |].
  - intros t tag a. simpl. destruct (term_val s t) as [v|]; [|discriminate]. intros E. inversion E; subst a.
    eexists. split; [reflexivity|]. destruct (N.eqb v 1).
    + unfold terminal_val. replace (2 ^ N.of_nat vars)%N with (1 * 2 ^ N.of_nat vars)%N by lia.
      apply reln_shl; [exact H32 | apply reln_one; exact H32 | exact H32 | lia].
    + apply reln_zero. exact H32.
  - intros f id nd e0 e1 tag a0 a1 b0 b1 E Hc W0 W1 R0 R1.
    change (sc_comb (bdd_scheme exact_ops (2 ^ N.of_nat vars)%N) a0 a1) with (n_shr exact_ops (n_add exact_ops a0 a1) 1).
    change (sc_comb (bdd_scheme nat_ops (terminal_val nat_ops false vars)) b0 b1)
      with (n_shr nat_ops (n_add nat_ops b0 b1) 1).
    rewrite exact_halve.
    assert (I0 : In e0 (nchildren nd)) by (rewrite Hc; simpl; auto).
    assert (I1 : In e1 (nchildren nd)) by (rewrite Hc; simpl; auto).
    destruct (wf_child s H id nd e0 E I0) as [O0 _]. destruct (wf_child s H id nd e1 E I1) as [O1 _].
    simpl sc_tag in W0, W1.
    pose proof (walk_std _ s H _ _ _ _ O0 W0) as S0. pose proof (walk_std _ s H _ _ _ _ O1 W1) as S1.
    destruct (sat_bdd_halving_exact s vars id nd e0 e1 a0 a1 H Hk Hv E Hc S0 S1) as [He _].
    apply reln_halve; assumption.
  - exists x. rewrite Wx. simpl. split; [reflexivity|]. destruct Rx as [I [V _]]. split; assumption.
Qed.

(** * BCDD (the integer types run through [res << 0] at the end) *)
Theorem sat_ref_nat_bcdd : forall s vars e, WF s -> s_kind s = KBcdd -> nlevels s <= vars ->
  (N.of_nat vars < 2 ^ 32)%N -> ref_ok s (eref e) ->
  exists x, sat_ref nat_ops s vars e = Some x /\ Inv x /\ val x = Some (exact_count s vars e).
Proof.
  intros s vars e H Hk Hv H32 Hok. rewrite sat_ref_unfold. unfold finish, scheme_of, start_tag, exact_count.
  rewrite Hk. change (scaled_bcdd nat_ops vars) with true. set (n := nlevels s) in *.
  pose proof (sat_bcdd_correct s vars e H Hk Hv Hok) as Hex. fold n in Hex. unfold sat_bcdd in Hex.
  assert (Etv : terminal_val nat_ops true vars = n_shl nat_ops (n_one nat_ops) vars).
  { unfold terminal_val. simpl n_scale. rewrite Nat.sub_0_r. reflexivity. }
  remember (terminal_val nat_ops true vars) as tv eqn:Htv.
  destruct (walk_simulation (bcdd_scheme exact_ops (2 ^ N.of_nat vars)%N)
              (bcdd_scheme nat_ops tv)
              (RelN (N.of_nat vars)) s) with (f := S n) (r := eref e) (tag := etag e)
              (a := (2 ^ N.of_nat (vars - n) * count_levels n (fun_bcdd s e))%N)
    as [x [Wx Rx]]; [reflexivity | | | exact Hex |].
  - intros t tag a. simpl. intros E. inversion E; subst a.
    eexists. split; [reflexivity|]. destruct tag.
    + apply reln_zero. exact H32.
    + rewrite Etv. replace (2 ^ N.of_nat vars)%N with (1 * 2 ^ N.of_nat vars)%N by lia.
      apply reln_shl; [exact H32 | apply reln_one; exact H32 | exact H32 | lia].
  - intros f id nd e0 e1 tag a0 a1 b0 b1 E Hc W0 W1 R0 R1.
    change (sc_comb (bcdd_scheme exact_ops (2 ^ N.of_nat vars)%N) a0 a1) with (n_shr exact_ops (n_add exact_ops a0 a1) 1).
    change (sc_comb (bcdd_scheme nat_ops tv) b0 b1)
      with (n_shr nat_ops (n_add nat_ops b0 b1) 1).
    rewrite exact_halve.
    assert (I0 : In e0 (nchildren nd)) by (rewrite Hc; simpl; auto).
    assert (I1 : In e1 (nchildren nd)) by (rewrite Hc; simpl; auto).
    destruct (wf_child s H id nd e0 E I0) as [O0 _]. destruct (wf_child s H id nd e1 E I1) as [O1 _].
    simpl sc_tag in W0, W1.
    pose proof (walk_std _ s H _ _ _ _ O0 W0) as S0. pose proof (walk_std _ s H _ _ _ _ O1 W1) as S1.
    destruct (sat_bcdd_halving_exact s vars id tag nd e0 e1 a0 a1 H Hk Hv E Hc S0 S1) as [He _].
    apply reln_halve; assumption.
  - destruct Rx as [I [V B]].
    assert (Rf : RelN (N.of_nat vars) (2 ^ N.of_nat (vars - n) * count_levels n (fun_bcdd s e) * 2 ^ N.of_nat 0)%N
                   (n_shl nat_ops x 0)).
    { apply reln_shl; [exact H32 | split; [exact I | split; [exact V | exact B]] | reflexivity |].
      change (2 ^ N.of_nat 0)%N with 1%N. lia. }
    exists (n_shl nat_ops x 0). rewrite Wx. split; [reflexivity|]. destruct Rf as [I' [V' _]]. split; [exact I'|].
    rewrite V'. f_equal. change (2 ^ N.of_nat 0)%N with 1%N. lia.
Qed.

(** * ZBDD *)
Theorem sat_ref_nat_zbdd : forall s vars e, WF s -> s_kind s = KZbdd -> nlevels s <= vars ->
  (N.of_nat vars < 2 ^ 32)%N -> ref_ok s (eref e) ->
  exists x, sat_ref nat_ops s vars e = Some x /\ Inv x /\ val x = Some (exact_count s vars e).
Proof.
  intros s vars e H Hk Hv H32 Hok. rewrite sat_ref_unfold. unfold finish, scheme_of, start_tag, exact_count.
  rewrite Hk. set (n := nlevels s) in *.
  pose proof (paths_zbdd_correct s (eref e) H Hk Hok) as Hex. fold n in Hex. unfold paths_zbdd in Hex.
  assert (Hn32 : (N.of_nat n < 2 ^ 32)%N) by lia.
  destruct (walk_simulation (zbdd_scheme exact_ops) (zbdd_scheme nat_ops)
              (RelN (N.of_nat n)) s) with (f := S n) (r := eref e) (tag := false)
              (a := count_levels n (fun_zbdd s (eref e)))
    as [x [Wx Rx]]; [reflexivity | | | exact Hex |].
  - intros t tag a. simpl. destruct (term_val s t) as [v|]; [|discriminate]. intros E. inversion E; subst a.
    eexists. split; [reflexivity|]. destruct (N.eqb v 1); [apply reln_one | apply reln_zero]; exact Hn32.
  - intros f id nd e0 e1 tag a0 a1 b0 b1 E Hc W0 W1 R0 R1.
    change (sc_comb (zbdd_scheme exact_ops) a0 a1) with (a0 + a1)%N.
    change (sc_comb (zbdd_scheme nat_ops) b0 b1) with (n_add nat_ops b0 b1).
    assert (I0 : In e0 (nchildren nd)) by (rewrite Hc; simpl; auto).
    assert (I1 : In e1 (nchildren nd)) by (rewrite Hc; simpl; auto).
    destruct (wf_child s H id nd e0 E I0) as [O0 _]. destruct (wf_child s H id nd e1 E I1) as [O1 _].
    simpl sc_tag in W0, W1.
    pose proof (walk_std _ s H _ _ _ _ O0 W0) as S0. pose proof (walk_std _ s H _ _ _ _ O1 W1) as S1.
    (* the sum is the path count of the node, hence at most 2^n *)
    assert (Hsum : (a0 + a1 <= 2 ^ N.of_nat n)%N).
    { pose proof (paths_zbdd_correct s (RN id) H Hk (ex_intro _ nd E)) as Hp. fold n in Hp.
      assert (Hp' : paths_zbdd s (S (S n)) (RN id) = Some (a0 + a1)%N).
      { unfold paths_zbdd. rewrite (walk_node _ s (S n) id false nd e0 e1 E Hc). simpl sc_tag.
        fold n in S0, S1. rewrite S0, S1. reflexivity. }
      unfold paths_zbdd in Hp, Hp'.
      rewrite (walk_mono _ s (S n) (S (S n)) _ _ _ Hp ltac:(lia)) in Hp'. injection Hp' as Hq.
      rewrite <- Hq. apply cnt_le. }
    apply reln_add; assumption.
  - destruct Rx as [I [V B]]. unfold zbdd_shift. fold n.
    destruct (Nat.leb_spec n vars) as [_|X]; [|lia].
    assert (Rf : RelN (N.of_nat vars) (count_levels n (fun_zbdd s (eref e)) * 2 ^ N.of_nat (vars - n))%N
                   (n_shl nat_ops x (vars - n))).
    { apply reln_shl; [exact H32 | | lia |].
      - split; [exact I|]. split; [exact V|]. eapply N.le_trans; [exact B|]. apply N.pow_le_mono_r; lia.
      - replace (N.of_nat vars) with (N.of_nat n + N.of_nat (vars - n))%N by lia.
        rewrite N.pow_add_r. apply N.mul_le_mono_r. exact B. }
    exists (n_shl nat_ops x (vars - n)). rewrite Wx. split; [reflexivity|]. destruct Rf as [I' [V' _]].
    split; [exact I'|]. rewrite V'. f_equal. lia.
Qed.

(** [sat_count::<Natural>(vars)] is the number of satisfying assignments *)
Theorem sat_ref_nat : forall s vars e, WF s -> counting_kind (s_kind s) -> nlevels s <= vars ->
  (N.of_nat vars < 2 ^ 32)%N -> ref_ok s (eref e) ->
  exists x, sat_ref nat_ops s vars e = Some x /\ Inv x /\ val x = Some (exact_count s vars e).
Proof.
  intros s vars e H [Hk|[Hk|Hk]] Hv H32 Hok;
    [apply sat_ref_nat_bdd | apply sat_ref_nat_bcdd | apply sat_ref_nat_zbdd]; assumption.
Qed.

(** * Histories: kept caches over [Natural] *)

(** [vars] is a [LevelNo = u32] *)
Fixpoint u32_hist (evs : list event) : Prop :=
  match evs with
  | [] => True
  | ECount _ vars _ :: rest => (N.of_nat vars < 2 ^ 32)%N /\ u32_hist rest
  | _ :: rest => u32_hist rest
  end.

Lemma ref_events_nat : forall evs m, mgr_ok m -> hist_valid m evs -> counting_hist m evs -> u32_hist evs ->
  Forall2 (fun r a => exists x, r = Some x /\ Inv x /\ val x = Some a)
          (ref_events nat_ops true m evs) (exact_events m evs).
Proof.
  induction evs as [|ev rest IH]; intros m Hm Hv Hc Hu; [constructor|].
  destruct Hv as [Hs Hr]. pose proof (mgr_ok_step m ev Hm Hs) as Hm'.
  destruct ev as [s'|s'|s'|cid vars e]; simpl in *; try (apply IH; assumption).
  destruct Hc as [Hk [Hl Hc]]. destruct Hu as [H32 Hu]. destruct Hm as [H Hb].
  constructor; [|apply IH; [split|..]; assumption].
  destruct (sat_ref_nat (m_snap m) vars e H Hk Hl H32 Hs) as [x [E [I V]]]. exists x. auto.
Qed.

(** every count served through any kept cache, over any history, is a
    well-formed [Natural] holding exactly the number of satisfying assignments *)
Theorem cache_history_nat : forall alls evs m, mgr_ok m -> hist_valid m evs -> counting_hist m evs -> u32_hist evs ->
  exists vs cs', run_events nat_ops alls m (PositiveMap.empty _) evs = Some (vs, final_mgr m evs, cs') /\
    Forall2 (fun x a => Inv x /\ val x = Some a) vs (exact_events m evs).
Proof.
  intros alls evs m Hm Hv Hc Hu.
  destruct (cache_history_correct nat_ops alls evs m Hm Hv) as [vs [cs' [Er Ef]]].
  exists vs, cs'. split; [exact Er|].
  pose proof (ref_events_nat evs m Hm Hv Hc Hu) as Hf. rewrite <- Ef in Hf. clear - Hf.
  revert Hf. generalize (exact_events m evs). induction vs as [|v vs IH]; intros l Hf; inversion Hf; subst; constructor.
  - destruct H1 as [x [E [I V]]]. inversion E; subst x. split; assumption.
  - apply IH. assumption.
Qed.

(** non-vacuity: the example history of DD/SatCache.v over [Natural] *)
Example ex_reuse_nat :
  u32_hist ex_reuse_events /\
  match run_events nat_ops (fun _ => true) ex_mgr0 (PositiveMap.empty _) ex_reuse_events with
  | Some (vs, _, _) => map val vs = [Some 5%N; Some 2%N]
  | None => False
  end.
Proof. split; [simpl; repeat split; vm_compute; reflexivity | vm_compute; reflexivity]. Qed.
