(** * [SatCountCache] across calls: validity of reused caches (DD/SatCount.v, [sat_query], [run_queries])

    One cache object is handed to a sequence of [sat_count] calls on the same
    manager.  Between two calls the manager may have been changed arbitrarily:
    nodes added, handles dropped, garbage collected, reordered, variables
    added.  [clear_if_invalid] keeps the map only if the call has the same
    [(gc_count, vars)] as the previous one.  The theorems: for every number
    type, every call of every such history returns exactly what the same call
    returns on a fresh cache without caching ([sat_ref]), provided that
    between two consecutive calls with the same [gc_count] the node table was
    only extended (no collection and no reordering: these increase
    [gc_count]).  For exact arithmetic the returned value is therefore the
    number of satisfying assignments (DD/SatCountProofs.v). *)

From Coq Require Import List NArith PArith Bool Arith Lia FMapPositive.
From OxiVerif Require Import DD.Table DD.TableExtra DD.TableProofs DD.SatCount DD.SatCountProofs.
Import ListNotations.

Section Query.
Context {A : Type}.
Variable o : numops A.

(** the recursion scheme, the tag of the root edge and the final rescaling of
    [sat_count_edge] for the three kinds *)
Definition scheme_of (k : kind) (vars : nat) : scheme A :=
  match k with
  | KBcdd => bcdd_scheme o (terminal_val o (scaled_bcdd o vars) vars)
  | KZbdd => zbdd_scheme o
  | _ => bdd_scheme o (terminal_val o (scaled_bdd o vars) vars)
  end.

Definition start_tag (k : kind) (e : edge) : bool :=
  match k with KBcdd => etag e | _ => false end.

Definition finish (s : snap) (vars : nat) (v : A) : A :=
  match s_kind s with
  | KBcdd => rescale o (scaled_bcdd o vars) v
  | KZbdd => zbdd_shift o s vars v
  | _ => rescale o (scaled_bdd o vars) v
  end.

Lemma sat_query_unfold : forall c epoch s vars e,
  sat_query o c epoch s vars e =
  let c' := clear_if_invalid c epoch vars in
  match walkc (scheme_of (s_kind s) vars) s (S (nlevels s)) (c_all c') (eref e)
              (start_tag (s_kind s) e) (c_map c') with
  | Some (r, m) => Some (finish s vars r, set_map c' m)
  | None => None
  end.
Proof.
  intros c epoch s vars e. unfold sat_query, finish, scheme_of, start_tag,
    sat_count_bdd, sat_count_bcdd, sat_count_zbdd. cbv zeta.
  destruct (s_kind s);
    match goal with |- context [walkc ?a ?b ?c ?d ?e ?f ?g] => destruct (walkc a b c d e f g) as [[r m]|] end;
    reflexivity.
Qed.

Lemma sat_ref_unfold : forall s vars e,
  sat_ref o s vars e =
  option_map (finish s vars)
    (walk (scheme_of (s_kind s) vars) s (S (nlevels s)) (eref e) (start_tag (s_kind s) e)).
Proof.
  intros s vars e. unfold sat_ref, finish, scheme_of, start_tag. destruct (s_kind s); reflexivity.
Qed.

(** the side conditions of the generic cache theorem hold for the three schemes *)
Lemma scheme_key_inj : forall k vars t t' id id',
  sc_tagok (scheme_of k vars) t = true -> sc_tagok (scheme_of k vars) t' = true ->
  sc_key (scheme_of k vars) t id = sc_key (scheme_of k vars) t' id' -> id = id' /\ t = t'.
Proof.
  intros k vars t t' id id'. destruct k; simpl; intros H1 H2 E;
    try (destruct t, t'; try discriminate; split; [exact E | reflexivity]).
  destruct t, t'; try discriminate; inversion E; split; reflexivity.
Qed.

Lemma scheme_tag_closed : forall k vars t ct,
  sc_tagok (scheme_of k vars) t = true -> sc_tagok (scheme_of k vars) (sc_tag (scheme_of k vars) t ct) = true.
Proof. intros k vars t ct. destruct k; simpl; intros; reflexivity. Qed.

Lemma scheme_start_tagok : forall k vars e, sc_tagok (scheme_of k vars) (start_tag k e) = true.
Proof. intros k vars e. destruct k; reflexivity. Qed.

Lemma scheme_term_total : forall k vars s t tag, (exists v, term_val s t = Some v) ->
  exists a, sc_term (scheme_of k vars) s t tag = Some a.
Proof.
  intros k vars s t tag [v Ev]. destruct k; simpl; try rewrite Ev; eauto.
Qed.

Lemma scheme_term_same : forall k vars s s', same_table s s' ->
  forall t tag, sc_term (scheme_of k vars) s' t tag = sc_term (scheme_of k vars) s t tag.
Proof.
  intros k vars s s' X t tag. destruct k; simpl; try rewrite (st_terms s s' X); reflexivity.
Qed.

(** the reference value exists for every well-formed binary diagram *)
Lemma sat_ref_total : forall s vars e, WF s -> binary (s_kind s) -> ref_ok s (eref e) ->
  exists v, sat_ref o s vars e = Some v.
Proof.
  intros s vars e H Hb Hok. rewrite sat_ref_unfold.
  destruct (walk_total (scheme_of (s_kind s) vars) s H Hb
              (scheme_term_total (s_kind s) vars s) (S (nlevels s)) (eref e)
              (start_tag (s_kind s) e) Hok ltac:(lia)) as [a Ea].
  rewrite Ea. simpl. eauto.
Qed.

(** ** One call *)

(** the content of a cache is valid for the table [s]: every entry is the
    value the uncached recursion computes in [s] under the stored [vars] *)
Definition cache_valid (c : scache) (s : snap) : Prop :=
  cache_ok (scheme_of (s_kind s) (c_vars c)) s (c_map c).

Lemma cache_valid_default : forall s, cache_valid (@cache_default A) s.
Proof. intros s. unfold cache_valid. simpl. apply cache_ok_empty. Qed.

(** [clear_if_invalid]: the map is kept only under the same [(epoch, vars)] *)
Lemma clear_if_invalid_spec : forall (c : scache) epoch vars,
  let c' := clear_if_invalid c epoch vars in
  c_epoch c' = epoch /\ c_vars c' = vars /\ c_all c' = c_all c /\
  ((c_epoch c = epoch /\ c_vars c = vars /\ c' = c) \/
   ((c_epoch c <> epoch \/ c_vars c <> vars) /\ c_map c' = PositiveMap.empty A)).
Proof.
  intros c epoch vars. unfold clear_if_invalid.
  destruct (N.eqb_spec epoch (c_epoch c)) as [Ee|Ee]; destruct (Nat.eqb_spec vars (c_vars c)) as [Ev|Ev]; simpl;
    (split; [auto|]); (split; [auto|]); (split; [auto|]).
  - left. repeat split; auto.
  - right. split; [right; congruence | reflexivity].
  - right. split; [left; congruence | reflexivity].
  - right. split; [left; congruence | reflexivity].
Qed.

(** a call on a cache that is valid for the current table -- or that is
    cleared by the call -- returns the reference value and leaves a cache that
    is valid for the current table under the call's [(epoch, vars)] *)
Theorem sat_query_sound : forall c epoch s vars e v,
  WF s -> binary (s_kind s) -> ref_ok s (eref e) ->
  (c_epoch c = epoch -> c_vars c = vars -> cache_valid c s) ->
  sat_ref o s vars e = Some v ->
  exists c', sat_query o c epoch s vars e = Some (v, c') /\
    c_epoch c' = epoch /\ c_vars c' = vars /\ c_all c' = c_all c /\ cache_valid c' s.
Proof.
  intros c epoch s vars e v H Hb Hok Hc Hr.
  rewrite sat_query_unfold. cbv zeta. rewrite sat_ref_unfold in Hr.
  destruct (clear_if_invalid_spec c epoch vars) as [E1 [E2 [E3 E4]]]. cbv zeta in *.
  set (c1 := clear_if_invalid c epoch vars) in *.
  assert (Hc1 : cache_ok (scheme_of (s_kind s) vars) s (c_map c1)).
  { destruct E4 as [[Ee [Ev Ec]]|[_ Em]].
    - rewrite Ec. specialize (Hc Ee Ev). unfold cache_valid in Hc. rewrite Ev in Hc. exact Hc.
    - rewrite Em. apply cache_ok_empty. }
  destruct (walk (scheme_of (s_kind s) vars) s (S (nlevels s)) (eref e) (start_tag (s_kind s) e)) as [r|] eqn:Ew;
    [|discriminate].
  simpl in Hr. inversion Hr; subst v.
  destruct (walkc_sound (scheme_of (s_kind s) vars) s H (scheme_key_inj (s_kind s) vars)
              (scheme_tag_closed (s_kind s) vars) (S (nlevels s)) (c_all c1) (eref e)
              (start_tag (s_kind s) e) (c_map c1) r Hok (scheme_start_tagok _ _ _) Hc1 Ew) as [m' [Wc Cm]].
  rewrite Wc. eexists. split; [reflexivity|]. simpl. repeat split; auto.
  unfold cache_valid. simpl. rewrite E2. exact Cm.
Qed.

(** a valid cache stays valid while the table is only extended *)
Lemma cache_valid_extend : forall c s s', WF s -> WF s' -> same_table s s' ->
  cache_valid c s -> cache_valid c s'.
Proof.
  intros c s s' H H' X Hc. unfold cache_valid in *. rewrite (st_kind s s' X).
  apply (cache_ok_same_table _ s s' (c_map c) H H' X); [|exact Hc].
  apply scheme_term_same. exact X.
Qed.

(** ** Histories *)

(** a call is well-formed *)
Definition qok (q : query) : Prop :=
  WF (q_snap q) /\ binary (s_kind (q_snap q)) /\ ref_ok (q_snap q) (eref (q_edge q)).

(** The epoch discipline of the manager: [prev] is the previous call.  If the
    next call sees the same [gc_count] then neither a collection nor a
    reordering happened in between, so the previous node table is contained
    in the current one (nodes are only added; ids are not recycled).
    Everything else may have changed arbitrarily. *)
Fixpoint hist_ok (prev : query) (qs : list query) : Prop :=
  match qs with
  | [] => True
  | q :: rest =>
    qok q /\
    (q_epoch q = q_epoch prev -> same_table (q_snap prev) (q_snap q)) /\
    hist_ok q rest
  end.

Definition refs_of (qs : list query) (vs : list A) : Prop :=
  Forall2 (fun q v => sat_ref o (q_snap q) (q_vars q) (q_edge q) = Some v) qs vs.

(** the state of the cache object before a call: it was left by the call
    [prev] (and is valid for that call's table), or it is valid for every
    table (the empty map of [SatCountCache::default()]) *)
Definition cache_state (c : scache) (prev : query) : Prop :=
  (c_epoch c = q_epoch prev /\ cache_valid c (q_snap prev)) \/ (forall s, cache_valid c s).

Lemma run_queries_from : forall qs prev c,
  WF (q_snap prev) -> cache_state c prev -> hist_ok prev qs ->
  exists vs c', run_queries o c qs = Some (vs, c') /\ refs_of qs vs.
Proof.
  induction qs as [|q rest IH]; intros prev c Hp Hc Hh.
  - exists [], c. split; [reflexivity | constructor].
  - destruct Hh as [[Hw [Hb Hok]] [Hsame Hrest]].
    destruct (sat_ref_total (q_snap q) (q_vars q) (q_edge q) Hw Hb Hok) as [v Ev].
    assert (Hcq : c_epoch c = q_epoch q -> c_vars c = q_vars q -> cache_valid c (q_snap q)).
    { intros Ee _. destruct Hc as [[Ep Hv]|Hall]; [|apply Hall].
      apply (cache_valid_extend c (q_snap prev) (q_snap q) Hp Hw); [|exact Hv].
      apply Hsame. congruence. }
    destruct (sat_query_sound c (q_epoch q) (q_snap q) (q_vars q) (q_edge q) v Hw Hb Hok Hcq Ev)
      as [c1 [Eq [Ee1 [Ev1 [_ Hv1]]]]].
    destruct (IH q c1 Hw (or_introl (conj Ee1 Hv1)) Hrest) as [vs [c2 [Er Hf]]].
    exists (v :: vs), c2. simpl. rewrite Eq, Er. split; [reflexivity|]. constructor; assumption.
Qed.

(** Reused caches are transparent: a sequence of calls sharing one cache
    object that starts with [SatCountCache::default()] returns, call by call,
    the values of the uncached computation on a fresh cache. *)
Theorem run_queries_correct : forall q qs,
  qok q -> hist_ok q qs ->
  exists vs c', run_queries o (@cache_default A) (q :: qs) = Some (vs, c') /\ refs_of (q :: qs) vs.
Proof.
  intros q qs Hq Hh. apply (run_queries_from (q :: qs) q (@cache_default A)).
  - apply Hq.
  - right. apply cache_valid_default.
  - simpl. split; [exact Hq|]. split; [|exact Hh]. intros _. apply same_table_refl.
Qed.

(** an entry is used only under the [(gc_count, vars)] it was stored under:
    a call with another epoch or another [vars] starts from the empty map *)
Theorem sat_query_clears : forall (c : scache) epoch s vars e,
  c_epoch c <> epoch \/ c_vars c <> vars ->
  sat_query o c epoch s vars e =
  sat_query o (mkCache epoch vars (PositiveMap.empty A) (c_all c)) epoch s vars e.
Proof.
  intros c epoch s vars e Hd. unfold sat_query.
  assert (E : clear_if_invalid c epoch vars =
              clear_if_invalid (mkCache epoch vars (PositiveMap.empty A) (c_all c)) epoch vars).
  { unfold clear_if_invalid. simpl. rewrite N.eqb_refl, Nat.eqb_refl. simpl.
    destruct (N.eqb_spec epoch (c_epoch c)) as [Ee|Ee]; destruct (Nat.eqb_spec vars (c_vars c)) as [Ev|Ev];
      simpl; try reflexivity.
    exfalso. destruct Hd; congruence. }
  rewrite E. reflexivity.
Qed.

End Query.

(** ** Exact arithmetic: every call of a history returns the model count *)

Arguments N.mul : simpl never.
Arguments N.pow : simpl never.
Arguments N.div : simpl never.

(** the number of satisfying assignments over [vars] variables of the function
    of the edge [e] ([vars - nlevels] variables do not occur in the diagram) *)
Definition exact_count (s : snap) (vars : nat) (e : edge) : N :=
  (2 ^ N.of_nat (vars - nlevels s) *
   count_levels (nlevels s)
     (match s_kind s with
      | KBcdd => fun_bcdd s e
      | KZbdd => fun_zbdd s (eref e)
      | _ => fun_bdd s (eref e)
      end))%N.

Definition counting_kind (k : kind) : Prop := k = KBdd \/ k = KBcdd \/ k = KZbdd.

Lemma terminal_val_exact : forall sc vars,
  terminal_val exact_ops sc vars = (2 ^ N.of_nat vars)%N.
Proof.
  intros sc vars. unfold terminal_val. simpl. rewrite Nat.sub_0_r. destruct sc; apply N.mul_1_l.
Qed.

Theorem sat_ref_exact : forall s vars e, WF s -> counting_kind (s_kind s) -> nlevels s <= vars ->
  ref_ok s (eref e) ->
  sat_ref exact_ops s vars e = Some (exact_count s vars e).
Proof.
  intros s vars e H Hk Hv Hok. unfold sat_ref, exact_count.
  destruct Hk as [Hk|[Hk|Hk]]; rewrite Hk.
  - rewrite terminal_val_exact. fold (sat_bdd s (S (nlevels s)) vars (eref e)).
    rewrite (sat_bdd_correct s vars (eref e) H Hk Hv Hok). reflexivity.
  - rewrite terminal_val_exact. fold (sat_bcdd s (S (nlevels s)) vars e).
    rewrite (sat_bcdd_correct s vars e H Hk Hv Hok). simpl option_map. f_equal.
    unfold rescale, scaled_bcdd. simpl. change (2 ^ 0)%N with 1%N. apply N.mul_1_r.
  - fold (paths_zbdd s (S (nlevels s)) (eref e)). fold (sat_zbdd s (S (nlevels s)) vars (eref e)).
    apply (sat_zbdd_correct s vars (eref e) H Hk Hv Hok).
Qed.

(** a history of counting calls with [vars >= number of levels] *)
Fixpoint counting (qs : list query) : Prop :=
  match qs with
  | [] => True
  | q :: rest => counting_kind (s_kind (q_snap q)) /\ nlevels (q_snap q) <= q_vars q /\ counting rest
  end.

(** Model counting with a reused cache is exact: whatever happened to the
    manager between the calls (under the epoch discipline [hist_ok]), each call
    returns the number of satisfying assignments of its handle over its
    variable count. *)
Theorem run_queries_exact : forall q qs,
  qok q -> hist_ok q qs -> counting (q :: qs) ->
  exists c', run_queries exact_ops (@cache_default N) (q :: qs) =
             Some (map (fun q => exact_count (q_snap q) (q_vars q) (q_edge q)) (q :: qs), c').
Proof.
  intros q qs Hq Hh Hc.
  destruct (run_queries_correct exact_ops q qs Hq Hh) as [vs [c' [Er Hf]]].
  exists c'. rewrite Er. f_equal. f_equal.
  assert (Hall : Forall qok (q :: qs)).
  { constructor; [exact Hq|]. clear - Hh. revert q Hh. induction qs as [|x r IH]; intros q Hh; [constructor|].
    destruct Hh as [Hx [_ Hr]]. constructor; [exact Hx | apply (IH x Hr)]. }
  clear - Hf Hc Hall. revert Hc Hall. induction Hf as [|x v l l' Hxv _ IH]; intros Hc Hall; [reflexivity|].
  destruct Hc as [Hk [Hv Hc]]. inversion Hall as [|? ? [Hw [_ Hok]] Hall']; subst.
  simpl map. rewrite (sat_ref_exact (q_snap x) (q_vars x) (q_edge x) Hw Hk Hv Hok) in Hxv.
  inversion Hxv; subst v. f_equal. apply IH; assumption.
Qed.

(** *** Non-vacuity: a history on the example diagram with a reused cache *)

(** [sat_count(3)], [sat_count(3)] again (cache hit on the shared node 2),
    [sat_count(4)] (other [vars]: cleared), then after a collection (epoch 1)
    [sat_count(4)] on the sub-function x2 *)
Definition ex_history : list query :=
  [ mkQuery 0%N ex_sat_bdd 3 (xe (RN 4));
    mkQuery 0%N ex_sat_bdd 3 (xe (RN 3));
    mkQuery 0%N ex_sat_bdd 4 (xe (RN 4));
    mkQuery 1%N ex_sat_bdd 4 (xe (RN 2)) ].

Example ex_history_ok :
  match ex_history with
  | q :: qs => qok q /\ hist_ok q qs /\ counting (q :: qs)
  | [] => False
  end.
Proof.
  assert (W : WF ex_sat_bdd) by (apply wf_b_spec; exact ex_sat_bdd_wf).
  assert (B : binary (s_kind ex_sat_bdd)) by (simpl; discriminate).
  assert (K : counting_kind (s_kind ex_sat_bdd)) by (left; reflexivity).
  assert (R : forall id, In id [2%positive; 3%positive; 4%positive] -> ref_ok ex_sat_bdd (RN id)).
  { intros id [<-|[<-|[<-|[]]]]; simpl; eexists; reflexivity. }
  assert (Q : forall ep vars id, In id [2%positive; 3%positive; 4%positive] ->
            qok (mkQuery ep ex_sat_bdd vars (xe (RN id)))).
  { intros ep vars id Hi. split; [exact W|]. split; [exact B|]. apply R. exact Hi. }
  assert (L : nlevels ex_sat_bdd = 3) by reflexivity.
  unfold ex_history. split; [apply Q; simpl; auto|]. split.
  - simpl. split; [apply Q; simpl; auto|]. split; [intros _; apply same_table_refl|].
    split; [apply Q; simpl; auto|]. split; [intros _; apply same_table_refl|].
    split; [apply Q; simpl; auto|]. split; [intros _; apply same_table_refl|]. exact I.
  - simpl. rewrite L. repeat (split; [exact K|]; split; [lia|]). exact I.
Qed.

Example ex_history_run :
  match run_queries exact_ops (@cache_default N) ex_history with
  | Some (vs, c) => vs = [5; 6; 10; 8]%N /\ c_epoch c = 1%N /\ c_vars c = 4
  | None => False
  end.
Proof. vm_compute. repeat split; reflexivity. Qed.
