(** * [sat_count(vars)] with fewer variables than levels

    What the code does when [vars < manager.num_levels()]
    (oxidd-rules-bdd simple/ and complement_edge/apply_rec.rs: nothing special,
    the terminal value is [2^vars] and every node halves; oxidd-rules-zbdd:
    [count >> (levels - vars)]) is part of the model DD/SatCount.v.  The
    theorems of DD/SatCountProofs.v assume [nlevels <= vars].  Here, for EVERY
    [vars]:

    - BDD / BCDD: if no path below the edge visits more than [vars] inner nodes
      ([height <= vars]; in a reduced diagram a path tests distinct variables of
      the function's support, so this holds whenever the function depends on at
      most [vars] variables), every halving is exact and the result [v]
      satisfies [v * 2^levels = 2^vars * #models over the levels]: the number
      of satisfying assignments over any [vars] variables that contain the
      support.  For [nlevels <= vars] the hypothesis always holds and the
      statement is [sat_bdd_correct].
    - ZBDD: the result is [#models / 2^(levels - vars)], exact iff that power
      of two divides the number of models (i.e. the function does not depend
      on [levels - vars] of the variables).

    Beyond these conditions the number "of satisfying assignments over [vars]
    variables" is not defined; the code then truncates ([Saturating]), yields
    the error value ([Natural]: inexact right shift) or a fraction ([F64]) --
    the model does the same, compared by the correspondence run only. *)
From Coq Require Import List NArith PArith Bool Arith Lia FMapPositive.
From OxiVerif Require Import DD.Table DD.TableExtra DD.TableProofs DD.SatCount DD.SatCountProofs DD.SatQueryProofs.
From OxiVerif Require Import DD.SatCache.
Import ListNotations.

Arguments N.add : simpl never.
Arguments N.sub : simpl never.
Arguments N.mul : simpl never.
Arguments N.div : simpl never.
Arguments N.modulo : simpl never.
Arguments N.pow : simpl never.

Lemma height_T : forall s f t, height s f (RT t) = 0.
Proof. destruct f; reflexivity. Qed.

Lemma height_node : forall s f id nd e0 e1, find_node s id = Some nd -> nchildren nd = [e0; e1] ->
  height s (S f) (RN id) = S (Nat.max (height s f (eref e0)) (height s f (eref e1))).
Proof. intros s f id nd e0 e1 E Hc. simpl. rewrite E, Hc. simpl. rewrite Nat.max_0_r. reflexivity. Qed.

(** a path visits at most one node per level *)
Lemma height_le_levels : forall s, WF s -> binary (s_kind s) -> forall f r, ref_ok s r ->
  height s f r <= nlevels s - rlevel s r.
Proof.
  intros s H Hb. induction f as [|f IH]; intros r Hok.
  - destruct r; simpl; lia.
  - destruct r as [t|id]; [simpl; lia|]. destruct Hok as [nd E].
    destruct (two_children s id nd H Hb E) as [e0 [e1 Hc]].
    rewrite (height_node s f id nd e0 e1 E Hc), (rlevel_node s id nd E).
    assert (I0 : In e0 (nchildren nd)) by (rewrite Hc; simpl; auto).
    assert (I1 : In e1 (nchildren nd)) by (rewrite Hc; simpl; auto).
    destruct (wf_child s H id nd e0 E I0) as [O0 L0]. destruct (wf_child s H id nd e1 E I1) as [O1 L1].
    pose proof (IH _ O0). pose proof (IH _ O1). pose proof (wf_level s H id nd E). lia.
Qed.

Local Open Scope N_scope.

Lemma pow2_split : forall a b : nat, (b <= a)%nat -> 2 ^ N.of_nat a = 2 ^ N.of_nat (a - b) * 2 ^ N.of_nat b.
Proof. intros a b Hab. rewrite <- N.pow_add_r. f_equal. lia. Qed.

(** * The halving recursion, generically *)
Section Small.
Variable sch : scheme N.
Variable s : snap.
Hypothesis H : WF s.
Hypothesis Hb : binary (s_kind s).
Variable vars : nat.
Variable C : ref -> bool -> N.                (* the number of models over the levels *)
Let n := nlevels s.

Hypothesis Hcomb : forall a b, sc_comb sch a b = (a + b) / 2.
Hypothesis Hterm : forall t tag, ref_ok s (RT t) ->
  exists v, sc_term sch s t tag = Some v /\ v * 2 ^ N.of_nat n = 2 ^ N.of_nat vars * C (RT t) tag /\
            exists q, v = q * 2 ^ N.of_nat vars.
Hypothesis Hnode : forall id nd e0 e1 tag, find_node s id = Some nd -> nchildren nd = [e0; e1] ->
  C (eref e0) (sc_tag sch tag (etag e0)) + C (eref e1) (sc_tag sch tag (etag e1)) = 2 * C (RN id) tag.

Lemma walk_small : forall f r tag, ref_ok s r -> (n - rlevel s r < f)%nat -> (height s f r <= vars)%nat ->
  exists v, walk sch s f r tag = Some v /\
    v * 2 ^ N.of_nat n = 2 ^ N.of_nat vars * C r tag /\
    exists q, v = q * 2 ^ N.of_nat (vars - height s f r).
Proof.
  induction f as [|f IH]; intros r tag Hok Hf Hh; [lia|].
  destruct r as [t|id].
  - rewrite walk_T, height_T, Nat.sub_0_r. apply Hterm. exact Hok.
  - destruct Hok as [nd E]. rewrite (rlevel_node s id nd E) in Hf.
    destruct (two_children s id nd H Hb E) as [e0 [e1 Hc]].
    assert (I0 : In e0 (nchildren nd)) by (rewrite Hc; simpl; auto).
    assert (I1 : In e1 (nchildren nd)) by (rewrite Hc; simpl; auto).
    destruct (wf_child s H id nd e0 E I0) as [O0 L0]. destruct (wf_child s H id nd e1 E I1) as [O1 L1].
    pose proof (rlevel_le s H (eref e0)) as B0. pose proof (rlevel_le s H (eref e1)) as B1. fold n in B0, B1.
    rewrite (height_node s f id nd e0 e1 E Hc) in *.
    set (h0 := height s f (eref e0)) in *. set (h1 := height s f (eref e1)) in *.
    destruct (IH (eref e0) (sc_tag sch tag (etag e0)) O0 ltac:(lia) ltac:(fold h0; lia)) as [v0 [W0 [T0 [q0 Q0]]]].
    destruct (IH (eref e1) (sc_tag sch tag (etag e1)) O1 ltac:(lia) ltac:(fold h1; lia)) as [v1 [W1 [T1 [q1 Q1]]]].
    fold h0 in Q0. fold h1 in Q1.
    set (h := S (Nat.max h0 h1)) in *.
    (* both children's values are multiples of 2 * 2^(vars - h) *)
    set (P := 2 ^ N.of_nat (vars - h)).
    assert (E0 : v0 = (q0 * 2 ^ N.of_nat (vars - h0 - (vars - h + 1))) * 2 * P).
    { rewrite Q0. rewrite (pow2_split (vars - h0) (vars - h + 1)) by (unfold h; lia).
      replace (vars - h + 1)%nat with (S (vars - h)) by lia. rewrite Nat2N.inj_succ, N.pow_succ_r'. unfold P. lia. }
    assert (E1 : v1 = (q1 * 2 ^ N.of_nat (vars - h1 - (vars - h + 1))) * 2 * P).
    { rewrite Q1. rewrite (pow2_split (vars - h1) (vars - h + 1)) by (unfold h; lia).
      replace (vars - h + 1)%nat with (S (vars - h)) by lia. rewrite Nat2N.inj_succ, N.pow_succ_r'. unfold P. lia. }
    set (k0 := q0 * 2 ^ N.of_nat (vars - h0 - (vars - h + 1))) in *.
    set (k1 := q1 * 2 ^ N.of_nat (vars - h1 - (vars - h + 1))) in *.
    assert (Hsum : v0 + v1 = ((k0 + k1) * P) * 2) by (rewrite E0, E1; lia).
    exists ((k0 + k1) * P).
    rewrite (walk_node sch s f id tag nd e0 e1 E Hc), W0, W1, Hcomb, Hsum, N.div_mul by discriminate.
    split; [reflexivity|]. split; [|exists (k0 + k1); reflexivity].
    pose proof (Hnode id nd e0 e1 tag E Hc) as Hn.
    assert (X : ((k0 + k1) * P) * 2 * 2 ^ N.of_nat n = 2 * (2 ^ N.of_nat vars * C (RN id) tag)).
    { rewrite <- Hsum, N.mul_add_distr_r, T0, T1, <- N.mul_add_distr_l, Hn. lia. }
    lia.
Qed.

End Small.

(** * BDD *)
Theorem sat_bdd_small_vars : forall s vars r, WF s -> s_kind s = KBdd -> ref_ok s r ->
  (height_of s r <= vars)%nat ->
  exists v, sat_bdd s (S (nlevels s)) vars r = Some v /\
    v * 2 ^ N.of_nat (nlevels s) = 2 ^ N.of_nat vars * count_levels (nlevels s) (fun_bdd s r).
Proof.
  intros s vars r H Hk Hok Hh.
  assert (Hb : binary (s_kind s)) by (unfold binary; rewrite Hk; discriminate).
  destruct (walk_small (bdd_scheme exact_ops (2 ^ N.of_nat vars)) s H Hb vars
              (fun r _ => count_levels (nlevels s) (fun_bdd s r))) with (f := S (nlevels s)) (r := r) (tag := false)
    as [v [W [T _]]]; try assumption; try lia.
  - intros a b. reflexivity.
  - intros t tag [v Ev]. simpl. rewrite Ev. eexists. split; [reflexivity|].
    unfold count_levels.
    rewrite (cnt_ext (nlevels s) 0 (fun_bdd s (RT t)) (fun _ => N.eqb v 1)).
    2:{ intros a. unfold fun_bdd. rewrite semk_T, Ev. reflexivity. }
    rewrite cnt_const. destruct (N.eqb v 1).
    + split; [lia | exists 1; lia].
    + split; [simpl; lia | exists 0; simpl; lia].
  - intros id nd e0 e1 tag E Hc. apply (total_node s H (nlevels s) (le_n _) id nd e0 e1 E Hc).
  - exists v. split; [exact W | exact T].
Qed.

(** * BCDD *)
Theorem sat_bcdd_small_vars : forall s vars e, WF s -> s_kind s = KBcdd -> ref_ok s (eref e) ->
  (height_of s (eref e) <= vars)%nat ->
  exists v, sat_bcdd s (S (nlevels s)) vars e = Some v /\
    v * 2 ^ N.of_nat (nlevels s) = 2 ^ N.of_nat vars * count_levels (nlevels s) (fun_bcdd s e).
Proof.
  intros s vars e H Hk Hok Hh.
  assert (Hb : binary (s_kind s)) by (unfold binary; rewrite Hk; discriminate).
  destruct (walk_small (bcdd_scheme exact_ops (2 ^ N.of_nat vars)) s H Hb vars
              (fun r tag => count_levels (nlevels s) (Fc s r tag))) with (f := S (nlevels s)) (r := eref e) (tag := etag e)
    as [v [W [T _]]]; try assumption; try lia.
  - intros a b. reflexivity.
  - intros t tag [v Ev]. simpl. eexists. split; [reflexivity|].
    unfold count_levels.
    rewrite (cnt_ext (nlevels s) 0 (Fc s (RT t) tag) (fun _ => negb tag)).
    2:{ intros a. unfold Fc, fun_bcdd. simpl. reflexivity. }
    rewrite cnt_const. destruct tag; simpl negb.
    + split; [simpl; lia | exists 0; simpl; lia].
    + split; [lia | exists 1; lia].
  - intros id nd e0 e1 tag E Hc. apply (total_node_c s H (nlevels s) (le_n _) id tag nd e0 e1 E Hc).
  - exists v. split; [exact W|]. rewrite T. unfold Fc. rewrite edge_eta. reflexivity.
Qed.

(** * ZBDD: [count >> (levels - vars)] *)
Theorem sat_zbdd_small_vars : forall s vars r, WF s -> s_kind s = KZbdd -> ref_ok s r ->
  (vars < nlevels s)%nat ->
  sat_zbdd s (S (nlevels s)) vars r =
  Some (count_levels (nlevels s) (fun_zbdd s r) / 2 ^ N.of_nat (nlevels s - vars)).
Proof.
  intros s vars r H Hk Hok Hv. unfold sat_zbdd. rewrite (paths_zbdd_correct s r H Hk Hok).
  simpl option_map. unfold zbdd_shift.
  destruct (Nat.leb_spec (nlevels s) vars) as [X|_]; [lia|]. reflexivity.
Qed.

(** ... which is exact iff the power of two divides the number of models *)
Corollary sat_zbdd_small_vars_exact : forall s vars r v, WF s -> s_kind s = KZbdd -> ref_ok s r ->
  (vars < nlevels s)%nat ->
  sat_zbdd s (S (nlevels s)) vars r = Some v ->
  (v * 2 ^ N.of_nat (nlevels s - vars) = count_levels (nlevels s) (fun_zbdd s r) <->
   count_levels (nlevels s) (fun_zbdd s r) mod 2 ^ N.of_nat (nlevels s - vars) = 0).
Proof.
  intros s vars r v H Hk Hok Hv E. rewrite (sat_zbdd_small_vars s vars r H Hk Hok Hv) in E.
  injection E as E. subst v. set (c := count_levels (nlevels s) (fun_zbdd s r)). set (p := 2 ^ N.of_nat (nlevels s - vars)).
  assert (Hp : p <> 0) by (apply N.pow_nonzero; discriminate).
  pose proof (N.div_mod c p Hp) as Hd. pose proof (N.mod_lt c p Hp). split; intros X; lia.
Qed.

(** * The query level: [sat_ref] in exact arithmetic for every [vars] *)
Theorem sat_ref_small_vars : forall s vars e, WF s -> s_kind s = KBdd \/ s_kind s = KBcdd ->
  ref_ok s (eref e) -> (height_of s (eref e) <= vars)%nat ->
  exists v, sat_ref exact_ops s vars e = Some v /\
    v * 2 ^ N.of_nat (nlevels s) =
    2 ^ N.of_nat vars * count_levels (nlevels s) (match s_kind s with KBcdd => fun_bcdd s e | _ => fun_bdd s (eref e) end).
Proof.
  intros s vars e H [Hk|Hk] Hok Hh; unfold sat_ref; rewrite Hk, terminal_val_exact.
  - destruct (sat_bdd_small_vars s vars (eref e) H Hk Hok Hh) as [v [W T]]. unfold sat_bdd in W.
    exists v. rewrite W. split; [reflexivity | exact T].
  - destruct (sat_bcdd_small_vars s vars e H Hk Hok Hh) as [v [W T]]. unfold sat_bcdd in W.
    exists v. rewrite W. simpl option_map. split; [|exact T].
    f_equal. unfold rescale, scaled_bcdd. simpl. change (2 ^ 0) with 1. lia.
Qed.

(** for [vars] below the number of levels: the count over the levels divided
    by [2^(levels - vars)], without remainder *)
Corollary sat_ref_small_vars_quotient : forall s vars e v, WF s -> s_kind s = KBdd \/ s_kind s = KBcdd ->
  ref_ok s (eref e) -> (height_of s (eref e) <= vars)%nat -> (vars <= nlevels s)%nat ->
  sat_ref exact_ops s vars e = Some v ->
  v * 2 ^ N.of_nat (nlevels s - vars) =
  count_levels (nlevels s) (match s_kind s with KBcdd => fun_bcdd s e | _ => fun_bdd s (eref e) end).
Proof.
  intros s vars e v H Hk Hok Hh Hv E.
  destruct (sat_ref_small_vars s vars e H Hk Hok Hh) as [v' [E' T]]. rewrite E in E'. injection E' as <-.
  rewrite (pow2_split (nlevels s) vars Hv) in T.
  assert (Hp : 2 ^ N.of_nat vars <> 0) by (apply N.pow_nonzero; discriminate).
  apply (N.mul_cancel_l _ _ _ Hp). lia.
Qed.

Local Close Scope N_scope.

(** non-vacuity: (x0 /\ x1) \/ x2 has height 3 on three levels; its sub-function
    x2 (node 2, height 1) counted over one and two variables; with [vars = 2]
    the root is outside the hypothesis and the halvings truncate (5/2 = 2.5) *)
Example ex_small_vars :
  height_of ex_sat_bdd (RN 4) = 3 /\ height_of ex_sat_bdd (RN 2) = 1 /\
  sat_ref exact_ops ex_sat_bdd 1 (xe (RN 2)) = Some 1%N /\
  sat_ref exact_ops ex_sat_bdd 2 (xe (RN 2)) = Some 2%N /\
  sat_ref exact_ops ex_sat_bdd 2 (xe (RN 4)) = Some 2%N /\
  sat_ref exact_ops ex_sat_zbdd 2 (xe (RN 6)) = Some 2%N.
Proof. vm_compute. repeat split; reflexivity. Qed.
