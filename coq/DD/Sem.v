(** * Spec layer: the mathematical objects the properties talk about

    Boolean functions over variable assignments, the propositional
    connectives, cofactors, quantifiers, restriction, simultaneous
    substitution, families of sets.  Everything here is a few lines long and
    is what the property texts mean; the algorithmic models are proved against
    these definitions, and the OCaml driver evaluates exactly these (extracted)
    definitions on what the implementation returned. *)

From Coq Require Import List Bool Arith NArith.
Import ListNotations.

Definition asg := nat -> bool.          (* variable |-> value *)
Definition bfun := asg -> bool.

Inductive bop := OAnd | OOr | OXor | OEquiv | ONand | ONor | OImp | OImpStrict.

Definition eval_bop (o : bop) (x y : bool) : bool :=
  match o with
  | OAnd => x && y
  | OOr => x || y
  | OXor => xorb x y
  | OEquiv => Bool.eqb x y
  | ONand => negb (x && y)
  | ONor => negb (x || y)
  | OImp => implb x y
  | OImpStrict => negb x && y
  end.

Definition lift1 (u : bool -> bool) (f : bfun) : bfun := fun a => u (f a).
Definition lift2 (o : bop) (f g : bfun) : bfun := fun a => eval_bop o (f a) (g a).
Definition ite_s (f g h : bfun) : bfun := fun a => if f a then g a else h a.
Definition const_s (b : bool) : bfun := fun _ => b.
Definition var_s (v : nat) : bfun := fun a => a v.

Definition upd (a : asg) (v : nat) (b : bool) : asg :=
  fun x => if Nat.eqb x v then b else a x.

(** cofactor of [f] w.r.t. [v := b] *)
Definition cof (f : bfun) (v : nat) (b : bool) : bfun := fun a => f (upd a v b).

(** iterated [q]-combination of the two cofactors, one variable after the other *)
Fixpoint quant (q : bool -> bool -> bool) (vs : list nat) (f : bfun) : bfun :=
  match vs with
  | [] => f
  | v :: r => let g := quant q r f in fun a => q (cof g v true a) (cof g v false a)
  end.

Definition exists_s := quant orb.
Definition forall_s := quant andb.
Definition unique_s := quant xorb.

(** cofactor w.r.t. a partial assignment (a cube of literals) *)
Fixpoint restrict_s (lits : list (nat * bool)) (f : bfun) : bfun :=
  match lits with
  | [] => f
  | (v, b) :: r => cof (restrict_s r f) v b
  end.

Fixpoint assoc_nat {A} (l : list (nat * A)) (k : nat) : option A :=
  match l with
  | [] => None
  | (a, b) :: r => if Nat.eqb a k then Some b else assoc_nat r k
  end.

(** simultaneous substitution: every listed variable is replaced by its
    function (evaluated under the *original* assignment), all others stay *)
Definition subst_s (sub : list (nat * bfun)) (f : bfun) : bfun :=
  fun a => f (fun v => match assoc_nat sub v with Some g => g a | None => a v end).

(** model counting over [n] variables: number of assignments of variables
    [0, n) satisfying [f] (variables >= n read as false) *)
Fixpoint count_s (n : nat) (f : bfun) : N :=
  match n with
  | O => if f (fun _ => false) then 1%N else 0%N
  | S k => N.add (count_s k (cof f k true)) (count_s k (cof f k false))
  end.

(** a cube (partial assignment, [None] = don't care) implies [f] when every
    total extension satisfies [f]; checked over variables [0, n) *)
Fixpoint cube_implies (n : nat) (cube : nat -> option bool) (f : bfun) : bool :=
  match n with
  | O => f (fun v => match cube v with Some b => b | None => false end)
  | S k =>
    match cube k with
    | Some _ => cube_implies k cube f
    | None =>
      cube_implies k (fun v => if Nat.eqb v k then Some true else cube v) f
      && cube_implies k (fun v => if Nat.eqb v k then Some false else cube v) f
    end
  end.
