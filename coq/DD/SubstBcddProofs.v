(** * Soundness of [csubstitute_prepare] / [csubstitute] / [csubstitute_edge]
      (complement-edge kind)

    As DD/SubstProofs.v, with edges: [cprepare_ok] (the level-indexed vector
    agrees with the substitution object, [SvOKC]), [csubstitute_ok] (the
    result denotes the simultaneous substitution [psubstC]; entries cached
    under, and served only for, the object's id), [csubstitute_edge_ok],
    [qcacheokc_register], [cfresh_id_no_entry]. *)

From Coq Require Import List NArith PArith Bool Arith Lia FMapPositive.
From OxiVerif Require Import DD.Table DD.TableProofs DD.Canon DD.CanonBcdd DD.Sem DD.Build DD.BuildProofs
  DD.Apply DD.ApplyProofs DD.ApplyBcdd DD.ApplyBcddProofs DD.ApplyBcddIte
  DD.Quant DD.QuantLemmas DD.QuantProofs DD.SubstProofs DD.QuantBcdd DD.QuantBcddLemmas.
Import ListNotations.

Lemma cs_psC : forall s sv pairs phi, SvOKC s sv pairs -> cext phi ->
  forall c, bchoice c -> csubstC s sv phi c = psubstC s pairs phi c.
Proof.
  intros s sv pairs phi [_ [_ E]] X c Hc. unfold csubstC, psubstC.
  apply X; [apply schC_bchoice; exact Hc | apply pschC_bchoice; exact Hc | apply E; exact Hc].
Qed.

(** ** [csubstitute_prepare] *)

Definition cslot_at (l : list (option edge)) (i : nat) : option edge :=
  match nth_error l i with Some (Some r) => Some r | _ => None end.

Lemma cslot_at_set : forall lvl acc r i,
  cslot_at (cset_slot acc lvl r) i = if Nat.eqb i lvl then Some r else cslot_at acc i.
Proof.
  induction lvl as [|k IH]; intros [|y rest] r [|j]; simpl; try reflexivity.
  - unfold cslot_at. simpl. destruct j; reflexivity.
  - unfold cslot_at at 1. simpl. fold (cslot_at (cset_slot [] k r) j). rewrite IH.
    unfold cslot_at. simpl. destruct j; reflexivity.
  - unfold cslot_at at 1. simpl. fold (cslot_at (cset_slot rest k r) j). rewrite IH. reflexivity.
Qed.

Lemma length_cset_slot : forall lvl acc r, length (cset_slot acc lvl r) = Nat.max (length acc) (S lvl).
Proof.
  induction lvl as [|k IH]; intros [|y rest] r; simpl; try reflexivity.
  - lia.
  - rewrite IH. simpl. lia.
  - rewrite IH. lia.
Qed.

Fixpoint cplook (s : snap) (pairs : list (nat * edge)) (l : nat) : option edge :=
  match pairs with
  | [] => None
  | (v, r) :: rest =>
    match cplook s rest l with
    | Some x => Some x
    | None =>
      match nth_error (s_v2l s) v with
      | Some lv => if Nat.eqb lv l then Some r else None
      | None => None
      end
    end
  end.

Lemma cprepare_slots_ok : forall s pairs acc, WF s ->
  (forall v r, In (v, r) pairs -> v < nlevels s) -> length acc <= nlevels s ->
  exists slots, cprepare_slots s pairs acc = Some slots /\ length slots <= nlevels s /\
    forall l, cslot_at slots l = match cplook s pairs l with Some x => Some x | None => cslot_at acc l end.
Proof.
  intros s pairs acc H. revert acc. induction pairs as [|[v r] rest IH]; intros acc Hv Hlen.
  - exists acc. split; [reflexivity|]. split; [exact Hlen | reflexivity].
  - simpl. assert (Hvl : v < length (s_v2l s)).
    { rewrite (wf_perm_len s H). apply (Hv v r). left. reflexivity. }
    destruct (wf_perm_v2l s H v Hvl) as [lv [E1 E2]]. rewrite E1.
    assert (Hlv : lv < nlevels s) by (unfold nlevels; apply nth_error_Some; congruence).
    destruct (IH (cset_slot acc lv r)) as [slots [E [Hl Hs]]].
    + intros v' r' Hin. apply (Hv v' r'). right. exact Hin.
    + rewrite length_cset_slot. lia.
    + exists slots. split; [exact E|]. split; [exact Hl|]. intros l. rewrite Hs.
      destruct (cplook s rest l); [reflexivity|]. rewrite cslot_at_set, (Nat.eqb_sym lv l).
      destruct (Nat.eqb l lv); reflexivity.
Qed.

Lemma cplook_assoc : forall s pairs l v, WF s -> NoDup (map fst pairs) ->
  (forall v' r, In (v', r) pairs -> v' < nlevels s) ->
  nth_error (s_l2v s) l = Some v -> cplook s pairs l = assoc_nat pairs v.
Proof.
  intros s pairs l v H. induction pairs as [|[v0 r0] rest IH]; intros Hnd Hv El; [reflexivity|].
  simpl in *. inversion Hnd as [|? ? Hn0 Hnd']; subst.
  assert (Hv' : forall v' r, In (v', r) rest -> v' < nlevels s) by (intros v' r Hin; apply (Hv v' r); right; exact Hin).
  rewrite (IH Hnd' Hv' El).
  assert (Hl : l < length (s_l2v s)) by (apply nth_error_Some; congruence).
  destruct (wf_perm_l2v s H l Hl) as [v' [F1 F2]]. rewrite El in F1. inversion F1; subst v'.
  destruct (Nat.eqb_spec v0 v) as [->|Hne].
  - rewrite (assoc_nat_notin _ rest v Hn0), F2, Nat.eqb_refl. reflexivity.
  - destruct (assoc_nat rest v); [reflexivity|].
    assert (Hv0 : v0 < length (s_v2l s))
      by (rewrite (wf_perm_len s H); apply (Hv v0 r0); left; reflexivity).
    destruct (wf_perm_v2l s H v0 Hv0) as [l0 [G1 G2]]. rewrite G1.
    destruct (Nat.eqb_spec l0 l) as [->|]; [|reflexivity].
    rewrite El in G2. congruence.
Qed.

Lemma cplook_In : forall s pairs l r, cplook s pairs l = Some r -> exists v, In (v, r) pairs.
Proof.
  intros s pairs l r. induction pairs as [|[v0 r0] rest IH]; simpl; [discriminate|].
  destruct (cplook s rest l) as [x|].
  - intros E. inversion E; subst. destruct (IH eq_refl) as [v Hin]. exists v. right. exact Hin.
  - destruct (nth_error (s_v2l s) v0) as [l0|]; [|discriminate].
    destruct (Nat.eqb l0 l); [|discriminate]. intros E. inversion E; subst. exists v0. left. reflexivity.
Qed.

Lemma get_or_insert_untagged : forall s lvl ch s' r, get_or_insert s lvl ch = (s', r) -> etag r = false.
Proof.
  intros s lvl ch s' r. unfold get_or_insert. destruct (find_dup s lvl ch); intros E; inversion E; reflexivity.
Qed.

(** the variable of a level as a node *)
Lemma cvar_node_ok : forall s lvl t1 t0 s' e, BcOK s -> lvl < nlevels s ->
  cget_terminal s true = Some t1 -> cget_terminal s false = Some t0 ->
  get_or_insert s lvl [t1; t0] = (s', e) ->
  BcOK s' /\ extends s s' /\ DenC s' e (fun c => Nat.eqb (c lvl) 0).
Proof.
  intros s lvl t1 t0 s' e B Hlvl T1 T0 Eg.
  destruct (cget_terminal_den s true B) as [t [Et Dt]]. rewrite T1 in Et. inversion Et; subst t.
  destruct (cget_terminal_den s false B) as [f [Ef Df]]. rewrite T0 in Ef. inversion Ef; subst f.
  assert (Htf : t1 <> t0).
  { intros ->. pose proof (denc_unique s t0 _ _ Dt Df (fun _ => 0) ltac:(intros l; simpl; lia)). discriminate. }
  assert (Tt : etag t1 = false).
  { unfold cget_terminal in T1. destruct (bc_term_id s); inversion T1. reflexivity. }
  assert (Hmk : cmk_node s lvl t1 t0 = (s', mkEdge (eref e) false)).
  { unfold cmk_node. destruct (edge_eqb t1 t0) eqn:Eq; [apply edge_eqb_true in Eq; contradiction|].
    rewrite Tt, Eg. reflexivity. }
  assert (I1 : indep (fun _ : nat -> nat => true) (S lvl)) by (intros x y _ _ _; reflexivity).
  assert (I0 : indep (fun _ : nat -> nat => false) (S lvl)) by (intros x y _ _ _; reflexivity).
  destruct (cnode_step s lvl t1 t0 _ _ s' _ B Hlvl Dt Df I1 I0 Hmk) as [B' [X D]].
  split; [exact B'|]. split; [exact X|].
  assert (Ee : mkEdge (eref e) false = e).
  { rewrite <- (get_or_insert_untagged s lvl _ s' e Eg). apply edge_eta. }
  rewrite Ee in D. apply (denc_ext s' e _ _ D). intros c _. destruct (Nat.eqb (c lvl) 0); reflexivity.
Qed.

Lemma cprepare_fill_ok : forall slots s level, BcOK s -> level + length slots <= nlevels s ->
  (forall i r, nth_error slots i = Some (Some r) -> ref_ok s (eref r)) ->
  exists s' sv, cprepare_fill s slots level = Some (s', sv) /\ BcOK s' /\ extends s s' /\
    length sv = length slots /\ Forall (fun e => ref_ok s' (eref e)) sv /\
    forall i, match nth_error slots i with
              | Some (Some r) => nth_error sv i = Some r
              | Some None => exists r, nth_error sv i = Some r /\
                                       DenC s' r (fun c => Nat.eqb (c (level + i)) 0)
              | None => True
              end.
Proof.
  induction slots as [|[e|] rest IH]; intros s level B Hlen Hok.
  - exists s, []. split; [reflexivity|]. split; [exact B|]. split; [apply extends_refl|].
    split; [reflexivity|]. split; [constructor|]. intros [|i]; exact I.
  - simpl in Hlen.
    destruct (IH s (S level) B ltac:(lia)) as [s' [sv [E [B' [X [Hl [F Hs]]]]]]].
    { intros i r Hi. apply (Hok (S i) r). exact Hi. }
    simpl. rewrite E. exists s', (e :: sv). split; [reflexivity|]. split; [exact B'|]. split; [exact X|].
    split; [simpl; rewrite Hl; reflexivity|].
    split; [constructor; [apply (ext_ref_ok _ _ _ X); apply (Hok 0 e); reflexivity | exact F]|].
    intros [|i]; [reflexivity|]. simpl. specialize (Hs i).
    destruct (nth_error rest i) as [[r|]|]; [exact Hs | | exact I].
    destruct Hs as [r [Er Dr]]. exists r. split; [exact Er|].
    replace (level + S i) with (S level + i) by lia. exact Dr.
  - simpl in Hlen. simpl.
    destruct (cget_terminal_den s true B) as [t1 [T1 _]]. destruct (cget_terminal_den s false B) as [t0 [T0 _]].
    rewrite T1, T0.
    destruct (get_or_insert s level [t1; t0]) as [s1 e] eqn:Eg.
    destruct (cvar_node_ok s level t1 t0 s1 e B ltac:(lia) T1 T0 Eg) as [B1 [X1 D1]].
    destruct (IH s1 (S level) B1) as [s' [sv [E [B' [X [Hl [F Hs]]]]]]].
    { rewrite (ext_nlevels _ _ X1). lia. }
    { intros i r Hi. apply (ext_ref_ok _ _ _ X1). apply (Hok (S i) r). exact Hi. }
    rewrite E. exists s', (e :: sv). split; [reflexivity|]. split; [exact B'|].
    split; [eapply extends_trans; eauto|].
    split; [simpl; rewrite Hl; reflexivity|].
    pose proof (denc_extends s1 s' _ _ B1 X D1) as D'.
    split; [constructor; [apply (proj1 D') | exact F]|].
    intros [|i].
    + simpl. exists e. split; [reflexivity|]. rewrite Nat.add_0_r. exact D'.
    + simpl. specialize (Hs i).
      destruct (nth_error rest i) as [[r|]|]; [exact Hs | | exact I].
      destruct Hs as [r [Er Dr]]. exists r. split; [exact Er|].
      replace (level + S i) with (S level + i) by lia. exact Dr.
Qed.

Theorem cprepare_ok : forall s pairs, BcOK s -> NoDup (map fst pairs) ->
  (forall v r, In (v, r) pairs -> v < nlevels s /\ ref_ok s (eref r)) ->
  exists s0 sv, csubstitute_prepare s pairs = Some (s0, sv) /\ BcOK s0 /\ extends s s0 /\
    SvOKC s0 sv pairs.
Proof.
  intros s pairs B Hnd Hp. pose proof (bc_wf s B) as H. unfold csubstitute_prepare.
  assert (Hv : forall v r, In (v, r) pairs -> v < nlevels s) by (intros v r Hin; apply (Hp v r Hin)).
  destruct (cprepare_slots_ok s pairs [] H Hv ltac:(simpl; lia)) as [slots [E [Hlen Hs]]].
  rewrite E.
  assert (Hs' : forall l, cslot_at slots l = cplook s pairs l).
  { intros l. rewrite Hs. destruct (cplook s pairs l); [reflexivity|].
    unfold cslot_at. destruct l; reflexivity. }
  clear Hs.
  assert (Hslot : forall i r, nth_error slots i = Some (Some r) -> cplook s pairs i = Some r).
  { intros i r Hi. rewrite <- Hs'. unfold cslot_at. rewrite Hi. reflexivity. }
  destruct (cprepare_fill_ok slots s 0 B ltac:(lia)) as [s0 [sv [Ef [B0 [X [Hl [F Hfill]]]]]]].
  { intros i r Hi. destruct (cplook_In s pairs i r (Hslot i r Hi)) as [v Hin]. apply (Hp v r Hin). }
  rewrite Ef. exists s0, sv. split; [reflexivity|]. split; [exact B0|]. split; [exact X|].
  split; [exact F|].
  split; [intros v r Hin; apply (ext_ref_ok _ _ _ X); apply (Hp v r Hin)|].
  intros c Hc l. unfold schC, pschC. rewrite (ext_l2v _ _ X).
  specialize (Hfill l). pose proof (Hs' l) as Hs. unfold cslot_at in Hs.
  destruct (nth_error (s_l2v s) l) as [v|] eqn:El.
  - rewrite <- (cplook_assoc s pairs l v H Hnd Hv El).
    destruct (nth_error slots l) as [[r|]|] eqn:Esl.
    + rewrite Hfill, <- Hs. reflexivity.
    + destruct Hfill as [r [Er Dr]]. rewrite Er, <- Hs.
      rewrite (dfunC_den s0 r _ Dr c Hc). simpl.
      pose proof (Hc l). destruct (c l) as [|[|k]]; [reflexivity | reflexivity | lia].
    + assert (Hsv : nth_error sv l = None).
      { apply nth_error_None. rewrite Hl. apply nth_error_None. exact Esl. }
      rewrite Hsv, <- Hs. reflexivity.
  - assert (Hsv : nth_error sv l = None).
    { apply nth_error_None. rewrite Hl. apply nth_error_None in El. unfold nlevels in Hlen. lia. }
    rewrite Hsv. reflexivity.
Qed.

Section S.
Variable lt : edge -> edge -> bool.
Variable C : Type.
Variable cget : C -> N -> list edge -> option edge.
Variable cadd : C -> N -> list edge -> edge -> C.
Hypothesis Hlossy : lossyC cget cadd.
Variable Sg : N -> option (list (nat * edge)).

Notation QOKC := (QCacheOKC cget Sg).
Notation qcres := (qcresult_ok cget Sg).

Lemma csubstitute_S : forall n s c f subst id,
  csubstitute lt C cget cadd (S n) s c f subst id =
    match eref f with
    | RT _ => Some (s, c, f)
    | RN fid =>
      match find_node s fid with
      | None => None
      | Some fnode =>
        let level := nstored fnode in
        if Nat.leb (length subst) level then Some (s, c, f)
        else
          match cget c (ccode_subst id) [f] with
          | Some h => Some (s, c, h)
          | None =>
            match ccofs (etag f) fnode with
            | Some (ft, fe) =>
              match csubstitute lt C cget cadd n s c ft subst id with
              | None => None
              | Some (s1, c1, t) =>
                match csubstitute lt C cget cadd n s1 c1 fe subst id with
                | None => None
                | Some (s2, c2, e) =>
                  match nth_error subst level with
                  | None => None
                  | Some r =>
                    match capply_ite lt C cget cadd (S (nlevels s2)) s2 c2 r t e with
                    | None => None
                    | Some (s3, c3, res) => Some (s3, cadd c3 (ccode_subst id) [f] res, res)
                    end
                  end
                end
              end
            | None => None
            end
          end
      end
    end.
Proof. reflexivity. Qed.

Theorem csubstitute_ok_c : forall fuel s c f sv id pairs phi,
  BcOK s -> QOKC s c -> DenC s f phi -> SvOKC s sv pairs -> Sg id = Some pairs ->
  nlevels s - rlevel s (eref f) < fuel ->
  qcres s (csubstitute lt C cget cadd fuel s c f sv id) (csubstC s sv phi).
Proof.
  induction fuel as [|n IH]; intros s c f sv id pairs phi B Q D SV Es Hfuel; [lia|].
  pose proof (bc_wf s B) as H. pose proof (denc_cext s f phi H D) as Xp.
  rewrite csubstitute_S. destruct (eref f) as [tf|fid] eqn:Erf.
  { apply (qcresult_ok_here C cget Sg s c _ _ B Q). apply (denc_ext s _ phi _ D).
    intros c0 Hc. unfold csubstC. apply (denc_term_const s f tf phi _ _ D Erf Hc). apply schC_bchoice. exact Hc. }
  pose proof (proj1 D) as Of. rewrite Erf in Of. destruct Of as [fnd Ef]. rewrite Ef. cbv zeta.
  rewrite (wf_stored s H fid fnd Ef).
  rewrite (rlevel_node s fid fnd Ef) in Hfuel. pose proof (wf_level s H fid fnd Ef) as Hlv.
  set (lvl := nlevel fnd) in *.
  assert (Ip : indep phi lvl).
  { unfold lvl. rewrite <- (rlevel_node s fid fnd Ef), <- Erf. apply (denc_indep s _ phi H D). }
  destruct (Nat.leb_spec (length sv) lvl) as [Hlen|Hlen].
  { apply (qcresult_ok_here C cget Sg s c _ _ B Q). apply (denc_ext s _ phi _ D).
    intros c0 Hc. unfold csubstC. apply Ip; [exact Hc | apply schC_bchoice; exact Hc|].
    intros l Hl. unfold schC.
    assert (En : nth_error sv l = None) by (apply nth_error_None; lia). rewrite En. reflexivity. }
  destruct (cget c (ccode_subst id) [f]) as [h|] eqn:Ecache.
  { destruct (proj2 (proj2 (proj2 (proj2 Q _ _ _ Ecache))) id f eq_refl eq_refl)
      as [pairs0 [phi0 [Es0 [_ [D0 Dh]]]]].
    rewrite Es in Es0. inversion Es0; subst pairs0.
    apply (qcresult_ok_here C cget Sg s c _ _ B Q). apply (denc_ext s h _ _ Dh).
    intros c0 Hc. rewrite (cs_psC s sv pairs phi SV Xp c0 Hc).
    apply psubstC_ext; [|exact Hc]. apply (denc_unique s _ phi0 phi D0 D). }
  destruct (bcdd_children s fid fnd B Ef) as [a [b Ech]]. unfold ccofs. rewrite Ech.
  assert (Ha : nth_error (nchildren fnd) 0 = Some a) by (rewrite Ech; reflexivity).
  assert (Hb : nth_error (nchildren fnd) 1 = Some b) by (rewrite Ech; reflexivity).
  pose proof (denc_child s f fid fnd 0 a phi B D Erf Ef Ha) as Dft.
  pose proof (denc_child s f fid fnd 1 b phi B D Erf Ef Hb) as Dfe.
  destruct (child_nth s H fid fnd 0 a Ef Ha) as [Oft Lft].
  destruct (child_nth s H fid fnd 1 b Ef Hb) as [Ofe Lfe].
  fold lvl in Dft, Dfe, Lft, Lfe.
  set (ft := retag (etag f) a) in *. set (fe := retag (etag f) b) in *.
  pose proof (rlevel_le s H (eref a)) as Hle1. pose proof (rlevel_le s H (eref b)) as Hle2.
  destruct (IH s c ft sv id pairs _ B Q Dft SV Es ltac:(simpl; lia))
    as [s1 [c1 [t [E1 [B1 [X1 [Q1 D1]]]]]]].
  rewrite E1.
  assert (Dfe1 : DenC s1 fe (cofn phi lvl 1)) by (apply (denc_extends s s1 _ _ B X1 Dfe)).
  assert (Hf1 : nlevels s1 - rlevel s1 (eref fe) < n)
    by (simpl; rewrite (ext_nlevels _ _ X1), (ext_rlevel _ _ _ X1 Ofe); lia).
  pose proof (svokc_extends s s1 sv pairs H X1 SV) as SV1.
  destruct (IH s1 c1 fe sv id pairs _ B1 Q1 Dfe1 SV1 Es Hf1)
    as [s2 [c2 [e [E2 [B2 [X2 [Q2 D2]]]]]]].
  rewrite E2.
  assert (X02 : extends s s2) by (eapply extends_trans; eauto).
  destruct (nth_error sv lvl) as [r|] eqn:Er; [|apply nth_error_None in Er; lia].
  assert (Or : ref_ok s (eref r)).
  { destruct SV as [F _]. rewrite Forall_forall in F. apply F. eapply nth_error_In; eauto. }
  pose proof (denc_extends s s2 _ _ B X02 (den_dfunC s r B Or)) as Dr2.
  assert (D1' : DenC s2 t (csubstC s sv (cofn phi lvl 0))) by (apply (denc_extends s1 s2 _ _ B1 X2 D1)).
  assert (Xc1 : cext (cofn phi lvl 1)) by (apply cext_cofn; [exact Xp | lia]).
  assert (D2' : DenC s2 e (csubstC s sv (cofn phi lvl 1))).
  { apply (denc_ext s2 e _ _ D2). intros c0 Hc.
    apply (csubstC_extends s s1 sv _ H X1 (proj1 SV) Xc1 c0 Hc). }
  destruct (qc_apply_ite lt C cget cadd Hlossy Sg s2 c2 r t e _ _ _ B2 Q2 Dr2 D1' D2')
    as [s3 [c3 [res [E3 [B3 [X3 [Q3 D3]]]]]]].
  rewrite E3.
  assert (X03 : extends s s3) by (eapply extends_trans; eauto).
  assert (Dres : DenC s3 res (csubstC s sv phi)).
  { apply (denc_ext s3 res _ _ D3). intros c0 Hc. unfold csubstC, cofn.
    pose proof (schC_bchoice s sv c0 Hc) as Hs.
    assert (Esl : schC s sv c0 lvl = if dfunC s r c0 then 0 else 1) by (unfold schC; rewrite Er; reflexivity).
    destruct (dfunC s r c0).
    - apply Xp; [apply bchoice_upd; [exact Hs | lia] | exact Hs|].
      intros l. rewrite <- Esl. apply cupd_self.
    - apply Xp; [apply bchoice_upd; [exact Hs | lia] | exact Hs|].
      intros l. rewrite <- Esl. apply cupd_self. }
  exists s3, (cadd c3 (ccode_subst id) [f] res), res.
  split; [reflexivity|]. split; [exact B3|]. split; [exact X03|]. split; [|exact Dres].
  apply (qcacheokc_add C cget cadd Hlossy Sg s3 c3 _ _ _ Q3); [unfold ccode_subst; lia|].
  pose proof (svokc_extends s s3 sv pairs H X03 SV) as SV3.
  apply (cqentry_subst Sg s3 id f res pairs phi Es (proj1 (proj2 SV3))
           (denc_extends s s3 _ _ B X03 D)).
  apply (denc_ext s3 res _ _ Dres). intros c0 Hc.
  rewrite (cs_psC s sv pairs phi SV Xp c0 Hc). symmetry.
  apply (psubstC_extends s s3 pairs phi H X03 (proj1 (proj2 SV)) Xp c0 Hc).
Qed.

Theorem csubstitute_ok : forall fuel s c f sv id pairs phi,
  BcOK s -> QOKC s c -> DenC s f phi -> SvOKC s sv pairs -> Sg id = Some pairs ->
  nlevels s - rlevel s (eref f) < fuel ->
  qcres s (csubstitute lt C cget cadd fuel s c f sv id) (psubstC s pairs phi).
Proof.
  intros fuel s c f sv id pairs phi B Q D SV Es Hfuel.
  apply (qcresult_ok_ext C cget Sg s _ (csubstC s sv phi)).
  - apply (csubstitute_ok_c fuel s c f sv id pairs phi B Q D SV Es Hfuel).
  - intros c0 Hc. apply cs_psC; [exact SV | apply (denc_cext s f phi (bc_wf s B) D) | exact Hc].
Qed.

Theorem csubstitute_edge_ok : forall s c f pairs id phi,
  BcOK s -> QOKC s c -> DenC s f phi -> NoDup (map fst pairs) ->
  (forall v r, In (v, r) pairs -> v < nlevels s /\ ref_ok s (eref r)) -> Sg id = Some pairs ->
  qcres s (csubstitute_edge lt C cget cadd s c f pairs id) (psubstC s pairs phi).
Proof.
  intros s c f pairs id phi B Q D Hnd Hp Es. pose proof (bc_wf s B) as H.
  unfold csubstitute_edge.
  destruct (cprepare_ok s pairs B Hnd Hp) as [s0 [sv [Ep [B0 [X0 SV]]]]]. rewrite Ep.
  pose proof (denc_extends s s0 _ _ B X0 D) as D0.
  pose proof (rlevel_le s0 (bc_wf s0 B0) (eref f)) as Hle.
  destruct (csubstitute_ok (S (nlevels s0)) s0 c f sv id pairs phi B0
              (qcacheokc_extends C cget Sg s s0 c B X0 Q) D0 SV Es ltac:(lia))
    as [s' [c' [r [E [B' [X' [Q' D']]]]]]].
  exists s', c', r. split; [exact E|]. split; [exact B'|].
  split; [eapply extends_trans; eauto|]. split; [exact Q'|].
  apply (denc_ext s' r _ _ D'). intros c0 Hc.
  apply (psubstC_extends s s0 pairs phi H X0); [|apply (denc_cext s f phi H D) | exact Hc].
  intros v r0 Hin. apply (Hp v r0 Hin).
Qed.

End S.

(** ** Fresh ids *)

Definition csg_add (Sg : N -> option (list (nat * edge))) (id : N) (pairs : list (nat * edge))
  : N -> option (list (nat * edge)) :=
  fun i => if N.eqb i id then Some pairs else Sg i.

Theorem qcacheokc_register : forall C (cget : C -> N -> list edge -> option edge) Sg s c id pairs,
  QCacheOKC cget Sg s c -> Sg id = None -> QCacheOKC cget (csg_add Sg id pairs) s c.
Proof.
  intros C cget Sg s c id pairs [O Q] Hfresh. split; [exact O|].
  intros code args r E. destruct (Q code args r E) as [Q1 [Q2 [Q3 Q4]]].
  split; [exact Q1|]. split; [exact Q2|]. split; [exact Q3|].
  intros id' f Hc Ha. destruct (Q4 id' f Hc Ha) as [pairs0 [phi [Es R]]].
  exists pairs0, phi. split; [|exact R]. unfold csg_add.
  destruct (N.eqb_spec id' id) as [->|]; [congruence | exact Es].
Qed.

Theorem cfresh_id_no_entry : forall C (cget : C -> N -> list edge -> option edge) Sg s c id f r,
  QCacheOKC cget Sg s c -> Sg id = None -> cget c (ccode_subst id) [f] = Some r -> False.
Proof.
  intros C cget Sg s c id f r [_ Q] Hfresh E.
  destruct (proj2 (proj2 (proj2 (Q _ _ _ E))) id f eq_refl eq_refl) as [pairs0 [phi [Es _]]].
  congruence.
Qed.
