(** * Soundness of [substitute_prepare] / [substitute] / [substitute_edge] of DD/Quant.v

    - [prepare_ok]: the level-indexed vector built from the pairs of a
      substitution object (distinct variables) agrees with the object
      ([SvOK]): listed levels carry their replacement, unlisted levels below
      the vector's length the variable of that level (= identity), levels
      beyond are untouched by [substitute];
    - [substitute_ok]: the result denotes the simultaneous substitution
      ([psubst]) for every cache satisfying [QCacheOK] w.r.t. a registry [Sg] of
      substitution objects in which the id used belongs to these pairs; cache
      entries are stored under, and only served for, that id
      ([code_subst_inj], the clause of [qentry_ok] for [code_subst]);
    - [qcacheok_register]: registering a new object under an id the registry
      does not know keeps the invariant (fresh ids). *)

From Coq Require Import List NArith PArith Bool Arith Lia FMapPositive.
From OxiVerif Require Import DD.Table DD.TableProofs DD.Canon DD.Sem DD.Build DD.BuildProofs
  DD.Apply DD.ApplyProofs DD.Quant DD.QuantLemmas DD.QuantProofs.
Import ListNotations.

Lemma den_term_const : forall s t phi c c', Den s (RT t) phi -> bchoice c -> bchoice c' -> phi c = phi c'.
Proof.
  intros s t phi c c' [_ D] Hc Hc'. apply b2c_inj.
  pose proof (D c Hc) as A. pose proof (D c' Hc') as A'. rewrite semk_T in A, A'. congruence.
Qed.

Lemma cs_ps : forall s sv pairs phi, SvOK s sv pairs -> cext phi ->
  forall c, bchoice c -> csubst s sv phi c = psubst s pairs phi c.
Proof.
  intros s sv pairs phi [_ [_ E]] X c Hc. unfold csubst, psubst.
  apply X; [apply sch_bchoice; exact Hc | apply psch_bchoice; exact Hc | apply E; exact Hc].
Qed.

(** ** [substitute_prepare] *)

Definition slot_at (l : list (option ref)) (i : nat) : option ref :=
  match nth_error l i with Some (Some r) => Some r | _ => None end.

Lemma slot_at_set : forall lvl acc r i,
  slot_at (set_slot acc lvl r) i = if Nat.eqb i lvl then Some r else slot_at acc i.
Proof.
  induction lvl as [|k IH]; intros [|y rest] r [|j]; simpl; try reflexivity.
  - unfold slot_at. simpl. destruct j; reflexivity.
  - unfold slot_at at 1. simpl. fold (slot_at (set_slot [] k r) j). rewrite IH.
    unfold slot_at. simpl. destruct j; reflexivity.
  - unfold slot_at at 1. simpl. fold (slot_at (set_slot rest k r) j). rewrite IH. reflexivity.
Qed.

Lemma length_set_slot : forall lvl acc r, length (set_slot acc lvl r) = Nat.max (length acc) (S lvl).
Proof.
  induction lvl as [|k IH]; intros [|y rest] r; simpl; try reflexivity.
  - lia.
  - rewrite IH. simpl. lia.
  - rewrite IH. lia.
Qed.

(** the replacement the object lists for level [l] (a later pair overwrites an earlier one) *)
Fixpoint plook (s : snap) (pairs : list (nat * ref)) (l : nat) : option ref :=
  match pairs with
  | [] => None
  | (v, r) :: rest =>
    match plook s rest l with
    | Some x => Some x
    | None =>
      match nth_error (s_v2l s) v with
      | Some lv => if Nat.eqb lv l then Some r else None
      | None => None
      end
    end
  end.

Lemma prepare_slots_ok : forall s pairs acc, WF s ->
  (forall v r, In (v, r) pairs -> v < nlevels s) -> length acc <= nlevels s ->
  exists slots, prepare_slots s pairs acc = Some slots /\ length slots <= nlevels s /\
    forall l, slot_at slots l = match plook s pairs l with Some x => Some x | None => slot_at acc l end.
Proof.
  intros s pairs acc H. revert acc. induction pairs as [|[v r] rest IH]; intros acc Hv Hlen.
  - exists acc. split; [reflexivity|]. split; [exact Hlen | reflexivity].
  - simpl. assert (Hvl : v < length (s_v2l s)).
    { rewrite (wf_perm_len s H). apply (Hv v r). left. reflexivity. }
    destruct (wf_perm_v2l s H v Hvl) as [lv [E1 E2]]. rewrite E1.
    assert (Hlv : lv < nlevels s) by (unfold nlevels; apply nth_error_Some; congruence).
    destruct (IH (set_slot acc lv r)) as [slots [E [Hl Hs]]].
    + intros v' r' Hin. apply (Hv v' r'). right. exact Hin.
    + rewrite length_set_slot. lia.
    + exists slots. split; [exact E|]. split; [exact Hl|]. intros l. rewrite Hs.
      destruct (plook s rest l); [reflexivity|]. rewrite slot_at_set, (Nat.eqb_sym lv l).
      destruct (Nat.eqb l lv); reflexivity.
Qed.

Lemma assoc_nat_notin : forall (A : Type) (l : list (nat * A)) k, ~ In k (map fst l) -> assoc_nat l k = None.
Proof.
  intros A l k. induction l as [|[a b] r IH]; intros Hn; [reflexivity|]. simpl in *.
  destruct (Nat.eqb_spec a k); [tauto | apply IH; tauto].
Qed.

(** with distinct variables the level-wise lookup is the variable-wise lookup *)
Lemma plook_assoc : forall s pairs l v, WF s -> NoDup (map fst pairs) ->
  (forall v' r, In (v', r) pairs -> v' < nlevels s) ->
  nth_error (s_l2v s) l = Some v -> plook s pairs l = assoc_nat pairs v.
Proof.
  intros s pairs l v H. induction pairs as [|[v0 r0] rest IH]; intros Hnd Hv El; [reflexivity|].
  simpl in *. inversion Hnd as [|? ? Hn0 Hnd']; subst.
  assert (Hv' : forall v' r, In (v', r) rest -> v' < nlevels s) by (intros v' r Hin; apply (Hv v' r); right; exact Hin).
  rewrite (IH Hnd' Hv' El).
  assert (Hl : l < length (s_l2v s)) by (apply nth_error_Some; congruence).
  destruct (wf_perm_l2v s H l Hl) as [v' [F1 F2]]. rewrite El in F1. inversion F1; subst v'.
  destruct (Nat.eqb_spec v0 v) as [->|Hne].
  - rewrite (assoc_nat_notin _ rest v Hn0), F2, Nat.eqb_refl. reflexivity.
  - destruct (assoc_nat rest v); [reflexivity|].
    assert (Hv0 : v0 < length (s_v2l s))
      by (rewrite (wf_perm_len s H); apply (Hv v0 r0); left; reflexivity).
    destruct (wf_perm_v2l s H v0 Hv0) as [l0 [G1 G2]]. rewrite G1.
    destruct (Nat.eqb_spec l0 l) as [->|]; [|reflexivity].
    rewrite El in G2. congruence.
Qed.

Lemma plook_beyond : forall s pairs l, WF s ->
  (forall v' r, In (v', r) pairs -> v' < nlevels s) ->
  nth_error (s_l2v s) l = None -> plook s pairs l = None.
Proof.
  intros s pairs l H. induction pairs as [|[v0 r0] rest IH]; intros Hv El; [reflexivity|].
  assert (Hv' : forall v' r, In (v', r) rest -> v' < nlevels s) by (intros v' r Hin; apply (Hv v' r); right; exact Hin).
  simpl. rewrite (IH Hv' El).
  destruct (nth_error (s_v2l s) v0) as [l0|] eqn:G; [|reflexivity].
  destruct (Nat.eqb_spec l0 l) as [->|]; [|reflexivity].
  assert (Hv0 : v0 < length (s_v2l s)) by (apply nth_error_Some; congruence).
  destruct (wf_perm_v2l s H v0 Hv0) as [l1 [G1 G2]]. rewrite G in G1. inversion G1; subst l1.
  rewrite El in G2. discriminate.
Qed.

Lemma plook_In : forall s pairs l r, plook s pairs l = Some r -> exists v, In (v, r) pairs.
Proof.
  intros s pairs l r. induction pairs as [|[v0 r0] rest IH]; simpl; [discriminate|].
  destruct (plook s rest l) as [x|].
  - intros E. inversion E; subst. destruct (IH eq_refl) as [v Hin]. exists v. right. exact Hin.
  - destruct (nth_error (s_v2l s) v0) as [l0|]; [|discriminate].
    destruct (Nat.eqb l0 l); [|discriminate]. intros E. inversion E; subst. exists v0. left. reflexivity.
Qed.

(** the variable of a level as a node *)
Lemma var_node_ok : forall s lvl t1 t0 s' e, BddOK s -> lvl < nlevels s ->
  term_of s true = Some t1 -> term_of s false = Some t0 ->
  get_or_insert s lvl [E (RT t1); E (RT t0)] = (s', e) ->
  BddOK s' /\ extends s s' /\ Den s' (eref e) (fun c => Nat.eqb (c lvl) 0).
Proof.
  intros s lvl t1 t0 s' e B Hlvl T1 T0 Eg. pose proof (bo_wf s B) as H.
  pose proof (term_of_spec s true t1 H T1) as V1. pose proof (term_of_spec s false t0 H T0) as V0.
  simpl in V1, V0.
  assert (Hne : t1 <> t0) by (intros ->; rewrite V1 in V0; discriminate).
  set (ch := [E (RT t1); E (RT t0)]) in *.
  assert (Hae : all_equal ch = false).
  { unfold ch. simpl. unfold edge_eqb. simpl. rewrite andb_true_r, andb_false_iff. left.
    apply N.eqb_neq. congruence. }
  assert (Hch : children_ok s lvl ch).
  { split; [rewrite (bo_kind s B); reflexivity|].
    intros x [<-|[<-|[]]]; simpl; (split; [eexists; eassumption | split; [exact Hlvl | reflexivity]]). }
  destruct (get_or_insert_wf s lvl ch s' e H (bdd_kary s B) Hlvl Hch Hae Eg) as [W [X [O [_ [_ Sh]]]]].
  split; [apply (bddok_extends s s' B X W)|]. split; [exact X|].
  split; [exact O|]. intros c Hc. pose proof (Hc lvl) as Hc2.
  destruct (c lvl) as [|[|k]] eqn:Ec; [| |lia].
  - rewrite (Sh c 0 (E (RT t1)) Ec eq_refl). simpl. rewrite semk_T. exact V1.
  - rewrite (Sh c 1 (E (RT t0)) Ec eq_refl). simpl. rewrite semk_T. exact V0.
Qed.

Lemma prepare_fill_ok : forall slots s level, BddOK s -> level + length slots <= nlevels s ->
  (forall i r, nth_error slots i = Some (Some r) -> ref_ok s r) ->
  exists s' sv, prepare_fill s slots level = Some (s', sv) /\ BddOK s' /\ extends s s' /\
    length sv = length slots /\ Forall (ref_ok s') sv /\
    forall i, match nth_error slots i with
              | Some (Some r) => nth_error sv i = Some r
              | Some None => exists r, nth_error sv i = Some r /\
                                       Den s' r (fun c => Nat.eqb (c (level + i)) 0)
              | None => True
              end.
Proof.
  induction slots as [|[e|] rest IH]; intros s level B Hlen Hok.
  - exists s, []. split; [reflexivity|]. split; [exact B|]. split; [apply extends_refl|].
    split; [reflexivity|]. split; [constructor|]. intros [|i]; exact I.
  - simpl in Hlen.
    destruct (IH s (S level) B ltac:(lia)) as [s' [sv [E [B' [X [Hl [F Hs]]]]]]].
    { intros i r Hi. apply (Hok (S i) r). exact Hi. }
    simpl. rewrite E. exists s', (e :: sv). split; [reflexivity|]. split; [exact B'|]. split; [exact X|].
    split; [simpl; rewrite Hl; reflexivity|].
    split; [constructor; [apply (ext_ref_ok _ _ _ X); apply (Hok 0 e); reflexivity | exact F]|].
    intros [|i]; [reflexivity|]. simpl. specialize (Hs i).
    destruct (nth_error rest i) as [[r|]|]; [exact Hs | | exact I].
    destruct Hs as [r [Er Dr]]. exists r. split; [exact Er|].
    replace (level + S i) with (S level + i) by lia. exact Dr.
  - simpl in Hlen. simpl.
    destruct (term_of_total s true B) as [t1 T1]. destruct (term_of_total s false B) as [t0 T0].
    rewrite T1, T0.
    destruct (get_or_insert s level [E (RT t1); E (RT t0)]) as [s1 e] eqn:Eg.
    destruct (var_node_ok s level t1 t0 s1 e B ltac:(lia) T1 T0 Eg) as [B1 [X1 D1]].
    destruct (IH s1 (S level) B1) as [s' [sv [E [B' [X [Hl [F Hs]]]]]]].
    { rewrite (ext_nlevels _ _ X1). lia. }
    { intros i r Hi. apply (ext_ref_ok _ _ _ X1). apply (Hok (S i) r). exact Hi. }
    rewrite E. exists s', (eref e :: sv). split; [reflexivity|]. split; [exact B'|].
    split; [eapply extends_trans; eauto|].
    split; [simpl; rewrite Hl; reflexivity|].
    pose proof (den_extends s1 s' _ _ B1 X D1) as D'.
    split; [constructor; [apply (proj1 D') | exact F]|].
    intros [|i].
    + simpl. exists (eref e). split; [reflexivity|]. rewrite Nat.add_0_r. exact D'.
    + simpl. specialize (Hs i).
      destruct (nth_error rest i) as [[r|]|]; [exact Hs | | exact I].
      destruct Hs as [r [Er Dr]]. exists r. split; [exact Er|].
      replace (level + S i) with (S level + i) by lia. exact Dr.
Qed.

Theorem prepare_ok : forall s pairs, BddOK s -> NoDup (map fst pairs) ->
  (forall v r, In (v, r) pairs -> v < nlevels s /\ ref_ok s r) ->
  exists s0 sv, substitute_prepare s pairs = Some (s0, sv) /\ BddOK s0 /\ extends s s0 /\
    SvOK s0 sv pairs.
Proof.
  intros s pairs B Hnd Hp. pose proof (bo_wf s B) as H. unfold substitute_prepare.
  assert (Hv : forall v r, In (v, r) pairs -> v < nlevels s) by (intros v r Hin; apply (Hp v r Hin)).
  destruct (prepare_slots_ok s pairs [] H Hv ltac:(simpl; lia)) as [slots [E [Hlen Hs]]].
  rewrite E.
  assert (Hs' : forall l, slot_at slots l = plook s pairs l).
  { intros l. rewrite Hs. destruct (plook s pairs l); [reflexivity|].
    unfold slot_at. destruct l; reflexivity. }
  clear Hs.
  assert (Hslot : forall i r, nth_error slots i = Some (Some r) -> plook s pairs i = Some r).
  { intros i r Hi. rewrite <- Hs'. unfold slot_at. rewrite Hi. reflexivity. }
  destruct (prepare_fill_ok slots s 0 B ltac:(lia)) as [s0 [sv [Ef [B0 [X [Hl [F Hfill]]]]]]].
  { intros i r Hi. destruct (plook_In s pairs i r (Hslot i r Hi)) as [v Hin]. apply (Hp v r Hin). }
  rewrite Ef. exists s0, sv. split; [reflexivity|]. split; [exact B0|]. split; [exact X|].
  split; [exact F|].
  split; [intros v r Hin; apply (ext_ref_ok _ _ _ X); apply (Hp v r Hin)|].
  intros c Hc l. unfold sch, psch. rewrite (ext_l2v _ _ X).
  specialize (Hfill l). pose proof (Hs' l) as Hs. unfold slot_at in Hs.
  destruct (nth_error (s_l2v s) l) as [v|] eqn:El.
  - rewrite <- (plook_assoc s pairs l v H Hnd Hv El).
    destruct (nth_error slots l) as [[r|]|] eqn:Esl.
    + rewrite Hfill, <- Hs. reflexivity.
    + destruct Hfill as [r [Er Dr]]. rewrite Er, <- Hs.
      rewrite (dfun_den s0 r _ Dr c Hc). simpl.
      pose proof (Hc l). destruct (c l) as [|[|k]]; [reflexivity | reflexivity | lia].
    + assert (Hsv : nth_error sv l = None).
      { apply nth_error_None. rewrite Hl. apply nth_error_None. exact Esl. }
      rewrite Hsv, <- Hs. reflexivity.
  - assert (Hsv : nth_error sv l = None).
    { apply nth_error_None. rewrite Hl. apply nth_error_None in El. unfold nlevels in Hlen. lia. }
    rewrite Hsv. reflexivity.
Qed.

Section S.
Variable gt : ref -> ref -> bool.
Variable C : Type.
Variable cget : C -> N -> list ref -> option ref.
Variable cadd : C -> N -> list ref -> ref -> C.
Hypothesis Hlossy : lossy cget cadd.
Variable Sg : N -> option (list (nat * ref)).

Notation QOK := (QCacheOK cget Sg).
Notation qres := (qresult_ok cget Sg).

Lemma substitute_S : forall n s c f subst id,
  substitute gt C cget cadd (S n) s c f subst id =
    match f with
    | RT _ => Some (s, c, f)
    | RN fid =>
      match find_node s fid with
      | None => None
      | Some fnode =>
        let level := nstored fnode in
        if Nat.leb (length subst) level then Some (s, c, f)
        else
          match cget c (code_subst id) [f] with
          | Some h => Some (s, c, h)
          | None =>
            match nchildren fnode with
            | [ft; fe] =>
              match substitute gt C cget cadd n s c (eref ft) subst id with
              | None => None
              | Some (s1, c1, t) =>
                match substitute gt C cget cadd n s1 c1 (eref fe) subst id with
                | None => None
                | Some (s2, c2, e) =>
                  match nth_error subst level with
                  | None => None
                  | Some r =>
                    match apply_ite gt C cget cadd (S (nlevels s2)) s2 c2 r t e with
                    | None => None
                    | Some (s3, c3, res) => Some (s3, cadd c3 (code_subst id) [f] res, res)
                    end
                  end
                end
              end
            | _ => None
            end
          end
      end
    end.
Proof. reflexivity. Qed.

Theorem substitute_ok_c : forall fuel s c f sv id pairs phi,
  BddOK s -> QOK s c -> Den s f phi -> SvOK s sv pairs -> Sg id = Some pairs ->
  nlevels s - rlevel s f < fuel ->
  qres s (substitute gt C cget cadd fuel s c f sv id) (csubst s sv phi).
Proof.
  induction fuel as [|n IH]; intros s c f sv id pairs phi B Q D SV Es Hfuel; [lia|].
  pose proof (bo_wf s B) as H. pose proof (den_cext s f phi H D) as Xp.
  rewrite substitute_S. destruct f as [tf|fid].
  { apply (qresult_ok_here C cget Sg s c _ _ B Q). apply (den_ext s _ phi _ D).
    intros c0 Hc. unfold csubst. apply (den_term_const s tf phi _ _ D Hc). apply sch_bchoice. exact Hc. }
  destruct (proj1 D) as [fnd Ef]. rewrite Ef. cbv zeta. rewrite (wf_stored s H fid fnd Ef).
  rewrite (rlevel_node s fid fnd Ef) in Hfuel. pose proof (wf_level s H fid fnd Ef) as Hlv.
  set (lvl := nlevel fnd) in *.
  assert (Ip : indep phi lvl)
    by (unfold lvl; rewrite <- (rlevel_node s fid fnd Ef); apply (den_indep s _ phi H D)).
  destruct (Nat.leb_spec (length sv) lvl) as [Hlen|Hlen].
  { (* all replaced levels are above f *)
    apply (qresult_ok_here C cget Sg s c _ _ B Q). apply (den_ext s _ phi _ D).
    intros c0 Hc. unfold csubst. apply Ip; [exact Hc | apply sch_bchoice; exact Hc|].
    intros l Hl. unfold sch.
    assert (En : nth_error sv l = None) by (apply nth_error_None; lia). rewrite En. reflexivity. }
  destruct (cget c (code_subst id) [RN fid]) as [h|] eqn:Ecache.
  { destruct (proj2 (proj2 (proj2 (proj2 Q _ _ _ Ecache))) id (RN fid) eq_refl eq_refl)
      as [pairs0 [phi0 [Es0 [_ [D0 Dh]]]]].
    rewrite Es in Es0. inversion Es0; subst pairs0.
    apply (qresult_ok_here C cget Sg s c _ _ B Q). apply (den_ext s h _ _ Dh).
    intros c0 Hc. rewrite (cs_ps s sv pairs phi SV Xp c0 Hc).
    apply psubst_ext; [|exact Hc]. apply (den_unique s _ phi0 phi D0 D). }
  destruct (bdd_children s fid fnd B Ef) as [ft [fe Ech]]. rewrite Ech.
  assert (Hft : nth_error (nchildren fnd) 0 = Some ft) by (rewrite Ech; reflexivity).
  assert (Hfe : nth_error (nchildren fnd) 1 = Some fe) by (rewrite Ech; reflexivity).
  pose proof (den_child s fid fnd 0 ft phi B D Ef Hft) as Dft.
  pose proof (den_child s fid fnd 1 fe phi B D Ef Hfe) as Dfe.
  destruct (child_nth s H fid fnd 0 ft Ef Hft) as [Oft Lft].
  destruct (child_nth s H fid fnd 1 fe Ef Hfe) as [Ofe Lfe].
  fold lvl in Dft, Dfe, Lft, Lfe.
  pose proof (rlevel_le s H (eref ft)) as Hle1. pose proof (rlevel_le s H (eref fe)) as Hle2.
  destruct (IH s c (eref ft) sv id pairs _ B Q Dft SV Es ltac:(lia))
    as [s1 [c1 [t [E1 [B1 [X1 [Q1 D1]]]]]]].
  rewrite E1.
  assert (Dfe1 : Den s1 (eref fe) (cofn phi lvl 1)) by (apply (den_extends s s1 _ _ B X1 Dfe)).
  assert (Hf1 : nlevels s1 - rlevel s1 (eref fe) < n)
    by (rewrite (ext_nlevels _ _ X1), (ext_rlevel _ _ _ X1 Ofe); lia).
  pose proof (svok_extends s s1 sv pairs H X1 SV) as SV1.
  destruct (IH s1 c1 (eref fe) sv id pairs _ B1 Q1 Dfe1 SV1 Es Hf1)
    as [s2 [c2 [e [E2 [B2 [X2 [Q2 D2]]]]]]].
  rewrite E2.
  assert (X02 : extends s s2) by (eapply extends_trans; eauto).
  destruct (nth_error sv lvl) as [r|] eqn:Er; [|apply nth_error_None in Er; lia].
  assert (Or : ref_ok s r).
  { destruct SV as [F _]. rewrite Forall_forall in F. apply F. eapply nth_error_In; eauto. }
  pose proof (den_extends s s2 _ _ B X02 (den_dfun s r B Or)) as Dr2.
  assert (D1' : Den s2 t (csubst s sv (cofn phi lvl 0))) by (apply (den_extends s1 s2 _ _ B1 X2 D1)).
  assert (Xc1 : cext (cofn phi lvl 1)) by (apply cext_cofn; [exact Xp | lia]).
  assert (D2' : Den s2 e (csubst s sv (cofn phi lvl 1))).
  { apply (den_ext s2 e _ _ D2). intros c0 Hc.
    apply (csubst_extends s s1 sv _ H X1 (proj1 SV) Xc1 c0 Hc). }
  destruct (q_apply_ite gt C cget cadd Hlossy Sg s2 c2 r t e _ _ _ B2 Q2 Dr2 D1' D2')
    as [s3 [c3 [res [E3 [B3 [X3 [Q3 D3]]]]]]].
  rewrite E3.
  assert (X03 : extends s s3) by (eapply extends_trans; eauto).
  assert (Dres : Den s3 res (csubst s sv phi)).
  { apply (den_ext s3 res _ _ D3). intros c0 Hc. unfold csubst, cofn.
    pose proof (sch_bchoice s sv c0 Hc) as Hs.
    assert (Esl : sch s sv c0 lvl = if dfun s r c0 then 0 else 1) by (unfold sch; rewrite Er; reflexivity).
    destruct (dfun s r c0).
    - apply Xp; [apply bchoice_upd; [exact Hs | lia] | exact Hs|].
      intros l. rewrite <- Esl. apply cupd_self.
    - apply Xp; [apply bchoice_upd; [exact Hs | lia] | exact Hs|].
      intros l. rewrite <- Esl. apply cupd_self. }
  exists s3, (cadd c3 (code_subst id) [RN fid] res), res.
  split; [reflexivity|]. split; [exact B3|]. split; [exact X03|]. split; [|exact Dres].
  apply (qcacheok_add C cget cadd Hlossy Sg s3 c3 _ _ _ Q3 (code_subst_gt id)).
  pose proof (svok_extends s s3 sv pairs H X03 SV) as SV3.
  apply (qentry_subst Sg s3 id (RN fid) res pairs phi Es (proj1 (proj2 SV3))
           (den_extends s s3 _ _ B X03 D)).
  apply (den_ext s3 res _ _ Dres). intros c0 Hc.
  rewrite (cs_ps s sv pairs phi SV Xp c0 Hc). symmetry.
  apply (psubst_extends s s3 pairs phi H X03 (proj1 (proj2 SV)) Xp c0 Hc).
Qed.

Theorem substitute_ok : forall fuel s c f sv id pairs phi,
  BddOK s -> QOK s c -> Den s f phi -> SvOK s sv pairs -> Sg id = Some pairs ->
  nlevels s - rlevel s f < fuel ->
  qres s (substitute gt C cget cadd fuel s c f sv id) (psubst s pairs phi).
Proof.
  intros fuel s c f sv id pairs phi B Q D SV Es Hfuel.
  apply (qresult_ok_ext C cget Sg s _ (csubst s sv phi)).
  - apply (substitute_ok_c fuel s c f sv id pairs phi B Q D SV Es Hfuel).
  - intros c0 Hc. apply cs_ps; [exact SV | apply (den_cext s f phi (bo_wf s B) D) | exact Hc].
Qed.

(** [substitute_edge] = [substitute_prepare] + [substitute] *)
Theorem substitute_edge_ok : forall s c f pairs id phi,
  BddOK s -> QOK s c -> Den s f phi -> NoDup (map fst pairs) ->
  (forall v r, In (v, r) pairs -> v < nlevels s /\ ref_ok s r) -> Sg id = Some pairs ->
  qres s (substitute_edge gt C cget cadd s c f pairs id) (psubst s pairs phi).
Proof.
  intros s c f pairs id phi B Q D Hnd Hp Es. pose proof (bo_wf s B) as H.
  unfold substitute_edge.
  destruct (prepare_ok s pairs B Hnd Hp) as [s0 [sv [Ep [B0 [X0 SV]]]]]. rewrite Ep.
  pose proof (den_extends s s0 _ _ B X0 D) as D0.
  pose proof (rlevel_le s0 (bo_wf s0 B0) f) as Hle.
  destruct (substitute_ok (S (nlevels s0)) s0 c f sv id pairs phi B0
              (qcacheok_extends C cget Sg s s0 c B X0 Q) D0 SV Es ltac:(lia))
    as [s' [c' [r [E [B' [X' [Q' D']]]]]]].
  exists s', c', r. split; [exact E|]. split; [exact B'|].
  split; [eapply extends_trans; eauto|]. split; [exact Q'|].
  apply (den_ext s' r _ _ D'). intros c0 Hc.
  apply (psubst_extends s s0 pairs phi H X0); [|apply (den_cext s f phi H D) | exact Hc].
  intros v r0 Hin. apply (Hp v r0 Hin).
Qed.

End S.

(** ** Fresh ids: registering a new substitution object *)

Definition sg_add (Sg : N -> option (list (nat * ref))) (id : N) (pairs : list (nat * ref))
  : N -> option (list (nat * ref)) :=
  fun i => if N.eqb i id then Some pairs else Sg i.

Theorem qcacheok_register : forall C (cget : C -> N -> list ref -> option ref) Sg s c id pairs,
  QCacheOK cget Sg s c -> Sg id = None -> QCacheOK cget (sg_add Sg id pairs) s c.
Proof.
  intros C cget Sg s c id pairs [O Q] Hfresh. split; [exact O|].
  intros code args r E. destruct (Q code args r E) as [Q1 [Q2 [Q3 Q4]]].
  split; [exact Q1|]. split; [exact Q2|]. split; [exact Q3|].
  intros id' f Hc Ha. destruct (Q4 id' f Hc Ha) as [pairs0 [phi [Es R]]].
  exists pairs0, phi. split; [|exact R]. unfold sg_add.
  destruct (N.eqb_spec id' id) as [->|]; [congruence | exact Es].
Qed.

(** under a fresh id the cache serves nothing *)
Theorem fresh_id_no_entry : forall C (cget : C -> N -> list ref -> option ref) Sg s c id f r,
  QCacheOK cget Sg s c -> Sg id = None -> cget c (code_subst id) [f] = Some r -> False.
Proof.
  intros C cget Sg s c id f r [_ Q] Hfresh E.
  destruct (proj2 (proj2 (proj2 (Q _ _ _ E))) id f eq_refl eq_refl) as [pairs0 [phi [Es _]]].
  congruence.
Qed.
