(** * Node tables: the state type shared by every decision-diagram property

    A [snap] is what the harness lifts out of a real manager through the public
    API after an operation (DESIGN.md 3.2), and at the same time the state the
    algorithmic models work on.  This file holds executable definitions only:
    the interpreters ([semk], [semc], [semz]) that give every edge its meaning,
    and the boolean checkers ([wf_b], [rc_exact_b], ...) that the driver runs on
    real snapshots.  Their specifications are proved in DD/TableProofs.v,
    canonicity in DD/Canon*.v.

    Conventions.  Levels and variables are [nat] (indices); node ids are
    [positive]; terminal ids and terminal value codes are [N].  Child 0 of a
    binary node is the then/hi child, child 1 the else/lo child; for ternary
    (TDD) nodes the order is true, unknown, false.  Assignments are indexed by
    *level*: a "choice" [c : nat -> nat] gives the child index taken at each
    level (BDD: 0 if the level's variable is true, 1 otherwise).  The
    variable <-> level permutation is applied by the caller. *)

From Coq Require Import List NArith PArith Bool Arith FMapPositive.
Import ListNotations.

Inductive kind := KBdd | KBcdd | KZbdd | KMtbdd | KTdd.

Definition arity (k : kind) : nat := match k with KTdd => 3 | _ => 2 end.

Definition kind_eqb (a b : kind) : bool :=
  match a, b with
  | KBdd, KBdd | KBcdd, KBcdd | KZbdd, KZbdd | KMtbdd, KMtbdd | KTdd, KTdd => true
  | _, _ => false
  end.

(** reference to a terminal (by id) or to an inner node *)
Inductive ref := RT (t : N) | RN (id : positive).

(** edge = reference + complement tag (the tag is only ever set for BCDDs) *)
Record edge := mkEdge { eref : ref; etag : bool }.

Definition ref_eqb (a b : ref) : bool :=
  match a, b with
  | RT x, RT y => N.eqb x y
  | RN x, RN y => Pos.eqb x y
  | _, _ => false
  end.

Definition edge_eqb (a b : edge) : bool :=
  ref_eqb (eref a) (eref b) && Bool.eqb (etag a) (etag b).

Fixpoint edges_eqb (a b : list edge) : bool :=
  match a, b with
  | [], [] => true
  | x :: r, y :: s => edge_eqb x y && edges_eqb r s
  | _, _ => false
  end.

(** [nlevel]: the level whose unique table lists the node; [nstored]: the level
    number stored in the node itself; [nrc]: reference count as reported by
    [InnerNode::ref_count] (the unique table's own reference excluded) *)
Record node := mkNode { nlevel : nat; nchildren : list edge; nstored : nat; nrc : N }.

Record snap := mkSnap {
  s_kind : kind;
  s_nodes : PositiveMap.t node;
  s_terms : list (N * N);            (* terminal id |-> value code *)
  s_v2l : list nat;
  s_l2v : list nat;
  s_handles : list (N * edge);       (* handle slot |-> edge *)
}.

Definition nlevels (s : snap) : nat := length (s_l2v s).

Definition find_node (s : snap) (id : positive) : option node := PositiveMap.find id (s_nodes s).

Fixpoint assoc_N (l : list (N * N)) (k : N) : option N :=
  match l with
  | [] => None
  | (a, b) :: r => if N.eqb a k then Some b else assoc_N r k
  end.

Definition term_val (s : snap) (t : N) : option N := assoc_N (s_terms s) t.

(** level of a reference; terminals sit below all levels *)
Definition rlevel (s : snap) (r : ref) : nat :=
  match r with
  | RT _ => nlevels s
  | RN id => match find_node s id with Some nd => nlevel nd | None => nlevels s end
  end.

(** ** Interpreters *)

(** Generic k-ary interpretation (BDD, MTBDD, TDD): follow the child chosen by
    [c] at every node; the result is the terminal's value code.  [None] =
    dangling reference or fuel exhausted (excluded by well-formedness). *)
Fixpoint semk (s : snap) (fuel : nat) (r : ref) (c : nat -> nat) : option N :=
  match r with
  | RT t => term_val s t
  | RN id =>
    match fuel with
    | O => None
    | S f =>
      match find_node s id with
      | None => None
      | Some nd =>
        match nth_error (nchildren nd) (c (nlevel nd)) with
        | None => None
        | Some e => semk s f (eref e) c
        end
      end
    end
  end.

(** Complement-edge interpretation (BCDD): the single terminal means true, a
    set tag negates.  Value codes: 0 = false, 1 = true. *)
Fixpoint semc (s : snap) (fuel : nat) (e : edge) (c : nat -> nat) : option bool :=
  match eref e with
  | RT _ => Some (negb (etag e))
  | RN id =>
    match fuel with
    | O => None
    | S f =>
      match find_node s id with
      | None => None
      | Some nd =>
        match nth_error (nchildren nd) (c (nlevel nd)) with
        | None => None
        | Some e' =>
          match semc s f e' c with
          | Some b => Some (xorb (etag e) b)
          | None => None
          end
        end
      end
    end
  end.

(** all levels in [from, to) take child 1 (variable false) *)
Fixpoint all_lo (c : nat -> nat) (from : nat) (cnt : nat) : bool :=
  match cnt with
  | O => true
  | S k => Nat.eqb (c from) 1 && all_lo c (S from) k
  end.

(** Zero-suppressed interpretation (ZBDD) as a Boolean function over all
    [nlevels] levels: a level skipped on the way down must have its variable
    false (child index 1).  [lvl] is the level the edge is evaluated at.
    Terminal value codes: 0 = Empty, 1 = Base. *)
Fixpoint semz (s : snap) (fuel : nat) (lvl : nat) (r : ref) (c : nat -> nat) : option bool :=
  match r with
  | RT t =>
    match term_val s t with
    | Some v => Some (N.eqb v 1 && all_lo c lvl (nlevels s - lvl))
    | None => None
    end
  | RN id =>
    match fuel with
    | O => None
    | S f =>
      match find_node s id with
      | None => None
      | Some nd =>
        if Nat.ltb (nlevel nd) lvl then None
        else if all_lo c lvl (nlevel nd - lvl) then
          match nth_error (nchildren nd) (c (nlevel nd)) with
          | None => None
          | Some e => semz s f (S (nlevel nd)) (eref e) c
          end
        else Some false
      end
    end
  end.

(** the meaning of a handle of any kind, as a value code *)
Definition sem_edge (s : snap) (e : edge) (c : nat -> nat) : option N :=
  let fuel := S (nlevels s) in
  match s_kind s with
  | KBcdd => option_map (fun b : bool => if b then 1%N else 0%N) (semc s fuel e c)
  | KZbdd => option_map (fun b : bool => if b then 1%N else 0%N) (semz s fuel 0 (eref e) c)
  | _ => semk s fuel (eref e) c
  end.

(** ** Checkers *)

Fixpoint nat_list_eqb (a b : list nat) : bool :=
  match a, b with
  | [], [] => true
  | x :: r, y :: s => Nat.eqb x y && nat_list_eqb r s
  | _, _ => false
  end.

(** [v2l] and [l2v] are mutually inverse permutations of [0, n) *)
Fixpoint inverse_at (v2l l2v : list nat) (v : nat) (cnt : nat) : bool :=
  match cnt with
  | O => true
  | S k =>
    match nth_error v2l v with
    | None => false
    | Some l =>
      match nth_error l2v l with
      | Some v' => Nat.eqb v v' && inverse_at v2l l2v (S v) k
      | None => false
      end
    end
  end.

Definition perm_inverse_b (v2l l2v : list nat) : bool :=
  Nat.eqb (length v2l) (length l2v) && inverse_at v2l l2v 0 (length v2l)
  && inverse_at l2v v2l 0 (length l2v).

Definition ref_ok_b (s : snap) (r : ref) : bool :=
  match r with
  | RT t => match term_val s t with Some _ => true | None => false end
  | RN id => match find_node s id with Some _ => true | None => false end
  end.

Definition is_term_with (s : snap) (r : ref) (v : N) : bool :=
  match r with
  | RT t => match term_val s t with Some w => N.eqb v w | None => false end
  | RN _ => false
  end.

Fixpoint all_equal (l : list edge) : bool :=
  match l with
  | a :: ((b :: _) as r) => edge_eqb a b && all_equal r
  | _ => true
  end.

(** the kind's reduction rule is respected by a node's children *)
Definition reduced_b (s : snap) (ch : list edge) : bool :=
  match s_kind s with
  | KZbdd => match ch with hi :: _ => negb (is_term_with s (eref hi) 0) | [] => false end
  | KBcdd =>
    negb (all_equal ch) && match ch with t :: _ => negb (etag t) | [] => false end
  | _ => negb (all_equal ch)
  end.

Definition tags_ok_b (s : snap) (ch : list edge) : bool :=
  match s_kind s with
  | KBcdd => true
  | _ => forallb (fun e => negb (etag e)) ch
  end.

Definition node_ok_b (s : snap) (nd : node) : bool :=
  Nat.eqb (length (nchildren nd)) (arity (s_kind s))
  && Nat.eqb (nstored nd) (nlevel nd)
  && Nat.ltb (nlevel nd) (nlevels s)
  && forallb (fun e => ref_ok_b s (eref e) && Nat.ltb (nlevel nd) (rlevel s (eref e))) (nchildren nd)
  && reduced_b s (nchildren nd)
  && tags_ok_b s (nchildren nd).

Definition same_node (a b : node) : bool :=
  Nat.eqb (nlevel a) (nlevel b) && edges_eqb (nchildren a) (nchildren b).

(** no two distinct ids carry the same (level, children) *)
Fixpoint unique_in (x : positive * node) (l : list (positive * node)) : bool :=
  match l with
  | [] => true
  | y :: r => negb (same_node (snd x) (snd y)) && unique_in x r
  end.

Fixpoint unique_nodes_b (l : list (positive * node)) : bool :=
  match l with
  | [] => true
  | x :: r => unique_in x r && unique_nodes_b r
  end.

Fixpoint terms_unique_b (l : list (N * N)) : bool :=
  match l with
  | [] => true
  | (i, v) :: r =>
    forallb (fun p => negb (N.eqb (fst p) i) && negb (N.eqb (snd p) v)) r && terms_unique_b r
  end.

Definition handles_ok_b (s : snap) : bool :=
  forallb (fun h => ref_ok_b s (eref (snd h))
                    && match s_kind s with KBcdd => true | _ => negb (etag (snd h)) end)
          (s_handles s).

(** The structural invariant of C03 on a snapshot. *)
Definition wf_b (s : snap) : bool :=
  perm_inverse_b (s_v2l s) (s_l2v s)
  && forallb (fun p => node_ok_b s (snd p)) (PositiveMap.elements (s_nodes s))
  && unique_nodes_b (PositiveMap.elements (s_nodes s))
  && terms_unique_b (s_terms s)
  && handles_ok_b s.

(** ** Reference counts *)

Definition bump (m : PositiveMap.t N) (r : ref) : PositiveMap.t N :=
  match r with
  | RT _ => m
  | RN id => PositiveMap.add id (N.succ (match PositiveMap.find id m with Some x => x | None => 0%N end)) m
  end.

(** number of references to every inner node: from the handle list, from the
    children of stored nodes, and from [extra] (manager-internal owners such
    as the ZBDD tautology chain) *)
Definition count_refs (s : snap) (extra : list edge) : PositiveMap.t N :=
  let m0 := fold_left (fun m h => bump m (eref (snd h))) (s_handles s) (PositiveMap.empty N) in
  let m1 := fold_left (fun m e => bump m (eref e)) extra m0 in
  fold_left (fun m p => fold_left (fun m' e => bump m' (eref e)) (nchildren (snd p)) m)
            (PositiveMap.elements (s_nodes s)) m1.

Definition rc_exact_b (s : snap) (extra : list edge) : bool :=
  let m := count_refs s extra in
  forallb (fun p => N.eqb (nrc (snd p)) (match PositiveMap.find (fst p) m with Some x => x | None => 0%N end))
          (PositiveMap.elements (s_nodes s)).

(** first node whose count is off (for diagnostics): id, reported, expected *)
Definition rc_first_bad (s : snap) (extra : list edge) : option (positive * N * N) :=
  let m := count_refs s extra in
  match filter (fun p => negb (N.eqb (nrc (snd p)) (match PositiveMap.find (fst p) m with Some x => x | None => 0%N end)))
               (PositiveMap.elements (s_nodes s)) with
  | [] => None
  | p :: _ => Some (fst p, nrc (snd p), match PositiveMap.find (fst p) m with Some x => x | None => 0%N end)
  end.

(** after a collection no stored node is unreferenced *)
Definition no_dead_b (s : snap) : bool :=
  forallb (fun p => negb (N.eqb (nrc (snd p)) 0)) (PositiveMap.elements (s_nodes s)).

(** ** Reachable sub-diagram of an edge (for node_count) *)

Fixpoint reach (s : snap) (fuel : nat) (todo : list ref) (seen_n : PositiveMap.t unit) (seen_t : list N)
  : PositiveMap.t unit * list N :=
  match fuel with
  | O => (seen_n, seen_t)
  | S f =>
    match todo with
    | [] => (seen_n, seen_t)
    | RT t :: r =>
      if existsb (N.eqb t) seen_t then reach s f r seen_n seen_t
      else reach s f r seen_n (t :: seen_t)
    | RN id :: r =>
      match PositiveMap.find id seen_n with
      | Some _ => reach s f r seen_n seen_t
      | None =>
        match find_node s id with
        | None => reach s f r seen_n seen_t
        | Some nd => reach s f (map eref (nchildren nd) ++ r) (PositiveMap.add id tt seen_n) seen_t
        end
      end
    end
  end.

(** number of distinct nodes (inner + terminal) reachable from [e]; what
    [Function::node_count] reports *)
Definition count_reach (s : snap) (e : edge) : N :=
  let n := PositiveMap.cardinal (s_nodes s) in
  let fuel := S (n * S (arity (s_kind s)) + length (s_terms s) + 1) in
  let '(sn, st) := reach s (fuel + fuel) [eref e] (PositiveMap.empty unit) [] in
  N.of_nat (PositiveMap.cardinal sn + length st).

(** ** ZBDD families (C09): the set of sets of *levels* denoted by a ZBDD edge *)

Fixpoint famz (s : snap) (fuel : nat) (r : ref) : option (list (list nat)) :=
  match r with
  | RT t => match term_val s t with
            | Some v => Some (if N.eqb v 1 then [[]] else [])
            | None => None
            end
  | RN id =>
    match fuel with
    | O => None
    | S f =>
      match find_node s id with
      | None => None
      | Some nd =>
        match nchildren nd with
        | hi :: lo :: nil =>
          match famz s f (eref hi), famz s f (eref lo) with
          | Some a, Some b => Some (map (cons (nlevel nd)) a ++ b)
          | _, _ => None
          end
        | _ => None
        end
      end
    end
  end.
