(** * Additional executable checker on snapshots (companion of DD/Table.v)

    [wf_b] does not constrain the terminal list beyond "ids and value codes
    pairwise distinct".  Canonicity of the two kinds whose interpreters do not
    look at arbitrary value codes needs more:
    - BCDD ([semc] ignores the terminal id): at most one terminal;
    - ZBDD ([semz] treats every code other than 1 as Empty): codes are 0 or 1.
    Executable definitions only; the specification is in DD/TableProofs.v. *)

From Coq Require Import List NArith Arith.
From OxiVerif Require Import DD.Table.
Import ListNotations.

Definition terms_kind_b (s : snap) : bool :=
  match s_kind s with
  | KBcdd => Nat.leb (length (s_terms s)) 1
  | KZbdd => forallb (fun p => N.leb (snd p) 1) (s_terms s)
  | _ => true
  end.

(** everything the canonicity theorems assume about a snapshot *)
Definition wf_full_b (s : snap) : bool := wf_b s && terms_kind_b s.
