(** * Specifications of the executable definitions of DD/Table.v

    - [WF]: the structural invariant of C03 as a record of readable clauses,
      and [wf_b_spec]: the checker [wf_b] decides exactly [WF];
    - fuel adequacy of the three interpreters ([semk_total], [semc_total],
      [semz_total], [sem_total] and the [*_fuel] lemmas);
    - [rc_exact_b_spec] and [no_dead_reachable] (C05).

    Nothing in DD/Table.v is changed by this file. *)

From Coq Require Import List NArith PArith Bool Arith Lia FMapPositive SetoidList.
From OxiVerif Require Import DD.Table DD.TableExtra.
Import ListNotations.

Arguments N.add : simpl never.
Arguments N.sub : simpl never.
Arguments N.mul : simpl never.

(** ** Equality tests *)

Lemma ref_eqb_eq : forall a b, ref_eqb a b = true <-> a = b.
Proof.
  intros [x|x] [y|y]; simpl; split; intro H; try discriminate; try congruence.
  - apply N.eqb_eq in H. congruence.
  - inversion H. apply N.eqb_refl.
  - apply Pos.eqb_eq in H. congruence.
  - inversion H. apply Pos.eqb_refl.
Qed.

Lemma edge_eqb_eq : forall a b, edge_eqb a b = true <-> a = b.
Proof.
  intros [ra ta] [rb tb]. unfold edge_eqb. simpl.
  rewrite andb_true_iff, ref_eqb_eq, Bool.eqb_true_iff.
  split; [intros [H1 H2]; congruence | intro H; inversion H; auto].
Qed.

Lemma edges_eqb_eq : forall a b, edges_eqb a b = true <-> a = b.
Proof.
  induction a as [|x a IH]; intros [|y b]; simpl; split; intro H;
    try discriminate; try reflexivity.
  - apply andb_true_iff in H. destruct H as [H1 H2].
    apply edge_eqb_eq in H1. apply IH in H2. congruence.
  - inversion H; subst. apply andb_true_iff. split; [apply edge_eqb_eq | apply IH]; reflexivity.
Qed.

Lemma ref_eq_dec : forall a b : ref, {a = b} + {a <> b}.
Proof. decide equality; [apply N.eq_dec | apply Pos.eq_dec]. Defined.

Lemma edge_ext : forall a b, eref a = eref b -> etag a = etag b -> a = b.
Proof. intros [ra ta] [rb tb]; simpl; intros; congruence. Qed.

(** ** The invariant, clause by clause *)

(** [a] maps [0, length a) into the indices of [b], and [b] maps back *)
Definition inv_on (a b : list nat) : Prop :=
  forall i, i < length a -> exists j, nth_error a i = Some j /\ nth_error b j = Some i.

(** the reference points to something that is stored *)
Definition ref_ok (s : snap) (r : ref) : Prop :=
  match r with
  | RT t => exists v, term_val s t = Some v
  | RN id => exists nd, find_node s id = Some nd
  end.

(** all members of the child list are the same edge *)
Definition all_same (ch : list edge) : Prop :=
  forall a b, In a ch -> In b ch -> a = b.

(** the reduction rule of the snapshot's kind *)
Definition reduced (s : snap) (ch : list edge) : Prop :=
  match s_kind s with
  | KZbdd =>
    exists hi, hd_error ch = Some hi /\
               forall t, eref hi = RT t -> term_val s t <> Some 0%N
  | KBcdd =>
    ~ all_same ch /\ exists t, hd_error ch = Some t /\ etag t = false
  | _ => ~ all_same ch
  end.

Record WF (s : snap) : Prop := mkWF {
  (* var_to_level and level_to_var are mutually inverse permutations of [0,n) *)
  wf_perm_len : length (s_v2l s) = length (s_l2v s);
  wf_perm_v2l : inv_on (s_v2l s) (s_l2v s);
  wf_perm_l2v : inv_on (s_l2v s) (s_v2l s);
  (* every stored node ... *)
  wf_arity : forall id nd, find_node s id = Some nd ->
      length (nchildren nd) = arity (s_kind s);
  wf_stored : forall id nd, find_node s id = Some nd -> nstored nd = nlevel nd;
  wf_level : forall id nd, find_node s id = Some nd -> nlevel nd < nlevels s;
  wf_child : forall id nd e, find_node s id = Some nd -> In e (nchildren nd) ->
      ref_ok s (eref e) /\ nlevel nd < rlevel s (eref e);
  wf_reduced : forall id nd, find_node s id = Some nd -> reduced s (nchildren nd);
  wf_tags : s_kind s <> KBcdd ->
      forall id nd e, find_node s id = Some nd -> In e (nchildren nd) -> etag e = false;
  (* per-level uniqueness *)
  wf_unique : forall id1 id2 n1 n2,
      find_node s id1 = Some n1 -> find_node s id2 = Some n2 ->
      nlevel n1 = nlevel n2 -> nchildren n1 = nchildren n2 -> id1 = id2;
  (* terminal ids and terminal value codes pairwise distinct *)
  wf_term_ids : NoDup (map fst (s_terms s));
  wf_term_vals : NoDup (map snd (s_terms s));
  (* handles refer to stored nodes; tags only for BCDDs *)
  wf_handles : forall h, In h (s_handles s) ->
      ref_ok s (eref (snd h)) /\ (s_kind s <> KBcdd -> etag (snd h) = false)
}.

(** ** [wf_b] decides [WF] *)

Lemma inverse_at_spec : forall a b cnt v,
  inverse_at a b v cnt = true <->
  (forall i, v <= i < v + cnt -> exists j, nth_error a i = Some j /\ nth_error b j = Some i).
Proof.
  induction cnt as [|k IH]; intros v; simpl.
  - split; [intros _ i Hi; lia | reflexivity].
  - split.
    + intros H i Hi.
      destruct (nth_error a v) as [l|] eqn:E1; [|discriminate].
      destruct (nth_error b l) as [v'|] eqn:E2; [|discriminate].
      apply andb_true_iff in H. destruct H as [H1 H2]. apply Nat.eqb_eq in H1. subst v'.
      destruct (Nat.eq_dec i v) as [->|Hne].
      * exists l. auto.
      * apply (proj1 (IH (S v)) H2). lia.
    + intros H. destruct (H v ltac:(lia)) as [j [E1 E2]]. rewrite E1, E2, Nat.eqb_refl. simpl.
      apply IH. intros i Hi. apply H. lia.
Qed.

Lemma perm_inverse_b_spec : forall a b,
  perm_inverse_b a b = true <-> length a = length b /\ inv_on a b /\ inv_on b a.
Proof.
  intros a b. unfold perm_inverse_b, inv_on.
  rewrite !andb_true_iff, Nat.eqb_eq, !inverse_at_spec.
  split.
  - intros [[H1 H2] H3]. repeat split; auto.
    + intros i Hi. apply H2. lia.
    + intros i Hi. apply H3. lia.
  - intros [H1 [H2 H3]]. repeat split; auto.
    + intros i Hi. apply H2. lia.
    + intros i Hi. apply H3. lia.
Qed.

Lemma ref_ok_b_spec : forall s r, ref_ok_b s r = true <-> ref_ok s r.
Proof.
  intros s [t|id]; simpl.
  - destruct (term_val s t) as [v|]; split; intro H; try discriminate; eauto.
    destruct H as [v H]; discriminate.
  - destruct (find_node s id) as [nd|]; split; intro H; try discriminate; eauto.
    destruct H as [v H]; discriminate.
Qed.

Lemma all_equal_spec : forall l, all_equal l = true <-> all_same l.
Proof.
  unfold all_same. induction l as [|a [|b r] IH].
  - simpl. split; [intros _ x y [] | reflexivity].
  - simpl. split; [|reflexivity]. intros _ x y [<-|[]] [<-|[]]. reflexivity.
  - change (all_equal (a :: b :: r)) with (edge_eqb a b && all_equal (b :: r)).
    rewrite andb_true_iff, edge_eqb_eq, IH. split.
    + intros [-> H] x y Hx Hy.
      assert (Hb : In b (b :: r)) by (left; reflexivity).
      assert (Hx' : x = b) by (destruct Hx as [<-|Hx]; [reflexivity | apply H; auto]).
      assert (Hy' : y = b) by (destruct Hy as [<-|Hy]; [reflexivity | apply H; auto]).
      congruence.
    + intros H. split.
      * apply H; [left; reflexivity | right; left; reflexivity].
      * intros x y Hx Hy. apply H; right; assumption.
Qed.

Lemma is_term_with_spec : forall s r v,
  is_term_with s r v = true <-> exists t, r = RT t /\ term_val s t = Some v.
Proof.
  intros s [t|id] v; simpl.
  - destruct (term_val s t) as [w|] eqn:E.
    + rewrite N.eqb_eq. split.
      * intros ->. exists t. auto.
      * intros [t' [H1 H2]]. inversion H1; subst t'. congruence.
    + split; [discriminate|]. intros [t' [H1 H2]]. inversion H1; subst t'. congruence.
  - split; [discriminate|]. intros [t' [H1 _]]. discriminate.
Qed.

Lemma reduced_b_spec : forall s ch, reduced_b s ch = true <-> reduced s ch.
Proof.
  intros s ch. unfold reduced_b, reduced.
  assert (Hk : negb (all_equal ch) = true <-> ~ all_same ch).
  { rewrite negb_true_iff, <- all_equal_spec. destruct (all_equal ch); split; congruence. }
  destruct (s_kind s); try exact Hk.
  - (* BCDD *)
    rewrite andb_true_iff, Hk. apply and_iff_compat_l.
    destruct ch as [|t r]; simpl.
    + split; [discriminate|]. intros [t [H _]]. discriminate.
    + rewrite negb_true_iff. split.
      * intros H. exists t. auto.
      * intros [t' [H1 H2]]. congruence.
  - (* ZBDD *)
    destruct ch as [|hi r]; simpl.
    + split; [discriminate|]. intros [t [H _]]. discriminate.
    + rewrite negb_true_iff. split.
      * intros H. exists hi. split; [reflexivity|]. intros t Ht Hv.
        assert (X : is_term_with s (eref hi) 0 = true) by (apply is_term_with_spec; eauto).
        congruence.
      * intros [h [H1 H2]]. inversion H1; subst h.
        destruct (is_term_with s (eref hi) 0) eqn:E; [|reflexivity].
        apply is_term_with_spec in E. destruct E as [t [E1 E2]]. exfalso. eapply H2; eauto.
Qed.

Lemma tags_ok_b_spec : forall s ch,
  tags_ok_b s ch = true <-> (s_kind s <> KBcdd -> forall e, In e ch -> etag e = false).
Proof.
  intros s ch. unfold tags_ok_b.
  assert (Hk : forallb (fun e => negb (etag e)) ch = true <-> (forall e, In e ch -> etag e = false)).
  { rewrite forallb_forall. split; intros H e He; specialize (H e He);
      [apply negb_true_iff in H | apply negb_true_iff]; assumption. }
  destruct (s_kind s); try (rewrite Hk; split; [intros H _; exact H | intros H; apply H; discriminate]).
  split; [intros _ H; congruence | reflexivity].
Qed.

(** the per-node clauses of [WF] *)
Definition node_ok (s : snap) (nd : node) : Prop :=
  length (nchildren nd) = arity (s_kind s) /\
  nstored nd = nlevel nd /\
  nlevel nd < nlevels s /\
  (forall e, In e (nchildren nd) -> ref_ok s (eref e) /\ nlevel nd < rlevel s (eref e)) /\
  reduced s (nchildren nd) /\
  (s_kind s <> KBcdd -> forall e, In e (nchildren nd) -> etag e = false).

Lemma node_ok_b_spec : forall s nd, node_ok_b s nd = true <-> node_ok s nd.
Proof.
  intros s nd. unfold node_ok_b, node_ok.
  rewrite !andb_true_iff, !Nat.eqb_eq, Nat.ltb_lt, reduced_b_spec, tags_ok_b_spec, forallb_forall.
  assert (Hc : (forall e, In e (nchildren nd) ->
                  ref_ok_b s (eref e) && (nlevel nd <? rlevel s (eref e)) = true) <->
               (forall e, In e (nchildren nd) -> ref_ok s (eref e) /\ nlevel nd < rlevel s (eref e))).
  { split; intros H e He; specialize (H e He).
    - apply andb_true_iff in H. rewrite ref_ok_b_spec, Nat.ltb_lt in H. exact H.
    - apply andb_true_iff. rewrite ref_ok_b_spec, Nat.ltb_lt. exact H. }
  rewrite Hc. tauto.
Qed.

Lemma find_node_elements : forall s id nd,
  find_node s id = Some nd <-> In (id, nd) (PositiveMap.elements (s_nodes s)).
Proof.
  intros. unfold find_node. split;
    [apply PositiveMap.elements_correct | apply PositiveMap.elements_complete].
Qed.

Lemma elements_keys_nodup : forall (A : Type) (m : PositiveMap.t A),
  NoDup (map fst (PositiveMap.elements m)).
Proof.
  intros A m. pose proof (PositiveMap.elements_3w m) as H.
  induction H as [|x l Hx Hl IH]; simpl; constructor; auto.
  intros Hin. apply Hx. apply in_map_iff in Hin. destruct Hin as [y [Hy1 Hy2]].
  apply InA_alt. exists y. split; [|assumption].
  unfold PositiveMap.eq_key, PositiveMap.E.eq. congruence.
Qed.

Lemma same_node_spec : forall a b,
  same_node a b = true <-> nlevel a = nlevel b /\ nchildren a = nchildren b.
Proof. intros. unfold same_node. rewrite andb_true_iff, Nat.eqb_eq, edges_eqb_eq. tauto. Qed.

Lemma unique_in_spec : forall x l,
  unique_in x l = true <-> forall y, In y l -> same_node (snd x) (snd y) = false.
Proof.
  induction l as [|y r IH]; simpl.
  - split; [intros _ y [] | reflexivity].
  - rewrite andb_true_iff, negb_true_iff, IH. split.
    + intros [H1 H2] z [<-|Hz]; auto.
    + intros H. split; [apply H; left; reflexivity | intros z Hz; apply H; right; exact Hz].
Qed.

Lemma unique_nodes_b_spec : forall l : list (positive * node),
  NoDup (map fst l) ->
  (unique_nodes_b l = true <->
   forall x y, In x l -> In y l -> same_node (snd x) (snd y) = true -> fst x = fst y).
Proof.
  induction l as [|x r IH]; intros Hnd; simpl.
  - split; [intros _ x y [] | reflexivity].
  - inversion Hnd as [|? ? Hx Hr]; subst.
    rewrite andb_true_iff, unique_in_spec, (IH Hr). split.
    + intros [H1 H2] a b [<-|Ha] [<-|Hb] Hs; auto.
      * rewrite (H1 b Hb) in Hs. discriminate.
      * apply same_node_spec in Hs. destruct Hs as [Hs1 Hs2].
        assert (Hs' : same_node (snd x) (snd a) = true) by (apply same_node_spec; auto).
        rewrite (H1 a Ha) in Hs'. discriminate.
    + intros H. split.
      * intros y Hy. destruct (same_node (snd x) (snd y)) eqn:E; [|reflexivity].
        exfalso. apply Hx. rewrite (H x y (or_introl eq_refl) (or_intror Hy) E).
        apply in_map. exact Hy.
      * intros a b Ha Hb. apply H; right; assumption.
Qed.

Lemma terms_unique_b_spec : forall l : list (N * N),
  terms_unique_b l = true <-> NoDup (map fst l) /\ NoDup (map snd l).
Proof.
  induction l as [|[i v] r IH]; simpl.
  - split; [intros _; split; constructor | reflexivity].
  - rewrite andb_true_iff, IH, forallb_forall. split.
    + intros [H [H1 H2]]. split; constructor; auto.
      * intros Hin. apply in_map_iff in Hin. destruct Hin as [p [Hp1 Hp2]].
        specialize (H p Hp2). apply andb_true_iff in H. destruct H as [H _].
        apply negb_true_iff in H. apply N.eqb_neq in H. congruence.
      * intros Hin. apply in_map_iff in Hin. destruct Hin as [p [Hp1 Hp2]].
        specialize (H p Hp2). apply andb_true_iff in H. destruct H as [_ H].
        apply negb_true_iff in H. apply N.eqb_neq in H. congruence.
    + intros [H1 H2]. inversion H1 as [|? ? Hi H1']; subst. inversion H2 as [|? ? Hv H2']; subst.
      split; [|split; assumption].
      intros p Hp. apply andb_true_iff. split; apply negb_true_iff; apply N.eqb_neq; intro E.
      * apply Hi. rewrite <- E. apply in_map. exact Hp.
      * apply Hv. rewrite <- E. apply in_map. exact Hp.
Qed.

Lemma handles_ok_b_spec : forall s,
  handles_ok_b s = true <->
  forall h, In h (s_handles s) ->
    ref_ok s (eref (snd h)) /\ (s_kind s <> KBcdd -> etag (snd h) = false).
Proof.
  intros s. unfold handles_ok_b. rewrite forallb_forall.
  assert (Hk : forall h : N * edge,
    (match s_kind s with KBcdd => true | _ => negb (etag (snd h)) end) = true <->
    (s_kind s <> KBcdd -> etag (snd h) = false)).
  { intros h. destruct (s_kind s); try (rewrite negb_true_iff; split; [intros H _; exact H | intros H; apply H; discriminate]).
    split; [intros _ H; congruence | reflexivity]. }
  split; intros H h Hh; specialize (H h Hh).
  - apply andb_true_iff in H. rewrite ref_ok_b_spec, Hk in H. exact H.
  - apply andb_true_iff. rewrite ref_ok_b_spec, Hk. exact H.
Qed.

Theorem wf_b_spec : forall s, wf_b s = true <-> WF s.
Proof.
  intros s. unfold wf_b.
  rewrite !andb_true_iff, perm_inverse_b_spec, terms_unique_b_spec, handles_ok_b_spec,
    forallb_forall, (unique_nodes_b_spec _ (elements_keys_nodup _ (s_nodes s))).
  split.
  - intros [[[[[Hp1 [Hp2 Hp3]] Hn] Hu] [Ht1 Ht2]] Hh].
    assert (Hn' : forall id nd, find_node s id = Some nd -> node_ok s nd).
    { intros id nd E. apply node_ok_b_spec. apply (Hn (id, nd)). apply find_node_elements. exact E. }
    constructor; auto.
    + intros id nd E. apply (Hn' id nd E).
    + intros id nd E. apply (Hn' id nd E).
    + intros id nd E. apply (Hn' id nd E).
    + intros id nd e E. apply (Hn' id nd E).
    + intros id nd E. apply (Hn' id nd E).
    + intros Hk id nd e E. apply (Hn' id nd E). exact Hk.
    + intros id1 id2 n1 n2 E1 E2 Hl Hc.
      apply (Hu (id1, n1) (id2, n2)); [apply find_node_elements; exact E1 | apply find_node_elements; exact E2 |].
      apply same_node_spec. auto.
  - intros H.
    split; [split; [split; [split|]|]|].
    + split; [apply (wf_perm_len s H) | split; [apply (wf_perm_v2l s H) | apply (wf_perm_l2v s H)]].
    + intros [id nd] Hin. apply find_node_elements in Hin. simpl. apply node_ok_b_spec.
      unfold node_ok.
      split; [apply (wf_arity s H id nd Hin)|].
      split; [apply (wf_stored s H id nd Hin)|].
      split; [apply (wf_level s H id nd Hin)|].
      split; [intros e He; apply (wf_child s H id nd e Hin He)|].
      split; [apply (wf_reduced s H id nd Hin)|].
      intros Hk e He. apply (wf_tags s H Hk id nd e Hin He).
    + intros [id1 n1] [id2 n2] H1 H2 Hs. simpl in *.
      apply find_node_elements in H1. apply find_node_elements in H2.
      apply same_node_spec in Hs. destruct Hs as [Hs1 Hs2].
      apply (wf_unique s H id1 id2 n1 n2 H1 H2 Hs1 Hs2).
    + split; [apply (wf_term_ids s H) | apply (wf_term_vals s H)].
    + apply (wf_handles s H).
Qed.

(** ** Fuel adequacy of the interpreters *)

(** a choice function selects an existing child at every level *)
Definition choice_ok (s : snap) (c : nat -> nat) : Prop := forall l, c l < arity (s_kind s).

Lemma semk_T : forall s f t c, semk s f (RT t) c = term_val s t.
Proof. destruct f; reflexivity. Qed.

Lemma semk_S : forall s f id c,
  semk s (S f) (RN id) c =
  match find_node s id with
  | None => None
  | Some nd =>
    match nth_error (nchildren nd) (c (nlevel nd)) with
    | None => None
    | Some e => semk s f (eref e) c
    end
  end.
Proof. reflexivity. Qed.

Lemma semc_T : forall s f e c t, eref e = RT t -> semc s f e c = Some (negb (etag e)).
Proof. intros s f e c t E. destruct f; simpl; rewrite E; reflexivity. Qed.

Lemma semc_S : forall s f e c id, eref e = RN id ->
  semc s (S f) e c =
  match find_node s id with
  | None => None
  | Some nd =>
    match nth_error (nchildren nd) (c (nlevel nd)) with
    | None => None
    | Some e' =>
      match semc s f e' c with
      | Some b => Some (xorb (etag e) b)
      | None => None
      end
    end
  end.
Proof. intros s f e c id E. simpl. rewrite E. reflexivity. Qed.

Lemma semc_O : forall s e c id, eref e = RN id -> semc s 0 e c = None.
Proof. intros s e c id E. simpl. rewrite E. reflexivity. Qed.

Lemma semz_T : forall s f lvl t c,
  semz s f lvl (RT t) c =
  match term_val s t with
  | Some v => Some (N.eqb v 1 && all_lo c lvl (nlevels s - lvl))
  | None => None
  end.
Proof. destruct f; reflexivity. Qed.

Lemma semz_S : forall s f lvl id c,
  semz s (S f) lvl (RN id) c =
  match find_node s id with
  | None => None
  | Some nd =>
    if Nat.ltb (nlevel nd) lvl then None
    else if all_lo c lvl (nlevel nd - lvl) then
      match nth_error (nchildren nd) (c (nlevel nd)) with
      | None => None
      | Some e => semz s f (S (nlevel nd)) (eref e) c
      end
    else Some false
  end.
Proof. reflexivity. Qed.

Arguments semk : simpl never.
Arguments semc : simpl never.
Arguments semz : simpl never.

Section Fuel.
Variable s : snap.
Hypothesis H : WF s.

Lemma rlevel_node : forall id nd, find_node s id = Some nd -> rlevel s (RN id) = nlevel nd.
Proof. intros id nd E. simpl. rewrite E. reflexivity. Qed.

Lemma rlevel_term : forall t, rlevel s (RT t) = nlevels s.
Proof. reflexivity. Qed.

Lemma rlevel_le : forall r, rlevel s r <= nlevels s.
Proof.
  intros [t|id]; simpl; [lia|].
  destruct (find_node s id) as [nd|] eqn:E; [|lia].
  pose proof (wf_level s H id nd E). lia.
Qed.

Lemma child_nth : forall id nd i e,
  find_node s id = Some nd -> nth_error (nchildren nd) i = Some e ->
  ref_ok s (eref e) /\ nlevel nd < rlevel s (eref e).
Proof. intros id nd i e E He. apply (wf_child s H id nd e E). eapply nth_error_In; eauto. Qed.

Lemma child_exists : forall id nd i,
  find_node s id = Some nd -> i < arity (s_kind s) ->
  exists e, nth_error (nchildren nd) i = Some e.
Proof.
  intros id nd i E Hi. destruct (nth_error (nchildren nd) i) as [e|] eqn:He; [eauto|].
  apply nth_error_None in He. rewrite (wf_arity s H id nd E) in He. lia.
Qed.

(** any two fuels above the height of the reference agree *)
Lemma semk_fuel : forall f1 f2 r c, ref_ok s r ->
  nlevels s - rlevel s r < f1 -> nlevels s - rlevel s r < f2 ->
  semk s f1 r c = semk s f2 r c.
Proof.
  induction f1 as [|f1 IH]; intros f2 r c Hok H1 H2; [lia|].
  destruct r as [t|id]; [rewrite !semk_T; reflexivity|].
  destruct f2 as [|f2]; [lia|]. rewrite !semk_S.
  destruct (find_node s id) as [nd|] eqn:E; [|reflexivity].
  rewrite (rlevel_node id nd E) in H1, H2.
  destruct (nth_error (nchildren nd) (c (nlevel nd))) as [e|] eqn:He; [|reflexivity].
  destruct (child_nth id nd _ e E He) as [Hoe Hle].
  pose proof (rlevel_le (eref e)).
  apply IH; auto; lia.
Qed.

Lemma semk_total : forall f r c, ref_ok s r -> choice_ok s c ->
  nlevels s - rlevel s r < f -> exists v, semk s f r c = Some v.
Proof.
  induction f as [|f IH]; intros r c Hok Hc Hf; [lia|].
  destruct r as [t|id]; [rewrite semk_T; exact Hok|].
  destruct Hok as [nd E]. rewrite semk_S, E.
  rewrite (rlevel_node id nd E) in Hf.
  destruct (child_exists id nd (c (nlevel nd)) E (Hc _)) as [e He]. rewrite He.
  destruct (child_nth id nd _ e E He) as [Hoe Hle].
  pose proof (rlevel_le (eref e)).
  apply IH; auto; lia.
Qed.

Lemma semc_fuel : forall f1 f2 e c, ref_ok s (eref e) ->
  nlevels s - rlevel s (eref e) < f1 -> nlevels s - rlevel s (eref e) < f2 ->
  semc s f1 e c = semc s f2 e c.
Proof.
  induction f1 as [|f1 IH]; intros f2 e c Hok H1 H2; [lia|].
  destruct (eref e) as [t|id] eqn:Er; [rewrite !(semc_T _ _ _ _ t Er); reflexivity|].
  destruct f2 as [|f2]; [lia|]. rewrite !(semc_S _ _ _ _ id Er).
  destruct (find_node s id) as [nd|] eqn:E; [|reflexivity].
  rewrite (rlevel_node id nd E) in H1, H2.
  destruct (nth_error (nchildren nd) (c (nlevel nd))) as [e'|] eqn:He; [|reflexivity].
  destruct (child_nth id nd _ e' E He) as [Hoe Hle].
  pose proof (rlevel_le (eref e')).
  rewrite (IH f2 e' c); auto; lia.
Qed.

Lemma semc_total : forall f e c, ref_ok s (eref e) -> choice_ok s c ->
  nlevels s - rlevel s (eref e) < f -> exists b, semc s f e c = Some b.
Proof.
  induction f as [|f IH]; intros e c Hok Hc Hf; [lia|].
  destruct (eref e) as [t|id] eqn:Er; [rewrite (semc_T _ _ _ _ t Er); eauto|].
  destruct Hok as [nd E]. rewrite (semc_S _ _ _ _ id Er), E.
  rewrite (rlevel_node id nd E) in Hf.
  destruct (child_exists id nd (c (nlevel nd)) E (Hc _)) as [e' He]. rewrite He.
  destruct (child_nth id nd _ e' E He) as [Hoe Hle].
  pose proof (rlevel_le (eref e')).
  destruct (IH e' c Hoe Hc ltac:(lia)) as [b Hb]. rewrite Hb. eauto.
Qed.

Lemma semz_fuel : forall f1 f2 lvl r c, ref_ok s r ->
  nlevels s - rlevel s r < f1 -> nlevels s - rlevel s r < f2 ->
  semz s f1 lvl r c = semz s f2 lvl r c.
Proof.
  induction f1 as [|f1 IH]; intros f2 lvl r c Hok H1 H2; [lia|].
  destruct r as [t|id]; [rewrite !semz_T; reflexivity|].
  destruct f2 as [|f2]; [lia|]. rewrite !semz_S.
  destruct (find_node s id) as [nd|] eqn:E; [|reflexivity].
  rewrite (rlevel_node id nd E) in H1, H2.
  destruct (Nat.ltb (nlevel nd) lvl); [reflexivity|].
  destruct (all_lo c lvl (nlevel nd - lvl)); [|reflexivity].
  destruct (nth_error (nchildren nd) (c (nlevel nd))) as [e|] eqn:He; [|reflexivity].
  destruct (child_nth id nd _ e E He) as [Hoe Hle].
  pose proof (rlevel_le (eref e)).
  apply IH; auto; lia.
Qed.

Lemma semz_total : forall f lvl r c, ref_ok s r -> choice_ok s c -> lvl <= rlevel s r ->
  nlevels s - rlevel s r < f -> exists b, semz s f lvl r c = Some b.
Proof.
  induction f as [|f IH]; intros lvl r c Hok Hc Hl Hf; [lia|].
  destruct r as [t|id].
  - rewrite semz_T. destruct Hok as [v E]. rewrite E. eauto.
  - destruct Hok as [nd E]. rewrite semz_S, E.
    rewrite (rlevel_node id nd E) in Hf, Hl.
    destruct (Nat.ltb_spec (nlevel nd) lvl) as [Hlt|_]; [lia|].
    destruct (all_lo c lvl (nlevel nd - lvl)); [|eauto].
    destruct (child_exists id nd (c (nlevel nd)) E (Hc _)) as [e He]. rewrite He.
    destruct (child_nth id nd _ e E He) as [Hoe Hle].
    pose proof (rlevel_le (eref e)).
    apply IH; auto; lia.
Qed.

(** the interpreter chosen by [sem_edge] is total on existing references *)
Theorem sem_total : forall e c, ref_ok s (eref e) -> choice_ok s c ->
  exists v, sem_edge s e c = Some v.
Proof.
  intros e c Hok Hc. unfold sem_edge.
  pose proof (rlevel_le (eref e)) as Hle.
  assert (Hk : exists v, semk s (S (nlevels s)) (eref e) c = Some v)
    by (apply semk_total; auto; lia).
  destruct (s_kind s); try exact Hk.
  - destruct (semc_total (S (nlevels s)) e c Hok Hc ltac:(lia)) as [b Hb]. rewrite Hb. simpl. eauto.
  - destruct (semz_total (S (nlevels s)) 0 (eref e) c Hok Hc ltac:(lia) ltac:(lia)) as [b Hb].
    rewrite Hb. simpl. eauto.
Qed.

End Fuel.

(** ** Helpers shared by the canonicity proofs *)

(** [upd c l i]: the choice [c] with level [l] set to child index [i] *)
Definition upd (c : nat -> nat) (l i : nat) : nat -> nat :=
  fun x => if Nat.eqb x l then i else c x.

Lemma upd_same : forall c l i, upd c l i l = i.
Proof. intros. unfold upd. rewrite Nat.eqb_refl. reflexivity. Qed.

Lemma upd_other : forall c l i x, x <> l -> upd c l i x = c x.
Proof. intros c l i x Hx. unfold upd. destruct (Nat.eqb_spec x l); [contradiction | reflexivity]. Qed.

Lemma choice_ok_upd : forall s c l i, choice_ok s c -> i < arity (s_kind s) -> choice_ok s (upd c l i).
Proof. intros s c l i Hc Hi x. unfold upd. destruct (Nat.eqb x l); auto. Qed.

Lemma choice_ok_const : forall s i, i < 2 -> choice_ok s (fun _ => i).
Proof. intros s i Hi l. destruct (s_kind s); simpl; lia. Qed.

Lemma assoc_N_In : forall l k v, assoc_N l k = Some v -> In (k, v) l.
Proof.
  induction l as [|[a b] r IH]; intros k v E; simpl in E; [discriminate|].
  destruct (N.eqb_spec a k) as [->|Hne].
  - inversion E; subst. left. reflexivity.
  - right. apply IH. exact E.
Qed.

Lemma nodup_snd_inj : forall (l : list (N * N)) a b v,
  NoDup (map snd l) -> In (a, v) l -> In (b, v) l -> a = b.
Proof.
  induction l as [|[x y] r IH]; intros a b v Hnd Ha Hb; [destruct Ha|].
  simpl in Hnd. inversion Hnd as [|? ? Hy Hr]; subst.
  destruct Ha as [Ha|Ha], Hb as [Hb|Hb].
  - congruence.
  - inversion Ha; subst. exfalso. apply Hy. apply (in_map snd) in Hb. exact Hb.
  - inversion Hb; subst. exfalso. apply Hy. apply (in_map snd) in Ha. exact Ha.
  - eapply IH; eauto.
Qed.

(** distinct terminal ids carry distinct value codes *)
Lemma term_val_inj : forall s t1 t2 v, WF s ->
  term_val s t1 = Some v -> term_val s t2 = Some v -> t1 = t2.
Proof.
  intros s t1 t2 v H E1 E2. apply (nodup_snd_inj (s_terms s) t1 t2 v).
  - apply (wf_term_vals s H).
  - apply assoc_N_In. exact E1.
  - apply assoc_N_In. exact E2.
Qed.

Lemma list_eq_nth : forall (A : Type) (l1 l2 : list A),
  length l1 = length l2 ->
  (forall i a b, nth_error l1 i = Some a -> nth_error l2 i = Some b -> a = b) ->
  l1 = l2.
Proof.
  induction l1 as [|x l1 IH]; intros [|y l2] Hlen Hnth; simpl in Hlen; try discriminate; [reflexivity|].
  f_equal.
  - apply (Hnth 0); reflexivity.
  - apply IH; [lia|]. intros i a b Ha Hb. apply (Hnth (S i)); assumption.
Qed.

(** for the kinds without complement tags, an edge is determined by its reference *)
Lemma child_edge_eq : forall s id1 id2 n1 n2 a b, WF s -> s_kind s <> KBcdd ->
  find_node s id1 = Some n1 -> find_node s id2 = Some n2 ->
  In a (nchildren n1) -> In b (nchildren n2) -> eref a = eref b -> a = b.
Proof.
  intros s id1 id2 n1 n2 a b H Hk E1 E2 Ha Hb Hr. apply edge_ext; [exact Hr|].
  rewrite (wf_tags s H Hk id1 n1 a E1 Ha), (wf_tags s H Hk id2 n2 b E2 Hb). reflexivity.
Qed.

(** ** The kind-specific condition on terminals ([terms_kind_b], DD/TableExtra.v) *)

Definition terms_kind (s : snap) : Prop :=
  match s_kind s with
  | KBcdd => length (s_terms s) <= 1
  | KZbdd => forall p, In p (s_terms s) -> snd p = 0%N \/ snd p = 1%N
  | _ => True
  end.

Lemma terms_kind_b_spec : forall s, terms_kind_b s = true <-> terms_kind s.
Proof.
  intros s. unfold terms_kind_b, terms_kind.
  destruct (s_kind s); try (split; auto; fail).
  - apply Nat.leb_le.
  - rewrite forallb_forall. split; intros Hp p Hin; specialize (Hp p Hin).
    + apply N.leb_le in Hp. lia.
    + apply N.leb_le. lia.
Qed.

Lemma bcdd_one_term : forall s t1 t2 v1 v2, s_kind s = KBcdd -> terms_kind s ->
  term_val s t1 = Some v1 -> term_val s t2 = Some v2 -> t1 = t2.
Proof.
  intros s t1 t2 v1 v2 Hk Ht E1 E2. unfold terms_kind in Ht. rewrite Hk in Ht.
  apply assoc_N_In in E1. apply assoc_N_In in E2.
  destruct (s_terms s) as [|x [|y r]]; simpl in *.
  - destruct E1.
  - destruct E1 as [E1|[]], E2 as [E2|[]]. congruence.
  - lia.
Qed.

Lemma zbdd_term_code : forall s t v, s_kind s = KZbdd -> terms_kind s ->
  term_val s t = Some v -> v = 0%N \/ v = 1%N.
Proof.
  intros s t v Hk Ht E. unfold terms_kind in Ht. rewrite Hk in Ht.
  apply assoc_N_In in E. apply (Ht (t, v) E).
Qed.

(** ** Reference counts (C05) *)

Definition getc (m : PositiveMap.t N) (id : positive) : N :=
  match PositiveMap.find id m with Some x => x | None => 0%N end.

(** number of entries of [l] that point to the inner node [id] *)
Definition refs_to (id : positive) (l : list ref) : nat := count_occ ref_eq_dec l (RN id).

(** the references held by the handle list, and by the children of all stored nodes *)
Definition handle_refs (s : snap) : list ref :=
  map (fun h : N * edge => eref (snd h)) (s_handles s).

Definition child_refs (s : snap) : list ref :=
  flat_map (fun p : positive * node => map eref (nchildren (snd p)))
           (PositiveMap.elements (s_nodes s)).

Lemma child_refs_In : forall s r,
  In r (child_refs s) <->
  exists id nd e, find_node s id = Some nd /\ In e (nchildren nd) /\ eref e = r.
Proof.
  intros s r. unfold child_refs. rewrite in_flat_map. split.
  - intros [[id nd] [Hp Hr]]. simpl in Hr. apply in_map_iff in Hr. destruct Hr as [e [He1 He2]].
    exists id, nd, e. split; [apply find_node_elements; exact Hp | auto].
  - intros [id [nd [e [E [He Hr]]]]]. exists (id, nd). split; [apply find_node_elements; exact E|].
    simpl. apply in_map_iff. exists e. auto.
Qed.

(** the reference count of every stored node is the number of its owners:
    handle entries, [extra] entries and child edges of stored nodes *)
Definition rc_exact (s : snap) (extra : list edge) : Prop :=
  forall id nd, find_node s id = Some nd ->
    nrc nd = N.of_nat (refs_to id (handle_refs s) + refs_to id (map eref extra)
                       + refs_to id (child_refs s)).

Lemma bump_get : forall m r id,
  getc (bump m r) id = (getc m id + N.of_nat (refs_to id [r]))%N.
Proof.
  intros m r id. unfold refs_to, getc. simpl count_occ.
  destruct r as [t|j]; simpl bump.
  - destruct (ref_eq_dec (RT t) (RN id)) as [E|_]; [discriminate|]. simpl. lia.
  - destruct (ref_eq_dec (RN j) (RN id)) as [E|Hne].
    + inversion E; subst j. rewrite PositiveMap.gss. simpl. lia.
    + rewrite PositiveMap.gso by congruence. simpl. lia.
Qed.

Lemma refs_to_cons : forall id r l, refs_to id (r :: l) = refs_to id [r] + refs_to id l.
Proof.
  intros id r l. unfold refs_to. simpl. destruct (ref_eq_dec r (RN id)); reflexivity.
Qed.

Lemma refs_to_app : forall id l1 l2, refs_to id (l1 ++ l2) = refs_to id l1 + refs_to id l2.
Proof. intros. unfold refs_to. apply count_occ_app. Qed.

Lemma fold_bump_get : forall l m id,
  getc (fold_left bump l m) id = (getc m id + N.of_nat (refs_to id l))%N.
Proof.
  induction l as [|r l IH]; intros m id; simpl fold_left.
  - unfold refs_to. simpl. lia.
  - rewrite IH, bump_get, (refs_to_cons id r l), Nat2N.inj_add. lia.
Qed.

Lemma fold_left_map_arg : forall (A B C : Type) (f : A -> B -> A) (g : C -> B) l a,
  fold_left (fun m x => f m (g x)) l a = fold_left f (map g l) a.
Proof. induction l as [|x l IH]; intros a; simpl; [reflexivity | apply IH]. Qed.

Lemma fold_left_flat : forall (A B C : Type) (f : A -> B -> A) (g : C -> list B) l a,
  fold_left (fun m p => fold_left f (g p) m) l a = fold_left f (flat_map g l) a.
Proof.
  induction l as [|x l IH]; intros a; simpl; [reflexivity|].
  rewrite fold_left_app. apply IH.
Qed.

Lemma count_refs_get : forall s extra id,
  getc (count_refs s extra) id =
  N.of_nat (refs_to id (handle_refs s) + refs_to id (map eref extra) + refs_to id (child_refs s)).
Proof.
  intros s extra id. unfold count_refs.
  rewrite (fold_left_map_arg _ _ _ bump (fun h : N * edge => eref (snd h))).
  rewrite (fold_left_map_arg _ _ _ bump eref extra).
  assert (Hin : forall l m,
    fold_left (fun m p => fold_left (fun m' e => bump m' (eref e)) (nchildren (snd p)) m) l m =
    fold_left bump (flat_map (fun p : positive * node => map eref (nchildren (snd p))) l) m).
  { intros l m. rewrite <- (fold_left_flat _ _ _ bump).
    revert m. induction l as [|x l IH]; intros m; simpl; [reflexivity|].
    rewrite (fold_left_map_arg _ _ _ bump eref). apply IH. }
  rewrite Hin. rewrite !fold_bump_get. unfold getc at 1. rewrite PositiveMap.gempty.
  fold (handle_refs s). fold (child_refs s). rewrite !Nat2N.inj_add. lia.
Qed.

Theorem rc_exact_b_spec : forall s extra, rc_exact_b s extra = true <-> rc_exact s extra.
Proof.
  intros s extra. unfold rc_exact_b, rc_exact. rewrite forallb_forall. split.
  - intros Hall id nd E. apply find_node_elements in E. specialize (Hall (id, nd) E). simpl in Hall.
    apply N.eqb_eq in Hall. rewrite Hall. apply (count_refs_get s extra id).
  - intros Hall [id nd] Hin. apply find_node_elements in Hin. simpl. apply N.eqb_eq.
    rewrite (Hall id nd Hin). symmetry. apply (count_refs_get s extra id).
Qed.

Lemma no_dead_b_spec : forall s,
  no_dead_b s = true <-> forall id nd, find_node s id = Some nd -> nrc nd <> 0%N.
Proof.
  intros s. unfold no_dead_b. rewrite forallb_forall. split.
  - intros Hall id nd E. apply find_node_elements in E. specialize (Hall (id, nd) E). simpl in Hall.
    apply negb_true_iff in Hall. apply N.eqb_neq. exact Hall.
  - intros Hall [id nd] Hin. apply find_node_elements in Hin. simpl.
    apply negb_true_iff. apply N.eqb_neq. apply (Hall id nd Hin).
Qed.

(** reachability through child edges from a list of root references *)
Inductive reachable (s : snap) (roots : list ref) : ref -> Prop :=
| reach_root : forall r, In r roots -> reachable s roots r
| reach_child : forall id nd e,
    reachable s roots (RN id) -> find_node s id = Some nd -> In e (nchildren nd) ->
    reachable s roots (eref e).

Lemma refs_to_pos_In : forall id l, 0 < refs_to id l -> In (RN id) l.
Proof. intros id l Hp. apply (count_occ_In ref_eq_dec). exact Hp. Qed.

(** with exact counts and no node of count 0, every stored node is reachable
    from a handle or an [extra] owner (top-down induction on the level: a node
    of the top-most populated level has no parent) *)
Theorem no_dead_reachable : forall s extra, WF s ->
  rc_exact_b s extra = true -> no_dead_b s = true ->
  forall id nd, find_node s id = Some nd ->
    reachable s (handle_refs s ++ map eref extra) (RN id).
Proof.
  intros s extra H Hrc Hnd. apply rc_exact_b_spec in Hrc.
  pose proof (proj1 (no_dead_b_spec s) Hnd) as Hnz.
  assert (Hind : forall k id nd, nlevel nd = k -> find_node s id = Some nd ->
            reachable s (handle_refs s ++ map eref extra) (RN id)).
  { induction k as [k IH] using lt_wf_ind. intros id nd Hk E.
    pose proof (Hrc id nd E) as Hc. pose proof (Hnz id nd E) as Hz.
    destruct (refs_to id (handle_refs s)) as [|a] eqn:Ea.
    - destruct (refs_to id (map eref extra)) as [|b] eqn:Eb.
      + destruct (refs_to id (child_refs s)) as [|c] eqn:Ec.
        * exfalso. apply Hz. rewrite Hc. reflexivity.
        * assert (Hin : In (RN id) (child_refs s)) by (apply refs_to_pos_In; lia).
          apply child_refs_In in Hin. destruct Hin as [pid [pnd [e [Ep [He Hr]]]]].
          destruct (wf_child s H pid pnd e Ep He) as [_ Hlt].
          rewrite Hr, (rlevel_node s id nd E) in Hlt.
          rewrite <- Hr. apply (reach_child s _ pid pnd e); auto.
          apply (IH (nlevel pnd) ltac:(lia) pid pnd eq_refl Ep).
      + apply reach_root. apply in_or_app. right. apply refs_to_pos_In. lia.
    - apply reach_root. apply in_or_app. left. apply refs_to_pos_In. lia. }
  intros id nd E. apply (Hind (nlevel nd) id nd eq_refl E).
Qed.

(** [WF] plus the terminal condition: the single hypothesis of the C01 theorems *)
Definition WFfull (s : snap) : Prop := WF s /\ terms_kind s.

Theorem wf_full_b_spec : forall s, wf_full_b s = true <-> WFfull s.
Proof.
  intros s. unfold wf_full_b, WFfull.
  rewrite andb_true_iff, wf_b_spec, terms_kind_b_spec. reflexivity.
Qed.

(** ** The hypotheses are satisfiable: a BDD with 2 levels, 3 inner nodes, one handle *)

Definition ex_edge (r : ref) : edge := mkEdge r false.

Definition ex_snap : snap :=
  mkSnap KBdd
    (PositiveMap.add 3%positive (mkNode 0 [ex_edge (RN 1); ex_edge (RN 2)] 0 1)
    (PositiveMap.add 2%positive (mkNode 1 [ex_edge (RT 0); ex_edge (RT 1)] 1 1)
    (PositiveMap.add 1%positive (mkNode 1 [ex_edge (RT 1); ex_edge (RT 0)] 1 1)
       (PositiveMap.empty node))))
    [(0%N, 0%N); (1%N, 1%N)]
    [1; 0] [1; 0]
    [(0%N, ex_edge (RN 3))].

Example ex_snap_wf_b : wf_b ex_snap = true.
Proof. vm_compute. reflexivity. Qed.

Example ex_snap_terms_kind_b : terms_kind_b ex_snap = true.
Proof. vm_compute. reflexivity. Qed.

Example ex_snap_WF : WF ex_snap.
Proof. apply wf_b_spec. exact ex_snap_wf_b. Qed.

Example ex_snap_WFfull : WFfull ex_snap.
Proof. apply wf_full_b_spec. vm_compute. reflexivity. Qed.

Example ex_snap_rc_exact_b : rc_exact_b ex_snap [] = true.
Proof. vm_compute. reflexivity. Qed.

Example ex_snap_no_dead_b : no_dead_b ex_snap = true.
Proof. vm_compute. reflexivity. Qed.

(* the handle denotes "level 0 <-> level 1": code 1 on (then, then), 0 on (then, else) *)
Example ex_snap_sem :
  sem_edge ex_snap (ex_edge (RN 3)) (fun _ => 0) = Some 1%N /\
  sem_edge ex_snap (ex_edge (RN 3)) (fun l => l) = Some 0%N.
Proof. vm_compute. split; reflexivity. Qed.

(** the BCDD / ZBDD hypotheses ([s_kind], [terms_kind]) are satisfiable too *)

(* x0 xor x1 as a complemented edge to "x0 <-> x1"; one terminal *)
Definition ex_bcdd : snap :=
  mkSnap KBcdd
    (PositiveMap.add 2%positive (mkNode 0 [mkEdge (RN 1) false; mkEdge (RN 1) true] 0 1)
    (PositiveMap.add 1%positive (mkNode 1 [mkEdge (RT 0) false; mkEdge (RT 0) true] 1 2)
       (PositiveMap.empty node)))
    [(0%N, 1%N)]
    [0; 1] [0; 1]
    [(0%N, mkEdge (RN 2) true)].

Example ex_bcdd_ok :
  wf_full_b ex_bcdd = true /\ rc_exact_b ex_bcdd [] = true /\ no_dead_b ex_bcdd = true /\
  sem_edge ex_bcdd (mkEdge (RN 2) true) (fun l => l) = Some 1%N.
Proof. vm_compute. repeat split; reflexivity. Qed.

(* the family { {level 0, level 1}, {} } *)
Definition ex_zbdd : snap :=
  mkSnap KZbdd
    (PositiveMap.add 2%positive (mkNode 0 [ex_edge (RN 1); ex_edge (RT 1)] 0 1)
    (PositiveMap.add 1%positive (mkNode 1 [ex_edge (RT 1); ex_edge (RT 0)] 1 1)
       (PositiveMap.empty node)))
    [(0%N, 0%N); (1%N, 1%N)]
    [0; 1] [0; 1]
    [(0%N, ex_edge (RN 2))].

Example ex_zbdd_ok :
  wf_full_b ex_zbdd = true /\ rc_exact_b ex_zbdd [] = true /\ no_dead_b ex_zbdd = true /\
  sem_edge ex_zbdd (ex_edge (RN 2)) (fun _ => 0) = Some 1%N /\
  sem_edge ex_zbdd (ex_edge (RN 2)) (fun _ => 1) = Some 1%N /\
  sem_edge ex_zbdd (ex_edge (RN 2)) (fun l => l) = Some 0%N.
Proof. vm_compute. repeat split; reflexivity. Qed.
