(** DD/Tdd.v — executable model for property C11 (TDD: one fixed three-valued logic).

    Spec layer:   [tri], the fixed truth tables, [ite3], three-valued functions
                  over assignments [nat -> tri].
    Algorithmic:  ternary decision diagrams as trees (structural equality stands
                  for edge equality of the hash-consed store: the unique table
                  makes equal (level, children) triples the same edge), the
                  reduction rule of [TDDRules::reduce], [terminal_bin],
                  [apply_not], [apply_bin], [apply_ite_rec], [eval_edge],
                  [cofactors] of /repo/crates/oxidd-rules-tdd/src/{lib,apply_rec}.rs
                  and the default methods of [TVLFunction] in
                  /repo/crates/oxidd-core/src/function.rs.
    Not modelled: the apply cache (memoisation of a deterministic function; the
                  cache key is the normalised operand pair returned by
                  [terminal_bin], see [terminal_bin_key_sound] in TddProofs.v),
                  reference counts, allocation failure ([AllocResult]).
    No proofs in this file. *)
From Coq Require Import Bool Arith List NArith.
Import ListNotations.

(* ------------------------------------------------------------------------ *)
(** * Spec layer *)

(** [TDDTerminal] (False, Unknown, True). *)
Inductive tri : Set := TF | TU | TT.

Definition tri_eqb (a b : tri) : bool :=
  match a, b with
  | TF, TF => true | TU, TU => true | TT, TT => true
  | _, _ => false
  end.

(** Kleene's strong negation ([impl Not for TDDTerminal]). *)
Definition k_not (a : tri) : tri :=
  match a with TF => TT | TU => TU | TT => TF end.

(** Kleene's strong conjunction. *)
Definition k_and (a b : tri) : tri :=
  match a, b with
  | TF, TF => TF | TF, TU => TF | TF, TT => TF
  | TU, TF => TF | TU, TU => TU | TU, TT => TU
  | TT, TF => TF | TT, TU => TU | TT, TT => TT
  end.

(** Kleene's strong disjunction. *)
Definition k_or (a b : tri) : tri :=
  match a, b with
  | TF, TF => TF | TF, TU => TU | TF, TT => TT
  | TU, TF => TU | TU, TU => TU | TU, TT => TT
  | TT, TF => TT | TT, TU => TT | TT, TT => TT
  end.

(** Lukasiewicz's implication (U -> U = T). *)
Definition l_imp (a b : tri) : tri :=
  match a, b with
  | TF, TF => TT | TF, TU => TT | TF, TT => TT
  | TU, TF => TU | TU, TU => TT | TU, TT => TT
  | TT, TF => TF | TT, TU => TU | TT, TT => TT
  end.

(** Lukasiewicz's equivalence (U <-> U = T). *)
Definition l_equiv (a b : tri) : tri :=
  match a, b with
  | TF, TF => TT | TF, TU => TU | TF, TT => TF
  | TU, TF => TU | TU, TU => TT | TU, TT => TU
  | TT, TF => TF | TT, TU => TU | TT, TT => TT
  end.

(** Derived connectives, exactly as the property text derives them. *)
Definition k_nand (a b : tri) : tri := k_not (k_and a b).
Definition k_nor (a b : tri) : tri := k_not (k_or a b).
Definition l_xor (a b : tri) : tri := k_not (l_equiv a b).
Definition l_imp_strict (a b : tri) : tri := k_not (l_imp b a).

(** The binary members of [TDDOp]. *)
Inductive binop : Set := And | Or | Nand | Nor | Xor | Equiv | Imp | ImpStrict.

(** The one fixed truth table of each binary connective. *)
Definition table (op : binop) : tri -> tri -> tri :=
  match op with
  | And => k_and
  | Or => k_or
  | Nand => k_nand
  | Nor => k_nor
  | Xor => l_xor
  | Equiv => l_equiv
  | Imp => l_imp
  | ImpStrict => l_imp_strict
  end.

(** [ite3_text]: the rule of the property text, literally:
    "ite(a,b,c) is b if b = c or a is true, c if a is false, and for unknown a:
     or(a,c) if a = b, and(a,b) if a = c, unknown otherwise". *)
Definition ite3_text (a b c : tri) : tri :=
  if tri_eqb b c || tri_eqb a TT then b
  else if tri_eqb a TF then c
  else if tri_eqb a b then k_or a c
  else if tri_eqb a c then k_and a b
  else TU.

(** [ite3]: the same function as an explicit 27-entry table
    ([ite3_is_text] in TddProofs.v). *)
Definition ite3 (a b c : tri) : tri :=
  match a, b, c with
  | TT, TF, TF => TF | TT, TF, TU => TF | TT, TF, TT => TF
  | TT, TU, TF => TU | TT, TU, TU => TU | TT, TU, TT => TU
  | TT, TT, TF => TT | TT, TT, TU => TT | TT, TT, TT => TT
  | TF, TF, TF => TF | TF, TF, TU => TU | TF, TF, TT => TT
  | TF, TU, TF => TF | TF, TU, TU => TU | TF, TU, TT => TT
  | TF, TT, TF => TF | TF, TT, TU => TU | TF, TT, TT => TT
  | TU, TF, TF => TF | TU, TF, TU => TF | TU, TF, TT => TU
  | TU, TU, TF => TU | TU, TU, TU => TU | TU, TU, TT => TT
  | TU, TT, TF => TU | TU, TT, TU => TU | TU, TT, TT => TT
  end.

(** Three-valued assignments and functions (variables = levels = [nat]). *)
Definition assignment := nat -> tri.
Definition tfun := assignment -> tri.

Definition upd (a : assignment) (l : nat) (v : tri) : assignment :=
  fun x => if Nat.eqb x l then v else a x.

(** Pointwise lifting of the tables: the specification of the connectives. *)
Definition fn_const (v : tri) : tfun := fun _ => v.
Definition fn_var (l : nat) : tfun := fun a => a l.
Definition fn_not (f : tfun) : tfun := fun a => k_not (f a).
Definition fn_bin (op : binop) (f g : tfun) : tfun := fun a => table op (f a) (g a).
Definition fn_ite (f g h : tfun) : tfun := fun a => ite3 (f a) (g a) (h a).
Definition fn_restrict (f : tfun) (l : nat) (v : tri) : tfun := fun a => f (upd a l v).

(** The default method [TVLFunction::ite_edge] of oxidd-core (overridden by
    [TDDFunction], hence not reachable through TDD handles):
    [or (and f g) (imp_strict f h)], pointwise. *)
Definition ite_default3 (a b c : tri) : tri := k_or (k_and a b) (l_imp_strict a c).

(* ------------------------------------------------------------------------ *)
(** * Algorithmic layer *)

(** A TDD edge: terminal or inner node [(level, [t; u; e])]
    ([var_edge]: children in the order true, unknown, false). *)
Inductive tdd : Set :=
| Leaf (v : tri)
| Node (l : nat) (t u e : tdd).

(** Edge equality [f == g] (hash-consed store: structural equality). *)
Fixpoint tdd_eqb (f g : tdd) : bool :=
  match f, g with
  | Leaf a, Leaf b => tri_eqb a b
  | Node l t u e, Node l' t' u' e' =>
    Nat.eqb l l' && tdd_eqb t t' && tdd_eqb u u' && tdd_eqb e e'
  | _, _ => false
  end.

(** The function denoted by an edge: follow the true / unknown / false child. *)
Fixpoint sem (f : tdd) (a : assignment) : tri :=
  match f with
  | Leaf v => v
  | Node l t u e =>
    match a l with
    | TT => sem t a
    | TU => sem u a
    | TF => sem e a
    end
  end.

(** [TDDRules::reduce] + [then_insert]: all three children equal => child. *)
Definition mk (l : nat) (t u e : tdd) : tdd :=
  if tdd_eqb t u && tdd_eqb u e then t else Node l t u e.

(** [Node::level()]: terminals are at [LevelNo::MAX] (here [None]). *)
Definition level (f : tdd) : option nat :=
  match f with Leaf _ => None | Node l _ _ _ => Some l end.

(** [std::cmp::min] on levels with [None] = [LevelNo::MAX]. *)
Definition lmin (a b : option nat) : option nat :=
  match a, b with
  | None, x => x
  | x, None => x
  | Some x, Some y => Some (Nat.min x y)
  end.

(** "Collect cofactors of all top-most nodes":
    [if flevel == level { collect_children(fnode) } else { (f, f, f) }];
    [k] selects the component (TT = 0th, TU = 1st, TF = 2nd child). *)
Definition cof (lv : nat) (k : tri) (f : tdd) : tdd :=
  match f with
  | Leaf _ => f
  | Node l t u e =>
    if Nat.eqb l lv then match k with TT => t | TU => u | TF => e end else f
  end.

Definition is_leaf (v : tri) (f : tdd) : bool :=
  match f with Leaf w => tri_eqb v w | Node _ _ _ _ => false end.

Definition is_terminal (f : tdd) : bool :=
  match f with Leaf _ => true | Node _ _ _ _ => false end.

Fixpoint height (f : tdd) : nat :=
  match f with
  | Leaf _ => 0
  | Node _ t u e => S (Nat.max (height t) (Nat.max (height u) (height e)))
  end.

Fixpoint size (f : tdd) : nat :=
  match f with
  | Leaf _ => 1
  | Node _ t u e => S (size t + size u + size e)
  end.

(** Constants and variables ([f_edge], [t_edge], [u_edge], [var_edge]). *)
Definition tdd_f : tdd := Leaf TF.
Definition tdd_t : tdd := Leaf TT.
Definition tdd_u : tdd := Leaf TU.
Definition tdd_var (l : nat) : tdd := Node l (Leaf TT) (Leaf TU) (Leaf TF).

(** [enum Operation]. *)
Inductive operation : Set :=
| Binary (o : binop) (a b : tdd)
| ONot (a : tdd)
| Done (r : tdd).

Section WithEdgeOrder.
(** The edge order [f > g] used for operand normalisation compares node
    addresses / indices; it is a parameter here: every theorem holds for any
    such relation. *)
Variable gt : tdd -> tdd -> bool.

(** [_ if f > g => Binary(op, g, f), _ => Binary(op, f, g)] *)
Definition norm (o : binop) (f g : tdd) : operation :=
  if gt f g then Binary o g f else Binary o f g.

(** [terminal_bin::<M, OP>], arm by arm.  A guard [(Terminal(t), _) |
    (_, Terminal(t)) if *t == X] is tried for both alternatives, i.e. "f or g
    is the terminal X". *)
Definition terminal_bin (op : binop) (f g : tdd) : operation :=
  match op with
  | And =>
    if tdd_eqb f g then Done f
    else if is_leaf TF f || is_leaf TF g then Done (Leaf TF)
    else if is_leaf TT f then Done g
    else if is_leaf TT g then Done f
    else norm And f g
  | Or =>
    if tdd_eqb f g then Done f
    else if is_leaf TT f || is_leaf TT g then Done (Leaf TT)
    else if is_leaf TF f then Done g
    else if is_leaf TF g then Done f
    else norm Or f g
  | Nand =>
    if tdd_eqb f g then ONot f
    else if is_leaf TF f || is_leaf TF g then Done (Leaf TT)
    else if is_leaf TT f then ONot g
    else if is_leaf TT g then ONot f
    else norm Nand f g
  | Nor =>
    if tdd_eqb f g then ONot f
    else if is_leaf TT f || is_leaf TT g then Done (Leaf TF)
    else if is_leaf TF f then ONot g
    else if is_leaf TF g then ONot f
    else norm Nor f g
  | Xor =>
    if tdd_eqb f g then Done (Leaf TF)
    else if is_leaf TF f then Done g
    else if is_leaf TF g then Done f
    else if is_leaf TT f then ONot g
    else if is_leaf TT g then ONot f
    else norm Xor f g
  | Equiv =>
    if tdd_eqb f g then Done (Leaf TT)
    else if is_leaf TT f then Done g
    else if is_leaf TT g then Done f
    else if is_leaf TF f then ONot g
    else if is_leaf TF g then ONot f
    else norm Equiv f g
  | Imp =>
    if tdd_eqb f g then Done (Leaf TT)
    else if is_leaf TF f then Done (Leaf TT)
    else if is_leaf TT g then Done (Leaf TT)
    else if is_leaf TT f then Done g
    else if is_leaf TF g then ONot f
    else Binary Imp f g
  | ImpStrict =>
    if tdd_eqb f g then Done (Leaf TF)
    else if is_leaf TT f then Done (Leaf TF)
    else if is_leaf TF g then Done (Leaf TF)
    else if is_leaf TF f then Done g
    else if is_leaf TT g then ONot f
    else Binary ImpStrict f g
  end.

(** [apply_not] (structural recursion over the node). *)
Fixpoint apply_not (f : tdd) : tdd :=
  match f with
  | Leaf v => Leaf (k_not v)
  | Node l t u e => mk l (apply_not t) (apply_not u) (apply_not e)
  end.

(** [apply_bin::<M, OP>]: terminal cases, then ternary Shannon expansion on
    the top-most level of [f] and [g] (the recursion uses [f], [g], not the
    normalised operands, exactly like the code).  [None] = fuel exhausted or
    the unreachable "both operands terminal" state (the Rust code would panic
    in [unwrap_inner]); [apply_bin_total] shows that neither happens with
    fuel [height f + height g]. *)
Fixpoint apply_bin (fuel : nat) (op : binop) (f g : tdd) : option tdd :=
  match terminal_bin op f g with
  | Done h => Some h
  | ONot x => Some (apply_not x)
  | Binary _ _ _ =>
    match fuel with
    | O => None
    | S k =>
      match lmin (level f) (level g) with
      | None => None
      | Some lv =>
        match apply_bin k op (cof lv TT f) (cof lv TT g),
              apply_bin k op (cof lv TU f) (cof lv TU g),
              apply_bin k op (cof lv TF f) (cof lv TF g) with
        | Some t, Some u, Some e => Some (mk lv t u e)
        | _, _, _ => None
        end
      end
    end
  end.

Definition apply_bin_auto (op : binop) (f g : tdd) : option tdd :=
  apply_bin (height f + height g) op f g.

(** The terminal cases of [apply_ite_rec] (everything before the cache query),
    in the order of the code. *)
Inductive ite_sc : Set :=
| SDone (r : tdd)                    (* return an existing edge *)
| SBin (op : binop) (a b : tdd)      (* return apply_bin::<op>(a, b) *)
| SNot (a : tdd)                     (* return apply_not(a) *)
| SRec.                              (* no short-cut: expand *)

Definition ite_shortcut (f g h : tdd) : ite_sc :=
  if tdd_eqb g h then SDone g
  else if tdd_eqb f g then SBin Or f h
  else if tdd_eqb f h then SBin And f g
  else
    match
      (* if let Node::Terminal(t) = fnode { ... } *)
      match f with
      | Leaf TT => Some (SDone g)
      | Leaf TF => Some (SDone h)
      | Leaf TU =>
        if is_terminal g && is_terminal h then Some (SDone (Leaf TU)) else None
      | Node _ _ _ _ => None
      end
    with
    | Some r => r
    | None =>
      (* match (manager.get_node(&g), manager.get_node(&h)) *)
      match g, h with
      | Leaf TT, Node _ _ _ _ => SBin Or f h
      | Leaf TU, Node _ _ _ _ => SRec
      | Leaf TF, Node _ _ _ _ => SBin ImpStrict f h
      | Node _ _ _ _, Leaf TT => SBin Imp f g
      | Node _ _ _ _, Leaf TU => SRec
      | Node _ _ _ _, Leaf TF => SBin And f g
      | Leaf TF, Leaf TT => SNot f
      | Leaf TT, Leaf TF => SDone f
      | Leaf _, Leaf _ => SRec
      | Node _ _ _ _, Node _ _ _ _ => SRec
      end
    end.

(** [apply_ite_rec]. *)
Fixpoint apply_ite (fuel : nat) (f g h : tdd) : option tdd :=
  match ite_shortcut f g h with
  | SDone r => Some r
  | SBin op a b => apply_bin_auto op a b
  | SNot a => Some (apply_not a)
  | SRec =>
    match fuel with
    | O => None
    | S k =>
      match lmin (lmin (level f) (level g)) (level h) with
      | None => None
      | Some lv =>
        match apply_ite k (cof lv TT f) (cof lv TT g) (cof lv TT h),
              apply_ite k (cof lv TU f) (cof lv TU g) (cof lv TU h),
              apply_ite k (cof lv TF f) (cof lv TF g) (cof lv TF h) with
        | Some t, Some u, Some e => Some (mk lv t u e)
        | _, _, _ => None
        end
      end
    end
  end.

Definition apply_ite_auto (f g h : tdd) : option tdd :=
  apply_ite (height f + height g + height h) f g h.

(** The default [TVLFunction::ite_edge] (not used by [TDDFunction]). *)
Definition apply_ite_default (f g h : tdd) : option tdd :=
  match apply_bin_auto And f g, apply_bin_auto ImpStrict f h with
  | Some x, Some y => apply_bin_auto Or x y
  | _, _ => None
  end.

End WithEdgeOrder.

(** A concrete edge order for the extracted model (any would do). *)
Definition gt_size (f g : tdd) : bool := Nat.ltb (size g) (size f).

(** [TVLFunction::cofactors_edge] / [cofactors_node]: the children
    (cofactor 0, 1, 2) of an inner node, [None] for a terminal. *)
Definition cofactors (f : tdd) : option (tdd * tdd * tdd) :=
  match f with
  | Leaf _ => None
  | Node _ t u e => Some (t, u, e)
  end.

(** ** [eval_edge] *)

(** [Some(true) => 0, None => 1, Some(false) => 2] *)
Definition choice_of (v : tri) : nat :=
  match v with TT => 0 | TU => 1 | TF => 2 end.

(** Abstract view of the [choices] vector: level -> child number; all zero
    initially ([vec![0u32; ..]]), later pairs overwrite earlier ones. *)
Fixpoint set_choices (args : list (nat * tri)) (ch : nat -> nat) : nat -> nat :=
  match args with
  | [] => ch
  | (l, v) :: r => set_choices r (fun x => if Nat.eqb x l then choice_of v else ch x)
  end.

(** [inner]: [node.child(val)], [val] in 0..2. *)
Fixpoint eval_inner (f : tdd) (ch : nat -> nat) : tri :=
  match f with
  | Leaf v => v
  | Node l t u e =>
    match ch l with
    | 0 => eval_inner t ch
    | 1 => eval_inner u ch
    | _ => eval_inner e ch
    end
  end.

Definition eval (f : tdd) (args : list (nat * tri)) : tri :=
  eval_inner f (set_choices args (fun _ => 0)).

(** The same with the bit-packed [choices: Vec<u32>] of the code (two bits per
    level, 16 levels per block): [blocks] is the vector, most recent state. *)
Definition elements_per_block : N := 16.

Definition block_set (block : N) (lvl : N) (val : N) : N :=
  let shift := (2 * (lvl mod elements_per_block))%N in
  (* mask = !(0b11 << shift) on 32 bits;  (val << shift) | (block & mask) *)
  N.lor (N.shiftl val shift) (N.land block (N.ldiff (N.ones 32) (N.shiftl 3 shift))).

Definition block_get (block : N) (lvl : N) : N :=
  let shift := (2 * (lvl mod elements_per_block))%N in
  N.land (N.shiftr block shift) 3.

Fixpoint list_upd {A} (l : list A) (i : nat) (x : A) : list A :=
  match l, i with
  | [], _ => []
  | _ :: r, O => x :: r
  | y :: r, S j => y :: list_upd r j x
  end.

Definition choice_n (v : tri) : N := match v with TT => 0 | TU => 1 | TF => 2 end%N.

Fixpoint pack_choices (args : list (nat * tri)) (blocks : list N) : list N :=
  match args with
  | [] => blocks
  | (l, v) :: r =>
    let i := N.to_nat (N.of_nat l / elements_per_block) in
    pack_choices r (list_upd blocks i (block_set (nth i blocks 0%N) (N.of_nat l) (choice_n v)))
  end.

Fixpoint eval_inner_packed (f : tdd) (blocks : list N) : tri :=
  match f with
  | Leaf v => v
  | Node l t u e =>
    let block := nth (N.to_nat (N.of_nat l / elements_per_block)) blocks 0%N in
    match block_get block (N.of_nat l) with
    | 0%N => eval_inner_packed t blocks
    | 1%N => eval_inner_packed u blocks
    | _ => eval_inner_packed e blocks
    end
  end.

(** [num_levels] levels; [vec![0u32; num_levels.div_ceil(16)]]. *)
Definition eval_packed (num_levels : nat) (f : tdd) (args : list (nat * tri)) : tri :=
  eval_inner_packed f
    (pack_choices args (repeat 0%N (N.to_nat ((N.of_nat num_levels + 15) / elements_per_block)))).

(** The assignment denoted by an argument list: last pair wins; a variable
    that is not mentioned selects child 0, i.e. counts as *true* in this tree
    (incomplete assignments are outside C11). *)
Fixpoint assignment_of (args : list (nat * tri)) (dflt : assignment) : assignment :=
  match args with
  | [] => dflt
  | (l, v) :: r => assignment_of r (upd dflt l v)
  end.

Definition complete_args (n : nat) (a : assignment) : list (nat * tri) :=
  map (fun l => (l, a l)) (seq 0 n).

(* ------------------------------------------------------------------------ *)
(** * Canonical construction (used by the driver to obtain the diagram of a
      value table, and as the witness that every function over finitely many
      levels has a reduced ordered diagram) *)

(** [levels] strictly increasing; [fn] a function of these levels. *)
Fixpoint tdd_of_fun (levels : list nat) (fn : tfun) (a : assignment) : tdd :=
  match levels with
  | [] => Leaf (fn a)
  | l :: r =>
    mk l (tdd_of_fun r fn (upd a l TT)) (tdd_of_fun r fn (upd a l TU)) (tdd_of_fun r fn (upd a l TF))
  end.

(** Value table of a diagram over the given levels (row-major, F < U < T). *)
Fixpoint table_of (levels : list nat) (f : tdd) (a : assignment) : list tri :=
  match levels with
  | [] => [sem f a]
  | l :: r => table_of r f (upd a l TF) ++ table_of r f (upd a l TU) ++ table_of r f (upd a l TT)
  end.
