(** DD/TddApplyBin.v — [terminal_bin] against the fixed tables and its lifting [apply_bin]
    (part of the proofs about the model DD/Tdd.v, property C11; re-exported by DD/TddProofs.v). *)
From Coq Require Import Bool Arith List Lia NArith ZArith.
From OxiVerif Require Import DD.Tdd DD.TddTables DD.TddBasic.
Import ListNotations.

(* ------------------------------------------------------------------------ *)
(** * 4. [terminal_bin] against the fixed tables *)

(** What an [Operation] denotes under assignment [a] (a [Binary] is left to
    the caller: it denotes the table of its operator on its operands). *)
Definition op_denotes (o : operation) (a : assignment) : tri :=
  match o with
  | Done r => sem r a
  | ONot x => k_not (sem x a)
  | Binary o x y => table o (sem x a) (sem y a)
  end.

Section EdgeOrder.
Variable gt : tdd -> tdd -> bool.
Local Arguments sem : simpl never.

(** Every arm of [terminal_bin], for every operator and all operands (diagrams
    of any shape), denotes the operator's fixed table applied pointwise. *)
Theorem terminal_bin_sound : forall op f g a,
  op_denotes (terminal_bin gt op f g) a = table op (sem f a) (sem g a).
Proof.
  intros op f g a. unfold terminal_bin.
  destruct (tdd_eqb f g) eqn:Eq.
  { apply tdd_eqb_eq in Eq. subst g. rewrite table_idem_cases. destruct op; reflexivity. }
  destruct f as [[]|lf tf uf ef], g as [[]|lg tg ug eg]; try (simpl in Eq; discriminate);
  destruct op; unfold norm; try destruct (gt _ _); simpl;
  repeat match goal with |- context [sem (Node ?l ?t ?u ?e) a] => destruct (sem (Node l t u e) a) end;
  reflexivity.
Qed.

(** On terminals [terminal_bin] never asks for an expansion, and its result is
    the table entry (8 operators x 9 operand pairs, by computation). *)
Theorem terminal_bin_leaves : forall op x y,
  match terminal_bin gt op (Leaf x) (Leaf y) with
  | Done r => r = Leaf (table op x y)
  | ONot r => apply_not r = Leaf (table op x y)
  | Binary _ _ _ => False
  end.
Proof. intros [] [] []; reflexivity. Qed.

(** A [Binary] answer keeps the operator, keeps the operands up to a swap that
    only happens for commutative operators (so the pair is a sound cache key),
    and at least one operand is an inner node. *)
Theorem terminal_bin_key_sound : forall op f g o x y,
  terminal_bin gt op f g = Binary o x y ->
  o = op /\
  ((x = f /\ y = g) \/ (x = g /\ y = f /\ commutative op = true)) /\
  (is_terminal f = false \/ is_terminal g = false) /\
  f <> g.
Proof.
  intros op f g o x y. unfold terminal_bin.
  destruct (tdd_eqb f g) eqn:Eq.
  { destruct op; discriminate. }
  apply tdd_eqb_neq in Eq.
  destruct f as [[]|lf tf uf ef], g as [[]|lg tg ug eg]; try congruence;
  destruct op; simpl; unfold norm; try destruct (gt _ _); intros [= <- <- <-];
  repeat split; auto.
Qed.

(* ------------------------------------------------------------------------ *)
(** * 5. [apply_bin]: lifting to all diagrams by induction *)

Theorem apply_bin_sem : forall fuel op f g r,
  apply_bin gt fuel op f g = Some r ->
  forall a, sem r a = table op (sem f a) (sem g a).
Proof.
  induction fuel as [|k IH]; intros op f g r H a; simpl in H;
    pose proof (terminal_bin_sound op f g a) as Ht;
    destruct (terminal_bin gt op f g) as [o x y|x|h] eqn:Et;
    try (injection H as <-; simpl in Ht; rewrite <- Ht; auto using apply_not_sem; fail);
    try discriminate.
  destruct (lmin (level f) (level g)) as [lv|]; [|discriminate].
  destruct (apply_bin gt k op (cof lv TT f) (cof lv TT g)) as [t|] eqn:E1; [|discriminate].
  destruct (apply_bin gt k op (cof lv TU f) (cof lv TU g)) as [u|] eqn:E2; [|discriminate].
  destruct (apply_bin gt k op (cof lv TF f) (cof lv TF g)) as [e|] eqn:E3; [|discriminate].
  injection H as <-. rewrite mk_sem, sem_node.
  rewrite (sem_cof lv f a), (sem_cof lv g a).
  destruct (a lv); [apply (IH _ _ _ _ E3)|apply (IH _ _ _ _ E2)|apply (IH _ _ _ _ E1)].
Qed.

Lemma lmin_some : forall f g,
  (is_terminal f = false \/ is_terminal g = false) ->
  exists lv, lmin (level f) (level g) = Some lv /\
             (level f = Some lv \/ level g = Some lv) /\
             (forall l, level f = Some l -> lv <= l) /\ (forall l, level g = Some l -> lv <= l).
Proof.
  intros [v|l t u e] [w|l' t' u' e'] H; simpl in *.
  - destruct H; discriminate.
  - exists l'. repeat split; auto; intros ? [= <-]; lia.
  - exists l. repeat split; auto; intros ? [= <-]; lia.
  - exists (Nat.min l l'). repeat split; try (intros ? [= <-]; lia).
    destruct (Nat.min_spec l l') as [[_ ->]|[_ ->]]; auto.
Qed.

(** With fuel [height f + height g] the expansion always terminates normally. *)
Theorem apply_bin_total : forall fuel op f g,
  height f + height g <= fuel -> exists r, apply_bin gt fuel op f g = Some r.
Proof.
  induction fuel as [|k IH]; intros op f g Hh; simpl;
    destruct (terminal_bin gt op f g) as [o x y|x|h] eqn:Et; eauto;
    apply terminal_bin_key_sound in Et; destruct Et as (_ & _ & Hn & _);
    destruct (lmin_some f g Hn) as (lv & Elv & Hl & _); try rewrite Elv.
  - exfalso. destruct Hl as [Hl|Hl].
    + destruct f; simpl in *; [discriminate|lia].
    + destruct g; simpl in *; [discriminate|lia].
  - assert (forall c, height (cof lv c f) + height (cof lv c g) <= k) as Hc.
    { intros c. pose proof (cof_height_le lv c f). pose proof (cof_height_le lv c g).
      destruct Hl as [Hl|Hl]; [pose proof (cof_height_lt lv c f Hl)|pose proof (cof_height_lt lv c g Hl)]; lia. }
    destruct (IH op _ _ (Hc TT)) as [t ->]. destruct (IH op _ _ (Hc TU)) as [u ->].
    destruct (IH op _ _ (Hc TF)) as [e ->]. eauto.
Qed.

Lemma terminal_bin_result_wf : forall (P : tdd -> Prop) op f g,
  P f -> P g -> (forall v, P (Leaf v)) -> (forall x, P x -> P (apply_not x)) ->
  match terminal_bin gt op f g with
  | Done r => P r
  | ONot x => P (apply_not x)
  | Binary _ _ _ => True
  end.
Proof.
  intros P op f g Pf Pg Pl Pn. unfold terminal_bin, norm.
  destruct op; repeat match goal with |- context [if ?c then _ else _] => destruct c end; auto.
Qed.

Theorem apply_bin_ordered : forall fuel op f g r n,
  ordered_from n f -> ordered_from n g -> apply_bin gt fuel op f g = Some r -> ordered_from n r.
Proof.
  induction fuel as [|k IH]; intros op f g r n Of Og H; simpl in H;
    pose proof (terminal_bin_result_wf (ordered_from n) op f g Of Og (fun _ => I)
                  (fun x => apply_not_ordered x n)) as Hwf;
    destruct (terminal_bin gt op f g) as [o x y|x|h] eqn:Et;
    try (injection H as <-; exact Hwf); try discriminate.
  apply terminal_bin_key_sound in Et. destruct Et as (_ & _ & Hn & _).
  destruct (lmin_some f g Hn) as (lv & Elv & Hl & Hf & Hg). rewrite Elv in H.
  destruct (apply_bin gt k op (cof lv TT f) (cof lv TT g)) as [t|] eqn:E1; [|discriminate].
  destruct (apply_bin gt k op (cof lv TU f) (cof lv TU g)) as [u|] eqn:E2; [|discriminate].
  destruct (apply_bin gt k op (cof lv TF f) (cof lv TF g)) as [e|] eqn:E3; [|discriminate].
  injection H as <-.
  assert (n <= lv).
  { destruct Hl as [Hl|Hl]; [destruct f|destruct g]; simpl in *; try discriminate;
      injection Hl as ->; lia. }
  apply mk_ordered; auto;
    [apply (IH _ _ _ _ _ (cof_ordered lv TT f n Of Hf) (cof_ordered lv TT g n Og Hg) E1)
    |apply (IH _ _ _ _ _ (cof_ordered lv TU f n Of Hf) (cof_ordered lv TU g n Og Hg) E2)
    |apply (IH _ _ _ _ _ (cof_ordered lv TF f n Of Hf) (cof_ordered lv TF g n Og Hg) E3)].
Qed.

Theorem apply_bin_reduced : forall fuel op f g r,
  reduced f -> reduced g -> apply_bin gt fuel op f g = Some r -> reduced r.
Proof.
  induction fuel as [|k IH]; intros op f g r Rf Rg H; simpl in H;
    pose proof (terminal_bin_result_wf reduced op f g Rf Rg (fun _ => I) apply_not_reduced) as Hwf;
    destruct (terminal_bin gt op f g) as [o x y|x|h] eqn:Et;
    try (injection H as <-; exact Hwf); try discriminate.
  destruct (lmin (level f) (level g)) as [lv|]; [|discriminate].
  destruct (apply_bin gt k op (cof lv TT f) (cof lv TT g)) as [t|] eqn:E1; [|discriminate].
  destruct (apply_bin gt k op (cof lv TU f) (cof lv TU g)) as [u|] eqn:E2; [|discriminate].
  destruct (apply_bin gt k op (cof lv TF f) (cof lv TF g)) as [e|] eqn:E3; [|discriminate].
  injection H as <-.
  apply mk_reduced;
    [exact (IH _ _ _ _ (cof_reduced lv TT f Rf) (cof_reduced lv TT g Rg) E1)
    |exact (IH _ _ _ _ (cof_reduced lv TU f Rf) (cof_reduced lv TU g Rg) E2)
    |exact (IH _ _ _ _ (cof_reduced lv TF f Rf) (cof_reduced lv TF g Rg) E3)].
Qed.

Lemma lmin_below : forall n f g lv, below n f -> below n g -> lmin (level f) (level g) = Some lv -> lv < n.
Proof.
  intros n [v|l t u e] [w|l' t' u' e'] lv; simpl; try discriminate;
    intros Bf Bg [= <-]; try lia.
Qed.

Theorem apply_bin_below : forall fuel op f g r n,
  below n f -> below n g -> apply_bin gt fuel op f g = Some r -> below n r.
Proof.
  induction fuel as [|k IH]; intros op f g r n Bf Bg H; simpl in H;
    pose proof (terminal_bin_result_wf (below n) op f g Bf Bg (fun _ => I)
                  (fun x => apply_not_below x n)) as Hwf;
    destruct (terminal_bin gt op f g) as [o x y|x|h] eqn:Et;
    try (injection H as <-; exact Hwf); try discriminate.
  destruct (lmin (level f) (level g)) as [lv|] eqn:Elv; [|discriminate].
  destruct (apply_bin gt k op (cof lv TT f) (cof lv TT g)) as [t|] eqn:E1; [|discriminate].
  destruct (apply_bin gt k op (cof lv TU f) (cof lv TU g)) as [u|] eqn:E2; [|discriminate].
  destruct (apply_bin gt k op (cof lv TF f) (cof lv TF g)) as [e|] eqn:E3; [|discriminate].
  injection H as <-.
  apply mk_below;
    [exact (lmin_below n f g lv Bf Bg Elv)
    |exact (IH _ _ _ _ _ (cof_below lv TT f n Bf) (cof_below lv TT g n Bg) E1)
    |exact (IH _ _ _ _ _ (cof_below lv TU f n Bf) (cof_below lv TU g n Bg) E2)
    |exact (IH _ _ _ _ _ (cof_below lv TF f n Bf) (cof_below lv TF g n Bg) E3)].
Qed.

(** Summary for the public entry point ([and_edge] etc. = [apply_bin] from the top). *)
Theorem apply_bin_auto_correct : forall op f g,
  exists r, apply_bin_auto gt op f g = Some r /\
    (forall a, sem r a = table op (sem f a) (sem g a)) /\
    (forall n, ordered_from n f -> ordered_from n g -> ordered_from n r) /\
    (reduced f -> reduced g -> reduced r) /\
    (forall n, below n f -> below n g -> below n r).
Proof.
  intros op f g. destruct (apply_bin_total (height f + height g) op f g (le_n _)) as [r Hr].
  exists r. unfold apply_bin_auto. split; [exact Hr|]. repeat split.
  - eapply apply_bin_sem; eauto.
  - intros n Of Og. exact (apply_bin_ordered _ _ _ _ _ _ Of Og Hr).
  - intros Rf Rg. exact (apply_bin_reduced _ _ _ _ _ Rf Rg Hr).
  - intros n Bf Bg. exact (apply_bin_below _ _ _ _ _ _ Bf Bg Hr).
Qed.

End EdgeOrder.
