(** DD/TddApplyIte.v — the terminal short-cuts of [apply_ite_rec] against [ite3] and the lifting [apply_ite]
    (part of the proofs about the model DD/Tdd.v, property C11; re-exported by DD/TddProofs.v). *)
From Coq Require Import Bool Arith List Lia NArith ZArith.
From OxiVerif Require Import DD.Tdd DD.TddTables DD.TddBasic DD.TddApplyBin.
Import ListNotations.

(* ------------------------------------------------------------------------ *)
(** * 6. [apply_ite_rec]: every terminal short-cut against [ite3], then lifting *)

Definition sc_denotes (s : ite_sc) (a : assignment) : option tri :=
  match s with
  | SDone r => Some (sem r a)
  | SBin op x y => Some (table op (sem x a) (sem y a))
  | SNot x => Some (k_not (sem x a))
  | SRec => None
  end.

Section EdgeOrder.
Variable gt : tdd -> tdd -> bool.
Local Arguments sem : simpl never.

Lemma ite3_same_branches : forall x y, ite3 x y y = y.
Proof. intros [] []; reflexivity. Qed.
Lemma ite3_cond_then : forall x z, ite3 x x z = k_or x z.
Proof. intros [] []; reflexivity. Qed.
Lemma ite3_cond_else : forall x y, ite3 x y x = k_and x y.
Proof. intros [] []; reflexivity. Qed.

(** Each short-cut of [apply_ite_rec] (g == h, f == g -> or, f == h -> and,
    terminal f, terminal g -> or / imp_strict, terminal h -> imp / and,
    (F,T) -> not, (T,F) -> f, (U, terminal, terminal) -> U), for operands of
    any shape, denotes [ite3] applied pointwise. *)
Theorem ite_shortcut_sound : forall f g h a v,
  sc_denotes (ite_shortcut f g h) a = Some v -> v = ite3 (sem f a) (sem g a) (sem h a).
Proof.
  intros f g h a v. unfold ite_shortcut.
  destruct (tdd_eqb g h) eqn:Egh.
  { apply tdd_eqb_eq in Egh. subst h. simpl. intros [= <-]. rewrite ite3_same_branches. reflexivity. }
  destruct (tdd_eqb f g) eqn:Efg.
  { apply tdd_eqb_eq in Efg. subst g. simpl. intros [= <-]. rewrite ite3_cond_then. reflexivity. }
  destruct (tdd_eqb f h) eqn:Efh.
  { apply tdd_eqb_eq in Efh. subst h. simpl. intros [= <-]. rewrite ite3_cond_else. reflexivity. }
  destruct f as [[]|lf tf uf ef], g as [[]|lg tg ug eg], h as [[]|lh th uh eh];
    try (simpl in Egh; discriminate); try (simpl in Efg; discriminate); try (simpl in Efh; discriminate);
    simpl; try discriminate; intros [= <-];
    repeat match goal with |- context [sem (Node ?l ?t ?u ?e) a] => destruct (sem (Node l t u e) a) end;
    reflexivity.
Qed.

Lemma ite_shortcut_rec_inner : forall f g h,
  ite_shortcut f g h = SRec ->
  is_terminal f = false \/ is_terminal g = false \/ is_terminal h = false.
Proof.
  intros f g h. unfold ite_shortcut.
  destruct (tdd_eqb g h); [discriminate|]. destruct (tdd_eqb f g); [discriminate|].
  destruct (tdd_eqb f h); [discriminate|].
  destruct f as [[]|lf tf uf ef], g as [[]|lg tg ug eg], h as [[]|lh th uh eh]; simpl; auto; discriminate.
Qed.

Lemma ite_shortcut_wf : forall (P : tdd -> Prop) f g h,
  P f -> P g -> P h -> (forall v, P (Leaf v)) ->
  match ite_shortcut f g h with
  | SDone r => P r
  | SBin _ x y => P x /\ P y
  | SNot x => P x
  | SRec => True
  end.
Proof.
  intros P f g h Pf Pg Ph Pl. unfold ite_shortcut.
  destruct (tdd_eqb g h); [assumption|]. destruct (tdd_eqb f g); [auto|].
  destruct (tdd_eqb f h); [auto|].
  destruct f as [[]|lf tf uf ef], g as [[]|lg tg ug eg], h as [[]|lh th uh eh]; simpl; auto.
Qed.

Theorem apply_ite_sem : forall fuel f g h r,
  apply_ite gt fuel f g h = Some r ->
  forall a, sem r a = ite3 (sem f a) (sem g a) (sem h a).
Proof.
  induction fuel as [|k IH]; intros f g h r H a; simpl in H;
    pose proof (ite_shortcut_sound f g h a) as Hs;
    destruct (ite_shortcut f g h) as [r0|op x y|x|] eqn:Es; simpl in Hs;
    try (injection H as <-; rewrite <- (Hs _ eq_refl); auto using apply_not_sem; fail);
    try (rewrite <- (Hs _ eq_refl); eapply apply_bin_sem; exact H);
    try discriminate.
  destruct (lmin (lmin (level f) (level g)) (level h)) as [lv|]; [|discriminate].
  destruct (apply_ite gt k (cof lv TT f) (cof lv TT g) (cof lv TT h)) as [t|] eqn:E1; [|discriminate].
  destruct (apply_ite gt k (cof lv TU f) (cof lv TU g) (cof lv TU h)) as [u|] eqn:E2; [|discriminate].
  destruct (apply_ite gt k (cof lv TF f) (cof lv TF g) (cof lv TF h)) as [e|] eqn:E3; [|discriminate].
  injection H as <-. rewrite mk_sem, sem_node.
  rewrite (sem_cof lv f a), (sem_cof lv g a), (sem_cof lv h a).
  destruct (a lv); [apply (IH _ _ _ _ E3)|apply (IH _ _ _ _ E2)|apply (IH _ _ _ _ E1)].
Qed.

Lemma lmin3_some : forall f g h,
  (is_terminal f = false \/ is_terminal g = false \/ is_terminal h = false) ->
  exists lv, lmin (lmin (level f) (level g)) (level h) = Some lv /\
             (level f = Some lv \/ level g = Some lv \/ level h = Some lv) /\
             (forall l, level f = Some l -> lv <= l) /\ (forall l, level g = Some l -> lv <= l) /\
             (forall l, level h = Some l -> lv <= l).
Proof.
  intros f g h H.
  assert (Hsel : forall x y, lmin x y = x \/ lmin x y = y).
  { intros [x|] [y|]; simpl; auto. destruct (Nat.min_spec x y) as [[_ ->]|[_ ->]]; auto. }
  assert (Hle : forall x y lv l, lmin x y = Some lv -> (x = Some l \/ y = Some l) -> lv <= l).
  { intros [x|] [y|] lv l; simpl; intros [= <-] [[= <-]|[= <-]]; lia. }
  destruct (lmin (lmin (level f) (level g)) (level h)) as [lv|] eqn:E.
  - exists lv. split; [reflexivity|]. split.
    + destruct (Hsel (lmin (level f) (level g)) (level h)) as [E1|E1]; rewrite E1 in E; auto.
      destruct (Hsel (level f) (level g)) as [E2|E2]; rewrite E2 in E; auto.
    + destruct (lmin (level f) (level g)) as [m|] eqn:E2.
      * assert (lv <= m) by (apply (Hle _ _ _ _ E); auto).
        repeat split; intros l Hl.
        -- assert (m <= l) by (apply (Hle _ _ _ _ E2); auto). lia.
        -- assert (m <= l) by (apply (Hle _ _ _ _ E2); auto). lia.
        -- apply (Hle _ _ _ _ E); auto.
      * destruct (level f) eqn:Ef, (level g) eqn:Eg; simpl in E2; try discriminate.
        repeat split; intros l Hl; try discriminate. apply (Hle _ _ _ _ E); auto.
  - exfalso. destruct f, g, h; simpl in *; try discriminate.
    destruct H as [H|[H|H]]; discriminate.
Qed.

Theorem apply_ite_total : forall fuel f g h,
  height f + height g + height h <= fuel -> exists r, apply_ite gt fuel f g h = Some r.
Proof.
  induction fuel as [|k IH]; intros f g h Hh; simpl;
    destruct (ite_shortcut f g h) as [r0|op x y|x|] eqn:Es; eauto;
    try (apply apply_bin_total; apply le_n);
    apply ite_shortcut_rec_inner in Es;
    destruct (lmin3_some f g h Es) as (lv & Elv & Hl & _); try rewrite Elv.
  - exfalso. destruct Hl as [Hl|[Hl|Hl]];
      [destruct f|destruct g|destruct h]; simpl in *; try discriminate; lia.
  - assert (forall c, height (cof lv c f) + height (cof lv c g) + height (cof lv c h) <= k) as Hc.
    { intros c. pose proof (cof_height_le lv c f). pose proof (cof_height_le lv c g).
      pose proof (cof_height_le lv c h).
      destruct Hl as [Hl|[Hl|Hl]];
        [pose proof (cof_height_lt lv c f Hl)|pose proof (cof_height_lt lv c g Hl)
        |pose proof (cof_height_lt lv c h Hl)]; lia. }
    destruct (IH _ _ _ (Hc TT)) as [t ->]. destruct (IH _ _ _ (Hc TU)) as [u ->].
    destruct (IH _ _ _ (Hc TF)) as [e ->]. eauto.
Qed.

Theorem apply_ite_ordered : forall fuel f g h r n,
  ordered_from n f -> ordered_from n g -> ordered_from n h ->
  apply_ite gt fuel f g h = Some r -> ordered_from n r.
Proof.
  induction fuel as [|k IH]; intros f g h r n Of Og Oh H; simpl in H;
    pose proof (ite_shortcut_wf (ordered_from n) f g h Of Og Oh (fun _ => I)) as Hwf;
    destruct (ite_shortcut f g h) as [r0|op x y|x|] eqn:Es;
    try (injection H as <-; auto using apply_not_ordered; fail);
    try (destruct Hwf as [Hx Hy]; exact (apply_bin_ordered _ _ _ _ _ _ _ Hx Hy H));
    try discriminate.
  apply ite_shortcut_rec_inner in Es.
  destruct (lmin3_some f g h Es) as (lv & Elv & Hl & Hf & Hg & Hh). rewrite Elv in H.
  destruct (apply_ite gt k (cof lv TT f) (cof lv TT g) (cof lv TT h)) as [t|] eqn:E1; [|discriminate].
  destruct (apply_ite gt k (cof lv TU f) (cof lv TU g) (cof lv TU h)) as [u|] eqn:E2; [|discriminate].
  destruct (apply_ite gt k (cof lv TF f) (cof lv TF g) (cof lv TF h)) as [e|] eqn:E3; [|discriminate].
  injection H as <-.
  assert (n <= lv).
  { destruct Hl as [Hl|[Hl|Hl]]; [destruct f|destruct g|destruct h]; simpl in *; try discriminate;
      injection Hl as ->; lia. }
  apply mk_ordered; auto;
    [apply (IH _ _ _ _ _ (cof_ordered lv TT f n Of Hf) (cof_ordered lv TT g n Og Hg)
              (cof_ordered lv TT h n Oh Hh) E1)
    |apply (IH _ _ _ _ _ (cof_ordered lv TU f n Of Hf) (cof_ordered lv TU g n Og Hg)
              (cof_ordered lv TU h n Oh Hh) E2)
    |apply (IH _ _ _ _ _ (cof_ordered lv TF f n Of Hf) (cof_ordered lv TF g n Og Hg)
              (cof_ordered lv TF h n Oh Hh) E3)].
Qed.

Theorem apply_ite_reduced : forall fuel f g h r,
  reduced f -> reduced g -> reduced h -> apply_ite gt fuel f g h = Some r -> reduced r.
Proof.
  induction fuel as [|k IH]; intros f g h r Rf Rg Rh H; simpl in H;
    pose proof (ite_shortcut_wf reduced f g h Rf Rg Rh (fun _ => I)) as Hwf;
    destruct (ite_shortcut f g h) as [r0|op x y|x|] eqn:Es;
    try (injection H as <-; auto using apply_not_reduced; fail);
    try (destruct Hwf as [Hx Hy]; exact (apply_bin_reduced _ _ _ _ _ _ Hx Hy H));
    try discriminate.
  destruct (lmin (lmin (level f) (level g)) (level h)) as [lv|]; [|discriminate].
  destruct (apply_ite gt k (cof lv TT f) (cof lv TT g) (cof lv TT h)) as [t|] eqn:E1; [|discriminate].
  destruct (apply_ite gt k (cof lv TU f) (cof lv TU g) (cof lv TU h)) as [u|] eqn:E2; [|discriminate].
  destruct (apply_ite gt k (cof lv TF f) (cof lv TF g) (cof lv TF h)) as [e|] eqn:E3; [|discriminate].
  injection H as <-.
  apply mk_reduced;
    [exact (IH _ _ _ _ (cof_reduced lv TT f Rf) (cof_reduced lv TT g Rg) (cof_reduced lv TT h Rh) E1)
    |exact (IH _ _ _ _ (cof_reduced lv TU f Rf) (cof_reduced lv TU g Rg) (cof_reduced lv TU h Rh) E2)
    |exact (IH _ _ _ _ (cof_reduced lv TF f Rf) (cof_reduced lv TF g Rg) (cof_reduced lv TF h Rh) E3)].
Qed.

Lemma lmin3_below : forall n f g h lv, below n f -> below n g -> below n h ->
  lmin (lmin (level f) (level g)) (level h) = Some lv -> lv < n.
Proof.
  intros n [v|l t u e] [w|l' t' u' e'] [x|l'' t'' u'' e''] lv; simpl; try discriminate;
    intros Bf Bg Bh [= <-]; try lia.
Qed.

Theorem apply_ite_below : forall fuel f g h r n,
  below n f -> below n g -> below n h -> apply_ite gt fuel f g h = Some r -> below n r.
Proof.
  induction fuel as [|k IH]; intros f g h r n Bf Bg Bh H; simpl in H;
    pose proof (ite_shortcut_wf (below n) f g h Bf Bg Bh (fun _ => I)) as Hwf;
    destruct (ite_shortcut f g h) as [r0|op x y|x|] eqn:Es;
    try (injection H as <-; auto using apply_not_below; fail);
    try (destruct Hwf as [Hx Hy]; exact (apply_bin_below _ _ _ _ _ _ _ Hx Hy H));
    try discriminate.
  destruct (lmin (lmin (level f) (level g)) (level h)) as [lv|] eqn:Elv; [|discriminate].
  destruct (apply_ite gt k (cof lv TT f) (cof lv TT g) (cof lv TT h)) as [t|] eqn:E1; [|discriminate].
  destruct (apply_ite gt k (cof lv TU f) (cof lv TU g) (cof lv TU h)) as [u|] eqn:E2; [|discriminate].
  destruct (apply_ite gt k (cof lv TF f) (cof lv TF g) (cof lv TF h)) as [e|] eqn:E3; [|discriminate].
  injection H as <-.
  apply mk_below;
    [exact (lmin3_below n f g h lv Bf Bg Bh Elv)
    |exact (IH _ _ _ _ _ (cof_below lv TT f n Bf) (cof_below lv TT g n Bg) (cof_below lv TT h n Bh) E1)
    |exact (IH _ _ _ _ _ (cof_below lv TU f n Bf) (cof_below lv TU g n Bg) (cof_below lv TU h n Bh) E2)
    |exact (IH _ _ _ _ _ (cof_below lv TF f n Bf) (cof_below lv TF g n Bg) (cof_below lv TF h n Bh) E3)].
Qed.

Theorem apply_ite_auto_correct : forall f g h,
  exists r, apply_ite_auto gt f g h = Some r /\
    (forall a, sem r a = ite3 (sem f a) (sem g a) (sem h a)) /\
    (forall n, ordered_from n f -> ordered_from n g -> ordered_from n h -> ordered_from n r) /\
    (reduced f -> reduced g -> reduced h -> reduced r) /\
    (forall n, below n f -> below n g -> below n h -> below n r).
Proof.
  intros f g h.
  destruct (apply_ite_total (height f + height g + height h) f g h (le_n _)) as [r Hr].
  exists r. unfold apply_ite_auto. split; [exact Hr|]. repeat split.
  - eapply apply_ite_sem; eauto.
  - intros n Of Og Oh. exact (apply_ite_ordered _ _ _ _ _ _ Of Og Oh Hr).
  - intros Rf Rg Rh. exact (apply_ite_reduced _ _ _ _ _ Rf Rg Rh Hr).
  - intros n Bf Bg Bh. exact (apply_ite_below _ _ _ _ _ _ Bf Bg Bh Hr).
Qed.

(** The default [ite_edge] of the trait computes a different function
    (witness: if = then = else = ... pointwise U, T, T). *)
Theorem apply_ite_default_refuted : exists f g h r a,
  apply_ite_default gt f g h = Some r /\ sem r a <> ite3 (sem f a) (sem g a) (sem h a).
Proof. exists (Leaf TU), (Leaf TT), (Leaf TT), (Leaf TU), (fun _ => TF). split; [reflexivity|discriminate]. Qed.

End EdgeOrder.
