(** DD/TddAudit.v — package TDDx: the audits the generic decision-diagram checks
    (C01, C03, C05, C06, C14, C20) run on snapshots of real TDD managers
    (harness kind [tdd] of harness/src/bin/h_dd.rs, driver ocaml/dd_main.ml).

    Executable definitions only (specifications: DD/TddAuditProofs.v).

    - [t3_not], [t3_bin], [t3_ite]: the fixed tables of DD/Tdd.v under names of
      their own (the flat extraction of Extract/ExDD.v renames clashing
      identifiers such as [table]);
    - [td_value], [all_asg], [td_vtable]: the three-valued value of a reference
      under an assignment of the VARIABLES (read through the table's
      [level_to_var] map) and its value table over all 3^n assignments, in the
      index order the driver uses (digit v of the index in base 3 = child index
      taken at variable v: 0 true, 1 unknown, 2 false);
    - [td_node3_b], [td_wf3_b]: the structural invariant (C03) spelled out for
      ternary nodes: exactly the children (true, unknown, false) of
      [TDDRules::reduce] / [collect_children]
      (/repo/crates/oxidd-rules-tdd/src/lib.rs), untagged, strictly below the
      node, NOT all three equal (the reduction rule of [reduce]: "if t == u &&
      u == e return t"), stored level = listed level, per-level uniqueness,
      exactly the terminals False / Unknown / True;
    - [td_node_refs], [td_parents_to], [td_handles_to], [td_rc_b]: the
      reference-count audit (C05) for ternary nodes: the count reported by
      [InnerNode::ref_count] = number of handles holding the node + number of
      (true, unknown, false) child slots of stored nodes that point to it;
    - [td_no_handles_empty_b]: the state after "drop every handle; gc()". *)
From Coq Require Import List NArith PArith Bool Arith FMapPositive.
From OxiVerif Require Import DD.Table DD.Build DD.Apply DD.Tdd DD.ApplyTdd.
Import ListNotations.

(** * The fixed tables (spec of T3NOT / T3AND .. T3IMPS / T3ITE) *)

Definition t3_not (a : tri) : tri := k_not a.
Definition t3_bin (o : binop) (a b : tri) : tri := table o a b.
Definition t3_ite (a b c : tri) : tri := ite3 a b c.

(** * Value of a reference under an assignment of the variables *)

(** child index per LEVEL induced by an assignment of the variables ([eval_edge]:
    [choices[var_to_level(var)] = value]; true -> child 0, unknown -> 1, false -> 2) *)
Definition td_choice (s : snap) (av : nat -> tri) : nat -> nat :=
  fun l => match nth_error (s_l2v s) l with
           | Some v => choice_of (av v)
           | None => 0
           end.

(** [None]: dangling reference or a terminal code outside False/Unknown/True
    (excluded by [td_ok_b]) *)
Definition td_value (s : snap) (r : ref) (av : nat -> tri) : option tri :=
  match semk s (S (nlevels s)) r (td_choice s av) with
  | Some c => tdecode c
  | None => None
  end.

(** all assignments of the variables 0 .. n-1 (every other variable true); the
    assignment at position i takes at variable v the value of digit v of i in
    base 3 (0 true, 1 unknown, 2 false) *)
Fixpoint all_asg (n : nat) : list (nat -> tri) :=
  match n with
  | O => [fun _ => TT]
  | S k =>
    let r := all_asg k in
    map (fun a => upd a k TT) r ++ map (fun a => upd a k TU) r ++ map (fun a => upd a k TF) r
  end.

Definition td_vtable (s : snap) (r : ref) : list (option tri) :=
  map (td_value s r) (all_asg (nlevels s)).

(** * C03 for ternary nodes *)

(** one stored node: [nchildren] is exactly (t, u, e) *)
Definition td_node3_b (s : snap) (nd : node) : bool :=
  match nchildren nd with
  | [t; u; e] =>
    Nat.eqb (nstored nd) (nlevel nd)
    && Nat.ltb (nlevel nd) (nlevels s)
    && (ref_ok_b s (eref t) && Nat.ltb (nlevel nd) (rlevel s (eref t)))
    && (ref_ok_b s (eref u) && Nat.ltb (nlevel nd) (rlevel s (eref u)))
    && (ref_ok_b s (eref e) && Nat.ltb (nlevel nd) (rlevel s (eref e)))
    && (negb (etag t) && negb (etag u) && negb (etag e))
    && negb (ref_eqb (eref t) (eref u) && ref_eqb (eref u) (eref e))
  | _ => false
  end.

Definition td_terms3_b (s : snap) : bool :=
  forallb (fun p : N * N => N.leb (snd p) 2) (s_terms s)
  && existsb (fun p : N * N => N.eqb (snd p) 0) (s_terms s)
  && existsb (fun p : N * N => N.eqb (snd p) 1) (s_terms s)
  && existsb (fun p : N * N => N.eqb (snd p) 2) (s_terms s).

Definition td_handles_b (s : snap) : bool :=
  forallb (fun h : N * edge => ref_ok_b s (eref (snd h)) && negb (etag (snd h))) (s_handles s).

Definition td_wf3_b (s : snap) : bool :=
  kind_eqb (s_kind s) KTdd
  && perm_inverse_b (s_v2l s) (s_l2v s)
  && forallb (fun p => td_node3_b s (snd p)) (PositiveMap.elements (s_nodes s))
  && unique_nodes_b (PositiveMap.elements (s_nodes s))
  && terms_unique_b (s_terms s)
  && td_handles_b s
  && td_terms3_b s.

(** * C05 for ternary nodes *)

Definition ref_is (id : positive) (r : ref) : bool :=
  match r with RN j => Pos.eqb j id | RT _ => false end.

Definition b2n (b : bool) : nat := if b then 1 else 0.

(** how many of the three child slots of [nd] point to node [id] *)
Definition td_node_refs (id : positive) (nd : node) : nat :=
  match children3 nd with
  | Some (t, u, e) => b2n (ref_is id t) + b2n (ref_is id u) + b2n (ref_is id e)
  | None => 0
  end.

Definition td_parents_to (s : snap) (id : positive) : nat :=
  fold_right (fun p acc => td_node_refs id (snd p) + acc) 0 (PositiveMap.elements (s_nodes s)).

Definition td_handles_to (s : snap) (id : positive) : nat :=
  fold_right (fun h acc => b2n (ref_is id (eref (snd h))) + acc) 0 (s_handles s).

Definition td_rc_b (s : snap) : bool :=
  forallb (fun p => N.eqb (nrc (snd p)) (N.of_nat (td_handles_to s (fst p) + td_parents_to s (fst p))))
          (PositiveMap.elements (s_nodes s)).

(** everything the driver demands of a TDD snapshot *)
Definition td_audit_b (s : snap) : bool := td_wf3_b s && td_rc_b s.

(** after "drop every handle; gc()": no handle and no stored node *)
Definition td_no_handles_empty_b (s : snap) : bool :=
  match s_handles s, PositiveMap.elements (s_nodes s) with
  | [], [] => true
  | _, _ => false
  end.
