(** DD/TddAuditProofs.v — package TDDx: specifications of the audits of DD/TddAudit.v.

    C03: [td_wf3_b_spec] ([td_wf3_b] = [td_ok_b] = TdOK, as booleans on EVERY snapshot), [td_node3_shape].
    C05: [td_rc_b_spec], [td_rc_b_exact] (the ternary audit = the generic audit [rc_exact_b s []]),
         [td_no_dead_reachable], [td_dropall_empty].
    C01: [td_value_tfun], [all_asg_complete], [td_vtable_canon], [td_canon_tfun], [td_canon_handles].
    No axioms. *)
From Coq Require Import List NArith PArith Bool Arith Lia FMapPositive Btauto.
From OxiVerif Require Import DD.Table DD.TableExtra DD.TableProofs DD.Canon DD.Build DD.BuildProofs DD.Apply
  DD.ApplyProofs DD.Tdd DD.ApplyTdd DD.ApplyTddBase DD.ApplyTddProofs DD.ApplyTddTop DD.TddAudit.
Import ListNotations.

(** * The fixed tables *)

Lemma t3_not_spec : forall a, t3_not a = k_not a.
Proof. reflexivity. Qed.
Lemma t3_bin_spec : forall o a b, t3_bin o a b = table o a b.
Proof. reflexivity. Qed.
Lemma t3_ite_spec : forall a b c, t3_ite a b c = ite3 a b c.
Proof. reflexivity. Qed.

(** * C03: the invariant spelled out for ternary nodes *)

Lemma edge_eqb_untagged : forall a b, etag a = false -> etag b = false ->
  edge_eqb a b = ref_eqb (eref a) (eref b).
Proof. intros a b Ha Hb. unfold edge_eqb. rewrite Ha, Hb. simpl. apply andb_true_r. Qed.

Lemma td_node3_b_node_ok : forall s nd, s_kind s = KTdd -> td_node3_b s nd = node_ok_b s nd.
Proof.
  intros s nd K. unfold td_node3_b, node_ok_b, reduced_b, tags_ok_b. rewrite K. simpl arity.
  destruct (nchildren nd) as [|t [|u [|e [|x r]]]]; simpl; try reflexivity.
  unfold edge_eqb.
    destruct (etag t), (etag u), (etag e); simpl; rewrite ?andb_false_r, ?andb_true_r; try reflexivity;
      btauto.
Qed.

Lemma forallb_ext_eq : forall (A : Type) (f g : A -> bool) (l : list A),
  (forall x, f x = g x) -> forallb f l = forallb g l.
Proof. intros A f g l E. induction l as [|x r IH]; simpl; [reflexivity | rewrite E, IH; reflexivity]. Qed.

Theorem td_wf3_b_ok_b : forall s, td_wf3_b s = td_ok_b s.
Proof.
  intros s. unfold td_wf3_b, td_ok_b, wf_b, td_terms3_b.
  destruct (kind_eqb (s_kind s) KTdd) eqn:K.
  - assert (Hk : s_kind s = KTdd) by (destruct (s_kind s); simpl in K; congruence).
    assert (E1 : forallb (fun p : PositiveMap.key * node => td_node3_b s (snd p)) (PositiveMap.elements (s_nodes s))
                 = forallb (fun p : PositiveMap.key * node => node_ok_b s (snd p)) (PositiveMap.elements (s_nodes s))).
    { apply forallb_ext_eq. intros p. apply td_node3_b_node_ok. exact Hk. }
    assert (E2 : td_handles_b s = handles_ok_b s).
    { unfold td_handles_b, handles_ok_b. rewrite Hk. reflexivity. }
    rewrite E1, E2. btauto.
  - simpl. rewrite !andb_false_r. reflexivity.
Qed.

Theorem td_wf3_b_spec : forall s, td_wf3_b s = true <-> TdOK s.
Proof. intros s. rewrite td_wf3_b_ok_b. apply td_ok_b_spec. Qed.

(** what [td_node3_b] says of every stored node of a TdOK table, in Prop: exactly the
    children (true, unknown, false), untagged, stored, strictly below, NOT all three
    equal; and no second node with the same level and children *)
Theorem td_node3_shape : forall s id nd, TdOK s -> find_node s id = Some nd ->
  exists t u e, nchildren nd = [E t; E u; E e] /\ ~ (t = u /\ u = e) /\
    ref_ok s t /\ ref_ok s u /\ ref_ok s e /\
    nlevel nd < rlevel s t /\ nlevel nd < rlevel s u /\ nlevel nd < rlevel s e /\
    nstored nd = nlevel nd /\ nlevel nd < nlevels s.
Proof.
  intros s id nd B Ef. pose proof (to_wf s B) as H. pose proof (to_kind s B) as K.
  destruct (td_children s id nd B Ef) as [x [y [z Ech]]].
  assert (Tg : forall e, In e (nchildren nd) -> etag e = false).
  { intros e He. apply (wf_tags s H) with (id := id) (nd := nd); auto. rewrite K. discriminate. }
  assert (Hx : x = E (eref x)).
  { destruct x as [r tg]. unfold E. simpl. rewrite <- (Tg (mkEdge r tg)); [reflexivity | rewrite Ech; simpl; auto]. }
  assert (Hy : y = E (eref y)).
  { destruct y as [r tg]. unfold E. simpl. rewrite <- (Tg (mkEdge r tg)); [reflexivity | rewrite Ech; simpl; auto]. }
  assert (Hz : z = E (eref z)).
  { destruct z as [r tg]. unfold E. simpl. rewrite <- (Tg (mkEdge r tg)); [reflexivity | rewrite Ech; simpl; auto]. }
  exists (eref x), (eref y), (eref z).
  split; [rewrite Ech, <- Hx, <- Hy, <- Hz; reflexivity|].
  split.
  - intros [A C]. pose proof (wf_reduced s H id nd Ef) as R. unfold reduced in R. rewrite K in R.
    apply R. rewrite Ech. intros a b Ha Hb. simpl in Ha, Hb.
    assert (X : forall w, x = w \/ y = w \/ z = w \/ False -> w = x).
    { intros w [W|[W|[W|[]]]]; subst w; [reflexivity | | ].
      - rewrite Hx, Hy, A. reflexivity.
      - rewrite Hx, Hz, A, C. reflexivity. }
    rewrite (X a Ha), (X b Hb). reflexivity.
  - destruct (wf_child s H id nd x Ef) as [Ox Lx]; [rewrite Ech; simpl; auto|].
    destruct (wf_child s H id nd y Ef) as [Oy Ly]; [rewrite Ech; simpl; auto|].
    destruct (wf_child s H id nd z Ef) as [Oz Lz]; [rewrite Ech; simpl; auto|].
    repeat split; auto.
    + apply (wf_stored s H id nd Ef).
    + apply (wf_level s H id nd Ef).
Qed.

Theorem td_unique_table : forall s id1 id2 n1 n2, TdOK s ->
  find_node s id1 = Some n1 -> find_node s id2 = Some n2 ->
  nlevel n1 = nlevel n2 -> nchildren n1 = nchildren n2 -> id1 = id2.
Proof. intros s id1 id2 n1 n2 B. apply (wf_unique s (to_wf s B)). Qed.

(** TdOK is the hypothesis of the generic theorems too *)
Theorem td_ok_wf_full : forall s, td_ok_b s = true -> wf_full_b s = true.
Proof.
  intros s Hb. pose proof (proj1 (td_ok_b_spec s) Hb) as B. unfold wf_full_b.
  rewrite (proj2 (wf_b_spec s) (to_wf s B)). unfold terms_kind_b. rewrite (to_kind s B). reflexivity.
Qed.

(** * C05: the reference-count audit for ternary nodes *)

Lemma b2n_ref_is : forall id r, b2n (ref_is id r) = refs_to id [r].
Proof.
  intros id r. unfold refs_to. simpl. destruct (ref_eq_dec r (RN id)) as [->|N].
  - simpl. rewrite Pos.eqb_refl. reflexivity.
  - destruct r as [t|j]; simpl; [reflexivity|].
    destruct (Pos.eqb j id) eqn:Ej; [apply Pos.eqb_eq in Ej; subst; congruence | reflexivity].
Qed.

Lemma td_handles_to_refs : forall s id, td_handles_to s id = refs_to id (handle_refs s).
Proof.
  intros s id. unfold td_handles_to, handle_refs.
  induction (s_handles s) as [|h r IH]; simpl; [reflexivity|].
  rewrite IH, b2n_ref_is. symmetry. apply refs_to_cons.
Qed.

Lemma td_node_refs_spec : forall id nd t u e, nchildren nd = [t; u; e] ->
  td_node_refs id nd = refs_to id (map eref (nchildren nd)).
Proof.
  intros id nd t u e Ech. unfold td_node_refs, children3. rewrite Ech. simpl map.
  rewrite !b2n_ref_is, (refs_to_cons id (eref t) (_ :: _)), (refs_to_cons id (eref u) (_ :: _)). lia.
Qed.

Lemma td_parents_to_refs : forall s id, TdOK s -> td_parents_to s id = refs_to id (child_refs s).
Proof.
  intros s id B. unfold td_parents_to, child_refs.
  assert (A : forall p, In p (PositiveMap.elements (s_nodes s)) -> exists t u e, nchildren (snd p) = [t; u; e]).
  { intros [j nd] Hp. apply find_node_elements in Hp. apply (td_children s j nd B Hp). }
  induction (PositiveMap.elements (s_nodes s)) as [|p r IH]; simpl; [reflexivity|].
  rewrite refs_to_app, IH by (intros q Hq; apply A; right; exact Hq).
  destruct (A p (or_introl eq_refl)) as [t [u [e Ech]]].
  rewrite (td_node_refs_spec id (snd p) t u e Ech). reflexivity.
Qed.

(** [td_rc_b] decides the counting equation for ternary nodes (no hypothesis) *)
Theorem td_rc_b_spec : forall s,
  td_rc_b s = true <->
  forall id nd, find_node s id = Some nd ->
    nrc nd = N.of_nat (td_handles_to s id + td_parents_to s id).
Proof.
  intros s. unfold td_rc_b. rewrite forallb_forall. split.
  - intros A id nd Ef. apply find_node_elements in Ef. specialize (A (id, nd) Ef). simpl in A.
    apply N.eqb_eq in A. exact A.
  - intros A [id nd] Hp. simpl. apply N.eqb_eq. apply A. apply find_node_elements. exact Hp.
Qed.

(** on a TDD table the ternary audit IS the generic audit of DD/Table.v (as booleans) *)
Theorem td_rc_b_exact : forall s, TdOK s -> td_rc_b s = rc_exact_b s [].
Proof.
  intros s B. apply eq_true_iff_eq. rewrite td_rc_b_spec, rc_exact_b_spec. unfold rc_exact.
  assert (Z : forall id, refs_to id (map eref []) = 0) by reflexivity.
  split; intros A id nd Ef; specialize (A id nd Ef); rewrite A;
    rewrite td_handles_to_refs, (td_parents_to_refs s id B), Z; f_equal; lia.
Qed.

(** the counting equation in terms of owners: handles holding the node and (true, unknown,
    false) child slots of stored nodes pointing to it *)
Theorem td_rc_owners : forall s, TdOK s -> td_rc_b s = true ->
  forall id nd, find_node s id = Some nd ->
    nrc nd = N.of_nat (refs_to id (handle_refs s) + refs_to id (child_refs s)).
Proof.
  intros s B R id nd Ef. rewrite (proj1 (td_rc_b_spec s) R id nd Ef), td_handles_to_refs, (td_parents_to_refs s id B).
  reflexivity.
Qed.

(** exact counts and no zero count (the state right after a collection): every stored node
    is reachable from a handle, i.e. the collection left exactly the referenced nodes *)
Theorem td_no_dead_reachable : forall s, TdOK s -> td_rc_b s = true -> no_dead_b s = true ->
  forall id nd, find_node s id = Some nd -> reachable s (handle_refs s) (RN id).
Proof.
  intros s B R D id nd Ef. rewrite (td_rc_b_exact s B) in R.
  pose proof (no_dead_reachable s [] (to_wf s B) R D id nd Ef) as X. simpl in X. rewrite app_nil_r in X. exact X.
Qed.

Lemma reachable_nil : forall s r, ~ reachable s [] r.
Proof. intros s r R. induction R as [r Hin|id nd e R IH Ef He]; [destruct Hin | exact IH]. Qed.

(** "drop every handle; gc()": nothing may remain *)
Theorem td_dropall_empty : forall s, TdOK s -> td_rc_b s = true -> no_dead_b s = true ->
  s_handles s = [] -> forall id, find_node s id = None.
Proof.
  intros s B R D Hh id. destruct (find_node s id) as [nd|] eqn:Ef; [|reflexivity]. exfalso.
  pose proof (td_no_dead_reachable s B R D id nd Ef) as X. unfold handle_refs in X. rewrite Hh in X.
  exact (reachable_nil s _ X).
Qed.

Theorem td_no_handles_empty_b_spec : forall s,
  td_no_handles_empty_b s = true <-> s_handles s = [] /\ forall id, find_node s id = None.
Proof.
  intros s. unfold td_no_handles_empty_b. split.
  - destruct (s_handles s) as [|h r]; [|discriminate].
    destruct (PositiveMap.elements (s_nodes s)) as [|p l] eqn:El; [|discriminate]. intros _. split; [reflexivity|].
    intros id. destruct (find_node s id) as [nd|] eqn:Ef; [|reflexivity].
    apply find_node_elements in Ef. rewrite El in Ef. destruct Ef.
  - intros [Hh A]. rewrite Hh. destruct (PositiveMap.elements (s_nodes s)) as [|[j nd] l] eqn:El; [reflexivity|].
    assert (X : find_node s j = Some nd) by (apply find_node_elements; rewrite El; left; reflexivity).
    rewrite A in X. discriminate.
Qed.

(** * C01: value tables over the assignments of the VARIABLES *)

Lemma td_choice_chc : forall s av l, td_choice s av l = chc (lvl_asg s av) l.
Proof. intros s av l. unfold td_choice, chc, lvl_asg. destruct (nth_error (s_l2v s) l); reflexivity. Qed.

(** the interpretation reads the choice function below [nlevels] only *)
Lemma semk_ext_below : forall s, WF s -> forall f r c c',
  (forall l, l < nlevels s -> c l = c' l) -> semk s f r c = semk s f r c'.
Proof.
  intros s H. induction f as [|f IH]; intros r c c' Hcc.
  - destruct r as [t|id]; [rewrite !semk_T; reflexivity | reflexivity].
  - destruct r as [t|id]; [rewrite !semk_T; reflexivity|].
    rewrite !semk_S. destruct (find_node s id) as [nd|] eqn:Ef; [|reflexivity].
    rewrite <- (Hcc (nlevel nd) (wf_level s H id nd Ef)).
    destruct (nth_error (nchildren nd) (c (nlevel nd))) as [e|]; [|reflexivity].
    apply IH. exact Hcc.
Qed.

(** [td_value] is total on a TdOK table and equals the function [tfun_of] of DD/ApplyTddTop.v *)
Theorem td_value_tfun : forall s r, TdOK s -> ref_ok s r ->
  forall av, td_value s r av = Some (tfun_of s r av).
Proof.
  intros s r B Hr av. destruct (dent_exists s r B Hr) as [phi D].
  rewrite (tfun_of_den s r phi D). unfold td_value.
  rewrite (semk_ext_below s (to_wf s B) _ r (td_choice s av) (chc (lvl_asg s av)))
    by (intros l _; apply td_choice_chc).
  rewrite (proj2 D (lvl_asg s av)). apply tdecode_tcode.
Qed.

(** the variable of a level below [nlevels] is below [nlevels] and sits on that level *)
Lemma l2v_below : forall s, WF s -> forall l, l < nlevels s ->
  exists v, nth_error (s_l2v s) l = Some v /\ nth_error (s_v2l s) v = Some l /\ v < nlevels s.
Proof.
  intros s H l Hl. destruct (wf_perm_l2v s H l Hl) as [v [A C]]. exists v. split; [exact A|]. split; [exact C|].
  unfold nlevels. rewrite <- (wf_perm_len s H). apply nth_error_Some. congruence.
Qed.

Lemma td_value_ext : forall s r av av', TdOK s ->
  (forall v, v < nlevels s -> av v = av' v) -> td_value s r av = td_value s r av'.
Proof.
  intros s r av av' B A. unfold td_value.
  rewrite (semk_ext_below s (to_wf s B) _ r (td_choice s av) (td_choice s av')); [reflexivity|].
  intros l Hl. unfold td_choice. destruct (l2v_below s (to_wf s B) l Hl) as [v [E1 [_ Hv]]].
  rewrite E1, (A v Hv). reflexivity.
Qed.

(** every level assignment is induced by an assignment of the variables (below [nlevels]) *)
Definition var_asg (s : snap) (a : assignment) : nat -> tri :=
  fun v => match nth_error (s_v2l s) v with Some l => a l | None => TT end.

Lemma lvl_var_asg : forall s a l, WF s -> l < nlevels s -> lvl_asg s (var_asg s a) l = a l.
Proof.
  intros s a l H Hl. destruct (l2v_below s H l Hl) as [v [E1 [E2 _]]].
  unfold lvl_asg, var_asg. rewrite E1, E2. reflexivity.
Qed.

(** ** canonicity: equal references iff equal three-valued functions of the variables *)
Theorem td_canon_tfun : forall s r1 r2, TdOK s -> ref_ok s r1 -> ref_ok s r2 ->
  (r1 = r2 <-> forall av, tfun_of s r1 av = tfun_of s r2 av).
Proof.
  intros s r1 r2 B H1 H2. split; [intros ->; reflexivity|]. intros A.
  destruct (dent_exists s r1 B H1) as [phi1 D1]. destruct (dent_exists s r2 B H2) as [phi2 D2].
  apply (dent_canon s r1 r2 phi1 B D1). split; [exact H2|]. intros a.
  rewrite (proj2 D2 a). f_equal. f_equal.
  (* phi2 a = phi1 a: both are read off the variable assignment that [a] induces *)
  assert (P : forall r phi, DenT s r phi -> phi a = phi (lvl_asg s (var_asg s a))).
  { intros r phi D. apply tcode_inj. assert (X : Some (tcode (phi a)) = Some (tcode (phi (lvl_asg s (var_asg s a))))).
    { rewrite <- (proj2 D a), <- (proj2 D (lvl_asg s (var_asg s a))).
      apply (semk_ext_below s (to_wf s B)). intros l Hl. unfold chc.
      rewrite (lvl_var_asg s a l (to_wf s B) Hl). reflexivity. }
    congruence. }
  rewrite (P r2 phi2 D2), (P r1 phi1 D1).
  rewrite <- (tfun_of_den s r2 phi2 D2), <- (tfun_of_den s r1 phi1 D1). symmetry. apply A.
Qed.

(** ** the finite table decides it *)

Lemma all_asg_complete : forall n av, exists a, In a (all_asg n) /\ forall v, v < n -> a v = av v.
Proof.
  induction n as [|k IH]; intros av.
  - exists (fun _ => TT). split; [left; reflexivity | intros v Hv; lia].
  - destruct (IH av) as [a0 [I0 A0]]. exists (upd a0 k (av k)). split.
    + simpl. rewrite !in_app_iff, !in_map_iff.
      destruct (av k); [right; right | right; left | left]; exists a0; auto.
    + intros v Hv. unfold upd. destruct (Nat.eqb v k) eqn:Ev.
      * apply Nat.eqb_eq in Ev. subst. reflexivity.
      * apply Nat.eqb_neq in Ev. apply A0. lia.
Qed.

Lemma all_asg_length : forall n, length (all_asg n) = 3 ^ n.
Proof.
  induction n as [|k IH]; [reflexivity|].
  change (all_asg (S k)) with (map (fun a => upd a k TT) (all_asg k) ++ map (fun a => upd a k TU) (all_asg k)
                               ++ map (fun a => upd a k TF) (all_asg k)).
  rewrite !app_length, !map_length, Nat.pow_succ_r'. unfold assignment in *. rewrite IH. lia.
Qed.

Lemma map_eq_In : forall (A B : Type) (f g : A -> B) l x, map f l = map g l -> In x l -> f x = g x.
Proof.
  intros A B f g l x. induction l as [|y r IH]; simpl; intros E Hin; [destruct Hin|].
  injection E as E1 E2. destruct Hin as [->|Hin]; auto.
Qed.

Theorem td_vtable_length : forall s r, length (td_vtable s r) = 3 ^ nlevels s.
Proof. intros s r. unfold td_vtable. rewrite map_length. apply all_asg_length. Qed.

(** two references of a TdOK table are equal IFF their value tables over the 3^n
    assignments of the variables are equal: the comparison the driver performs on every
    snapshot decides equality of the three-valued functions *)
Theorem td_vtable_canon : forall s r1 r2, TdOK s -> ref_ok s r1 -> ref_ok s r2 ->
  (r1 = r2 <-> td_vtable s r1 = td_vtable s r2).
Proof.
  intros s r1 r2 B H1 H2. split; [intros ->; reflexivity|]. intros Et.
  apply (td_canon_tfun s r1 r2 B H1 H2). intros av.
  destruct (all_asg_complete (nlevels s) av) as [a [Ia Aa]].
  pose proof (map_eq_In _ _ _ _ _ a Et Ia) as X.
  rewrite (td_value_ext s r1 a av B Aa), (td_value_ext s r2 a av B Aa) in X.
  rewrite (td_value_tfun s r1 B H1), (td_value_tfun s r2 B H2) in X. congruence.
Qed.

(** no entry of the table is undefined *)
Theorem td_vtable_total : forall s r, TdOK s -> ref_ok s r -> ~ In None (td_vtable s r).
Proof.
  intros s r B Hr Hin. unfold td_vtable in Hin. apply in_map_iff in Hin. destruct Hin as [a [E _]].
  rewrite (td_value_tfun s r B Hr) in E. discriminate.
Qed.

(** handles: == of two handles (same edge) iff same value table *)
Theorem td_canon_handles : forall s, TdOK s ->
  forall h1 h2, In h1 (s_handles s) -> In h2 (s_handles s) ->
  (snd h1 = snd h2 <-> td_vtable s (eref (snd h1)) = td_vtable s (eref (snd h2))).
Proof.
  intros s B h1 h2 I1 I2. pose proof (to_wf s B) as H.
  destruct (wf_handles s H h1 I1) as [O1 T1]. destruct (wf_handles s H h2 I2) as [O2 T2].
  assert (K : s_kind s <> KBcdd) by (rewrite (to_kind s B); discriminate).
  specialize (T1 K). specialize (T2 K).
  rewrite <- (td_vtable_canon s _ _ B O1 O2). split; [intros ->; reflexivity|].
  destruct (snd h1) as [r1 t1], (snd h2) as [r2 t2]. simpl in *. intros ->. subst. reflexivity.
Qed.

Theorem td_canon_handles_tfun : forall s, TdOK s ->
  forall h1 h2, In h1 (s_handles s) -> In h2 (s_handles s) ->
  (snd h1 = snd h2 <-> forall av, tfun_of s (eref (snd h1)) av = tfun_of s (eref (snd h2)) av).
Proof.
  intros s B h1 h2 I1 I2. pose proof (to_wf s B) as H.
  destruct (wf_handles s H h1 I1) as [O1 T1]. destruct (wf_handles s H h2 I2) as [O2 T2].
  assert (K : s_kind s <> KBcdd) by (rewrite (to_kind s B); discriminate).
  specialize (T1 K). specialize (T2 K).
  rewrite <- (td_canon_tfun s _ _ B O1 O2). split; [intros ->; reflexivity|].
  destruct (snd h1) as [r1 t1], (snd h2) as [r2 t2]. simpl in *. intros ->. subst. reflexivity.
Qed.

(** ** the order of the table: entry i belongs to the assignment whose value at variable v is
    digit v of i in base 3 (0 true, 1 unknown, 2 false) -- the index the driver uses *)
Definition tri_of_digit (d : nat) : tri := match d with 0 => TT | 1 => TU | _ => TF end.

Lemma digit_shift : forall k v i m, v < k -> ((i + m * 3 ^ k) / 3 ^ v) mod 3 = (i / 3 ^ v) mod 3.
Proof.
  intros k v i m Hv.
  assert (E : 3 ^ k = 3 ^ (k - v - 1) * 3 * 3 ^ v).
  { replace k with ((k - v - 1) + 1 + v) at 1 by lia. rewrite !Nat.pow_add_r. simpl. lia. }
  rewrite E. replace (i + m * (3 ^ (k - v - 1) * 3 * 3 ^ v)) with (i + (m * 3 ^ (k - v - 1) * 3) * 3 ^ v) by lia.
  rewrite Nat.div_add by (apply Nat.pow_nonzero; lia).
  rewrite Nat.mod_add by lia. reflexivity.
Qed.

Lemma digit_top : forall k i m, i < 3 ^ k -> m < 3 -> ((i + m * 3 ^ k) / 3 ^ k) mod 3 = m.
Proof.
  intros k i m Hi Hm. rewrite Nat.div_add by (apply Nat.pow_nonzero; lia).
  rewrite (Nat.div_small i) by exact Hi. rewrite Nat.add_0_l. apply Nat.mod_small. exact Hm.
Qed.

Lemma nth_error_map_upd : forall (l : list (nat -> tri)) k x i a,
  nth_error l i = Some a -> nth_error (map (fun a => upd a k x) l) i = Some (upd a k x).
Proof. intros l k x i a E. apply (map_nth_error (fun a : nat -> tri => upd a k x)). exact E. Qed.

Theorem all_asg_nth : forall n i, i < 3 ^ n ->
  exists a, nth_error (all_asg n) i = Some a /\
            forall v, a v = if Nat.ltb v n then tri_of_digit ((i / 3 ^ v) mod 3) else TT.
Proof.
  induction n as [|k IH]; intros i Hi.
  - simpl in Hi. assert (i = 0) by lia. subst. exists (fun _ => TT). split; [reflexivity|]. intros v. reflexivity.
  - rewrite Nat.pow_succ_r' in Hi.
    change (all_asg (S k)) with (map (fun a => upd a k TT) (all_asg k) ++ map (fun a => upd a k TU) (all_asg k)
                                 ++ map (fun a => upd a k TF) (all_asg k)).
    assert (Len : forall x, length (map (fun a : nat -> tri => upd a k x) (all_asg k)) = 3 ^ k).
    { intros x. rewrite map_length. apply all_asg_length. }
    assert (Fin : forall m x j, j < 3 ^ k -> m < 3 -> x = tri_of_digit m ->
              exists a0, nth_error (all_asg k) j = Some a0 /\
              forall v, upd a0 k x v = if Nat.ltb v (S k) then tri_of_digit (((j + m * 3 ^ k) / 3 ^ v) mod 3) else TT).
    { intros m x j Hj Hm Hx. destruct (IH j Hj) as [a0 [E0 A0]]. exists a0. split; [exact E0|].
      intros v. unfold upd. destruct (Nat.eqb v k) eqn:Ev.
      - apply Nat.eqb_eq in Ev. subst v. replace (Nat.ltb k (S k)) with true by (symmetry; apply Nat.ltb_lt; lia).
        rewrite (digit_top k j m Hj Hm). exact Hx.
      - apply Nat.eqb_neq in Ev. rewrite A0. destruct (Nat.ltb v k) eqn:Lv.
        + apply Nat.ltb_lt in Lv. replace (Nat.ltb v (S k)) with true by (symmetry; apply Nat.ltb_lt; lia).
          rewrite (digit_shift k v j m Lv). reflexivity.
        + apply Nat.ltb_ge in Lv. replace (Nat.ltb v (S k)) with false by (symmetry; apply Nat.ltb_ge; lia).
          reflexivity. }
    destruct (Nat.lt_ge_cases i (3 ^ k)) as [C0|C0].
    + destruct (Fin 0 TT i C0 ltac:(lia) eq_refl) as [a0 [E0 A0]].
      exists (upd a0 k TT). split.
      * rewrite nth_error_app1 by (rewrite Len; exact C0). apply nth_error_map_upd. exact E0.
      * intros v. rewrite A0. replace (i + 0 * 3 ^ k) with i by lia. reflexivity.
    + rewrite nth_error_app2 by (rewrite Len; exact C0). rewrite Len.
      destruct (Nat.lt_ge_cases (i - 3 ^ k) (3 ^ k)) as [C1|C1].
      * destruct (Fin 1 TU (i - 3 ^ k) C1 ltac:(lia) eq_refl) as [a0 [E0 A0]].
        exists (upd a0 k TU). split.
        -- rewrite nth_error_app1 by (rewrite Len; exact C1). apply nth_error_map_upd. exact E0.
        -- intros v. rewrite A0. replace (i - 3 ^ k + 1 * 3 ^ k) with i by lia. reflexivity.
      * rewrite nth_error_app2 by (rewrite Len; exact C1). rewrite Len.
        destruct (Fin 2 TF (i - 3 ^ k - 3 ^ k) ltac:(lia) ltac:(lia) eq_refl) as [a0 [E0 A0]].
        exists (upd a0 k TF). split.
        -- apply nth_error_map_upd. exact E0.
        -- intros v. rewrite A0. replace (i - 3 ^ k - 3 ^ k + 2 * 3 ^ k) with i by lia. reflexivity.
Qed.

Theorem td_vtable_nth : forall s r i, i < 3 ^ nlevels s ->
  exists a, nth_error (td_vtable s r) i = Some (td_value s r a) /\
            forall v, a v = if Nat.ltb v (nlevels s) then tri_of_digit ((i / 3 ^ v) mod 3) else TT.
Proof.
  intros s r i Hi. destruct (all_asg_nth (nlevels s) i Hi) as [a [E A]]. exists a. split; [|exact A].
  unfold td_vtable. apply (map_nth_error (td_value s r)). exact E.
Qed.

(** the table in one statement *)
Theorem td_vtable_shape : forall s r, TdOK s -> ref_ok s r ->
  length (td_vtable s r) = 3 ^ nlevels s /\ ~ In None (td_vtable s r) /\
  (forall av, td_value s r av = Some (tfun_of s r av)) /\
  forall i, i < 3 ^ nlevels s ->
    exists a, nth_error (td_vtable s r) i = Some (td_value s r a) /\
              forall v, a v = if Nat.ltb v (nlevels s) then tri_of_digit ((i / 3 ^ v) mod 3) else TT.
Proof.
  intros s r B Hr. split; [apply td_vtable_length|]. split; [apply (td_vtable_total s r B Hr)|].
  split; [apply (td_value_tfun s r B Hr) | apply td_vtable_nth].
Qed.
