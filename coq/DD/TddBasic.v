(** DD/TddBasic.v — basic facts about diagrams (reduction rule, cofactors, orderedness, reducedness), constants, variables, negation
    (part of the proofs about the model DD/Tdd.v, property C11; re-exported by DD/TddProofs.v). *)
From Coq Require Import Bool Arith List Lia NArith ZArith.
From OxiVerif Require Import DD.Tdd DD.TddTables.
Import ListNotations.

(* ------------------------------------------------------------------------ *)
(** * 2. Basic facts about diagrams *)

Lemma tdd_eqb_eq : forall f g, tdd_eqb f g = true <-> f = g.
Proof.
  induction f as [v|l t IHt u IHu e IHe]; intros [w|l' t' u' e']; simpl;
    try (split; [discriminate|congruence]).
  - rewrite tri_eqb_eq. split; congruence.
  - rewrite !andb_true_iff, Nat.eqb_eq, IHt, IHu, IHe.
    split; [intros [[[-> ->] ->] ->]; reflexivity|intros H; inversion H; auto].
Qed.

Lemma tdd_eqb_refl : forall f, tdd_eqb f f = true.
Proof. intros f. apply tdd_eqb_eq. reflexivity. Qed.

Lemma tdd_eqb_neq : forall f g, tdd_eqb f g = false <-> f <> g.
Proof.
  intros f g. destruct (tdd_eqb f g) eqn:E.
  - apply tdd_eqb_eq in E. split; [discriminate|congruence].
  - split; [|reflexivity]. intros _ H. apply tdd_eqb_eq in H. congruence.
Qed.

Lemma is_leaf_true : forall v f, is_leaf v f = true <-> f = Leaf v.
Proof.
  intros v [w|l t u e]; simpl.
  - rewrite tri_eqb_eq. split; congruence.
  - split; discriminate.
Qed.

Lemma sem_node : forall l t u e a,
  sem (Node l t u e) a = match a l with TT => sem t a | TU => sem u a | TF => sem e a end.
Proof. reflexivity. Qed.

(** The reduction rule does not change the denoted function. *)
Lemma mk_sem : forall l t u e a, sem (mk l t u e) a = sem (Node l t u e) a.
Proof.
  intros. unfold mk. destruct (tdd_eqb t u && tdd_eqb u e) eqn:E; [|reflexivity].
  apply andb_true_iff in E. destruct E as [E1 E2].
  apply tdd_eqb_eq in E1. apply tdd_eqb_eq in E2. subst. simpl. destruct (a l); reflexivity.
Qed.

(** Ternary Shannon expansion w.r.t. an arbitrary level [lv]. *)
Lemma sem_cof : forall lv f a, sem f a = sem (cof lv (a lv) f) a.
Proof.
  intros lv [v|l t u e] a; simpl; [reflexivity|].
  destruct (Nat.eqb_spec l lv) as [->|]; [|reflexivity].
  destruct (a lv); reflexivity.
Qed.

(** ** Orderedness and reducedness *)

(** Levels strictly increase along every path and are all [>= n]. *)
Fixpoint ordered_from (n : nat) (f : tdd) : Prop :=
  match f with
  | Leaf _ => True
  | Node l t u e => n <= l /\ ordered_from (S l) t /\ ordered_from (S l) u /\ ordered_from (S l) e
  end.

Definition ordered (f : tdd) : Prop := ordered_from 0 f.

(** No node with three equal children. *)
Fixpoint reduced (f : tdd) : Prop :=
  match f with
  | Leaf _ => True
  | Node _ t u e => ~ (t = u /\ u = e) /\ reduced t /\ reduced u /\ reduced e
  end.

(** All levels are below [n] (the diagram lives in a manager with [n] levels). *)
Fixpoint below (n : nat) (f : tdd) : Prop :=
  match f with
  | Leaf _ => True
  | Node l t u e => l < n /\ below n t /\ below n u /\ below n e
  end.

Lemma ordered_from_mono : forall f n m, m <= n -> ordered_from n f -> ordered_from m f.
Proof. intros [v|l t u e] n m Hle; simpl; [auto|]. intros (H1 & H2). split; [lia|exact H2]. Qed.

Lemma ordered_from_level : forall f n k,
  ordered_from n f -> (forall l, level f = Some l -> k <= l) -> ordered_from k f.
Proof.
  intros [v|l t u e] n k; simpl; [auto|]. intros (H1 & H2) Hk. split; [|exact H2].
  apply Hk. reflexivity.
Qed.

Lemma mk_ordered : forall n l t u e, n <= l ->
  ordered_from (S l) t -> ordered_from (S l) u -> ordered_from (S l) e ->
  ordered_from n (mk l t u e).
Proof.
  intros. unfold mk. destruct (tdd_eqb t u && tdd_eqb u e).
  - apply ordered_from_mono with (S l); [lia|assumption].
  - simpl. auto.
Qed.

Lemma mk_reduced : forall l t u e, reduced t -> reduced u -> reduced e -> reduced (mk l t u e).
Proof.
  intros. unfold mk. destruct (tdd_eqb t u && tdd_eqb u e) eqn:E; [assumption|].
  simpl. repeat split; try assumption. intros [E1 E2].
  apply tdd_eqb_eq in E1. apply tdd_eqb_eq in E2. rewrite E1, E2 in E. discriminate.
Qed.

Lemma mk_below : forall n l t u e, l < n -> below n t -> below n u -> below n e -> below n (mk l t u e).
Proof.
  intros. unfold mk. destruct (tdd_eqb t u && tdd_eqb u e); [assumption|]. simpl. auto.
Qed.

Lemma cof_ordered : forall lv k f n,
  ordered_from n f -> (forall l, level f = Some l -> lv <= l) -> ordered_from (S lv) (cof lv k f).
Proof.
  intros lv k [v|l t u e] n; simpl; [auto|]. intros (H1 & Ht & Hu & He) Hl.
  specialize (Hl l eq_refl).
  destruct (Nat.eqb_spec l lv) as [->|Hne].
  - destruct k; assumption.
  - simpl. split; [lia|auto].
Qed.

Lemma cof_reduced : forall lv k f, reduced f -> reduced (cof lv k f).
Proof.
  intros lv k [v|l t u e]; simpl; [auto|]. intros (H0 & Ht & Hu & He).
  destruct (Nat.eqb l lv); [destruct k; assumption|]. simpl. auto.
Qed.

Lemma cof_below : forall lv k f n, below n f -> below n (cof lv k f).
Proof.
  intros lv k [v|l t u e] n; simpl; [auto|]. intros (H0 & Ht & Hu & He).
  destruct (Nat.eqb l lv); [destruct k; assumption|]. simpl. auto.
Qed.

Lemma cof_height_le : forall lv k f, height (cof lv k f) <= height f.
Proof.
  intros lv k [v|l t u e]; simpl; [lia|].
  destruct (Nat.eqb l lv); [destruct k; lia|simpl; lia].
Qed.

Lemma cof_height_lt : forall lv k f, level f = Some lv -> height (cof lv k f) < height f.
Proof.
  intros lv k [v|l t u e]; simpl; [discriminate|]. intros [= ->].
  rewrite Nat.eqb_refl. destruct k; lia.
Qed.

(** The function of an ordered diagram does not depend on levels above it. *)
Lemma sem_indep : forall f n a l v, ordered_from n f -> l < n -> sem f (upd a l v) = sem f a.
Proof.
  induction f as [w|l0 t IHt u IHu e IHe]; intros n a l v Ho Hl; [reflexivity|].
  simpl in Ho. destruct Ho as (H1 & Ht & Hu & He).
  rewrite !sem_node. unfold upd at 1. destruct (Nat.eqb_spec l0 l); [lia|].
  rewrite (IHt (S l0)), (IHu (S l0)), (IHe (S l0)) by (assumption || lia). reflexivity.
Qed.

Lemma upd_same : forall a l v, upd a l v l = v.
Proof. intros. unfold upd. rewrite Nat.eqb_refl. reflexivity. Qed.

Lemma upd_other : forall a l v x, x <> l -> upd a l v x = a x.
Proof. intros. unfold upd. destruct (Nat.eqb_spec x l); congruence. Qed.

(* ------------------------------------------------------------------------ *)
(** * 3. Constants, variables, negation *)

Lemma const_sem : forall a, sem tdd_f a = TF /\ sem tdd_t a = TT /\ sem tdd_u a = TU.
Proof. intros; repeat split. Qed.

Lemma var_sem : forall l a, sem (tdd_var l) a = a l.
Proof. intros. unfold tdd_var. rewrite sem_node. destruct (a l); reflexivity. Qed.

Lemma const_var_wf :
  (forall v, ordered (Leaf v) /\ reduced (Leaf v)) /\
  (forall l, ordered (tdd_var l) /\ reduced (tdd_var l) /\ below (S l) (tdd_var l)).
Proof.
  split; [intros; split; exact I|]. intros l. unfold ordered, tdd_var. simpl.
  repeat split; try lia. intros [H _]. discriminate.
Qed.

Lemma apply_not_sem : forall f a, sem (apply_not f) a = k_not (sem f a).
Proof.
  induction f as [v|l t IHt u IHu e IHe]; intros a; [reflexivity|].
  simpl apply_not. rewrite mk_sem, !sem_node, IHt, IHu, IHe. destruct (a l); reflexivity.
Qed.

Lemma apply_not_ordered : forall f n, ordered_from n f -> ordered_from n (apply_not f).
Proof.
  induction f as [v|l t IHt u IHu e IHe]; intros n; [auto|].
  simpl. intros (H1 & Ht & Hu & He). apply mk_ordered; auto.
Qed.

Lemma apply_not_reduced : forall f, reduced f -> reduced (apply_not f).
Proof.
  induction f as [v|l t IHt u IHu e IHe]; [auto|].
  simpl. intros (_ & Ht & Hu & He). apply mk_reduced; auto.
Qed.

Lemma apply_not_below : forall f n, below n f -> below n (apply_not f).
Proof.
  induction f as [v|l t IHt u IHu e IHe]; intros n; [auto|].
  simpl. intros (H1 & Ht & Hu & He). apply mk_below; auto.
Qed.
