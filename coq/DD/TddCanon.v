(** DD/TddCanon.v — canonicity of ordered reduced diagrams
    (part of the proofs about the model DD/Tdd.v, property C11; re-exported by DD/TddProofs.v). *)
From Coq Require Import Bool Arith List Lia NArith ZArith.
From OxiVerif Require Import DD.Tdd DD.TddTables DD.TddBasic.
Import ListNotations.

(* ------------------------------------------------------------------------ *)
(** ** Canonicity: ordered + reduced diagrams of the same function are equal,
    hence handle equality decides equality of functions. *)
Lemma canon_aux : forall k f g, height f + height g <= k ->
  ordered f -> reduced f -> ordered g -> reduced g ->
  (forall a, sem f a = sem g a) -> f = g.
Proof.
  unfold ordered.
  induction k as [k IH] using lt_wf_ind. intros f g Hk Of Rf Og Rg Heq.
  (* a node whose children all denote the function of [x] (of smaller height) is not reduced *)
  assert (Hred : forall l t u e x, ordered_from 0 (Node l t u e) -> reduced (Node l t u e) ->
             ordered_from 0 x -> reduced x ->
             height (Node l t u e) + height x <= k ->
             (forall a v, sem x (upd a l v) = sem x a) ->
             (forall a, sem (Node l t u e) a = sem x a) -> False).
  { intros l t u e x (_ & Ot & Ou & Oe) (Hne & Rt & Ru & Re) Ox Rx Hh Hind Hs.
    simpl in Hh.
    assert (forall c v, (c = t /\ v = TT) \/ (c = u /\ v = TU) \/ (c = e /\ v = TF) -> c = x) as Hc.
    { intros c v Hcv.
      assert (Oc : ordered_from (S l) c) by (destruct Hcv as [[-> _]|[[-> _]|[-> _]]]; assumption).
      assert (Rc : reduced c) by (destruct Hcv as [[-> _]|[[-> _]|[-> _]]]; assumption).
      assert (Hc : height c <= Nat.max (height t) (Nat.max (height u) (height e)))
        by (destruct Hcv as [[-> _]|[[-> _]|[-> _]]]; lia).
      apply (IH (height c + height x)); try assumption; try lia.
      - apply ordered_from_mono with (S l); [lia|assumption].
      - intros a. rewrite <- (sem_indep c (S l) a l v) by (assumption || lia).
        rewrite <- (Hind a v). rewrite <- Hs. rewrite sem_node, upd_same.
        destruct Hcv as [[-> ->]|[[-> ->]|[-> ->]]]; reflexivity. }
    apply Hne. rewrite (Hc t TT), (Hc u TU), (Hc e TF); auto. }
  destruct f as [v|l t u e], g as [w|l' t' u' e'].
  - specialize (Heq (fun _ => TF)). simpl in Heq. congruence.
  - exfalso. apply (Hred l' t' u' e' (Leaf v)); auto; simpl in *; lia.
  - exfalso. apply (Hred l t u e (Leaf w)); auto.
  - destruct (lt_eq_lt_dec l l') as [[Hlt| ->]|Hgt].
    + exfalso. apply (Hred l t u e (Node l' t' u' e')); auto.
      intros a v. apply sem_indep with l'; [|assumption].
      destruct Og as (_ & Og). simpl. split; [lia|exact Og].
    + destruct Of as (_ & Ot & Ou & Oe). destruct Og as (_ & Ot' & Ou' & Oe').
      destruct Rf as (_ & Rt & Ru & Re). destruct Rg as (_ & Rt' & Ru' & Re').
      simpl in Hk.
      assert (forall c c' v, ordered_from (S l') c -> ordered_from (S l') c' -> reduced c -> reduced c' ->
                height c + height c' < k ->
                (forall a, sem c a = sem (Node l' t u e) (upd a l' v)) ->
                (forall a, sem c' a = sem (Node l' t' u' e') (upd a l' v)) -> c = c') as Hc.
      { intros c c' v Oc Oc' Rc Rc' Hh Hs Hs'.
        apply (IH (height c + height c')); try assumption; try lia.
        - apply ordered_from_mono with (S l'); [lia|assumption].
        - apply ordered_from_mono with (S l'); [lia|assumption].
        - intros a. rewrite Hs, Hs'. apply Heq. }
      f_equal.
      * apply (Hc t t' TT); auto; try lia; intros a; rewrite sem_node, upd_same;
          symmetry; apply sem_indep with (S l'); auto.
      * apply (Hc u u' TU); auto; try lia; intros a; rewrite sem_node, upd_same;
          symmetry; apply sem_indep with (S l'); auto.
      * apply (Hc e e' TF); auto; try lia; intros a; rewrite sem_node, upd_same;
          symmetry; apply sem_indep with (S l'); auto.
    + exfalso. apply (Hred l' t' u' e' (Node l t u e)); auto; try lia.
      intros a v. apply sem_indep with l; [|assumption].
      destruct Of as (_ & Of). simpl. split; [lia|exact Of].
Qed.

Theorem canon : forall f g,
  ordered f -> reduced f -> ordered g -> reduced g ->
  (forall a, sem f a = sem g a) -> f = g.
Proof. intros f g. apply (canon_aux (height f + height g)). lia. Qed.

Corollary tdd_eqb_iff_sem : forall f g,
  ordered f -> reduced f -> ordered g -> reduced g ->
  (tdd_eqb f g = true <-> forall a, sem f a = sem g a).
Proof.
  intros f g Of Rf Og Rg. rewrite tdd_eqb_eq. split; [intros ->; reflexivity|].
  apply canon; assumption.
Qed.
