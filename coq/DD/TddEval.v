(** DD/TddEval.v — [eval], [cofactors], and the canonical construction [tdd_of_fun]
    (part of the proofs about the model DD/Tdd.v, property C11; re-exported by DD/TddProofs.v). *)
From Coq Require Import Bool Arith List Lia NArith ZArith.
From OxiVerif Require Import DD.Tdd DD.TddTables DD.TddBasic DD.TddCanon.
Import ListNotations.

(* ------------------------------------------------------------------------ *)
(** * 7. [eval] and [cofactors] *)

Lemma choice_of_inj : forall v w, choice_of v = choice_of w -> v = w.
Proof. intros [] []; simpl; congruence. Qed.

Lemma set_choices_spec : forall args ch d,
  (forall l, ch l = choice_of (d l)) ->
  forall l, set_choices args ch l = choice_of (assignment_of args d l).
Proof.
  induction args as [|[l0 v0] r IH]; intros ch d H l; simpl; [apply H|].
  apply IH. intros x. unfold upd. destruct (Nat.eqb x l0); auto.
Qed.

Lemma eval_inner_sem : forall f ch a,
  (forall l, ch l = choice_of (a l)) -> eval_inner f ch = sem f a.
Proof.
  induction f as [v|l t IHt u IHu e IHe]; intros ch a H; [reflexivity|].
  simpl. rewrite (H l). destruct (a l); simpl; auto.
Qed.

(** [eval] follows the true / unknown / false child: it computes [sem] under
    the assignment denoted by the argument list (last pair wins). *)
Theorem eval_sem : forall f args, eval f args = sem f (assignment_of args (fun _ => TT)).
Proof.
  intros. unfold eval. apply eval_inner_sem. apply set_choices_spec. reflexivity.
Qed.

Lemma assignment_of_notin : forall args d l, ~ In l (map fst args) -> assignment_of args d l = d l.
Proof.
  induction args as [|[l0 v0] r IH]; intros d l H; simpl in *; [reflexivity|].
  rewrite IH by tauto. apply upd_other. intro; subst; tauto.
Qed.

Lemma assignment_of_consistent : forall args d a l,
  (forall x v, In (x, v) args -> v = a x) -> In l (map fst args) -> assignment_of args d l = a l.
Proof.
  induction args as [|[l0 v0] r IH]; intros d a l Hc Hin; simpl in *; [tauto|].
  destruct (in_dec Nat.eq_dec l (map fst r)) as [Hr|Hr].
  - apply IH; auto.
  - rewrite assignment_of_notin by assumption. destruct Hin as [->|]; [|tauto].
    rewrite upd_same. apply Hc. auto.
Qed.

Lemma sem_ext_below : forall f n a b, below n f -> (forall l, l < n -> a l = b l) -> sem f a = sem f b.
Proof.
  induction f as [v|l t IHt u IHu e IHe]; intros n a b Hb H; [reflexivity|].
  simpl in Hb. destruct Hb as (Hl & Ht & Hu & He). rewrite !sem_node, <- (H l Hl).
  rewrite (IHt n a b), (IHu n a b), (IHe n a b); auto.
Qed.

(** Complete assignments (every level of the manager is given, in any order,
    possibly repeatedly but consistently): [eval] is [sem]. *)
Theorem eval_complete : forall f n a args,
  below n f ->
  (forall x v, In (x, v) args -> v = a x) ->
  (forall l, l < n -> In l (map fst args)) ->
  eval f args = sem f a.
Proof.
  intros f n a args Hb Hc Hall. rewrite eval_sem. apply sem_ext_below with n; [assumption|].
  intros l Hl. apply assignment_of_consistent; auto.
Qed.

Corollary eval_complete_args : forall f n a, below n f -> eval f (complete_args n a) = sem f a.
Proof.
  intros f n a Hb. apply eval_complete with n; auto; unfold complete_args.
  - intros x v Hin. apply in_map_iff in Hin. destruct Hin as (l & [= <- <-] & _). reflexivity.
  - intros l Hl. rewrite map_map. simpl. rewrite map_id. apply in_seq. lia.
Qed.

(** [cofactors]: [None] exactly for terminals, otherwise the three children in
    the order true, unknown, false, and (ordered diagrams) these are the three
    restrictions of the function w.r.t. the top variable. *)
Theorem cofactors_spec : forall f,
  match f with
  | Leaf _ => cofactors f = None
  | Node l t u e =>
    cofactors f = Some (t, u, e) /\
    (forall n, ordered_from n f ->
      forall a, sem t a = sem f (upd a l TT) /\ sem u a = sem f (upd a l TU) /\
                sem e a = sem f (upd a l TF))
  end.
Proof.
  intros [v|l t u e]; [reflexivity|]. split; [reflexivity|].
  intros n (_ & Ot & Ou & Oe) a. rewrite !sem_node, !upd_same.
  rewrite (sem_indep t (S l)), (sem_indep u (S l)), (sem_indep e (S l)); auto.
Qed.

(** The top level of an ordered reduced diagram is the first level its function
    depends on: it is independent of all levels above ([sem_indep]) and it is
    not independent of its top level. *)
Theorem top_level_essential : forall l t u e,
  ordered (Node l t u e) -> reduced (Node l t u e) ->
  ~ (forall a v w, sem (Node l t u e) (upd a l v) = sem (Node l t u e) (upd a l w)).
Proof.
  intros l t u e (_ & Ot & Ou & Oe) (Hne & Rt & Ru & Re) Hind. apply Hne.
  assert (forall c, ordered_from (S l) c -> ordered c) as Hord
    by (intros c Hc; apply ordered_from_mono with (S l); [lia|assumption]).
  split; apply canon; auto; intros a.
  - pose proof (Hind a TT TU) as H. rewrite !sem_node, !upd_same in H.
    rewrite (sem_indep t (S l)), (sem_indep u (S l)) in H; auto.
  - pose proof (Hind a TU TF) as H. rewrite !sem_node, !upd_same in H.
    rewrite (sem_indep u (S l)), (sem_indep e (S l)) in H; auto.
Qed.

(* ------------------------------------------------------------------------ *)
(** * 8. Every function over finitely many levels has a reduced ordered diagram *)

Fixpoint incr_from (n : nat) (ls : list nat) : Prop :=
  match ls with
  | [] => True
  | l :: r => n <= l /\ incr_from (S l) r
  end.

Definition fn_ext (fn : tfun) : Prop := forall a b, (forall x, a x = b x) -> fn a = fn b.

Definition override (ls : list nat) (a b : assignment) : assignment :=
  fun x => if existsb (Nat.eqb x) ls then b x else a x.

Lemma incr_from_notin : forall ls n l, incr_from n ls -> l < n -> existsb (Nat.eqb l) ls = false.
Proof.
  induction ls as [|l0 r IH]; intros n l H Hl; [reflexivity|]. simpl in *.
  destruct H as [H1 H2]. destruct (Nat.eqb_spec l l0); [lia|]. simpl. apply (IH (S l0)); auto. lia.
Qed.

Lemma tdd_of_fun_wf : forall ls fn a n, incr_from n ls ->
  ordered_from n (tdd_of_fun ls fn a) /\ reduced (tdd_of_fun ls fn a) /\
  (forall m, (forall l, In l ls -> l < m) -> below m (tdd_of_fun ls fn a)).
Proof.
  induction ls as [|l r IH]; intros fn a n H; simpl; [repeat split; auto|].
  destruct H as [H1 H2].
  destruct (IH fn (upd a l TT) _ H2) as (O1 & R1 & B1).
  destruct (IH fn (upd a l TU) _ H2) as (O2 & R2 & B2).
  destruct (IH fn (upd a l TF) _ H2) as (O3 & R3 & B3).
  repeat split.
  - apply mk_ordered; auto.
  - apply mk_reduced; auto.
  - intros m Hm. apply mk_below; auto.
Qed.

Theorem tdd_of_fun_sem : forall ls fn a b n, fn_ext fn -> incr_from n ls ->
  sem (tdd_of_fun ls fn a) b = fn (override ls a b).
Proof.
  induction ls as [|l r IH]; intros fn a b n Hext H; simpl.
  - apply Hext. reflexivity.
  - destruct H as [H1 H2]. rewrite mk_sem, sem_node.
    assert (forall v, b l = v -> sem (tdd_of_fun r fn (upd a l v)) b = fn (override (l :: r) a b)) as Hv.
    { intros v Hv. rewrite (IH fn _ b _ Hext H2). apply Hext. intros x. unfold override. simpl.
      destruct (Nat.eqb_spec x l) as [->|Hne]; simpl.
      - rewrite (incr_from_notin r (S l) l H2) by lia. rewrite upd_same. auto.
      - destruct (existsb (Nat.eqb x) r); [reflexivity|]. apply upd_other. assumption. }
    destruct (b l) eqn:E; apply Hv; reflexivity.
Qed.

(** Satisfiability of the hypotheses used throughout (a concrete non-trivial
    ordered, reduced two-level diagram and a complete run of the operators). *)
Example wf_example :
  let f := Node 0 (tdd_var 1) (Leaf TU) (Node 1 (Leaf TF) (Leaf TT) (Leaf TT)) in
  ordered f /\ reduced f /\ below 2 f /\
  apply_bin_auto gt_size Imp f (tdd_var 1) =
    Some (Node 0 (Leaf TT) (Node 1 (Leaf TT) (Leaf TT) (Leaf TU)) (Node 1 (Leaf TT) (Leaf TU) (Leaf TF))) /\
  apply_ite_auto gt_size (tdd_var 0) f (Leaf TU) = Some (Node 0 (tdd_var 1) (Leaf TU) (Leaf TU)).
Proof.
  cbv zeta. unfold ordered. simpl ordered_from. simpl reduced. simpl below.
  repeat split; try lia; try (intros [H1 H2]; discriminate).
Qed.
